import S2T.Drv.Util
import S2T.Model.ZipBomb
import S2T.Gen.ZipBomb
namespace S2T.Drv.C11
open Lean S2T.Drv S2T.ZipBomb

def reasonStr : Reason → String
  | .inspectFailed => "inspectFailed" | .tooManyEntries => "tooManyEntries"
  | .entryTooLarge => "entryTooLarge" | .entryZeroCompressed => "entryZeroCompressed"
  | .entryRatio => "entryRatio" | .totalTooLarge => "totalTooLarge"
  | .totalZeroCompressed => "totalZeroCompressed" | .totalRatio => "totalRatio"

/-- limits: {"me","mt","ms": nat, "tr": [num, den], "er": [num, den]}, or "default" (the generated ones) -/
def getLimits (j : Json) : Except String Limits := do
  let l ← j.getObjVal? "lim"
  match l with
  | .str "default" => return S2T.Gen.ZipBomb.defaultLimits
  | _ =>
    let tr ← natArr l "tr"
    let er ← natArr l "er"
    match tr, er with
    | [tn, td], [en, ed] =>
      if td = 0 ∨ ed = 0 then throw "ratio with zero denominator"
      return { maxEntries := ← getNat l "me", maxTotal := ← getNat l "mt", maxSingle := ← getNat l "ms",
               totalRatio := ⟨tn, td⟩, entryRatio := ⟨en, ed⟩ }
    | _, _ => throw "tr/er must be [num, den]"

def getEntry (j : Json) : Except String Entry := do
  let a ← j.getArr?
  match a.toList with
  | [f, c, d] => return { fileSize := ← f.getNat?, compressSize := ← c.getNat?, isDir := ← d.getBool? }
  | _ => throw "entry must be [file_size, compress_size, is_dir]"

def natList (j : Json) : Except String (List Nat) := do
  (← j.getArr?).toList.mapM (fun x => x.getNat?)

/-- a full central-directory record
    [fs, cs, name, external_attr, internal_attr, create_system, create_version, extract_version, flag_bits,
     compress_type, crc, dos_date, dos_time, volume, [extra bytes], [comment bytes]] -/
def getRecord (j : Json) : Except String CdRecord := do
  let a ← j.getArr?
  match a.toList with
  | [f, c, n, ea, ia, sy, cv, xv, fl, ct, crc, dd, dt, vol, ex, cm] =>
    return { filename := (← n.getStr?).toList, fileSize := ← f.getNat?, compressSize := ← c.getNat?,
             externalAttr := ← ea.getNat?, internalAttr := ← ia.getNat?, createSystem := ← sy.getNat?,
             createVersion := ← cv.getNat?, extractVersion := ← xv.getNat?, flagBits := ← fl.getNat?,
             compressType := ← ct.getNat?, crc := ← crc.getNat?, dosDate := ← dd.getNat?, dosTime := ← dt.getNat?,
             volume := ← vol.getNat?, extra := ← natList ex, comment := ← natList cm }
  | _ => throw "record must have 16 components"

/-- "recs": [[full record], …] (the model derives `is_dir` from the NAME: `Entry.ofRecord`), else
    "infos": null (infolist() raises) | [[fs, cs, dir], …] -/
def getInfos (j : Json) : Except String (Option (List Entry)) := do
  if let .ok (.arr a) := j.getObjVal? "recs" then
    return some ((← a.toList.mapM getRecord).map Entry.ofRecord)
  match j.getObjVal? "infos" with
  | .ok .null => return none
  | .ok (.arr a) => return some (← a.toList.mapM getEntry)
  | _ => throw "infos must be null or an array"

def verdict : Except Reason Unit → List (String × Json)
  | .ok () => [("res", "ok")]
  | .error r => [("res", "bomb"), ("reason", Json.str (reasonStr r))]

def verdictE {α} : Except Err α → List (String × Json)
  | .ok _ => [("res", "ok")]
  | .error .zipOpen => [("res", "zipOpen")]
  | .error (.bomb r) => [("res", "bomb"), ("reason", Json.str (reasonStr r))]

def eventStr : Event → String
  | .seek n => s!"seek:{n}" | .construct => "construct" | .validate true => "validate:ok"
  | .validate false => "validate:fail" | .close => "close" | .read => "read"

/-- "open": "raise" | "ok"  (does zipfile.ZipFile(...) construct?), "after": position zipfile leaves -/
def getZipOpen (j : Json) : Except String ZipOpen := do
  let o ← getStr j "open"
  let after ← getNat j "after"
  if o == "raise" then return { infolist := none, posAfter := after }
  return { infolist := some (← getInfos j), posAfter := after }

/-- op `c11.validate`: validate_zipfile on an infolist -/
def opValidate (j : Json) : Except String Json := do
  return Json.mkObj (verdict (validate (← getLimits j) (← getInfos j)))

/-- op `c11.bytesio`: validate_zip_bytesio — verdict and final stream position -/
def opBytesio (j : Json) : Except String Json := do
  let r := validateZipBytesio (← getLimits j) { pos := ← getNat j "pos" } (← getZipOpen j)
  return Json.mkObj (verdictE r.result ++ [("pos", toJson r.stream.pos),
    ("trace", Json.arr (r.trace.map (fun e => Json.str (eventStr e))).toArray)])

/-- op `c11.open`: open_zipfile — verdict, whether a handle is returned, whether the object was closed -/
def opOpen (j : Json) : Except String Json := do
  let r := openZipfile (← getLimits j) { pos := ← getNat j "pos" } (← getZipOpen j)
  return Json.mkObj (verdictE r.result ++ [("pos", toJson r.stream.pos),
    ("closed", Json.bool (r.trace.contains .close)),
    ("trace", Json.arr (r.trace.map (fun e => Json.str (eventStr e))).toArray)])

def getMon (j : Json) : Except String Mon := do
  let a ← j.getArr?
  match a.toList with
  | [.str "c", k] => return .construct (← k.getNat?)
  | [.str "v", k, b] => return .validated (← k.getNat?) (← b.getBool?)
  | [.str "r", k] => return .read (← k.getNat?)
  | _ => throw "monitor event must be [\"c\",k] | [\"v\",k,ok] | [\"r\",k]"

/-- op `c11.monitor`: the runtime log acceptor `validatedBeforeRead` -/
def opMonitor (j : Json) : Except String Json := do
  let evs ← (← getArr j "log").toList.mapM getMon
  return Json.mkObj [("accept", Json.bool (validatedBeforeRead [] evs))]

def handle (op : String) (j : Json) : Option (Except String Json) :=
  match op with
  | "c11.validate" => some (opValidate j)
  | "c11.bytesio" => some (opBytesio j)
  | "c11.open" => some (opOpen j)
  | "c11.monitor" => some (opMonitor j)
  | _ => none

end S2T.Drv.C11
