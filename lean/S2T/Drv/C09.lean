import S2T.Drv.Util
import S2T.Gen.Router
import S2T.Gen.Archive
import S2T.Model.ArchiveGuard
import S2T.Model.ArchiveAttrs
namespace S2T.Drv.C09
open Lean S2T.Drv S2T.Archive
open S2T.Router (Str)

private def assoc (l : List (Str × α)) (k : Str) : Option α :=
  match l with
  | [] => none
  | (k', v) :: r => if k == k' then some v else assoc r k

private def pairsStr (j : Json) (k : String) : Except String (List (Str × Str)) := do
  match j.getObjVal? k with
  | .error _ => return []
  | .ok v =>
    let a ← v.getArr?
    a.toList.mapM fun x => do
      let p ← x.getArr?
      let a0 ← (p[0]?.getD Json.null).getStr?
      let a1 ← (p[1]?.getD Json.null).getStr?
      return (chars a0, chars a1)

private def pairsOptStr (j : Json) (k : String) : Except String (List (Str × Option Str)) := do
  match j.getObjVal? k with
  | .error _ => return []
  | .ok v =>
    let a ← v.getArr?
    a.toList.mapM fun x => do
      let p ← x.getArr?
      let a0 ← (p[0]?.getD Json.null).getStr?
      let a1 := match p[1]? with
        | some (Json.str s) => some (chars s)
        | _ => none
      return (chars a0, a1)

private def optNats (v : Json) : Except String (Option (List Nat)) :=
  match v with
  | .null => .ok none
  | v => do
    let a ← v.getArr?
    let l ← a.toList.mapM (fun x => x.getNat?)
    return some l

/-- host table: [[path, null | [bytes]]] — null = directory -/
private def hostTable (j : Json) : Except String (List (Str × Option (List Nat))) := do
  match j.getObjVal? "host" with
  | .error _ => return []
  | .ok v =>
    let a ← v.getArr?
    a.toList.mapM fun x => do
      let p ← x.getArr?
      let a0 ← (p[0]?.getD Json.null).getStr?
      let d ← optNats (p[1]?.getD Json.null)
      return (chars a0, d)

/-- The driver's `Env`: `lower` and `mime` are the interpreter's answers shipped with the request
    (a name that was not shipped keeps itself / has no MIME type: the harness ships every name it
    uses); `nres`: the plain-text extractor yields one result, every other extractor is fed bytes it
    rejects (the harness guarantees it) and yields none. -/
private def mkEnv (j : Json) : Except String Env := do
  let lowers ← pairsStr j "lowers"
  let mimes ← pairsOptStr j "mimes"
  let host ← hostTable j
  let T := S2T.Gen.Router.tables
  let lower : Str → Str := fun s => (assoc lowers s).getD s
  let mime : Str → Option Str := fun s => (assoc mimes s).getD none
  return {
    lower := lower
    mime := mime
    nres := fun bname _ =>
      match S2T.Router.getExtractor T (lower bname) (mime (lower bname)) with
      | .ok (_, fn) => if fn == "read_plain_text".toList then 1 else 0
      | .error _ => 0
    host := fun p => assoc host p }

private def limits (j : Json) : Except String Limits := do
  let mm := match j.getObjValAs? Nat "max_memory" with
    | .ok n => n
    | .error _ => S2T.Gen.Archive.maxMemory
  let me := match j.getObjValAs? Nat "max_entry" with
    | .ok n => n
    | .error _ => S2T.Gen.Archive.maxEntry
  return { maxMemory := mm, maxEntry := me }

private def skipFn (j : Json) (env : Env) : Str → Str → Bool :=
  match j.getObjValAs? String "variant" with
  | .ok "old" => shouldSkipOld S2T.Gen.Router.tables S2T.Gen.Archive.nested env
  | _ => shouldSkip S2T.Gen.Router.tables S2T.Gen.Archive.nested env

private def errName : Err → String
  | .absolutePath => "absolutePath" | .unsafePath => "unsafePath" | .outOfBounds => "outOfBounds"
  | .mkdirFailed => "mkdirFailed" | .writeFailed => "writeFailed" | .decodeFailed => "decodeFailed"
  | .encrypted => "encrypted" | .badArchive => "badArchive"

private def jRes (l : List Res) : Json := Json.arr (l.map (fun r => Json.arr #[jStr r.1, jNats r.2])).toArray

/-- op `c09.path` -/
def pathOp (j : Json) : Except String Json := do
  let fn ← getStr j "fn"
  let a := chars ((getStr j "a").toOption.getD "")
  let b := chars ((getStr j "b").toOption.getD "")
  let cwd := chars ((getStr j "cwd").toOption.getD "/")
  match fn with
  | "join" => return Json.mkObj [("r", jStr (join a b))]
  | "normpath" => return Json.mkObj [("r", jStr (normpath a))]
  | "abspath" => return Json.mkObj [("r", jStr (abspath cwd a))]
  | "dirname" => return Json.mkObj [("r", jStr (dirname a))]
  | "basename" => return Json.mkObj [("r", jStr (basename a))]
  | "split" => return Json.mkObj [("r", Json.arr ((splitOn '/' a).map jStr).toArray)]
  | "safejoin" =>
    match safeJoin cwd a b with
    | .ok p => return Json.mkObj [("r", jStr p)]
    | .error e => return Json.mkObj [("err", Json.str (errName e))]
  | _ => throw s!"c09.path: unknown fn {fn}"

/-- op `c09.skip`: {"filename", "lowers", "mimes", "variant"} -/
def skipOp (j : Json) : Except String Json := do
  let env ← mkEnv j
  let fnm := chars (← getStr j "filename")
  let bn := basename fnm
  return Json.mkObj [("skip", Json.bool (skipFn j env fnm bn)), ("basename", jStr bn),
    ("hidden", Json.bool (hidden fnm bn)),
    ("to_archive", Json.bool (routesToArchive S2T.Gen.Router.tables env (env.lower bn)))]

def zipOp (j : Json) : Except String Json := do
  let env ← mkEnv j
  let lim ← limits j
  let ms ← getArr j "members"
  let members ← ms.toList.mapM fun m => do
    let d ← optNats ((m.getObjVal? "data").toOption.getD Json.null)
    return ({ filename := chars (← getStr m "filename"), isDir := ← getBool m "is_dir",
              encrypted := ← getBool m "enc", fileSize := ← getNat m "size", read := d } : ZipMember)
  let r := zipRun (skipFn j env) env lim members
  return Json.mkObj [("res", jRes r.1), ("err", match r.2 with | none => Json.null | some e => Json.str (errName e))]

def tarOp (j : Json) : Except String Json := do
  let env ← mkEnv j
  let lim ← limits j
  let ms ← getArr j "members"
  let members ← ms.toList.mapM fun m => do
    let d ← optNats ((m.getObjVal? "data").toOption.getD Json.null)
    return ({ name := chars (← getStr m "name"), isReg := ← getBool m "is_reg",
              size := ← getNat m "size", read := d } : TarMember)
  return Json.mkObj [("res", jRes (tarRun (skipFn j env) env lim members))]

private def jEv : Ev → Json
  | .mkdtemp p => Json.arr #["mkdtemp", jStr p]
  | .rmtree p => Json.arr #["rmtree", jStr p]
  | .mkdir p => Json.arr #["mkdir", jStr p]
  | .write p => Json.arr #["openW", jStr p]
  | .probe p => Json.arr #["stat", jStr p]
  | .read p => Json.arr #["openR", jStr p]

def sevenOp (j : Json) : Except String Json := do
  let env ← mkEnv j
  let lim ← limits j
  let es ← getArr j "entries"
  let entries ← es.toList.mapM fun e => do
    -- with an attribute word ("attr": the uint32 the writer put into the header) the model is handed the WHOLE word
    -- and keeps of it what `_build_file_list` keeps (`AttrEntry.toRaw`); without one, the bit itself
    match e.getObjValAs? Nat "attr" with
    | .ok w => return (({ name := chars (← getStr e "name"), emptyStream := ← getBool e "empty", attributes := w } : AttrEntry).toRaw)
    | .error _ =>
      return ({ name := chars (← getStr e "name"), emptyStream := ← getBool e "empty", attrDir := ← getBool e "attrdir" } : RawEntry)
  let sizes ← natArr j "file_sizes"
  let efs : List Bool := match getArr j "empty_files" with
    | .ok a => a.toList.map (fun x => x.getBool?.toOption.getD false)
    | .error _ => []
  let folders ← natArr j "folders"
  let fd ← getArr j "folder_data"
  let folderData ← fd.toList.mapM optNats
  let cwd := chars (← getStr j "cwd")
  let base := chars (← getStr j "base")
  let c : Consumer := match j.getObjValAs? Nat "close_after" with
    | .ok k => .closeAfter k
    | .error _ => .exhaust
  let a : SevenZ := { entries, fileSizes := sizes, emptyFiles := efs, folders, folderData }
  let T := S2T.Gen.Router.tables
  let nested := S2T.Gen.Archive.nested
  let t := match j.getObjValAs? String "variant" with
    | .ok "old" => run7zOld T nested env lim cwd base a c
    | _ => run7z T nested env lim cwd base a c
  let out := match t.out with
    | .finished => "finished" | .closed => "closed" | .notStarted => "notStarted"
    | .failed e => "failed:" ++ errName e
  -- content of the private directory when it is removed (`tempFiles`: Props/C09_Filter.lean is about this function)
  let tmp := match j.getObjValAs? String "variant" with
    | .ok "old" => []
    | _ => tempFiles T nested env lim cwd base a c
  return Json.mkObj [("evs", Json.arr (t.evs.map jEv).toArray), ("res", jRes t.res), ("out", Json.str out),
    ("tmp", Json.arr (tmp.map (fun pd => Json.arr #[jStr pd.1, jNats pd.2])).toArray)]

private def fsEvent (x : Json) : Except String FsEvent := do
  let a ← x.getArr?
  let kind ← (a[0]?.getD Json.null).getStr?
  let p := chars ((a[1]?.getD Json.null).getStr?.toOption.getD "")
  match kind with
  | "mkdtemp" => return .mkdtemp p
  | "rmtree" => return .rmtree p ((a[2]?.getD (Json.bool false)).getBool?.toOption.getD false)
  | "mkdir" => return .mkdir p
  | "mkdirExisting" => return .mkdirExisting p
  | "openW" => return .openW p
  | "openR" => return .openR p
  | "stat" => return .stat p
  | "remove" => return .remove p
  | "rmdir" => return .rmdir p
  | "listdir" => return .listdir p
  | k => return .other (chars k) p

def confinedOp (j : Json) : Except String Json := do
  let root := chars (← getStr j "tmp_root")
  let ro ← getArr j "ro"
  let roL ← ro.toList.mapM (fun x => do return chars (← x.getStr?))
  let evs ← getArr j "events"
  let evL ← evs.toList.mapM fsEvent
  let cfg : Cfg := { tmpRoot := root, roPrefixes := roL }
  return Json.mkObj [("ok", Json.bool (confined cfg evL)),
    ("bad", match firstBad cfg [] evL 0 with | none => Json.null | some i => Json.num (JsonNumber.fromNat i))]

def handle (op : String) (j : Json) : Option (Except String Json) :=
  match op with
  | "c09.path" => some (pathOp j)
  | "c09.skip" => some (skipOp j)
  | "c09.zip" => some (zipOp j)
  | "c09.tar" => some (tarOp j)
  | "c09.7z" => some (sevenOp j)
  | "c09.confined" => some (confinedOp j)
  | _ => none

end S2T.Drv.C09
