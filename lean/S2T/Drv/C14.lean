import S2T.Drv.Util
import S2T.Model.Images
import S2T.Gen.Images
import S2T.Model.ImageParts
import S2T.Gen.ImageParts
import S2T.Model.ImageRels
import S2T.Gen.ImageRels
namespace S2T.Drv.C14
open Lean S2T.Drv S2T.Images

/-- the relationship-type guards of the current source (same expressions as `S2T.C14.Rels.sheetGuard` …) -/
def sheetGuard : RelGuard := guardOf ("drawing", false) S2T.Gen.ImageRels.xlsx_sheet_guard
def imageGuard : RelGuard := guardOf ("image", false) S2T.Gen.ImageRels.xlsx_image_guard
def docxGuard : RelGuard := guardOf ("image", true) S2T.Gen.ImageRels.docx_image_guard

/-- op `c14.resolve`: {"fn": which resolver, "a": directory / part name argument, "t": target} ↦ {"r": member name} -/
def resolve (j : Json) : Except String Json := do
  let fn ← getStr j "fn"
  let a := chars ((← getOptStr j "a").getD "")
  let t := chars (← getStr j "t")
  let r ← match fn with
    | "part" => pure (resolvePartTarget a t)
    | "pptx" => pure (pptxImagePath a t)
    | "docx" => pure (docxImagePath t)
    | "xlsx_drawing" => pure (xlsxDrawingPath t)
    | "xlsx_image" => pure (xlsxImagePath t a)
    | "epub" => pure (epubResolve a t)
    | "odf" => pure (odfResolve t)
    | "pptx_old" => pure (pptxNormalizeOld a t)
    | _ => throw s!"unknown resolver {fn}"
  return Json.mkObj [("r", jStr r)]

/-- op `c14.ctype`: {"fn": "docx"|"pptx"|"xlsx", "t": target / file name} ↦ {"r": content type} -/
def ctype (j : Json) : Except String Json := do
  let fn ← getStr j "fn"
  let t := chars (← getStr j "t")
  let r ← match fn with
    | "docx" => pure (ctypeByTarget S2T.Gen.Images.ctype_docx t)
    | "pptx" => pure (ctypeByTarget S2T.Gen.Images.ctype_pptx t)
    | "xlsx" => pure (ctypeXlsx S2T.Gen.Images.ctype_xlsx t)
    | _ => throw s!"unknown table {fn}"
  return Json.mkObj [("r", jStr r)]

def jOptNat : Option Nat → Json
  | some n => Json.num (JsonNumber.fromNat n)
  | none => Json.null
def jOptInt : Option Int → Json
  | some n => Json.num (JsonNumber.fromInt n)
  | none => Json.null

/-- op `c14.sniff`: {"fn": "docx"|"xlsx"|"pptx"|"util", "kind": 0 png|1 jpeg|2 bmp|3 gif (util only), "d": bytes}
    ↦ {"w", "h"} (null = None); for the three extractor copies also {"mw","mh"} = what ImageMetadata shows -/
def sniff (j : Json) : Except String Json := do
  let fn ← getStr j "fn"
  let d ← natArr j "d"
  match fn with
  | "util" =>
    let kind ← getNat j "kind"
    let r := utilDims (utilJpeg S2T.Gen.Images.sof_util) kind d
    return Json.mkObj [("w", jOptInt r.1), ("h", jOptInt r.2)]
  | _ =>
    let r ← match fn with
      | "docx" => pure (sniffA S2T.Gen.Images.sof_docx S2T.Gen.Images.stop_docx d)
      | "xlsx" => pure (sniffA S2T.Gen.Images.sof_xlsx S2T.Gen.Images.stop_xlsx d)
      | "pptx" => pure (sniffB S2T.Gen.Images.sof_pptx S2T.Gen.Images.stop_pptx d)
      | _ => throw s!"unknown sniffer {fn}"
    return Json.mkObj [("w", jOptNat r.1), ("h", jOptNat r.2), ("mw", jOptNat (metaDim r.1)), ("mh", jOptNat (metaDim r.2))]

def jImg (im : Img) : Json := Json.arr #[Json.num (JsonNumber.fromNat im.number), jOptNat im.unit, jOptNat im.content]
def jImgs (l : List Img) : Json := Json.arr (l.map jImg).toArray
def jUnits (l : List (List Img)) : Json := Json.arr (l.map jImgs).toArray

def mkPkg (members : List (List Char × Nat)) : Pkg := fun n => (members.find? (fun m => m.1 == n)).map (·.2)

def arrOf (v : Json) : Except String (List Json) := do return (← v.getArr?).toList
def optStrOf (v : Json) : Except String (Option (List Char)) :=
  match v with
  | .null => pure none
  | v => do return some (chars (← v.getStr?))
def strOf (v : Json) : Except String (List Char) := do return chars (← v.getStr?)
def pairOf (v : Json) : Except String (Json × Json) := do
  match (← v.getArr?).toList with
  | [a, b] => pure (a, b)
  | _ => throw "expected a pair"

def relOf (v : Json) : Except String Rel := do
  match (← v.getArr?).toList with
  | [i, t, g] => pure ⟨(← strOf i), (← strOf t), (← strOf g)⟩
  | _ => throw "expected [id, type, target]"

/-- op `c14.relkinds`: the inventory the theorems of Props/C14_Rels quantify over -/
def relkinds (_ : Json) : Except String Json := do
  let l (x : List (List Char)) := Json.arr (x.map jStr).toArray
  return Json.mkObj [("ns", l relNamespaces), ("sheet", l sheetRelKinds), ("drawing", l drawingRelKinds), ("document", l documentRelKinds)]

/-- op `c14.extract`: the image loop of one format on an abstract document; see harness/props/c14.py `model_request` -/
def extract (j : Json) : Except String Json := do
  let fmt ← getStr j "fmt"
  let pkgArr ← getArr j "pkg"
  let members ← pkgArr.toList.mapM (fun v => do let (a, b) ← pairOf v; return (← strOf a, ← b.getNat?))
  let pkg := mkPkg members
  let unitsJ ← (do
    match j.getObjVal? "units" with
    | .ok v => arrOf v
    | .error _ => pure [])
  match fmt with
  | "pptx" | "pptx_old" =>
    let slides ← unitsJ.mapM (fun u => do
      (← arrOf u).mapM (fun a => do let (p, t) ← pairOf a; return (← strOf p, ← optStrOf t)))
    return Json.mkObj [("units", jUnits (if fmt = "pptx" then pptxExtract pkg slides else pptxExtractOld pkg slides))]
  | "pdf" =>
    let pages ← unitsJ.mapM (fun u => do (← arrOf u).mapM (fun a => do return ((← a.getNat?), ([] : List Char))))
    return Json.mkObj [("units", jUnits (pdfExtract pages))]
  | "odp" | "ods" =>
    let us ← unitsJ.mapM (fun u => do (← arrOf u).mapM strOf)
    return Json.mkObj [("units", jUnits (if fmt = "odp" then odpExtract pkg us else odsExtract pkg us))]
  | "xlsx" =>
    let sheets ← unitsJ.mapM (fun u => do
      let (d, as) ← pairOf u
      let as ← (← arrOf as).mapM (fun a => do let (k, t) ← pairOf a; return ((← k.getNat?), (← optStrOf t)))
      return ((← optStrOf d).map xlsxDrawingPath, as))
    -- from the package: "n" sheets, "rels" = [[member name, drawing target | null]] for every worksheet relationships
    -- part of the zip, "drawings" = [[drawing part name, anchors]]; the model probes the names itself
    let fromPkg ← (do
      match j.getObjVal? "rels" with
      | .error _ => pure []
      | .ok rv =>
        let n ← getNat j "n"
        let relsL ← (← arrOf rv).mapM (fun r => do let (a, b) ← pairOf r; return ((← strOf a), (← optStrOf b)))
        let drawL ← (← arrOf (← j.getObjVal? "drawings")).mapM (fun d => do
          let (p, as) ← pairOf d
          let as ← (← arrOf as).mapM (fun a => do let (k, t) ← pairOf a; return ((← k.getNat?), (← optStrOf t)))
          return ((← strOf p), as))
        let rels : SheetRels := fun nm => (relsL.find? (fun r => r.1 == nm)).map (·.2)
        let dr : Drawings := fun d => ((drawL.find? (fun r => r.1 == d)).map (·.2)).getD []
        pure [("units_pkg", jUnits (xlsxExtractPkg pkg rels dr n))])
    -- from the relationships parts as they are: "sheet_parts" = [[member name, [[id, type, target]]]],
    -- "drawing_parts" = [[drawing part name, [[anchor kind, r:embed id | null]], [[id, type, target]]]];
    -- the model selects the relationships by the guards of the source
    let fromRels ← (do
      match j.getObjVal? "sheet_parts" with
      | .error _ => pure []
      | .ok sv =>
        let n ← getNat j "n"
        let partsL ← (← arrOf sv).mapM (fun r => do let (a, b) ← pairOf r; return ((← strOf a), (← (← arrOf b).mapM relOf)))
        let drawL ← (← arrOf (← j.getObjVal? "drawing_parts")).mapM (fun d => do
          match (← d.getArr?).toList with
          | [p, as, rs] =>
            let rels ← (← arrOf rs).mapM relOf
            let as ← (← arrOf as).mapM (fun a => do
              let (k, t) ← pairOf a
              return ((← k.getNat?), (← optStrOf t).bind (ridLookup imageGuard rels)))
            pure ((← strOf p), as)
          | _ => throw "expected [part, anchors, rels]")
        let rels : SheetRels := fun nm => (partsL.find? (fun r => r.1 == nm)).map (fun r => pickFirstTarget sheetGuard r.2)
        let dr : Drawings := fun d => ((drawL.find? (fun r => r.1 == d)).map (·.2)).getD []
        pure [("units_rels", jUnits (xlsxExtractPkg pkg rels dr n))])
    return Json.mkObj ([("units", jUnits (xlsxExtract pkg sheets))] ++ fromPkg ++ fromRels)
  | "docx" | "docx_old" =>
    let rels ← unitsJ.mapM (fun a => do
      match (← a.getArr?).toList with
      | [i, b, t] => pure ((← strOf i), (← b.getBool?), (← strOf t))
      | _ => throw "expected [id, isImage, target]")
    let body ← (← getArr j "body").toList.mapM strOf
    -- "rel_parts" = [[id, type, target]] of word/_rels/document.xml.rels: image relationships selected by the source's guard
    let fromRels ← (do
      match j.getObjVal? "rel_parts" with
      | .error _ => pure []
      | .ok rv =>
        let rl ← (← arrOf rv).mapM relOf
        pure [("units_rels", jUnits [docxExtract pkg (rl.map fun r => (r.id, docxGuard.holds r.type, r.target)) body])])
    return Json.mkObj ([("units", jUnits [if fmt = "docx" then docxExtract pkg rels body else docxExtractOld pkg rels])] ++ fromRels)
  | "epub" =>
    let dir := chars (← getStr j "opf_dir")
    let items ← unitsJ.mapM (fun a => do let (b, t) ← pairOf a; return ((← b.getBool?), (← strOf t)))
    return Json.mkObj [("units", jUnits [epubExtract pkg dir items])]
  | "odt" =>
    let hs ← unitsJ.mapM strOf
    return Json.mkObj [("units", jUnits [odtExtract pkg hs])]
  | "odg" =>
    let hs ← unitsJ.mapM strOf
    return Json.mkObj [("units", jUnits [odgExtract pkg hs])]
  | "rtf" =>
    let ps ← unitsJ.mapM (fun a => do let (p, c) ← pairOf a; return ((← p.getNat?), (← c.getNat?)))
    return Json.mkObj [("units", jUnits [rtfExtract ps])]
  | _ => throw s!"unknown format {fmt}"

/-- op `c14.pdffilter`: {"f": filter name | [names]} ↦ {"filter", "format", "ct"} as `_extract_image` stores them -/
def pdffilter (j : Json) : Except String Json := do
  let v ← j.getObjVal? "f"
  let f ← match v with
    | .arr a => do pure (PdfFilter.array (← a.toList.mapM strOf))
    | v => do pure (PdfFilter.name (← strOf v))
  return Json.mkObj [("filter", jStr (pdfFilterType f)), ("format", jStr (pdfFormat S2T.Gen.ImageParts.pdf_format f)),
                     ("ct", jStr (pdfCtype S2T.Gen.ImageParts.pdf_ctype f))]

def handle (op : String) (j : Json) : Option (Except String Json) :=
  match op with
  | "c14.resolve" => some (resolve j)
  | "c14.ctype" => some (ctype j)
  | "c14.sniff" => some (sniff j)
  | "c14.extract" => some (extract j)
  | "c14.pdffilter" => some (pdffilter j)
  | "c14.relkinds" => some (relkinds j)
  | _ => none

end S2T.Drv.C14
