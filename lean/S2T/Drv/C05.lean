import S2T.Drv.Util
import S2T.Spec.Serial
import S2T.Model.SerialState
import S2T.Model.SerialHeap
import S2T.Gen.Schema
/-!
Driver handler for C05.  Values travel as tagged JSON arrays:
`["n"]` None, `["b",bool]`, `["i","<decimal>"]`, `["f","<repr>"]`, `["s",str]`, `["y",[bytes]]` bytes,
`["ya",[..]]` bytearray, `["yi",[..]]` BytesIO, `["l",[v..]]` list, `["tu",[..]]` tuple, `["se",[..]]` set,
`["d",[[key,v]..]]` dict (key: `["n"]`,`["b",bool]`,`["i","…"]`,`["s",str]`,`["k","<str(key)>"]`),
`["o","Class",[["field",v]..]]` dataclass instance, `["x","typename"]` foreign object.
-/
namespace S2T.Drv.C05
open Lean S2T.Drv S2T.Serial

def parseInt (s : String) : Except String Int :=
  match s.toInt? with
  | some i => .ok i
  | none => .error s!"bad int {s}"

def arrNats (j : Json) : Except String (List Nat) := do
  let a ← j.getArr?
  a.toList.mapM (fun x => x.getNat?)

def parseKey (j : Json) : Except String Key := do
  let a ← j.getArr?
  let tag ← (a[0]?.getD Json.null).getStr?
  let arg := a[1]?.getD Json.null
  match tag with
  | "n" => return .none
  | "b" => return .bool (← arg.getBool?)
  | "i" => return .int (← parseInt (← arg.getStr?))
  | "s" => return .str (← arg.getStr?).toList
  | "k" => return .other (← arg.getStr?).toList
  | t => throw s!"bad key tag {t}"

partial def parseVal (j : Json) : Except String PyVal := do
  let a ← j.getArr?
  let tag ← (a[0]?.getD Json.null).getStr?
  let arg := a[1]?.getD Json.null
  match tag with
  | "n" => return .none
  | "b" => return .bool (← arg.getBool?)
  | "i" => return .int (← parseInt (← arg.getStr?))
  | "f" => return .float (← arg.getStr?).toList
  | "s" => return .str (← arg.getStr?).toList
  | "y" => return .bytes (← arrNats arg)
  | "ya" => return .bytearray (← arrNats arg)
  | "yi" => return .bytesio (← arrNats arg)
  | "l" => return .list (← (← arg.getArr?).toList.mapM parseVal)
  | "tu" => return .tuple (← (← arg.getArr?).toList.mapM parseVal)
  | "se" => return .set (← (← arg.getArr?).toList.mapM parseVal)
  | "d" =>
      let items ← (← arg.getArr?).toList.mapM (fun kv => do
        let p ← kv.getArr?
        let k ← parseKey (p[0]?.getD Json.null)
        let v ← parseVal (p[1]?.getD Json.null)
        pure (k, v))
      return .dict items
  | "o" =>
      let c ← arg.getStr?
      let fs ← (← (a[2]?.getD Json.null).getArr?).toList.mapM (fun kv => do
        let p ← kv.getArr?
        let n ← (p[0]?.getD Json.null).getStr?
        let v ← parseVal (p[1]?.getD Json.null)
        pure (n.toList, v))
      return .obj c.toList fs
  | "x" => return .foreign (← arg.getStr?).toList
  | t => throw s!"bad value tag {t}"

def jTag (t : String) (args : List Json) : Json := Json.arr (Json.str t :: args).toArray

def emitKey : Key → Json
  | .none => jTag "n" []
  | .bool b => jTag "b" [Json.bool b]
  | .int i => jTag "i" [Json.str (toString i)]
  | .str s => jTag "s" [jStr s]
  | .other s => jTag "k" [jStr s]

partial def emitVal : PyVal → Json
  | .none => jTag "n" []
  | .bool b => jTag "b" [Json.bool b]
  | .int i => jTag "i" [Json.str (toString i)]
  | .float t => jTag "f" [jStr t]
  | .str s => jTag "s" [jStr s]
  | .bytes b => jTag "y" [jNats b]
  | .bytearray b => jTag "ya" [jNats b]
  | .bytesio b => jTag "yi" [jNats b]
  | .list xs => jTag "l" [Json.arr (xs.map emitVal).toArray]
  | .tuple xs => jTag "tu" [Json.arr (xs.map emitVal).toArray]
  | .set xs => jTag "se" [Json.arr (xs.map emitVal).toArray]
  | .dict kvs => jTag "d" [Json.arr (kvs.map (fun kv => Json.arr #[emitKey kv.1, emitVal kv.2])).toArray]
  | .obj c fs => jTag "o" [jStr c, Json.arr (fs.map (fun kv => Json.arr #[jStr kv.1, emitVal kv.2])).toArray]
  | .foreign n => jTag "x" [jStr n]

def errName : Err → String
  | .typeError => "TypeError"
  | .valueError => "ValueError"
  | .attributeError => "AttributeError"
  | .binasciiError => "binascii.Error"
  | .unmodelled w => "UNMODELLED:" ++ w

def emitRes : Except Err PyVal → List (String × Json)
  | .ok v => [("ok", emitVal v)]
  | .error (.unmodelled w) => [("unmodelled", Json.str w)]
  | .error e => [("err", Json.str (errName e))]

def S := S2T.Gen.Schema.schema

/-- op `c05.rt`: {"v": value} ↦ serialise (with and without binary), deserialise the result, re-serialise; plus the
spec predicates of the theorems on this value -/
def rt (j : Json) : Except String Json := do
  let v ← parseVal (← j.getObjVal? "v")
  let js := serializeExtraction true v
  let jn := serializeExtraction false v
  let back := deserializeExtraction S js
  let again : List (String × Json) := match back with
    | .ok w => [("j2", emitVal (serializeExtraction true w))]
    | .error _ => []
  return Json.mkObj ([("j", emitVal js), ("jn", emitVal jn),
    ("jd", emitVal (serializeExtraction true (dropBinary v))),
    ("wt", Json.bool (WellTyped S .any v)), ("nf", Json.bool (noForeign v)), ("json", Json.bool (isJson js)),
    ("canon", emitVal (canon S .any v))]
    ++ (emitRes back).map (fun kv => ("back_" ++ kv.1, kv.2)) ++ again)

/-- op `c05.deser`: {"j": JSON value} ↦ `deserialize_extraction(j)` -/
def deser (j : Json) : Except String Json := do
  let v ← parseVal (← j.getObjVal? "j")
  return Json.mkObj (emitRes (deserializeExtraction S v))

def parseCell (j : Json) : Except String Cell := do
  let a ← j.getArr?
  let tag ← (a[0]?.getD Json.null).getStr?
  let arg := a[1]?.getD Json.null
  match tag with
  | "n" => return .none
  | "b" => return .bool (← arg.getBool?)
  | "i" => return .int (← parseInt (← arg.getStr?))
  | "f" => return .float (← arg.getStr?).toList
  | "s" => return .str (← arg.getStr?).toList
  | "datetime" => return .datetime (← arg.getStr?).toList
  | "date" => return .date (← arg.getStr?).toList
  | "time" => return .time (← arg.getStr?).toList
  | "timedelta" => return .timedelta (← arg.getStr?).toList
  | "other" => return .other (← arg.getStr?).toList (← (a[2]?.getD Json.null).getStr?).toList
  | t => throw s!"bad cell tag {t}"

/-- op `c05.cell`: {"c": cell} ↦ `_get_cell_value(c)` -/
def cell (j : Json) : Except String Json := do
  let c ← parseCell (← j.getObjVal? "c")
  return Json.mkObj [("v", emitVal (cellValue c))]

/-- op `c05.cli`: {"rs":[value..], "units":[[value..]..], "bin":bool, "unit":bool} ↦ the CLI payload -/
def cli (j : Json) : Except String Json := do
  let rs ← (← getArr j "rs").toList.mapM parseVal
  let us ← (← getArr j "units").toList.mapM (fun u => do (← u.getArr?).toList.mapM parseVal)
  let bin ← getBool j "bin"
  let unit ← getBool j "unit"
  if unit then
    -- `units r` is looked up by position (results may be equal as values)
    let idx := (List.range rs.length).map (fun (i : Nat) => PyVal.int (Int.ofNat i))
    let unitsOf : PyVal → List PyVal := fun r => match r with
      | .int i => us.getD i.toNat []
      | _ => []
    -- shape only depends on the list structure, so run the model on indices and substitute
    return Json.mkObj [("j", emitVal (cliUnitResults bin unitsOf idx))]
  else
    return Json.mkObj [("j", emitVal (cliResults bin rs))]

/-- op `c05.hist`: {"ops":[{"k":"ser","bin":bool,"v":value} | {"k":"deser","j":JSON value}]} ↦ what each call of the
history returns in a process started with an empty registry (state machine of `S2T/Model/SerialState.lean`) -/
def hist (j : Json) : Except String Json := do
  let ops ← (← getArr j "ops").toList.mapM (fun o => do
    let k ← getStr o "k"
    if k == "ser" then
      let b ← getBool o "bin"
      let v ← parseVal (← o.getObjVal? "v")
      pure (S2T.SerialState.Op.toJson b v)
    else
      let v ← parseVal (← o.getObjVal? "j")
      pure (S2T.SerialState.Op.fromJson v))
  let outs := S2T.SerialState.run S .pure [] ops
  let emitOut : S2T.SerialState.Out → Json := fun o => match o with
    | .json v => Json.mkObj [("j", emitVal v)]
    | .back r => Json.mkObj (emitRes r)
  return Json.mkObj [("outs", Json.arr (outs.map emitOut).toArray)]

/-- op `c05.heap`: {"ops":[{"k":"deser","id":n,"j":JSON value} | {"k":"use","step":n,"how":"read"|"close"|"api-read","leaf":i|null}
| {"k":"observe","step":n} | {"k":"ser",…}]} ↦ per op what the heap machine of `S2T/Model/SerialHeap.lean` (decoder `fresh`)
says: the restored value, the bytes every read returns (or `ValueError`), `to_json()` of the restored object (or `ValueError`
when one of its streams is closed) -/
def heap (j : Json) : Except String Json := do
  let ops ← getArr j "ops"
  let mut st : S2T.SerialHeap.State := S2T.SerialHeap.State.empty
  let mut objs : List (Nat × PyVal × List Nat) := []
  let mut outs : Array Json := #[]
  for o in ops do
    let k ← getStr o "k"
    if k == "deser" then
      let id ← getNat o "id"
      let v ← parseVal (← o.getObjVal? "j")
      let r := deserializeExtraction S v
      match r with
      | .ok w =>
        let a := S2T.SerialHeap.allocAll .fresh st (S2T.SerialHeap.leaves w)
        st := a.1
        objs := (id, w, a.2) :: objs
      | .error _ => pure ()
      outs := outs.push (Json.mkObj (emitRes r))
    else if k == "use" then
      let n ← getNat o "step"
      let how ← getStr o "how"
      match objs.find? (fun e => e.1 == n) with
      | none => outs := outs.push (Json.mkObj [("noobj", Json.bool true)])
      | some (_, _, addrs) =>
        let sel : List Nat := match (o.getObjValAs? Nat "leaf").toOption with
          | some i => (addrs.drop i).take 1
          | none => addrs
        let mut reads : Array Json := #[]
        for a in sel do
          let sops : List S2T.SerialHeap.SOp :=
            if how == "read" then [.read] else if how == "close" then [.close] else [.rewind, .read]
          let mut last : Except Err (List Nat) := .ok []
          for sop in sops do
            let r := S2T.SerialHeap.heapStep st.heap a sop
            st := { st with heap := r.2 }
            match last with
            | .error _ => pure ()
            | .ok _ => last := r.1
          reads := reads.push (match last with
            | .ok bs => jNats bs
            | .error e => Json.str (errName e))
        outs := outs.push (Json.mkObj [("reads", Json.arr reads)])
    else if k == "observe" then
      let n ← getNat o "step"
      match objs.find? (fun e => e.1 == n) with
      | none => outs := outs.push (Json.mkObj [("noobj", Json.bool true)])
      | some (_, w, addrs) =>
        if S2T.SerialHeap.observable st.heap addrs then
          outs := outs.push (Json.mkObj [("j", emitVal (serializeExtraction true w))])
        else
          outs := outs.push (Json.mkObj [("err", Json.str "ValueError")])
    else
      outs := outs.push (Json.mkObj [])
  return Json.mkObj [("outs", Json.arr outs)]

/-- `c05.b64`: the model's text of a (small) byte string — a 3-aligned window or the tail of a payload of any size
(`C05_codec_window`, `C05_codec_suffix`) — and whether the model's decoder restores it -/
def b64 (j : Json) : Except String Json := do
  let bs ← natArr j "bytes"
  let t := b64enc bs
  return Json.mkObj [("text", jStr t), ("back", Json.bool (b64dec t == some bs))]

def handle (op : String) (j : Json) : Option (Except String Json) :=
  match op with
  | "c05.b64" => some (b64 j)
  | "c05.rt" => some (rt j)
  | "c05.deser" => some (deser j)
  | "c05.cell" => some (cell j)
  | "c05.cli" => some (cli j)
  | "c05.hist" => some (hist j)
  | "c05.heap" => some (heap j)
  | _ => none

end S2T.Drv.C05
