import S2T.Drv.Util
import S2T.Gen.Encryption
import S2T.Gen.PdfCrypt
namespace S2T.Drv.C08
open Lean S2T.Drv S2T.Enc

def K : Consts := S2T.Gen.Encryption.consts

def hexVal (c : Char) : Option Nat :=
  if '0' ≤ c ∧ c ≤ '9' then some (c.toNat - '0'.toNat)
  else if 'a' ≤ c ∧ c ≤ 'f' then some (c.toNat - 'a'.toNat + 10)
  else if 'A' ≤ c ∧ c ≤ 'F' then some (c.toNat - 'A'.toNat + 10)
  else none

/-- bytes travel as a hex string -/
def hexBytes (s : String) : Except String (List Nat) :=
  let rec go : List Char → List Nat → Except String (List Nat)
    | [], acc => .ok acc.reverse
    | [_], _ => .error "odd hex length"
    | a :: b :: r, acc =>
      match hexVal a, hexVal b with
      | some x, some y => go r ((16 * x + y) :: acc)
      | _, _ => .error "bad hex digit"
  go s.toList []

def optField (j : Json) (k : String) : Option Json :=
  match j.getObjVal? k with
  | .ok .null => none
  | .ok v => some v
  | .error _ => none

def parseOle (j : Json) : Except String (Option OleDir) :=
  match optField j "ole" with
  | none => .ok none
  | some v => do
    let a ← v.getArr?
    let es ← a.toList.mapM (fun e => do
      let n ← getStr e "name"
      let d ← match optField e "data" with
        | none => pure none
        | some h => do let s ← h.getStr?; let b ← hexBytes s; pure (some b)
      pure (chars n, d))
    pure (some es)

/-- op `c08.ole` {"kind": "ooxml"|"ppt"|"xls", "ole": null | [{"name", "data": hex|null}]} ↦ {"ans": "true"|"false"|"openFailed"} -/
def oleOp (j : Json) : Except String Json := do
  let kind ← getStr j "kind"
  let ole ← parseOle j
  let ans ← match kind with
    | "ooxml" => pure (toString (isOoxmlEncrypted K ole))
    | "ppt" => pure (toString (isPptEncrypted K ole))
    | "xls" => pure (match isXlsEncrypted K ole with
        | .enc b => toString b
        | .openFailed => "openFailed")
    | _ => throw s!"unknown kind {kind}"
  return Json.mkObj [("ans", Json.str ans)]

/-- op `c08.scan` {"data": hex} ↦ {"enc": bool} -/
def scanOp (j : Json) : Except String Json := do
  let d ← hexBytes (← getStr j "data")
  return Json.mkObj [("enc", Json.bool (scan K.filepassId d))]

/-- op `c08.doc` {"wd": hex|null} ↦ {"ans": noStream|tooSmall|badMagic|encrypted|proceed} -/
def docOp (j : Json) : Except String Json := do
  let wd ← match optField j "wd" with
    | none => pure none
    | some h => do let s ← h.getStr?; let b ← hexBytes s; pure (some b)
  let a := match docCheck K wd with
    | .noStream => "noStream" | .tooSmall => "tooSmall" | .badMagic => "badMagic"
    | .encrypted => "encrypted" | .proceed => "proceed"
  return Json.mkObj [("ans", Json.str a)]

def endStr : ArcEnd → String
  | .done => "done" | .encrypted => "encrypted" | .failed => "failed" | .otherExc => "other"

/-- op `c08.zip` {"infos": null | [{"dir","flags","skip","large","read","yields"}]} ↦ {"yields","end"} -/
def zipOp (j : Json) : Except String Json := do
  let infos ← match optField j "infos" with
    | none => pure none
    | some v => do
      let a ← v.getArr?
      let l ← a.toList.mapM (fun e => do
        let rd ← getStr e "read"
        let r ← match rd with
          | "data" => pure ZRead.data | "runtime" => pure ZRead.runtimeError
          | "notimpl" => pure ZRead.notImplemented | "badzip" => pure ZRead.badZip
          | "other" => pure ZRead.other | _ => throw s!"bad read {rd}"
        pure ({ isDir := ← getBool e "dir", flagBits := ← getNat e "flags", skip := ← getBool e "skip",
                tooLarge := ← getBool e "large", read := r, yields := ← getNat e "yields" } : ZInfo))
      pure (some l)
  let (n, e) := zipExtract K infos
  return Json.mkObj [("yields", Json.num (JsonNumber.fromNat n)), ("end", Json.str (endStr e))]

def parseCoders (v : Json) : Except String (List Coder) := do
  let a ← v.getArr?
  a.toList.mapM (fun c => do let s ← c.getStr?; hexBytes s)

/-- op `c08.sz` {"hdr": null | [hex], "folders": [[hex]], "lzmaOk": bool} ↦ {"end", "needs": bool} -/
def szOp (j : Json) : Except String Json := do
  let hdr ← match optField j "hdr" with
    | none => pure none
    | some v => do let cs ← parseCoders v; pure (some cs)
  let fs ← (← getArr j "folders").toList.mapM parseCoders
  let l ← getBool j "lzmaOk"
  return Json.mkObj [("end", Json.str (endStr (szOpen K l ⟨hdr, fs⟩))), ("needs", Json.bool (needsPassword K fs))]

partial def parseXml (j : Json) : Except String Xml := do
  let t ← getStr j "t"
  let cs ← (← getArr j "c").toList.mapM parseXml
  return .node (chars t) cs

/-- attributed element: {"t": tag, "a": [[name, value]] (optional), "x": text (optional), "c": [children]} -/
partial def parseXmlA (j : Json) : Except String XmlA := do
  let t ← getStr j "t"
  let attrs ← match optField j "a" with
    | none => pure []
    | some v => do
      let a ← v.getArr?
      a.toList.mapM (fun kv => do
        let p ← kv.getArr?
        match p.toList with
        | [k, w] => do let ks ← k.getStr?; let ws ← w.getStr?; pure (chars ks, chars ws)
        | _ => throw "attribute: [name, value] expected")
  let x ← match optField j "x" with
    | none => pure ""
    | some v => v.getStr?
  let cs ← (← getArr j "c").toList.mapM parseXmlA
  return .node (chars t) attrs (chars x) cs

/-- op `c08.odf` {"isZip", "manifest": null | {"text", "tree": null | xml}} ↦ {"enc": bool} -/
def odfOp (j : Json) : Except String Json := do
  let isZip ← getBool j "isZip"
  let m ← match optField j "manifest" with
    | none => pure none
    | some v => do
      let text ← getStr v "text"
      let tree ← match optField v "tree" with
        | none => pure none
        | some t => do let x ← parseXmlA t; pure (some x)
      pure (some (chars text, tree))
  return Json.mkObj [("enc", Json.bool (isOdfEncryptedA K isZip m))]

/-- op `c08.epub` {"names": [str], "enc": null | xml} ↦ {"enc": bool} -/
def epubOp (j : Json) : Except String Json := do
  let names ← (← getArr j "names").toList.mapM (fun n => n.getStr?)
  let x ← match optField j "enc" with
    | none => pure none
    | some t => do let x ← parseXmlA t; pure (some x)
  let algs := match x with
    | some t => (t.attrValues (chars "Algorithm")).map String.ofList
    | none => []
  return Json.mkObj [("enc", Json.bool (isEpubEncryptedA K (names.map chars) x)),
                     ("algs", Json.arr (algs.map Json.str).toArray)]

/-- op `c08.pdf` {"isEnc": bool, "dec": null | nat} ↦ {"rej": bool} -/
def pdfOp (j : Json) : Except String Json := do
  let e ← getBool j "isEnc"
  let d ← match optField j "dec" with
    | none => pure none
    | some v => do let n ← v.getNat?; pure (some n)
  return Json.mkObj [("rej", Json.bool (pdfRejects K e d))]

def parseCfm (s : String) : S2T.PdfCrypt.Cfm :=
  if s = "V2" then .v2 else if s = "AESV2" then .aesv2 else if s = "AESV3" then .aesv3 else if s = "None" then .none else .other

def optStr (j : Json) (k : String) : Except String (Option String) :=
  match optField j k with
  | none => pure none
  | some v => do let s ← v.getStr?; pure (some s)

/-- op `c08.pdfopen` {"doc": null | {"v", "cf": [[name, cfm]], "stmf", "strf", "eff"}, "aes": bool}
    ↦ {"ok", "aes", "needsAes", "supported", "ready", "stmAes", "strAes"}: `_open_pdf_reader` on the document in a process
    whose AES state is `aes` (opaque guard parts taken as false) -/
def pdfOpenOp (j : Json) : Except String Json := do
  let aes ← getBool j "aes"
  let d : S2T.PdfCrypt.Doc ← match optField j "doc" with
    | none => pure none
    | some o => do
      let v ← getNat o "v"
      let cf ← (← getArr o "cf").toList.mapM (fun x => do
        let a ← x.getArr?
        let n ← (a[0]?.getD Json.null).getStr?
        let m ← (a[1]?.getD Json.null).getStr?
        pure (n, parseCfm m))
      pure (some { v := v, cf := cf, stmF := ← optStr o "stmf", strF := ← optStr o "strf", eff := ← optStr o "eff" })
  let ρ : S2T.PdfCrypt.Doc → Nat → Bool := fun _ _ => false
  let r := S2T.PdfCrypt.openReader S2T.Gen.PdfCrypt.code ρ ⟨aes⟩ d
  let (ok, after) := match r with
    | .ok p => (true, p.aes)
    | .error _ => (false, aes)
  let (needs, sup, stm, str) := match d with
    | none => (false, true, false, false)
    | some e => (e.needsAes, e.supported, e.openNeedsAes || e.methods.head? == some .aes, e.openNeedsAes || e.methods[1]? == some .aes)
  return Json.mkObj [("ok", Json.bool ok), ("aes", Json.bool after), ("needsAes", Json.bool needs), ("supported", Json.bool sup),
                     ("ready", Json.bool (S2T.PdfCrypt.ready S2T.Gen.PdfCrypt.code ρ ⟨aes⟩ d)), ("stmAes", Json.bool stm), ("strAes", Json.bool str)]

def handle (op : String) (j : Json) : Option (Except String Json) :=
  match op with
  | "c08.ole" => some (oleOp j)
  | "c08.scan" => some (scanOp j)
  | "c08.doc" => some (docOp j)
  | "c08.zip" => some (zipOp j)
  | "c08.sz" => some (szOp j)
  | "c08.odf" => some (odfOp j)
  | "c08.epub" => some (epubOp j)
  | "c08.pdf" => some (pdfOp j)
  | "c08.pdfopen" => some (pdfOpenOp j)
  | _ => none

end S2T.Drv.C08
