import S2T.Drv.Util
import S2T.Model.C02Mail
import S2T.Gen.Ooxml
/-! Line-protocol handler of the C02 'mail' part (op `c02mail.body`). JSON decoding only; the logic is in
`S2T.Model.C02Mail`. -/
namespace S2T.Drv.C02mail
open Lean S2T.Drv S2T.C02.Ooxml S2T.C02.Mail

def ws : Char → Bool := S2T.Gen.Ooxml.isPySpace

def parseLine (j : Json) : Except String Line := do
  let pre ← getStr j "pre"
  let trail ← getStr j "trail"
  let w ← getArr j "words"
  let wordsL ← w.toList.mapM (fun x => do let s ← x.getStr?; return chars s)
  return ⟨chars pre, wordsL, chars trail⟩

def parsePair (j : Json) : Except String (Str × Str) := do
  let a ← j.getArr?
  match a.toList with
  | [Json.str k, Json.str v] => return (chars k, chars v)
  | _ => throw "parameter = [name, value]"

/-- {"nl", "lines":[{"pre","words","trail"}…], "params":[[k,v]…], "html"?} ↦ body text of the Lean writer, model full
    text, the words of the lines -/
def opBody (j : Json) : Except String Json := do
  let ls ← (← getArr j "lines").toList.mapM parseLine
  let ps ← (← getArr j "params").toList.mapM parsePair
  let html := match getStr j "html" with | .ok s => chars s | .error _ => []
  let nl := chars (← getStr j "nl")
  let body := renderBody nl ls
  return Json.mkObj [("body", jStr body), ("text", jStr (fullText ws ps body html)),
    ("words", Json.arr ((ls.flatMap (·.words)).map jStr).toArray)]

def handle (op : String) (j : Json) : Option (Except String Json) :=
  match op with
  | "c02mail.body" => some (opBody j)
  | _ => none

end S2T.Drv.C02mail
