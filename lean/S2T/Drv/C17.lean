import S2T.Drv.Util
import S2T.Spec.HtmlDoc
import S2T.Spec.HtmlBook
import S2T.Gen.HtmlSkip
import S2T.Model.HtmlCharset
namespace S2T.Drv.C17
open Lean S2T.Drv S2T.HtmlSkip

/-! Wire format.
event  : ["s",tag,attrs] | ["e",tag] | ["se",tag,attrs] | ["d",text] | ["c",text] | ["decl",text] | ["pi",text] | ["ud",text]
attrs  : [[name, value|null], …]
item   : ["text",s] | ["open",tag,attrs] | ["close",tag] | ["selfclosed",tag,attrs] | ["removed",tag,attrs,[event…]]
       | ["removedEmpty",tag,attrs,bool] | ["comment",s] | ["decl",s] | ["pi",s] | ["ud",s]
-/

def elemStr (a : Array Json) (i : Nat) : Except String Str :=
  match a[i]? with
  | some (Json.str s) => .ok (chars s)
  | _ => .error s!"string expected at position {i}"

def parseAttrs (j : Json) : Except String Attrs := do
  let a ← j.getArr?
  a.toList.mapM (fun kv => do
    let p ← kv.getArr?
    let k ← elemStr p 0
    match p[1]? with
    | some Json.null => pure (k, none)
    | some (Json.str v) => pure (k, some (chars v))
    | _ => throw "attribute value must be a string or null")

def elemAttrs (a : Array Json) (i : Nat) : Except String Attrs :=
  match a[i]? with
  | some j => parseAttrs j
  | none => .error s!"attrs expected at position {i}"

def parseEv (j : Json) : Except String Ev := do
  let a ← j.getArr?
  let k ← elemStr a 0
  match str k with
  | "s" => return .start (← elemStr a 1) (← elemAttrs a 2)
  | "e" => return .end_ (← elemStr a 1)
  | "se" => return .startend (← elemStr a 1) (← elemAttrs a 2)
  | "d" => return .data (← elemStr a 1)
  | "c" => return .comment (← elemStr a 1)
  | "decl" => return .decl (← elemStr a 1)
  | "pi" => return .pi (← elemStr a 1)
  | "ud" => return .unknownDecl (← elemStr a 1)
  | other => throw s!"unknown event kind {other}"

def parseEvs (j : Json) : Except String (List Ev) := do
  let a ← j.getArr?
  a.toList.mapM parseEv

def parseItem (j : Json) : Except String Item := do
  let a ← j.getArr?
  let k ← elemStr a 0
  match str k with
  | "text" => return .text (← elemStr a 1)
  | "open" => return .open_ (← elemStr a 1) (← elemAttrs a 2)
  | "close" => return .close (← elemStr a 1)
  | "selfclosed" => return .selfclosed (← elemStr a 1) (← elemAttrs a 2)
  | "removed" =>
    match a[3]? with
    | some junk => return .removed (← elemStr a 1) (← elemAttrs a 2) (← parseEvs junk)
    | none => throw "removed: junk expected"
  | "removedEmpty" =>
    match a[3]? with
    | some (Json.bool b) => return .removedEmpty (← elemStr a 1) (← elemAttrs a 2) b
    | _ => throw "removedEmpty: bool expected"
  | "comment" => return .comment (← elemStr a 1)
  | "decl" => return .decl (← elemStr a 1)
  | "pi" => return .pi (← elemStr a 1)
  | "ud" => return .unknownDecl (← elemStr a 1)
  | other => throw s!"unknown item kind {other}"

def jAttrs (a : Attrs) : Json :=
  Json.arr (a.map (fun kv => Json.arr #[jStr kv.1, match kv.2 with | some v => jStr v | none => Json.null])).toArray

def jEv : Ev → Json
  | .start t a => Json.arr #[Json.str "s", jStr t, jAttrs a]
  | .end_ t => Json.arr #[Json.str "e", jStr t]
  | .startend t a => Json.arr #[Json.str "se", jStr t, jAttrs a]
  | .data s => Json.arr #[Json.str "d", jStr s]
  | .comment s => Json.arr #[Json.str "c", jStr s]
  | .decl s => Json.arr #[Json.str "decl", jStr s]
  | .pi s => Json.arr #[Json.str "pi", jStr s]
  | .unknownDecl s => Json.arr #[Json.str "ud", jStr s]

def jDEv : DEv → Json
  | .start t a => Json.arr #[Json.str "s", jStr t, jAttrs a]
  | .end_ t => Json.arr #[Json.str "e", jStr t]
  | .data s => Json.arr #[Json.str "d", jStr s]

def jStrs (l : List Str) : Json := Json.arr (l.map jStr).toArray

mutual
  def jNode : Tree.Node → Json
    | .mk t a tx ch tl =>
      Json.mkObj [("tag", jStr t), ("attrs", Json.mkObj (a.map (fun kv => (str kv.1, jStr kv.2)))),
                  ("text", jStr tx), ("children", Json.arr (jNodes ch).toArray), ("tail", jStr tl)]
  def jNodes : List Tree.Node → List Json
    | [] => []
    | n :: r => jNode n :: jNodes r
end

def jTrace (tr : List (Int × Option Str)) : Json :=
  Json.arr (tr.map (fun p => Json.arr #[Json.num (JsonNumber.fromInt p.1),
    match p.2 with | some t => jStr t | none => Json.null])).toArray

def jTable (t : List (List Str)) : Json := Json.arr (t.map jStrs).toArray

/-- op `c17.run`: {"m":"html"|"epub","ev":[event…]} ↦ per-call gate trace + final object state -/
def runOp (j : Json) : Except String Json := do
  let m ← getStr j "m"
  let evs ← parseEvs (← j.getObjVal? "ev")
  match m with
  | "html" =>
    let T := S2T.Gen.HtmlSkip.htmlTables
    let D := Tree.down S2T.Gen.HtmlSkip.htmlVoid
    let st := run T D (init Tree.initState) evs
    return Json.mkObj [
      ("trace", jTrace (trace T D (init Tree.initState) evs)),
      ("tree", jNode (Tree.getTree st.down)),
      ("stack", jStrs ((st.down.top :: st.down.rest).reverse.map (·.tag))),
      ("last", match st.down.last with | some n => jNode n | none => Json.null)]
  | "epub" =>
    let T := S2T.Gen.HtmlSkip.epubTables
    let D := Epub.down S2T.Gen.HtmlSkip.epubBlock
    let st := run T D (init Epub.initState) evs
    let d := st.down
    return Json.mkObj [
      ("trace", jTrace (trace T D (init Epub.initState) evs)),
      ("text_parts", jStrs d.textParts), ("in_block", Json.bool d.inBlock),
      ("tables", Json.arr (d.tables.map jTable).toArray), ("current_table", jTable d.currentTable),
      ("current_row", jStrs d.currentRow), ("current_cell", jStrs d.currentCell),
      ("in_table", Json.bool d.inTable), ("in_cell", Json.bool d.inCell),
      ("title", jStr d.title), ("in_title", Json.bool d.inTitle)]
  | other => throw s!"unknown machine {other}"

/-- op `c17.spec`: {"doc":[item…]} ↦ the Spec's reading of the document -/
def specOp (j : Json) : Except String Json := do
  let a ← getArr j "doc"
  let doc ← a.toList.mapM parseItem
  return Json.mkObj [
    ("ok", Json.bool (SpecDocOk doc)),
    ("ok_html", Json.bool (DocOk S2T.Gen.HtmlSkip.htmlTables doc)),
    ("ok_epub", Json.bool (DocOk S2T.Gen.HtmlSkip.epubTables doc)),
    ("events", Json.arr ((events doc).map jEv).toArray),
    ("down", Json.arr ((downEvents doc).map jDEv).toArray),
    ("visible", jStrs (visibleData doc)),
    ("hidden", jStrs (hiddenData doc))]

/-- chapter : {"doc":[item…], "tail": null | ["unclosed",tag,attrs,[event…]]} -/
def parseChapter (j : Json) : Except String Chapter := do
  let a ← getArr j "doc"
  let doc ← a.toList.mapM parseItem
  match j.getObjVal? "tail" with
  | .ok (Json.arr t) =>
    match t[3]? with
    | some junk => return { doc := doc, tail := .unclosed (← elemStr t 1) (← elemAttrs t 2) (← parseEvs junk) }
    | none => throw "tail: junk expected"
  | _ => return { doc := doc, tail := .complete }

def jTreeDown (d : Tree.State) : List (String × Json) :=
  [("tree", jNode (Tree.getTree d)),
   ("stack", jStrs ((d.top :: d.rest).reverse.map (·.tag))),
   ("last", match d.last with | some n => jNode n | none => Json.null)]

def jEpubDown (d : Epub.State) : List (String × Json) :=
  [("text_parts", jStrs d.textParts), ("in_block", Json.bool d.inBlock),
   ("tables", Json.arr (d.tables.map jTable).toArray), ("current_table", jTable d.currentTable),
   ("current_row", jStrs d.currentRow), ("current_cell", jStrs d.currentCell),
   ("in_table", Json.bool d.inTable), ("in_cell", Json.bool d.inCell),
   ("title", jStr d.title), ("in_title", Json.bool d.inTitle)]

/-- op `c17.book`: {"m":"html"|"epub","chapters":[chapter…]} ↦ per document: the Spec's reading (events, SpecChapterOk,
    visible / hidden strings) and the RIGHT-HAND SIDE of `C17.Life.C17_book`: the class-specific state fed with the
    visible items before the unclosed tail, from a NEW parser — plus what the reader that keeps one parser would hold
    (`Reuse.readBook`), so the harness can tell which of the two designs the real reader follows. -/
def bookOp (j : Json) : Except String Json := do
  let m ← getStr j "m"
  let a ← getArr j "chapters"
  let book ← a.toList.mapM parseChapter
  let specs := book.map (fun c => Json.mkObj [
      ("ok", Json.bool (SpecChapterOk c)),
      ("ok_html", Json.bool (ChapterOk S2T.Gen.HtmlSkip.htmlTables c)),
      ("ok_epub", Json.bool (ChapterOk S2T.Gen.HtmlSkip.epubTables c)),
      ("events", Json.arr (c.events.map jEv).toArray),
      ("n_doc_events", Json.num (JsonNumber.fromNat (events c.doc).length)),
      ("visible", jStrs (visibleData c.doc)),
      ("hidden", jStrs (hiddenData c.doc ++ c.tail.hiddenData))])
  let evs := book.map Chapter.events
  match m with
  | "html" =>
    let T := S2T.Gen.HtmlSkip.htmlTables
    let D := Tree.down S2T.Gen.HtmlSkip.htmlVoid
    let want := book.map (fun c => Json.mkObj (jTreeDown (D.feed Tree.initState (downEvents c.doc))))
    let fresh := (readBook T D Tree.initState evs).map (fun s => Json.mkObj (jTreeDown s.down))
    let reuse := (Reuse.readBook T D Tree.initState (init Tree.initState) evs).map (fun s => Json.mkObj (jTreeDown s.down))
    return Json.mkObj [("spec", Json.arr specs.toArray), ("want", Json.arr want.toArray),
                       ("fresh", Json.arr fresh.toArray), ("reuse", Json.arr reuse.toArray)]
  | "epub" =>
    let T := S2T.Gen.HtmlSkip.epubTables
    let D := Epub.down S2T.Gen.HtmlSkip.epubBlock
    let want := book.map (fun c => Json.mkObj (jEpubDown (D.feed Epub.initState (downEvents c.doc))))
    let fresh := (readBook T D Epub.initState evs).map (fun s => Json.mkObj (jEpubDown s.down))
    let reuse := (Reuse.readBook T D Epub.initState (init Epub.initState) evs).map (fun s => Json.mkObj (jEpubDown s.down))
    return Json.mkObj [("spec", Json.arr specs.toArray), ("want", Json.arr want.toArray),
                       ("fresh", Json.arr fresh.toArray), ("reuse", Json.arr reuse.toArray)]
  | other => throw s!"unknown machine {other}"

/-- {"t": latin-1 decoding of the file's bytes} -> {"v": sniffed charset | null} (Model/HtmlCharset.lean) -/
def sniffOp (j : Json) : Except String Json := do
  let t ← getStr j "t"
  pure (Json.mkObj [("v", match S2T.HtmlCharset.sniff (chars t) with
    | some v => jStr v
    | none => Json.null)])

def handle (op : String) (j : Json) : Option (Except String Json) :=
  match op with
  | "c17.sniff" => some (sniffOp j)
  | "c17.run" => some (runOp j)
  | "c17.spec" => some (specOp j)
  | "c17.book" => some (bookOp j)
  | _ => none

end S2T.Drv.C17
