import S2T.Drv.Util
import S2T.Gen.Exceptions
import S2T.Gen.Wrappers
namespace S2T.Drv.C01
open Lean S2T.Drv S2T.Wrapper

def allSkeletons : List (String × Stmt) :=
  S2T.Gen.Wrappers.extractorWrappers ++ S2T.Gen.Wrappers.initWrappers.map (fun w => ("init:" ++ w.1, w.2)) ++
  [("read_file", S2T.Gen.Wrappers.read_file), ("cli_main", S2T.Gen.Wrappers.cli_main),
   ("process_archive_entry", S2T.Gen.Wrappers.process_archive_entry)]

/-- op `c01.escapes` {"name": wrapper} ↦ {"famAll","fams","other"}: the analysis result for that skeleton -/
def escapesOp (j : Json) : Except String Json := do
  let name ← getStr j "name"
  match allSkeletons.lookup name with
  | none => .error s!"no skeleton {name}"
  | some s =>
    let a := escapes S2T.Gen.Exceptions.root S2T.Gen.Exceptions.isFam none s
    return Json.mkObj [("famAll", Json.bool a.famAll), ("fams", Json.arr (a.fams.map Json.str).toArray),
                       ("other", Json.bool a.other)]

/-- op `c01.isfam` {"cls"} ↦ {"fam": bool} -/
def isFamOp (j : Json) : Except String Json := do
  let c ← getStr j "cls"
  return Json.mkObj [("fam", Json.bool (S2T.Gen.Exceptions.isFam c))]

def handle (op : String) (j : Json) : Option (Except String Json) :=
  match op with
  | "c01.escapes" => some (escapesOp j)
  | "c01.isfam" => some (isFamOp j)
  | _ => none

end S2T.Drv.C01
