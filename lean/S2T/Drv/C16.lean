import S2T.Drv.Util
import S2T.Model.Mail
import S2T.Model.MailText
import S2T.Model.MailDate
import S2T.Gen.Router
import S2T.Gen.Mail
namespace S2T.Drv.C16
open Lean S2T.Drv S2T.Mail
open S2T.Router (Str)

/-- bytes travel as latin-1 strings -/
def bytesOf (s : String) : Bytes := s.toList.map Char.toNat
/-- answers carry bytes and text as arrays of numbers: the harness splits the driver output with
    `str.splitlines`, which also breaks at U+000B/C, U+001C–E, U+0085, U+2028/9 inside JSON strings -/
def jBytes (b : Bytes) : Json := jNats b
def jText (l : List Char) : Json := jNats (l.map Char.toNat)
def getBytes (j : Json) (k : String) : Except String Bytes := bytesOf <$> getStr j k

/-- op `c16.sep`: {"line": latin1} ↦ {"sep": bool} -/
def sep (j : Json) : Except String Json := do
  let l ← getBytes j "line"
  return Json.mkObj [("sep", Json.bool (isSepLine l))]

/-- op `c16.split`: {"data": latin1} ↦ {"msgs": [latin1], "spans": [[start, len]]} -/
def split (j : Json) : Except String Json := do
  let d ← getBytes j "data"
  let msgs := (splitMbox d).map (fun m => jBytes m)
  let spans := (sepSpans d).map (fun (a, b) => jNats [a, b])
  return Json.mkObj [("msgs", Json.arr msgs.toArray), ("spans", Json.arr spans.toArray)]

def partOf (j : Json) : Except String Part := do
  return { ctype := chars (← getStr j "ct"), disp := chars (← getStr j "disp"),
           filename := chars (← getStr j "fn"), fnameDec := chars (← getStr j "fnd"),
           payload := (← getBytes j "pl"), text := chars (← getStr j "tx") }

partial def treeOf (j : Json) : Except String Tree := do
  let p ← partOf j
  match j.getObjVal? "kids" with
  | .ok (.arr ks) =>
    let cs ← ks.toList.mapM treeOf
    return .multi p cs
  | _ => return .leaf p

/-- op `c16.tree`: MIME tree ↦ bodies and attachments of the mbox extractor -/
def tree (j : Json) : Except String Json := do
  let t ← treeOf (← j.getObjVal? "tree")
  let (pl, ht) := getBody t
  let atts := (getAttachments S2T.Gen.Router.tables t).map (fun a =>
    Json.mkObj [("fn", jText a.filename), ("mime", jText a.mime), ("data", jBytes a.data),
                ("sup", Json.bool a.supported)])
  let walk := (iterParts t).map (fun e => Json.mkObj [("ct", jText e.1.part.ctype), ("att", Json.bool e.2)])
  return Json.mkObj [("plain", jText pl), ("html", jText ht), ("atts", Json.arr atts.toArray),
                     ("walk", Json.arr walk.toArray)]

/-- op `c16.addr`: {"pairs": [[name, addr]]} ↦ {"kept": [[name, addr]]} -/
def addr (j : Json) : Except String Json := do
  let a ← getArr j "pairs"
  let ps ← a.toList.mapM (fun x => do
    let xs ← x.getArr?
    match xs.toList with
    | [n, ad] => return (chars (← n.getStr?), chars (← ad.getStr?))
    | _ => throw "pair expected")
  let kept := (keepAddressed ps).map (fun (n, ad) => Json.arr #[jText n, jText ad])
  return Json.mkObj [("kept", Json.arr kept.toArray)]

/-- op `c16.route`: {"sup","name","guess","mime","guess2"} ↦ {"d": skip… | "module:function" | "ERR:…"} -/
def route (j : Json) : Except String Json := do
  let sup ← getBool j "sup"
  let name ← getStr j "name"
  let g ← getOptStr j "guess"
  let mime ← getStr j "mime"
  let g2 ← getOptStr j "guess2"
  let d := match routeAttachment S2T.Gen.Router.tables sup (chars name) (g.map chars) (chars mime) (g2.map chars) with
    | .ok .skipUnsupported => "skipUnsupported"
    | .ok .skipUnknown => "skipUnknown"
    | .ok (.run (md, fn)) => str md ++ ":" ++ str fn
    | .error .formatNotSupported => "ERR:formatNotSupported"
  return Json.mkObj [("d", Json.str d), ("supmime", Json.bool (isSupportedMime S2T.Gen.Router.tables (chars mime)))]

def tuplesOf (j : Json) (k : String) : Except String (List (List Str)) := do
  let a ← getArr j k
  a.toList.mapM (fun t => do
    let xs ← t.getArr?
    xs.toList.mapM (fun x => chars <$> x.getStr?))

def strsOf (j : Json) (k : String) : Except String (List Str) := do
  let a ← getArr j k
  a.toList.mapM (fun x => chars <$> x.getStr?)

def jPairs (l : List (Str × Str)) : Json := Json.arr (l.map (fun (a, b) => Json.arr #[jText a, jText b])).toArray

/-- op `c16.text`: {"fn": "strip" | "unfold" | "subject", "s": text} ↦ {"out": code points} — `str.strip`,
    header unfolding, and both (what becomes of a literal Subject value) -/
def text (j : Json) : Except String Json := do
  let fn ← getStr j "fn"
  let s := chars (← getStr j "s")
  let out ← match fn with
    | "strip" => pure (S2T.MailText.pyStrip s)
    | "unfold" => pure (S2T.MailText.unfold s)
    | "subject" => pure (S2T.MailText.mboxSubject id s)
    | _ => throw "unknown fn"
  return Json.mkObj [("out", jText out)]

/-- op `c16.decode`: {"codec": name, "bytes": [0..255]} ↦ {"out": code points} by the generated codec table -/
def decode (j : Json) : Except String Json := do
  let name ← getStr j "codec"
  let bs ← natArr j "bytes"
  match S2T.Gen.Mail.codecTables.lookup name with
  | none => throw "no table for this codec"
  | some t => return Json.mkObj [("out", jNats (S2T.MailText.decodeTable t bs))]

/-- op `c16.eml`: mailparser result ↦ the `EmailContent` `_read_eml_format` returns (`__post_init__` included) -/
def eml (j : Json) : Except String Json := do
  let atts ← (← getArr j "atts").toList.mapM (fun a => do
    return ({ filename := chars (← getStr a "fn"), ctype := chars (← getStr a "ct"), binary := (← getBool a "bin"),
              b64 := (← getBytes a "b64"), utf8 := (← getBytes a "utf8") } : MpAttachment))
  let m : Mp := { from_ := (← tuplesOf j "from"), to := (← tuplesOf j "to"), cc := (← tuplesOf j "cc"),
                  bcc := (← tuplesOf j "bcc"), replyTo := (← tuplesOf j "reply_to"),
                  subject := chars (← getStr j "subject"), textPlain := (← strsOf j "text_plain"),
                  textHtml := (← strsOf j "text_html"), attachments := atts }
  match S2T.MailText.emlContent S2T.Gen.Router.tables m with
  | .error .indexError => return Json.mkObj [("err", Json.str "IndexError")]
  | .ok r =>
    let ja := r.attachments.map (fun a =>
      Json.mkObj [("fn", jText a.filename), ("mime", jText a.mime), ("data", jBytes a.data),
                  ("sup", Json.bool a.supported)])
    return Json.mkObj [("from", jPairs [r.from_]), ("to", jPairs r.to), ("cc", jPairs r.cc), ("bcc", jPairs r.bcc),
                       ("reply_to", jPairs r.replyTo), ("subject", jText r.subject), ("plain", jText r.bodyPlain),
                       ("html", jText r.bodyHtml), ("atts", Json.arr ja.toArray)]

def dateAnswer : Except S2T.MailDate.DateErr (List Char) → Json
  | .ok r => Json.mkObj [("iso", jText r)]
  | .error .fieldRange => Json.mkObj [("err", Json.str "fieldRange")]
  | .error .zoneRange => Json.mkObj [("err", Json.str "zoneRange")]
  | .error .invalid => Json.mkObj [("err", Json.str "invalid")]

/-- op `c16.date`: {"hdr": Date header value} ↦ {"iso": code points} | {"err": …} | {"noncanonical": true} — the whole
    pipeline on the canonical RFC 5322 form (`isoOfHeader`) -/
def date (j : Json) : Except String Json := do
  let h := chars (← getStr j "hdr")
  match S2T.MailDate.parseCanonical h with
  | none => return Json.mkObj [("noncanonical", Json.bool true)]
  | some _ => return dateAnswer (S2T.MailDate.isoOfHeader h)

/-- op `c16.datetuple`: {"f": [y, mo, d, h, mi, s], "tz": seconds | null} (the stdlib tokenizer's result) ↦ the same -/
def dateTuple (j : Json) : Except String Json := do
  let f ← natArr j "f"
  let tz ← match j.getObjVal? "tz" with
    | .ok .null => pure none
    | .ok v => some <$> v.getInt?
    | .error _ => pure none
  match f with
  | [y, mo, d, h, mi, sec] => return dateAnswer (S2T.MailDate.ofTuple y mo d h mi sec tz)
  | _ => throw "six fields expected"

def handle (op : String) (j : Json) : Option (Except String Json) :=
  match op with
  | "c16.sep" => some (sep j)
  | "c16.split" => some (split j)
  | "c16.tree" => some (tree j)
  | "c16.addr" => some (addr j)
  | "c16.route" => some (route j)
  | "c16.eml" => some (eml j)
  | "c16.text" => some (text j)
  | "c16.decode" => some (decode j)
  | "c16.date" => some (date j)
  | "c16.datetuple" => some (dateTuple j)
  | _ => none

end S2T.Drv.C16
