import S2T.Drv.Util
import S2T.Spec.C02OdfDoc
import S2T.Gen.C02Odf
/-! Line-protocol handler of the C02 'odf' part (ops `c02odf.*`). JSON decoding only; all logic is in
`S2T.Model.C02Odf*` / `S2T.Spec.C02OdfDoc`. -/
namespace S2T.Drv.C02odf
open Lean S2T.Drv S2T.Tok S2T.OdfText S2T.OdfDoc S2T.RtfDoc

def T := S2T.Gen.C02Odf.tables
def RT := S2T.Gen.C02Odf.rtfTables
def PT := S2T.Gen.C02Odf.pptTables

def gStr (j : Json) (k : String) : Except String Str := (chars <$> getStr j k)
def gStrD (j : Json) (k : String) : Str := match getStr j k with | .ok s => chars s | .error _ => []
def gArr (j : Json) (k : String) : Except String (List Json) := (Array.toList <$> getArr j k)
def gArrD (j : Json) (k : String) : List Json := match getArr j k with | .ok a => a.toList | .error _ => []

partial def xmlOfJson (j : Json) : Except String Xml := do
  let t ← gStr j "t"
  let attrs ← (gArrD j "a").mapM (fun p => do
    let a ← p.getArr?
    match a.toList with
    | [k, v] => do return (chars (← k.getStr?), chars (← v.getStr?))
    | _ => throw "attr pair expected")
  let kids ← (gArrD j "k").mapM xmlOfJson
  return .node t attrs (gStrD j "x") (gStrD j "l") kids

partial def jsonOfXml : Xml → Json
  | .node t a x l k => Json.mkObj [("t", jStr t), ("a", Json.arr (a.map (fun kv => Json.arr #[jStr kv.1, jStr kv.2])).toArray),
      ("x", jStr x), ("l", jStr l), ("k", Json.arr (k.map jsonOfXml).toArray)]

partial def inlOfJson (j : Json) : Except String Inl := do
  let k ← getStr j "k"
  let kids : Except String (List Inl) := (gArrD j "c").mapM inlOfJson
  match k with
  | "t" => return .text (← gStr j "s")
  | "sp" => return .sp (← getNat j "n")
  | "tab" => return .tab
  | "br" => return .br
  | "span" => return .span (← kids)
  | "a" => return .link (gStrD j "h") (← kids)
  | "note" => return .note ((getBool j "e").toOption.getD false) (gStrD j "cit") (← kids)
  | "ann" => return .annot (gStrD j "cr") (← kids)
  | "bm" => return .bookmark (gStrD j "n")
  | _ => throw s!"unknown inline kind {k}"

def kindOfStr : String → Except String Kind
  | "list" => .ok .list | "item" => .ok .item | "table" => .ok .table | "hrows" => .ok .headerRows
  | "row" => .ok .row | "cell" => .ok .cell | "section" => .ok .section | "frame" => .ok .frame
  | "textbox" => .ok .textBox | "tracked" => .ok .tracked | "region" => .ok .region | "deletion" => .ok .deletion
  | "page" => .ok .page | "shape" => .ok .shape | "group" => .ok .group
  | s => .error s!"unknown container kind {s}"

partial def blkOfJson (j : Json) : Except String Blk := do
  let k ← getStr j "k"
  match k with
  | "p" => return .para (gStrD j "st") (← (gArrD j "c").mapM inlOfJson)
  | "h" => return .heading ((getNat j "lv").toOption.getD 1) (← (gArrD j "c").mapM inlOfJson)
  | "c" => return .cont (← kindOfStr (← getStr j "t")) (← (gArrD j "c").mapM blkOfJson)
  | "ann" => return .comment (gStrD j "cr") (← (gArrD j "c").mapM inlOfJson)
  | _ => throw s!"unknown block kind {k}"

def jStrs (l : List Str) : Json := Json.arr (l.map jStr).toArray

/-- op `c02odf.odt` / `c02odf.odg`: {"doc": [blk]} ↦ rendered body tree, the model's full text, the spec's tokens -/
def opDoc (odg : Bool) (j : Json) : Except String Json := do
  let d ← (← gArr j "doc").mapM blkOfJson
  let x := if odg then renderOdg d else renderOdt d
  let text := if odg then odgFullText T x else odtFullText T x
  return Json.mkObj [("xml", jsonOfXml x), ("text", jStr text), ("tokens", jStrs (bodyTokens T.isWs d)),
    ("excl", jStrs (exclTextsL d))]

def boxOfJson (j : Json) : Except String Box := do
  let ps ← (gArrD j "paras").mapM (fun pj => do
    return (gStrD pj "st", ← (gArrD pj "c").mapM inlOfJson))
  return { y := gStrD j "y", x := gStrD j "x", paras := ps }

def slideOfJson (j : Json) : Except String PSlide := do
  return { boxes := ← (gArrD j "boxes").mapM boxOfJson,
           notes := ← (gArrD j "notes").mapM (fun nj => (gArrD nj "c").mapM inlOfJson) }

def opOdp (j : Json) : Except String Json := do
  let d ← (← gArr j "slides").mapM slideOfJson
  let x := renderOdp d
  return Json.mkObj [("xml", jsonOfXml x), ("text", jStr (odpFullText T x))]

def cellOfJson (j : Json) : Except String Cell := do
  let com ← match j.getObjVal? "com" with
    | .ok (.arr a) => some <$> a.toList.mapM inlOfJson
    | _ => pure none
  return { rep := (getNat j "rep").toOption.getD 1,
           paras := ← (gArrD j "paras").mapM (fun pj => (gArrD pj "c").mapM inlOfJson), comment := com }

def sheetOfJson (j : Json) : Except String Sheet := do
  let rows ← (gArrD j "rows").mapM (fun rj => do
    return ({ rep := (getNat rj "rep").toOption.getD 1, cells := ← (gArrD rj "cells").mapM cellOfJson } : Row))
  return { name := gStrD j "name", rows := rows }

def jOds (r : Except OdsErr Str) : Json :=
  match r with
  | .ok s => Json.mkObj [("text", jStr s)]
  | .error .valueError => Json.mkObj [("err", "ValueError")]

def opOds (j : Json) : Except String Json := do
  let d ← (← gArr j "sheets").mapM sheetOfJson
  let x := renderOds d
  return (jOds (odsFullText T x)).mergeObj (Json.mkObj [("xml", jsonOfXml x), ("tokens", jStrs (d.flatMap (sheetTokens T.isWs)))])

/-- op `c02odf.xml`: {"fmt", "tree"} ↦ the walker of that format on an arbitrary tree -/
def opXml (j : Json) : Except String Json := do
  let fmt ← getStr j "fmt"
  let x ← xmlOfJson (← j.getObjVal? "tree")
  match fmt with
  | "odt" => return Json.mkObj [("text", jStr (odtFullText T x))]
  | "odtold" => return Json.mkObj [("text", jStr (odtFullTextOld T x))]
  | "odg" => return Json.mkObj [("text", jStr (odgFullText T x))]
  | "odf" => return match odfFullText T x with
      | some s => Json.mkObj [("text", jStr s)]
      | none => Json.mkObj [("unmodelled", true)]
  | "odp" => return Json.mkObj [("text", jStr (odpFullText T x))]
  | "ods" => return jOds (odsFullText T x)
  | "elem" => return Json.mkObj [("text", jStr (elemText T.isWs T.odt x))]
  | _ => throw s!"unknown fmt {fmt}"

partial def rinlOfJson (j : Json) : Except String RInl := do
  let k ← getStr j "k"
  let kids : Except String (List RInl) := (gArrD j "c").mapM rinlOfJson
  match k with
  | "t" => return .text (← gStr j "s")
  | "tab" => return .tab
  | "line" => return .line
  | "cell" => return .cell
  | "row" => return .row
  | "fmt" => return .fmt (← gStr j "w") ((getNat j "n").toOption)
  | "group" => return .group (← gStr j "w") ((getNat j "n").toOption) (← kids)
  | "dest" => return .dest (← gStr j "w") (gStrD j "s")
  | "pict" => return .pict (gStrD j "s")
  | _ => throw s!"unknown rtf inline kind {k}"

def rdocOfJson (j : Json) : Except String RDoc := do
  let opt (k : String) : Except String (Option Str) :=
    match j.getObjVal? k with
    | .ok (.str a) => pure (some (chars a))
    | _ => pure none
  let paras ← (gArrD j "paras").mapM (fun pj => do
    return ({ kids := ← (gArrD pj "c").mapM rinlOfJson, pageBreakAfter := (getBool pj "pb").toOption.getD false } : RPara))
  return { fonts := (gArrD j "fonts").filterMap (fun f => (chars <$> f.getStr?).toOption), title := gStrD j "title",
           header := ← opt "header", footer := ← opt "footer", paras := paras }

def evJson : S2T.Rtf.Ev → Json
  | .ch c => Json.num (JsonNumber.fromNat c)
  | .page => Json.str "page"

/-- op `c02odf.rtf`: {"s"} ↦ `_strip_rtf_full_with_pages(s)` (code points), raw page pieces, `full_text` -/
def opRtf (j : Json) : Except String Json := do
  let s ← gStr j "s"
  let evs := S2T.Rtf.events RT s
  let res := S2T.Rtf.result RT s
  return Json.mkObj [("res", jNats res), ("pieces", Json.arr ((S2T.Rtf.pagePieces evs []).map jNats).toArray),
    ("full", jNats (S2T.Rtf.fullTextOf RT res))]

def opRtfDoc (j : Json) : Except String Json := do
  let d ← rdocOfJson (← j.getObjVal? "doc")
  let s := renderRtf d
  return Json.mkObj [("rtf", jStr s), ("full", jNats (S2T.Rtf.fullText RT s)),
    ("tokens", jStrs (rtfBodyTokens (S2T.Rtf.isWsC RT) d))]

def opPpt (j : Json) : Except String Json := do
  return Json.mkObj [("text", jStr (S2T.Rtf.cleanText PT (← gStr j "s")))]

def strList (j : Json) : Except String (List Str) := do
  (← j.getArr?).toList.mapM (fun x => chars <$> x.getStr?)

def opXls (j : Json) : Except String Json := do
  let h ← strList (← j.getObjVal? "h")
  let rows ← (← gArr j "rows").mapM strList
  return Json.mkObj [("text", jStr (S2T.Rtf.formatSheet h rows))]

def opPlain (j : Json) : Except String Json := do
  return Json.mkObj [("text", jStr (S2T.Rtf.plainFullText T.isWs (← gStr j "s")))]

def opJoin (j : Json) : Except String Json := do
  return Json.mkObj [("text", jStr (S2T.Rtf.joinUnits T.isWs (← strList (← j.getObjVal? "units"))))]

def handle (op : String) (j : Json) : Option (Except String Json) :=
  match op with
  | "c02odf.odt" => some (opDoc false j)
  | "c02odf.odg" => some (opDoc true j)
  | "c02odf.odp" => some (opOdp j)
  | "c02odf.ods" => some (opOds j)
  | "c02odf.xml" => some (opXml j)
  | "c02odf.rtf" => some (opRtf j)
  | "c02odf.rtfdoc" => some (opRtfDoc j)
  | "c02odf.ppt" => some (opPpt j)
  | "c02odf.xls" => some (opXls j)
  | "c02odf.plain" => some (opPlain j)
  | "c02odf.join" => some (opJoin j)
  | _ => none

end S2T.Drv.C02odf
