import S2T.Drv.Util
import S2T.Model.IfaceLength
import S2T.Gen.IfaceTotal
namespace S2T.Drv.C04Values
open Lean S2T.Drv S2T.Iface.Length

def classes : Classes := classesOf S2T.Gen.IfaceTotal.spaceRanges S2T.Gen.IfaceTotal.digitRanges

/-- the configuration read from the current source -/
def cfg : Cfg :=
  ⟨S2T.Gen.IfaceTotal.lengthUnits.map String.toList,
   (if S2T.Gen.IfaceTotal.lengthUnknownUnit = .returnsNone then .returnsNone else .raises),
   S2T.Gen.IfaceTotal.lengthFiniteGuard⟩

def jExc : Exc → Json
  | .keyError => "KeyError"
  | .overflowError => "OverflowError"

/-- op `c04.length`: {"s": str | null, "finite": is the scaled float value finite, "px": the host's pixel count}
    ↦ what `_odf_length_to_px(s)` does (none / int / raise), the groups the expression captured and what
    `get_metadata()` reports for it -/
def opLength (j : Json) : Except String Json := do
  let s ← getOptStr j "s"
  let fin ← getBool j "finite"
  let px ← getInt j "px"
  let h : Host := ⟨fun _ => fin, fun _ _ => px⟩
  let len := s.map chars
  let groups : Json := match len with
    | some l => match parseLength classes l with
      | some p => Json.mkObj [("int", jStr p.intDigits), ("frac", match p.fracDigits with | some f => jStr f | none => Json.null),
                              ("unit", jStr (unitOf p))]
      | none => Json.null
    | none => Json.null
  match lengthToPx classes cfg h len with
  | .error e => return Json.mkObj [("r", "raise"), ("exc", jExc e), ("groups", groups)]
  | .ok none => return Json.mkObj [("r", "none"), ("groups", groups), ("reported", Json.null)]
  | .ok (some n) => return Json.mkObj [("r", "int"), ("groups", groups),
      ("reported", match reportDim (some n) with | some k => Json.num (JsonNumber.fromInt k) | none => Json.null)]

def handle (op : String) (j : Json) : Option (Except String Json) :=
  match op with
  | "c04.length" => some (opLength j)
  | _ => none

end S2T.Drv.C04Values
