import S2T.Drv.Util
import S2T.Model.Loops
import S2T.Model.Limits
import S2T.Model.ArchiveChain
import S2T.Model.Amplify
import S2T.Gen.C12Consts
import S2T.Model.XmlEntities
import S2T.Gen.C12Xml
import S2T.Model.ReadHistory
import S2T.Model.Inflate
import S2T.Gen.C12Sites
namespace S2T.Drv.C12
open Lean S2T.Drv S2T.Loops S2T.Limits S2T.Amplify S2T.XmlEnt
open S2T.Gen (C12Consts.filepassId)

def jN (n : Nat) : Json := Json.num (JsonNumber.fromNat n)
def jPairs (l : List (Nat × Nat)) : Json := Json.arr (l.map (fun p => jNats [p.1, p.2])).toArray
def jOptN : Option Nat → Json | some n => jN n | none => Json.null

def asciiAlpha (c : Nat) : Bool := (65 ≤ c && c ≤ 90) || (97 ≤ c && c ≤ 122)
def asciiDigit (c : Nat) : Bool := 48 ≤ c && c ≤ 57

/-- `_is_skip_destination(text[i+1:i+30])` with the generated SKIP_DESTINATIONS -/
def skipDest (s : Str) (i : Nat) : Bool :=
  let ahead := (s.drop (i + 1)).take 29
  [92, 42].isPrefixOf ahead || S2T.Gen.C12Consts.rtfSkipDestinations.any (fun kw => (92 :: kw).isPrefixOf ahead)

def genOps : Except String Ops :=
  match Ops.ofSites S2T.Gen.C12Consts.limitSites with
  | some o => .ok o
  | none => .error "limit sites: missing site / unknown operator / unexpected operands"

def szErr : SzErr → String | .bad7z => "Bad7zFile" | .overflow => "OverflowError"

def parseRows (j : Json) : Except String (List OdsRowC) := do
  let rows ← getArr j "rows"
  rows.toList.mapM (fun r => do
    let rep ← getInt r "rep"
    let cells ← getArr r "cells"
    let cs ← cells.toList.mapM (fun c => do
      let cr ← getInt c "rep"
      let covered := match c.getObjValAs? Bool "covered" with | .ok b => b | .error _ => false
      if covered then return OdsChild.covered cr
      let isNone ← getBool c "none"
      let tl ← getNat c "tlen"
      return OdsChild.cell (⟨cr, isNone, tl⟩ : OdsCell))
    return (⟨rep, cs⟩ : OdsRowC))

def parseTarMembers (j : Json) : Except String (List TarMember) := do
  let ms ← getArr j "members"
  ms.toList.mapM (fun m => do
    let size ← getNat m "size"
    let k ← getStr m "kind"
    let kind ← match TarKind.ofString k with | some x => pure x | none => throw s!"unknown tar member kind {k}"
    let delivers ← match m.getObjVal? "delivers" with
      | .ok .null => pure none
      | .ok v => (some <$> v.getNat?)
      | .error _ => pure none
    return (⟨size, kind, delivers⟩ : TarMember))

def digitList (s : String) : Except String (List Nat) :=
  s.toList.mapM (fun ch => if ch.isDigit then pure (ch.toNat - 48) else throw s!"not a digit: {ch}")

def parseItems (a : Array Json) : Except String (List Item) :=
  a.toList.mapM (fun it => do
    let xs ← it.getArr?
    let k ← match xs[0]? with | some v => v.getStr? | none => throw "empty item"
    match k with
    | "lit" => match xs[1]? with | some v => do return Item.lit (← v.getNat?) | none => throw "lit without a length"
    | "ref" => match xs[1]? with | some v => do return Item.ref (← v.getNat?) | none => throw "ref without an index"
    | "amp" => pure Item.amp
    | _ => throw s!"unknown item {k}")

/-- the chain(s) the current source has for one parsing function (generated) -/
def genChainsOf (fn : String) : List (List Stage) :=
  (S2T.Gen.C12Xml.xmlParseChains.filter (fun c => c.2.1 == fn)).map (fun c => c.2.2.map Stage.ofTuple)

def handle (op : String) (j : Json) : Option (Except String Json) :=
  match op with
  | "c12.xml_part" => some do
      let site ← getStr j "site"
      -- site "reference:lenient" = the fixed reference chain of the counterexample theorems (defused, then the plain
      -- parser on the stripped bytes behind `except ParseError`), compared with the same two real parsers by the harness
      let chain ← if site == "reference:lenient" then pure [defusedStage, lenientFallback] else match genChainsOf site with
        | [c] => pure c
        | cs => throw s!"{cs.length} parser chains generated for {site} (expected one)"
      let szj ← j.getObjVal? "sizes"
      let sz : Sizes := ⟨← getNat szj "decl", ← getNat szj "dtd", ← getNat szj "ent", ← getNat szj "root"⟩
      let ents ← (← getArr j "ents").toList.mapM (fun e => do parseItems (← e.getArr?))
      let p : Part := ⟨← getBool j "bom", ← getNat j "ws", ← getBool j "decl", ← getBool j "doctype", ents, ← parseItems (← getArr j "body")⟩
      let out := match runChain chain p with
        | .ok n => Json.mkObj [("outcome", Json.str "ok"), ("text_len", jN n)]
        | .parseError => Json.mkObj [("outcome", Json.str "parse-error")]
        | .forbidden => Json.mkObj [("outcome", Json.str "forbidden")]
      return out.setObjVal! "bytes" (jN (p.bytes sz)) |>.setObjVal! "stages" (jN chain.length)
  | "c12.xls_filepass" => some do
      let d ← natArr j "d"
      let r := xlsFilepass S2T.Gen.C12Consts.filepassId d 0
      return Json.mkObj [("found", Json.bool r.1), ("steps", jN r.2)]
  | "c12.jpeg_dims" => some do
      let d ← natArr j "d"
      let r := jpegDims S2T.Gen.C12Consts.sofImageUtils d 2
      return Json.mkObj [("dims", match r.1 with | some (w, h) => jNats [w, h] | none => Json.null), ("steps", jN r.2)]
  | "c12.pixel_dims" => some do
      let d ← natArr j "d"
      let v ← getStr j "variant"
      let (sof, strict) ← match v with
        | "docx" => pure (S2T.Gen.C12Consts.sofDocx, false)
        | "xlsx" => pure (S2T.Gen.C12Consts.sofXlsx, false)
        | "pptx" => pure (S2T.Gen.C12Consts.sofPptx, true)
        | _ => throw s!"unknown variant {v}"
      let r := pixelDims sof strict d
      return Json.mkObj [("w", jN r.1), ("h", jN r.2.1), ("steps", jN r.2.2)]
  | "c12.ppt_iter" => some do
      let d ← natArr j "d"
      let r := pptIter d 0
      return Json.mkObj [("recs", Json.arr (r.1.map (fun x => jNats [x.recType, x.recInstance, if x.isContainer then 1 else 0, x.offset, x.endOffset])).toArray),
                         ("steps", jN r.2.1), ("copied", jN r.2.2)]
  | "c12.slide_list_cost" => some do
      let d ← natArr j "d"
      let r := slideListCost S2T.Gen.C12Consts.slideListWithText d
      return Json.mkObj [("steps", jN r.1), ("copied", jN r.2)]
  | "c12.xls_blip" => some do
      let d ← natArr j "d"
      let r := xlsBlipScan S2T.Gen.C12Consts.blipTypes d 0
      return Json.mkObj [("traj", jPairs r), ("steps", jN r.length)]
  | "c12.dib" => some do
      let d ← natArr j "d"
      let r := dibCarve d 0
      return Json.mkObj [("acc", jPairs r.1), ("steps", jN r.2)]
  | "c12.png" => some do
      let d ← natArr j "d"
      let r := pngCarve d 0
      return Json.mkObj [("carved", jPairs r.1), ("outer", jN r.2.1), ("inner", jN r.2.2)]
  | "c12.rtf_ignorable" => some do
      let t ← natArr j "text"
      let l ← natArr j "lower"
      let r := removeIgnorable S2T.Gen.C12Consts.rtfIgnorablePrefixes t l 0
      return Json.mkObj [("out", jNats r.1), ("outer", jN r.2.1), ("inner", jN r.2.2)]
  | "c12.rtf_walk" => some do
      let t ← natArr j "text"
      return Json.mkObj [("traj", jNats (rtfWalk asciiAlpha asciiDigit skipDest t 0 {}))]
  | "c12.gf_mul" => some do
      let a ← getNat j "a"
      let b ← getNat j "b"
      let r := gfMul a b
      return Json.mkObj [("r", jN r.1), ("steps", jN r.2)]
  | "c12.gf_row" => some do
      let b ← getNat j "b"
      return Json.mkObj [("row", jNats ((List.range 256).map (fun a => (gfMul a b).1))),
                         ("steps", jNats ((List.range 256).map (fun a => (gfMul a b).2)))]
  | "c12.pop_headings" => some do
      let lvl ← getInt j "level"
      let st ← getArr j "stack"
      let st ← st.toList.mapM (fun x => x.getInt?)
      let r := popHeadings lvl st
      return Json.mkObj [("left", jN r.1.length), ("steps", jN r.2)]
  | "c12.pop_ended" => some do
      let off ← getNat j "offset"
      let ends ← natArr j "ends"
      let r := popEnded off (ends.map (fun e => (0, e)))
      return Json.mkObj [("left", jN r.1.length), ("steps", jN r.2)]
  | "c12.trailing_numeric" => some do
      let fl ← getArr j "flags"
      let fl ← fl.toList.mapM (fun x => x.getBool?)
      let r := trailingNumeric fl
      return Json.mkObj [("count", jN r.1), ("steps", jN r.2)]
  | "c12.normalize" => some do
      let e ← getNat j "expected"
      let vs ← getArr j "values"
      let vs ← vs.toList.mapM (fun x => x.getStr?)
      let r := normalizeLoop e (vs.map String.toList)
      return Json.mkObj [("merged", Json.arr (r.1.map (fun s => Json.str (String.ofList s))).toArray), ("steps", jN r.2)]
  | "c12.look_ahead" => some do
      let mb ← getNat j "max_block"
      let fl ← getArr j "flags"
      let fl ← fl.toList.mapM (fun x => x.getBool?)
      let r := lookAhead mb fl 1
      return Json.mkObj [("block", jN r.1), ("steps", jN r.2)]
  | "c12.sz_skip_props" => some do
      let d ← natArr j "d"
      match skipArchiveProps d 0 with
      | .ok (p, s) => return Json.mkObj [("pos", jN p), ("steps", jN s)]
      | .error e => return Json.mkObj [("err", Json.str (szErr e))]
  | "c12.sz_number" => some do
      let d ← natArr j "d"
      match readNumber d 0 with
      | .ok r => return Json.mkObj [("val", jN r.val), ("pos", jN r.pos)]
      | .error e => return Json.mkObj [("err", Json.str (szErr e))]
  | "c12.sz_files_info" => some do
      let d ← natArr j "d"
      let fixed ← getBool j "fixed"
      match parseFilesInfo fixed d 0 with
      | .ok r => return Json.mkObj [("num", jN r.numFiles),
                   ("names", match r.names with | some ns => Json.arr (ns.map jNats).toArray | none => Json.null),
                   ("pos", jN r.endPos), ("steps", jN r.steps), ("name_steps", jN r.nameSteps), ("alloc", jN r.alloc)]
      | .error e => return Json.mkObj [("err", Json.str (szErr e)), ("alloc", jN (filesInfoAlloc fixed d 0))]
  | "c12.limits" => some do
      let o ← genOps
      let lim ← getInt j "max_file_size"
      let size ← getNat j "size"
      return Json.mkObj [("read_file_rejects", Json.bool (readFileRejects o lim size)),
                         ("sevenzip_rejects", Json.bool (sevenZipRejects o S2T.Gen.C12Consts.max7zFileSize size)),
                         ("entry_skipped", Json.bool (o.entrySkip.eval size S2T.Gen.C12Consts.maxArchiveFileSize))]
  | "c12.members" => some do
      let o ← genOps
      let k ← getStr j "kind"
      let kind ← match k with | "zip" => pure Kind.zip | "tar" => pure Kind.tar | "7z" => pure Kind.sevenZip | _ => throw "kind"
      let lim ← getNat j "limit"
      let ds ← natArr j "declared"
      return Json.mkObj [("skipped", Json.arr (ds.map (fun s => Json.bool (memberSkipped o kind lim s))).toArray),
                         ("read", jNats (membersRead o kind lim ds))]
  | "c12.sz_extract" => some do
      let o ← genOps
      let fixed ← getBool j "fixed"
      let lim ← getNat j "limit"
      let fs ← getArr j "folders"
      let folders ← fs.toList.mapM (fun f => do
        let es ← f.getArr?
        es.toList.mapM (fun e => do
          let d ← getNat e "declared"
          let keep ← getBool e "keep"
          return markWanted o lim d keep))
      let runs := extractAll fixed folders
      let empties ← match j.getObjVal? "empties" with
        | .ok (Json.arr es) => es.toList.mapM (fun e => do
            let keep ← getBool e "keep"
            return markWanted o lim 0 keep)
        | _ => pure []
      return Json.mkObj [("empty_written", jN (emptyWritten fixed empties).length), ("runs", Json.arr (runs.map (fun r => Json.mkObj [("decoded", jOptN r.decoded), ("bounded", Json.bool r.bounded), ("written", jNats r.written)])).toArray)]
  | "c12.ods" => some do
      let rows ← parseRows j
      let env ← getNat j "envelope"
      let rt ← getNat j "row_tags"
      let et ← getNat j "empty_tags"
      let tt ← getNat j "text_tags"
      let ct := match j.getObjValAs? Nat "covered_tags" with | .ok n => n | .error _ => 0
      let sh := sheetShapeC rows
      return Json.mkObj [("rows", jN sh.1), ("cols", jN sh.2), ("cells", jN (sheetCellsC rows)),
                         ("materialised", jN (materialisedC rows)), ("xml_len", jN (xmlLenC env rt et tt ct rows))]
  | "c12.tar_loop" => some do
      let o ← genOps
      let lim ← getNat j "limit"
      let ms ← parseTarMembers j
      let accept := acceptOfTable S2T.Gen.C12Consts.tarGuardAccepts
      let sizeFirst := eventBefore S2T.Gen.C12Consts.tarLoopEvents "size-test" "read"
      return Json.mkObj [("delivered", jNats (tarLoopDelivered o accept sizeFirst lim ms)), ("payload", jN (tarPayload ms))]
  | "c12.named_loop" => some do
      let o ← genOps
      let k ← getStr j "kind"
      let (kind, rb) ← match k with
        | "zip" => pure (Kind.zip, S2T.ArcChain.ReadBy.ofString S2T.Gen.C12Consts.zipReadBy)
        | "tar" => pure (Kind.tar, S2T.ArcChain.ReadBy.ofString S2T.Gen.C12Consts.tarReadBy)
        | _ => throw "kind"
      let lim ← getNat j "limit"
      let a ← getArr j "entries"
      let es ← a.toList.mapM (fun e => do
        let nm ← getNat e "name"
        let d ← getNat e "declared"
        let dl ← getNat e "delivers"
        return (⟨nm, d, dl⟩ : S2T.ArcChain.Entry))
      return Json.mkObj [("delivered", jNats (S2T.ArcChain.loopDelivered o kind rb lim es)), ("payload", jN (S2T.ArcChain.payload es)),
                         ("by_name", jNats (S2T.ArcChain.loopDelivered o kind .name lim es))]
  | "c12.sz_read_back" => some do
      let o ← genOps
      let lim ← getNat j "limit"
      let a ← getArr j "entries"
      let es ← a.toList.mapM (fun e => do
        let nm ← getNat e "name"
        let d ← getNat e "declared"
        return (⟨nm, d, d⟩ : S2T.ArcChain.Entry))
      return Json.mkObj [("read_back", jNats (S2T.ArcChain.readBack o lim es))]
  | "c12.sz_chain" => some do
      let a ← getArr j "stages"
      let stages ← a.toList.mapM (fun s => do
        let k ← getStr s "kind"
        match k with
        | "decoder" => do return S2T.ArcChain.Stage.decoder (← getNat s "real")
        | "filter" => pure S2T.ArcChain.Stage.filter
        | "unsupported" => pure S2T.ArcChain.Stage.unsupported
        | _ => throw s!"unknown stage kind {k}")
      let packed ← getNat j "packed"
      let m ← match j.getObjVal? "max_output" with
        | .ok .null => pure none
        | .ok v => (some <$> v.getNat?)
        | .error _ => pure none
      return Json.mkObj [("outputs", jNats (S2T.ArcChain.chainOutputs (S2T.ArcChain.Policy.ofSites S2T.Gen.C12Consts.szStageBoundSites) m stages packed))]
  | "c12.text_s" => some do
      let a ← getArr j "inlines"
      let p ← a.toList.mapM (fun i => match i.getObjValAs? String "digits" with
        | .ok ds => do return Inline.space (← digitList ds)
        | .error _ => do return Inline.text (← getStr i "text").toList)
      return Json.mkObj [("out_len", jN (paraText p).length), ("spaces", jN ((paraText p).filter (· == ' ')).length),
                         ("markup_len", jN (paraMarkupLen p))]
  | "c12.xlsx_rect" => some do
      let env ← getNat j "envelope"
      let tags ← getNat j "cell_tags"
      let a ← getArr j "cells"
      let cs ← a.toList.mapM (fun c => do
        let r ← getNat c "row"
        let col ← getNat c "col"
        let tl ← getNat c "tlen"
        return (⟨r, col, tl⟩ : UsedCell))
      return Json.mkObj [("cells", jN (rectCells cs)), ("sheet_len", jN (sheetLen env tags cs))]
  | "c12.history" => some do
      let o ← genOps
      let c ← match S2T.ReadHistory.Cfg.ofSites S2T.Gen.C12Sites.readFileActivations with
        | some c => pure c
        | none => throw "read_file activations: no guard / read site, sites disagree, or a site is unknown"
      let size ← getNat j "size"
      let a ← getArr j "events"
      let evs ← a.toList.mapM (fun e => do
        let k ← getStr e "ev"
        match k with
        | "call" => do return S2T.ReadHistory.Ev.call (← getInt e "limit")
        | "resize" => do return S2T.ReadHistory.Ev.resize (← getNat e "size")
        | "consume" => do return S2T.ReadHistory.Ev.consume (← getNat e "i")
        | _ => throw s!"unknown event {k}")
      let obs := S2T.ReadHistory.run o c ⟨size, []⟩ evs
      return Json.mkObj [("obs", Json.arr (obs.map (fun ob => match ob with
        | .none => Json.str "none" | .rejected => Json.str "reject" | .stale => Json.str "stale"
        | .read _ n => Json.mkObj [("read", jN n)] | .delivered n => Json.mkObj [("read", jN n)])).toArray)]
  | "c12.gz_stream" => some do
      let ms ← natArr j "members"
      let lim ← getNat j "limit"
      return Json.mkObj [("isize", jN (S2T.Inflate.isize ms)), ("inflated", jN (S2T.Inflate.inflated ms)),
                         ("bounded_read", jN (S2T.Inflate.produced .boundedRead lim ms)),
                         ("bounded_hands_on", Json.bool (S2T.Inflate.handedOn .boundedRead lim ms)),
                         ("trailer_hands_on", Json.bool (S2T.Inflate.handedOn .oneShotTrailerGuard lim ms))]
  | _ => none

end S2T.Drv.C12
