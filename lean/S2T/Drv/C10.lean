import S2T.Drv.Util
import S2T.Gen.SevenZip
import S2T.Lemmas.SevenZipHeader
namespace S2T.Drv.C10
open Lean S2T.Drv S2T.SevenZip S2T.ArchiveLoop

/-! Driver ops of C10.  Strings travel as arrays of code points, bytes as arrays of numbers. -/

/-- `zlib.crc32` (bitwise, reflected polynomial 0xEDB88320): the driver's value for the `crc` parameter. -/
def crcStep (x : Nat) : Nat := if x &&& 1 = 1 then (x >>> 1) ^^^ 0xEDB88320 else x >>> 1
def crcByte (c b : Nat) : Nat :=
  crcStep (crcStep (crcStep (crcStep (crcStep (crcStep (crcStep (crcStep (c ^^^ b))))))))
def crc32 (bs : Bytes) : Nat := (bs.foldl crcByte 0xFFFFFFFF) ^^^ 0xFFFFFFFF

def jErr : Err → Json
  | .bad7z _ => Json.str "bad7z"
  | .encrypted7z _ => Json.str "encrypted7z"
  | .other _ => Json.str "other"

def getNats (j : Json) : Except String (List Nat) := do
  let a ← j.getArr?
  a.toList.mapM (fun x => x.getNat?)

def optNats (j : Json) (k : String) : Except String (Option (List Nat)) :=
  match j.getObjVal? k with
  | .ok .null => .ok none
  | .ok v => some <$> getNats v
  | .error _ => .ok none

structure CodecEntry where
  kind : String
  dict : Option Nat
  inp : Bytes
  max : Option Nat          -- the decoder's max_length (none = -1)
  out : Option Bytes

def codecOf (tbl : List CodecEntry) : Codec :=
  { lzmaAlone := fun s m => match tbl.find? (fun e => e.kind == "alone" && e.max == m && e.inp == s) with
      | some e => e.out
      | none => some [99999]          -- table miss: poisoned answer (no byte is 99999)
    lzma2Raw := fun d s m => match tbl.find? (fun e => e.kind == "raw" && e.dict == d && e.max == m && e.inp == s) with
      | some e => e.out
      | none => some [99999] }

def getCodec (j : Json) : Except String Codec := do
  let arr ← match j.getObjVal? "codec" with
    | .ok v => v.getArr?
    | .error _ => pure #[]
  let es ← arr.toList.mapM fun e => do
    let kind ← getStr e "kind"
    let dict ← match e.getObjVal? "dict" with
      | .ok .null => pure none
      | .ok v => some <$> v.getNat?
      | .error _ => pure none
    let inp ← natArr e "in"
    let max ← match e.getObjVal? "max" with
      | .ok .null => pure none
      | .ok v => some <$> v.getNat?
      | .error _ => pure none
    let out ← optNats e "out"
    pure ({ kind, dict, inp, max, out } : CodecEntry)
  pure (codecOf es)

def variantOf (j : Json) : Variant :=
  match j.getObjValAs? String "variant" with
  | .ok "previous" => previous
  | .ok "legacy" => legacy
  | _ => fixed

def jOptNat : Option Nat → Json
  | some n => Json.num (JsonNumber.fromNat n)
  | none => Json.null

def jNat (n : Nat) : Json := Json.num (JsonNumber.fromNat n)

def jR (r : R) : Json :=
  Json.mkObj [
    ("files", Json.arr (r.files.map fun f => Json.mkObj [
        ("n", jNats f.filename), ("u", jNat f.uncompressed), ("d", Json.bool f.isDirectory),
        ("a", jNat f.attributes), ("f", jNat f.folderIndex)]).toArray),
    ("folders", Json.arr (r.folders.map fun f => Json.mkObj [
        ("c", Json.arr (f.coders.map fun c => Json.mkObj [("id", jNats c.id),
            ("p", match c.props with | some p => jNats p | none => Json.null)]).toArray),
        ("u", jNats f.unpackSizes), ("crc", jOptNat f.crc), ("ns", jNat f.numStreams), ("np", jNat f.numPackStreams)]).toArray),
    ("pp", jNats r.packPositions), ("ps", jNats r.packSizes), ("fs", jNats r.fileSizes),
    ("f2f", Json.arr (r.folderToFiles.map fun (k, v) => Json.arr #[jNat k, jNats v]).toArray),
    ("ef", jNats r.emptyFileIdx)]

def jWrites (ws : List (Str × Bytes)) : Json :=
  Json.arr (ws.map fun (n, b) => Json.arr #[jNats n, jNats b]).toArray

def extractBy (v : Variant) (ids : Ids) (c : Codec) (file : Bytes) (r : R) (wanted : Option (List Nat)) :
    Except Err (List (Str × Bytes)) :=
  if v.fixEmpty then extractAll ids c file r wanted else extractAllOld ids c file r

/-- op `c10.sevenzip`: SevenZipReader(file) and extractall -/
def sevenzip (j : Json) : Except String Json := do
  let file ← natArr j "file"
  let c ← getCodec j
  let v := variantOf j
  let ids := S2T.Gen.SevenZip.ids
  match parseHeader ids v crc32 c file with
  | .error e => return Json.mkObj [("err", jErr e)]
  | .ok r =>
    let wanted ← optNats j "wanted"
    -- the `_decompress_folder` calls of `extractall`: (folder, pack position, pack sizes, max_output)
    let plan := (folderPlan r.packSizes (packPosOf r) r.folders 0 0).filterMap fun (k, _, pos, sizes) =>
      match dictGet r.folderToFiles k with
      | some idxs =>
        match folderCap r.files wanted idxs with
        | .ok (some cap) => some (Json.arr #[jNat k, jNat pos, jNats sizes, jOptNat cap])
        | _ => none
      | none => none
    let ex := match extractBy v ids c file r wanted with
      | .ok ws => [("writes", jWrites ws)]
      | .error e => [("xerr", jErr e)]
    return Json.mkObj ([("r", jR r), ("pw", Json.bool (needsPassword ids r)), ("plan", Json.arr plan.toArray)] ++ ex)

/-- op `c10.num`: `_read_number` on a byte string -/
def num (j : Json) : Except String Json := do
  let b ← natArr j "b"
  match readNumber { stream := b } with
  | .ok (v, r) => return Json.mkObj [("v", jNat v), ("used", jNat (b.length - r.stream.length))]
  | .error e => return Json.mkObj [("err", jErr e)]

/-- op `c10.bits`: `_read_boolean_vector` -/
def bits (j : Json) : Except String Json := do
  let b ← natArr j "b"
  let count ← getNat j "count"
  let check ← getBool j "check"
  match readBoolVector count check { stream := b } with
  | .ok (v, r) => return Json.mkObj [("v", Json.arr (v.map Json.bool).toArray), ("used", jNat (b.length - r.stream.length))]
  | .error e => return Json.mkObj [("err", jErr e)]

/-! member loops: a result is identified by (label path, index within the member's own results) -/

structure ExtEntry where
  path : Str
  base : Str
  data : Bytes
  n : Nat
  raised : Bool

structure NameEntry where
  base : Str
  lower : Str
  sup : Bool
  back : Bool

def poison : Str × Nat := (S2T.ArchiveLoop.s "<model-asked-for-an-unknown-member>", 0)

def envOf (names : List NameEntry) (exts : List ExtEntry) : Env (Str × Nat) :=
  { consts := S2T.Gen.SevenZip.consts
    supported := fun b => match names.find? (·.base == b) with | some e => e.sup | none => false
    lower := fun b => match names.find? (·.base == b) with | some e => e.lower | none => b
    routedBack := fun b => match names.find? (·.base == b) with | some e => e.back | none => false
    extract := fun b data path =>
      match exts.find? (fun e => e.path == path) with
      | some e => if e.base == b && e.data == data then ((List.range e.n).map fun k => (path, k), e.raised)
                  else ([poison], false)
      | none => ([poison], false) }

def getEnv (j : Json) : Except String (Env (Str × Nat)) := do
  let ns ← getArr j "names"
  let names ← ns.toList.mapM fun e => do
    pure ({ base := ← natArr e "base", lower := ← natArr e "lower", sup := ← getBool e "sup",
            back := (e.getObjValAs? Bool "back").toOption.getD false } : NameEntry)
  let xs ← getArr j "exts"
  let exts ← xs.toList.mapM fun e => do
    pure ({ path := ← natArr e "path", base := ← natArr e "base", data := ← natArr e "data",
            n := ← getNat e "n", raised := ← getBool e "raised" } : ExtEntry)
  pure (envOf names exts)

def jExc : Option Exc → Json
  | none => Json.null
  | some .encrypted => Json.str "encrypted"
  | some .failed => Json.str "failed"
  | some .tooLarge => Json.str "tooLarge"

def jOut (o : Out (Str × Nat)) : Json :=
  Json.mkObj [("y", Json.arr (o.yields.map fun (p, k) => Json.arr #[jNats p, jNat k]).toArray), ("t", jExc o.terminal)]

def getAp (j : Json) : Except String (Option Str) := optNats j "ap"

/-- the model sent the archive to a reader other than the one whose library produced the member list -/
def misrouted : Out (Str × Nat) := { yields := [poison] }

/-- op `c10.zip`: `_extract_from_zip_optimized` over the members zipfile reports -/
def zipOp (j : Json) : Except String Json := do
  let env ← getEnv j
  let ap ← getAp j
  let ms ← getArr j "members"
  let infos ← ms.toList.mapM fun m => do
    let rd ← getStr m "read"
    let read ← match rd with
      | "data" => do pure (ZipRead.data (← natArr m "data"))
      | "runtime" => pure ZipRead.runtimeError
      | "badzip" => pure ZipRead.badZip
      | _ => pure ZipRead.otherExc
    pure ({ filename := ← natArr m "name", isDir := ← getBool m "dir", flagBits := ← getNat m "flags",
            fileSize := ← getNat m "size", read } : ZipInfo)
  let head ← natArr j "head"
  return jOut (readArchive S2T.Gen.SevenZip.consts head (fun _ => readZip env ap infos) (fun _ => misrouted) (fun _ => misrouted))

/-- op `c10.tar`: the member loop of `_extract_from_tar_optimized` -/
def tarOp (j : Json) : Except String Json := do
  let env ← getEnv j
  let ap ← getAp j
  let ms ← getArr j "members"
  let members ← ms.toList.mapM fun m => do
    let rd ← getStr m "read"
    let read ← match rd with
      | "data" => do pure (TarRead.data (← natArr m "data"))
      | "none" => pure TarRead.noFile
      | _ => pure TarRead.raised
    pure ({ name := ← natArr m "name", isReg := ← getBool m "reg", size := ← getNat m "size", read } : TarMember)
  let head ← natArr j "head"
  let comp ← getStr j "comp"
  let want := S2T.ArchiveLoop.s ("r:" ++ (if comp == "" then "tar" else comp))
  return jOut (readArchive S2T.Gen.SevenZip.consts head (fun _ => misrouted) (fun _ => misrouted)
    (fun mode => if mode == want then { yields := readTar env ap members } else misrouted))

/-- op `c10.seven`: `_extract_from_7z_optimized` on the bytes of a 7z file -/
def sevenOp (j : Json) : Except String Json := do
  let env ← getEnv j
  let ap ← getAp j
  let file ← natArr j "file"
  let c ← getCodec j
  let v := variantOf j
  let ids := S2T.Gen.SevenZip.ids
  return jOut (readArchive S2T.Gen.SevenZip.consts file (fun _ => misrouted)
    (fun _ => read7z env ap file (parseHeader ids v crc32 c) (needsPassword ids) (extractBy v ids c)) (fun _ => misrouted))

/-- op `c10.detect`: `_detect_archive_type_optimized` and the dispatch of `read_archive` -/
def detectOp (j : Json) : Except String Json := do
  let b ← natArr j "b"
  let old := (j.getObjValAs? Bool "old").toOption.getD false
  let t := if old then detectOld S2T.Gen.SevenZip.consts b else detect S2T.Gen.SevenZip.consts b
  let r := match t with
    | none => Json.null
    | some t => match route t with
      | .zip => Json.str "zip"
      | .sevenZ => Json.str "7z"
      | .tar m => Json.arr #[Json.str "tar", jNats m]
      | .unsupported => Json.str "unsupported"
  return Json.mkObj [("t", match t with | some t => jNats t | none => Json.null), ("route", r)]


/-! op `c10.write_header`: the writer SPECIFICATION (`S2T/Spec/SevenZipWriter.lean`) rendered for a layout — the very
    functions the round-trip theorems of `Props/C10_Header.lean` are about — plus `stateOf` of that layout. -/

namespace W
open S2T.Spec.SevenZipWriter

def getEntry (e : Json) : Except String EntrySpec := do
  pure { name := ← natArr e "n", isDir := ← getBool e "d", size := ← getNat e "s", attrib := ← getNat e "a",
         mtime := ← getNat e "t", crc := ← getNat e "c" }

def getFolder (f : Json) : Except String FolderSpec := do
  let m ← getStr f "m"
  let method ← match m with
    | "copy" => pure Method.copy
    | "lzma" => do pure (Method.lzma (← natArr f "props"))
    | "lzma2" => do
      match (← natArr f "props") with
      | [p] => pure (Method.lzma2 p)
      | _ => throw "lzma2 needs one property byte"
    | _ => throw ("unknown method " ++ m)
  let es ← (← getArr f "entries").toList.mapM getEntry
  pure { method, packSize := ← getNat f "pack", packCrc := ← getNat f "pcrc", crc := ← getNat f "crc", entries := es }

def getLayout (j : Json) : Except String Layout := do
  let fs ← (← getArr j "folders").toList.mapM getFolder
  let tail ← (← getArr j "tail").toList.mapM getEntry
  let o ← j.getObjVal? "opts"
  pure { packPos := ← getNat j "pack_pos", folders := fs, tail,
         opts := { packCrc := ← getBool o "pack_crc", folderCrc := ← getBool o "folder_crc",
                   alwaysNumStreams := ← getBool o "always_num_streams", attrs := ← getBool o "attrs",
                   mtime := ← getBool o "mtime", dummy := ← getNat o "dummy", namesFirst := ← getBool o "names_first" } }

def writeHeaderOp (j : Json) : Except String Json := do
  let L ← getLayout j
  let bodyLen ← getNat j "body_len"
  let hdr := writeHeader L
  return Json.mkObj [("header", jNats hdr), ("start", jNats (startHeader crc32 bodyLen hdr)),
    ("wf", Json.bool (wellFormed L)), ("mixed", Json.bool (mixedWithFolderCrc L)), ("state", jR (stateOf L))]

/-- op `c10.wprim`: `number n`, `bitVector bits` and `nameBytes name` of the specification -/
def wprimOp (j : Json) : Except String Json := do
  let n ← getNat j "n"
  let bits ← (← getArr j "bits").toList.mapM (fun x => x.getBool?)
  let name ← natArr j "name"
  return Json.mkObj [("num", jNats (number n)), ("bits", jNats (bitVector bits)), ("name", jNats (nameBytes name))]

end W

def handle (op : String) (j : Json) : Option (Except String Json) :=
  match op with
  | "c10.sevenzip" => some (sevenzip j)
  | "c10.num" => some (num j)
  | "c10.bits" => some (bits j)
  | "c10.zip" => some (zipOp j)
  | "c10.tar" => some (tarOp j)
  | "c10.seven" => some (sevenOp j)
  | "c10.detect" => some (detectOp j)
  | "c10.write_header" => some (W.writeHeaderOp j)
  | "c10.wprim" => some (W.wprimOp j)
  | _ => none

end S2T.Drv.C10
