import S2T.Lemmas.AesSpec
/-!
The model of `_pypdf_aes_fallback.py` (S2T/Model/Aes.lean) computes the FIPS-197 / SP 800-38A functions,
for every table set `T` with `TablesOk T` (decidable; re-decided on the tables generated from the source).
-/
namespace S2T.AesL
open S2T.Aes (IsBytes Tables Exc)
open S2T.Spec

/-- table `t` has 256 entries and `t[x] = f x` for every byte x -/
def TabOk (t : List Nat) (f : Nat → Nat) : Prop := t.length = 256 ∧ ∀ x, x < 256 → t.getD x 0 = f x

instance (t : List Nat) (f : Nat → Nat) : Decidable (TabOk t f) := by unfold TabOk; infer_instance

/-- `_RCON` has the 15 entries 0, x⁰, x¹, …, x¹³ -/
def RconOk (t : List Nat) : Prop := t.length = 15 ∧ ∀ i, i < 15 → t.getD i 0 = Fips197.rcon i

instance (t : List Nat) : Decidable (RconOk t) := by unfold RconOk; infer_instance

/-- every table of the module is the FIPS-197 function it stands for -/
structure TablesOk (T : Tables) : Prop where
  sbox : TabOk T.sbox Fips197.sbox
  invSbox : TabOk T.invSbox Fips197.invSbox
  mul2 : TabOk T.mul2 (fun a => Fips197.gmul a 2)
  mul3 : TabOk T.mul3 (fun a => Fips197.gmul a 3)
  mul9 : TabOk T.mul9 (fun a => Fips197.gmul a 9)
  mul11 : TabOk T.mul11 (fun a => Fips197.gmul a 11)
  mul13 : TabOk T.mul13 (fun a => Fips197.gmul a 13)
  mul14 : TabOk T.mul14 (fun a => Fips197.gmul a 14)
  rcon : RconOk T.rcon

section
variable {T : Tables}

theorem sbox_eq (hT : TablesOk T) {a : Nat} (h : a < 256) : T.sbox.getD a 0 = Fips197.sbox a := hT.sbox.2 a h
theorem invSbox_eq (hT : TablesOk T) {a : Nat} (h : a < 256) : T.invSbox.getD a 0 = Fips197.invSbox a := hT.invSbox.2 a h
theorem mul2_eq (hT : TablesOk T) {a : Nat} (h : a < 256) : T.mul2.getD a 0 = Fips197.gmul a 2 := hT.mul2.2 a h
theorem mul3_eq (hT : TablesOk T) {a : Nat} (h : a < 256) : T.mul3.getD a 0 = Fips197.gmul a 3 := hT.mul3.2 a h
theorem mul9_eq (hT : TablesOk T) {a : Nat} (h : a < 256) : T.mul9.getD a 0 = Fips197.gmul a 9 := hT.mul9.2 a h
theorem mul11_eq (hT : TablesOk T) {a : Nat} (h : a < 256) : T.mul11.getD a 0 = Fips197.gmul a 11 := hT.mul11.2 a h
theorem mul13_eq (hT : TablesOk T) {a : Nat} (h : a < 256) : T.mul13.getD a 0 = Fips197.gmul a 13 := hT.mul13.2 a h
theorem mul14_eq (hT : TablesOk T) {a : Nat} (h : a < 256) : T.mul14.getD a 0 = Fips197.gmul a 14 := hT.mul14.2 a h

/-! ### round functions -/

theorem foldl_set_map (f : Nat → Nat) (s : List Nat) (h : s.length = 16) :
    (List.range 16).foldl (fun st i => st.set i (f (st.getD i 0))) s = s.map f := by
  obtain ⟨a0, a1, a2, a3, a4, a5, a6, a7, a8, a9, a10, a11, a12, a13, a14, a15, rfl⟩ := list16 s h
  rfl

theorem subBytes_eq (hT : TablesOk T) {s : List Nat} (hs : Block s) : Aes.subBytes T s = Fips197.subBytes s := by
  have e : Aes.subBytes T s = s.map (fun b => T.sbox.getD b 0) := foldl_set_map (fun b => T.sbox.getD b 0) s hs.1
  rw [e]
  apply List.map_congr_left
  intro a ha
  exact sbox_eq hT (hs.2 a ha)

theorem invSubBytes_eq (hT : TablesOk T) {s : List Nat} (hs : Block s) :
    Aes.invSubBytes T s = Fips197.invSubBytes s := by
  have e : Aes.invSubBytes T s = s.map (fun b => T.invSbox.getD b 0) :=
    foldl_set_map (fun b => T.invSbox.getD b 0) s hs.1
  rw [e]
  apply List.map_congr_left
  intro a ha
  exact invSbox_eq hT (hs.2 a ha)

theorem shiftRows_eq {s : List Nat} (h : s.length = 16) : Aes.shiftRows s = Fips197.shiftRows s := by
  obtain ⟨a0, a1, a2, a3, a4, a5, a6, a7, a8, a9, a10, a11, a12, a13, a14, a15, rfl⟩ := list16 s h
  rfl

theorem invShiftRows_eq {s : List Nat} (h : s.length = 16) : Aes.invShiftRows s = Fips197.invShiftRows s := by
  obtain ⟨a0, a1, a2, a3, a4, a5, a6, a7, a8, a9, a10, a11, a12, a13, a14, a15, rfl⟩ := list16 s h
  rfl

theorem addRoundKey_eq {s k : List Nat} (h : s.length = 16) (hk : k.length = 16) :
    Aes.addRoundKey s k = Fips197.addRoundKey s k := by
  obtain ⟨a0, a1, a2, a3, a4, a5, a6, a7, a8, a9, a10, a11, a12, a13, a14, a15, rfl⟩ := list16 s h
  obtain ⟨b0, b1, b2, b3, b4, b5, b6, b7, b8, b9, b10, b11, b12, b13, b14, b15, rfl⟩ := list16 k hk
  rfl

/-- `for idx in range(16): out[offset + idx] = dec[idx] ^ prev[idx]` -/
theorem xor16_eq {s k : List Nat} (h : s.length = 16) (hk : k.length = 16) :
    (List.range 16).map (fun idx => s.getD idx 0 ^^^ k.getD idx 0) = Fips197.xorWords s k := by
  obtain ⟨a0, a1, a2, a3, a4, a5, a6, a7, a8, a9, a10, a11, a12, a13, a14, a15, rfl⟩ := list16 s h
  obtain ⟨b0, b1, b2, b3, b4, b5, b6, b7, b8, b9, b10, b11, b12, b13, b14, b15, rfl⟩ := list16 k hk
  rfl

/-- one column as `_mix_columns` computes it -/
def mcolT (T : Tables) (a0 a1 a2 a3 : Nat) : List Nat :=
  [T.mul2.getD a0 0 ^^^ T.mul3.getD a1 0 ^^^ a2 ^^^ a3, a0 ^^^ T.mul2.getD a1 0 ^^^ T.mul3.getD a2 0 ^^^ a3,
   a0 ^^^ a1 ^^^ T.mul2.getD a2 0 ^^^ T.mul3.getD a3 0, T.mul3.getD a0 0 ^^^ a1 ^^^ a2 ^^^ T.mul2.getD a3 0]

/-- one column as `_inv_mix_columns` computes it -/
def imcolT (T : Tables) (a0 a1 a2 a3 : Nat) : List Nat :=
  [T.mul14.getD a0 0 ^^^ T.mul11.getD a1 0 ^^^ T.mul13.getD a2 0 ^^^ T.mul9.getD a3 0,
   T.mul9.getD a0 0 ^^^ T.mul14.getD a1 0 ^^^ T.mul11.getD a2 0 ^^^ T.mul13.getD a3 0,
   T.mul13.getD a0 0 ^^^ T.mul9.getD a1 0 ^^^ T.mul14.getD a2 0 ^^^ T.mul11.getD a3 0,
   T.mul11.getD a0 0 ^^^ T.mul13.getD a1 0 ^^^ T.mul9.getD a2 0 ^^^ T.mul14.getD a3 0]

theorem mcolT_eq (hT : TablesOk T) {a b c d : Nat} (ha : a < 256) (hb : b < 256) (hc : c < 256) (hd : d < 256) :
    mcolT T a b c d = mcol a b c d := by
  simp only [mcolT, mcol, mul2_eq hT ha, mul2_eq hT hb, mul2_eq hT hc, mul2_eq hT hd,
    mul3_eq hT ha, mul3_eq hT hb, mul3_eq hT hc, mul3_eq hT hd]

theorem imcolT_eq (hT : TablesOk T) {a b c d : Nat} (ha : a < 256) (hb : b < 256) (hc : c < 256) (hd : d < 256) :
    imcolT T a b c d = imcol a b c d := by
  simp only [imcolT, imcol, mul9_eq hT ha, mul9_eq hT hb, mul9_eq hT hc, mul9_eq hT hd,
    mul11_eq hT ha, mul11_eq hT hb, mul11_eq hT hc, mul11_eq hT hd,
    mul13_eq hT ha, mul13_eq hT hb, mul13_eq hT hc, mul13_eq hT hd,
    mul14_eq hT ha, mul14_eq hT hb, mul14_eq hT hc, mul14_eq hT hd]

theorem mixColumns_eq (hT : TablesOk T) {s : List Nat} (hs : Block s) :
    Aes.mixColumns T s = Fips197.mixColumns s := by
  obtain ⟨hl, hb⟩ := hs
  obtain ⟨a0, a1, a2, a3, a4, a5, a6, a7, a8, a9, a10, a11, a12, a13, a14, a15, rfl⟩ := list16 s hl
  have e : Aes.mixColumns T [a0, a1, a2, a3, a4, a5, a6, a7, a8, a9, a10, a11, a12, a13, a14, a15]
      = mcolT T a0 a1 a2 a3 ++ mcolT T a4 a5 a6 a7 ++ mcolT T a8 a9 a10 a11 ++ mcolT T a12 a13 a14 a15 := rfl
  rw [e, mixColumns_expl hb]
  simp only [isBytes_cons] at hb
  obtain ⟨h0, h1, h2, h3, h4, h5, h6, h7, h8, h9, h10, h11, h12, h13, h14, h15, _⟩ := hb
  rw [mcolT_eq hT h0 h1 h2 h3, mcolT_eq hT h4 h5 h6 h7, mcolT_eq hT h8 h9 h10 h11, mcolT_eq hT h12 h13 h14 h15]

theorem invMixColumns_eq (hT : TablesOk T) {s : List Nat} (hs : Block s) :
    Aes.invMixColumns T s = Fips197.invMixColumns s := by
  obtain ⟨hl, hb⟩ := hs
  obtain ⟨a0, a1, a2, a3, a4, a5, a6, a7, a8, a9, a10, a11, a12, a13, a14, a15, rfl⟩ := list16 s hl
  have e : Aes.invMixColumns T [a0, a1, a2, a3, a4, a5, a6, a7, a8, a9, a10, a11, a12, a13, a14, a15]
      = imcolT T a0 a1 a2 a3 ++ imcolT T a4 a5 a6 a7 ++ imcolT T a8 a9 a10 a11 ++ imcolT T a12 a13 a14 a15 := rfl
  rw [e, invMixColumns_expl]
  simp only [isBytes_cons] at hb
  obtain ⟨h0, h1, h2, h3, h4, h5, h6, h7, h8, h9, h10, h11, h12, h13, h14, h15, _⟩ := hb
  rw [imcolT_eq hT h0 h1 h2 h3, imcolT_eq hT h4 h5 h6 h7, imcolT_eq hT h8 h9 h10 h11, imcolT_eq hT h12 h13 h14 h15]

end
end S2T.AesL
