import S2T.Model.Mail
/-! Helper lemmas for the e-mail theorems (C16). -/
namespace S2T.Mail
open S2T.Router (Str Tables lookup)

/-! ### lines -/

theorem lines_cons_nl (bs : Bytes) : lines (10 :: bs) = [10] :: lines bs := by
  rw [lines]; simp

theorem lines_cons_ne (b : Nat) (bs : Bytes) (hb : b ≠ 10) :
    lines (b :: bs) = consLine b (lines bs) := by
  rw [lines]; simp [hb]

theorem lines_flatten (m : Bytes) : (lines m).flatten = m := by
  induction m with
  | nil => simp [lines]
  | cons b bs ih =>
    by_cases hb : b = 10
    · subst hb; rw [lines_cons_nl]; simp [ih]
    · rw [lines_cons_ne b bs hb]
      cases h : lines bs with
      | nil => rw [h] at ih; simp at ih; simp [consLine, ← ih]
      | cons l ls => rw [h] at ih; simp at ih; simp [consLine, ← ih]

theorem lines_ne_nil (m : Bytes) (h : m ≠ []) : lines m ≠ [] := by
  cases m with
  | nil => exact absurd rfl h
  | cons b bs =>
    by_cases hb : b = 10
    · subst hb; rw [lines_cons_nl]; simp
    · rw [lines_cons_ne b bs hb]; unfold consLine; split <;> simp

/-- a line without interior `\n`, terminated by `\n`, is split off as it is -/
theorem lines_single (a r : Bytes) (ha : ∀ b ∈ a, b ≠ 10) :
    lines (a ++ 10 :: r) = (a ++ [10]) :: lines r := by
  induction a with
  | nil => simp [lines_cons_nl]
  | cons b bs ih =>
    have hb : b ≠ 10 := ha b (by simp)
    have ih' := ih (fun x hx => ha x (by simp [hx]))
    show lines (b :: (bs ++ 10 :: r)) = _
    rw [lines_cons_ne _ _ hb, ih']
    simp [consLine]

/-- empty, or ending in `\n` -/
def Term (m : Bytes) : Prop := m = [] ∨ m.getLast? = some 10

instance (m : Bytes) : Decidable (Term m) := by unfold Term; exact inferInstance

theorem lines_append (m x : Bytes) (hm : Term m) : lines (m ++ x) = lines m ++ lines x := by
  induction m with
  | nil => simp [lines]
  | cons b bs ih =>
    have hbs : Term bs := by
      rcases hm with h | h
      · cases h
      · cases bs with
        | nil => left; rfl
        | cons c cs => right; simpa [List.getLast?_cons_cons] using h
    have ih' := ih hbs
    show lines (b :: (bs ++ x)) = lines (b :: bs) ++ lines x
    by_cases hb : b = 10
    · subst hb
      simp [lines_cons_nl, ih']
    · have hne : bs ≠ [] := by
        intro hnil; subst hnil
        rcases hm with h | h
        · cases h
        · simp at h; exact hb h
      have hl := lines_ne_nil bs hne
      rw [lines_cons_ne _ _ hb, lines_cons_ne _ _ hb, ih']
      cases hls : lines bs with
      | nil => exact absurd hls hl
      | cons l ls => simp [consLine]

/-! ### separator lines -/

theorem isSepLine_shape (l : Bytes) (h : isSepLine l = true) :
    ∃ a, l = a ++ [10] ∧ ∀ b ∈ a, b ≠ 10 := by
  unfold isSepLine at h
  simp only [Bool.and_eq_true, beq_iff_eq, List.all_eq_true, bne_iff_ne, ne_eq] at h
  obtain ⟨hlast, hall, _⟩ := h
  obtain ⟨ys, rfl⟩ := List.getLast?_eq_some_iff.mp hlast
  refine ⟨ys, rfl, ?_⟩
  simpa using hall

theorem lines_sep (s r : Bytes) (h : isSepLine s = true) : lines (s ++ r) = s :: lines r := by
  obtain ⟨a, rfl, ha⟩ := isSepLine_shape s h
  rw [List.append_assoc]
  exact lines_single a r ha

/-- a line that does not begin with `From␠` is never a separator -/
theorem isSepLine_of_not_from (l : Bytes) (h : (fromSp.isPrefixOf l) = false) : isSepLine l = false := by
  apply Bool.eq_false_iff.mpr
  intro hs
  unfold isSepLine at hs
  simp only [Bool.and_eq_true, beq_iff_eq] at hs
  obtain ⟨_, _, htake, _⟩ := hs
  have hp : fromSp.isPrefixOf l = true := by
    rw [List.isPrefixOf_iff_prefix]
    have h1 : fromSp <+: (if l.dropLast.getLast? = some 13 then l.dropLast.dropLast else l.dropLast) := by
      rw [← htake]; exact List.take_prefix _ _
    have h2 : (if l.dropLast.getLast? = some 13 then l.dropLast.dropLast else l.dropLast) <+: l := by
      split
      · exact (List.dropLast_prefix _).trans (List.dropLast_prefix _)
      · exact List.dropLast_prefix _
    exact h1.trans h2
  rw [hp] at h; cases h

/-! ### chunks -/

def NonSep (m : Bytes) : Prop := ∀ l ∈ lines m, isSepLine l = false

instance (m : Bytes) : Decidable (NonSep m) := by unfold NonSep; exact inferInstance

theorem chunksAux_nonsep (L R : List Bytes) (c : Bytes) (hL : ∀ l ∈ L, isSepLine l = false) :
    chunksAux (some c) (L ++ R) = chunksAux (some (c ++ L.flatten)) R := by
  induction L generalizing c with
  | nil => simp
  | cons l ls ih =>
    have hl := hL l (by simp)
    simp only [List.cons_append, chunksAux, hl, Bool.false_eq_true, ↓reduceIte, Option.map_some]
    rw [ih (c ++ l) (fun x hx => hL x (by simp [hx]))]
    simp

theorem chunksAux_nonsep_none (L R : List Bytes) (hL : ∀ l ∈ L, isSepLine l = false) :
    chunksAux none (L ++ R) = chunksAux none R := by
  induction L with
  | nil => simp
  | cons l ls ih =>
    have hl := hL l (by simp)
    simp only [List.cons_append, chunksAux, hl, Bool.false_eq_true, ↓reduceIte, Option.map_none]
    exact ih (fun x hx => hL x (by simp [hx]))

/-- the bytes of an mbox: every message preceded by its separator line -/
def mboxJoin : List (Bytes × Bytes) → Bytes
  | [] => []
  | (s, m) :: r => s ++ (m ++ mboxJoin r)

/-- what a writer guarantees: separator lines match the pattern, no line of a message does, and
    every message but the last ends with a line end (so that the next separator starts a line) -/
def WellFormed : List (Bytes × Bytes) → Prop
  | [] => True
  | (s, m) :: r => isSepLine s = true ∧ NonSep m ∧ (r ≠ [] → Term m) ∧ WellFormed r

theorem chunks_join (ps : List (Bytes × Bytes)) (h : WellFormed ps) (cur : Option Bytes) :
    chunksAux cur (lines (mboxJoin ps)) = cur.toList ++ ps.map (·.2) := by
  induction ps generalizing cur with
  | nil => simp [mboxJoin, lines, chunksAux]
  | cons p r ih =>
    obtain ⟨s, m⟩ := p
    obtain ⟨hs, hm, ht, hr⟩ := h
    simp only [mboxJoin]
    rw [lines_sep s _ hs]
    simp only [chunksAux, hs, ↓reduceIte, List.map_cons]
    congr 1
    cases r with
    | nil =>
      simp only [mboxJoin, List.append_nil, List.map_nil]
      have := chunksAux_nonsep (lines m) [] [] hm
      simp only [List.append_nil, List.nil_append, lines_flatten] at this
      rw [this]; simp [chunksAux]
    | cons q r' =>
      have htm := ht (by simp)
      rw [lines_append m _ htm]
      have := chunksAux_nonsep (lines m) (lines (mboxJoin (q :: r'))) [] hm
      simp only [List.nil_append, lines_flatten] at this
      rw [this, ih hr (some m)]
      simp

/-! ### MIME tree -/

/-- the entry is an inline leaf of type `ct` that yields a non-empty body -/
def isBody (ct : Str) (e : Tree × Bool) : Bool :=
  !e.2 && e.1.part.ctype == ct && !e.1.part.payload.isEmpty && !e.1.part.text.isEmpty

/-- text of the first entry that `isBody`, `""` if there is none -/
def firstBody (ct : Str) (L : List (Tree × Bool)) : Str :=
  match L.find? (isBody ct) with
  | some e => e.1.part.text
  | none => []

theorem firstBody_cons (ct : Str) (e : Tree × Bool) (L : List (Tree × Bool)) :
    firstBody ct (e :: L) = if isBody ct e then e.1.part.text else firstBody ct L := by
  by_cases h : isBody ct e = true
  · simp [firstBody, h]
  · simp [firstBody, h]

theorem plain_ne_html : sTextPlain ≠ sTextHtml := by decide

theorem foldl_bodyStep (L : List (Tree × Bool)) (st : Str × Str) :
    L.foldl bodyStep st =
      (if st.1 = [] then firstBody sTextPlain L else st.1,
       if st.2 = [] then firstBody sTextHtml L else st.2) := by
  induction L generalizing st with
  | nil => obtain ⟨a, b⟩ := st; simp [firstBody]
  | cons e L ih =>
    rw [List.foldl_cons, ih, firstBody_cons, firstBody_cons]
    obtain ⟨a, b⟩ := st
    obtain ⟨t, att⟩ := e
    cases att with
    | true => simp [bodyStep, isBody]
    | false =>
      have hne := plain_ne_html
      by_cases hp : t.part.ctype = sTextPlain
      · have hh : ¬ t.part.ctype = sTextHtml := by rw [hp]; exact hne
        by_cases ha : a = []
        · by_cases hpl : t.part.payload = []
          · simp [bodyStep, isBody, hp, ha, hpl]
          · by_cases htx : t.part.text = []
            · simp [bodyStep, isBody, hp, ha, hpl, htx, hne]
            · simp [bodyStep, isBody, hp, ha, hpl, htx, hne]
        · simp [bodyStep, isBody, hp, ha, hne]
      · by_cases hh : t.part.ctype = sTextHtml
        · by_cases hb : b = []
          · by_cases hpl : t.part.payload = []
            · simp [bodyStep, isBody, hh, hb, hpl, Ne.symm hne]
            · by_cases htx : t.part.text = []
              · simp [bodyStep, isBody, hh, hb, hpl, htx, Ne.symm hne]
              · simp [bodyStep, isBody, hh, hb, hpl, htx, Ne.symm hne]
          · simp [bodyStep, isBody, hh, hb, Ne.symm hne]
        · simp [bodyStep, isBody, hp, hh]

theorem foldl_attach {α β} (f : α → β) (q : α → Bool) (L : List α) (init : List β) :
    L.foldl (fun acc e => if !q e then acc else acc ++ [f e]) init = init ++ (L.filter q).map f := by
  induction L generalizing init with
  | nil => simp
  | cons e L ih =>
    rw [List.foldl_cons, ih]
    by_cases h : q e = true
    · simp [h]
    · simp [h]

mutual
/-- all leaves in document order -/
def leaves : Tree → List Tree
  | .leaf p => [.leaf p]
  | .multi _ cs => leavesList cs
def leavesList : List Tree → List Tree
  | [] => []
  | c :: cs => leaves c ++ leavesList cs
end

mutual
/-- no container is itself an attachment (attachments are leaves) -/
def attLeavesOnly : Tree → Bool
  | .leaf _ => true
  | .multi p cs => !isAttachment p && attLeavesOnlyList cs
def attLeavesOnlyList : List Tree → Bool
  | [] => true
  | c :: cs => attLeavesOnly c && attLeavesOnlyList cs
end

mutual
theorem iterParts_leaves : ∀ t, attLeavesOnly t = true →
    iterParts t = (leaves t).map (fun l => (l, isAttachment l.part))
  | .leaf p, _ => by
    simp only [iterParts, leaves, List.map_cons, List.map_nil, Tree.part]
    split <;> simp_all
  | .multi p cs, h => by
    simp only [attLeavesOnly, Bool.and_eq_true, Bool.not_eq_true'] at h
    simp only [iterParts, h.1, Bool.false_eq_true, ↓reduceIte, leaves]
    exact iterPartsList_leaves cs h.2
theorem iterPartsList_leaves : ∀ cs, attLeavesOnlyList cs = true →
    iterPartsList cs = (leavesList cs).map (fun l => (l, isAttachment l.part))
  | [], _ => by simp [iterPartsList, leavesList]
  | c :: cs, h => by
    simp only [attLeavesOnlyList, Bool.and_eq_true] at h
    simp only [iterPartsList, leavesList, List.map_append]
    rw [iterParts_leaves c h.1, iterPartsList_leaves cs h.2]
end

/-! ### eml mapping -/

theorem readEml_ok (T : Tables) (m : Mp) (r : EmlResult) (h : readEml T m = .ok r) :
    ∃ f to, m.to.mapM pair2 = .ok to ∧
      r = { from_ := f, to := to, cc := filterAddr m.cc, bcc := filterAddr m.bcc,
            replyTo := filterAddr m.replyTo, subject := m.subject,
            bodyPlain := joinNl m.textPlain, bodyHtml := joinNl m.textHtml,
            attachments := m.attachments.map (mkEmlAttachment T) } := by
  unfold readEml at h
  split at h
  · cases h
  · split at h
    · cases h
    · split at h
      · cases h
      · rename_i hto
        cases h
        exact ⟨_, _, hto, rfl⟩

end S2T.Mail
