import S2T.Lemmas.OmmlBal
/-! C19 balance: the decidable table condition `TablesOk`, the invariant `Good` of a state
    transformer, and its preservation by every template of `process_element`. -/
namespace S2T.Omml

/-- a pending closing bracket that is safe to look for in converted text: not a brace, and not a
    character of any replacement text of the symbol table -/
def closerOk (T : Tables) (c : Char) : Bool :=
  c != '{' && c != '}' && T.greek.all (fun kv => !kv.2.contains c)

def closerOf (T : Tables) (key : Str) : Char := (lookup key T.brackets).getD d_closer

/-- Table well-formedness the C19 theorems need (decidable; re-decided on the generated tables). -/
def TablesOk (T : Tables) : Bool :=
  -- braces and the backslash are not blanks
  !T.spaces.contains 123 && !T.spaces.contains 125 && !T.spaces.contains 92
  -- every replacement text is brace-balanced by itself and has #{ ≤ #} + #\
  && T.greek.all (fun kv => walk kv.2 0 == some 0
        && decide (kv.2.count '{' ≤ kv.2.count '}' + kv.2.count '\\'))
  -- opening brackets other than "{" are brace-free and their closers are safe
  && T.opens.all (fun key => key == ['{'] || (braceFree key && closerOk T (closerOf T key)))
  && T.naryOps.all (fun kv => braceFree kv.2)
  -- function names map to backslash + name
  && T.funcs.all (fun kv => braceFree kv.1 && kv.2 == '\\' :: kv.1)
  && T.accents.all (fun kv => braceFree kv.2)
  -- run text is not a skipped tag
  && !T.skip.contains n_t

structure TOk (T : Tables) : Prop where
  sp : SpOk T
  greek : ∀ c v, (c, v) ∈ T.greek → walk v 0 = some 0 ∧ v.count '{' ≤ v.count '}' + v.count '\\'
  opens : ∀ key ∈ T.opens, key = ['{'] ∨ (NoBrS key ∧ closerOk T (closerOf T key) = true)
  nary : ∀ k v, (k, v) ∈ T.naryOps → NoBrS v
  funcs : ∀ k v, (k, v) ∈ T.funcs → NoBrS k ∧ v = '\\' :: k
  accents : ∀ k v, (k, v) ∈ T.accents → NoBrS v
  skip_t : T.skip.contains n_t = false

theorem TOk_of {T : Tables} (h : TablesOk T = true) : TOk T := by
  simp only [TablesOk, Bool.and_eq_true, List.all_eq_true, Bool.not_eq_true', Bool.or_eq_true,
    beq_iff_eq, decide_eq_true_eq] at h
  obtain ⟨⟨⟨⟨⟨⟨⟨⟨h1, h2⟩, h3⟩, h4⟩, h5⟩, h6⟩, h7⟩, h8⟩, h9⟩ := h
  refine ⟨⟨h1, h2, h3⟩, ?_, ?_, ?_, ?_, ?_, h9⟩
  · intro c v hm; exact h4 (c, v) hm
  · intro key hk
    rcases h5 key hk with h | h
    · exact Or.inl h
    · exact Or.inr ⟨(braceFree_iff _).mp h.1, h.2⟩
  · intro k v hm; exact (braceFree_iff _).mp (h6 (k, v) hm)
  · intro k v hm
    have := h7 (k, v) hm
    exact ⟨(braceFree_iff _).mp this.1, this.2⟩
  · intro k v hm; exact (braceFree_iff _).mp (h8 (k, v) hm)

theorem lookup_mem {α β} [DecidableEq α] (k : α) (l : List (α × β)) (v : β) (h : lookup k l = some v) :
    (k, v) ∈ l := by
  induction l with
  | nil => simp [lookup] at h
  | cons hd t ih =>
    obtain ⟨k', v'⟩ := hd
    by_cases hk : k = k'
    · simp [lookup, hk] at h; simp [hk, h]
    · simp [lookup, hk] at h; exact List.mem_cons_of_mem _ (ih h)

/-! ### literals -/
theorem walk_mono (s : Str) (d d' e : Nat) (h : walk s d = some d') : walk s (d + e) = some (d' + e) := by
  induction s generalizing d with
  | nil => simp [walk] at *; omega
  | cons c r ih =>
    simp only [walk] at *
    split
    · rename_i hc; simp only [hc, ↓reduceIte] at h
      have := ih _ h; rw [show d + e + 1 = d + 1 + e by omega]; exact this
    · rename_i hc; simp only [hc, ↓reduceIte] at h
      split
      · rename_i hc2; simp only [hc2, ↓reduceIte] at h
        cases d with
        | zero => simp at h
        | succ d0 =>
          simp only at h
          rw [show d0 + 1 + e = (d0 + e) + 1 by omega]
          exact ih _ h
      · rename_i hc2; simp only [hc2, ↓reduceIte] at h
        exact ih _ h

theorem Bal_of_walk' {o : Out} {i j : Nat} (h : walk (render o) i = some j) (k : Nat) :
    Bal o (k + i) (k + j) := by
  intro d
  rw [show d + (k + i) = i + (d + k) by omega, show d + (k + j) = j + (d + k) by omega]
  exact walk_mono _ i j (d + k) h

theorem Bal_of_walk {s : Str} {i j : Nat} (h : walk s i = some j) (k : Nat) :
    Bal (lit s) (k + i) (k + j) := Bal_of_walk' (by simpa using h) k

theorem bal_frac (k : Nat) : Bal (lit s_frac) k (k + 1) := Bal_of_walk (i := 0) (j := 1) (by decide) k
theorem bal_mid (k : Nat) : Bal (lit s_mid) (k + 1) (k + 1) := Bal_of_walk (i := 1) (j := 1) (by decide) k
theorem bal_close (k : Nat) : Bal (lit s_close) (k + 1) k := Bal_of_walk (i := 1) (j := 0) (by decide) k
theorem bal_open (k : Nat) : Bal (lit s_open) k (k + 1) := Bal_of_walk (i := 0) (j := 1) (by decide) k
theorem bal_supO (k : Nat) : Bal (lit s_supO) k (k + 1) := Bal_of_walk (i := 0) (j := 1) (by decide) k
theorem bal_subO (k : Nat) : Bal (lit s_subO) k (k + 1) := Bal_of_walk (i := 0) (j := 1) (by decide) k
theorem bal_subsup (k : Nat) : Bal (lit s_subsup) (k + 1) (k + 1) := Bal_of_walk (i := 1) (j := 1) (by decide) k
theorem bal_sqrt (k : Nat) : Bal (lit s_sqrt) k (k + 1) := Bal_of_walk (i := 0) (j := 1) (by decide) k
theorem bal_sqrtB (k : Nat) : Bal (lit s_sqrtB) k k := Bal_of_walk (i := 0) (j := 0) (by decide) k
theorem bal_sqrtBmid (k : Nat) : Bal (lit s_sqrtBmid) k (k + 1) := Bal_of_walk (i := 0) (j := 1) (by decide) k
theorem bal_space (k : Nat) : Bal (lit s_space) k k := Bal_of_walk (i := 0) (j := 0) (by decide) k
theorem bal_begin (k : Nat) : Bal (lit s_begin) k k := Bal_of_walk (i := 0) (j := 0) (by decide) k
theorem bal_end (k : Nat) : Bal (lit s_end) k k := Bal_of_walk (i := 0) (j := 0) (by decide) k
theorem bal_overline (k : Nat) : Bal (lit s_overline) k (k + 1) := Bal_of_walk (i := 0) (j := 1) (by decide) k

theorem nobr_of {s : Str} (h : braceFree s = true) : NoBrS s := (braceFree_iff s).mp h
theorem nobr_comma : NoBrS s_comma := nobr_of (by decide)
theorem nobr_amp : NoBrS s_amp := nobr_of (by decide)
theorem nobr_rowsep : NoBrS s_rowsep := nobr_of (by decide)
theorem nobr_hat : NoBrS s_hat := nobr_of (by decide)
theorem nobr_d_nary : NoBrS d_nary := nobr_of (by decide)
theorem nobr_d_beg : NoBrS d_beg := nobr_of (by decide)
theorem nobr_d_end : NoBrS d_end := nobr_of (by decide)
theorem nobr_d_acc : NoBrS d_acc := nobr_of (by decide)

/-! ### converted text -/
theorem convert_cons (T : Tables) (x : Char) (t : Str) : convert T (x :: t) = conv1 T x ++ convert T t := by
  simp [convert]

theorem run_append (a b : Str) : run (a ++ b) = run a ++ run b := by simp [run]
theorem lit_append (a b : Str) : lit (a ++ b) = lit a ++ lit b := by simp [lit]

theorem conv1_bal {T : Tables} (h : TOk T) (x : Char) (hx : x ≠ '{' ∧ x ≠ '}') (k : Nat) :
    Bal (run (conv1 T x)) k k ∧ Q (run (conv1 T x)) := by
  unfold conv1
  cases hl : lookup x T.greek with
  | none =>
    simp only
    have hn : NoBrS [x] := by intro c hc; simp at hc; subst hc; exact hx
    exact ⟨Bal_run hn k, Q_of_NoBr (by simpa using hn)⟩
  | some v =>
    simp only
    have := h.greek x v (lookup_mem _ _ _ hl)
    refine ⟨?_, ?_⟩
    · have hb := Bal_of_walk' (o := run v) (i := 0) (j := 0) (by simpa using this.1) k
      simpa using hb
    · simp only [Q, cnt_run]; exact this.2

theorem conv_bal {T : Tables} (h : TOk T) (t : Str) (ht : NoBrS t) (k : Nat) :
    Bal (run (convert T t)) k k ∧ Q (run (convert T t)) := by
  induction t with
  | nil => exact ⟨by simpa [convert, run] using Bal_nil k, by simpa [convert, run] using Q_nil⟩
  | cons x r ih =>
    rw [convert_cons, run_append]
    have h1 := conv1_bal h x (ht x (by simp)) k
    have h2 := ih (fun c hc => ht c (by simp [hc]))
    exact ⟨Bal_append h1.1 h2.1, Q_append h1.2 h2.2⟩

/-- the flagged image of a brace-free text under `convert_greek_and_symbols` -/
def ConvImg (T : Tables) (o : Out) : Prop := ∃ t, NoBrS t ∧ o = run (convert T t)

theorem splitFirst_append_notin (c : Char) (v r : Out) (h : ∀ y ∈ v, y.1 ≠ c) :
    splitFirst c (v ++ r) = (splitFirst c r).map (fun p => (v ++ p.1, p.2)) := by
  induction v with
  | nil =>
    simp only [List.nil_append]
    cases splitFirst c r <;> simp
  | cons y v ih =>
    have hy := h y (by simp)
    simp only [List.cons_append, splitFirst, hy, ↓reduceIte]
    rw [ih (fun z hz => h z (by simp [hz]))]
    cases splitFirst c r <;> simp

theorem split_conv {T : Tables} {c : Char} (hc : closerOk T c = true) (t : Str) (ht : NoBrS t)
    (a b : Out) (hs : splitFirst c (run (convert T t)) = some (a, b)) : ConvImg T a ∧ ConvImg T b := by
  simp only [closerOk, Bool.and_eq_true, bne_iff_ne, ne_eq, List.all_eq_true, Bool.not_eq_true'] at hc
  induction t generalizing a with
  | nil => simp [convert, run, splitFirst] at hs
  | cons x r ih =>
    have htr : NoBrS r := fun z hz => ht z (by simp [hz])
    rw [convert_cons, run_append] at hs
    unfold conv1 at hs
    cases hl : lookup x T.greek with
    | some v =>
      simp only [hl] at hs
      have hv : ∀ y ∈ run v, y.1 ≠ c := by
        intro y hy he
        have hm := hc.2 (x, v) (lookup_mem _ _ _ hl)
        simp only [run, List.mem_map] at hy
        obtain ⟨z, hz, rfl⟩ := hy
        simp only at he; subst he
        have : v.contains z = true := by simpa using hz
        rw [this] at hm; cases hm
      rw [splitFirst_append_notin c _ _ hv] at hs
      cases hsr : splitFirst c (run (convert T r)) with
      | none => rw [hsr] at hs; simp at hs
      | some p =>
        rw [hsr] at hs
        simp only [Option.map_some, Option.some.injEq, Prod.mk.injEq] at hs
        obtain ⟨ha, hb⟩ := hs
        obtain ⟨⟨t1, ht1, e1⟩, h2⟩ := ih htr p.1 (by rw [hsr, ← hb])
        refine ⟨⟨x :: t1, ?_, ?_⟩, h2⟩
        · intro z hz
          rcases List.mem_cons.mp hz with rfl | hz
          · exact ht _ (by simp)
          · exact ht1 z hz
        · rw [← ha, e1, convert_cons, run_append]; simp [conv1, hl]
    | none =>
      simp only [hl] at hs
      by_cases hxc : x = c
      · subst hxc
        simp only [run, List.map_cons, List.map_nil, List.cons_append, List.nil_append, splitFirst,
          ↓reduceIte, Option.some.injEq, Prod.mk.injEq] at hs
        obtain ⟨ha, hb⟩ := hs
        exact ⟨⟨[], ⟨fun z hz => (by cases hz), (by rw [← ha]; simp [convert, run])⟩⟩, ⟨r, ⟨htr, (by rw [← hb]; rfl)⟩⟩⟩
      · simp only [run, List.map_cons, List.map_nil, List.cons_append, List.nil_append, splitFirst,
          hxc, ↓reduceIte] at hs
        cases hsr : splitFirst c (List.map (fun c => (c, true)) (convert T r)) with
        | none => rw [hsr] at hs; simp at hs
        | some p =>
          rw [hsr] at hs
          simp only [Option.map_some, Option.some.injEq, Prod.mk.injEq] at hs
          obtain ⟨ha, hb⟩ := hs
          obtain ⟨⟨t1, ht1, e1⟩, h2⟩ := ih htr p.1 (by simp only [run]; rw [hsr, ← hb])
          refine ⟨⟨x :: t1, ?_, ?_⟩, h2⟩
          · intro z hz
            rcases List.mem_cons.mp hz with rfl | hz
            · exact ht _ (by simp)
            · exact ht1 z hz
          · rw [← ha, e1, convert_cons, run_append]; simp [conv1, hl, run]

/-! ### the invariant -/
def okS (T : Tables) (s : Stack) : Prop := ∀ c ∈ s, closerOk T c = true

def Good (T : Tables) (f : M) : Prop :=
  ∀ s, okS T s → okS T (f s).2 ∧ Bal (f s).1 s.length (f s).2.length ∧ Q (f s).1

theorem good_ret_nil (T : Tables) : Good T (ret []) := by
  intro s hs; exact ⟨hs, Bal_nil _, Q_nil⟩

theorem closeLoop_good {T : Tables} (h : TOk T) (s : Stack) (o : Out) (hs : okS T s) (ho : ConvImg T o) :
    okS T (closeLoop s o).2 ∧ Bal (closeLoop s o).1 s.length (closeLoop s o).2.length ∧ Q (closeLoop s o).1 := by
  induction s generalizing o with
  | nil =>
    obtain ⟨t, ht, rfl⟩ := ho
    have := conv_bal h t ht 0
    simp only [closeLoop, List.length_nil]
    exact ⟨hs, this.1, this.2⟩
  | cons c st ih =>
    obtain ⟨t, ht, rfl⟩ := ho
    have hst : okS T st := fun z hz => hs z (by simp [hz])
    simp only [closeLoop]
    cases hsp : splitFirst c (run (convert T t)) with
    | none =>
      simp only
      have := conv_bal h t ht (st.length + 1)
      exact ⟨hs, by simpa using this.1, this.2⟩
    | some p =>
      obtain ⟨a, b⟩ := p
      simp only
      obtain ⟨⟨t1, ht1, rfl⟩, hb⟩ := split_conv (hs c (by simp)) t ht a b hsp
      obtain ⟨i1, i2, i3⟩ := ih b hst hb
      have ha := conv_bal h t1 ht1 (st.length + 1)
      refine ⟨i1, ?_, ?_⟩
      · have : Bal (run (convert T t1) ++ ([('}', false)] ++ (closeLoop st b).1)) (st.length + 1)
            (closeLoop st b).2.length :=
          Bal_append ha.1 (Bal_append (Bal_close false _) i2)
        simpa using this
      · have : Q (run (convert T t1) ++ ([('}', false)] ++ (closeLoop st b).1)) := by
          have q1 := ha.2
          simp only [Q, cnt_append] at *
          have : cnt '{' [('}', false)] = 0 := by decide
          have : cnt '}' [('}', false)] = 1 := by decide
          omega
        simpa using this

theorem good_text {T : Tables} (h : TOk T) (text : Str) (ht : NoBrS text) : Good T (tText T text) := by
  intro s hs
  exact closeLoop_good h s _ hs ⟨text, ht, rfl⟩

/-! ### templates -/
section templates
variable {T : Tables}

theorem q_lits : cnt '{' (lit s_frac) = 1 ∧ cnt '}' (lit s_frac) = 0 ∧ cnt '\\' (lit s_frac) = 1 := by decide

theorem good_frac {a b : M} (ha : Good T a) (hb : Good T b) : Good T (tFrac a b) := by
  intro s hs
  obtain ⟨a1, a2, a3⟩ := ha s hs
  obtain ⟨b1, b2, b3⟩ := hb _ a1
  refine ⟨b1, ?_, ?_⟩
  · exact Bal_append (Bal_append (Bal_append (Bal_append (bal_frac _) (Bal_shift a2 1)) (bal_mid _))
      (Bal_shift b2 1)) (bal_close _)
  · simp only [tFrac, Q, cnt_append, cnt_lit] at *
    have : s_frac.count '{' = 1 ∧ s_frac.count '}' = 0 ∧ s_mid.count '{' = 1 ∧ s_mid.count '}' = 1
      ∧ s_close.count '{' = 0 ∧ s_close.count '}' = 1 := by decide
    omega

theorem good_sup {a b : M} (ha : Good T a) (hb : Good T b) : Good T (tSup a b) := by
  intro s hs
  obtain ⟨a1, a2, a3⟩ := ha s hs
  obtain ⟨b1, b2, b3⟩ := hb _ a1
  refine ⟨b1, ?_, ?_⟩
  · exact Bal_append (Bal_append (Bal_append a2 (bal_supO _)) (Bal_shift b2 1)) (bal_close _)
  · simp only [tSup, Q, cnt_append, cnt_lit] at *
    have : s_supO.count '{' = 1 ∧ s_supO.count '}' = 0 ∧ s_close.count '{' = 0 ∧ s_close.count '}' = 1 := by decide
    omega

theorem good_sub {a b : M} (ha : Good T a) (hb : Good T b) : Good T (tSub a b) := by
  intro s hs
  obtain ⟨a1, a2, a3⟩ := ha s hs
  obtain ⟨b1, b2, b3⟩ := hb _ a1
  refine ⟨b1, ?_, ?_⟩
  · exact Bal_append (Bal_append (Bal_append a2 (bal_subO _)) (Bal_shift b2 1)) (bal_close _)
  · simp only [tSub, Q, cnt_append, cnt_lit] at *
    have : s_subO.count '{' = 1 ∧ s_subO.count '}' = 0 ∧ s_close.count '{' = 0 ∧ s_close.count '}' = 1 := by decide
    omega

theorem good_subsup {a b c : M} (ha : Good T a) (hb : Good T b) (hc : Good T c) : Good T (tSubSup a b c) := by
  intro s hs
  obtain ⟨a1, a2, a3⟩ := ha s hs
  obtain ⟨b1, b2, b3⟩ := hb _ a1
  obtain ⟨c1, c2, c3⟩ := hc _ b1
  refine ⟨c1, ?_, ?_⟩
  · exact Bal_append (Bal_append (Bal_append (Bal_append (Bal_append a2 (bal_subO _)) (Bal_shift b2 1))
      (bal_subsup _)) (Bal_shift c2 1)) (bal_close _)
  · simp only [tSubSup, Q, cnt_append, cnt_lit] at *
    have : s_subO.count '{' = 1 ∧ s_subO.count '}' = 0 ∧ s_close.count '{' = 0 ∧ s_close.count '}' = 1
      ∧ s_subsup.count '{' = 1 ∧ s_subsup.count '}' = 1 := by decide
    omega

theorem good_bar {c : M} (hc : Good T c) : Good T (tBar c) := by
  intro s hs
  obtain ⟨c1, c2, c3⟩ := hc s hs
  refine ⟨c1, ?_, ?_⟩
  · exact Bal_append (Bal_append (bal_overline _) (Bal_shift c2 1)) (bal_close _)
  · simp only [tBar, Q, cnt_append, cnt_lit] at *
    have : s_overline.count '{' = 1 ∧ s_overline.count '\\' = 1 ∧ s_close.count '{' = 0 ∧ s_close.count '}' = 1 := by decide
    omega

theorem accentCmd_nobr (h : TOk T) (a : Str) : NoBrS (accentCmd T a) := by
  unfold accentCmd
  cases hl : lookup a T.accents with
  | none => exact nobr_hat
  | some v => exact h.accents a v (lookup_mem _ _ _ hl)

theorem good_acc (h : TOk T) (accent : Str) {c : M} (hc : Good T c) : Good T (tAcc T accent c) := by
  intro s hs
  obtain ⟨c1, c2, c3⟩ := hc s hs
  have hn := accentCmd_nobr h accent
  refine ⟨c1, ?_, ?_⟩
  · exact Bal_append (Bal_append (Bal_append (Bal_lit hn _) (bal_open _)) (Bal_shift c2 1)) (bal_close _)
  · have q := cnt_open_of_NoBr (o := lit (accentCmd T accent)) (by simpa using hn)
    simp only [tAcc, Q, cnt_append] at *
    simp only [cnt_lit] at *
    have : s_open.count '{' = 1 ∧ s_close.count '{' = 0 ∧ s_close.count '}' = 1 := by decide
    omega

/-- radical head: `\sqrt{` or `\sqrt[dg]{` -/
theorem radHead_bal {dg : Out} {k k' : Nat} (h : Bal dg k k') : Bal (radHead dg) k (k' + 1) := by
  unfold radHead
  split
  · rename_i he; subst he
    have := Bal_fun h (Bal_nil k); subst this
    exact bal_sqrt _
  · exact Bal_append (Bal_append (bal_sqrtB _) h) (bal_sqrtBmid _)

theorem radHead_cnt (dg : Out) : cnt '{' (radHead dg) = cnt '{' dg + 1
    ∧ cnt '}' (radHead dg) = cnt '}' dg ∧ cnt '\\' (radHead dg) = cnt '\\' dg + 1 := by
  unfold radHead
  split
  · rename_i he; subst he; decide
  · simp only [cnt_append, cnt_lit]
    have : s_sqrtB.count '{' = 0 ∧ s_sqrtB.count '}' = 0 ∧ s_sqrtB.count '\\' = 1
      ∧ s_sqrtBmid.count '{' = 1 ∧ s_sqrtBmid.count '}' = 0 ∧ s_sqrtBmid.count '\\' = 0 := by decide
    omega

theorem render_singleton_cnt {o : Out} {c : Char} (h : render o = [c]) (x : Char) :
    cnt x o = if c = x then 1 else 0 := by
  simp [cnt, h, List.count_cons]

theorem good_rad (h : TOk T) {dg c : M} (hd : Good T dg) (hc : Good T c) : Good T (tRad T dg c) := by
  intro s hs
  obtain ⟨d1, d2, d3⟩ := hd s hs
  obtain ⟨c1, c2, c3⟩ := hc _ d1
  have hdg : Bal (strip T (dg s).1) s.length (dg s).2.length := Bal_strip h.sp d2
  have qdg : Q (strip T (dg s).1) := Q_strip h.sp d3
  simp only [tRad]
  split
  · rename_i hop
    have hkey := h.opens _ (by simpa using hop)
    rcases hkey with hkey | ⟨hnb, hcl⟩
    · -- a lone "{" cannot be produced: it would have #{ = 1, #} = #\ = 0
      exfalso
      have q := Q_strip h.sp c3
      simp only [Q, render_singleton_cnt hkey] at q
      simp at q
    · have hb : Bal (strip T (c (dg s).2).1) (dg s).2.length (dg s).2.length := Bal_neutral hnb _
      have := Bal_fun (Bal_strip h.sp c2) hb
      refine ⟨?_, ?_, ?_⟩
      · intro z hz
        rcases List.mem_cons.mp hz with rfl | hz
        · exact hcl
        · exact c1 z hz
      · simp only [List.length_cons, this]
        exact radHead_bal hdg
      · have := radHead_cnt (strip T (dg s).1)
        simp only [Q] at *; omega
  · refine ⟨c1, ?_, ?_⟩
    · exact Bal_append (Bal_append (radHead_bal hdg) (Bal_shift c2 1)) (bal_close _)
    · have := radHead_cnt (strip T (dg s).1)
      simp only [Q, cnt_append, cnt_lit] at *
      have : s_close.count '{' = 0 ∧ s_close.count '}' = 1 := by decide
      omega

theorem limit_good (h : TOk T) {o : Str} (ho : walk o 0 = some 1) (hq : o.count '{' = 1) {x : Out} {k k' : Nat}
    (hx : Bal x k k') (qx : Q x) : Bal (limit T o x) k k' ∧ Q (limit T o x) := by
  unfold limit
  split
  · rename_i he
    have hsp := all_sp_of_strip_nil he
    have := Bal_fun hx (Bal_neutral (NoBr_of_all_sp h.sp hsp) k)
    subst this
    exact ⟨Bal_nil _, Q_nil⟩
  · refine ⟨?_, ?_⟩
    · have b0 : Bal (lit o) k (k + 1) := Bal_of_walk (i := 0) (j := 1) ho k
      exact Bal_append (Bal_append b0 (Bal_shift hx 1)) (bal_close _)
    · simp only [Q, cnt_append, cnt_lit] at *
      have : s_close.count '{' = 0 ∧ s_close.count '}' = 1 := by decide
      omega

theorem naryOp_nobr (h : TOk T) {op : Str} (hop : NoBrS op) :
    Bal (lit (naryOp T op)) k k ∧ Q (lit (naryOp T op)) := by
  unfold naryOp
  cases hl : lookup op T.naryOps with
  | some v =>
    have := h.nary op v (lookup_mem _ _ _ hl)
    exact ⟨Bal_lit this k, Q_lit this⟩
  | none =>
    have := conv_bal h op hop k
    simp only [Option.getD_none]
    refine ⟨?_, ?_⟩
    · intro d; have := this.1 d; simpa using this
    · have := this.2; simpa [Q] using this

theorem good_nary (h : TOk T) {op : Str} (hop : NoBrS op) {a b c : M} (ha : Good T a) (hb : Good T b)
    (hc : Good T c) : Good T (tNary T op a b c) := by
  intro s hs
  obtain ⟨a1, a2, a3⟩ := ha s hs
  obtain ⟨b1, b2, b3⟩ := hb _ a1
  obtain ⟨c1, c2, c3⟩ := hc _ b1
  obtain ⟨o1, o2⟩ := naryOp_nobr (k := s.length) h hop
  obtain ⟨l1, l2⟩ := limit_good h (o := s_subO) (by decide) (by decide) a2 a3
  obtain ⟨m1, m2⟩ := limit_good h (o := s_supO) (by decide) (by decide) b2 b3
  refine ⟨c1, ?_, ?_⟩
  · exact Bal_append (Bal_append (Bal_append (Bal_append o1 l1) m1) (bal_space _)) c2
  · exact Q_append (Q_append (Q_append (Q_append o2 l2) m2) (Q_lit (nobr_of (by decide)))) c3

theorem funcName_good (h : TOk T) {x : Out} {k k' : Nat} (hx : Bal x k k') (qx : Q x) :
    Bal (funcName T x) k k' ∧ Q (funcName T x) := by
  unfold funcName
  simp only
  cases hl : lookup (render (strip T x)) T.funcs with
  | none => exact ⟨hx, qx⟩
  | some v =>
    simp only
    have hf := h.funcs _ v (lookup_mem _ _ _ hl)
    have hst : Bal (strip T x) k k' := Bal_strip h.sp hx
    have hk : k' = k := Bal_fun hst (Bal_neutral hf.1 k)
    subst hk
    split
    · refine ⟨Bal_cons_neutral _ (by decide) hst, ?_⟩
      have := Q_of_NoBr (o := strip T x) hf.1
      simp only [Q, cnt_cons] at *
      simp; omega
    · rename_i hne; exact absurd hf.2 hne

theorem good_func (h : TOk T) {a c : M} (ha : Good T a) (hc : Good T c) : Good T (tFunc T a c) := by
  intro s hs
  obtain ⟨a1, a2, a3⟩ := ha s hs
  obtain ⟨c1, c2, c3⟩ := hc _ a1
  obtain ⟨f1, f2⟩ := funcName_good h a2 a3
  refine ⟨c1, ?_, ?_⟩
  · exact Bal_append (Bal_append (Bal_append f1 (bal_open _)) (Bal_shift c2 1)) (bal_close _)
  · simp only [tFunc, Q, cnt_append, cnt_lit] at *
    have : s_open.count '{' = 1 ∧ s_open.count '}' = 0 ∧ s_close.count '{' = 0 ∧ s_close.count '}' = 1 := by decide
    omega

/-! ### sequences -/
def Chain : List Out → Nat → Nat → Prop
  | [], k, k' => k = k'
  | o :: os, k, k' => ∃ k1, Bal o k k1 ∧ Chain os k1 k'

theorem seqAll_good {fs : List M} (hf : ∀ f ∈ fs, Good T f) (s : Stack) (hs : okS T s) :
    okS T (seqAll fs s).2 ∧ Chain (seqAll fs s).1 s.length (seqAll fs s).2.length
      ∧ ∀ o ∈ (seqAll fs s).1, Q o := by
  induction fs generalizing s with
  | nil => exact ⟨hs, rfl, by intro o ho; cases ho⟩
  | cons f fs ih =>
    obtain ⟨f1, f2, f3⟩ := hf f (by simp) s hs
    obtain ⟨r1, r2, r3⟩ := ih (fun g hg => hf g (by simp [hg])) _ f1
    refine ⟨r1, ⟨_, f2, r2⟩, ?_⟩
    intro o ho
    rcases List.mem_cons.mp ho with rfl | ho
    · exact f3
    · exact r3 o ho

theorem joinTail_cons (sep y : Out) (r : List Out) : joinTail sep (y :: r) = sep ++ y ++ joinTail sep r := by
  simp [joinTail]

theorem joinTail_good {sep : Out} (hsep : NoBrS (render sep)) {r : List Out} {k k' : Nat}
    (hc : Chain r k k') (hq : ∀ o ∈ r, Q o) : Bal (joinTail sep r) k k' ∧ Q (joinTail sep r) := by
  induction r generalizing k with
  | nil => cases hc; exact ⟨Bal_nil _, Q_nil⟩
  | cons y r ih =>
    obtain ⟨k1, hy, hr⟩ := hc
    obtain ⟨i1, i2⟩ := ih hr (fun o ho => hq o (by simp [ho]))
    rw [joinTail_cons]
    exact ⟨Bal_append (Bal_append (Bal_neutral hsep k) hy) i1,
      Q_append (Q_append (Q_of_NoBr hsep) (hq y (by simp))) i2⟩

theorem joinWith_good {sep : Out} (hsep : NoBrS (render sep)) {r : List Out} {k k' : Nat}
    (hc : Chain r k k') (hq : ∀ o ∈ r, Q o) : Bal (joinWith sep r) k k' ∧ Q (joinWith sep r) := by
  cases r with
  | nil => cases hc; exact ⟨Bal_nil _, Q_nil⟩
  | cons y r =>
    obtain ⟨k1, hy, hr⟩ := hc
    obtain ⟨i1, i2⟩ := joinTail_good hsep hr (fun o ho => hq o (by simp [ho]))
    exact ⟨Bal_append hy i1, Q_append (hq y (by simp)) i2⟩

theorem flatten_eq_joinWith (r : List Out) : r.flatten = joinWith [] r := by
  cases r with
  | nil => rfl
  | cons y r => simp [joinWith, joinTail]

theorem good_default {ks : List M} (hk : ∀ f ∈ ks, Good T f) : Good T (tDefault ks) := by
  intro s hs
  obtain ⟨r1, r2, r3⟩ := seqAll_good hk s hs
  have := joinWith_good (sep := []) (by intro c hc; cases hc) r2 r3
  simp only [tDefault, flatten_eq_joinWith]
  exact ⟨r1, this.1, this.2⟩

theorem good_delim {l r : Str} (hl : NoBrS l) (hr : NoBrS r) {es : List M} (he : ∀ f ∈ es, Good T f) :
    Good T (tDelim l r es) := by
  intro s hs
  obtain ⟨r1, r2, r3⟩ := seqAll_good he s hs
  have := joinWith_good (sep := lit s_comma) (by simpa using nobr_comma) r2 r3
  refine ⟨r1, ?_, ?_⟩
  · exact Bal_append (Bal_append (Bal_lit hl _) this.1) (Bal_lit hr _)
  · exact Q_append (Q_append (Q_lit hl) this.2) (Q_lit hr)

theorem good_row {cells : List M} (hc : ∀ f ∈ cells, Good T f) : Good T (rowM cells) := by
  intro s hs
  obtain ⟨r1, r2, r3⟩ := seqAll_good hc s hs
  have := joinWith_good (sep := lit s_amp) (by simpa using nobr_amp) r2 r3
  exact ⟨r1, this.1, this.2⟩

theorem good_matrix {rows : List (List M)} (hr : ∀ row ∈ rows, ∀ f ∈ row, Good T f) :
    Good T (tMatrix rows) := by
  intro s hs
  have hrows : ∀ f ∈ rows.map rowM, Good T f := by
    intro f hf
    obtain ⟨row, hrow, rfl⟩ := List.mem_map.mp hf
    exact good_row (hr row hrow)
  obtain ⟨r1, r2, r3⟩ := seqAll_good hrows s hs
  have := joinWith_good (sep := lit s_rowsep) (by simpa using nobr_rowsep) r2 r3
  refine ⟨r1, ?_, ?_⟩
  · exact Bal_append (Bal_append (bal_begin _) this.1) (bal_end _)
  · refine Q_append (Q_append ?_ this.2) ?_
    · simp only [Q, cnt_lit]; decide
    · simp only [Q, cnt_lit]; decide

end templates

end S2T.Omml
