import S2T.Lemmas.C02OdfTok
import S2T.Model.C02OdfRtf
/-! Lemmas for the string-level functions: `_clean_text`, `_format_sheet_as_text`, strip / join layers. -/
namespace S2T.Rtf
open S2T.Tok

variable {α : Type} {p : α → Bool}

theorem toks_nows (r : List α) (h : ∀ c ∈ r, p c = false) : toks p r = (r, []) := by
  induction r with
  | nil => rfl
  | cons c r ih =>
    have hc : p c = false := h c (by simp)
    simp [toks, hc, ih (fun x hx => h x (by simp [hx]))]

/-- a non-empty whitespace-free string is its own single token -/
theorem tokens_of_token (t : List α) (hne : t ≠ []) (h : ∀ c ∈ t, p c = false) : tokens p t = [t] := by
  simp [tokens, toks_nows t h, glue, hne]

theorem flatMap_tokens_tokens (s : List α) : (tokens p s).flatMap (tokens p) = tokens p s := by
  have := token_ok (p := p) s
  generalize tokens p s = l at this
  induction l with
  | nil => rfl
  | cons t r ih =>
    have ht := this t (by simp)
    simp only [List.flatMap_cons, tokens_of_token t ht.1 ht.2]
    rw [ih (fun x hx => this x (by simp [hx]))]
    rfl

/-- `" ".join(s.split())` keeps the token sequence -/
theorem tokens_normWs {p : Char → Bool} (hsp : p ' ' = true) (s : Str) : tokens p (normWs p s) = tokens p s := by
  unfold normWs
  rw [tokens_join (by simp [hsp]) (by simp), flatMap_tokens_tokens]

theorem splitOn_ne_nil [DecidableEq α] (sep : α) (s : List α) : splitOn sep s ≠ [] := by
  induction s with
  | nil => simp [splitOn]
  | cons c r ih =>
    simp only [splitOn]
    cases hs : splitOn sep r with
    | nil => exact absurd hs ih
    | cons h t => by_cases hc : c = sep <;> simp [hc]

theorem join_splitOn [DecidableEq α] (sep : α) (s : List α) : join [sep] (splitOn sep s) = s := by
  induction s with
  | nil => simp [splitOn, join]
  | cons c r ih =>
    simp only [splitOn]
    cases hs : splitOn sep r with
    | nil => exact absurd hs (splitOn_ne_nil sep r)
    | cons h t =>
      rw [hs] at ih
      by_cases hc : c = sep
      · subst hc
        simp only [if_true]
        cases t with
        | nil => simp [join] at ih ⊢; exact ih
        | cons t1 t2 => simp [join] at ih ⊢; exact ih
      · simp only [hc, if_false]
        cases t with
        | nil => simp [join] at ih ⊢; exact ih
        | cons t1 t2 => simp [join] at ih ⊢; exact ih

/-! ### plain text / unit joins -/

theorem plain_tokens (p : Char → Bool) (s : Str) : tokens p (plainFullText p s) = tokens p s := by
  unfold plainFullText; rw [tokens_strip, tokens_strip, tokens_strip]

theorem joinUnits_tokens {p : Char → Bool} (hn : p '\n' = true) (us : List Str) :
    tokens p (joinUnits p us) = us.flatMap (tokens p) := by
  unfold joinUnits; rw [tokens_strip, tokens_joinNl hn]

/-! ### XLS sheet formatting -/

theorem tokens_rjust {p : Char → Bool} (hsp : p ' ' = true) (w : Nat) (s : Str) : tokens p (rjust w s) = tokens p s := by
  unfold rjust
  exact tokens_ws_prefix _ _ (by simp [List.all_eq_true, hsp])

theorem flatMap_zipIdx {β γ : Type} (l : List β) (n : Nat) (f : β × Nat → List γ) (g : β → List γ)
    (h : ∀ v i, f (v, i) = g v) : (l.zipIdx n).flatMap f = l.flatMap g := by
  induction l generalizing n with
  | nil => rfl
  | cons a r ih => simp [List.zipIdx_cons, h, ih]

theorem fmtRow_tokens {p : Char → Bool} (hsp : p ' ' = true) (rows : List (List Str)) (row : List Str) :
    tokens p (fmtRow rows row) = row.flatMap (tokens p) := by
  unfold fmtRow
  rw [tokens_join (by simp [hsp]) (by decide), List.flatMap_map]
  exact flatMap_zipIdx row 0 _ _ (fun v i => by simp [tokens_rjust hsp])

/-- the padded table text carries exactly the cells' tokens, row by row, left to right -/
theorem formatSheet_tokens {p : Char → Bool} (hsp : p ' ' = true) (hn : p '\n' = true)
    (headers : List Str) (rows : List (List Str)) :
    tokens p (formatSheet headers rows)
      = ((if headers = [] then rows else headers :: rows).flatMap (fun r => r.flatMap (tokens p))) := by
  unfold formatSheet
  rw [tokens_joinNl hn, List.flatMap_map]
  congr 1
  funext r
  exact fmtRow_tokens hsp _ r

/-! ### PPT `_clean_text` -/

theorem cleanText_tokens (T : PptTables) (hsp : T.isWs ' ' = true) (hn : T.isWs '\n' = true) (s : Str) :
    tokens T.isWs (cleanText T s)
      = (((splitOn '\n' (translate T s)).map (normWs T.isWs)).filter (keepLine T)).flatMap (tokens T.isWs) := by
  unfold cleanText; rw [tokens_joinNl hn]

theorem flatMap_map_normWs {p : Char → Bool} (hsp : p ' ' = true) (l : List Str) :
    (l.map (normWs p)).flatMap (tokens p) = l.flatMap (tokens p) := by
  rw [List.flatMap_map]; congr 1; funext s; exact tokens_normWs hsp s

/-- when no line is a placeholder line, cleaning keeps exactly the tokens of the translated text -/
theorem cleanText_tokens_all (T : PptTables) (hsp : T.isWs ' ' = true) (hn : T.isWs '\n' = true) (s : Str)
    (hk : ∀ l ∈ (splitOn '\n' (translate T s)).map (normWs T.isWs), l ≠ [] → keepLine T l = true) :
    tokens T.isWs (cleanText T s) = tokens T.isWs (translate T s) := by
  rw [cleanText_tokens T hsp hn]
  have h1 : ∀ (l : List Str), (∀ x ∈ l, x ≠ [] → keepLine T x = true) →
      (l.filter (keepLine T)).flatMap (tokens T.isWs) = l.flatMap (tokens T.isWs) := by
    intro l
    induction l with
    | nil => intro _; rfl
    | cons a r ih =>
      intro h
      have hr := ih (fun x hx => h x (by simp [hx]))
      by_cases ha : a = []
      · subst ha
        by_cases hk' : keepLine T [] = true
        · simp [List.filter, hk', hr]
        · simp [List.filter, hk', hr]
      · have := h a (by simp) ha
        simp [List.filter, this, hr]
  rw [h1 _ hk, flatMap_map_normWs hsp]
  conv => rhs; rw [← join_splitOn '\n' (translate T s)]
  exact (tokens_join (by simp [hn]) (by simp) _).symm

end S2T.Rtf
