import S2T.Model.C02OdfTok
/-! Lemmas about `tokens` / `strip` / `join` (generic in the whitespace predicate). -/
namespace S2T.Tok

variable {α : Type} {p : α → Bool}

@[simp] theorem tokens_nil : tokens p [] = [] := by simp [tokens, toks, glue]

theorem tokens_cons_ws {w : α} (hw : p w = true) (b : List α) : tokens p (w :: b) = tokens p b := by
  simp [tokens, toks, glue, hw]

theorem toks_append_ws {w : α} (hw : p w = true) (a b : List α) :
    toks p (a ++ w :: b) = ((toks p a).1, (toks p a).2 ++ tokens p b) := by
  induction a with
  | nil => simp [toks, hw, tokens, glue]
  | cons c a ih =>
    simp only [List.cons_append, toks, ih]
    by_cases hc : p c = true
    · simp only [hc, if_true]
      by_cases hh : (toks p a).1 = []
      · simp [hh]
      · simp [hh]
    · simp [hc]

/-- a whitespace character between two strings separates their tokens -/
theorem tokens_append_ws {w : α} (hw : p w = true) (a b : List α) :
    tokens p (a ++ w :: b) = tokens p a ++ tokens p b := by
  simp only [tokens]
  rw [toks_append_ws hw]
  simp only [glue]
  by_cases hh : (toks p a).1 = []
  · simp [hh, tokens, glue]
  · simp [hh, tokens, glue]

theorem tokens_ws_prefix (w b : List α) (hw : w.all p = true) : tokens p (w ++ b) = tokens p b := by
  induction w with
  | nil => rfl
  | cons c w ih =>
    simp only [List.all_cons, Bool.and_eq_true] at hw
    rw [List.cons_append, tokens_cons_ws hw.1, ih hw.2]

theorem tokens_all_ws (w : List α) (hw : w.all p = true) : tokens p w = [] := by
  have := tokens_ws_prefix (p := p) w [] hw
  simpa using this

theorem tokens_ws_suffix (a w : List α) (hw : w.all p = true) : tokens p (a ++ w) = tokens p a := by
  cases w with
  | nil => simp
  | cons c w =>
    simp only [List.all_cons, Bool.and_eq_true] at hw
    rw [tokens_append_ws hw.1, tokens_all_ws w hw.2, List.append_nil]

/-- a non-empty run of whitespace between two strings separates their tokens -/
theorem tokens_append_sep (a w b : List α) (hw : w.all p = true) (hne : w ≠ []) :
    tokens p (a ++ w ++ b) = tokens p a ++ tokens p b := by
  cases w with
  | nil => exact absurd rfl hne
  | cons c w =>
    simp only [List.all_cons, Bool.and_eq_true] at hw
    rw [List.append_assoc, List.cons_append, tokens_append_ws hw.1, tokens_ws_prefix w b hw.2]

theorem mem_takeWhile_pred {α} {q : α → Bool} {l : List α} {x : α} (h : x ∈ l.takeWhile q) : q x = true := by
  induction l with
  | nil => simp at h
  | cons a r ih =>
    simp only [List.takeWhile] at h
    split at h
    · simp at h
      rcases h with rfl | h
      · assumption
      · exact ih h
    · simp at h

theorem blank_tokens {s : List α} (h : blank p s = true) : tokens p s = [] := tokens_all_ws s h

theorem tokens_lstrip (s : List α) : tokens p (lstrip p s) = tokens p s := by
  unfold lstrip
  conv => rhs; rw [← List.takeWhile_append_dropWhile (p := p) (l := s)]
  rw [tokens_ws_prefix]
  simp only [List.all_eq_true]
  intro x hx
  exact (mem_takeWhile_pred hx)

theorem rstrip_decomp (s : List α) : ∃ w, s = rstrip p s ++ w ∧ w.all p = true := by
  refine ⟨(s.reverse.takeWhile p).reverse, ?_, ?_⟩
  · unfold rstrip
    rw [← List.reverse_append, List.takeWhile_append_dropWhile, List.reverse_reverse]
  · simp only [List.all_eq_true, List.mem_reverse]
    intro x hx
    exact (mem_takeWhile_pred hx)

theorem tokens_rstrip (s : List α) : tokens p (rstrip p s) = tokens p s := by
  obtain ⟨w, hs, hw⟩ := rstrip_decomp (p := p) s
  conv => rhs; rw [hs]
  rw [tokens_ws_suffix _ _ hw]

/-- `strip()` never changes the token sequence -/
theorem tokens_strip (s : List α) : tokens p (strip p s) = tokens p s := by
  unfold strip; rw [tokens_rstrip, tokens_lstrip]

/-- joining with a whitespace separator keeps the pieces' tokens apart and in order -/
theorem tokens_join {sep : List α} (hs : sep.all p = true) (hne : sep ≠ []) (l : List (List α)) :
    tokens p (join sep l) = l.flatMap (tokens p) := by
  induction l with
  | nil => simp [join]
  | cons a r ih =>
    cases r with
    | nil => simp [join]
    | cons b r =>
      rw [join, tokens_append_sep _ _ _ hs hne, ih]
      simp

theorem tokens_joinNl {p : Char → Bool} (hn : p '\n' = true) (l : List Str) : tokens p (joinNl l) = l.flatMap (tokens p) :=
  tokens_join (by simp [hn]) (by simp) l

/-- dropping blank pieces before joining loses no token -/
theorem flatMap_tokens_filter_nonblank (l : List (List α)) :
    (l.filter (fun s => !blank p s)).flatMap (tokens p) = l.flatMap (tokens p) := by
  induction l with
  | nil => rfl
  | cons a r ih =>
    by_cases h : blank p a = true
    · simp [List.filter, h, ih, blank_tokens h]
    · simp [List.filter, h, ih]

/-! ### what a token is -/

theorem toks_fst_no_ws (s : List α) : ∀ c ∈ (toks p s).1, p c = false := by
  induction s with
  | nil => simp [toks]
  | cons c r ih =>
    simp only [toks]
    by_cases hc : p c = true
    · simp [hc]
    · simp only [hc]
      intro x hx
      simp at hx
      rcases hx with rfl | hx
      · simpa using hc
      · exact ih x hx

theorem toks_snd_ok (s : List α) : ∀ t ∈ (toks p s).2, t ≠ [] ∧ ∀ c ∈ t, p c = false := by
  induction s with
  | nil => simp [toks]
  | cons c r ih =>
    simp only [toks]
    by_cases hc : p c = true
    · simp only [hc, if_true]
      by_cases hh : (toks p r).1 = []
      · simpa [hh] using ih
      · simp only [hh, if_false]
        intro t ht
        simp at ht
        rcases ht with rfl | ht
        · exact ⟨hh, toks_fst_no_ws r⟩
        · exact ih t ht
    · simpa [hc] using ih

/-- every token is non-empty and free of whitespace -/
theorem token_ok (s : List α) : ∀ t ∈ tokens p s, t ≠ [] ∧ ∀ c ∈ t, p c = false := by
  unfold tokens glue
  by_cases hh : (toks p s).1 = []
  · simpa [hh] using toks_snd_ok s
  · simp only [hh, if_false]
    intro t ht
    simp at ht
    rcases ht with rfl | ht
    · exact ⟨hh, toks_fst_no_ws s⟩
    · exact toks_snd_ok s t ht

theorem toks_flatten (s : List α) : (toks p s).1 ++ (toks p s).2.flatten = s.filter (fun c => !p c) := by
  induction s with
  | nil => simp [toks]
  | cons c r ih =>
    simp only [toks]
    by_cases hc : p c = true
    · simp only [hc, if_true, List.nil_append]
      by_cases hh : (toks p r).1 = []
      · simp [hh, List.filter, hc, ← ih]
      · simp [hh, List.filter, hc, ← ih]
    · simp [hc, List.filter, ← ih]

/-- the tokens, concatenated, are exactly the non-whitespace characters of the string, in order
    (no character is invented, lost, duplicated or reordered by `split`) -/
theorem tokens_flatten (s : List α) : (tokens p s).flatten = s.filter (fun c => !p c) := by
  rw [← toks_flatten]
  unfold tokens glue
  by_cases hh : (toks p s).1 = []
  · simp [hh]
  · simp [hh]

end S2T.Tok
