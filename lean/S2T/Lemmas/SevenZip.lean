import S2T.Model.ArchiveLoop
/-!
Helper definitions and lemmas for C10: the reference packer at structure level (what a standard 7z
writer stores for a set of files under a grouping into folders) and the facts about
`_build_file_list` / `extractall` needed for the layout theorem.
-/
namespace S2T.SevenZip

/-! ### what a packer is given -/

structure Entry where
  name : Str
  isDir : Bool
  data : Bytes          -- `[]` for directories and empty files
deriving Repr, DecidableEq

/-- the entry has a data stream (7z: `EmptyStream` bit clear) -/
def Entry.hasStream (e : Entry) : Bool := !e.isDir && !e.data.isEmpty
/-- 7z `EmptyFile` bit -/
def Entry.isEmptyFile (e : Entry) : Bool := !e.isDir && e.data.isEmpty

/-- one folder of the archive: its coder, its pack stream, and the entries listed while it is current
    (the files it holds, with directories / empty files interleaved anywhere) -/
structure Group where
  coder : Coder
  packed : Bytes
  entries : List Entry
deriving Repr

def streamData (es : List Entry) : Bytes := (es.filter (·.hasStream)).flatMap (·.data)
def streamCount (es : List Entry) : Nat := (es.filter (·.hasStream)).length

def Group.folder (g : Group) : Folder :=
  { coders := [g.coder], unpackSizes := [(streamData g.entries).length], numStreams := streamCount g.entries,
    numPackStreams := 1 }

def allEntries (gs : List Group) (tail : List Entry) : List Entry := gs.flatMap (·.entries) ++ tail

/-- the reader state after the streams info of such an archive has been parsed -/
def packR (packPos : Nat) (gs : List Group) (tail : List Entry) : R :=
  { stream := [], packPositions := [packPos + headerOffset], packSizes := gs.map (·.packed.length),
    folders := gs.map Group.folder,
    fileSizes := ((allEntries gs tail).filter (·.hasStream)).map (·.data.length) }

def rawEntries (attr : Entry → Nat) (es : List Entry) : List RawEntry :=
  es.map fun e => { name := e.name, emptyStream := !e.hasStream, attributes := attr e }

def emptyFileBits (es : List Entry) : List Bool := (es.filter (!·.hasStream)).map (·.isEmptyFile)

def info (attr : Entry → Nat) (e : Entry) : FileInfo × Bool :=
  ({ filename := e.name, uncompressed := e.data.length, isDirectory := e.isDir, attributes := attr e }, e.hasStream)

/-! ### first loop of `_build_file_list` -/

theorem buildInfos_spec (attr : Entry → Nat) (es : List Entry) (xs : List Nat) (ys : List Bool)
    (hattr : ∀ e ∈ es, e.isDir = false → attr e &&& 0x10 = 0)
    (hdir : ∀ e ∈ es, e.isDir = true → e.data = []) :
    buildInfos (rawEntries attr es) (((es.filter (·.hasStream)).map (·.data.length)) ++ xs) (emptyFileBits es ++ ys)
      = es.map (info attr) := by
  induction es with
  | nil => simp [rawEntries, buildInfos]
  | cons e es ih =>
    have ih' := ih (fun x hx => hattr x (List.mem_cons_of_mem _ hx)) (fun x hx => hdir x (List.mem_cons_of_mem _ hx))
    have ha := hattr e (List.mem_cons_self ..)
    have hd := hdir e (List.mem_cons_self ..)
    cases hdr : e.isDir with
    | true =>
      have hdata := hd hdr
      simp [rawEntries, buildInfos, Entry.hasStream, Entry.isEmptyFile, emptyFileBits, hdr, info, hdata] at ih' ⊢
      simpa [rawEntries, emptyFileBits, Entry.hasStream, Entry.isEmptyFile] using ih'
    | false =>
      have ha' := ha hdr
      cases hdt : e.data with
      | nil =>
        simp [rawEntries, buildInfos, Entry.hasStream, Entry.isEmptyFile, emptyFileBits, hdr, info, hdt, ha'] at ih' ⊢
        simpa [rawEntries, emptyFileBits, Entry.hasStream, Entry.isEmptyFile] using ih'
      | cons b bs =>
        simp [rawEntries, buildInfos, Entry.hasStream, Entry.isEmptyFile, emptyFileBits, hdr, info, hdt, ha'] at ih' ⊢
        simpa [rawEntries, emptyFileBits, Entry.hasStream, Entry.isEmptyFile] using ih'

/-! ### second loop of `_build_file_list` -/

def itemsFrom : List Entry → Nat → List (Nat × Bool)
  | [], _ => []
  | e :: es, i => (i, !e.hasStream) :: itemsFrom es (i + 1)

def streamIdx : List Entry → Nat → List Nat
  | [], _ => []
  | e :: es, i => if e.hasStream then i :: streamIdx es (i + 1) else streamIdx es (i + 1)

/-- the assignments a packer intends: the stream files of group `k` belong to folder `k` -/
def specAsg : List Group → Nat → Nat → List (Nat × Nat)
  | [], _, _ => []
  | g :: gs, i0, k0 => (streamIdx g.entries i0).map (·, k0) ++ specAsg gs (i0 + g.entries.length) (k0 + 1)

theorem itemsFrom_append (a b : List Entry) (i : Nat) :
    itemsFrom (a ++ b) i = itemsFrom a i ++ itemsFrom b (i + a.length) := by
  induction a generalizing i with
  | nil => simp [itemsFrom]
  | cons e es ih => simp [itemsFrom, ih, Nat.add_assoc, Nat.add_comm 1]

theorem streamless_of_count_zero (es : List Entry) (h : streamCount es = 0) : ∀ e ∈ es, e.hasStream = false := by
  intro e he
  unfold streamCount at h
  have := List.length_eq_zero_iff.mp h
  rw [List.filter_eq_nil_iff] at this
  simpa using this e he

theorem streamIdx_streamless (es : List Entry) (i : Nat) (h : ∀ e ∈ es, e.hasStream = false) : streamIdx es i = [] := by
  induction es generalizing i with
  | nil => rfl
  | cons e es ih =>
    have he := h e (List.mem_cons_self ..)
    simp [streamIdx, he, ih (i + 1) (fun x hx => h x (List.mem_cons_of_mem _ hx))]

theorem assign_skip (folders : List Folder) (es : List Entry) (rest : List (Nat × Bool)) (i k inF : Nat)
    (h : ∀ e ∈ es, e.hasStream = false) :
    assignLoop folders (itemsFrom es i ++ rest) k inF = assignLoop folders rest k inF := by
  induction es generalizing i with
  | nil => simp [itemsFrom]
  | cons e es ih =>
    have he := h e (List.mem_cons_self ..)
    simp [itemsFrom, assignLoop, he]
    exact ih (i + 1) (fun x hx => h x (List.mem_cons_of_mem _ hx))

theorem streamCount_cons (e : Entry) (es : List Entry) :
    streamCount (e :: es) = (if e.hasStream then 1 else 0) + streamCount es := by
  unfold streamCount
  by_cases h : e.hasStream = true <;> simp [List.filter_cons, h] <;> omega

theorem assign_group (folders : List Folder) (fd : Folder) (k : Nat) (hk : folders[k]? = some fd) :
    ∀ (es : List Entry) (i inF : Nat) (rest : List (Nat × Bool)), streamCount es ≥ 1 →
      streamCount es + inF = fd.numStreams →
      assignLoop folders (itemsFrom es i ++ rest) k inF
        = (streamIdx es i).map (·, k) ++ assignLoop folders rest (k + 1) 0 := by
  intro es
  induction es with
  | nil => intro i inF rest h1; simp [streamCount] at h1
  | cons e es ih =>
    intro i inF rest h1 h2
    rw [streamCount_cons] at h1 h2
    cases he : e.hasStream with
    | false =>
      simp [he] at h1 h2
      simp [itemsFrom, assignLoop, he, streamIdx]
      exact ih (i + 1) inF rest h1 h2
    | true =>
      simp [he] at h1 h2
      simp only [itemsFrom, he, Bool.not_true, List.cons_append, assignLoop, hk, streamIdx, if_true,
        List.map_cons, Bool.false_eq_true, if_false]
      by_cases hlast : inF + 1 ≥ fd.numStreams
      · have h0 : streamCount es = 0 := by omega
        have hs := streamless_of_count_zero es h0
        simp [hlast, streamIdx_streamless es (i + 1) hs, assign_skip folders es rest (i + 1) (k + 1) 0 hs]
      · have h1' : streamCount es ≥ 1 := by omega
        have h2' : streamCount es + (inF + 1) = fd.numStreams := by omega
        simp [hlast, ih (i + 1) (inF + 1) rest h1' h2']

theorem assign_all (tail : List Entry) (ht : ∀ e ∈ tail, e.hasStream = false) :
    ∀ (gs done : List Group) (i : Nat), (∀ g ∈ gs, streamCount g.entries ≥ 1) →
      assignLoop ((done ++ gs).map Group.folder) (itemsFrom (allEntries gs tail) i) done.length 0
        = specAsg gs i done.length := by
  intro gs
  induction gs with
  | nil =>
    intro done i _
    have := assign_skip ((done ++ []).map Group.folder) tail [] i done.length 0 ht
    simpa [allEntries, specAsg, assignLoop] using this
  | cons g gs ih =>
    intro done i hg
    have hk : ((done ++ g :: gs).map Group.folder)[done.length]? = some g.folder := by
      simp [List.getElem?_append_right]
    have hg1 := hg g (List.mem_cons_self ..)
    have := assign_group _ g.folder done.length hk g.entries i 0 (itemsFrom (allEntries gs tail) (i + g.entries.length)) hg1
      (by simp [Group.folder])
    have e1 : allEntries (g :: gs) tail = g.entries ++ allEntries gs tail := by simp [allEntries]
    rw [e1, itemsFrom_append, this]
    have ih' := ih (done ++ [g]) (i + g.entries.length) (fun x hx => hg x (List.mem_cons_of_mem _ hx))
    simp only [List.append_assoc, List.singleton_append, List.length_append, List.length_singleton] at ih'
    simp only [specAsg, List.append_cancel_left_eq]
    simpa using ih'

/-! ### the folder → files dictionary -/

theorem dictGet_dictAppend (m : List (Nat × List Nat)) (k v q : Nat) :
    dictGet (dictAppend m k v) q = if q = k then some ((dictGet m k).getD [] ++ [v]) else dictGet m q := by
  induction m with
  | nil =>
    by_cases h : q = k
    · simp [dictAppend, dictGet, h]
    · have h' : ¬ k = q := fun e => h e.symm
      simp [dictAppend, dictGet, h, h']
  | cons hd tl ih =>
    obtain ⟨k', vs⟩ := hd
    by_cases h1 : k' = k
    · subst h1
      by_cases h2 : q = k' <;> simp [dictAppend, dictGet, h2, eq_comm]
    · by_cases h2 : q = k
      · subst h2
        simp [dictAppend, dictGet, h1, ih]
      · by_cases h3 : k' = q <;> simp [dictAppend, dictGet, h1, h2, h3, ih]

theorem dictGet_foldl (asg : List (Nat × Nat)) (m : List (Nat × List Nat)) (q : Nat) :
    dictGet (asg.foldl (fun m p => dictAppend m p.2 p.1) m) q =
      if (asg.filter (·.2 = q)).map (·.1) = [] then dictGet m q
      else some ((dictGet m q).getD [] ++ (asg.filter (·.2 = q)).map (·.1)) := by
  induction asg generalizing m with
  | nil => simp
  | cons p ps ih =>
    simp only [List.foldl_cons, ih, dictGet_dictAppend]
    by_cases h : p.2 = q
    · subst h
      by_cases h2 : (ps.filter (·.2 = p.2)).map (·.1) = [] <;> simp [List.filter_cons, h2]
    · have h' : ¬ q = p.2 := fun e => h e.symm
      rw [List.filter_cons_of_neg (by simpa using h)]
      simp [h']

theorem specAsg_filter_lt (gs : List Group) (i0 k0 q : Nat) (h : q < k0) :
    (specAsg gs i0 k0).filter (·.2 = q) = [] := by
  induction gs generalizing i0 k0 with
  | nil => simp [specAsg]
  | cons g gs ih =>
    simp only [specAsg, List.filter_append, List.append_eq_nil_iff]
    refine ⟨?_, ih _ _ (by omega)⟩
    rw [List.filter_eq_nil_iff]
    intro p hp
    simp only [List.mem_map] at hp
    obtain ⟨x, _, rfl⟩ := hp
    simp; omega

theorem specAsg_filter (a : List Group) (g : Group) (b : List Group) (i0 k0 : Nat) :
    ((specAsg (a ++ g :: b) i0 k0).filter (·.2 = k0 + a.length)).map (·.1)
      = streamIdx g.entries (i0 + (a.flatMap (·.entries)).length) := by
  induction a generalizing i0 k0 with
  | nil =>
    simp only [List.nil_append, specAsg, List.filter_append, List.length_nil, Nat.add_zero, List.flatMap_nil,
      List.map_append]
    rw [specAsg_filter_lt _ _ _ _ (by omega)]
    simp [List.filter_map, Function.comp_def]
  | cons x a ih =>
    simp only [List.cons_append, specAsg, List.filter_append, List.map_append, List.length_cons, List.flatMap_cons,
      List.length_append]
    have h1 : ((streamIdx x.entries i0).map (·, k0)).filter (·.2 = k0 + (a.length + 1)) = [] := by
      rw [List.filter_eq_nil_iff]
      intro p hp
      simp only [List.mem_map] at hp
      obtain ⟨y, _, rfl⟩ := hp
      simp
    rw [h1]
    have := ih (i0 + x.entries.length) (k0 + 1)
    rw [show k0 + 1 + a.length = k0 + (a.length + 1) by omega] at this
    simp only [List.map_nil, List.nil_append, this]
    congr 1
    omega

/-! ### cutting the decompressed folder / empty files -/

/-- `files` holds, from index `i0` on, the file infos of the entries `es` -/
def FilesAt (files : List FileInfo) (es : List Entry) (i0 : Nat) : Prop :=
  ∀ j e, es[j]? = some e → ∃ f, files[i0 + j]? = some f ∧ f.filename = e.name ∧
    f.uncompressed = e.data.length ∧ f.isDirectory = e.isDir

theorem FilesAt.tail {files e es i0} (h : FilesAt files (e :: es) i0) : FilesAt files es (i0 + 1) := by
  intro j x hx
  have := h (j + 1) x (by simpa using hx)
  rwa [show i0 + (j + 1) = i0 + 1 + j by omega] at this

theorem FilesAt.right {files a b i0} (h : FilesAt files (a ++ b) i0) : FilesAt files b (i0 + a.length) := by
  intro j x hx
  have := h (a.length + j) x (by rw [List.getElem?_append_right (by omega)]; simpa using hx)
  rwa [show i0 + (a.length + j) = i0 + a.length + j by omega] at this

theorem FilesAt.left {files a b i0} (h : FilesAt files (a ++ b) i0) : FilesAt files a i0 := by
  intro j x hx
  have hj : j < a.length := by
    have := List.getElem?_eq_some_iff.mp hx
    exact this.1
  exact h j x (by rw [List.getElem?_append_left hj]; exact hx)

def streamFiles (es : List Entry) : List (Str × Bytes) := (es.filter (·.hasStream)).map fun e => (e.name, e.data)
def emptyFiles (es : List Entry) : List (Str × Bytes) := (es.filter (·.isEmptyFile)).map fun e => (e.name, [])

/-- the non-empty files among `es` (listed from index `i` on) that are requested (`w` on the index in `list()`) -/
def streamFilesW (w : Nat → Bool) : List Entry → Nat → List (Str × Bytes)
  | [], _ => []
  | e :: es, i => if e.hasStream && w i then (e.name, e.data) :: streamFilesW w es (i + 1) else streamFilesW w es (i + 1)

/-- the requested empty files -/
def emptyFilesW (w : Nat → Bool) : List Entry → Nat → List (Str × Bytes)
  | [], _ => []
  | e :: es, i => if e.isEmptyFile && w i then (e.name, []) :: emptyFilesW w es (i + 1) else emptyFilesW w es (i + 1)

/-- every requested non-empty file of `es` ends (at running offset `off` + its own size) within `n` -/
def EndsWithin (w : Nat → Bool) : List Entry → Nat → Nat → Nat → Prop
  | [], _, _, _ => True
  | e :: es, i, off, n =>
    if e.hasStream then (w i = true → off + e.data.length ≤ n) ∧ EndsWithin w es (i + 1) (off + e.data.length) n
    else EndsWithin w es (i + 1) off n

theorem slice_take (x d rest : Bytes) (n : Nat) (h : x.length + d.length ≤ n) :
    (((x ++ d ++ rest).take n).drop x.length).take d.length = d := by
  rw [List.drop_take, show x ++ d ++ rest = x ++ (d ++ rest) by simp, List.drop_left, List.take_take,
    Nat.min_eq_left (by omega), List.take_left]

theorem hasStream_not_dir {e : Entry} (h : e.hasStream = true) : e.isDir = false := by
  unfold Entry.hasStream at h
  cases hh : e.isDir <;> simp_all

theorem cutFiles_gen (files : List FileInfo) (wanted : Option (List Nat)) :
    ∀ (es : List Entry) (i0 : Nat) (x y : Bytes) (n : Nat), FilesAt files es i0 →
      EndsWithin (isWanted wanted) es i0 x.length n →
      cutFiles files wanted (streamIdx es i0) x.length ((x ++ streamData es ++ y).take n)
        = .ok (streamFilesW (isWanted wanted) es i0) := by
  intro es
  induction es with
  | nil => intro i0 x y n _ _; simp [streamIdx, cutFiles, streamFilesW]
  | cons e es ih =>
    intro i0 x y n h hin
    have ht := h.tail
    cases he : e.hasStream with
    | false =>
      simp only [EndsWithin, he, Bool.false_eq_true, if_false] at hin
      have := ih (i0 + 1) x y n ht hin
      simpa [streamIdx, he, streamData, streamFilesW, List.filter_cons] using this
    | true =>
      simp only [EndsWithin, he, if_true] at hin
      obtain ⟨hhead, htail⟩ := hin
      obtain ⟨f, hf, hn, hu, hd⟩ := h 0 e (by simp)
      have hdir : e.isDir = false := hasStream_not_dir he
      have hsd : streamData (e :: es) = e.data ++ streamData es := by simp [streamData, List.filter_cons, he]
      have hD : x ++ (e.data ++ streamData es) ++ y = x ++ e.data ++ streamData es ++ y := by simp
      have ih' := ih (i0 + 1) (x ++ e.data) y n ht (by simpa using htail)
      simp only [List.length_append] at ih'
      simp only [streamIdx, he, if_true, cutFiles, Nat.add_zero] at hf ⊢
      rw [hf]
      simp only [hd, hdir, Bool.false_eq_true, if_false, hu, hsd, hD]
      cases hw : isWanted wanted i0 with
      | false =>
        simp only [Bool.not_false, if_true, ih']
        simp [streamFilesW, he, hw]
      | true =>
        have hle := hhead hw
        have hlen : ¬ (x.length + e.data.length > ((x ++ e.data ++ streamData es ++ y).take n).length) := by
          simp only [List.length_take, List.length_append]; omega
        simp only [Bool.not_true, Bool.false_eq_true, if_false, hlen, ih']
        have hcut := slice_take x e.data (streamData es ++ y) n hle
        rw [show x ++ e.data ++ (streamData es ++ y) = x ++ e.data ++ streamData es ++ y by simp] at hcut
        rw [hcut]
        simp [streamFilesW, he, hw, hn]

def emptyIdx : List Entry → Nat → List Nat
  | [], _ => []
  | e :: es, i => if e.isEmptyFile then i :: emptyIdx es (i + 1) else emptyIdx es (i + 1)

theorem emptyWrites_gen (files : List FileInfo) (wanted : Option (List Nat)) :
    ∀ (es : List Entry) (i0 : Nat), FilesAt files es i0 →
      emptyWrites files wanted (emptyIdx es i0) = .ok (emptyFilesW (isWanted wanted) es i0) := by
  intro es
  induction es with
  | nil => intro i0 _; simp [emptyIdx, emptyWrites, emptyFilesW]
  | cons e es ih =>
    intro i0 h
    have := ih (i0 + 1) h.tail
    cases he : e.isEmptyFile with
    | false => simpa [emptyIdx, he, emptyFilesW] using this
    | true =>
      obtain ⟨f, hf, hn, _, _⟩ := h 0 e (by simp)
      simp only [Nat.add_zero] at hf
      cases hw : isWanted wanted i0 <;> simp [emptyIdx, he, emptyWrites, hf, this, emptyFilesW, hn, hw]

/-! ### `_needed_output` -/

/-- what `_needed_output` computes, on the entries -/
def specNeeded (w : List Nat) : List Entry → Nat → Nat → Option Nat → Option Nat
  | [], _, _, acc => acc
  | e :: es, i, off, acc =>
    if e.hasStream then
      specNeeded w es (i + 1) (off + e.data.length) (if w.contains i then some (off + e.data.length) else acc)
    else specNeeded w es (i + 1) off acc

theorem neededLoop_spec (files : List FileInfo) (w : List Nat) :
    ∀ (es : List Entry) (i0 off : Nat) (acc : Option Nat), FilesAt files es i0 →
      neededLoop files w (streamIdx es i0) off acc = .ok (specNeeded w es i0 off acc) := by
  intro es
  induction es with
  | nil => intro i0 off acc _; simp [streamIdx, neededLoop, specNeeded]
  | cons e es ih =>
    intro i0 off acc h
    cases he : e.hasStream with
    | false => simpa [streamIdx, he, specNeeded] using ih (i0 + 1) off acc h.tail
    | true =>
      obtain ⟨f, hf, _, hu, hd⟩ := h 0 e (by simp)
      simp only [Nat.add_zero] at hf
      have hdir : e.isDir = false := hasStream_not_dir he
      simp only [streamIdx, he, if_true, neededLoop, hf, hd, hdir, Bool.false_eq_true, if_false, hu, specNeeded]
      exact ih (i0 + 1) _ _ h.tail

theorem specNeeded_some_ne (w : List Nat) : ∀ (es : List Entry) (i off a : Nat), specNeeded w es i off (some a) ≠ none := by
  intro es
  induction es with
  | nil => intro i off a; simp [specNeeded]
  | cons e es ih =>
    intro i off a
    unfold specNeeded
    split
    · split <;> exact ih _ _ _
    · exact ih _ _ _

theorem specNeeded_some (w : List Nat) : ∀ (es : List Entry) (i off : Nat) (acc : Option Nat) (m : Nat),
    specNeeded w es i off acc = some m → (∀ a, acc = some a → a ≤ off) →
      (∀ a, acc = some a → a ≤ m) ∧ EndsWithin (isWanted (some w)) es i off m := by
  intro es
  induction es with
  | nil =>
    intro i off acc m h _
    simp only [specNeeded] at h
    exact ⟨fun a ha => by rw [h] at ha; cases ha; exact Nat.le_refl _, trivial⟩
  | cons e es ih =>
    intro i off acc m h hacc
    unfold specNeeded at h
    cases he : e.hasStream with
    | false =>
      simp only [he, Bool.false_eq_true, if_false] at h
      have := ih (i + 1) off acc m h hacc
      exact ⟨this.1, by simpa [EndsWithin, he] using this.2⟩
    | true =>
      simp only [he, if_true] at h
      cases hw : w.contains i with
      | false =>
        simp only [hw, Bool.false_eq_true, if_false] at h
        have := ih (i + 1) _ acc m h (fun a ha => by have := hacc a ha; omega)
        refine ⟨this.1, ?_⟩
        simp only [EndsWithin, he, if_true]
        have hni : ¬ i ∈ w := by
          intro hm
          have hc : w.contains i = true := by simp [hm]
          rw [hw] at hc; cases hc
        exact ⟨fun hc => by simp [isWanted, hni] at hc, this.2⟩
      | true =>
        simp only [hw, if_true] at h
        have := ih (i + 1) _ _ m h (fun a ha => by cases ha; exact Nat.le_refl _)
        have hm := this.1 _ rfl
        refine ⟨fun a ha => by have := hacc a ha; omega, ?_⟩
        simp only [EndsWithin, he, if_true]
        exact ⟨fun _ => hm, this.2⟩

theorem specNeeded_none (w : List Nat) : ∀ (es : List Entry) (i off : Nat),
    specNeeded w es i off none = none → streamFilesW (isWanted (some w)) es i = [] := by
  intro es
  induction es with
  | nil => intro i off _; rfl
  | cons e es ih =>
    intro i off h
    unfold specNeeded at h
    cases he : e.hasStream with
    | false =>
      simp only [he, Bool.false_eq_true, if_false] at h
      simpa [streamFilesW, he] using ih (i + 1) off h
    | true =>
      simp only [he, if_true] at h
      cases hw : w.contains i with
      | false =>
        simp only [hw, Bool.false_eq_true, if_false] at h
        have hni : ¬ i ∈ w := by
          intro hm
          have hc : w.contains i = true := by simp [hm]
          rw [hw] at hc; cases hc
        simpa [streamFilesW, he, isWanted, hni] using ih (i + 1) _ h
      | true =>
        simp only [hw, if_true] at h
        exact absurd h (specNeeded_some_ne w es _ _ _)

theorem endsWithin_all (w : Nat → Bool) : ∀ (es : List Entry) (i off n : Nat), off + (streamData es).length ≤ n →
    EndsWithin w es i off n := by
  intro es
  induction es with
  | nil => intro i off n _; trivial
  | cons e es ih =>
    intro i off n h
    cases he : e.hasStream with
    | false =>
      have hsd : streamData (e :: es) = streamData es := by simp [streamData, List.filter_cons, he]
      rw [hsd] at h
      simpa [EndsWithin, he] using ih (i + 1) off n h
    | true =>
      have hsd : streamData (e :: es) = e.data ++ streamData es := by simp [streamData, List.filter_cons, he]
      rw [hsd, List.length_append] at h
      simp only [EndsWithin, he, if_true]
      exact ⟨fun _ => by omega, ih (i + 1) _ n (by omega)⟩

theorem skipItems_info (attr : Entry → Nat) (es : List Entry) (i : Nat) :
    skipItems (es.map (info attr)) i = itemsFrom es i := by
  induction es generalizing i with
  | nil => rfl
  | cons e es ih =>
    simp only [List.map_cons, skipItems, info, itemsFrom, ih]
    congr 2
    unfold Entry.hasStream
    cases e.isDir <;> simp

theorem emptyIdxLoop_info (attr : Entry → Nat) (es : List Entry) (i : Nat) :
    emptyIdxLoop (es.map (info attr)) i = emptyIdx es i := by
  induction es generalizing i with
  | nil => rfl
  | cons e es ih =>
    simp only [List.map_cons, emptyIdxLoop, info, emptyIdx, ih]
    have : (!e.isDir && !e.hasStream) = e.isEmptyFile := by
      unfold Entry.hasStream Entry.isEmptyFile
      cases e.isDir <;> simp
    rw [this]

/-! ### the folder loop of `extractall` -/

/-- what the layout theorem needs of one folder: it holds at least one file, its pack stream is not empty,
    and its coder decodes its pack stream to the concatenation of its files — to the first `m` bytes of it
    when asked for at most `m` -/
structure GroupOk (ids : Ids) (c : Codec) (g : Group) : Prop where
  streams : streamCount g.entries ≥ 1
  packed_ne : g.packed ≠ []
  decodes : ∀ mo, applyDecoder ids c g.coder g.packed [(streamData g.entries).length] mo
      = .ok (capTo mo (streamData g.entries))

theorem decompress_group (ids : Ids) (c : Codec) (g : Group) (hg : GroupOk ids c g) (a b : Bytes) (mo : Option Nat) :
    decompressFolder ids c (a ++ g.packed ++ b) g.folder a.length [g.packed.length] mo
      = .ok (capTo mo (streamData g.entries)) := by
  have hne : g.packed.length ≠ 0 := by
    have := hg.packed_ne
    intro h; exact this (List.length_eq_zero_iff.mp h)
  have h1 : ¬ (g.folder.coders = []) := by simp [Group.folder]
  have h2 : ¬ ([g.packed.length].sum = 0) := by simpa using hne
  have hdata : ((a ++ g.packed ++ b).drop a.length).take [g.packed.length].sum = g.packed := by
    rw [show a ++ g.packed ++ b = a ++ (g.packed ++ b) by simp, List.drop_left]
    simp
  unfold decompressFolder
  rw [if_neg h1]
  simp only [if_neg h2, hdata]
  simp only [Group.folder, List.reverse_cons, List.reverse_nil, List.nil_append, applyDecoders, hg.decodes]

theorem sum_map_length (gs : List Group) : (gs.map (·.packed.length)).sum = (gs.flatMap (·.packed)).length := by
  induction gs with
  | nil => rfl
  | cons g gs ih => simp only [List.map_cons, List.sum_cons, List.flatMap_cons, List.length_append, ih]

theorem streamFilesW_append (w : Nat → Bool) (a b : List Entry) (i : Nat) :
    streamFilesW w (a ++ b) i = streamFilesW w a i ++ streamFilesW w b (i + a.length) := by
  induction a generalizing i with
  | nil => simp [streamFilesW]
  | cons e a ih =>
    simp only [List.cons_append, streamFilesW, ih, List.length_cons]
    rw [show i + 1 + a.length = i + (a.length + 1) by omega]
    split <;> simp

/-- one folder of the loop: skipped when nothing is requested from it, otherwise decoded up to the end of its
    last requested file and cut -/
theorem folder_step (ids : Ids) (c : Codec) (files : List FileInfo) (wanted : Option (List Nat)) (g : Group)
    (hg : GroupOk ids c g) (i0 : Nat) (hF : FilesAt files g.entries i0) (a b : Bytes) :
    (folderCap files wanted (streamIdx g.entries i0) = .ok none ∧ streamFilesW (isWanted wanted) g.entries i0 = [])
    ∨ ∃ mo, folderCap files wanted (streamIdx g.entries i0) = .ok (some mo)
        ∧ ∃ dec, decompressFolder ids c (a ++ g.packed ++ b) g.folder a.length [g.packed.length] mo = .ok dec
          ∧ cutFiles files wanted (streamIdx g.entries i0) 0 dec = .ok (streamFilesW (isWanted wanted) g.entries i0) := by
  cases wanted with
  | none =>
    right
    refine ⟨none, rfl, _, decompress_group ids c g hg a b none, ?_⟩
    have hE := endsWithin_all (isWanted none) g.entries i0 0 (streamData g.entries).length (by omega)
    have := cutFiles_gen files none g.entries i0 [] [] (streamData g.entries).length hF hE
    simpa [capTo] using this
  | some w =>
    have hN := neededLoop_spec files w g.entries i0 0 none hF
    cases hs : specNeeded w g.entries i0 0 none with
    | none =>
      left
      exact ⟨by simp [folderCap, hN, hs], specNeeded_none w g.entries i0 0 hs⟩
    | some m =>
      right
      refine ⟨some m, by simp [folderCap, hN, hs], _, decompress_group ids c g hg a b (some m), ?_⟩
      have hE := (specNeeded_some w g.entries i0 0 none m hs (by intro a ha; cases ha)).2
      have := cutFiles_gen files (some w) g.entries i0 [] [] m hF hE
      simpa [capTo] using this

theorem runPlan_spec (ids : Ids) (c : Codec) (G : List Group) (tail : List Entry) (r : R) (pre post : Bytes) (pp : Nat)
    (wanted : Option (List Nat))
    (hps : r.packSizes = G.map (·.packed.length)) (hpre : pre.length = pp)
    (hdict : ∀ a g b, G = a ++ g :: b →
      dictGet r.folderToFiles a.length = some (streamIdx g.entries (a.flatMap (·.entries)).length))
    (hfiles : FilesAt r.files (allEntries G tail) 0) :
    ∀ (gs done : List Group), G = done ++ gs → (∀ g ∈ gs, GroupOk ids c g) →
      runPlan ids c (pre ++ G.flatMap (·.packed) ++ post) r wanted
          (folderPlan r.packSizes pp (gs.map Group.folder) done.length done.length)
        = .ok (streamFilesW (isWanted wanted) (gs.flatMap (·.entries)) (done.flatMap (·.entries)).length) := by
  intro gs
  induction gs with
  | nil => intro done _ _; simp [folderPlan, runPlan, streamFilesW]
  | cons g gs ih =>
    intro done hG hok
    have hg := hok g (List.mem_cons_self ..)
    have ih' := ih (done ++ [g]) (by simp [hG]) (fun x hx => hok x (List.mem_cons_of_mem _ hx))
    simp only [List.length_append, List.length_singleton, List.flatMap_append, List.flatMap_cons, List.flatMap_nil,
      List.append_nil] at ih'
    have hA : (r.packSizes.take done.length).sum = (done.flatMap (·.packed)).length := by
      rw [hps, hG, List.map_append, List.take_left' (by simp), sum_map_length]
    have hB : (r.packSizes.drop done.length).take 1 = [g.packed.length] := by
      rw [hps, hG, List.map_append, List.drop_left' (by simp)]
      simp
    have hfile : pre ++ G.flatMap (·.packed) ++ post
        = (pre ++ done.flatMap (·.packed)) ++ g.packed ++ (gs.flatMap (·.packed) ++ post) := by
      rw [hG]; simp
    have hpos : pp + (done.flatMap (·.packed)).length = (pre ++ done.flatMap (·.packed)).length := by
      simp [hpre]
    have hF : FilesAt r.files g.entries ((done.flatMap (·.entries)).length) := by
      have h1 : allEntries G tail = done.flatMap (·.entries) ++ (g.entries ++ (gs.flatMap (·.entries) ++ tail)) := by
        rw [hG]; simp [allEntries]
      rw [h1] at hfiles
      have := hfiles.right.left
      simpa using this
    simp only [List.map_cons, folderPlan, runPlan, hdict done g gs hG, hA, hB, Group.folder, List.flatMap_cons,
      streamFilesW_append]
    rw [hfile, hpos]
    rcases folder_step ids c r.files wanted g hg _ hF (pre ++ done.flatMap (·.packed)) (gs.flatMap (·.packed) ++ post)
      with ⟨hcap, hnil⟩ | ⟨mo, hcap, dec, hdec, hcut⟩
    · rw [hcap]
      simp only [hnil, List.nil_append]
      rw [← hfile, ih']
    · simp only [Group.folder] at hdec
      rw [hcap]
      simp only [hdec, hcut]
      rw [← hfile, ih']

theorem streamIdx_length (es : List Entry) (i : Nat) : (streamIdx es i).length = streamCount es := by
  induction es generalizing i with
  | nil => rfl
  | cons e es ih =>
    rw [streamCount_cons]
    by_cases h : e.hasStream = true
    · simp [streamIdx, h, ih]; omega
    · simp [streamIdx, h, ih]

theorem streamFiles_append (a b : List Entry) : streamFiles (a ++ b) = streamFiles a ++ streamFiles b := by
  simp [streamFiles]

theorem streamFiles_streamless (es : List Entry) (h : ∀ e ∈ es, e.hasStream = false) : streamFiles es = [] := by
  simp only [streamFiles, List.map_eq_nil_iff, List.filter_eq_nil_iff]
  intro e he; simp [h e he]

theorem streamFiles_all (gs : List Group) (tail : List Entry) (h : ∀ e ∈ tail, e.hasStream = false) :
    streamFiles (allEntries gs tail) = gs.flatMap fun g => streamFiles g.entries := by
  unfold allEntries
  rw [streamFiles_append, streamFiles_streamless tail h, List.append_nil]
  induction gs with
  | nil => rfl
  | cons g gs ih => simp [streamFiles_append, ih]

/-! ### requested-subset views -/

theorem streamFilesW_streamless (w : Nat → Bool) (es : List Entry) (i : Nat) (h : ∀ e ∈ es, e.hasStream = false) :
    streamFilesW w es i = [] := by
  induction es generalizing i with
  | nil => rfl
  | cons e es ih =>
    have he := h e (List.mem_cons_self ..)
    simp [streamFilesW, he, ih (i + 1) (fun x hx => h x (List.mem_cons_of_mem _ hx))]

theorem streamFilesW_all (w : Nat → Bool) (gs : List Group) (tail : List Entry) (h : ∀ e ∈ tail, e.hasStream = false) :
    streamFilesW w (allEntries gs tail) 0 = streamFilesW w (gs.flatMap (·.entries)) 0 := by
  unfold allEntries
  rw [streamFilesW_append, streamFilesW_streamless w tail _ h, List.append_nil]

/-- with `members=None` every entry is requested -/
theorem streamFilesW_none (es : List Entry) (i : Nat) : streamFilesW (isWanted none) es i = streamFiles es := by
  induction es generalizing i with
  | nil => rfl
  | cons e es ih =>
    cases he : e.hasStream <;> simp [streamFilesW, streamFiles, List.filter_cons, he, isWanted, ih (i + 1)] <;>
      simp [streamFiles]

theorem emptyFilesW_none (es : List Entry) (i : Nat) : emptyFilesW (isWanted none) es i = emptyFiles es := by
  induction es generalizing i with
  | nil => rfl
  | cons e es ih =>
    cases he : e.isEmptyFile <;> simp [emptyFilesW, emptyFiles, List.filter_cons, he, isWanted, ih (i + 1)] <;>
      simp [emptyFiles]

/-- indices (from `i` on) of the entries satisfying `p` -/
def keepIdx (p : Entry → Bool) : List Entry → Nat → List Nat
  | [], _ => []
  | e :: es, i => if p e then i :: keepIdx p es (i + 1) else keepIdx p es (i + 1)

theorem keepIdx_ge (p : Entry → Bool) (es : List Entry) (i : Nat) : ∀ j ∈ keepIdx p es i, i ≤ j := by
  induction es generalizing i with
  | nil => intro j hj; simp [keepIdx] at hj
  | cons e es ih =>
    intro j hj
    unfold keepIdx at hj
    split at hj
    · rcases List.mem_cons.mp hj with rfl | h
      · exact Nat.le_refl _
      · have := ih (i + 1) j h; omega
    · have := ih (i + 1) j hj; omega

theorem streamFilesW_congr (w1 w2 : Nat → Bool) (es : List Entry) (i : Nat) (h : ∀ j, i ≤ j → w1 j = w2 j) :
    streamFilesW w1 es i = streamFilesW w2 es i := by
  induction es generalizing i with
  | nil => rfl
  | cons e es ih =>
    simp only [streamFilesW, h i (Nat.le_refl _), ih (i + 1) (fun j hj => h j (by omega))]

theorem emptyFilesW_congr (w1 w2 : Nat → Bool) (es : List Entry) (i : Nat) (h : ∀ j, i ≤ j → w1 j = w2 j) :
    emptyFilesW w1 es i = emptyFilesW w2 es i := by
  induction es generalizing i with
  | nil => rfl
  | cons e es ih =>
    simp only [emptyFilesW, h i (Nat.le_refl _), ih (i + 1) (fun j hj => h j (by omega))]

theorem contains_keepIdx_cons (p : Entry → Bool) (es : List Entry) (i : Nat) :
    ¬ i ∈ keepIdx p es (i + 1) := by
  intro hm
  have := keepIdx_ge p es (i + 1) i hm
  omega

/-- requesting exactly the entries that satisfy `p` writes exactly the files of the `p`-filtered entry list -/
theorem streamFilesW_keepIdx (p : Entry → Bool) (es : List Entry) (i : Nat) :
    streamFilesW (isWanted (some (keepIdx p es i))) es i = streamFiles (es.filter p) := by
  induction es generalizing i with
  | nil => rfl
  | cons e es ih =>
    have hc := contains_keepIdx_cons p es i
    have htail : ∀ (l : List Nat), (∀ j, i + 1 ≤ j → (isWanted (some l)) j = (isWanted (some (keepIdx p es (i + 1)))) j) →
        streamFilesW (isWanted (some l)) es (i + 1) = streamFiles (es.filter p) := by
      intro l hl
      rw [streamFilesW_congr _ _ es (i + 1) hl, ih (i + 1)]
    cases hp : p e with
    | false =>
      simp only [keepIdx, hp, Bool.false_eq_true, if_false, streamFilesW, List.filter_cons]
      have hw : isWanted (some (keepIdx p es (i + 1))) i = false := by simp [isWanted, hc]
      simp only [hw, Bool.and_false, Bool.false_eq_true, if_false]
      exact ih (i + 1)
    | true =>
      simp only [keepIdx, hp, if_true, streamFilesW, List.filter_cons]
      have hw : isWanted (some (i :: keepIdx p es (i + 1))) i = true := by simp [isWanted]
      have ht := htail (i :: keepIdx p es (i + 1)) (by
        intro j hj
        have : ¬ j = i := by omega
        simp [isWanted, List.contains_cons, this])
      rw [hw, ht]
      cases he : e.hasStream <;> simp [streamFiles, List.filter_cons, he]

theorem emptyFilesW_keepIdx (p : Entry → Bool) (es : List Entry) (i : Nat) :
    emptyFilesW (isWanted (some (keepIdx p es i))) es i = emptyFiles (es.filter p) := by
  induction es generalizing i with
  | nil => rfl
  | cons e es ih =>
    have hc := contains_keepIdx_cons p es i
    cases hp : p e with
    | false =>
      simp only [keepIdx, hp, Bool.false_eq_true, if_false, emptyFilesW, List.filter_cons]
      have hw : isWanted (some (keepIdx p es (i + 1))) i = false := by simp [isWanted, hc]
      simp only [hw, Bool.and_false, Bool.false_eq_true, if_false]
      exact ih (i + 1)
    | true =>
      simp only [keepIdx, hp, if_true, emptyFilesW, List.filter_cons]
      have hw : isWanted (some (i :: keepIdx p es (i + 1))) i = true := by simp [isWanted]
      have ht : emptyFilesW (isWanted (some (i :: keepIdx p es (i + 1)))) es (i + 1) = emptyFiles (es.filter p) := by
        rw [emptyFilesW_congr _ (isWanted (some (keepIdx p es (i + 1)))) es (i + 1) (by
          intro j hj
          have : ¬ j = i := by omega
          simp [isWanted, List.contains_cons, this]), ih (i + 1)]
      rw [hw, ht]
      cases he : e.isEmptyFile <;> simp [emptyFiles, List.filter_cons, he]

end S2T.SevenZip
