import S2T.Lemmas.Py
import S2T.Py.Paths
import S2T.Spec.Opc
/-!
Lemmas about the second prelude part (`S2T/Py/Paths.lean`): the generic `str.split` / `str.join` are the
`/`-specific definitions of the C14 specification, `list.pop` / slices on the shapes the translated path
helpers use, and the two generic loop lemmas for the "dot-segment" loops (`for part in parts: …pop/append`).
Core Lean only.
-/
namespace S2T.Py
open S2T.Spec.Opc (splitSlash joinSlash dot dotdot)

/-! ## monad plumbing as PROPOSITIONAL rewrite rules

`M.ok_bind` & co. of `S2T/Lemmas/Py.lean` are `rfl` lemmas: `simp` applies them without a proof step and the kernel
re-checks the definitional equality afterwards — which can make it unfold the continuation (a comparison with a
large numeral such as `k < 1000000` on a variable is then evaluated in unary).  These versions leave a proof step. -/
theorem M.ok_bind' {α β} (a : α) (f : α → M β) : (Except.ok a : M α) >>= f = f a := by
  simp only [bind, Except.bind]
theorem M.error_bind' {α β} (e : Exc) (f : α → M β) : (Except.error e : M α) >>= f = Except.error e := by
  simp only [bind, Except.bind]
theorem M.tryCatch_ok' {α} (a : α) (h : Exc → M α) : tryCatch (Except.ok a : M α) h = Except.ok a := by
  simp only [tryCatch, tryCatchThe, MonadExceptOf.tryCatch, Except.tryCatch]
theorem M.tryCatch_error' {α} (e : Exc) (h : Exc → M α) : tryCatch (Except.error e : M α) h = h e := by
  simp only [tryCatch, tryCatchThe, MonadExceptOf.tryCatch, Except.tryCatch]

/-- `s.split("/")` of the prelude is the `splitSlash` of the OPC specification / of the hand models -/
theorem splitOn_slash (s : Str) : splitOn '/' s = splitSlash s := by
  induction s with
  | nil => rfl
  | cons c r ih =>
    simp only [splitOn, splitSlash, ih]
    split
    · rfl
    · cases splitSlash r <;> rfl

/-- `"/".join(xs)` of the prelude is `joinSlash` -/
theorem strJoin_slash (l : List Str) : strJoin ['/'] l = joinSlash l := by
  induction l with
  | nil => rfl
  | cons s t ih =>
    cases t with
    | nil => rfl
    | cons t1 t2 => simp only [strJoin, joinSlash, ih, List.append_assoc, List.cons_append, List.nil_append]

theorem splitOn_ne_nil (c : Char) (s : Str) : splitOn c s ≠ [] := by
  induction s with
  | nil => simp [splitOn]
  | cons x r ih =>
    unfold splitOn
    split
    · simp
    · split <;> simp

@[simp] theorem listPop_nil {α} : listPop ([] : List α) = Except.error pIndexError := rfl
@[simp] theorem listPop_cons {α} (x : α) (r : List α) :
    listPop (x :: r) = Except.ok ((x :: r).dropLast, (x :: r).getLast (by simp)) := rfl

theorem listPop_of_ne_nil {α} (l : List α) (h : l ≠ []) : listPop l = Except.ok (l.dropLast, l.getLast h) := by
  cases l with
  | nil => exact absurd rfl h
  | cons x r => rfl

@[simp] theorem len_nil {α} : len ([] : List α) = 0 := rfl
theorem len_cons {α} (a : α) (l : List α) : len (a :: l) = len l + 1 := by simp [len]
theorem len_nonneg {α} (l : List α) : 0 ≤ len l := by simp [len]
/-- the ways a source tests a list for emptiness through `len` -/
@[simp] theorem len_eq_zero {α} (l : List α) : len l = 0 ↔ l = [] := by cases l <;> simp [len] <;> omega
@[simp] theorem zero_eq_len {α} (l : List α) : 0 = len l ↔ l = [] := by cases l <;> simp [len] <;> omega
@[simp] theorem len_pos {α} (l : List α) : 0 < len l ↔ l ≠ [] := by cases l <;> simp [len] <;> omega
@[simp] theorem len_le_zero {α} (l : List α) : len l ≤ 0 ↔ l = [] := by cases l <;> simp [len] <;> omega
@[simp] theorem one_le_len {α} (l : List α) : 1 ≤ len l ↔ l ≠ [] := by cases l <;> simp [len] <;> omega
@[simp] theorem len_lt_one {α} (l : List α) : len l < 1 ↔ l = [] := by cases l <;> simp [len] <;> omega

@[simp] theorem listAppend_def {α} (l : List α) (x : α) : listAppend l x = l ++ [x] := rfl

/-- `xs[:-1]` -/
@[simp] theorem slice_dropLast {α} (xs : List α) : pSlice xs none (some (-1)) = xs.dropLast := by
  simp only [pSlice, pClampIndex]
  have : ((-1 : Int) + (xs.length : Int)).toNat = xs.length - 1 := by omega
  simp [this, List.dropLast_eq_take]

/-! ## the dot-segment loop, forwards (the list the Python loop holds, last element = top of the stack) -/

/-- one iteration of `if part == "..": (if resolved: resolved.pop()) elif part and part != ".": resolved.append(part)` -/
def dotStep (res : List Str) (p : Str) : List Str :=
  if p = dotdot then res.dropLast else if p ≠ [] ∧ p ≠ dot then res ++ [p] else res

/-- a `for` loop whose body (whatever its shape) is `dotStep` is the fold of `dotStep` -/
theorem forIn_dotStep (f : Str → List Str → M (ForInStep (List Str)))
    (hf : ∀ p res, f p res = Except.ok (ForInStep.yield (dotStep res p))) (parts : List Str) (res : List Str) :
    forIn parts res f = Except.ok (parts.foldl dotStep res) := by
  induction parts generalizing res with
  | nil => rfl
  | cons p r ih => simp [List.forIn_cons, hf, ih]

/-- the same loop with `if not resolved: return href` in the `..` branch: `none` = the early return fired -/
def dotRun : List Str → List Str → Option (List Str)
  | res, [] => some res
  | res, p :: r => if p = dotdot ∧ res = [] then none else dotRun (dotStep res p) r

/-- loop state of a `for` with an early `return v`: `(some v, state at the return)` or `(none, final state)` -/
def dotRunState (v : Str) : List Str → List Str → Option Str × List Str
  | res, [] => (none, res)
  | res, p :: r => if p = dotdot ∧ res = [] then (some v, res) else dotRunState v (dotStep res p) r

theorem forIn_dotRun (v : Str) (f : Str → Option Str × List Str → M (ForInStep (Option Str × List Str)))
    (hf : ∀ p res, f p (none, res) = Except.ok (if p = dotdot ∧ res = [] then ForInStep.done (some v, res)
      else ForInStep.yield (none, dotStep res p))) (parts : List Str) (res : List Str) :
    forIn parts (none, res) f = Except.ok (dotRunState v res parts) := by
  induction parts generalizing res with
  | nil => rfl
  | cons p r ih =>
    simp only [List.forIn_cons, hf, dotRunState]
    split <;> simp [ih]

theorem dotRunState_none (v : Str) (res parts : List Str) (h : dotRun res parts = none) :
    (dotRunState v res parts).1 = some v := by
  induction parts generalizing res with
  | nil => simp [dotRun] at h
  | cons p r ih =>
    simp only [dotRunState, dotRun] at h ⊢
    split
    · rfl
    · rename_i hc; rw [if_neg hc] at h; exact ih _ h

theorem dotRunState_some (v : Str) (res parts segs : List Str) (h : dotRun res parts = some segs) :
    dotRunState v res parts = (none, segs) := by
  induction parts generalizing res with
  | nil => simp [dotRun] at h; simp [dotRunState, h]
  | cons p r ih =>
    simp only [dotRunState, dotRun] at h ⊢
    split
    · rename_i hc; rw [if_pos hc] at h; cases h
    · rename_i hc; rw [if_neg hc] at h; exact ih _ h

end S2T.Py
