import S2T.Lemmas.AesModel
/-! `_expand_key`, `_aes_encrypt_block`, `_aes_decrypt_block` of the model = FIPS-197 KeyExpansion, Cipher, InvCipher. -/
namespace S2T.AesL
open S2T.Aes (IsBytes Tables Exc)
open S2T.Spec

variable {T : Tables}

theorem foldl_range'_congr {σ} (P : Nat → σ → Prop) (f g : σ → Nat → σ) :
    ∀ n s st, P s st → (∀ i st, s ≤ i → i < s + n → P i st → f st i = g st i ∧ P (i + 1) (g st i)) →
      (List.range' s n).foldl f st = (List.range' s n).foldl g st := by
  intro n
  induction n with
  | zero => intro s st _ _; rfl
  | succ n ih =>
    intro s st h hs
    rw [List.range'_succ, List.foldl_cons, List.foldl_cons]
    obtain ⟨e, p⟩ := hs s st (Nat.le_refl _) (by omega) h
    rw [e]
    exact ih (s + 1) (g st s) p (fun i st' h1 h2 h3 => hs i st' (by omega) (by omega) h3)

theorem subWord_eq (hT : TablesOk T) {x : List Nat} (hx : IsBytes x) : Aes.subWord T x = Fips197.subWord x := by
  unfold Aes.subWord Fips197.subWord
  apply List.map_congr_left
  intro a ha
  exact sbox_eq hT (hx a ha)

theorem xorHead_eq {x : List Nat} (hx : x.length = 4) (c : Nat) :
    Aes.xorHead x c = Fips197.xorWords x [c, 0, 0, 0] := by
  obtain ⟨a, b, d, e, rfl⟩ := list4 x hx
  simp [Aes.xorHead, Fips197.xorWords]

theorem expandStep_eq (hT : TablesOk T) {nk : Nat} (hnk : nk = 4 ∨ nk = 6 ∨ nk = 8) (w : List (List Nat)) (i : Nat)
    (hi : nk ≤ i) (hi2 : i < 4 * (nk + 7)) (hw : w.length = i ∧ ∀ x ∈ w, Word x) :
    Aes.expandStep T T.rcon nk w i = Fips197.expandStep nk w i := by
  obtain ⟨hl, hwd⟩ := hw
  have ht : Word (w.getD (i - 1) []) := hwd _ (getD_mem (by omega))
  have hrc : T.rcon.getD (i / nk) 0 = Fips197.rcon (i / nk) := by
    apply hT.rcon.2
    rcases hnk with rfl | rfl | rfl <;> omega
  have e1 : Aes.xorHead (Aes.subWord T (Aes.rotWord (w.getD (i - 1) []))) (T.rcon.getD (i / nk) 0)
      = Fips197.xorWords (Fips197.subWord (Fips197.rotWord (w.getD (i - 1) []))) [Fips197.rcon (i / nk), 0, 0, 0] := by
    have hr : Word (Fips197.rotWord (w.getD (i - 1) [])) := rotWord_word ht
    have : Aes.rotWord (w.getD (i - 1) []) = Fips197.rotWord (w.getD (i - 1) []) := rfl
    rw [this, subWord_eq hT hr.2, hrc, xorHead_eq (subWord_word hr).1]
  have e2 : Aes.subWord T (w.getD (i - 1) []) = Fips197.subWord (w.getD (i - 1) []) := subWord_eq hT ht.2
  unfold Aes.expandStep Fips197.expandStep
  simp only [e1, e2]
  rfl

theorem expandKey_eq (hT : TablesOk T) {key : List Nat} (hk : KeyOk key) :
    Aes.expandKey T key
      = .ok ((List.range (Fips197.Nr key + 1)).map (Fips197.roundKey (Fips197.keyExpansion key))) := by
  obtain ⟨hlen, hb⟩ := hk
  have hnk : (Fips197.Nk key = 4 ∨ Fips197.Nk key = 6 ∨ Fips197.Nk key = 8) ∧ key.length = 4 * Fips197.Nk key := by
    unfold Fips197.Nk; rcases hlen with h | h | h <;> rw [h] <;> decide
  obtain ⟨hnk, hlen4⟩ := hnk
  have hne : ¬ (key.length ≠ 16 ∧ key.length ≠ 24 ∧ key.length ≠ 32) := by omega
  have hrl : key.length / 4 + 6 < T.rcon.length := by rw [hT.rcon.1]; omega
  unfold Aes.expandKey
  rw [if_neg hne]
  simp only [if_pos hrl]
  have hfold : (List.range' (key.length / 4) (4 * (key.length / 4 + 6 + 1) - key.length / 4)).foldl
        (Aes.expandStep T T.rcon (key.length / 4)) ((List.range (key.length / 4)).map fun i => (key.drop (4 * i)).take 4)
      = Fips197.keyExpansion key := by
    unfold Fips197.keyExpansion Fips197.Nr
    show _ = (List.range' (Fips197.Nk key) (4 * (Fips197.Nk key + 6 + 1) - Fips197.Nk key)).foldl
      (Fips197.expandStep (Fips197.Nk key)) ((List.range (Fips197.Nk key)).map fun i => (key.drop (4 * i)).take 4)
    have hN : key.length / 4 = Fips197.Nk key := rfl
    rw [hN]
    apply foldl_range'_congr (fun i (w : List (List Nat)) => w.length = i ∧ ∀ x ∈ w, Word x)
    · refine ⟨by simp, ?_⟩
      intro x hx
      obtain ⟨i, hi, rfl⟩ := List.mem_map.mp hx
      have hi := List.mem_range.mp hi
      refine ⟨by simp only [List.length_take, List.length_drop]; omega, ?_⟩
      intro b hb'
      exact hb b (List.mem_of_mem_drop (List.mem_of_mem_take hb'))
    · intro i st h1 h2 h3
      exact ⟨expandStep_eq hT hnk st i h1 (by omega) h3, expandStep_inv hnk st i h1 (by omega) h3⟩
  rw [hfold]
  rfl

/-! ### blocks -/

theorem getD_map_range {α} (f : Nat → α) (n r : Nat) (d : α) (h : r < n) :
    ((List.range n).map f).getD r d = f r := by
  simp [List.getD, List.getElem?_map, List.getElem?_range h]

theorem encryptBlock_rk (hT : TablesOk T) {rk : Nat → List Nat} {nr : Nat} {b : List Nat}
    (hrk : RKOk rk nr) (hb : Block b) :
    Aes.encryptBlock T b ((List.range (nr + 1)).map rk) = .ok (Fips197.cipherRK rk nr b) := by
  have hg : ∀ r, r ≤ nr → ((List.range (nr + 1)).map rk).getD r [] = rk r :=
    fun r hr => getD_map_range rk (nr + 1) r [] (by omega)
  unfold Aes.encryptBlock
  rw [if_neg (by rw [hb.1]; decide)]
  simp only [List.length_map, List.length_range, Nat.add_sub_cancel]
  rw [hg 0 (Nat.zero_le _), hg nr (Nat.le_refl _)]
  have hk0 := hrk 0 (Nat.zero_le _)
  have hkn := hrk nr (Nat.le_refl _)
  have h0 : Aes.addRoundKey b (rk 0) = Fips197.addRoundKey b (rk 0) := addRoundKey_eq hb.1 hk0.1
  have hB0 : Block (Fips197.addRoundKey b (rk 0)) := addRoundKey_block hb hk0
  obtain ⟨e, p⟩ := foldl_congr_inv Block
    (fun s r => Aes.addRoundKey (Aes.mixColumns T (Aes.shiftRows (Aes.subBytes T s))) (((List.range (nr + 1)).map rk).getD r []))
    (fun s r => Fips197.addRoundKey (Fips197.mixColumns (Fips197.shiftRows (Fips197.subBytes s))) (rk r))
    (List.range' 1 (nr - 1))
    (by
      intro st r hr hst
      have hkr := hrk r (mem_range'_1 hr).2
      have s1 := subBytes_block hst
      have s2 := shiftRows_block s1
      have s3 := mixColumns_block s2
      refine ⟨?_, addRoundKey_block s3 hkr⟩
      show Aes.addRoundKey (Aes.mixColumns T (Aes.shiftRows (Aes.subBytes T st))) (((List.range (nr + 1)).map rk).getD r []) = _
      rw [hg r (mem_range'_1 hr).2, subBytes_eq hT hst, shiftRows_eq s1.1, mixColumns_eq hT s2,
        addRoundKey_eq s3.1 hkr.1])
    _ hB0
  rw [h0, e]
  have s1 := subBytes_block p
  have s2 := shiftRows_block s1
  rw [subBytes_eq hT p, shiftRows_eq s1.1, addRoundKey_eq s2.1 hkn.1]
  rfl

theorem decryptBlock_rk (hT : TablesOk T) {rk : Nat → List Nat} {nr : Nat} {b : List Nat}
    (hrk : RKOk rk nr) (hb : Block b) :
    Aes.decryptBlock T b ((List.range (nr + 1)).map rk) = .ok (Fips197.invCipherRK rk nr b) := by
  have hg : ∀ r, r ≤ nr → ((List.range (nr + 1)).map rk).getD r [] = rk r :=
    fun r hr => getD_map_range rk (nr + 1) r [] (by omega)
  unfold Aes.decryptBlock
  rw [if_neg (by rw [hb.1]; decide)]
  simp only [List.length_map, List.length_range, Nat.add_sub_cancel]
  rw [hg 0 (Nat.zero_le _), hg nr (Nat.le_refl _)]
  have hk0 := hrk 0 (Nat.zero_le _)
  have hkn := hrk nr (Nat.le_refl _)
  have h0 : Aes.addRoundKey b (rk nr) = Fips197.addRoundKey b (rk nr) := addRoundKey_eq hb.1 hkn.1
  have hB0 : Block (Fips197.addRoundKey b (rk nr)) := addRoundKey_block hb hkn
  obtain ⟨e, p⟩ := foldl_congr_inv Block
    (fun s r => Aes.invMixColumns T (Aes.addRoundKey (Aes.invSubBytes T (Aes.invShiftRows s)) (((List.range (nr + 1)).map rk).getD r [])))
    (fun s r => Fips197.invMixColumns (Fips197.addRoundKey (Fips197.invSubBytes (Fips197.invShiftRows s)) (rk r)))
    (List.range' 1 (nr - 1)).reverse
    (by
      intro st r hr hst
      have hr' := mem_range'_1 (List.mem_reverse.mp hr)
      have hkr := hrk r hr'.2
      have s1 := invShiftRows_block hst
      have s2 := invSubBytes_block s1
      have s3 := addRoundKey_block s2 hkr
      refine ⟨?_, invMixColumns_block s3⟩
      show Aes.invMixColumns T (Aes.addRoundKey (Aes.invSubBytes T (Aes.invShiftRows st)) (((List.range (nr + 1)).map rk).getD r [])) = _
      rw [hg r hr'.2, invShiftRows_eq hst.1, invSubBytes_eq hT s1, addRoundKey_eq s2.1 hkr.1,
        invMixColumns_eq hT s3])
    _ hB0
  rw [h0, e]
  have s1 := invShiftRows_block p
  have s2 := invSubBytes_block s1
  rw [invShiftRows_eq p.1, invSubBytes_eq hT s1, addRoundKey_eq s2.1 hk0.1]
  rfl

/-- the round keys of the model for `key` -/
def specRoundKeys (key : List Nat) : List (List Nat) :=
  (List.range (Fips197.Nr key + 1)).map (Fips197.roundKey (Fips197.keyExpansion key))

theorem encryptBlock_eq (hT : TablesOk T) {key b : List Nat} (hk : KeyOk key) (hb : Block b) :
    Aes.encryptBlock T b (specRoundKeys key) = .ok (Fips197.aesEnc key b) :=
  encryptBlock_rk hT (rk_ok hk) hb

theorem decryptBlock_eq (hT : TablesOk T) {key b : List Nat} (hk : KeyOk key) (hb : Block b) :
    Aes.decryptBlock T b (specRoundKeys key) = .ok (Fips197.aesDec key b) :=
  decryptBlock_rk hT (rk_ok hk) hb

end S2T.AesL
