import S2T.Model.UnitsBound
import S2T.Lemmas.Units
/-! Helper lemmas for C03 unit boundaries (mbox writer / splitter round trip, memoised page loop). Core Lean only. -/
namespace S2T.Units

/-- one stored line: `rawLines` finds it again -/
theorem rawLines_line (l rest acc : Str) (h : '\n' ∉ l) :
    rawLines (l ++ '\n' :: rest) acc = (acc.reverse ++ l, true) :: rawLines rest [] := by
  induction l generalizing acc with
  | nil => simp [rawLines]
  | cons c r ih =>
    have hc : c ≠ '\n' := fun e => h (by simp [e])
    have hr : '\n' ∉ r := fun e => h (by simp [e])
    simp only [List.cons_append, rawLines, if_neg hc]
    rw [ih _ hr]
    simp

/-- a block of stored lines: `rawLines` yields them, all terminated -/
theorem rawLines_lines (ls : List Str) (rest : Str) (h : ∀ l ∈ ls, '\n' ∉ l) :
    rawLines ((ls.map (· ++ ['\n'])).flatten ++ rest) [] = ls.map (fun l => (l, true)) ++ rawLines rest [] := by
  induction ls with
  | nil => simp
  | cons l r ih =>
    have hl : '\n' ∉ l := h l (by simp)
    have hr : ∀ x ∈ r, '\n' ∉ x := fun x hx => h x (by simp [hx])
    simp only [List.map_cons, List.flatten_cons, List.append_assoc, List.cons_append]
    rw [rawLines_line l _ [] hl]
    simp only [List.nil_append, List.reverse_nil]
    rw [ih hr]

theorem rawLines_nil : rawLines [] [] = [] := by simp [rawLines]

/-- message lines (none of them a separator) are appended to the message being collected -/
theorem mboxGo_body (ls : List Str) (rest : List (Str × Bool)) (m : Str) (h : ∀ l ∈ ls, isFromLine l = false) :
    mboxGo (ls.map (fun l => (l, true)) ++ rest) (some m) = mboxGo rest (some (m ++ (ls.map (· ++ ['\n'])).flatten)) := by
  induction ls generalizing m with
  | nil => simp
  | cons l r ih =>
    have hl : isFromLine l = false := h l (by simp)
    have hr : ∀ x ∈ r, isFromLine x = false := fun x hx => h x (by simp [hx])
    simp only [List.map_cons, List.cons_append, mboxGo, hl, Bool.and_false, Bool.false_eq_true, if_false, Option.map_some]
    rw [ih _ hr]
    simp

/-- all lines of a mailbox, in file order -/
def mboxAllLines (ms : List MboxMsg) : List (Str × Bool) :=
  (ms.map (fun m => (m.sep, true) :: m.lines.map (fun l => (l, true)))).flatten

theorem rawLines_mboxWrite (ms : List MboxMsg) (h : MboxWellFormed ms) :
    rawLines (mboxWrite ms) [] = mboxAllLines ms := by
  induction ms with
  | nil => simp [mboxWrite, mboxAllLines, rawLines]
  | cons m r ih =>
    have hm := h m (by simp)
    have hr : MboxWellFormed r := fun x hx => h x (by simp [hx])
    have e : mboxWrite (m :: r) = m.sep ++ '\n' :: ((m.lines.map (· ++ ['\n'])).flatten ++ mboxWrite r) := by
      simp [mboxWrite, mboxMsgText]
    rw [e, rawLines_line _ _ [] hm.2.1, rawLines_lines _ _ (fun l hl => (hm.2.2 l hl).2), ih hr]
    simp [mboxAllLines]

theorem mboxGo_mboxAllLines (ms : List MboxMsg) (h : MboxWellFormed ms) (cur : Option Str) :
    mboxGo (mboxAllLines ms) cur = cur.toList ++ ms.map mboxMsgText := by
  induction ms generalizing cur with
  | nil => cases cur <;> simp [mboxAllLines, mboxGo]
  | cons m r ih =>
    have hm := h m (by simp)
    have hr : MboxWellFormed r := fun x hx => h x (by simp [hx])
    have e : mboxAllLines (m :: r) = (m.sep, true) :: (m.lines.map (fun l => (l, true)) ++ mboxAllLines r) := by
      simp [mboxAllLines]
    rw [e]
    simp only [mboxGo, hm.1, Bool.and_self, if_true]
    rw [mboxGo_body _ _ _ (fun l hl => (hm.2.2 l hl).1), ih hr]
    cases cur <;> simp [mboxMsgText]

/-- the memo table only ever holds what `mk` would give -/
def MemoSound {π κ} [DecidableEq κ] (key : π → κ) (mk : π → Page) (tbl : List (κ × Page)) : Prop :=
  ∀ p v, tbl.lookup (key p) = some v → v = mk p

theorem pdfExtractMemo_eq {π κ} [DecidableEq κ] (key : π → κ) (mk : π → Page)
    (hk : ∀ p q, key p = key q → mk p = mk q) (pages : List π) (tbl : List (κ × Page)) (ht : MemoSound key mk tbl) :
    pdfExtractMemo key mk pages tbl = pages.map mk := by
  induction pages generalizing tbl with
  | nil => rfl
  | cons p r ih =>
    unfold pdfExtractMemo
    cases hl : tbl.lookup (key p) with
    | some v =>
      simp only [List.map_cons]
      rw [ht p v hl, ih tbl ht]
    | none =>
      simp only [List.map_cons]
      rw [ih]
      intro q v hq
      simp only [List.lookup_cons] at hq
      split at hq
      · next heq =>
        have : key q = key p := by simpa using heq
        cases hq
        exact (hk q p this).symm
      · exact ht q v hq

end S2T.Units
