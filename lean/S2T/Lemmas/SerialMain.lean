import S2T.Lemmas.SerialRT
/-! Main round-trip lemma for C05: `deserValue ty (ser v) = canon ty v`. Core Lean only. -/
namespace S2T.Serial

variable {S : Schema}

theorem nodupStr_nodup : ∀ l : List Str, nodupStr l = true → l.Nodup
  | [], _ => List.nodup_nil
  | x :: xs, h => by
    simp [nodupStr] at h
    exact List.nodup_cons.mpr ⟨h.1, nodupStr_nodup xs h.2⟩

theorem WellTypedList_mem : ∀ xs : List PyVal, ∀ t, WellTypedList S t xs = true → ∀ x ∈ xs, WellTyped S t x = true
  | [], _, _ => by simp
  | y :: ys, t, h => by
    simp [WellTypedList] at h
    intro x hx
    rcases List.mem_cons.mp hx with e | hx
    · rw [e]; exact h.1
    · exact WellTypedList_mem ys t h.2 x hx

/-! ### scalars -/
theorem rt_str (ty : Ty) (s : Str) (h : WellTyped S ty (.str s) = true) :
    deserValue S ty (ser true (.str s)) = .ok (canon S ty (.str s)) := by
  simp only [ser, canon, deserValue]
  simp only [WellTyped] at h
  cases hu : unwrapOpt ty <;> simp [hu] at h ⊢

/-! ### binary leaves -/
theorem rt_bytes (ty : Ty) (bs : List Nat) (hd : ∀ k v, unwrapOpt ty ≠ .dict k v) (hb : bytesOk bs = true) :
    deserValue S ty (.dict [(.str kBytes, .str (b64enc bs))]) = .ok (.bytes bs) := by
  have h1 : dget kBytesio [(Key.str kBytes, PyVal.str (b64enc bs))] = none :=
    dget_none _ _ (by intro e he; simp at he; subst he; simp; exact fun e => kBytesio_ne_kBytes e.symm)
  have h2 : dget kBytes [(Key.str kBytes, PyVal.str (b64enc bs))] = some (.str (b64enc bs)) := dget_head _ _ _
  cases hu : unwrapOpt ty <;> simp [deserValue, hu, h1, h2, b64ToBytes, b64dec_enc bs hb]
  exact (hd _ _ hu).elim

theorem rt_bytesio (ty : Ty) (bs : List Nat) (hd : ∀ k v, unwrapOpt ty ≠ .dict k v) (hb : bytesOk bs = true) :
    deserValue S ty (.dict [(.str kBytesio, .str (b64enc bs))]) = .ok (.bytesio bs) := by
  have h1 : dget kBytesio [(Key.str kBytesio, PyVal.str (b64enc bs))] = some (.str (b64enc bs)) := dget_head _ _ _
  cases hu : unwrapOpt ty <;> simp [deserValue, hu, h1, b64ToBytesio, b64dec_enc bs hb]
  exact (hd _ _ hu).elim

/-! ### sequences -/
theorem rt_list (ty : Ty) (xs : List PyVal) (h : WellTyped S ty (.list xs) = true)
    (ih : ∀ t, WellTypedList S t xs = true → ∀ x ∈ xs, deserValue S t (ser true x) = .ok (canon S t x)) :
    deserValue S ty (ser true (.list xs)) = .ok (canon S ty (.list xs)) := by
  simp only [WellTyped] at h
  simp only [ser, canon]
  cases hu : unwrapOpt ty <;> simp only [hu] at h ⊢ <;> simp only [deserValue, hu]
  rename_i t
  rw [serList_eq, canonList_eq, deserList_map S t (ser true) (canon S t) xs (ih t h)]

theorem rt_tuple (ty : Ty) (xs : List PyVal) (h : WellTyped S ty (.tuple xs) = true)
    (ih : ∀ t, WellTypedList S t xs = true → ∀ x ∈ xs, deserValue S t (ser true x) = .ok (canon S t x)) :
    deserValue S ty (ser true (.tuple xs)) = .ok (canon S ty (.tuple xs)) := by
  simp only [WellTyped] at h
  simp only [ser, canon]
  cases hu : unwrapOpt ty <;> simp only [hu] at h ⊢ <;> simp only [deserValue, hu]
  rename_i t
  rw [serList_eq, canonList_eq, deserList_map S t (ser true) (canon S t) xs (ih t h)]

theorem rt_set (ty : Ty) (xs : List PyVal) (h : WellTyped S ty (.set xs) = true)
    (ih : ∀ t, WellTypedList S t xs = true → ∀ x ∈ xs, deserValue S t (ser true x) = .ok (canon S t x)) :
    deserValue S ty (ser true (.set xs)) = .ok (canon S ty (.set xs)) := by
  simp only [WellTyped] at h
  simp only [ser, canon]
  cases hu : unwrapOpt ty <;> simp only [hu] at h ⊢ <;> simp only [deserValue, hu]
  rename_i t
  rw [serList_eq, canonList_eq, deserList_map S t (ser true) (canon S t) xs (ih t h)]

/-! ### plain dicts -/
theorem WellTypedVals_mem : ∀ l : List (Key × PyVal), ∀ t, WellTypedVals S t l = true → ∀ e ∈ l, WellTyped S t e.2 = true
  | [], _, _ => by simp
  | (k, v) :: r, t, h => by
    simp [WellTypedVals] at h
    intro e he
    rcases List.mem_cons.mp he with e' | he
    · rw [e']; exact h.1
    · exact WellTypedVals_mem r t h.2 e he

theorem ser_dict_eq (b : Bool) (kvs : List (Key × PyVal)) :
    ser b (.dict kvs) = .dict (mapVals (ser b) (normKeys (strKeys kvs))) := by
  simp only [ser, serKVs_eq, normKeys_mapVals]

theorem rt_dict_typed (ty kt vt : Ty) (kvs : List (Key × PyVal)) (hu : unwrapOpt ty = .dict kt vt)
    (ih : ∀ e ∈ kvs, deserValue S vt (ser true e.2) = .ok (canon S vt e.2)) :
    deserValue S ty (ser true (.dict kvs)) = .ok (canon S ty (.dict kvs)) := by
  rw [ser_dict_eq]
  simp only [deserValue, canon, hu, canonKVs_eq, normKeys_mapVals]
  rw [deserKVs_mapVals S vt (ser true) (canon S vt)]
  intro e he
  have := mem_normKeys _ e he
  simp [strKeys] at this
  obtain ⟨a, v, hm, rfl⟩ := this
  exact ih (a, v) hm

theorem rt_dict_untyped (ty : Ty) (kvs : List (Key × PyVal))
    (hd : ∀ k v, unwrapOpt ty ≠ .dict k v) (hc : ∀ n, unwrapOpt ty ≠ .cls n)
    (hk : kvs.all (fun kv => !isMarker (keyStr kv.1)) = true) :
    deserValue S ty (ser true (.dict kvs)) = .ok (canon S ty (.dict kvs)) := by
  have hX : ∀ m, isMarker m = true → ∀ e ∈ normKeys (serKVs true kvs), e.1 ≠ Key.str m := by
    intro m hm e he
    have := mem_normKeys _ e he
    rw [serKVs_eq] at this
    simp [mapVals, strKeys] at this
    obtain ⟨a, v, hmem, rfl⟩ := this
    simp at hk
    have := hk a v hmem
    simp
    intro e'
    rw [e'] at this
    rw [this] at hm
    exact Bool.false_ne_true hm
  have h1 := dget_none kBytesio _ (hX kBytesio (by decide))
  have h2 := dget_none kBytes _ (hX kBytes (by decide))
  have h3 := dget_none kType _ (hX kType (by decide))
  simp only [ser]
  cases hu : unwrapOpt ty <;> simp [deserValue, canon, hu, h1, h2, h3]
  · exact (hd _ _ hu).elim
  · exact (hc _ hu).elim

/-! ### dataclass instances -/
theorem find_some {n : Str} {C : Class} (h : S.find n = some C) : C ∈ S ∧ C.name = n := by
  unfold Schema.find at h
  refine ⟨List.mem_of_find?_eq_some h, ?_⟩
  have := List.find?_some h
  simpa using this

theorem classOk_of_mem (hS : SchemaOk S = true) {C : Class} (hC : C ∈ S) : classOk C = true := by
  simp [SchemaOk] at hS
  exact hS C hC

theorem rt_obj (hS : SchemaOk S = true) (ty : Ty) (c : Str) (fs : List (Str × PyVal)) (C : Class)
    (hd : ∀ k v, unwrapOpt ty ≠ .dict k v)
    (hfind : S.find c = some C) (habs : C.abstract = false) (hnames : fs.map (·.1) = C.fieldNames)
    (ih : ∀ e ∈ fs, deserValue S ((C.fieldTy e.1).getD .any) (ser true e.2)
            = .ok (canon S ((C.fieldTy e.1).getD .any) e.2) ∧ stripStable C.strip e.1 e.2 = true) :
    deserValue S ty (ser true (.obj c fs)) = .ok (canon S ty (.obj c fs)) := by
  obtain ⟨hCmem, hCname⟩ := find_some hfind
  have hok := classOk_of_mem hS hCmem
  simp only [classOk, Bool.and_eq_true, Bool.not_eq_true', List.all_eq_true] at hok
  obtain ⟨⟨hnd, hnomark⟩, hne⟩ := hok
  have hnd' : C.fieldNames.Nodup := nodupStr_nodup _ hnd
  have hnm : ∀ m, isMarker m = true → m ∉ C.fieldNames := by
    intro m hm hin
    have := hnomark m hin
    simp [hm] at this
  -- the serialised object
  let J : List (Key × PyVal) := mapVals (ser true) (objEntries c fs)
  have hJ : ser true (.obj c fs) = .dict J := by
    rw [ser_obj_eq, normKeys_nodup]
    rw [keys_mapVals]
    simp only [keys, objEntries, fieldKeys, List.map_cons, List.map_map]
    refine List.nodup_cons.mpr ⟨?_, ?_⟩
    · simp only [List.mem_map, Function.comp]
      rintro ⟨e, he, heq⟩
      simp at heq
      have : e.1 ∈ C.fieldNames := by rw [← hnames]; exact List.mem_map_of_mem he
      rw [heq] at this
      exact hnm kType (by decide) this
    · have : (List.map ((fun x : Key × PyVal => x.1) ∘ fun kv : Str × PyVal => (Key.str kv.1, kv.2)) fs)
          = (fs.map (·.1)).map Key.str := by simp [List.map_map, Function.comp_def]
      rw [this, hnames]
      exact List.Pairwise.map Key.str (fun {a b} (h : a ≠ b) e => h (Key.str.inj e)) hnd'
  have hJcons : J = (Key.str kType, PyVal.str c) :: mapVals (ser true) (fieldKeys fs) := by
    simp [J, objEntries, mapVals, ser]
  have hfk : ∀ m, isMarker m = true → ∀ e ∈ mapVals (ser true) (fieldKeys fs), e.1 ≠ Key.str m := by
    intro m hm e he
    simp [mapVals, fieldKeys] at he
    obtain ⟨a, v, hmem, rfl⟩ := he
    simp
    intro e'
    have : a ∈ C.fieldNames := by rw [← hnames]; exact List.mem_map_of_mem (f := (·.1)) hmem
    rw [e'] at this
    exact hnm m hm this
  have h1 : dget kBytesio J = none := by
    rw [hJcons]
    apply dget_none
    intro e he
    rcases List.mem_cons.mp he with rfl | he
    · simp; exact fun e => kBytesio_ne_kType e.symm
    · exact hfk kBytesio (by decide) e he
  have h2 : dget kBytes J = none := by
    rw [hJcons]
    apply dget_none
    intro e he
    rcases List.mem_cons.mp he with rfl | he
    · simp; exact fun e => kBytes_ne_kType e.symm
    · exact hfk kBytes (by decide) e he
  have h3 : dget kType J = some (.str c) := by rw [hJcons]; exact dget_head _ _ _
  have hcne : c.isEmpty = false := by rw [← hCname]; exact hne
  have hres : resolveClass S none J = .ok (some C) := by
    simp [resolveClass, h3, hfind, hcne]
  have hcont : ∀ e ∈ fs, C.fieldNames.contains e.1 = true := by
    intro e he
    simp
    rw [← hnames]; exact List.mem_map_of_mem (f := (·.1)) he
  have hget : deserFields S C J J
      = .ok (fs.map (fun e => (e.1, canon S ((C.fieldTy e.1).getD .any) e.2))) := by
    conv => lhs; arg 4; rw [hJcons]
    have hkt : C.fieldNames.contains kType = false := by
      simpa using hnm kType (by decide)
    simp only [deserFields, targetField_type C J hkt]
    exact deserFields_fieldKeys S C J (ser true) (fun n v => canon S ((C.fieldTy n).getD .any) v) fs hcont
      (fun e he => (ih e he).1)
  let got := fs.map (fun e : Str × PyVal => (e.1, canon S ((C.fieldTy e.1).getD .any) e.2))
  have hgotnames : got.map (·.1) = C.fields.map (·.name) := by
    simp only [got, List.map_map, Function.comp_def]
    exact hnames
  have hfill : fillFields got C.fields = .ok got := by
    have := fillFields_all C.fields got [] hgotnames (by simp) (by rw [hgotnames]; exact hnd')
    simpa using this
  have hpost : postInit C.strip got = .ok got := by
    apply postInit_stable
    intro e he
    simp only [got, List.mem_map] at he
    obtain ⟨e0, he0, rfl⟩ := he
    have hst := (ih e0 he0).2
    simp only [stripStable] at hst ⊢
    split
    · rename_i hc
      simp only [hc, if_true] at hst
      cases hv : e0.2 <;> simp [hv] at hst
      simp [canon, hst]
    · rfl
  have hbuild : build C got = .ok (.obj c got) := by
    simp only [build, habs, hfill, hpost, hCname]
    rfl
  rw [hJ]
  have hcanon : canon S ty (.obj c fs) = .obj c got := by
    simp only [canon, hfind, canonFields_eq, got]
  rw [hcanon]
  cases hu : unwrapOpt ty <;>
    simp only [deserValue, hu, h1, h2, h3, Option.isSome_some, if_true, hres, hget]
  all_goals first | exact hbuild | exact (hd _ _ hu).elim

/-! ### assembling the cases -/
theorem rt_dict (ty : Ty) (kvs : List (Key × PyVal)) (h : WellTyped S ty (.dict kvs) = true)
    (ih : ∀ vt, WellTypedVals S vt kvs = true → ∀ e ∈ kvs, deserValue S vt (ser true e.2) = .ok (canon S vt e.2)) :
    deserValue S ty (ser true (.dict kvs)) = .ok (canon S ty (.dict kvs)) := by
  simp only [WellTyped] at h
  cases hu : unwrapOpt ty
  case dict kt vt => exact rt_dict_typed ty kt vt kvs hu (ih vt (by simpa [hu] using h))
  case cls n => simp [hu] at h
  all_goals exact rt_dict_untyped ty kvs (by simp [hu]) (by simp [hu]) (by simpa [hu] using h)

theorem rt_obj' (hS : SchemaOk S = true) (ty : Ty) (c : Str) (fs : List (Str × PyVal))
    (h : WellTyped S ty (.obj c fs) = true)
    (ih : ∀ C, WellTypedFields S C fs = true → ∀ e ∈ fs,
      deserValue S ((C.fieldTy e.1).getD .any) (ser true e.2) = .ok (canon S ((C.fieldTy e.1).getD .any) e.2)
      ∧ stripStable C.strip e.1 e.2 = true) :
    deserValue S ty (ser true (.obj c fs)) = .ok (canon S ty (.obj c fs)) := by
  simp only [WellTyped] at h
  have hd : ∀ k v, unwrapOpt ty ≠ .dict k v := by
    intro k v hu
    simp [hu] at h
  have h' : (match S.find c with
      | none => false
      | some C => !C.abstract && (fs.map (·.1) == C.fieldNames) && WellTypedFields S C fs) = true := by
    cases hu : unwrapOpt ty <;> simp only [hu] at h <;> first | exact h | exact (hd _ _ hu).elim
  cases hf : S.find c with
  | none => simp [hf] at h'
  | some C =>
    simp [hf] at h'
    obtain ⟨⟨habs, hnames⟩, hwt⟩ := h'
    exact rt_obj hS ty c fs C hd hf habs hnames (ih C hwt)

theorem wt_bytes {ty : Ty} {bs : List Nat} (h : WellTyped S ty (.bytes bs) = true) :
    (∀ k v, unwrapOpt ty ≠ .dict k v) ∧ bytesOk bs = true := by
  simp only [WellTyped] at h
  cases hu : unwrapOpt ty <;> simp [hu] at h ⊢ <;> exact h

theorem wt_bytearray {ty : Ty} {bs : List Nat} (h : WellTyped S ty (.bytearray bs) = true) :
    (∀ k v, unwrapOpt ty ≠ .dict k v) ∧ bytesOk bs = true := by
  simp only [WellTyped] at h
  cases hu : unwrapOpt ty <;> simp [hu] at h ⊢ <;> exact h

theorem wt_bytesio {ty : Ty} {bs : List Nat} (h : WellTyped S ty (.bytesio bs) = true) :
    (∀ k v, unwrapOpt ty ≠ .dict k v) ∧ bytesOk bs = true := by
  simp only [WellTyped] at h
  cases hu : unwrapOpt ty <;> simp [hu] at h ⊢ <;> exact h

mutual
/-- **deserialising what the serialiser wrote gives the canonical form of the value** -/
theorem deser_ser (hS : SchemaOk S = true) :
    ∀ (v : PyVal) (ty : Ty), WellTyped S ty v = true → deserValue S ty (ser true v) = .ok (canon S ty v)
  | .none, _, _ => by simp [ser, deserValue, canon]
  | .bool _, _, _ => by simp [ser, deserValue, canon]
  | .int _, _, _ => by simp [ser, deserValue, canon]
  | .float _, _, _ => by simp [ser, deserValue, canon]
  | .foreign _, _, _ => by simp [ser, deserValue, canon]
  | .str s, ty, h => rt_str ty s h
  | .bytes bs, ty, h => by
    obtain ⟨hd, hb⟩ := wt_bytes h
    simpa [ser, canon] using rt_bytes (S := S) ty bs hd hb
  | .bytearray bs, ty, h => by
    obtain ⟨hd, hb⟩ := wt_bytearray h
    simpa [ser, canon] using rt_bytes (S := S) ty bs hd hb
  | .bytesio bs, ty, h => by
    obtain ⟨hd, hb⟩ := wt_bytesio h
    simpa [ser, canon] using rt_bytesio (S := S) ty bs hd hb
  | .list xs, ty, h => rt_list ty xs h (fun t ht => deser_ser_list hS xs t ht)
  | .tuple xs, ty, h => rt_tuple ty xs h (fun t ht => deser_ser_list hS xs t ht)
  | .set xs, ty, h => rt_set ty xs h (fun t ht => deser_ser_list hS xs t ht)
  | .dict kvs, ty, h => rt_dict ty kvs h (fun vt hvt => deser_ser_vals hS kvs vt hvt)
  | .obj c fs, ty, h => rt_obj' hS ty c fs h (fun C hC => deser_ser_fields hS fs C hC)
theorem deser_ser_list (hS : SchemaOk S = true) :
    ∀ (xs : List PyVal) (t : Ty), WellTypedList S t xs = true →
      ∀ x ∈ xs, deserValue S t (ser true x) = .ok (canon S t x)
  | [], _, _ => by simp
  | y :: ys, t, h => by
    simp [WellTypedList] at h
    intro x hx
    rcases List.mem_cons.mp hx with e | hx
    · rw [e]; exact deser_ser hS y t h.1
    · exact deser_ser_list hS ys t h.2 x hx
theorem deser_ser_vals (hS : SchemaOk S = true) :
    ∀ (l : List (Key × PyVal)) (t : Ty), WellTypedVals S t l = true →
      ∀ e ∈ l, deserValue S t (ser true e.2) = .ok (canon S t e.2)
  | [], _, _ => by simp
  | (k, v) :: r, t, h => by
    simp [WellTypedVals] at h
    intro e he
    rcases List.mem_cons.mp he with e' | he
    · rw [e']; exact deser_ser hS v t h.1
    · exact deser_ser_vals hS r t h.2 e he
theorem deser_ser_fields (hS : SchemaOk S = true) :
    ∀ (fs : List (Str × PyVal)) (C : Class), WellTypedFields S C fs = true →
      ∀ e ∈ fs, deserValue S ((C.fieldTy e.1).getD .any) (ser true e.2)
          = .ok (canon S ((C.fieldTy e.1).getD .any) e.2) ∧ stripStable C.strip e.1 e.2 = true
  | [], _, _ => by simp
  | (n, v) :: r, C, h => by
    simp [WellTypedFields] at h
    intro e he
    rcases List.mem_cons.mp he with e' | he
    · rw [e']; exact ⟨deser_ser hS v _ h.1.1, h.1.2⟩
    · exact deser_ser_fields hS r C h.2 e he
end

end S2T.Serial
