import S2T.Lemmas.PySheets
import S2T.Model.C02SheetsXlsx
/-!
XLSX `_format_sheet_as_text`: source-independent facts for `Props/C02_SheetsSrc.lean` — the column-width loop
(`widen`), its relation to the hand model's `S2T.Rtf.colWidth`, padded rows, `str.join`.  Core Lean only.
Namespace `S2T.Py.Sheets.XlsxSpec`.
-/
set_option linter.unusedSimpArgs false
namespace S2T.Py.Sheets.XlsxSpec
open S2T.Py S2T.Py.Sheets S2T.Tables

/-! ## monad plumbing -/

/-- `bind_congr` that may use what the first computation returned -/
theorem bind_congr_ok {α β} {m : M α} {f g : α → M β} (h : ∀ a, m = Except.ok a → f a = g a) : m >>= f = m >>= g := by
  cases hm : m with
  | error e => rfl
  | ok a => exact h a hm

/-- a loop whose body first runs the effects `g x`, then updates the state purely — as long as the state satisfies an
    invariant `P` that the steps preserve -/
theorem forIn_mapM_fold_inv {α β σ} (P : σ → Prop) (g : α → M β) (step : σ → β → σ) (xs : List α)
    (f : α → σ → M (ForInStep σ))
    (hf : ∀ x ∈ xs, ∀ s, P s → f x s = g x >>= fun y => Except.ok (ForInStep.yield (step s y)))
    (hP : ∀ x ∈ xs, ∀ s y, P s → g x = Except.ok y → P (step s y)) (s : σ) (hs : P s) :
    forIn xs s f = xs.mapM g >>= fun ys => Except.ok (ys.foldl step s) := by
  induction xs generalizing s with
  | nil => rfl
  | cons x r ih =>
    simp only [List.forIn_cons, hf x (List.mem_cons_self ..) s hs, List.mapM_cons]
    cases hg : g x with
    | error e => rfl
    | ok y =>
      have hs' := hP x (List.mem_cons_self ..) s y hs hg
      simp only [M.ok_bind, bind_assoc, M.pure_def,
        ih (fun x' hx' => hf x' (List.mem_cons_of_mem _ hx')) (fun x' hx' => hP x' (List.mem_cons_of_mem _ hx')) _ hs']
      cases hr : List.mapM g r with
      | error e => rfl
      | ok ys => rfl

theorem mapM_length {α β} (g : α → M β) (l : List α) (ys : List β) (h : l.mapM g = Except.ok ys) : ys.length = l.length := by
  induction l generalizing ys with
  | nil => simp at h; cases h; rfl
  | cons a r ih =>
    rw [List.mapM_cons] at h
    cases ha : g a with
    | error e => rw [ha] at h; cases h
    | ok b =>
      rw [ha] at h
      cases hr : List.mapM g r with
      | error e => rw [hr] at h; cases h
      | ok bs =>
        rw [hr] at h
        cases h
        simp [ih bs hr]

/-- `mapM` of a computation followed by a pure map -/
theorem mapM_then_map {α β γ} (g : α → M β) (h : β → γ) (l : List α) :
    l.mapM (fun x => g x >>= fun y => Except.ok (h y)) = l.mapM g >>= fun ys => Except.ok (ys.map h) := by
  induction l with
  | nil => rfl
  | cons a r ih =>
    simp only [List.mapM_cons, ih, bind_assoc, M.pure_def]
    cases g a with
    | error e => rfl
    | ok b =>
      simp only [M.ok_bind]
      cases List.mapM g r with
      | error e => rfl
      | ok bs => rfl

/-- `mapM` over the index range is `mapM` over the list -/
theorem mapM_range_eq {α β} (l : List α) (F : α → M β) (G : Nat → M β) (k : Nat)
    (h : ∀ i (hi : i < l.length), G (k + i) = F l[i]) : (List.range' k l.length).mapM G = l.mapM F := by
  induction l generalizing k with
  | nil => rfl
  | cons a r ih =>
    simp only [List.length_cons, List.range'_succ, List.mapM_cons]
    have h0 := h 0 (by simp)
    simp only [Nat.add_zero, List.getElem_cons_zero] at h0
    rw [h0, ih (k + 1) (fun i hi => by
      have := h (i + 1) (by simp; omega)
      simpa [Nat.add_assoc, Nat.add_comm 1 i] using this)]

theorem map_enumFrom_zipIdx {α β} (F : Int × α → β) (k : Nat) (l : List α) :
    (enumFrom k l).map F = (l.zipIdx k).map (fun vi => F ((vi.2 : Int), vi.1)) := by
  induction l generalizing k with
  | nil => rfl
  | cons a r ih => simp [enumFrom, List.zipIdx_cons, ih]

theorem map_enumerate_zipIdx {α β} (F : Int × α → β) (l : List α) :
    (enumerate l).map F = l.zipIdx.map (fun vi => F ((vi.2 : Int), vi.1)) := map_enumFrom_zipIdx F 0 l

/-- lengths survive a row-wise `mapM` -/
theorem mapM_mapM_lengths {α β} (g : α → M β) (rows : List (List α)) (disp : List (List β))
    (h : rows.mapM (·.mapM g) = Except.ok disp) : disp.map List.length = rows.map List.length := by
  induction rows generalizing disp with
  | nil => simp at h; cases h; rfl
  | cons r rs ih =>
    rw [List.mapM_cons] at h
    cases hr : r.mapM g with
    | error e => rw [hr] at h; cases h
    | ok d =>
      rw [hr] at h
      cases hrs : rs.mapM (·.mapM g) with
      | error e => rw [hrs] at h; cases h
      | ok ds =>
        rw [hrs] at h
        cases h
        simp [mapM_length g r d hr, ih ds hrs]

/-! ## column widths -/

/-- one pass of `for i, val in enumerate(formatted_row): if len(val) > col_widths[i]: col_widths[i] = len(val)` -/
def widen : List Int → List Py.Str → List Int
  | w :: ws, v :: vs => max w (len v) :: widen ws vs
  | ws, [] => ws
  | [], _ :: _ => []

theorem widen_length (ws : List Int) (vs : List Py.Str) : (widen ws vs).length = ws.length := by
  induction ws generalizing vs with
  | nil => cases vs <;> rfl
  | cons w ws ih => cases vs <;> simp [widen, ih]

theorem widen_getElem? (ws : List Int) (vs : List Py.Str) (i : Nat) :
    (widen ws vs)[i]? = (ws[i]?).map (fun w => match vs[i]? with | some v => max w (len v) | none => w) := by
  induction ws generalizing vs i with
  | nil => cases vs <;> simp [widen]
  | cons w ws ih =>
    cases vs with
    | nil => simp [widen]
    | cons v vs =>
      cases i with
      | zero => simp [widen]
      | succ i => simp [widen, ih]

/-- the width loop for ANY body that agrees with the model's step at the indices of the row -/
theorem forIn_widen (fr : List Py.Str) (f : Int × Py.Str → List Int → M (ForInStep (List Int)))
    (hf : ∀ (i : Nat) (v : Py.Str) (cw : List Int) (hi : i < cw.length), f ((i : Int), v) cw =
      Except.ok (ForInStep.yield (if len v > cw[i] then cw.set i (len v) else cw)))
    (cw : List Int) (h : fr.length ≤ cw.length) :
    forIn (enumerate fr) cw f = Except.ok (widen cw fr) := by
  have key : ∀ (fr : List Py.Str) (k : Nat) (pre ws : List Int), pre.length = k → fr.length ≤ ws.length →
      forIn (enumFrom k fr) (pre ++ ws) f = Except.ok (pre ++ widen ws fr) := by
    intro fr
    induction fr with
    | nil => intro k pre ws _ _; cases ws <;> rfl
    | cons v vs ih =>
      intro k pre ws hk hlen
      cases ws with
      | nil => simp at hlen
      | cons w ws =>
        have hi : k < (pre ++ w :: ws).length := by simp; omega
        have hget : (pre ++ w :: ws)[k] = w := by
          rw [List.getElem_append_right (by omega)]; simp [hk]
        simp only [enumFrom, List.forIn_cons, hf k v _ hi, hget, M.ok_bind]
        have hset : (pre ++ w :: ws).set k (len v) = pre ++ len v :: ws := by
          rw [List.set_append_right _ _ (by omega)]; simp [hk]
        have hstep : (if len v > w then (pre ++ w :: ws).set k (len v) else pre ++ w :: ws) = (pre ++ [max w (len v)]) ++ ws := by
          split
          · rw [hset]; simp; omega
          · simp; omega
        rw [hstep, ih (k + 1) (pre ++ [max w (len v)]) ws (by simp [hk]) (by simpa using hlen)]
        simp [widen]
  simpa [enumerate] using key fr 0 [] cw rfl h

/-- the widths after all rows, column by column, are the hand model's `colWidth` -/
theorem foldl_widen_getElem? (frs : List (List Py.Str)) (cw : List Int) (i : Nat) :
    (frs.foldl widen cw)[i]? =
      (cw[i]?).map (fun w => frs.foldl (fun m r => match r[i]? with | some v => max m (len v) | none => m) w) := by
  induction frs generalizing cw with
  | nil => simp
  | cons r rs ih =>
    rw [List.foldl_cons, ih, widen_getElem?]
    cases cw[i]? <;> simp

theorem foldl_max_cast (frs : List (List Py.Str)) (i : Nat) (m : Nat) :
    frs.foldl (fun (m : Int) r => match r[i]? with | some v => max m (len v) | none => m) (m : Int)
      = ((frs.foldl (fun m r => match r[i]? with | some v => max m v.length | none => m) m : Nat) : Int) := by
  induction frs generalizing m with
  | nil => rfl
  | cons r rs ih =>
    simp only [List.foldl_cons]
    cases r[i]? with
    | none => exact ih m
    | some v =>
      have : max (m : Int) (len v) = ((max m v.length : Nat) : Int) := by simp [len]; omega
      simp only [this]
      exact ih _

theorem foldl_widen_length (frs : List (List Py.Str)) (cw : List Int) : (frs.foldl widen cw).length = cw.length := by
  induction frs generalizing cw with
  | nil => rfl
  | cons r rs ih => rw [List.foldl_cons, ih, widen_length]

/-- `col_widths[i]` at the end is `colWidth` of the formatted rows -/
theorem widths_getElem (frs : List (List Py.Str)) (n i : Nat) (hi : i < n) :
    (frs.foldl widen (List.replicate n (0 : Int)))[i]? = some ((S2T.Rtf.colWidth frs i : Nat) : Int) := by
  rw [foldl_widen_getElem?, List.getElem?_replicate]
  simp only [hi, if_true, Option.map_some]
  have := foldl_max_cast frs i 0
  simp only [Int.natCast_zero] at this
  rw [this]
  rfl

end S2T.Py.Sheets.XlsxSpec
