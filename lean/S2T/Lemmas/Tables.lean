import S2T.Spec.Tables
/-! Helper lemmas for C13: fold equations / induction for `Blk`, `iter` / `findall` on built
    elements, the generic "paragraphs of a rendered block" and "tables of a rendered block" facts. -/
namespace S2T.Tables
open S2T.HtmlSkip (Str)
set_option linter.unusedSectionVars false

section fold
variable {α β : Type} (fp : α → β) (ft : Nat → Rows α → List (List (List β)) → β)

theorem foldCell_eq (c : List (Blk α)) : foldCell fp ft c = c.map (Blk.fold fp ft) := by
  induction c with
  | nil => simp [foldCell]
  | cons b bs ih => simp [foldCell, ih]

theorem foldRow_eq (r : List (List (Blk α))) : foldRow fp ft r = r.map (fun c => c.map (Blk.fold fp ft)) := by
  induction r with
  | nil => simp [foldRow]
  | cons c cs ih => simp [foldRow, ih, foldCell_eq]

theorem foldRows_eq (rows : Rows α) :
    foldRows fp ft rows = rows.map (fun r => r.map (fun c => c.map (Blk.fold fp ft))) := by
  induction rows with
  | nil => simp [foldRows]
  | cons r rs ih => simp [foldRows, ih, foldRow_eq]

theorem Blk.fold_para (a : α) : Blk.fold fp ft (.para a) = fp a := by simp [Blk.fold]

theorem Blk.fold_tbl (h : Nat) (rows : Rows α) :
    Blk.fold fp ft (.tbl h rows) = ft h rows (rows.map (fun r => r.map (fun c => c.map (Blk.fold fp ft)))) := by
  simp [Blk.fold, foldRows_eq]

end fold

section ind
variable {α : Type} {P : Blk α → Prop} (hp : ∀ a, P (.para a))
  (ht : ∀ h rows, (∀ row ∈ rows, ∀ cell ∈ row, ∀ b ∈ cell, P b) → P (.tbl h rows))
include hp ht

mutual
theorem Blk.ind : (b : Blk α) → P b
  | .para a => hp a
  | .tbl h rows => ht h rows (indRows rows)
theorem indRows : (rows : Rows α) → ∀ row ∈ rows, ∀ cell ∈ row, ∀ b ∈ cell, P b
  | [] => fun _ h => by cases h
  | r :: rs => fun row hrow => by
    rcases List.mem_cons.mp hrow with h | h
    · rw [h]; exact indRow r
    · exact indRows rs row h
theorem indRow : (r : List (List (Blk α))) → ∀ cell ∈ r, ∀ b ∈ cell, P b
  | [] => fun _ h => by cases h
  | c :: cs => fun cell hcell => by
    rcases List.mem_cons.mp hcell with h | h
    · rw [h]; exact indCell c
    · exact indRow cs cell h
theorem indCell : (c : List (Blk α)) → ∀ b ∈ c, P b
  | [] => fun _ h => by cases h
  | b :: bs => fun b' hb => by
    rcases List.mem_cons.mp hb with h | h
    · rw [h]; exact Blk.ind b
    · exact indCell bs b' h
end
end ind

/-! ## lists -/

theorem flatMap_congr' {α β : Type} {l : List α} {f g : α → List β} (h : ∀ a ∈ l, f a = g a) :
    l.flatMap f = l.flatMap g := by
  induction l with
  | nil => rfl
  | cons a r ih =>
    simp only [List.flatMap_cons]
    rw [h a (by simp), ih (fun b hb => h b (by simp [hb]))]

theorem flatMap_nil' {α β : Type} {l : List α} {f : α → List β} (h : ∀ a ∈ l, f a = []) : l.flatMap f = [] :=
  List.flatMap_eq_nil_iff.mpr h

/-! ## `iter` / `findall` -/

@[simp] theorem descSelf_mk (t a x ch tl) : descSelf (.mk t a x ch tl) = .mk t a x ch tl :: descL ch := by
  simp [descSelf]
@[simp] theorem descL_nil : descL [] = [] := by simp [descL]
@[simp] theorem descL_cons (c r) : descL (c :: r) = descSelf c ++ descL r := by simp [descL]

theorem descL_eq (l : List Node) : descL l = l.flatMap descSelf := by
  induction l with
  | nil => simp
  | cons c r ih => simp [ih]

theorem iter_mk (tag t a x ch tl) :
    iter tag (.mk t a x ch tl) = (if t == tag then [(.mk t a x ch tl : Node)] else []) ++ ch.flatMap (iter tag) := by
  unfold iter
  simp only [descSelf_mk, descL_eq, List.filter_cons, Node.tag, List.filter_flatMap]
  split <;> simp

theorem iter_elem (tag t kids) :
    iter tag (elem t kids) = (if t == tag then [elem t kids] else []) ++ kids.flatMap (iter tag) := by
  unfold elem; exact iter_mk ..

/-- no element of the subtree carries one of `tags` -/
def noTags (tags : List Str) (n : Node) : Bool := (descSelf n).all (fun m => !tags.contains m.tag)

theorem iter_of_noTags {tags : List Str} {n : Node} {tag : Str}
    (h : noTags tags n = true) (ht : tags.contains tag = true) : iter tag n = [] := by
  unfold iter
  rw [List.filter_eq_nil_iff]
  intro m hm hmt
  have h1 := List.all_eq_true.mp h m hm
  have : m.tag = tag := by simpa using hmt
  rw [this, ht] at h1
  simp at h1

theorem noTags_tag {tags : List Str} {n : Node} (h : noTags tags n = true) : tags.contains n.tag = false := by
  have : n ∈ descSelf n := by cases n; simp
  have h1 := List.all_eq_true.mp h n this
  simpa using h1

theorem findall_elem (tag t kids) : findall tag (elem t kids) = kids.filter (fun m => m.tag == tag) := by
  simp [findall, elem, Node.kids]

theorem find_elem (tag t kids) : find tag (elem t kids) = kids.find? (fun m => m.tag == tag) := by
  simp [find, elem, Node.kids]

@[simp] theorem mk_tag (t a x ch tl) : Node.tag (.mk t a x ch tl) = t := rfl
@[simp] theorem mk_text (t a x ch tl) : Node.text (.mk t a x ch tl) = x := rfl
@[simp] theorem mk_kids (t a x ch tl) : Node.kids (.mk t a x ch tl) = ch := rfl
@[simp] theorem mk_tail (t a x ch tl) : Node.tail (.mk t a x ch tl) = tl := rfl
@[simp] theorem mk_attrs (t a x ch tl) : Node.attrs (.mk t a x ch tl) = a := rfl
@[simp] theorem elem_text (t kids) : (elem t kids).text = [] := rfl
@[simp] theorem elem_tag (t kids) : (elem t kids).tag = t := by simp [elem, Node.tag]
@[simp] theorem elem_kids (t kids) : (elem t kids).kids = kids := by simp [elem, Node.kids]

/-! ## the generic rendering -/

def XT.S (X : XT) : List Str := [X.tbl, X.tr, X.tc, X.p]

/-- the vocabulary is usable: structural tags pairwise distinct, wrappers and boilerplate
    children outside the structural tags -/
def XT.ok (X : XT) : Bool :=
  X.tbl != X.tr && X.tbl != X.tc && X.tbl != X.p && X.tr != X.tc && X.tr != X.p && X.tc != X.p
  && (match X.wrapHdr with | some w => !X.S.contains w | none => true)
  && (match X.wrapBody with | some w => !X.S.contains w | none => true)
  && (X.tblPre ++ X.trPre ++ X.tcPre).all (noTags X.S)

/-- `pn a` is a paragraph element without structural elements inside -/
def paraOk (X : XT) (n : Node) : Bool :=
  n.tag == X.p && (descL n.kids).all (fun m => !X.S.contains m.tag)

theorem paraList_para {α : Type} (a : α) : Blk.paraList (.para a) = [a] := by simp [Blk.paraList, Blk.fold_para]

theorem paraList_tbl {α : Type} (h : Nat) (rows : Rows α) :
    Blk.paraList (.tbl h rows) = rows.flatMap (fun row => row.flatMap (fun cell => cellParas cell)) := by
  simp only [Blk.paraList, Blk.fold_tbl, flat3, List.flatMap_map, cellParas, List.flatMap_id]
  rfl

theorem tables_para {α : Type} (ct : List α → Str) (a : α) : Blk.tables ct (.para a) = [] := by
  simp [Blk.tables, Blk.fold_para]

theorem tables_tbl {α : Type} (ct : List α → Str) (h : Nat) (rows : Rows α) :
    Blk.tables ct (.tbl h rows) = gridOf ct rows ::
      rows.flatMap (fun row => row.flatMap (fun cell => cell.flatMap (Blk.tables ct))) := by
  simp only [Blk.tables, Blk.fold_tbl, flat3, List.flatMap_map, List.flatMap_id]
  rfl

theorem proper_tbl {α : Type} (h : Nat) (rows : Rows α) :
    Blk.proper (.tbl h rows) = (!rows.isEmpty && rows.all (fun row => !row.isEmpty)
      && rows.all (fun row => row.all (fun cell => cell.all Blk.proper))) := by
  simp only [Blk.proper, Blk.fold_tbl, List.all_map, Function.comp_def, id]

theorem S_p (X : XT) : X.S.contains X.p = true := by simp [XT.S]
theorem S_tbl (X : XT) : X.S.contains X.tbl = true := by simp [XT.S]

section generic
variable {α : Type} (X : XT) (pn : α → Node) (hX : X.ok = true) (hpn : ∀ a, paraOk X (pn a) = true)
include hX hpn

theorem ok_parts : X.tbl ≠ X.tr ∧ X.tbl ≠ X.tc ∧ X.tbl ≠ X.p ∧ X.tr ≠ X.tc ∧ X.tr ≠ X.p ∧ X.tc ≠ X.p
    ∧ (∀ w, X.wrapHdr = some w → X.S.contains w = false) ∧ (∀ w, X.wrapBody = some w → X.S.contains w = false)
    ∧ (∀ n ∈ X.tblPre, noTags X.S n = true) ∧ (∀ n ∈ X.trPre, noTags X.S n = true) ∧ (∀ n ∈ X.tcPre, noTags X.S n = true) := by
  have h := hX
  simp only [XT.ok, Bool.and_eq_true, bne_iff_ne, ne_eq, List.all_append, List.all_eq_true] at h
  obtain ⟨⟨⟨⟨⟨⟨⟨⟨h1, h2⟩, h3⟩, h4⟩, h5⟩, h6⟩, h7⟩, h8⟩, ⟨h9, h10⟩, h11⟩ := h
  refine ⟨h1, h2, h3, h4, h5, h6, ?_, ?_, h9, h10, h11⟩
  · intro w hw; rw [hw] at h7; simpa using h7
  · intro w hw; rw [hw] at h8; simpa using h8

theorem iter_para (a : α) {tag : Str} (ht : X.S.contains tag = true) :
    iter tag (pn a) = if tag = X.p then [pn a] else [] := by
  have h := hpn a
  cases hn : pn a with
  | mk t att x ch tl =>
    rw [hn] at h
    simp only [paraOk, Bool.and_eq_true, beq_iff_eq, List.all_eq_true] at h
    obtain ⟨h1, h2⟩ := h
    have h1 : t = X.p := h1
    have h2 : ∀ m ∈ descL ch, (!X.S.contains m.tag) = true := h2
    rw [iter_mk]
    have hk : ch.flatMap (iter tag) = [] := by
      apply flatMap_nil'
      intro c hc
      unfold iter
      rw [List.filter_eq_nil_iff]
      intro m hm hmt
      have hm' : m ∈ descL ch := by rw [descL_eq]; exact List.mem_flatMap.mpr ⟨c, hc, hm⟩
      have h3 := h2 m hm'
      have : m.tag = tag := by simpa using hmt
      rw [this, ht] at h3
      simp at h3
    rw [hk, h1]
    by_cases hp : tag = X.p
    · simp [hp]
    · have : (X.p == tag) = false := by simp; exact fun h => hp h.symm
      simp [this, hp]

theorem flatMap_iter_pre {tag : Str} (ht : X.S.contains tag = true) {l : List Node}
    (hl : ∀ n ∈ l, noTags X.S n = true) : l.flatMap (iter tag) = [] :=
  flatMap_nil' (fun n hn => iter_of_noTags (hl n hn) ht)

theorem flatMap_iter_wrap {tag : Str} (w : Option Str) (hw : ∀ t, w = some t → t ≠ tag) (l : List Node) :
    (wrap w l).flatMap (iter tag) = l.flatMap (iter tag) := by
  cases w with
  | none => rfl
  | some t =>
    unfold wrap
    by_cases hl : l.isEmpty
    · simp only [hl, if_true]; cases l <;> simp_all
    · have : (t == tag) = false := by simp; exact hw t rfl
      simp [hl, iter_elem, this]

theorem iter_tblNode {tag : Str} (ht : X.S.contains tag = true) (h : Nat) (rows : List Node) :
    iter tag (tblNode X h rows) =
      (if X.tbl == tag then [tblNode X h rows] else []) ++ rows.flatMap (iter tag) := by
  obtain ⟨_, _, _, _, _, _, hw1, hw2, hp1, _, _⟩ := ok_parts X pn hX hpn
  have ne1 : ∀ t, X.wrapHdr = some t → t ≠ tag := fun t h1 h2 => by
    have := hw1 t h1; rw [h2, ht] at this; cases this
  have ne2 : ∀ t, X.wrapBody = some t → t ≠ tag := fun t h1 h2 => by
    have := hw2 t h1; rw [h2, ht] at this; cases this
  unfold tblNode
  rw [iter_elem]
  congr 1
  rw [List.flatMap_append, List.flatMap_append, flatMap_iter_pre X pn hX hpn ht hp1,
    flatMap_iter_wrap X pn hX hpn _ ne1, flatMap_iter_wrap X pn hX hpn _ ne2, List.nil_append,
    ← List.flatMap_append, List.take_append_drop]

theorem iter_trNode {tag : Str} (ht : X.S.contains tag = true) (hne : X.tr ≠ tag) (cells : List Node) :
    iter tag (trNode X cells) = cells.flatMap (iter tag) := by
  obtain ⟨_, _, _, _, _, _, _, _, _, hp2, _⟩ := ok_parts X pn hX hpn
  unfold trNode
  rw [iter_elem, List.flatMap_append, flatMap_iter_pre X pn hX hpn ht hp2]
  have : (X.tr == tag) = false := by simp [hne]
  simp [this]

theorem iter_tcNode {tag : Str} (ht : X.S.contains tag = true) (hne : X.tc ≠ tag) (content : List Node) :
    iter tag (tcNode X content) = content.flatMap (iter tag) := by
  obtain ⟨_, _, _, _, _, _, _, _, _, _, hp3⟩ := ok_parts X pn hX hpn
  unfold tcNode
  rw [iter_elem, List.flatMap_append, flatMap_iter_pre X pn hX hpn ht hp3]
  have : (X.tc == tag) = false := by simp [hne]
  simp [this]

theorem render_para (a : α) : Blk.render X pn (.para a) = pn a := by simp [Blk.render, Blk.fold_para]

theorem render_tbl (h : Nat) (rows : Rows α) :
    Blk.render X pn (.tbl h rows) =
      tblNode X h (rows.map (fun row => trNode X (row.map (fun cell => tcNode X (cell.map (Blk.render X pn)))))) := by
  simp only [Blk.render, Blk.fold_tbl, List.map_map, Function.comp_def]

/-- descendants with tag `p` or `tbl` of a rendered table -/
theorem iter_render_tbl {tag : Str} (ht : X.S.contains tag = true) (h1 : X.tr ≠ tag) (h2 : X.tc ≠ tag)
    (h : Nat) (rows : Rows α) :
    iter tag (Blk.render X pn (.tbl h rows)) =
      (if X.tbl == tag then [Blk.render X pn (.tbl h rows)] else []) ++
        rows.flatMap (fun row => row.flatMap (fun cell => cell.flatMap (fun b => iter tag (Blk.render X pn b)))) := by
  rw [render_tbl X pn hX hpn, iter_tblNode X pn hX hpn ht]
  congr 1
  rw [List.flatMap_map]
  apply flatMap_congr'
  intro row _
  rw [iter_trNode X pn hX hpn ht h1, List.flatMap_map]
  apply flatMap_congr'
  intro cell _
  rw [iter_tcNode X pn hX hpn ht h2, List.flatMap_map]


/-- L1: the paragraph elements inside a rendered block are its paragraphs, in order -/
theorem iter_p_render (b : Blk α) : iter X.p (Blk.render X pn b) = (Blk.paraList b).map pn := by
  obtain ⟨_, _, h3, _, h5, h6, _⟩ := ok_parts X pn hX hpn
  induction b using Blk.ind with
  | hp a => rw [render_para X pn hX hpn, iter_para X pn hX hpn a (S_p X), paraList_para]; simp
  | ht h rows ih =>
    rw [iter_render_tbl X pn hX hpn (S_p X) h5 h6, paraList_tbl]
    have : (X.tbl == X.p) = false := by simp [h3]
    simp only [this, Bool.false_eq_true, if_false, List.nil_append, List.map_flatMap, cellParas]
    apply flatMap_congr'; intro row hrow
    apply flatMap_congr'; intro cell hcell
    apply flatMap_congr'; intro b hb
    exact ih row hrow cell hcell b hb

theorem iter_p_cell (cell : List (Blk α)) :
    iter X.p (tcNode X (cell.map (Blk.render X pn))) = (cellParas cell).map pn := by
  obtain ⟨_, _, _, _, _, h6, _⟩ := ok_parts X pn hX hpn
  rw [iter_tcNode X pn hX hpn (S_p X) h6, List.flatMap_map, cellParas, List.map_flatMap]
  apply flatMap_congr'; intro b _
  exact iter_p_render X pn hX hpn b

/-- L2: the table elements inside a rendered block, read by a per-table function `g` that is
    right on every (proper) rendered table, are the block's tables in document order -/
theorem iter_tbl_render (ct : List α → Str) (g : Node → Option Grid) (Q : Blk α → Bool)
    (hQ : ∀ h rows, Q (.tbl h rows) = true → ∀ row ∈ rows, ∀ cell ∈ row, ∀ b ∈ cell, Q b = true)
    (hg : ∀ h rows, Q (.tbl h rows) = true → g (Blk.render X pn (.tbl h rows)) = some (gridOf ct rows))
    (b : Blk α) (hb : Q b = true) :
    (iter X.tbl (Blk.render X pn b)).filterMap g = Blk.tables ct b := by
  obtain ⟨h1, h2, h3, _⟩ := ok_parts X pn hX hpn
  induction b using Blk.ind with
  | hp a =>
    rw [render_para X pn hX hpn, iter_para X pn hX hpn a (S_tbl X), tables_para]
    simp [h3]
  | ht h rows ih =>
    rw [iter_render_tbl X pn hX hpn (S_tbl X) (Ne.symm h1) (Ne.symm h2), tables_tbl]
    simp only [beq_self_eq_true, if_true, List.singleton_append, List.filterMap_cons, hg h rows hb,
      List.filterMap_flatMap]
    congr 1
    apply flatMap_congr'; intro row hrow
    apply flatMap_congr'; intro cell hcell
    apply flatMap_congr'; intro b' hb'
    exact ih row hrow cell hcell b' hb' (hQ h rows hb row hrow cell hcell b' hb')


theorem render_tag (b : Blk α) : (Blk.render X pn b).tag = match b with | .para _ => X.p | .tbl _ _ => X.tbl := by
  cases b with
  | para a =>
    rw [render_para X pn hX hpn]
    have h := hpn a
    simp only [paraOk, Bool.and_eq_true, beq_iff_eq] at h
    exact h.1
  | tbl h rows => rw [render_tbl X pn hX hpn]; simp [tblNode]

theorem filter_pre {l : List Node} (hl : ∀ n ∈ l, noTags X.S n = true) {tag : Str} (ht : X.S.contains tag = true) :
    l.filter (fun m => m.tag == tag) = [] := by
  rw [List.filter_eq_nil_iff]
  intro n hn h
  have h1 := noTags_tag (hl n hn)
  have : n.tag = tag := by simpa using h
  rw [this, ht] at h1
  cases h1

theorem filter_all {l : List Node} {tag : Str} (hl : ∀ n ∈ l, n.tag = tag) :
    l.filter (fun m => m.tag == tag) = l := by
  rw [List.filter_eq_self]
  intro n hn
  simp [hl n hn]

/-- direct `tr` children of a table written without row wrappers -/
theorem findall_tr_nowrap (h1 : X.wrapHdr = none) (h2 : X.wrapBody = none) (h : Nat) (rows : List Node)
    (hr : ∀ r ∈ rows, r.tag = X.tr) : findall X.tr (tblNode X h rows) = rows := by
  obtain ⟨_, _, _, _, _, _, _, _, hp1, _, _⟩ := ok_parts X pn hX hpn
  unfold tblNode
  rw [findall_elem, h1, h2]
  simp only [wrap, List.append_assoc, List.take_append_drop, List.filter_append]
  rw [filter_pre X pn hX hpn hp1 (by simp [XT.S]), filter_all X pn hX hpn hr]
  rfl

theorem findall_tc (cells : List Node) (hc : ∀ c ∈ cells, c.tag = X.tc) :
    findall X.tc (trNode X cells) = cells := by
  obtain ⟨_, _, _, _, _, _, _, _, _, hp2, _⟩ := ok_parts X pn hX hpn
  unfold trNode
  rw [findall_elem, List.filter_append, filter_pre X pn hX hpn hp2 (by simp [XT.S]), filter_all X pn hX hpn hc]
  rfl

end generic

end S2T.Tables
