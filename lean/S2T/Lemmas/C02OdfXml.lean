import S2T.Lemmas.C02OdfTok
import S2T.Lemmas.C02OdfNum
/-! The ODF text walkers on rendered documents. -/
namespace S2T.OdfDoc
open S2T.Tok S2T.OdfText

variable {p : Char → Bool} {F : Fmt}

/-- what one child element contributes (its tail excluded) -/
def childOut (p : Char → Bool) (F : Fmt) (k : Xml) : Str :=
  if F.skip.contains k.tag then []
  else if k.tag = F.space then spaceRun p F k.attrs
  else if k.tag = F.tab then ['\t']
  else if k.tag = F.lb then ['\n']
  else elemText p F k

theorem kidsText_cons (k : Xml) (ks : List Xml) :
    kidsText p F (k :: ks) = childOut p F k ++ k.tail ++ kidsText p F ks := by
  simp only [kidsText, childOut]

theorem elemText_node (t : Str) (a : List (Str × Str)) (x l : Str) (ks : List Xml) :
    elemText p F (.node t a x l ks) = x ++ kidsText p F ks := by
  simp only [elemText]

def mixText (p : Char → Bool) (F : Fmt) : List Mix → Str
  | [] => []
  | .chars s :: r => s ++ mixText p F r
  | .el x :: r => childOut p F x ++ mixText p F r

theorem childOut_withTail (x : Xml) (t : Str) : childOut p F (x.withTail t) = childOut p F x := by
  cases x with
  | node tg a tx tl k => simp only [childOut, Xml.withTail, Xml.tag, Xml.attrs, elemText_node]

theorem tail_withTail (x : Xml) (t : Str) : (x.withTail t).tail = t := by
  cases x; rfl

theorem pack_text (ms : List Mix) : (pack ms).1 ++ kidsText p F (pack ms).2 = mixText p F ms := by
  induction ms with
  | nil => simp [pack, kidsText, mixText]
  | cons m r ih =>
    cases m with
    | chars s => simp only [pack, mixText, List.append_assoc, ih]
    | el x =>
      simp only [pack, mixText, kidsText_cons, childOut_withTail, tail_withTail, List.nil_append, List.append_assoc, ih]

theorem elemText_elem (tag : Str) (attrs : List (Str × Str)) (ms : List Mix) :
    elemText p F (elem tag attrs ms) = mixText p F ms := by
  simp only [elem, elemText_node, pack_text]

/-- the skip set holds the annotation tag and nothing but annotation / note tags -/
structure SkipOk (sk : List Str) : Prop where
  annot : tAnnot ∈ sk
  only : ∀ t, t ∈ sk → t = tAnnot ∨ t = tNote

mutual
/-- no footnote or endnote inside (needed where `text:note` is not in the skip set) -/
def noNoteInl : Inl → Bool
  | .span ks => noNoteInls ks
  | .link _ ks => noNoteInls ks
  | .note _ _ _ => false
  | .annot _ ks => noNoteInls ks
  | _ => true
def noNoteInls : List Inl → Bool
  | [] => true
  | i :: r => noNoteInl i && noNoteInls r
end

theorem attr_self (k v : Str) (r : List (Str × Str)) : attr k ((k, v) :: r) = some v := by simp [attr]

theorem spaceRun_sp (hp : NoDigitWs p) (sk : List Str) (n : Nat) :
    spaceRun p (stdFmt sk) [(aC, natToDec n)] = List.replicate n ' ' := by
  have h1 : (stdFmt sk).attrC = aC := rfl
  unfold spaceRun
  rw [h1, attr_self]
  simp [pyInt_natToDec hp]

theorem not_skip_of {sk : List Str} {t : Str} (h : SkipOk sk) (h1 : t ≠ tAnnot) (h2 : t ≠ tNote) :
    t ∉ sk := by
  intro hc
  rcases h.only t hc with h' | h'
  · exact h1 h'
  · exact h2 h'

section inl
variable {sk : List Str} (hp : NoDigitWs p) (h : SkipOk sk)
include hp h

theorem childOut_plain {t : Str} (a : List (Str × Str)) (ms : List Mix)
    (h1 : t ≠ tAnnot) (h2 : t ≠ tNote) (h3 : t ≠ tS) (h4 : t ≠ tTab) (h5 : t ≠ tLb) :
    childOut p (stdFmt sk) (elem t a ms) = mixText p (stdFmt sk) ms := by
  have hs := not_skip_of h h1 h2
  have htag : (elem t a ms).tag = t := rfl
  simp only [childOut, htag, stdFmt, List.contains_iff_mem, hs, h3, h4, h5, if_false]
  exact elemText_elem _ _ _

theorem childOut_leaf {t : Str} (a : List (Str × Str))
    (h1 : t ≠ tAnnot) (h2 : t ≠ tNote) (h3 : t ≠ tS) (h4 : t ≠ tTab) (h5 : t ≠ tLb) :
    childOut p (stdFmt sk) (leaf t a) = [] := by
  have hs := not_skip_of h h1 h2
  simp [childOut, leaf, Xml.tag, stdFmt, hs, h3, h4, h5, elemText_node, kidsText]

mutual
theorem mix_inl (i : Inl) (hn : tNote ∈ sk ∨ noNoteInl i = true) :
    mixText p (stdFmt sk) [rInl i] = visible i := by
  cases i with
  | text s => simp [rInl, mixText, visible]
  | sp n =>
    have hs := not_skip_of h (t := tS) (by decide) (by decide)
    simp only [rInl, mixText, visible, List.append_nil, childOut, leaf, Xml.tag, Xml.attrs]
    have := spaceRun_sp (p := p) hp sk n
    simp only [stdFmt] at this ⊢
    simp [hs, this]
  | tab =>
    have hs := not_skip_of h (t := tTab) (by decide) (by decide)
    have : tTab ≠ tS := by decide
    simp [rInl, mixText, visible, childOut, leaf, Xml.tag, stdFmt, hs, this]
  | br =>
    have hs := not_skip_of h (t := tLb) (by decide) (by decide)
    have h1 : tLb ≠ tS := by decide
    have h2 : tLb ≠ tTab := by decide
    simp [rInl, mixText, visible, childOut, leaf, Xml.tag, stdFmt, hs, h1, h2]
  | span ks =>
    simp only [rInl, mixText, visible, List.append_nil]
    rw [childOut_plain hp h _ _ (by decide) (by decide) (by decide) (by decide) (by decide)]
    exact mix_inls ks (by
      rcases hn with hn | hn
      · exact Or.inl hn
      · exact Or.inr (by simpa [noNoteInl] using hn))
  | link hr ks =>
    simp only [rInl, mixText, visible, List.append_nil]
    rw [childOut_plain hp h _ _ (by decide) (by decide) (by decide) (by decide) (by decide)]
    exact mix_inls ks (by
      rcases hn with hn | hn
      · exact Or.inl hn
      · exact Or.inr (by simpa [noNoteInl] using hn))
  | note e cit ks =>
    rcases hn with hn | hn
    · simp [rInl, mixText, visible, childOut, Xml.tag, stdFmt, hn]
    · simp [noNoteInl] at hn
  | annot c ks =>
    simp [rInl, mixText, visible, childOut, Xml.tag, stdFmt, h.annot]
  | bookmark n =>
    simp only [rInl, mixText, visible, List.append_nil]
    exact childOut_leaf hp h _ (by decide) (by decide) (by decide) (by decide) (by decide)
theorem mix_inls (ks : List Inl) (hn : tNote ∈ sk ∨ noNoteInls ks = true) :
    mixText p (stdFmt sk) (rInls ks) = visibleL ks := by
  cases ks with
  | nil => simp [rInls, mixText, visibleL]
  | cons i r =>
    have hi : tNote ∈ sk ∨ noNoteInl i = true := by
      rcases hn with hn | hn
      · exact Or.inl hn
      · simp [noNoteInls] at hn; exact Or.inr hn.1
    have hr : tNote ∈ sk ∨ noNoteInls r = true := by
      rcases hn with hn | hn
      · exact Or.inl hn
      · simp [noNoteInls] at hn; exact Or.inr hn.2
    have h1 := mix_inl i hi
    have h2 := mix_inls r hr
    have hsplit : ∀ (m : Mix) (ms : List Mix),
        mixText p (stdFmt sk) (m :: ms) = mixText p (stdFmt sk) [m] ++ mixText p (stdFmt sk) ms := by
      intro m ms; cases m <;> simp [mixText]
    rw [rInls, hsplit, h1, h2, visibleL]
end

/-- the text a rendered paragraph-level element yields is the visible text of its inline content -/
theorem elemText_para (tag : Str) (attrs : List (Str × Str)) (ks : List Inl)
    (hn : tNote ∈ sk ∨ noNoteInls ks = true) :
    elemText p (stdFmt sk) (elem tag attrs (rInls ks)) = visibleL ks := by
  rw [elemText_elem]; exact mix_inls hp h ks hn

end inl


/-! ## block level -/

mutual
/-- no block-level comment (ODT keeps comments inside paragraphs) -/
def noComment : Blk → Bool
  | .cont _ bs => noCommentL bs
  | .comment _ _ => false
  | _ => true
def noCommentL : List Blk → Bool
  | [] => true
  | b :: r => noComment b && noCommentL r
end

mutual
/-- no note in any paragraph and no tracked-changes store (drawings have neither) -/
def drawingOk : Blk → Bool
  | .para _ ks => noNoteInls ks
  | .heading _ ks => noNoteInls ks
  | .cont k bs => k != .tracked && drawingOkL bs
  | .comment _ _ => true
def drawingOkL : List Blk → Bool
  | [] => true
  | b :: r => drawingOk b && drawingOkL r
end

/-- what the ODT extractor module must hold for the theorems (all decidable; see `TablesOk` in Props) -/
structure OdtOk (T : Tables) : Prop where
  fmt : T.odt = stdFmt [tAnnot, tNote]
  pTag : T.odtP = tP
  hTag : T.odtH = tH
  tracked : T.odtTracked = tTracked
  nl : T.isWs '\n' = true
  noDigit : NoDigitWs T.isWs

theorem skipOk_odt : SkipOk [tAnnot, tNote] :=
  ⟨by simp, by intro t ht; simpa using ht⟩

theorem skipOk_odg : SkipOk [tAnnot] :=
  ⟨by simp, by intro t ht; simp at ht; exact Or.inl ht⟩

theorem odtWalk_node (T : Tables) (tag : Str) (a : List (Str × Str)) (x l : Str) (ks : List Xml) :
    odtWalk T (.node tag a x l ks) =
      if tag = T.odtTracked then []
      else if tag = T.odtP ∨ tag = T.odtH then nonBlank T (elemText T.isWs T.odt (.node tag a x l ks))
      else odtWalkL T ks := by
  simp only [odtWalk]

theorem kindTag_ne (k : Kind) : kindTag k ≠ tP ∧ kindTag k ≠ tH ∧ kindTag k ≠ tAnnot ∧ (kindTag k = tTracked ↔ k = .tracked) := by
  cases k <;> decide

mutual
theorem odtWalk_rBlk {T : Tables} (h : OdtOk T) (b : Blk) (hb : noComment b = true) :
    odtWalk T (rBlk b) = (bodyTexts b).flatMap (nonBlank T) := by
  cases b with
  | para st ks =>
    have := elemText_para (p := T.isWs) h.noDigit skipOk_odt tP [(q nsText "style-name", st)] ks (Or.inl (by simp))
    simp only [rBlk, elem] at this ⊢
    rw [odtWalk_node, h.pTag, h.tracked, h.fmt]
    have hne : tP ≠ tTracked := by decide
    simp [hne, this, bodyTexts]
  | heading lv ks =>
    have := elemText_para (p := T.isWs) h.noDigit skipOk_odt tH [(q nsText "outline-level", natToDec lv)] ks (Or.inl (by simp))
    simp only [rBlk, elem] at this ⊢
    rw [odtWalk_node, h.hTag, h.tracked, h.fmt]
    have hne : tH ≠ tTracked := by decide
    simp [hne, this, bodyTexts]
  | cont k bs =>
    obtain ⟨h1, h2, _, h4⟩ := kindTag_ne k
    simp only [rBlk]
    rw [odtWalk_node, h.pTag, h.hTag, h.tracked]
    simp only [bodyTexts]
    by_cases hk : k = .tracked
    · have ht : kindTag k = tTracked := h4.mpr hk
      rw [if_pos ht, if_pos hk]; rfl
    · have : kindTag k ≠ tTracked := fun hc => hk (h4.mp hc)
      simp only [this, h1, h2, or_self, if_false, hk]
      exact odtWalkL_rBlks h bs (by simpa [noComment] using hb)
  | comment c ks => simp [noComment] at hb
theorem odtWalkL_rBlks {T : Tables} (h : OdtOk T) (bs : List Blk) (hb : noCommentL bs = true) :
    odtWalkL T (rBlks bs) = (bodyTextsL bs).flatMap (nonBlank T) := by
  cases bs with
  | nil => simp [rBlks, odtWalkL, bodyTextsL]
  | cons b r =>
    simp only [noCommentL, Bool.and_eq_true] at hb
    simp only [rBlks, odtWalkL, bodyTextsL, List.flatMap_append]
    rw [odtWalk_rBlk h b hb.1, odtWalkL_rBlks h r hb.2]
end

/-- the exact ODT full text: the non-blank paragraph texts of the body, one per line -/
theorem odtFullText_render {T : Tables} (h : OdtOk T) (d : List Blk) (hd : noCommentL d = true) :
    odtFullText T (renderOdt d) = joinNl ((bodyTextsL d).flatMap (nonBlank T)) := by
  unfold odtFullText renderOdt
  rw [odtWalk_node, h.pTag, h.hTag, h.tracked]
  have h1 : q nsOffice "text" ≠ tP := by decide
  have h2 : q nsOffice "text" ≠ tH := by decide
  have h3 : q nsOffice "text" ≠ tTracked := by decide
  simp only [h1, h2, h3, or_self, if_false]
  rw [odtWalkL_rBlks h d hd]

theorem tokens_flatMap_nonBlank (T : Tables) (l : List Str) :
    (l.flatMap (nonBlank T)).flatMap (tokens T.isWs) = l.flatMap (tokens T.isWs) := by
  induction l with
  | nil => rfl
  | cons a r ih =>
    simp only [List.flatMap_cons, List.flatMap_append, ih]
    by_cases hb : blank T.isWs a = true
    · simp [nonBlank, hb, blank_tokens hb]
    · simp [nonBlank, hb]


/-! ## ODG -/

structure OdgOk (T : Tables) : Prop where
  fmt : T.odg = stdFmt [tAnnot]
  pTag : T.odgP = tP
  hTag : T.odgH = tH
  nl : T.isWs '\n' = true
  noDigit : NoDigitWs T.isWs

theorem textBlocksL_cons (T : Tables) (k : Xml) (ks : List Xml) :
    textBlocksL T (k :: ks) =
      (if T.odg.skip.contains k.tag then []
       else if k.tag = T.odgH ∨ k.tag = T.odgP then [k]
       else textBlocks T k) ++ textBlocksL T ks := by
  simp only [textBlocksL]

theorem textBlocks_node (T : Tables) (tag : Str) (a : List (Str × Str)) (x l : Str) (ks : List Xml) :
    textBlocks T (.node tag a x l ks) = textBlocksL T ks := by
  simp only [textBlocks]

def stripLine (T : Tables) (s : Str) : List Str := if strip T.isWs s = [] then [] else [strip T.isWs s]

mutual
theorem odg_rBlk {T : Tables} (h : OdgOk T) (b : Blk) (hb : drawingOk b = true) :
    (textBlocksL T [rBlk b]).flatMap (odgLine T) = (bodyTexts b).flatMap (stripLine T) := by
  have hA : tAnnot ∈ (stdFmt [tAnnot]).skip := by simp [stdFmt]
  cases b with
  | para st ks =>
    have := elemText_para (p := T.isWs) h.noDigit skipOk_odg tP [(q nsText "style-name", st)] ks
      (Or.inr (by simpa [drawingOk] using hb))
    have h1 : tP ∉ (stdFmt [tAnnot]).skip := by simp only [stdFmt]; decide
    rw [textBlocksL_cons, h.fmt, h.pTag, h.hTag]
    have htag : (rBlk (Blk.para st ks)).tag = tP := rfl
    simp only [htag, List.contains_iff_mem, h1, if_false, or_true, if_true, textBlocksL, List.append_nil,
      List.flatMap_cons, List.flatMap_nil, bodyTexts, odgLine, stripLine]
    rw [h.fmt]
    simp only [rBlk] at this ⊢
    simp only [this]
  | heading lv ks =>
    have := elemText_para (p := T.isWs) h.noDigit skipOk_odg tH [(q nsText "outline-level", natToDec lv)] ks
      (Or.inr (by simpa [drawingOk] using hb))
    have h1 : tH ∉ (stdFmt [tAnnot]).skip := by simp only [stdFmt]; decide
    rw [textBlocksL_cons, h.fmt, h.pTag, h.hTag]
    have htag : (rBlk (Blk.heading lv ks)).tag = tH := rfl
    simp only [htag, List.contains_iff_mem, h1, if_false, true_or, if_true, textBlocksL, List.append_nil,
      List.flatMap_cons, List.flatMap_nil, bodyTexts, odgLine, stripLine]
    rw [h.fmt]
    simp only [rBlk] at this ⊢
    simp only [this]
  | cont k bs =>
    obtain ⟨h1, h2, h3, h4⟩ := kindTag_ne k
    simp only [drawingOk, Bool.and_eq_true, bne_iff_ne, ne_eq] at hb
    have hs : kindTag k ∉ (stdFmt [tAnnot]).skip := by simpa [stdFmt] using h3
    rw [textBlocksL_cons, h.fmt, h.pTag, h.hTag]
    have htag : (rBlk (Blk.cont k bs)).tag = kindTag k := rfl
    rw [htag, if_neg (by simpa [List.contains_iff_mem] using hs), if_neg (by simp [h1, h2])]
    simp only [textBlocksL, List.append_nil, rBlk, textBlocks_node, bodyTexts, hb.1, if_false]
    exact odg_rBlks h bs hb.2
  | comment c ks =>
    rw [textBlocksL_cons, h.fmt]
    have htag : (rBlk (Blk.comment c ks)).tag = tAnnot := rfl
    simp [htag, hA, textBlocksL, bodyTexts]
theorem odg_rBlks {T : Tables} (h : OdgOk T) (bs : List Blk) (hb : drawingOkL bs = true) :
    (textBlocksL T (rBlks bs)).flatMap (odgLine T) = (bodyTextsL bs).flatMap (stripLine T) := by
  cases bs with
  | nil => simp [rBlks, textBlocksL, bodyTextsL]
  | cons b r =>
    simp only [drawingOkL, Bool.and_eq_true] at hb
    have h1 := odg_rBlk h b hb.1
    have h2 := odg_rBlks h r hb.2
    rw [textBlocksL_cons] at h1
    simp only [textBlocksL, List.append_nil] at h1
    simp only [rBlks, bodyTextsL, List.flatMap_append]
    rw [textBlocksL_cons, List.flatMap_append, h1, h2]
end

theorem tokens_flatMap_stripLine (T : Tables) (l : List Str) :
    (l.flatMap (stripLine T)).flatMap (tokens T.isWs) = l.flatMap (tokens T.isWs) := by
  induction l with
  | nil => rfl
  | cons a r ih =>
    simp only [List.flatMap_cons, List.flatMap_append, ih]
    by_cases hb : strip T.isWs a = []
    · have : tokens T.isWs a = [] := by rw [← tokens_strip, hb]; rfl
      simp [stripLine, hb, this]
    · simp [stripLine, hb, tokens_strip]

/-- exact ODG text -/
theorem odgFullText_render {T : Tables} (h : OdgOk T) (d : List Blk) (hd : drawingOkL d = true) :
    odgFullText T (renderOdg d)
      = strip T.isWs (strip T.isWs (strip T.isWs (joinNl ((bodyTextsL d).flatMap (stripLine T))))) := by
  unfold odgFullText odgExtract renderOdg textBlocksRoot
  have h1 : q nsOffice "drawing" ∉ (stdFmt [tAnnot]).skip := by simp only [stdFmt]; decide
  have h2 : ¬ (q nsOffice "drawing" = tH ∨ q nsOffice "drawing" = tP) := by decide
  rw [textBlocksL_cons, h.fmt, h.pTag, h.hTag]
  have htag : (Xml.node (q nsOffice "drawing") [] [] [] (rBlks d)).tag = q nsOffice "drawing" := rfl
  rw [htag, if_neg (by simpa [List.contains_iff_mem] using h1), if_neg h2]
  simp only [textBlocksL, List.append_nil]
  rw [textBlocks_node, odg_rBlks h d hd]

end S2T.OdfDoc
