import S2T.Lemmas.TablesRtfCell
/-! The backslash-anchored passes (`\uN` decoding, `\'hh`, special characters, control words) on a written cell. -/
namespace S2T.Tables.Rtf
open S2T.HtmlSkip (Str)
open S2T.Tables

/-! ## decimal numbers -/

theorem digitChar_isDigit : ∀ d, d < 10 → isDigit (digitChar d) = true := by decide
theorem digitChar_val : ∀ d, d < 10 → (digitChar d).toNat - 48 = d := by decide

theorem toDecAux_digits : ∀ fuel n, ∀ c ∈ toDecAux fuel n, isDigit c = true
  | 0, _, c, h => by simp [toDecAux] at h
  | fuel + 1, n, c, h => by
    simp only [toDecAux] at h
    split at h
    · rename_i hn
      simp only [List.mem_singleton] at h; subst h; exact digitChar_isDigit n hn
    · rcases List.mem_append.mp h with h | h
      · exact toDecAux_digits fuel _ c h
      · simp only [List.mem_singleton] at h; subst h
        exact digitChar_isDigit _ (Nat.mod_lt _ (by decide))

theorem toDec_digits (n : Nat) : ∀ c ∈ toDec n, isDigit c = true := toDecAux_digits _ _

theorem toDec_ne (n : Nat) : toDec n ≠ [] := by
  unfold toDec
  simp only [toDecAux]
  split <;> simp

theorem decVal_append (xs : Str) (c : Char) : decVal (xs ++ [c]) = decVal xs * 10 + (c.toNat - 48) := by
  simp [decVal, List.foldl_append]

theorem decVal_toDecAux : ∀ fuel n, n < fuel → decVal (toDecAux fuel n) = n
  | 0, _, h => by omega
  | fuel + 1, n, h => by
    simp only [toDecAux]
    split
    · rename_i hn
      simp only [decVal, List.foldl_cons, List.foldl_nil, Nat.zero_mul, Nat.zero_add]
      exact digitChar_val n hn
    · rename_i hn
      rw [decVal_append, decVal_toDecAux fuel (n / 10) (by omega), digitChar_val _ (Nat.mod_lt _ (by decide))]
      omega

theorem decVal_toDec (n : Nat) : decVal (toDec n) = n := decVal_toDecAux _ _ (by omega)

theorem takeWhile_all_stop (p : Char → Bool) (s : Str) (c : Char) (t : Str) (hs : ∀ x ∈ s, p x = true) (hc : p c = false) :
    (s ++ c :: t).takeWhile p = s := by
  rw [takeWhile_append_stop p s c t hc]
  induction s with
  | nil => rfl
  | cons x s ih =>
    rw [List.takeWhile_cons_of_pos (hs x List.mem_cons_self), ih (fun y hy => hs y (List.mem_cons_of_mem _ hy))]

theorem toDec_head_ne (n : Nat) (x : Char) (hx : isDigit x = false) : (toDec n).head? ≠ some x := by
  intro h
  cases hd : toDec n with
  | nil => exact toDec_ne n hd
  | cons c r =>
    rw [hd] at h
    simp only [List.head?_cons, Option.some.injEq] at h
    have := toDec_digits n c (by rw [hd]; exact List.mem_cons_self)
    rw [h, hx] at this; exact absurd this (by decide)

/-! ## `\uN?` -/

theorem uniAt_pos (u : Nat) (hu : u < 32768) (X : Str) :
    uniAt ('\\' :: 'u' :: (toDec u ++ '?' :: X)) = some (u, (escUnit u).length) := by
  have hneg : ((toDec u ++ '?' :: X).head? == some '-') = false := by
    cases hd : toDec u with
    | nil => exact absurd hd (toDec_ne u)
    | cons c r =>
      have := toDec_head_ne u '-' (by decide)
      rw [hd] at this
      simp only [List.cons_append, List.head?_cons]
      simpa using this
  have htw : (toDec u ++ '?' :: X).takeWhile isDigit = toDec u :=
    takeWhile_all_stop isDigit _ '?' X (toDec_digits u) (by decide)
  simp only [uniAt, hneg, Bool.false_eq_true, if_false, htw, List.drop_left, List.head?_cons, beq_self_eq_true, if_true,
    decVal_toDec]
  rw [if_neg (by simpa using toDec_ne u)]
  simp only [escUnit, if_pos hu, List.length_cons, List.length_append, List.length_nil]
  congr 2
  · omega
  · omega

theorem uniAt_neg (u : Nat) (hu : 32768 ≤ u) (hu2 : u < 65536) (X : Str) :
    uniAt ('\\' :: 'u' :: '-' :: (toDec (65536 - u) ++ '?' :: X)) = some (u, (escUnit u).length) := by
  have htw : (toDec (65536 - u) ++ '?' :: X).takeWhile isDigit = toDec (65536 - u) :=
    takeWhile_all_stop isDigit _ '?' X (toDec_digits _) (by decide)
  have hneg : (('-' :: (toDec (65536 - u) ++ '?' :: X)).head? == some '-') = true := by simp
  simp only [uniAt, hneg, if_true, List.drop_succ_cons, List.drop_zero, htw, List.drop_left, List.head?_cons,
    beq_self_eq_true, decVal_toDec]
  rw [if_neg (by simpa using toDec_ne (65536 - u))]
  simp only [escUnit, if_neg (show ¬ u < 32768 by omega), List.length_cons, List.length_append, List.length_nil]
  congr 2
  · omega
  · omega

theorem char_not_surrogate (c : Char) : isHighSur c.toNat = false ∧ isLowSur c.toNat = false := by
  have h := c.valid
  simp only [UInt32.isValidChar, Nat.isValidChar] at h
  have : c.toNat = c.val.toNat := rfl
  simp only [isHighSur, isLowSur, Bool.and_eq_false_iff, decide_eq_false_iff_not, this]
  omega

theorem uniM_escUnit (c : Char) (h1 : 128 ≤ c.toNat) (h2 : c.toNat < 65536) (X : Str) :
    uniM (escUnit c.toNat ++ X) = some ([c], (escUnit c.toNat).length) := by
  have hu : uniAt (escUnit c.toNat ++ X) = some (c.toNat, (escUnit c.toNat).length) := by
    by_cases hlt : c.toNat < 32768
    · have := uniAt_pos c.toNat hlt X
      simpa [escUnit, hlt] using this
    · have := uniAt_neg c.toNat (by omega) h2 X
      simpa [escUnit, hlt] using this
  obtain ⟨hh, hl⟩ := char_not_surrogate c
  simp only [uniM, hu, hh, hl, Bool.false_eq_true, if_false, Char.ofNat_toNat]

theorem escUnit_ne (u : Nat) : escUnit u ≠ [] := by
  unfold escUnit; split <;> simp

theorem plainChar_parts {c : Char} (h : plainChar c = true) :
    c ≠ '\\' ∧ c ≠ '{' ∧ c ≠ '}' ∧ c.toNat < 65536 := by
  simp only [plainChar, Bool.and_eq_true, bne_iff_ne, ne_eq, decide_eq_true_eq] at h
  exact ⟨h.1.1.1.1, h.1.1.1.2, h.1.1.2, h.2⟩

/-- characters that the writer escapes only when they are above 127 -/
def textChar (c : Char) : Bool := c != '\\' && c != '{' && c != '}' && c.toNat < 65536

theorem textChar_of_plain {c : Char} (h : plainChar c = true) : textChar c = true := by
  obtain ⟨h1, h2, h3, h4⟩ := plainChar_parts h
  simp [textChar, h1, h2, h3, h4]

theorem uniEsc_esc (p X : Str) (hp : p.all textChar = true) : uniEsc (esc p ++ X) = p ++ uniEsc X := by
  induction p with
  | nil => rfl
  | cons c p ih =>
    simp only [List.all_cons, Bool.and_eq_true] at hp
    have hc := hp.1
    simp only [textChar, Bool.and_eq_true, bne_iff_ne, ne_eq, decide_eq_true_eq] at hc
    obtain ⟨⟨⟨h1, h2⟩, h3⟩, h4⟩ := hc
    have hesc : esc (c :: p) ++ X = escChar c ++ (esc p ++ X) := by simp [esc]
    rw [hesc]
    by_cases h128 : c.toNat < 128
    · have : escChar c = [c] := by simp [escChar, h1, h2, h3, h128]
      rw [this]
      show subst uniM 0 (c :: (esc p ++ X)) = _
      rw [show (c :: (esc p ++ X)) = [c] ++ (esc p ++ X) from rfl,
        subst_noBs uniM anch_uniM [c] _ (by intro x hx; simp at hx; subst hx; exact h1)]
      simp only [List.cons_append, List.nil_append, List.cons.injEq, true_and]
      exact ih hp.2
    · have : escChar c = escUnit c.toNat := by simp [escChar, h1, h2, h3, h128, h4]
      rw [this]
      show subst uniM 0 _ = _
      rw [subst_head uniM _ _ [c] (escUnit_ne _) (uniM_escUnit c (by omega) h4 _)]
      simp only [List.cons_append, List.nil_append, List.cons.injEq, true_and]
      exact ih hp.2

/-! ## control words that a pass leaves alone -/

theorem subst_cw (m) (hm : Anch m) (w X : Str) (hw : NoBs w) (h : m ('\\' :: (w ++ X)) = none) :
    subst m 0 ('\\' :: (w ++ X)) = '\\' :: (w ++ subst m 0 X) := by
  rw [subst_bs_none m _ h, subst_noBs m hm w X hw]

def names4 : List Str := ["trowd".toList, "cellx".toList, "pard".toList, "intbl".toList]

/-- the pass does not touch the four control words of a written row, whatever follows them -/
def InertM (m : Str → Option (Str × Nat)) : Prop := ∀ nm ∈ names4, ∀ u, m ('\\' :: (nm ++ u)) = none

theorem noBs_of_all (s : Str) (h : s.all (fun c => c != '\\') = true) : NoBs s := by
  intro c hc
  simp only [List.all_eq_true, bne_iff_ne, ne_eq] at h
  exact h c hc

theorem noBs_digits (k : Nat) : NoBs (toDec k) := by
  intro c hc h; subst h
  exact absurd (toDec_digits k _ hc) (by decide)

theorem noBs_append {a b : Str} (ha : NoBs a) (hb : NoBs b) : NoBs (a ++ b) := by
  intro c hc; rcases List.mem_append.mp hc with h | h
  · exact ha c h
  · exact hb c h

theorem pass_cellxs (m) (hm : Anch m) (hi : InertM m) : ∀ (n i : Nat) (X : Str),
    subst m 0 (cellxs i n ++ X) = cellxs i n ++ subst m 0 X
  | 0, _, _ => rfl
  | n + 1, i, X => by
    have h1 : cellxs i (n + 1) ++ X = '\\' :: (("cellx".toList ++ toDec (1500 * (i + 1))) ++ (cellxs (i + 1) n ++ X)) := by
      simp [cellxs]
    rw [h1, subst_cw m hm _ _ (noBs_append (noBs_of_all _ (by decide)) (noBs_digits _))
      (by rw [List.append_assoc]; exact hi _ (by simp [names4]) _), pass_cellxs m hm hi n (i + 1) X]
    simp [cellxs]

theorem pass_trowd (m) (hm : Anch m) (hi : InertM m) (X : Str) :
    subst m 0 ("\\trowd".toList ++ X) = "\\trowd".toList ++ subst m 0 X := by
  have := subst_cw m hm "trowd".toList X (noBs_of_all _ (by decide)) (hi _ (by simp [names4]) X)
  simpa using this

theorem pass_cellStart (m) (hm : Anch m) (hi : InertM m) (X : Str) :
    subst m 0 (sCellStart ++ X) = sCellStart ++ subst m 0 X := by
  have h1 : sCellStart ++ X = '\\' :: ("pard".toList ++ ('\\' :: ("intbl ".toList ++ X))) := by rfl
  have e1 := hi "pard".toList (by simp [names4]) ('\\' :: ("intbl ".toList ++ X))
  have e2 := hi "intbl".toList (by simp [names4]) (' ' :: X)
  rw [h1, subst_cw m hm _ _ (noBs_of_all _ (by decide)) e1,
    subst_cw m hm "intbl ".toList X (noBs_of_all _ (by decide)) (by simpa using e2)]
  rfl

/-- the part of a row in front of the text of its first cell -/
def lead0 (n : Nat) : Str := "\\trowd".toList ++ cellxs 0 n ++ [' ']

theorem pass_lead0 (m) (hm : Anch m) (hi : InertM m) (n : Nat) (X : Str) :
    subst m 0 (lead0 n ++ sCellStart ++ X) = lead0 n ++ sCellStart ++ subst m 0 X := by
  simp only [lead0, List.append_assoc]
  rw [pass_trowd m hm hi, pass_cellxs m hm hi, subst_noBs m hm [' '] _ (noBs_of_all _ (by decide)), pass_cellStart m hm hi]

theorem pass_lead1 (m) (hm : Anch m) (hi : InertM m) (X : Str) :
    subst m 0 ([' '] ++ sCellStart ++ X) = [' '] ++ sCellStart ++ subst m 0 X := by
  simp only [List.append_assoc]
  rw [subst_noBs m hm [' '] _ (noBs_of_all _ (by decide)), pass_cellStart m hm hi]

theorem uniAt_none (c : Char) (r : Str) (h : c ≠ 'u') : uniAt ('\\' :: c :: r) = none := by
  unfold uniAt
  split
  · rename_i heq; simp only [List.cons.injEq, true_and] at heq; exact absurd heq.1 h
  · rfl

theorem uniM_none (c : Char) (r : Str) (h : c ≠ 'u') : uniM ('\\' :: c :: r) = none := by
  simp [uniM, uniAt_none c r h]

theorem hexEscM_none (c : Char) (r : Str) (h : c ≠ '\'') : hexEscM ('\\' :: c :: r) = none := by
  unfold hexEscM
  split
  · rename_i heq; simp only [List.cons.injEq, true_and] at heq; exact absurd heq.1 h
  · rfl

theorem inert_uniM : InertM uniM := by
  intro nm hnm u
  simp only [names4, List.mem_cons, List.not_mem_nil, or_false] at hnm
  rcases hnm with rfl | rfl | rfl | rfl <;> exact uniM_none _ _ (by decide)

theorem inert_hexEscM : InertM hexEscM := by
  intro nm hnm u
  simp only [names4, List.mem_cons, List.not_mem_nil, or_false] at hnm
  rcases hnm with rfl | rfl | rfl | rfl <;> exact hexEscM_none _ _ (by decide)

/-- a control word none of whose characters ends a special-character match -/
theorem specialM_inert (kw ch nm u : Str)
    (hnm : ∀ c ∈ nm, isPySpace c = false ∧ c ≠ '\\' ∧ c ≠ '{' ∧ c ≠ '}')
    (hk : nm.isPrefixOf kw = false) : specialM kw ch ('\\' :: (nm ++ u)) = none := by
  simp only [specialM]
  by_cases hp : kw.isPrefixOf (nm ++ u) = true
  · rw [if_pos hp]
    have hpre : kw <+: nm ++ u := List.isPrefixOf_iff_prefix.mp hp
    have hlen : kw.length < nm.length := by
      rcases Nat.lt_or_ge kw.length nm.length with h | h
      · exact h
      · have := List.prefix_of_prefix_length_le (List.prefix_append nm u) hpre h
        rw [List.isPrefixOf_iff_prefix.mpr this] at hk; exact absurd hk (by decide)
    rw [List.drop_append_of_le_length (Nat.le_of_lt hlen)]
    obtain ⟨c, rest, hd⟩ : ∃ c rest, nm.drop kw.length = c :: rest := by
      cases hd : nm.drop kw.length with
      | nil => have := List.drop_eq_nil_iff.mp hd; omega
      | cons c rest => exact ⟨c, rest, rfl⟩
    have hc := hnm c (List.mem_of_mem_drop (by rw [hd]; exact List.mem_cons_self))
    rw [hd]
    have htw : (c :: (rest ++ u)).takeWhile isPySpace = [] :=
      takeWhile_head_false _ _ _ hc.1
    simp only [List.cons_append, htw, List.length_nil, Nat.lt_irrefl, if_false]
    simp [hc.2.1, hc.2.2.1, hc.2.2.2]
  · simp [hp]

/-- `kw` is not one of the four control words of a written row and does not start with one -/
def inertKw (kw : Str) : Bool := names4.all (fun nm => !nm.isPrefixOf kw)

theorem inert_specialM (kw ch : Str) (hk : inertKw kw = true) : InertM (specialM kw ch) := by
  intro nm hnm u
  have hk' : nm.isPrefixOf kw = false := by
    simp only [inertKw, List.all_eq_true, Bool.not_eq_true'] at hk
    exact hk nm hnm
  apply specialM_inert kw ch nm u _ hk'
  simp only [names4, List.mem_cons, List.not_mem_nil, or_false] at hnm
  rcases hnm with rfl | rfl | rfl | rfl <;> decide

end S2T.Tables.Rtf
