import S2T.Spec.TablesRtf
/-! Helper lemmas for the RTF part of C13: `subst` (pattern.sub) on concatenations, the passes of
`_strip_rtf_simple` / `_extract_table_cells` on written cell text. -/
namespace S2T.Tables.Rtf
open S2T.HtmlSkip (Str)
open S2T.Tables

/-! ## `subst` -/

/-- `P` holds for every non-empty suffix -/
def AllSuffix (P : Str → Prop) : Str → Prop
  | [] => True
  | c :: r => P (c :: r) ∧ AllSuffix P r

theorem AllSuffix.mono {P Q : Str → Prop} (h : ∀ t, P t → Q t) : ∀ {s : Str}, AllSuffix P s → AllSuffix Q s
  | [], _ => trivial
  | _ :: _, ⟨h1, h2⟩ => ⟨h _ h1, AllSuffix.mono h h2⟩

theorem subst_nil (m) (k : Nat) : subst m k [] = [] := by cases k <;> rfl

theorem subst_skip (m) (a b : Str) (k : Nat) : subst m (a.length + k) (a ++ b) = subst m k b := by
  induction a with
  | nil => simp
  | cons c a ih =>
    have : (c :: a).length + k = (a.length + k) + 1 := by simp; omega
    rw [this]; simp only [List.cons_append, subst]; exact ih

theorem subst_skip0 (m) (a b : Str) : subst m a.length (a ++ b) = subst m 0 b := by
  simpa using subst_skip m a b 0

/-- no match anywhere inside `a` (whatever follows): `a` passes unchanged -/
theorem subst_inert (m) (a b : Str) (h : AllSuffix (fun t => m (t ++ b) = none) a) :
    subst m 0 (a ++ b) = a ++ subst m 0 b := by
  induction a with
  | nil => rfl
  | cons c a ih =>
    obtain ⟨h1, h2⟩ := h
    simp only [List.cons_append] at h1 ⊢
    simp only [subst, h1]
    rw [ih h2]

/-- a match of exactly `w` at the head -/
theorem subst_head (m) (w b rep : Str) (hw : w ≠ []) (h : m (w ++ b) = some (rep, w.length)) :
    subst m 0 (w ++ b) = rep ++ subst m 0 b := by
  cases w with
  | nil => exact absurd rfl hw
  | cons c w =>
    simp only [List.cons_append] at h ⊢
    simp only [subst, h, List.length_cons, Nat.add_sub_cancel]
    rw [subst_skip0]

/-- every match is one character replaced by itself, or there is none: identity -/
theorem subst_id (m) (s : Str)
    (h : AllSuffix (fun t => m t = none ∨ ∃ c r, t = c :: r ∧ m t = some ([c], 1)) s) : subst m 0 s = s := by
  induction s with
  | nil => rfl
  | cons c s ih =>
    obtain ⟨h1, h2⟩ := h
    rcases h1 with h1 | ⟨c', r', he, h1⟩
    · simp only [subst, h1]; rw [ih h2]
    · cases he
      simp only [subst, h1, Nat.sub_self]
      rw [ih h2]; rfl

/-- a matcher that only ever matches at a backslash -/
def Anch (m : Str → Option (Str × Nat)) : Prop := ∀ c r, c ≠ '\\' → m (c :: r) = none

def NoBs (s : Str) : Prop := ∀ c ∈ s, c ≠ '\\'

theorem subst_noBs (m) (hm : Anch m) (a b : Str) (ha : NoBs a) : subst m 0 (a ++ b) = a ++ subst m 0 b := by
  apply subst_inert
  induction a with
  | nil => trivial
  | cons c a ih =>
    refine ⟨?_, ih (fun x hx => ha x (List.mem_cons_of_mem _ hx))⟩
    simp only [List.cons_append]
    exact hm c _ (ha c (List.mem_cons_self))

theorem subst_noBs' (m) (hm : Anch m) (a : Str) (ha : NoBs a) : subst m 0 a = a := by
  have := subst_noBs m hm a [] ha
  simpa [subst_nil] using this

theorem subst_bs_none (m) (b : Str) (h : m ('\\' :: b) = none) : subst m 0 ('\\' :: b) = '\\' :: subst m 0 b := by
  simp only [subst, h]

theorem anch_uniM : Anch uniM := by
  intro c r hc
  unfold uniM uniAt
  split <;> simp_all

theorem anch_hexEscM : Anch hexEscM := by
  intro c r hc
  unfold hexEscM
  split <;> simp_all

theorem anch_specialM (kw ch : Str) : Anch (specialM kw ch) := by
  intro c r hc
  unfold specialM
  split <;> simp_all

theorem anch_ctlM : Anch ctlM := by
  intro c r hc
  unfold ctlM
  split <;> simp_all

end S2T.Tables.Rtf
