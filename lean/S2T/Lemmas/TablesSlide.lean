import S2T.Model.TablesSlide
import S2T.Lemmas.TablesXml
/-! C13, slide level: the stable sort by key, the position of a written frame, the PPTX / ODP
slide walkers on written slides. -/
namespace S2T.Tables.Slide
open S2T.HtmlSkip (Str)
open S2T.Tables
set_option linter.unusedSectionVars false

/-! ## orders -/

/-- `lt` is the `<` of a linear order (asymmetric, `≤` transitive, incomparable = equal) -/
structure LinOrd {κ : Type} (lt : κ → κ → Bool) : Prop where
  asymm : ∀ a b, lt a b = true → lt b a = false
  ntrans : ∀ a b c, lt b a = false → lt c b = false → lt c a = false
  conn : ∀ a b, lt a b = false → lt b a = false → a = b

theorem LinOrd.irrefl {κ : Type} {lt : κ → κ → Bool} (h : LinOrd lt) (a : κ) : lt a a = false := by
  cases hh : lt a a with
  | false => rfl
  | true => have := h.asymm a a hh; rw [hh] at this; cases this

theorem linOrd_int : LinOrd intLt := by
  refine ⟨?_, ?_, ?_⟩ <;> intros <;> simp_all [intLt] <;> omega

theorem linOrd_rat : LinOrd ratLt := by
  refine ⟨?_, ?_, ?_⟩
  · intro a b h
    simp only [ratLt, decide_eq_true_eq, decide_eq_false_iff_not] at *
    exact Rat.not_lt.mpr (Rat.le_of_lt h)
  · intro a b c h1 h2
    simp only [ratLt, decide_eq_false_iff_not, Rat.not_lt] at *
    exact Rat.le_trans h1 h2
  · intro a b h1 h2
    simp only [ratLt, decide_eq_false_iff_not, Rat.not_lt] at *
    exact Rat.le_antisymm h2 h1

/-- Python's tuple `<` over a linear order is a linear order -/
theorem LinOrd.lex {κ : Type} [DecidableEq κ] {lt : κ → κ → Bool} (h : LinOrd lt) : LinOrd (lexLt lt) := by
  have irr := h.irrefl
  refine ⟨?_, ?_, ?_⟩
  · rintro ⟨a1, a2⟩ ⟨b1, b2⟩ hab
    simp only [lexLt, Bool.or_eq_true, Bool.and_eq_true, beq_iff_eq, Bool.or_eq_false_iff, Bool.and_eq_false_iff] at *
    rcases hab with hab | ⟨rfl, hab⟩
    · refine ⟨h.asymm _ _ hab, ?_⟩
      by_cases e : b1 = a1
      · subst e; rw [irr] at hab; cases hab
      · exact Or.inl (by simpa using e)
    · exact ⟨irr _, Or.inr (h.asymm _ _ hab)⟩
  · rintro ⟨a1, a2⟩ ⟨b1, b2⟩ ⟨c1, c2⟩ h1 h2
    simp only [lexLt, Bool.or_eq_false_iff, Bool.and_eq_false_iff, beq_eq_false_iff_ne, ne_eq] at *
    obtain ⟨h1a, h1b⟩ := h1
    obtain ⟨h2a, h2b⟩ := h2
    refine ⟨h.ntrans _ _ _ h1a h2a, ?_⟩
    by_cases e : c1 = a1
    · subst e
      have e1 : b1 = c1 := h.conn _ _ h1a h2a
      subst e1
      simp only [not_true_eq_false, false_or] at h1b h2b
      exact Or.inr (h.ntrans _ _ _ h1b h2b)
    · exact Or.inl e
  · rintro ⟨a1, a2⟩ ⟨b1, b2⟩ h1 h2
    simp only [lexLt, Bool.or_eq_false_iff, Bool.and_eq_false_iff, beq_eq_false_iff_ne, ne_eq] at *
    have e1 : a1 = b1 := h.conn _ _ h1.1 h2.1
    subst e1
    simp only [not_true_eq_false, false_or] at h1 h2
    rw [h.conn _ _ h1.2 h2.2]

theorem linOrd_pos : LinOrd posLt := linOrd_int.lex

/-! ## the stable sort -/

section sort
variable {α κ : Type} (lt : κ → κ → Bool) (key : α → κ)

/-- `a` may stand in front of `b`: `key b < key a` is false -/
def Le (a b : α) : Prop := lt (key b) (key a) = false

theorem insBy_perm (x : α) (l : List α) : (insBy lt key x l).Perm (x :: l) := by
  induction l with
  | nil => exact List.Perm.refl _
  | cons y ys ih =>
    simp only [insBy]
    split
    · exact ((List.perm_cons y).mpr ih).trans (List.Perm.swap x y ys)
    · exact List.Perm.refl _

/-- nothing lost, nothing invented -/
theorem sortBy_perm (l : List α) : (sortBy lt key l).Perm l := by
  induction l with
  | nil => exact List.Perm.refl _
  | cons x r ih => exact (insBy_perm lt key x _).trans ((List.perm_cons x).mpr ih)

theorem mem_insBy {x a : α} {l : List α} : a ∈ insBy lt key x l ↔ a = x ∨ a ∈ l := by
  rw [(insBy_perm lt key x l).mem_iff]; simp

theorem insBy_sorted (h : LinOrd lt) (x : α) (l : List α) (hl : l.Pairwise (Le lt key)) :
    (insBy lt key x l).Pairwise (Le lt key) := by
  induction l with
  | nil => simp [insBy]
  | cons y ys ih =>
    rw [List.pairwise_cons] at hl
    simp only [insBy]
    split
    next hlt =>
      rw [List.pairwise_cons]
      refine ⟨?_, ih hl.2⟩
      intro a ha
      rcases (mem_insBy lt key).mp ha with rfl | ha
      · exact h.asymm _ _ hlt
      · exact hl.1 a ha
    next hlt =>
      have hxy : Le lt key x y := by simpa [Le] using hlt
      rw [List.pairwise_cons]
      refine ⟨?_, List.pairwise_cons.mpr hl⟩
      intro a ha
      rcases List.mem_cons.mp ha with rfl | ha
      · exact hxy
      · exact h.ntrans _ _ _ hxy (hl.1 a ha)

/-- the result is in key order -/
theorem sortBy_sorted (h : LinOrd lt) (l : List α) : (sortBy lt key l).Pairwise (Le lt key) := by
  induction l with
  | nil => simp [sortBy]
  | cons x r ih => exact insBy_sorted lt key h x _ ih

theorem insBy_of_le (x : α) (l : List α) (hx : ∀ a ∈ l, Le lt key x a) : insBy lt key x l = x :: l := by
  cases l with
  | nil => rfl
  | cons y ys => simp [insBy, show lt (key y) (key x) = false from hx y (by simp)]

/-- a list that already is in key order is left as it is -/
theorem sortBy_of_sorted (l : List α) (hl : l.Pairwise (Le lt key)) : sortBy lt key l = l := by
  induction l with
  | nil => rfl
  | cons x r ih =>
    rw [List.pairwise_cons] at hl
    simp only [sortBy, ih hl.2]
    exact insBy_of_le lt key x r hl.1

theorem filter_insBy_neg (p : α → Bool) (x : α) (l : List α) (hx : p x = false) :
    (insBy lt key x l).filter p = l.filter p := by
  induction l with
  | nil => simp [insBy, hx]
  | cons y ys ih =>
    simp only [insBy]
    split
    · simp only [List.filter_cons, ih]
    · simp [List.filter_cons, hx]

theorem filter_insBy_pos (h : LinOrd lt) (p : α → Bool) (x : α) (l : List α) (hx : p x = true)
    (hl : l.Pairwise (Le lt key)) :
    (insBy lt key x l).filter p = insBy lt key x (l.filter p) := by
  induction l with
  | nil => simp [insBy, hx]
  | cons y ys ih =>
    rw [List.pairwise_cons] at hl
    simp only [insBy]
    split
    next hlt =>
      simp only [List.filter_cons, ih hl.2]
      split
      · simp [insBy, hlt]
      · rfl
    next hlt =>
      have hxy : Le lt key x y := by simpa [Le] using hlt
      rw [List.filter_cons, hx]
      simp only [if_true]
      symm
      apply insBy_of_le
      intro a ha
      have ha' := (List.mem_filter.mp ha).1
      rcases List.mem_cons.mp ha' with rfl | ha'
      · exact hxy
      · exact h.ntrans _ _ _ hxy (hl.1 a ha')

/-- stability, strongest form: sorting and then selecting = selecting and then sorting, for any selection -/
theorem sortBy_filter (h : LinOrd lt) (p : α → Bool) (l : List α) :
    (sortBy lt key l).filter p = sortBy lt key (l.filter p) := by
  induction l with
  | nil => rfl
  | cons x r ih =>
    simp only [sortBy, List.filter_cons]
    cases hx : p x with
    | false => simp only [Bool.false_eq_true, if_false]; rw [filter_insBy_neg lt key p x _ hx, ih]
    | true => simp only [if_true, sortBy]; rw [filter_insBy_pos lt key h p x _ hx (sortBy_sorted lt key h r), ih]

/-- stability as usually said: elements that compare equal (pairwise not `<`) keep their document order -/
theorem sortBy_stable (h : LinOrd lt) (p : α → Bool) (l : List α)
    (hp : ∀ a b, p a = true → p b = true → lt (key a) (key b) = false) :
    (sortBy lt key l).filter p = l.filter p := by
  rw [sortBy_filter lt key h]
  apply sortBy_of_sorted
  have : ∀ a ∈ l.filter p, p a = true := fun a ha => (List.mem_filter.mp ha).2
  generalize l.filter p = m at this
  induction m with
  | nil => exact List.Pairwise.nil
  | cons a r ih =>
    rw [List.pairwise_cons]
    exact ⟨fun b hb => hp b a (this b (by simp [hb])) (this a (by simp)), ih (fun b hb => this b (by simp [hb]))⟩

theorem insBy_congr (key' : α → κ) (x : α) (l : List α) (hx : key x = key' x) (hl : ∀ a ∈ l, key a = key' a) :
    insBy lt key x l = insBy lt key' x l := by
  induction l with
  | nil => rfl
  | cons y ys ih =>
    simp only [insBy, hx, hl y (by simp), ih (fun a ha => hl a (by simp [ha]))]

theorem sortBy_congr (key' : α → κ) (l : List α) (hl : ∀ a ∈ l, key a = key' a) :
    sortBy lt key l = sortBy lt key' l := by
  induction l with
  | nil => rfl
  | cons x r ih =>
    have ihr := ih (fun a ha => hl a (by simp [ha]))
    simp only [sortBy, ihr]
    apply insBy_congr
    · exact hl x (by simp)
    · intro a ha
      exact hl a (List.mem_cons_of_mem _ ((sortBy_perm lt key' r).mem_iff.mp ha))

theorem insBy_map {β : Type} (f : β → α) (x : β) (l : List β) :
    insBy lt key (f x) (l.map f) = (insBy lt (key ∘ f) x l).map f := by
  induction l with
  | nil => rfl
  | cons y ys ih =>
    simp only [List.map_cons, insBy, Function.comp, ih]
    split <;> rfl

/-- sorting the images = image of sorting by the composed key -/
theorem sortBy_map {β : Type} (f : β → α) (l : List β) :
    sortBy lt key (l.map f) = (sortBy lt (key ∘ f) l).map f := by
  induction l with
  | nil => rfl
  | cons x r ih => simp only [List.map_cons, sortBy, ih, insBy_map]

end sort


/-! ## decimal rendering of positions -/

theorem digitChar_props (d : Nat) (h : d < 10) :
    isAsciiDigit (digitChar d) = true ∧ (digitChar d).toNat - 48 = d ∧ isPySpace (digitChar d) = false
    ∧ digitChar d ≠ '-' ∧ digitChar d ≠ '+' := by
  have : d = 0 ∨ d = 1 ∨ d = 2 ∨ d = 3 ∨ d = 4 ∨ d = 5 ∨ d = 6 ∨ d = 7 ∨ d = 8 ∨ d = 9 := by omega
  rcases this with rfl | rfl | rfl | rfl | rfl | rfl | rfl | rfl | rfl | rfl <;> decide

theorem decNat_props (n : Nat) :
    (decNat n).all isAsciiDigit = true ∧ digitsVal (decNat n) = n ∧ decNat n ≠ [] := by
  induction n using Nat.strongRecOn with
  | _ n ih =>
    rw [decNat]
    split
    next h =>
      obtain ⟨a, b, _⟩ := digitChar_props n h
      simp [digitsVal, a, b]
    next h =>
      obtain ⟨a, b, _⟩ := digitChar_props (n % 10) (by omega)
      obtain ⟨i1, i2, i3⟩ := ih (n / 10) (by omega)
      refine ⟨by simp [List.all_append, i1, a], ?_, by simp⟩
      unfold digitsVal at i2 ⊢
      rw [List.foldl_append, i2]
      simp [b]
      omega

theorem digit_facts (c : Char) (h : isAsciiDigit c = true) : isPySpace c = false ∧ c ≠ '-' ∧ c ≠ '+' := by
  simp only [isAsciiDigit, Bool.and_eq_true, decide_eq_true_eq] at h
  have h1 : 48 ≤ c.toNat := h.1
  have h2 : c.toNat ≤ 57 := h.2
  refine ⟨?_, ?_, ?_⟩
  · simp only [isPySpace, S2T.HtmlSkip.Epub.isPySpace]
    simp
    omega
  · rintro rfl; simp at h1
  · rintro rfl; simp at h1

theorem lstrip_nospace (s : Str) (h : ∀ c ∈ s, isPySpace c = false) : lstrip s = s := by
  cases s with
  | nil => rfl
  | cons c r => simp [lstrip, h c (by simp)]

theorem pyStrip_nospace (s : Str) (h : ∀ c ∈ s, isPySpace c = false) : pyStrip s = s := by
  unfold pyStrip
  rw [lstrip_nospace s h, lstrip_nospace _ (by intro c hc; exact h c (List.mem_reverse.mp hc)), List.reverse_reverse]

/-- `int(str(i)) == i` -/
theorem pyInt_decInt (i : Int) : pyInt? (decInt i) = some i := by
  cases i with
  | ofNat n =>
    obtain ⟨d1, d2, d3⟩ := decNat_props n
    have hs : ∀ c ∈ decNat n, isPySpace c = false := fun c hc => (digit_facts c (List.all_eq_true.mp d1 c hc)).1
    unfold pyInt? decInt
    simp only [pyStrip_nospace _ hs]
    cases hd : decNat n with
    | nil => exact absurd hd d3
    | cons c r =>
      have hc : isAsciiDigit c = true := List.all_eq_true.mp d1 c (by simp [hd])
      obtain ⟨_, m1, m2⟩ := digit_facts c hc
      rw [hd] at d1 d2
      split
      next heq => simp at heq; exact absurd heq.1 m1
      next heq => simp at heq; exact absurd heq.1 m2
      next =>
        have : digitsVal (c :: r) = n := d2
        unfold digitsVal at this
        simp [d1, this]
  | negSucc n =>
    obtain ⟨d1, d2, d3⟩ := decNat_props (n + 1)
    have hs : ∀ c ∈ ('-' :: decNat (n + 1)), isPySpace c = false := by
      intro c hc
      rcases List.mem_cons.mp hc with rfl | hc
      · decide
      · exact (digit_facts c (List.all_eq_true.mp d1 c hc)).1
    unfold pyInt? decInt
    simp only [pyStrip_nospace _ hs]
    have e : (decNat (n + 1)).isEmpty = false := by cases h : decNat (n + 1) <;> simp_all
    unfold digitsVal at d2
    simp [d1, d2, e]
    omega

/-! ## tags inside a written frame -/

/-- every element of the subtree has a tag satisfying `P` -/
def allTags (P : Str → Bool) (n : Node) : Bool := (descSelf n).all (fun m => P m.tag)

theorem allTags_mk (P : Str → Bool) (t a x kids tl) :
    allTags P (.mk t a x kids tl) = (P t && kids.all (allTags P)) := by
  simp only [allTags, descSelf_mk, descL_eq, List.all_cons, List.all_flatMap, Node.tag]
  rfl

theorem allTags_elem (P : Str → Bool) (t kids) : allTags P (elem t kids) = (P t && kids.all (allTags P)) :=
  allTags_mk ..

theorem iter_of_allTags {P : Str → Bool} {n : Node} {tag : Str} (h : allTags P n = true) (ht : P tag = false) :
    iter tag n = [] := by
  unfold iter
  rw [List.filter_eq_nil_iff]
  intro m hm
  have := List.all_eq_true.mp h m hm
  intro e
  rw [beq_iff_eq] at e
  rw [e, ht] at this
  cases this

/-- every tag that occurs in `<a:graphic>` of a written table -/
def graphicVocab (T : PptxTags) : List Str :=
  [aGraphic, T.graphicData, T.tbl, aTblPr, aTblGrid, T.tr, T.tc, T.txBody, aBodyPr, aTcPr, T.p, aPPr, T.r, T.fld,
   T.br, aRPr, T.t]

theorem allTags_graphic (T : PptxTags) (P : Str → Bool) (hP : ∀ s ∈ graphicVocab T, P s = true) (t : PptxTable) :
    allTags P (graphicNode T t) = true := by
  have v : ∀ s, s ∈ graphicVocab T → P s = true := hP
  simp only [graphicVocab, List.mem_cons, List.not_mem_nil, or_false] at v
  have hpiece : ∀ pc : PptxPiece, allTags P (pc.node T) = true := by
    intro pc
    cases pc <;> simp [PptxPiece.node, allTags_elem, allTags_mk, v]
  have hpara : ∀ p : PptxPara, allTags P (pptxParaNode T p) = true := by
    intro p
    simp [pptxParaNode, allTags_elem, List.all_map, v, Function.comp_def, hpiece]
  have hcell : ∀ c : List PptxPara, allTags P (pptxCellNode T c) = true := by
    intro c
    simp [pptxCellNode, allTags_elem, List.all_map, v, Function.comp_def, hpara]
  simp [graphicNode, allTags_elem, allTags_mk, List.all_map, v, Function.comp_def, hcell]

/-! ## PPTX: a written frame -/

/-- tags strictly inside a written graphic frame -/
def frameVocab (T : PptxTags) (S : SlideTags) : List Str := [pNvPr, S.pXfrm, S.off, aExt, cChart] ++ graphicVocab T

/-- everything the slide theorems need from the tag values (decidable; re-decided on the generated tags) -/
def SlideTags.ok (T : PptxTags) (S : SlideTags) : Bool :=
  T.ok
  -- no graphic frame inside a frame or among the structural elements of a slide
  && !(frameVocab T S ++ [pGrpSp, pNvGrpSpPr, pGrpSpPr, S.spTree]).contains S.graphicFrame
  && pSld != S.spTree && pCSld != S.spTree
  -- `_get_shape_position` on a frame
  && !(S.graphicFrame :: frameVocab T S).contains S.spPr
  && !(S.graphicFrame :: frameVocab T S).contains S.aXfrm
  && !(S.graphicFrame :: pNvPr :: cChart :: graphicVocab T).contains S.pXfrm
  && ![pNvPr, S.pXfrm, aGraphic].contains S.nvSpPr
  -- `_extract_table_from_graphic_frame` on a frame
  && ![S.graphicFrame, pNvPr, S.pXfrm, S.off, aExt].contains T.graphicData
  && chartUri != T.tableUri
  && S.attrX != S.attrY
  -- the code's names are the names the format prescribes (what the written slide uses)
  && S.graphicFrame == pGraphicFrame && S.spTree == pSpTree && S.pXfrm == pXfrmTag && S.off == aOffTag
  && S.attrX == "x".toList && S.attrY == "y".toList

section pptx
variable (T : PptxTags) (S : SlideTags) (hS : S.ok T = true)
include hS

theorem slide_parts : T.ok = true
    ∧ (∀ s ∈ frameVocab T S ++ [pGrpSp, pNvGrpSpPr, pGrpSpPr, S.spTree], s ≠ S.graphicFrame)
    ∧ pSld ≠ S.spTree ∧ pCSld ≠ S.spTree
    ∧ (∀ s ∈ S.graphicFrame :: frameVocab T S, s ≠ S.spPr)
    ∧ (∀ s ∈ S.graphicFrame :: frameVocab T S, s ≠ S.aXfrm)
    ∧ (∀ s ∈ S.graphicFrame :: pNvPr :: cChart :: graphicVocab T, s ≠ S.pXfrm)
    ∧ (∀ s ∈ [pNvPr, S.pXfrm, aGraphic], s ≠ S.nvSpPr)
    ∧ (∀ s ∈ [S.graphicFrame, pNvPr, S.pXfrm, S.off, aExt], s ≠ T.graphicData)
    ∧ chartUri ≠ T.tableUri ∧ S.attrX ≠ S.attrY := by
  have h := hS
  simp only [SlideTags.ok, Bool.and_eq_true, Bool.not_eq_true', bne_iff_ne, ne_eq, List.contains_eq_mem,
    decide_eq_false_iff_not] at h
  obtain ⟨⟨⟨⟨⟨⟨⟨⟨⟨⟨⟨⟨⟨⟨⟨⟨h0, h1⟩, h2⟩, h3⟩, h4⟩, h5⟩, h6⟩, h7⟩, h8⟩, h9⟩, h10⟩, _⟩, _⟩, _⟩, _⟩, _⟩, _⟩ := h
  exact ⟨h0, fun s hs e => h1 (e ▸ hs), h2, h3, fun s hs e => h4 (e ▸ hs), fun s hs e => h5 (e ▸ hs),
    fun s hs e => h6 (e ▸ hs), fun s hs e => h7 (e ▸ hs), fun s hs e => h8 (e ▸ hs), h9, h10⟩

omit hS in
theorem allTags_content (P : Str → Bool) (hP : ∀ s ∈ cChart :: graphicVocab T, P s = true) (f : Frame) :
    allTags P (f.content T) = true := by
  cases f with
  | table pos t => exact allTags_graphic T P (fun s hs => hP s (List.mem_cons_of_mem _ hs)) t
  | chart pos =>
    have v := hP
    simp only [graphicVocab, List.mem_cons, List.not_mem_nil, or_false] at v
    simp [Frame.content, allTags_elem, allTags_mk, v]

omit hS in
theorem allTags_xfrm (P : Str → Bool) (hP : ∀ s ∈ [S.pXfrm, S.off, aExt], P s = true) (pos : Option (Int × Int)) :
    (xfrmNodes S pos).all (allTags P) = true := by
  have v := hP
  simp only [List.mem_cons, List.not_mem_nil, or_false] at v
  cases pos <;> simp [xfrmNodes, xfrmNode, allTags_elem, allTags_mk, v]

omit hS in
/-- a tag that occurs nowhere strictly inside a frame -/
theorem iter_frame_kids (tag : Str) (h : ∀ s ∈ frameVocab T S, s ≠ tag) (f : Frame) :
    ((f.node T S).kids).flatMap (iter tag) = [] := by
  apply flatMap_nil'
  intro k hk
  have hP : ∀ s ∈ frameVocab T S, (fun s => s != tag) s = true := fun s hs => by simpa using h s hs
  apply iter_of_allTags (P := fun s => s != tag) _ (by simp)
  simp only [Frame.node, elem_kids, List.mem_cons, List.mem_append, List.not_mem_nil, or_false] at hk
  rcases hk with rfl | hk | rfl
  · simp [allTags_elem, hP pNvPr (by simp [frameVocab])]
  · exact List.all_eq_true.mp (allTags_xfrm S _ (fun s hs => hP s (by
      simp only [List.mem_cons, List.not_mem_nil, or_false] at hs
      rcases hs with rfl | rfl | rfl <;> simp [frameVocab])) f.pos?) k hk
  · exact allTags_content T _ (fun s hs => hP s (by
      simp only [List.mem_cons] at hs
      rcases hs with rfl | hs
      · simp [frameVocab]
      · simp [frameVocab, hs])) f

theorem iter_gf_frame (f : Frame) : iter S.graphicFrame (f.node T S) = [f.node T S] := by
  obtain ⟨_, h1, _⟩ := slide_parts T S hS
  have := iter_frame_kids T S S.graphicFrame (fun s hs => h1 s (by simp [hs])) f
  rw [Frame.node, elem_kids] at this
  rw [Frame.node, iter_elem, this]
  simp

theorem iter_frame_nil (tag : Str) (h : ∀ s ∈ S.graphicFrame :: frameVocab T S, s ≠ tag) (f : Frame) :
    iter tag (f.node T S) = [] := by
  have := iter_frame_kids T S tag (fun s hs => h s (by simp [hs])) f
  rw [Frame.node, elem_kids] at this
  have e : (S.graphicFrame == tag) = false := by simpa using h S.graphicFrame (by simp)
  rw [Frame.node, iter_elem, this, e]
  simp

theorem get_off (x y : Str) : Node.get (.mk S.off [(S.attrX, x), (S.attrY, y)] [] [] []) S.attrX = some x
    ∧ Node.get (.mk S.off [(S.attrX, x), (S.attrY, y)] [] [] []) S.attrY = some y := by
  obtain ⟨_, _, _, _, _, _, _, _, _, _, h10⟩ := slide_parts T S hS
  have : (S.attrX == S.attrY) = false := by simpa using h10
  simp [Node.get, Node.attrs, this]

/-- `_get_shape_position` on a written frame: the written position, or the default when there is no `p:xfrm` -/
theorem shapePosition_frame (f : Frame) : shapePosition S (f.node T S) = f.position S := by
  obtain ⟨_, _, _, _, h4, h5, h6, h7, _, _, _⟩ := slide_parts T S hS
  have i1 : iter S.spPr (f.node T S) = [] := iter_frame_nil T S hS _ h4 f
  have i2 : iter S.aXfrm (f.node T S) = [] := iter_frame_nil T S hS _ h5 f
  have a1 : (pNvPr == S.aXfrm) = false := by simpa using h5 pNvPr (by simp [frameVocab])
  have a2 : (S.pXfrm == S.aXfrm) = false := by simpa using h5 S.pXfrm (by simp [frameVocab])
  have a3 : (aGraphic == S.aXfrm) = false := by simpa using h5 aGraphic (by simp [frameVocab, graphicVocab])
  have b1 : (pNvPr == S.pXfrm) = false := by simpa using h6 pNvPr (by simp)
  have b3 : (aGraphic == S.pXfrm) = false := by simpa using h6 aGraphic (by simp [graphicVocab])
  have c1 : (pNvPr == S.nvSpPr) = false := by simpa using h7 pNvPr (by simp)
  have c2 : (S.pXfrm == S.nvSpPr) = false := by simpa using h7 S.pXfrm (by simp)
  have c3 : (aGraphic == S.nvSpPr) = false := by simpa using h7 aGraphic (by simp)
  have tg : (f.content T).tag = aGraphic := by cases f <;> rfl
  unfold shapePosition shapePos?
  simp only [i1, i2, List.head?_nil]
  cases hp : f.pos? with
  | some p =>
    have k1 : find S.aXfrm (f.node T S) = none := by
      simp [Frame.node, find_elem, hp, xfrmNodes, xfrmNode, a1, a2, tg, a3]
    have k2 : find S.pXfrm (f.node T S) = some (xfrmNode S p) := by
      simp [Frame.node, find_elem, hp, xfrmNodes, xfrmNode, b1]
    have k3 : find S.off (xfrmNode S p) = some (.mk S.off [(S.attrX, decInt p.2), (S.attrY, decInt p.1)] [] [] []) := by
      simp [xfrmNode, find_elem]
    simp only [k1, k2, k3, getD, (get_off T S hS _ _).1, (get_off T S hS _ _).2, Option.getD_some, pyInt_decInt,
      Frame.position, hp]
  | none =>
    have k1 : find S.aXfrm (f.node T S) = none := by
      simp [Frame.node, find_elem, hp, xfrmNodes, a1, tg, a3]
    have k2 : find S.pXfrm (f.node T S) = none := by
      simp [Frame.node, find_elem, hp, xfrmNodes, b1, tg, b3]
    have i3 : iter S.pXfrm (f.node T S) = [] := by
      have e : (S.graphicFrame == S.pXfrm) = false := by simpa using h6 S.graphicFrame (by simp)
      rw [Frame.node, iter_elem, e, hp]
      simp only [xfrmNodes, List.nil_append, Bool.false_eq_true, if_false, List.flatMap_cons, List.flatMap_nil,
        List.append_nil]
      rw [iter_elem, b1]
      simp only [Bool.false_eq_true, if_false, List.flatMap_nil, List.append_nil, List.nil_append]
      exact iter_of_allTags (P := fun s => s != S.pXfrm)
        (allTags_content T _ (fun s hs => by simpa using h6 s (by
          simp only [List.mem_cons] at hs ⊢
          rcases hs with rfl | hs
          · simp
          · simp [hs])) f) (by simp)
    have k4 : find S.nvSpPr (f.node T S) = none := by
      simp [Frame.node, find_elem, hp, xfrmNodes, c1, tg, c3]
    simp only [k1, k2, i3, List.head?_nil, placeholderPos?, k4, Frame.position, hp, Option.getD_none]

omit hS in
theorem isEmpty_map' {α β : Type} (f : α → β) (l : List α) : (l.map f).isEmpty = l.isEmpty := by
  cases l <;> rfl

/-- `_extract_table_from_graphic_frame` + `if table_data:` on a written frame -/
theorem frameGrid_frame (f : Frame) : frameGrid T (f.node T S) = f.gridStripped := by
  obtain ⟨hT, _, _, _, _, _, _, _, h8, h9, _⟩ := slide_parts T S hS
  have g1 : (S.graphicFrame == T.graphicData) = false := by simpa using h8 S.graphicFrame (by simp)
  have g2 : (pNvPr == T.graphicData) = false := by simpa using h8 pNvPr (by simp)
  have g3 : (S.pXfrm == T.graphicData) = false := by simpa using h8 S.pXfrm (by simp)
  have g4 : (S.off == T.graphicData) = false := by simpa using h8 S.off (by simp)
  have g5 : (aExt == T.graphicData) = false := by simpa using h8 aExt (by simp)
  have hx : (xfrmNodes S f.pos?).flatMap (iter T.graphicData) = [] := by
    cases f.pos? <;> simp [xfrmNodes, xfrmNode, iter_elem, iter_mk, g3, g4, g5]
  have key : iter T.graphicData (f.node T S) = iter T.graphicData (f.content T) := by
    rw [Frame.node, iter_elem, g1]
    simp only [Bool.false_eq_true, if_false, List.nil_append, List.flatMap_cons, List.flatMap_append, hx, iter_elem, g2,
      List.flatMap_nil, List.append_nil]
  cases f with
  | table pos t =>
    have e : pptxFrameTable T ((Frame.table pos t).node T S) = pptxFrameTable T (pptxFrame T t) := by
      have k2 : iter T.graphicData (pptxFrame T t) = iter T.graphicData (graphicNode T t) := by
        have n1 := pptx_ne T hT (a := pGraphicFrame) (b := T.graphicData) (by simp [PptxTags.pairs])
        have n2 := pptx_ne T hT (a := pNvPr) (b := T.graphicData) (by simp [PptxTags.pairs])
        have e0 : pptxFrame T t = elem pGraphicFrame [elem pNvPr [], graphicNode T t] := rfl
        rw [e0, iter_elem, n1]
        have e1 : iter T.graphicData (elem pNvPr []) = [] := by rw [iter_elem, n2]; rfl
        simp only [Bool.false_eq_true, if_false, List.nil_append, List.flatMap_cons, e1, List.flatMap_nil,
          List.append_nil]
      unfold pptxFrameTable
      rw [key, k2]
      rfl
    unfold frameGrid
    rw [e, pptx_frame T hT t]
    simp only [isEmpty_map', Frame.gridStripped]
  | chart pos =>
    have a3 := pptx_ne T hT (a := aGraphic) (b := T.graphicData) (by simp [PptxTags.pairs])
    have e : pptxFrameTable T ((Frame.chart pos).node T S) = none := by
      unfold pptxFrameTable
      rw [key]
      have hu : (some chartUri != some T.tableUri) = true := by simpa using h9
      simp [Frame.content, iter_elem, iter_mk, a3, Node.get, Node.attrs, hu]
    unfold frameGrid
    rw [e]
    rfl

/-! ### the shapes of a written slide -/

mutual
theorem iter_gf_shape (s : Shape) (hc : s.clean S = true) :
    iter S.graphicFrame (s.node T S) = s.frames.map (Frame.node T S) := by
  cases s with
  | frame f => simp only [Shape.node, Shape.frames, List.map_cons, List.map_nil]; exact iter_gf_frame T S hS f
  | other n =>
    simp only [Shape.node, Shape.frames, List.map_nil]
    simp only [Shape.clean] at hc
    exact iter_of_allTags (P := fun s => s != S.graphicFrame) hc (by simp)
  | group ks =>
    obtain ⟨_, h1, _⟩ := slide_parts T S hS
    have e1 : (pGrpSp == S.graphicFrame) = false := by simpa using h1 pGrpSp (by simp)
    have e2 : (pNvGrpSpPr == S.graphicFrame) = false := by simpa using h1 pNvGrpSpPr (by simp)
    have e3 : (pGrpSpPr == S.graphicFrame) = false := by simpa using h1 pGrpSpPr (by simp)
    simp only [Shape.clean] at hc
    simp only [Shape.node, Shape.frames, iter_elem, e1, e2, e3, Bool.false_eq_true, if_false, List.nil_append,
      List.flatMap_cons, List.flatMap_nil]
    exact iter_gf_shapes ks hc
theorem iter_gf_shapes (ks : List Shape) (hc : cleanL S ks = true) :
    (nodesL T S ks).flatMap (iter S.graphicFrame) = (framesL ks).map (Frame.node T S) := by
  cases ks with
  | nil => simp [nodesL, framesL]
  | cons s r =>
    simp only [cleanL, Bool.and_eq_true] at hc
    simp only [nodesL, framesL, List.flatMap_cons, List.map_append]
    rw [iter_gf_shape s hc.1, iter_gf_shapes r hc.2]
end


/-! ### the slide walker -/

omit hS in
theorem filterMap_entryGrid (l : List Entry) :
    l.filterMap (entryGrid T) = (l.filter (fun s => s.kind == Kind.graphicFrame)).filterMap (fun s => frameGrid T s.elem) := by
  induction l with
  | nil => rfl
  | cons s r ih =>
    cases hk : s.kind <;> simp [List.filterMap_cons, entryGrid, hk, ih]

omit hS in
theorem filter_collect (tree : Node) :
    (collectShapes S tree).filter (fun s => s.kind == Kind.graphicFrame)
      = (iter S.graphicFrame tree).map (fun e => (⟨.graphicFrame, e, shapePosition S e⟩ : Entry)) := by
  unfold collectShapes
  simp only [List.filter_append, List.filter_map]
  have e1 : ∀ l : List Node, (l.filter ((fun s : Entry => s.kind == Kind.graphicFrame) ∘ fun e => ⟨.sp, e, shapePosition S e⟩)) = [] := by
    intro l; rw [List.filter_eq_nil_iff]; intro a _; simp
  have e2 : ∀ l : List Node, (l.filter ((fun s : Entry => s.kind == Kind.graphicFrame) ∘ fun e => ⟨.pic, e, shapePosition S e⟩)) = [] := by
    intro l; rw [List.filter_eq_nil_iff]; intro a _; simp
  have e3 : ∀ l : List Node, (l.filter ((fun s : Entry => s.kind == Kind.graphicFrame) ∘ fun e => ⟨.graphicFrame, e, shapePosition S e⟩)) = l := by
    intro l; rw [List.filter_eq_self]; intro a _; simp
  rw [e1, e2, e3]
  rfl

omit hS in
/-- for EVERY slide tree: text shapes and pictures never disturb the tables — the tables are those of the
    graphic frames of the shape tree, stably sorted by position -/
theorem slideTables_frames (root : Node) :
    slideTables T S root =
      match (iter S.spTree root).head? with
      | none => []
      | some tree => (sortBy posLt (shapePosition S) (iter S.graphicFrame tree)).filterMap (frameGrid T) := by
  unfold slideTables
  cases (iter S.spTree root).head? with
  | none => rfl
  | some tree =>
    simp only
    rw [filterMap_entryGrid, sortBy_filter posLt _ linOrd_pos, filter_collect, sortBy_map, List.filterMap_map]
    rfl

/-- the shape tree of a written slide is found, and its graphic frames are the slide's frames in document order -/
theorem slideRoot_frames (shapes : List Shape) (hc : cleanL S shapes = true) :
    slideTables T S (slideRoot T S shapes) =
      (sortBy posLt (shapePosition S) ((framesL shapes).map (Frame.node T S))).filterMap (frameGrid T) := by
  obtain ⟨_, h1, h2, h3, _⟩ := slide_parts T S hS
  have e1 : (pSld == S.spTree) = false := by simpa using h2
  have e2 : (pCSld == S.spTree) = false := by simpa using h3
  have g0 : (S.spTree == S.graphicFrame) = false := by simpa using h1 S.spTree (by simp)
  have g1 : (pNvGrpSpPr == S.graphicFrame) = false := by simpa using h1 pNvGrpSpPr (by simp)
  have g2 : (pGrpSpPr == S.graphicFrame) = false := by simpa using h1 pGrpSpPr (by simp)
  rw [slideTables_frames]
  have hh : (iter S.spTree (slideRoot T S shapes)).head?
      = some (elem S.spTree (elem pNvGrpSpPr [] :: elem pGrpSpPr [] :: nodesL T S shapes)) := by
    unfold slideRoot
    rw [iter_elem, e1]
    simp only [Bool.false_eq_true, if_false, List.nil_append, List.flatMap_cons, List.flatMap_nil, List.append_nil]
    rw [iter_elem, e2]
    simp only [Bool.false_eq_true, if_false, List.nil_append, List.flatMap_cons, List.flatMap_nil, List.append_nil]
    rw [iter_elem]
    simp
  rw [hh]
  simp only
  congr 2
  rw [iter_elem, g0]
  simp only [Bool.false_eq_true, if_false, List.nil_append, List.flatMap_cons, iter_elem, g1, g2, List.flatMap_nil]
  exact iter_gf_shapes T S hS shapes hc

/-- PPTX, every written slide: the tables of the slide are the grids of its frames, the frames stably sorted by
    position (`(y, x)`, frames without `p:xfrm` at the default position) -/
theorem slide_tables (shapes : List Shape) (hc : cleanL S shapes = true) :
    slideTables T S (slideRoot T S shapes) =
      (sortBy posLt (Frame.position S) (framesL shapes)).filterMap Frame.gridStripped := by
  rw [slideRoot_frames T S hS shapes hc, sortBy_map, List.filterMap_map]
  rw [sortBy_congr posLt (shapePosition S ∘ Frame.node T S) (Frame.position S) _
    (fun f _ => shapePosition_frame T S hS f)]
  congr 1
  funext f
  exact frameGrid_frame T S hS f

end pptx

/-! ## ODP: a written page -/

/-- what the ODP slide theorems need from the tag values -/
def OdpSlideTags.ok (T : OdfTags) (D : OdpSlideTags) : Bool :=
  T.ok && D.svgX != D.svgY
  -- the code's names are the names the format prescribes
  && D.frame == drawFrame && D.svgX == svgXAttr && D.svgY == svgYAttr

section odp
variable (T : OdfTags) (D : OdpSlideTags) (hD : D.ok T = true)
include hD

omit hD in
theorem findall_page (items : List OdpItem) (hok : items.all (OdpItem.ok T D) = true) :
    findall D.frame (pageNode T D items) = (items.filterMap OdpItem.frame?).map (OdpFrame.node T D) := by
  unfold pageNode
  rw [findall_elem]
  induction items with
  | nil => rfl
  | cons it r ih =>
    simp only [List.all_cons, Bool.and_eq_true] at hok
    rw [List.map_cons, List.filter_cons, ih hok.2]
    cases it with
    | frame f => simp [OdpItem.node, OdpItem.frame?, OdpFrame.node]
    | other n =>
      have : (n.tag == D.frame) = false := by simpa [OdpItem.ok] using hok.1
      simp [OdpItem.node, List.filterMap_cons, OdpItem.frame?, this]

theorem odpKey_frame {K : Type} (lenPx : Option Str → K) (f : OdpFrame) :
    odpKey D lenPx (f.node T D) = f.key lenPx := by
  have hne : (D.svgX == D.svgY) = false := by
    have := hD; simp only [OdpSlideTags.ok, Bool.and_eq_true, bne_iff_ne, ne_eq] at this; simpa using this.1.1.1.2
  have hne' : (D.svgY == D.svgX) = false := by
    rw [beq_eq_false_iff_ne] at hne ⊢
    exact fun h => hne h.symm
  obtain ⟨y, x, c⟩ := f
  unfold odpKey OdpFrame.key OdpFrame.node
  cases x <;> cases y <;> simp [Node.get, Node.attrs, optAttr, hne, hne']

theorem odpFrameGrid_frame (f : OdpFrame) (hok : (OdpItem.frame f).ok T D = true) :
    odpFrameGrid T (f.node T D) = f.grid := by
  have hT : T.ok = true := by
    have := hD; simp only [OdpSlideTags.ok, Bool.and_eq_true] at this; exact this.1.1.1.1
  obtain ⟨hX, _⟩ := odf_parts T hT
  have hpn := odf_paraOk T hT
  obtain ⟨y, x, c⟩ := f
  cases c with
  | table t =>
    simp only [OdpItem.ok] at hok
    have tg : (odpTableNode T t).tag = T.table := by
      unfold odpTableNode
      rw [render_tag _ _ hX hpn]
      rfl
    have e : find T.table (OdpFrame.node T D ⟨y, x, .table t⟩) = some (odpTableNode T t) := by
      simp [OdpFrame.node, find, Node.kids, tg]
    unfold odpFrameGrid
    rw [e]
    simp only [odp_table T hT t hok, isEmpty_map', OdpFrame.grid]
  | other kids =>
    simp only [OdpItem.ok] at hok
    have e : find T.table (OdpFrame.node T D ⟨y, x, .other kids⟩) = none := by
      simp only [OdpFrame.node, find, Node.kids, List.find?_eq_none]
      intro k hk
      have := List.all_eq_true.mp hok k hk
      simpa using this
    unfold odpFrameGrid
    rw [e]
    rfl

/-- ODP, every written page: the tables of the slide are the grids of its table frames, the frames stably
    sorted by `(y, x)` -/
theorem odp_slide_tables {K : Type} [DecidableEq K] (lenPx : Option Str → K) (lt : K → K → Bool)
    (items : List OdpItem) (hok : items.all (OdpItem.ok T D) = true) :
    odpSlideTables T D lenPx lt (pageNode T D items) =
      (sortBy (lexLt lt) (OdpFrame.key lenPx) (items.filterMap OdpItem.frame?)).filterMap OdpFrame.grid := by
  unfold odpSlideTables
  rw [findall_page T D items hok, sortBy_map, List.filterMap_map]
  rw [sortBy_congr (lexLt lt) (odpKey D lenPx ∘ OdpFrame.node T D) (OdpFrame.key lenPx) _
    (fun f _ => odpKey_frame T D hD lenPx f)]
  have hmem : ∀ f ∈ sortBy (lexLt lt) (OdpFrame.key lenPx) (items.filterMap OdpItem.frame?), (OdpItem.frame f).ok T D = true := by
    intro f hf
    have hf' := (sortBy_perm _ _ _).mem_iff.mp hf
    obtain ⟨it, hit, e⟩ := List.mem_filterMap.mp hf'
    cases it with
    | frame g => simp only [OdpItem.frame?, Option.some.injEq] at e; subst e; exact List.all_eq_true.mp hok _ hit
    | other n => simp [OdpItem.frame?] at e
  generalize sortBy (lexLt lt) (OdpFrame.key lenPx) (items.filterMap OdpItem.frame?) = l at hmem
  induction l with
  | nil => rfl
  | cons f r ih =>
    simp only [List.filterMap_cons, Function.comp]
    rw [odpFrameGrid_frame T D hD f (hmem f (by simp)), ih (fun g hg => hmem g (by simp [hg]))]

end odp

end S2T.Tables.Slide
