import S2T.Model.Patch
/-! Invariant of the fixed patch / restore protocol and its preservation by every step. -/
set_option linter.unusedSimpArgs false
namespace S2T.Patch
open Pc

/-- changing thread `t` from program counter `a` to `b` moves one unit of `cnt` from `a` to `b`. -/
theorem cnt_set {thr : List Thr} {t : Nat} (h : t < thr.length) (y : Thr) (p : Pc) :
    cnt (thr.set t y) p + (if thr[t].pc = p then 1 else 0) = cnt thr p + (if y.pc = p then 1 else 0) := by
  unfold cnt
  rw [List.countP_set h]
  have hpos : (if (thr[t].pc == p) = true then 1 else 0) ≤ List.countP (fun x => x.pc == p) thr := by
    by_cases hp : (thr[t].pc == p) = true
    · simp only [hp, if_true]
      exact List.countP_pos_iff.mpr ⟨thr[t], List.getElem_mem h, hp⟩
    · simp [hp]
  by_cases h1 : thr[t].pc = p <;> by_cases h2 : y.pc = p <;> simp_all <;> omega

structure Inv (s : St) : Prop where
  /-- mutual exclusion: the threads between an acquire and the matching release -/
  mutex : cnt s.thr testIn + cnt s.thr save + cnt s.thr wrap + cnt s.thr incr + cnt s.thr relIn
          + cnt s.thr decr + cnt s.thr testOut + cnt s.thr restore + cnt s.thr relOut
          = (if s.lock.isSome then 1 else 0)
  /-- the user count is the number of threads that have incremented and not yet decremented -/
  users : s.users = (cnt s.thr relIn + cnt s.thr body + cnt s.thr acqOut + cnt s.thr decr : Nat)
  /-- the wrapper is installed exactly once iff somebody uses it or is about to count itself in / out -/
  depth : s.F = if s.users > 0 ∨ cnt s.thr incr + cnt s.thr testOut + cnt s.thr restore > 0 then 1 else 0
  saved : s.saved = if s.F = 1 ∨ cnt s.thr wrap > 0 then [0] else []
  loc   : ∀ x ∈ s.thr, x.pc = wrap → x.loc = 0
  zero  : cnt s.thr save + cnt s.thr wrap + cnt s.thr restore > 0 → s.users = 0
  seen  : ∀ o ∈ s.obs, o.2 = 1

theorem cnt_replicate_ne (k : Nat) (x : Thr) (p : Pc) (h : x.pc ≠ p) : cnt (List.replicate k x) p = 0 := by
  unfold cnt
  rw [List.countP_eq_zero]
  intro a ha
  have := List.eq_of_mem_replicate ha
  subst this
  simpa using h

theorem inv_init (k : Nat) : Inv (init k) := by
  have c : ∀ p, p ≠ probe → cnt (init k).thr p = 0 := fun p hp => cnt_replicate_ne k ⟨probe, 0⟩ p (by simpa using hp.symm)
  constructor
  · rw [c testIn (by decide), c save (by decide), c wrap (by decide), c incr (by decide), c relIn (by decide),
      c decr (by decide), c testOut (by decide), c restore (by decide), c relOut (by decide)]; rfl
  · rw [c relIn (by decide), c body (by decide), c acqOut (by decide), c decr (by decide)]; rfl
  · rw [c incr (by decide), c testOut (by decide), c restore (by decide)]; rfl
  · rw [c wrap (by decide)]; rfl
  · intro x hx hw
    have := List.eq_of_mem_replicate hx
    subst this
    cases hw
  · rw [c save (by decide), c wrap (by decide), c restore (by decide)]; intro h; cases h
  · intro o ho; cases ho

theorem cnt_move {thr : List Thr} {t : Nat} (h : t < thr.length) (y : Thr) (a b : Pc)
    (ha : thr[t].pc = a) (hb : y.pc = b) (p : Pc) :
    cnt (thr.set t y) p + (if a = p then 1 else 0) = cnt thr p + (if b = p then 1 else 0) := by
  subst ha; subst hb; exact cnt_set h y p

theorem mem_set_loc {thr : List Thr} {t : Nat} {y : Thr}
    (hl : ∀ x ∈ thr, x.pc = wrap → x.loc = 0) (hy : y.pc = wrap → y.loc = 0) :
    ∀ x ∈ thr.set t y, x.pc = wrap → x.loc = 0 := by
  intro x hx
  rcases List.mem_or_eq_of_mem_set hx with h | h
  · exact hl x h
  · subst h; exact hy


macro "moves " m:term : tactic => `(tactic| (
  have m1 := $m testIn; have m2 := $m save; have m3 := $m wrap; have m4 := $m incr; have m5 := $m relIn
  have m6 := $m body; have m7 := $m acqOut; have m8 := $m decr; have m9 := $m testOut; have m10 := $m restore
  have m11 := $m relOut
  simp at m1 m2 m3 m4 m5 m6 m7 m8 m9 m10 m11))

macro "close_inv" : tactic => `(tactic| (first | omega | assumption | grind))

theorem inv_step {s : St} (h : Inv s) (t : Nat) : Inv (Fixed.step s t) := by
  unfold Fixed.step
  split
  · exact h
  · rename_i x hx
    have ht : t < s.thr.length := by
      rcases Nat.lt_or_ge t s.thr.length with h | h
      · exact h
      · rw [List.getElem?_eq_none h] at hx; cases hx
    have hxt : s.thr[t] = x := by
      rw [List.getElem?_eq_getElem ht] at hx; exact Option.some.inj hx
    obtain ⟨mutex, users, depth, saved, loc, zero, seen⟩ := h
    have mem : x ∈ s.thr := hxt ▸ List.getElem_mem ht
    have mv := fun (y : Thr) (a b : Pc) (ha : x.pc = a) (hb : y.pc = b) =>
      cnt_move ht y a b (by rw [hxt]; exact ha) hb
    split
    · -- probe → acqIn
      rename_i hp
      have m := mv ({ x with pc := acqIn }) probe acqIn hp rfl
      moves m
      refine ⟨?_, ?_, ?_, ?_, ?_, ?_, ?_⟩ <;> simp only [] <;> try simp only [Option.isSome_some, Option.isSome_none, if_true, if_false, Bool.false_eq_true]
      · close_inv
      · close_inv
      · close_inv
      · close_inv
      · exact mem_set_loc loc (by intro h; cases h)
      · close_inv
      · exact seen
    · -- acqIn
      rename_i hp
      split
      · rename_i hc
        have hn : s.lock = none := by simpa using hc
        rw [hn] at mutex; simp at mutex
        have m := mv ({ x with pc := testIn }) acqIn testIn hp rfl
        moves m
        refine ⟨?_, ?_, ?_, ?_, ?_, ?_, ?_⟩ <;> simp only [] <;> try simp only [Option.isSome_some, Option.isSome_none, if_true, if_false, Bool.false_eq_true]
        · close_inv
        · close_inv
        · close_inv
        · close_inv
        · exact mem_set_loc loc (by intro h; cases h)
        · close_inv
        · exact seen
      · exact ⟨mutex, users, depth, saved, loc, zero, seen⟩
    · -- testIn
      rename_i hp
      split
      · rename_i hc
        have m := mv ({ x with pc := save }) testIn save hp rfl
        moves m
        refine ⟨?_, ?_, ?_, ?_, ?_, ?_, ?_⟩ <;> simp only [] <;> try simp only [Option.isSome_some, Option.isSome_none, if_true, if_false, Bool.false_eq_true]
        · close_inv
        · close_inv
        · close_inv
        · close_inv
        · exact mem_set_loc loc (by intro h; cases h)
        · close_inv
        · exact seen
      · rename_i hc
        have m := mv ({ x with pc := incr }) testIn incr hp rfl
        moves m
        refine ⟨?_, ?_, ?_, ?_, ?_, ?_, ?_⟩ <;> simp only [] <;> try simp only [Option.isSome_some, Option.isSome_none, if_true, if_false, Bool.false_eq_true]
        · close_inv
        · close_inv
        · close_inv
        · close_inv
        · exact mem_set_loc loc (by intro h; cases h)
        · close_inv
        · exact seen
    · -- save → wrap
      rename_i hp
      have m := mv ({ pc := wrap, loc := s.F }) save wrap hp rfl
      moves m
      refine ⟨?_, ?_, ?_, ?_, ?_, ?_, ?_⟩ <;> simp only [] <;> try simp only [Option.isSome_some, Option.isSome_none, if_true, if_false, Bool.false_eq_true]
      · close_inv
      · close_inv
      · close_inv
      · close_inv
      · exact mem_set_loc loc (by intro _; show s.F = 0; grind)
      · close_inv
      · exact seen
    · -- wrap → incr
      rename_i hp
      have m := mv ({ x with pc := incr }) wrap incr hp rfl
      moves m
      have hl := loc x mem hp
      refine ⟨?_, ?_, ?_, ?_, ?_, ?_, ?_⟩ <;> simp only [] <;> try simp only [Option.isSome_some, Option.isSome_none, if_true, if_false, Bool.false_eq_true]
      · close_inv
      · close_inv
      · close_inv
      · close_inv
      · exact mem_set_loc loc (by intro h; cases h)
      · close_inv
      · exact seen
    · -- incr → relIn
      rename_i hp
      have m := mv ({ x with pc := relIn }) incr relIn hp rfl
      moves m
      refine ⟨?_, ?_, ?_, ?_, ?_, ?_, ?_⟩ <;> simp only [] <;> try simp only [Option.isSome_some, Option.isSome_none, if_true, if_false, Bool.false_eq_true]
      · close_inv
      · close_inv
      · close_inv
      · close_inv
      · exact mem_set_loc loc (by intro h; cases h)
      · close_inv
      · exact seen
    · -- relIn → body
      rename_i hp
      have m := mv ({ x with pc := body }) relIn body hp rfl
      moves m
      refine ⟨?_, ?_, ?_, ?_, ?_, ?_, ?_⟩ <;> simp only [] <;> try simp only [Option.isSome_some, Option.isSome_none, if_true, if_false, Bool.false_eq_true]
      · close_inv
      · close_inv
      · close_inv
      · close_inv
      · exact mem_set_loc loc (by intro h; cases h)
      · close_inv
      · exact seen
    · -- body → acqOut
      rename_i hp
      have m := mv ({ x with pc := acqOut }) body acqOut hp rfl
      moves m
      refine ⟨?_, ?_, ?_, ?_, ?_, ?_, ?_⟩ <;> simp only [] <;> try simp only [Option.isSome_some, Option.isSome_none, if_true, if_false, Bool.false_eq_true]
      · close_inv
      · close_inv
      · close_inv
      · close_inv
      · exact mem_set_loc loc (by intro h; cases h)
      · close_inv
      · (intro o ho; rcases List.mem_append.mp ho with h | h; exact seen o h; simp at h; subst h; show s.F = 1; grind)
    · -- acqOut
      rename_i hp
      split
      · rename_i hc
        have hn : s.lock = none := by simpa using hc
        rw [hn] at mutex; simp at mutex
        have m := mv ({ x with pc := decr }) acqOut decr hp rfl
        moves m
        refine ⟨?_, ?_, ?_, ?_, ?_, ?_, ?_⟩ <;> simp only [] <;> try simp only [Option.isSome_some, Option.isSome_none, if_true, if_false, Bool.false_eq_true]
        · close_inv
        · close_inv
        · close_inv
        · close_inv
        · exact mem_set_loc loc (by intro h; cases h)
        · close_inv
        · exact seen
      · exact ⟨mutex, users, depth, saved, loc, zero, seen⟩
    · -- decr → testOut
      rename_i hp
      have m := mv ({ x with pc := testOut }) decr testOut hp rfl
      moves m
      refine ⟨?_, ?_, ?_, ?_, ?_, ?_, ?_⟩ <;> simp only [] <;> try simp only [Option.isSome_some, Option.isSome_none, if_true, if_false, Bool.false_eq_true]
      · close_inv
      · close_inv
      · close_inv
      · close_inv
      · exact mem_set_loc loc (by intro h; cases h)
      · close_inv
      · exact seen
    · -- testOut
      rename_i hp
      split
      · rename_i hc
        have m := mv ({ x with pc := restore }) testOut restore hp rfl
        moves m
        refine ⟨?_, ?_, ?_, ?_, ?_, ?_, ?_⟩ <;> simp only [] <;> try simp only [Option.isSome_some, Option.isSome_none, if_true, if_false, Bool.false_eq_true]
        · close_inv
        · close_inv
        · close_inv
        · close_inv
        · exact mem_set_loc loc (by intro h; cases h)
        · close_inv
        · exact seen
      · rename_i hc
        have m := mv ({ x with pc := relOut }) testOut relOut hp rfl
        moves m
        refine ⟨?_, ?_, ?_, ?_, ?_, ?_, ?_⟩ <;> simp only [] <;> try simp only [Option.isSome_some, Option.isSome_none, if_true, if_false, Bool.false_eq_true]
        · close_inv
        · close_inv
        · close_inv
        · close_inv
        · exact mem_set_loc loc (by intro h; cases h)
        · close_inv
        · exact seen
    · -- restore → relOut
      rename_i hp
      have m := mv ({ x with pc := relOut }) restore relOut hp rfl
      moves m
      have hF : s.F = 1 := by grind
      have hs : s.saved = [0] := by rw [saved]; simp [hF]
      have hr : restoreAll s.F s.saved = 0 := by rw [hs]; rfl
      refine ⟨?_, ?_, ?_, ?_, ?_, ?_, ?_⟩ <;> simp only [] <;> try simp only [Option.isSome_some, Option.isSome_none, if_true, if_false, Bool.false_eq_true]
      · close_inv
      · close_inv
      · close_inv
      · close_inv
      · exact mem_set_loc loc (by intro h; cases h)
      · close_inv
      · exact seen
    · -- relOut → done
      rename_i hp
      have m := mv ({ x with pc := done }) relOut done hp rfl
      moves m
      refine ⟨?_, ?_, ?_, ?_, ?_, ?_, ?_⟩ <;> simp only [] <;> try simp only [Option.isSome_some, Option.isSome_none, if_true, if_false, Bool.false_eq_true]
      · close_inv
      · close_inv
      · close_inv
      · close_inv
      · exact mem_set_loc loc (by intro h; cases h)
      · close_inv
      · exact seen
    · exact ⟨mutex, users, depth, saved, loc, zero, seen⟩

theorem inv_run {s : St} (h : Inv s) (sched : List Nat) : Inv (Fixed.run s sched) := by
  unfold Fixed.run
  induction sched generalizing s with
  | nil => exact h
  | cons t r ih => exact ih (inv_step h t)

theorem cnt_pos_of_mem {thr : List Thr} {x : Thr} (h : x ∈ thr) : cnt thr x.pc > 0 :=
  List.countP_pos_iff.mpr ⟨x, h, by simp⟩

theorem mem_of_cnt_pos {thr : List Thr} {p : Pc} (h : cnt thr p > 0) : ∃ x ∈ thr, x.pc = p := by
  obtain ⟨x, hx, hp⟩ := List.countP_pos_iff.mp h
  exact ⟨x, hx, by simpa using hp⟩

theorem cnt_allDone {s : St} (h : allDone s = true) (p : Pc) (hp : p ≠ done) : cnt s.thr p = 0 := by
  unfold cnt
  rw [List.countP_eq_zero]
  intro a ha
  have := List.all_eq_true.mp h a ha
  have e : a.pc = done := by simpa using this
  simp [e, hp.symm]

/-- index form of membership -/
theorem idx_of_mem {thr : List Thr} {x : Thr} (h : x ∈ thr) : ∃ t : Nat, thr[t]? = some x := by
  obtain ⟨i, hi, e⟩ := List.getElem_of_mem h
  exact ⟨(i : Nat), by rw [List.getElem?_eq_getElem hi, e]⟩

end S2T.Patch
