import S2T.Lemmas.TablesRtfGroup
/-! From rows to tables: what `_extract_tables` returns for a text of gaps and written tables. -/
namespace S2T.Tables.Rtf
open S2T.HtmlSkip (Str)
open S2T.Tables

/-- (text in front of the table, table) -/
abbrev GT := Str × RTable

def rowsSegs (g : Str) : RTable → List Seg
  | [] => []
  | r :: rs => (g, r) :: rs.map (fun r => (['\n'], r))

def segsGT (gts : List GT) : List Seg := gts.flatMap (fun gt => rowsSegs gt.1 gt.2)

/-- what the grouping loop makes of the tables: a new table starts only where the heuristic sees a break,
    otherwise the rows are appended to the table before -/
def groupTables (P : Params) : Grid → List GT → List Grid
  | cur, [] => if cur.isEmpty then [] else [saveTable cur]
  | cur, gt :: rest =>
    if !cur.isEmpty && breaks P gt.1 then saveTable cur :: groupTables P (gridSpec gt.2) rest
    else groupTables P (cur ++ gridSpec gt.2) rest

def TableOk (t : RTable) : Prop := t ≠ [] ∧ ∀ r ∈ t, RowOk r

/-- conditions on the generated parameters -/
def paramsOk (P : Params) : Bool := specialsOk P && decide (1 ≤ P.rawGap)

theorem breaks_nl (P : Params) (hP : paramsOk P = true) : breaks P ['\n'] = false := by
  simp only [paramsOk, Bool.and_eq_true, decide_eq_true_eq] at hP
  simp only [breaks, List.length_singleton, Bool.and_eq_false_iff, decide_eq_false_iff_not]
  left; omega

theorem segStep_row (P : Params) (hP : paramsOk P = true) (st : Grid × List Grid) (g : Str) (r : RRow) (hr : RowOk r) :
    segStep P st (g, r) =
      if !st.1.isEmpty && breaks P g then ([r.map cellSpec], st.2 ++ [saveTable st.1]) else (st.1 ++ [r.map cellSpec], st.2) := by
  have hs : specialsOk P = true := by simp only [paramsOk, Bool.and_eq_true] at hP; exact hP.1
  have hc := extractCells_row P hs r hr.1 hr.2
  have hne : (r.map cellSpec).isEmpty = false := by
    cases r with
    | nil => exact absurd rfl hr.1
    | cons c cs => rfl
  simp only [segStep, hc, hne, Bool.false_eq_true, if_false]
  split <;> simp

theorem fold_rows (P : Params) (hP : paramsOk P = true) : ∀ (rs : List RRow) (cur : Grid) (out : List Grid),
    (∀ r ∈ rs, RowOk r) →
    (rs.map (fun r => ((['\n'], r) : Seg))).foldl (segStep P) (cur, out) = (cur ++ gridSpec rs, out)
  | [], cur, out, _ => by simp [gridSpec]
  | r :: rs, cur, out, h => by
    rw [List.map_cons, List.foldl_cons, segStep_row P hP _ _ r (h r List.mem_cons_self), breaks_nl P hP]
    simp only [Bool.and_false, Bool.false_eq_true, if_false]
    rw [fold_rows P hP rs _ _ (fun x hx => h x (List.mem_cons_of_mem _ hx))]
    simp [gridSpec]

theorem fold_table (P : Params) (hP : paramsOk P = true) (g : Str) (t : RTable) (ht : TableOk t) (cur : Grid) (out : List Grid) :
    (rowsSegs g t).foldl (segStep P) (cur, out) =
      if !cur.isEmpty && breaks P g then (gridSpec t, out ++ [saveTable cur]) else (cur ++ gridSpec t, out) := by
  obtain ⟨hne, hr⟩ := ht
  cases t with
  | nil => exact absurd rfl hne
  | cons r rs =>
    simp only [rowsSegs, List.foldl_cons]
    rw [segStep_row P hP _ _ r (hr r List.mem_cons_self)]
    split
    · rw [fold_rows P hP rs _ _ (fun x hx => hr x (List.mem_cons_of_mem _ hx))]
      simp [gridSpec]
    · rw [fold_rows P hP rs _ _ (fun x hx => hr x (List.mem_cons_of_mem _ hx))]
      simp [gridSpec]

theorem gridSpec_ne {t : RTable} (h : t ≠ []) : (gridSpec t).isEmpty = false := by
  cases t with
  | nil => exact absurd rfl h
  | cons r rs => rfl

theorem fold_tables (P : Params) (hP : paramsOk P = true) : ∀ (gts : List GT) (cur : Grid) (out : List Grid),
    (∀ gt ∈ gts, TableOk gt.2) →
    finish ((segsGT gts).foldl (segStep P) (cur, out)) = out ++ groupTables P cur gts
  | [], cur, out, _ => by
    simp only [segsGT, List.flatMap_nil, List.foldl_nil, finish, groupTables]
    split <;> simp
  | gt :: rest, cur, out, h => by
    have e : segsGT (gt :: rest) = rowsSegs gt.1 gt.2 ++ segsGT rest := by simp [segsGT]
    rw [e, List.foldl_append, fold_table P hP gt.1 gt.2 (h gt List.mem_cons_self)]
    simp only [groupTables]
    split
    · rw [fold_tables P hP rest _ _ (fun x hx => h x (List.mem_cons_of_mem _ hx))]
      simp
    · rw [fold_tables P hP rest _ _ (fun x hx => h x (List.mem_cons_of_mem _ hx))]

/-! ## the conditions of `extractTables_body` for tables and gaps -/

theorem startsNl_body2 (segs : List Seg) (tail : Str) (h1 : ∀ s ∈ segs, StartsNl s.1) (h2 : StartsNl tail) :
    StartsNl (body2 segs tail) := by
  cases segs with
  | nil => simpa [body2] using h2
  | cons s segs =>
    obtain ⟨t, ht⟩ := h1 s List.mem_cons_self
    rw [body2_cons, ht]
    exact ⟨_, rfl⟩

theorem wellSeg_of (P : Params) (tail : Str) (htq : Quiet P sTrowd tail [] ∧ Quiet P sRow tail []) (htn : StartsNl tail) :
    ∀ (segs : List Seg), (∀ s ∈ segs, QuietGap P s.1 ∧ RowOk s.2) → (∀ s ∈ segs.tail, StartsNl s.1) → WellSeg P segs tail
  | [], _, _ => htq
  | s :: segs, h1, h2 => by
    refine ⟨(h1 s List.mem_cons_self).1, (h1 s List.mem_cons_self).2, startsNW_of_nl P (startsNl_body2 segs tail h2 htn), ?_⟩
    exact wellSeg_of P tail htq htn segs (fun x hx => h1 x (List.mem_cons_of_mem _ hx))
      (fun x hx => h2 x (List.mem_of_mem_tail hx))

theorem quietGap_nl (P : Params) : QuietGap P ['\n'] :=
  fun b => ⟨quiet_noBs P _ _ b (noBs_of_all _ (by decide)), quiet_noBs P _ _ b (noBs_of_all _ (by decide))⟩

theorem mem_rowsSegs {g : Str} {t : RTable} {s : Seg} (h : s ∈ rowsSegs g t) :
    (s.1 = g ∨ s.1 = ['\n']) ∧ s.2 ∈ t := by
  cases t with
  | nil => simp [rowsSegs] at h
  | cons r rs =>
    simp only [rowsSegs, List.mem_cons, List.mem_map] at h
    rcases h with rfl | ⟨x, hx, rfl⟩
    · exact ⟨Or.inl rfl, List.mem_cons_self⟩
    · exact ⟨Or.inr rfl, List.mem_cons_of_mem _ hx⟩

theorem mem_segsGT {gts : List GT} {s : Seg} (h : s ∈ segsGT gts) :
    ∃ gt ∈ gts, (s.1 = gt.1 ∨ s.1 = ['\n']) ∧ s.2 ∈ gt.2 := by
  simp only [segsGT, List.mem_flatMap] at h
  obtain ⟨gt, hgt, hs⟩ := h
  exact ⟨gt, hgt, mem_rowsSegs hs⟩

/-- what `_extract_tables` returns for a text that is tables with arbitrary quiet text between them -/
theorem extractTables_tables (P : Params) (hP : paramsOk P = true) (g1 : Str) (t1 : RTable) (rest : List GT) (tail : Str)
    (hq1 : QuietGap P g1) (ht1 : TableOk t1)
    (hrest : ∀ gt ∈ rest, QuietGap P gt.1 ∧ StartsNl gt.1 ∧ TableOk gt.2)
    (htq : Quiet P sTrowd tail [] ∧ Quiet P sRow tail []) (htn : StartsNl tail) :
    extractTables P (body2 (segsGT ((g1, t1) :: rest)) tail) = groupTables P [] ((g1, t1) :: rest) := by
  have hall : ∀ gt ∈ (g1, t1) :: rest, QuietGap P gt.1 ∧ TableOk gt.2 := by
    intro gt hgt
    rcases List.mem_cons.mp hgt with rfl | h
    · exact ⟨hq1, ht1⟩
    · exact ⟨(hrest gt h).1, (hrest gt h).2.2⟩
  have hw : WellSeg P (segsGT ((g1, t1) :: rest)) tail := by
    apply wellSeg_of P tail htq htn
    · intro s hs
      obtain ⟨gt, hgt, hg, hr⟩ := mem_segsGT hs
      refine ⟨?_, (hall gt hgt).2.2 s.2 hr⟩
      rcases hg with h | h
      · rw [h]; exact (hall gt hgt).1
      · rw [h]; exact quietGap_nl P
    · intro s hs
      obtain ⟨hne, _⟩ := ht1
      cases t1 with
      | nil => exact absurd rfl hne
      | cons r rs =>
        have e : (segsGT ((g1, r :: rs) :: rest)).tail = rs.map (fun r => ((['\n'], r) : Seg)) ++ segsGT rest := by
          simp [segsGT, rowsSegs]
        rw [e] at hs
        rcases List.mem_append.mp hs with h | h
        · obtain ⟨x, _, rfl⟩ := List.mem_map.mp h; exact ⟨[], rfl⟩
        · obtain ⟨gt, hgt, hg, _⟩ := mem_segsGT h
          rcases hg with h' | h'
          · rw [h']; exact (hrest gt hgt).2.1
          · rw [h']; exact ⟨[], rfl⟩
  rw [extractTables_body P _ tail hw, fold_tables P hP _ [] [] (fun gt hgt => (hall gt hgt).2)]
  simp

end S2T.Tables.Rtf
