import S2T.Model.C02SheetsOdp
import S2T.Spec.C02SheetsDoc
import S2T.Lemmas.C02OdfXml
/-! ODP slide text assembly on rendered decks (C02, part 'sheets'). -/
namespace S2T.C02.Sheets.Odp
open S2T.Tok S2T.OdfText S2T.OdfDoc S2T.C02.Sheets

/-! ## the covered-set walk is the pruned recursion (any tree, any constants) -/

mutual
theorem walkCov_true (T : OdpT) (x : Xml) : walkCov T true x = [] := by
  cases x with
  | node tag a t l kids =>
    simp only [walkCov, Bool.true_or, if_true]
    exact walkCovL_true T kids
theorem walkCovL_true (T : OdpT) (l : List Xml) : walkCovL T true l = [] := by
  cases l with
  | nil => simp [walkCovL]
  | cons k ks => simp [walkCovL, walkCov_true T k, walkCovL_true T ks]
end

mutual
theorem walkCov_false (T : OdpT) (x : Xml) : walkCov T false x = pruned T x := by
  cases x with
  | node tag a t l kids =>
    have ih := walkCovL_false T kids
    by_cases h1 : tag ∈ T.fmt.skip <;> by_cases h2 : tag = T.pTag <;>
      simp [walkCov, pruned, h1, h2, walkCovL_true, ih]
theorem walkCovL_false (T : OdpT) (l : List Xml) : walkCovL T false l = prunedL T l := by
  cases l with
  | nil => simp [walkCovL, prunedL]
  | cons k ks => simp [walkCovL, prunedL, walkCov_false T k, walkCovL_false T ks]
end

/-! ## generic list facts -/

theorem filter_map_tag_true {α} (t : Str) (f : α → Xml) (l : List α) (h : ∀ a, (f a).tag = t) :
    (l.map f).filter (fun e => decide (e.tag = t)) = l.map f := by
  induction l with
  | nil => rfl
  | cons a r ih => simp [List.filter, h a, ih]

theorem filter_map_tag_false {α} (t : Str) (f : α → Xml) (l : List α) (h : ∀ a, (f a).tag ≠ t) :
    (l.map f).filter (fun e => decide (e.tag = t)) = [] := by
  induction l with
  | nil => rfl
  | cons a r ih => simp [List.filter, h a, ih]

theorem insertBy_map {α β} (f : α → β) (le1 : β → β → Bool) (le2 : α → α → Bool)
    (h : ∀ a b, le1 (f a) (f b) = le2 a b) (x : α) (l : List α) :
    insertBy le1 (f x) (l.map f) = (insertBy le2 x l).map f := by
  induction l with
  | nil => rfl
  | cons y r ih =>
    simp only [List.map_cons, insertBy, h]
    by_cases hc : le2 x y = true
    · simp [hc]
    · simp [hc, ih]

theorem sortBy_map {α β} (f : α → β) (le1 : β → β → Bool) (le2 : α → α → Bool)
    (h : ∀ a b, le1 (f a) (f b) = le2 a b) (l : List α) :
    sortBy le1 (l.map f) = (sortBy le2 l).map f := by
  induction l with
  | nil => rfl
  | cons x r ih => simp only [List.map_cons, sortBy, ih, insertBy_map f le1 le2 h]

theorem dropWhile_nil_iff {α} (q : α → Bool) (l : List α) : l.dropWhile q = [] ↔ ∀ a ∈ l, q a = true := by
  induction l with
  | nil => simp
  | cons a r ih =>
    by_cases ha : q a = true
    · simp [List.dropWhile, ha, ih]
    · simp [List.dropWhile, ha]

theorem strip_eq_nil_iff {p : Char → Bool} (s : Str) : strip p s = [] ↔ blank p s = true := by
  unfold strip rstrip lstrip blank
  rw [List.reverse_eq_nil_iff, dropWhile_nil_iff, List.all_eq_true]
  constructor
  · intro h
    have hd : s.dropWhile p = [] := by
      cases hq : s.dropWhile p with
      | nil => rfl
      | cons c r =>
        have h1 : p c = true := h c (by simp [hq])
        have h2 := List.head_dropWhile_not p (l := s) (by simp [hq])
        simp [hq] at h2
        simp [h1] at h2
    exact (dropWhile_nil_iff p s).mp hd
  · intro h a ha
    have : s.dropWhile p = [] := (dropWhile_nil_iff p s).mpr h
    simp [this] at ha

theorem flatMap_tokens_map_strip {p : Char → Bool} (l : List Str) :
    (l.map (strip p)).flatMap (tokens p) = l.flatMap (tokens p) := by
  induction l with
  | nil => rfl
  | cons a r ih => simp [tokens_strip, ih]

/-! ## lengths -/

theorem takeWhile_append_all {α} (q : α → Bool) (l r : List α) (hl : ∀ x ∈ l, q x = true) (hr : r.takeWhile q = []) :
    (l ++ r).takeWhile q = l := by
  induction l with
  | nil => simpa using hr
  | cons a t ih =>
    have ha := hl a (by simp)
    simp [List.takeWhile, ha, ih (fun x hx => hl x (by simp [hx]))]

theorem dropWhile_append_all {α} (q : α → Bool) (l r : List α) (hl : ∀ x ∈ l, q x = true) (hr : r.dropWhile q = r) :
    (l ++ r).dropWhile q = r := by
  induction l with
  | nil => simpa using hr
  | cons a t ih =>
    have ha := hl a (by simp)
    simp [List.dropWhile, ha, ih (fun x hx => hl x (by simp [hx]))]

theorem isDigitC_digitChar {d : Nat} (h : d < 10) : isDigitC (digitChar d) = true := by
  have : ∀ d < 10, isDigitC (digitChar d) = true := by decide
  exact this d h

theorem digitChar_val {d : Nat} (h : d < 10) : (digitChar d).toNat - 48 = d := by
  have : ∀ d < 10, (digitChar d).toNat - 48 = d := by decide
  exact this d h

theorem digitsVal_digits (ds : List Nat) (hds : ∀ d ∈ ds, d < 10) (acc : Nat) :
    digitsVal (ds.map digitChar) acc = ds.foldl (fun a d => a * 10 + d) acc := by
  induction ds generalizing acc with
  | nil => rfl
  | cons d r ih =>
    simp only [List.map_cons, digitsVal, List.foldl_cons, digitChar_val (hds d (by simp))]
    exact ih (fun x hx => hds x (by simp [hx])) _

theorem natToDec_digits (n : Nat) : ∀ c ∈ natToDec n, isDigitC c = true := by
  intro c hc
  unfold natToDec at hc
  obtain ⟨d, hd, rfl⟩ := List.mem_map.mp hc
  exact isDigitC_digitChar (digitsRev_lt n d (by simpa using hd))

theorem natToDec_ne_nil (n : Nat) : natToDec n ≠ [] := by
  unfold natToDec
  simpa using digitsRev_ne_nil n

theorem digitsVal_natToDec (n : Nat) : digitsVal (natToDec n) 0 = n := by
  unfold natToDec
  rw [digitsVal_digits _ (by intro d hd; exact digitsRev_lt n d (by simpa using hd)), foldl_reverse_digits,
    ofDigitsRev_digitsRev]

theorem natToDec_noWs {p : Char → Bool} (hp : NoDigitWs p) (n : Nat) : ∀ c ∈ natToDec n, p c = false := by
  intro c hc
  unfold natToDec at hc
  obtain ⟨d, hd, rfl⟩ := List.mem_map.mp hc
  exact hp d (digitsRev_lt n d (by simpa using hd))

/-- numerator / denominator factors of `_parse_odf_length_to_px` per unit (96 dpi) -/
def pxNum : LUnit → Nat
  | .cm => 9600 | .inch => 96 | .mm => 960 | .pt => 96 | .pc => 1152 | .px => 1
def pxDen : LUnit → Nat
  | .cm => 254 | .inch => 1 | .mm => 254 | .pt => 72 | .pc => 72 | .px => 1

/-- the letters of the unit names are not whitespace -/
def NoUnitWs (p : Char → Bool) : Prop := ∀ c ∈ "cminptx".toList, p c = false

theorem lengthPx_lenStr {p : Char → Bool} (hp : NoDigitWs p) (ha : NoUnitWs p) (u : LUnit) (n : Nat) :
    lengthPx p (some (lenStr u n)) = ⟨n * pxNum u, pxDen u⟩ := by
  have hdw : ∀ r : Str, (natToDec n ++ r).dropWhile p = natToDec n ++ r := by
    intro r
    cases hq : natToDec n with
    | nil => exact absurd hq (natToDec_ne_nil n)
    | cons c t =>
      have : p c = false := natToDec_noWs hp n c (by simp [hq])
      simp [List.dropWhile, this]
  have hu : ∀ c ∈ unitStr u, p c = false ∧ isAsciiAlpha c = true ∧ isDigitC c = false := by
    intro c hc
    have h1 : c ∈ "cminptx".toList := by cases u <;> simp [unitStr] at hc ⊢ <;> rcases hc with rfl | rfl <;> simp
    refine ⟨ha c h1, ?_⟩
    have : ∀ c ∈ "cminptx".toList, isAsciiAlpha c = true ∧ isDigitC c = false := by decide
    exact this c h1
  have hune : unitStr u ≠ [] := by cases u <;> simp [unitStr]
  obtain ⟨c0, t0, hc0⟩ : ∃ c t, unitStr u = c :: t := by
    cases hq : unitStr u with
    | nil => exact absurd hq hune
    | cons c t => exact ⟨c, t, rfl⟩
  have h0 := hu c0 (by simp [hc0])
  have htw : (natToDec n ++ unitStr u).takeWhile isDigitC = natToDec n :=
    takeWhile_append_all _ _ _ (natToDec_digits n) (by simp [hc0, List.takeWhile, h0.2.2])
  have hdd : (natToDec n ++ unitStr u).dropWhile isDigitC = unitStr u :=
    dropWhile_append_all _ _ _ (natToDec_digits n) (by simp [hc0, List.dropWhile, h0.2.2])
  have hup : (unitStr u).dropWhile p = unitStr u := by simp [hc0, List.dropWhile, h0.1]
  have hut : (unitStr u).takeWhile isAsciiAlpha = unitStr u := by
    have := takeWhile_append_all isAsciiAlpha (unitStr u) [] (fun c hc => (hu c hc).2.1) rfl
    simpa using this
  have hud : (unitStr u).dropWhile isAsciiAlpha = [] :=
    (dropWhile_nil_iff _ _).mpr (fun c hc => (hu c hc).2.1)
  have hnd : c0 ≠ '.' := by
    intro h; subst h
    have := h0.2.1
    simp [isAsciiAlpha] at this
  unfold lengthPx lenStr
  dsimp only
  simp only [hdw, htw, hdd]
  rw [if_neg (natToDec_ne_nil n)]
  split
  · rename_i r heq
    rw [hc0] at heq
    injection heq with h1 h2
    exact absurd h1 hnd
  · dsimp only
    rw [hup, hud, hut]
    have hL : (if unitStr u = [] then "px".toList else List.map lowerAscii (unitStr u)) = unitStr u := by
      cases u <;> decide
    rw [hL, List.dropWhile_nil, if_neg (by simp), List.append_nil, digitsVal_natToDec, List.length_nil, Nat.pow_zero]
    cases u
    · rw [if_neg (by decide), if_neg (by decide), if_pos (by decide)]; simp [pxNum, pxDen]
    · rw [if_neg (by decide), if_pos (by decide)]; simp [pxNum, pxDen]
    · rw [if_neg (by decide), if_neg (by decide), if_neg (by decide), if_pos (by decide)]; simp [pxNum, pxDen]
    · rw [if_neg (by decide), if_neg (by decide), if_neg (by decide), if_neg (by decide), if_pos (by decide)]
      simp [pxNum, pxDen]
    · rw [if_neg (by decide), if_neg (by decide), if_neg (by decide), if_neg (by decide), if_neg (by decide),
        if_pos (by decide)]
      simp [pxNum, pxDen, Nat.mul_assoc]
    · rw [if_pos (by decide)]; simp [pxNum, pxDen]

theorem Q_lt_scaled (a b y1 y2 : Nat) (ha : 0 < a) (hb : 0 < b) :
    Q.lt ⟨y1 * a, b⟩ ⟨y2 * a, b⟩ = decide (y1 < y2) := by
  unfold Q.lt
  simp only
  have hab : 0 < a * b := Nat.mul_pos ha hb
  have : y1 * a * b < y2 * a * b ↔ y1 < y2 := by
    rw [Nat.mul_assoc, Nat.mul_assoc]
    exact Nat.mul_lt_mul_right hab
  simp [this]

theorem Q_eq_scaled (a b y1 y2 : Nat) (ha : 0 < a) (hb : 0 < b) :
    Q.eq ⟨y1 * a, b⟩ ⟨y2 * a, b⟩ = decide (y1 = y2) := by
  unfold Q.eq
  simp only
  have hab : 0 < a * b := Nat.mul_pos ha hb
  have : y1 * a * b = y2 * a * b ↔ y1 = y2 := by
    rw [Nat.mul_assoc, Nat.mul_assoc]
    exact Nat.mul_right_cancel_iff hab
  simp [this]

theorem pxNum_pos (u : LUnit) : 0 < pxNum u := by cases u <;> decide
theorem pxDen_pos (u : LUnit) : 0 < pxDen u := by cases u <;> decide

end S2T.C02.Sheets.Odp
