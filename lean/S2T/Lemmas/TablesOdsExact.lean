import S2T.Lemmas.TablesOds
/-! C13, ODS — two complements of `Ods.sheetData_cells`:

1. two tight rectangles with the same cells are the same table, so without a wide gap in front of data the
   returned table *is* the used range of the source sheet (`sheetData_usedRange`);
2. the hypothesis is exact: when a collapsed run has data behind it, some cell is misplaced
   (`noGapRows_of_gridEq`).  The argument compares extents (position of the last datum), which collapsing a
   run strictly in front of data shortens. -/
namespace S2T.Tables.Ods
open S2T.HtmlSkip (Str)
open S2T.Tables.Xlsx (lastIdx lastIdx_at lastIdx_after)

/-! ## tight rectangles -/

/-- an r × w rectangle that ends at a row with data and (if it has a column) at a column with data -/
structure Tight (G : VGrid) (w : Nat) : Prop where
  rect : ∀ row ∈ G, row.length = w
  lastRow : ∀ row, G.getLast? = some row → row.all (· == Val.none) = false
  lastCol : w > 0 → G ≠ [] → ∃ row ∈ G, getV row (w - 1) ≠ Val.none

theorem exists_data {row : List Val} (h : row.all (· == Val.none) = false) :
    ∃ j, j < row.length ∧ getV row j ≠ Val.none := by
  rw [List.all_eq_false] at h
  obtain ⟨v, hv, hp⟩ := h
  obtain ⟨j, hj⟩ := List.getElem?_of_mem hv
  obtain ⟨hlt, _⟩ := List.getElem?_eq_some_iff.mp hj
  refine ⟨j, hlt, ?_⟩
  unfold getV; rw [hj]; simpa using hp

theorem getV_beyond {row : List Val} {j : Nat} (h : row.length ≤ j) : getV row j = Val.none := by
  unfold getV; rw [List.getElem?_eq_none_iff.mpr h]; rfl

theorem cellAt_beyond {A : VGrid} {i : Nat} (h : A.length ≤ i) (j : Nat) : cellAt A i j = Val.none := by
  unfold cellAt; rw [List.getElem?_eq_none_iff.mpr h]

theorem cellAt_of_getElem? {A : VGrid} {i : Nat} {row : List Val} (h : A[i]? = some row) (j : Nat) :
    cellAt A i j = getV row j := by
  unfold cellAt; rw [h]

theorem len_le_of_gridEq {A B : VGrid} (h : GridEq A B)
    (hB : ∀ row, B.getLast? = some row → row.all (· == Val.none) = false) : B.length ≤ A.length := by
  apply Nat.le_of_not_lt
  intro hlt
  cases hr : B[B.length - 1]? with
  | none => rw [List.getElem?_eq_none_iff] at hr; omega
  | some row =>
    have hl : B.getLast? = some row := by rw [List.getLast?_eq_getElem?]; exact hr
    obtain ⟨j, _, hj⟩ := exists_data (hB row hl)
    have := h (B.length - 1) j
    rw [cellAt_beyond (by omega), cellAt_of_getElem? hr] at this
    exact hj this.symm

theorem width_pos {A : VGrid} {w : Nat} (hA : Tight A w) (hne : A ≠ []) : w > 0 := by
  cases hr : A.getLast? with
  | none => rw [List.getLast?_eq_none_iff] at hr; exact absurd hr hne
  | some row =>
    obtain ⟨j, hj, _⟩ := exists_data (hA.lastRow row hr)
    have := hA.rect row (List.mem_of_getLast? hr)
    omega

theorem width_le_of_gridEq {A B : VGrid} {wA wB : Nat} (h : GridEq A B) (hA : ∀ row ∈ A, row.length = wA)
    (hB : Tight B wB) (hw : wB > 0) (hne : B ≠ []) : wB ≤ wA := by
  apply Nat.le_of_not_lt
  intro hlt
  obtain ⟨row, hrow, hd⟩ := hB.lastCol hw hne
  obtain ⟨i, hi⟩ := List.getElem?_of_mem hrow
  have := h i (wB - 1)
  rw [cellAt_of_getElem? hi] at this
  cases ha : A[i]? with
  | none =>
    rw [cellAt_beyond (List.getElem?_eq_none_iff.mp ha)] at this
    exact hd this.symm
  | some a =>
    rw [cellAt_of_getElem? ha, getV_beyond (by have := hA a (List.mem_of_getElem? ha); omega)] at this
    exact hd this.symm

/-- two tight rectangles holding the same cell at every position are the same table -/
theorem tight_eq {A B : VGrid} {wA wB : Nat} (hA : Tight A wA) (hB : Tight B wB) (h : GridEq A B) : A = B := by
  have hsym : GridEq B A := fun i j => (h i j).symm
  have hlen : A.length = B.length :=
    Nat.le_antisymm (len_le_of_gridEq hsym hA.lastRow) (len_le_of_gridEq h hB.lastRow)
  by_cases hne : A = []
  · subst hne
    exact (List.length_eq_zero_iff.mp (by simpa using hlen.symm)).symm
  · have hneB : B ≠ [] := by
      intro e; subst e; exact hne (List.length_eq_zero_iff.mp (by simpa using hlen))
    have hwA : wA > 0 := width_pos hA hne
    have hwB : wB > 0 := width_pos hB hneB
    have hw : wA = wB :=
      Nat.le_antisymm (width_le_of_gridEq hsym hB.rect hA hwA hne) (width_le_of_gridEq h hA.rect hB hwB hneB)
    apply List.ext_getElem?
    intro i
    cases ha : A[i]? with
    | none =>
      have : B[i]? = none := by rw [List.getElem?_eq_none_iff] at ha ⊢; omega
      rw [this]
    | some a =>
      obtain ⟨hi, _⟩ := List.getElem?_eq_some_iff.mp ha
      cases hb : B[i]? with
      | none => rw [List.getElem?_eq_none_iff] at hb; omega
      | some b =>
        congr 1
        have hla := hA.rect a (List.mem_of_getElem? ha)
        have hlb := hB.rect b (List.mem_of_getElem? hb)
        apply List.ext_getElem?
        intro j
        have hc := h i j
        rw [cellAt_of_getElem? ha, cellAt_of_getElem? hb] at hc
        unfold getV at hc
        by_cases hj : j < wA
        · have h1 : a[j]? = some a[j] := List.getElem?_eq_getElem (by omega)
          have h2 : b[j]? = some b[j] := List.getElem?_eq_getElem (by omega)
          rw [h1, h2] at hc ⊢
          simpa using hc
        · rw [List.getElem?_eq_none_iff.mpr (by omega), List.getElem?_eq_none_iff.mpr (by omega)]

theorem sheetOf_tight (raw : VGrid) : ∃ w, Tight (sheetOf raw) w := by
  obtain ⟨w, hw⟩ := sheetOf_rect raw
  exact ⟨w, hw, fun row h => sheetOf_last_row raw row h, fun h1 h2 => sheetOf_last_col raw w h1 hw h2⟩

/-- without a wide gap in front of data, `OdsSheet.data` is the used range of the source sheet (the plain
    expansion up to the last row and the last column holding data, short rows padded) -/
theorem sheetData_usedRange (C : Caps) (rows : List RRow) (h : noGapRows C rows = true) :
    sheetData C rows = sheetOf (expand rows) := by
  obtain ⟨wA, hA⟩ := sheetOf_tight (rawRows C rows)
  obtain ⟨wB, hB⟩ := sheetOf_tight (expand rows)
  rw [sheetData_eq]
  exact tight_eq hA hB (gridEq_trans (sheetOf_cells _)
    (gridEq_trans (rawRows_eq C rows h) (fun i j => (sheetOf_cells (expand rows) i j).symm)))

/-! ## extents: the position of the last datum -/

theorem lastIdx_append {α : Type} (p : α → Bool) (a b : List α) :
    lastIdx p (a ++ b) = if lastIdx p b > 0 then a.length + lastIdx p b else lastIdx p a := by
  induction a with
  | nil => simp only [List.nil_append, List.length_nil, lastIdx]; split <;> omega
  | cons x a ih =>
    simp only [List.cons_append, lastIdx, ih, List.length_cons]
    by_cases hb : lastIdx p b > 0
    · simp only [hb, if_true]
      rw [if_pos (by omega)]; omega
    · simp only [hb, if_false]

theorem lastIdx_replicate {α : Type} (p : α → Bool) (n : Nat) (x : α) :
    lastIdx p (List.replicate n x) = if p x then n else 0 := by
  induction n with
  | zero => simp [lastIdx]
  | succ n ih =>
    simp only [List.replicate_succ, lastIdx, ih]
    by_cases hp : p x = true
    · simp only [hp, if_true]; split <;> omega
    · simp [hp]

theorem lastIdx_eq_zero_iff {α : Type} (p : α → Bool) (l : List α) : lastIdx p l = 0 ↔ ∀ x ∈ l, p x = false := by
  induction l with
  | nil => simp [lastIdx]
  | cons y r ih =>
    simp only [lastIdx, List.mem_cons, forall_eq_or_imp]
    by_cases hk : lastIdx p r > 0
    · rw [if_pos hk]
      constructor
      · intro h; omega
      · intro h; have := ih.mpr h.2; omega
    · rw [if_neg hk]
      have h0 : lastIdx p r = 0 := by omega
      by_cases hy : p y = true
      · simp [hy]
      · simp only [Bool.not_eq_true] at hy
        simp only [hy, true_and]
        exact ⟨fun _ => ih.mp h0, fun _ => by simp⟩

/-- wherever `a` holds a `p`, `b` holds a `q` at the same index: `a` does not reach further than `b` -/
theorem lastIdx_le_of {α β : Type} (p : α → Bool) (q : β → Bool) (a : List α) (b : List β)
    (h : ∀ (j : Nat) (x : α), a[j]? = some x → p x = true → ∃ y, b[j]? = some y ∧ q y = true) :
    lastIdx p a ≤ lastIdx q b := by
  apply Nat.le_of_not_lt
  intro hlt
  obtain ⟨x, hx, hpx⟩ := lastIdx_at p a (by omega)
  obtain ⟨y, hy, hqy⟩ := h _ x hx hpx
  have := lastIdx_after q b (lastIdx p a - 1) (by omega) y hy
  rw [this] at hqy
  exact Bool.noConfusion hqy

/-- a cell holds a value -/
def isData (v : Val) : Bool := v != Val.none
/-- a row holds a value -/
def hasData (row : List Val) : Bool := !allNone row

theorem allNone_iff_ext (l : List Val) : allNone l = true ↔ lastIdx isData l = 0 := by
  rw [lastIdx_eq_zero_iff]
  unfold allNone
  rw [List.all_eq_true]
  constructor
  · intro h x hx; have := h x hx; simp only [beq_iff_eq] at this; rw [this]; rfl
  · intro h x hx
    have := h x hx
    cases x <;> first | rfl | (exact Bool.noConfusion this)

theorem allRows_iff_ext (G : VGrid) : G.all allNone = true ↔ lastIdx hasData G = 0 := by
  rw [lastIdx_eq_zero_iff, List.all_eq_true]
  constructor
  · intro h x hx; simp [hasData, h x hx]
  · intro h x hx; have := h x hx; simpa [hasData] using this

theorem rowEq_data {a b : List Val} (h : RowEq a b) (j : Nat) (x : Val) (hx : a[j]? = some x) (hp : isData x = true) :
    ∃ y, b[j]? = some y ∧ isData y = true := by
  have e := h j
  unfold getV at e
  rw [hx] at e
  simp only [Option.getD_some] at e
  cases hb : b[j]? with
  | none =>
    rw [hb] at e
    simp only [Option.getD_none] at e
    rw [e] at hp
    exact Bool.noConfusion hp
  | some y =>
    rw [hb] at e
    simp only [Option.getD_some] at e
    exact ⟨y, rfl, by rw [← e]; exact hp⟩

theorem ext_rowEq {a b : List Val} (h : RowEq a b) : lastIdx isData a = lastIdx isData b :=
  Nat.le_antisymm (lastIdx_le_of _ _ a b (rowEq_data h)) (lastIdx_le_of _ _ b a (rowEq_data (fun j => (h j).symm)))

theorem gridEq_data {A B : VGrid} (h : GridEq A B) (i : Nat) (ra : List Val) (hx : A[i]? = some ra) (hp : hasData ra = true) :
    ∃ rb, B[i]? = some rb ∧ hasData rb = true := by
  have hp' : ra.all (· == Val.none) = false := by
    simp only [hasData, allNone, Bool.not_eq_true'] at hp; exact hp
  obtain ⟨j, _, hj⟩ := exists_data hp'
  have e := h i j
  rw [cellAt_of_getElem? hx] at e
  cases hb : B[i]? with
  | none =>
    rw [cellAt_beyond (List.getElem?_eq_none_iff.mp hb)] at e
    exact absurd e hj
  | some rb =>
    rw [cellAt_of_getElem? hb] at e
    refine ⟨rb, rfl, ?_⟩
    cases hall : allNone rb with
    | false => simp [hasData, hall]
    | true => exact absurd (e.trans (all_none_getV hall j)) hj

theorem ext_gridEq {A B : VGrid} (h : GridEq A B) : lastIdx hasData A = lastIdx hasData B :=
  Nat.le_antisymm (lastIdx_le_of _ _ A B (gridEq_data h)) (lastIdx_le_of _ _ B A (gridEq_data (fun i j => (h i j).symm)))

/-! ## rows -/

theorem rowValues_cons (C : Caps) (c : RCell) (r : List RCell) : rowValues C (c :: r) = cellPiece C c ++ rowValues C r := by
  simp [rowValues]

theorem expandRow_cons (c : RCell) (r : List RCell) : expandRow (c :: r) = List.replicate c.1 c.2 ++ expandRow r := by
  simp [expandRow]

theorem length_cellPiece_le (C : Caps) (c : RCell) : (cellPiece C c).length ≤ c.1 := by
  unfold cellPiece
  split
  · rename_i h
    simp only [Bool.and_eq_true, decide_eq_true_eq] at h
    simp only [List.length_cons, List.length_nil]; omega
  · simp

theorem ext_cellPiece (C : Caps) (c : RCell) : lastIdx isData (cellPiece C c) = lastIdx isData (List.replicate c.1 c.2) := by
  unfold cellPiece
  split
  · rename_i h
    simp only [Bool.and_eq_true, beq_iff_eq] at h
    rw [h.1, lastIdx_replicate]
    simp [lastIdx, isData]
  · rfl

theorem ext_pos_iff (l : List Val) : lastIdx isData l > 0 ↔ allNone l = false := by
  have := allNone_iff_ext l
  cases h : allNone l with
  | true => have := this.mp h; simp; omega
  | false =>
    simp only [iff_true]
    apply Nat.pos_of_ne_zero
    intro e; rw [this.mpr e] at h; exact Bool.noConfusion h

theorem extG_pos_iff (G : VGrid) : lastIdx hasData G > 0 ↔ G.all allNone = false := by
  have := allRows_iff_ext G
  cases h : G.all allNone with
  | true => have := this.mp h; simp; omega
  | false =>
    simp only [iff_true]
    apply Nat.pos_of_ne_zero
    intro e; rw [this.mpr e] at h; exact Bool.noConfusion h

/-- collapsing never moves the last value of a row to the right -/
theorem ext_rowValues_le (C : Caps) (cells : List RCell) :
    lastIdx isData (rowValues C cells) ≤ lastIdx isData (expandRow cells) := by
  induction cells with
  | nil => exact Nat.le_refl _
  | cons c r ih =>
    rw [rowValues_cons, expandRow_cons, lastIdx_append, lastIdx_append]
    cases hr : allNone (expandRow r) with
    | true =>
      have h1 : lastIdx isData (expandRow r) = 0 := (allNone_iff_ext _).mp hr
      have h2 : lastIdx isData (rowValues C r) = 0 := (allNone_iff_ext _).mp (by rw [allNone_rowValues]; exact hr)
      rw [h1, h2]
      simp only [Nat.lt_irrefl, gt_iff_lt, if_false]
      rw [ext_cellPiece]
      exact Nat.le_refl _
    | false =>
      have h1 : lastIdx isData (expandRow r) > 0 := (ext_pos_iff _).mpr hr
      have h2 : lastIdx isData (rowValues C r) > 0 := (ext_pos_iff _).mpr (by rw [allNone_rowValues]; exact hr)
      rw [if_pos h1, if_pos h2]
      have := length_cellPiece_le C c
      simp only [List.length_replicate]
      omega

theorem noGapRow_of_allNone (C : Caps) (cells : List RCell) (h : allNone (expandRow cells) = true) : noGapRow C cells = true := by
  induction cells with
  | nil => rfl
  | cons c r ih =>
    rw [expandRow_cons, allNone_append, Bool.and_eq_true] at h
    simp only [noGapRow, Bool.and_eq_true]
    refine ⟨?_, ih h.2⟩
    split
    · exact h.2
    · rfl

theorem rowEq_cancel_left (p : List Val) {a b : List Val} (h : RowEq (p ++ a) (p ++ b)) : RowEq a b := by
  intro j
  have := h (p.length + j)
  unfold getV at this ⊢
  rw [List.getElem?_append_right (by omega), List.getElem?_append_right (by omega)] at this
  simpa using this

/-- rows: if the collected row holds every source cell of the row at its place, no collapsed run has a value behind it -/
theorem noGapRow_of_rowEq (C : Caps) (hC : C.cell > 0) (cells : List RCell)
    (h : RowEq (rowValues C cells) (expandRow cells)) : noGapRow C cells = true := by
  induction cells with
  | nil => rfl
  | cons c r ih =>
    rw [rowValues_cons, expandRow_cons] at h
    simp only [noGapRow, Bool.and_eq_true]
    by_cases hc : (c.2 == Val.none && c.1 > C.cell) = true
    · have hc2 := hc
      simp only [Bool.and_eq_true, beq_iff_eq, decide_eq_true_eq] at hc2
      have hempty : allNone (expandRow r) = true := by
        cases hr : allNone (expandRow r) with
        | true => rfl
        | false =>
          exfalso
          have h1 : lastIdx isData (expandRow r) > 0 := (ext_pos_iff _).mpr hr
          have h2 : lastIdx isData (rowValues C r) > 0 := (ext_pos_iff _).mpr (by rw [allNone_rowValues]; exact hr)
          have e := ext_rowEq h
          rw [lastIdx_append, lastIdx_append, if_pos h1, if_pos h2] at e
          have hp : cellPiece C c = [Val.none] := by unfold cellPiece; rw [if_pos hc]
          rw [hp] at e
          have := ext_rowValues_le C r
          simp only [List.length_cons, List.length_nil, List.length_replicate] at e
          omega
      refine ⟨?_, noGapRow_of_allNone C r hempty⟩
      rw [if_pos (by simpa using hc2)]
      exact hempty
    · have e : cellPiece C c = List.replicate c.1 c.2 := by unfold cellPiece; rw [if_neg hc]
      rw [e] at h
      refine ⟨?_, ih (rowEq_cancel_left _ h)⟩
      rw [if_neg (by simpa using hc)]

/-! ## sheets -/

theorem length_rowPiece_le (C : Caps) (r : RRow) : (rowPiece C r).length ≤ r.1 := by
  unfold rowPiece
  simp only
  split
  · rename_i h
    simp only [Bool.and_eq_true, decide_eq_true_eq] at h
    simp only [List.length_cons, List.length_nil]; omega
  · simp

theorem hasData_rowValues (C : Caps) (cells : List RCell) : hasData (rowValues C cells) = hasData (expandRow cells) := by
  unfold hasData; rw [allNone_rowValues]

theorem rowPiece_capped (C : Caps) (r : RRow) (h : (r.1 > C.row && allNone (rowValues C r.2)) = true) :
    rowPiece C r = [rowValues C r.2] := by
  unfold rowPiece
  simp only
  have h' : (r.1 > C.row && (rowValues C r.2).all (· == Val.none)) = true := h
  rw [if_pos h']

theorem rowPiece_plain (C : Caps) (r : RRow) (h : ¬ (r.1 > C.row && allNone (rowValues C r.2)) = true) :
    rowPiece C r = List.replicate r.1 (rowValues C r.2) := by
  unfold rowPiece
  simp only
  have h' : ¬ (r.1 > C.row && (rowValues C r.2).all (· == Val.none)) = true := h
  rw [if_neg h']

theorem ext_rowPiece (C : Caps) (r : RRow) :
    lastIdx hasData (rowPiece C r) = lastIdx hasData (List.replicate r.1 (expandRow r.2)) := by
  by_cases hc : (r.1 > C.row && allNone (rowValues C r.2)) = true
  · rw [rowPiece_capped C r hc]
    simp only [Bool.and_eq_true] at hc
    have h1 : hasData (rowValues C r.2) = false := by simp [hasData, hc.2]
    have h2 : hasData (expandRow r.2) = false := by rw [← hasData_rowValues C]; exact h1
    rw [lastIdx_replicate, h2]
    simp [lastIdx, h1]
  · rw [rowPiece_plain C r hc, lastIdx_replicate, lastIdx_replicate, hasData_rowValues]

/-- collapsing never moves the last row with data down, and never loses all data -/
theorem ext_rawRows (C : Caps) (rows : List RRow) :
    lastIdx hasData (rawRows C rows) ≤ lastIdx hasData (expand rows) ∧
    (lastIdx hasData (expand rows) > 0 → lastIdx hasData (rawRows C rows) > 0) := by
  induction rows with
  | nil => exact ⟨Nat.le_refl _, fun h => h⟩
  | cons r rs ih =>
    rw [rawRows_cons, expand_cons, lastIdx_append, lastIdx_append, ext_rowPiece]
    by_cases h1 : lastIdx hasData (expand rs) > 0
    · have h2 := ih.2 h1
      rw [if_pos h1, if_pos h2]
      have := length_rowPiece_le C r
      have := ih.1
      simp only [List.length_replicate]
      constructor <;> omega
    · have h0 : lastIdx hasData (rawRows C rs) = 0 := by have := ih.1; omega
      rw [if_neg h1, h0]
      simp only [Nat.lt_irrefl, gt_iff_lt, if_false]
      exact ⟨Nat.le_refl _, fun h => h⟩

theorem noGapRows_of_allNone (C : Caps) (rows : List RRow) (h : (expand rows).all allNone = true) : noGapRows C rows = true := by
  induction rows with
  | nil => rfl
  | cons r rs ih =>
    rw [expand_cons, List.all_append, Bool.and_eq_true] at h
    simp only [noGapRows, Bool.and_eq_true]
    refine ⟨⟨?_, ?_⟩, ih h.2⟩
    · by_cases h0 : r.1 = 0
      · simp [h0]
      · have h1 := h.1
        rw [List.all_replicate] at h1
        simp only [h0, if_false] at h1
        rw [noGapRow_of_allNone C r.2 h1]; simp
    · split
      · exact h.2
      · rfl

theorem gridEq_cancel (n : Nat) {a b : List Val} {X Y : VGrid}
    (h : GridEq (List.replicate n a ++ X) (List.replicate n b ++ Y)) : (n > 0 → RowEq a b) ∧ GridEq X Y := by
  constructor
  · intro hn j
    have := h 0 j
    rw [cellAt_append_left (by simpa using hn), cellAt_append_left (by simpa using hn)] at this
    unfold cellAt at this
    simpa [List.getElem?_replicate, hn] using this
  · intro i j
    have := h (n + i) j
    rw [cellAt_append_right (by simp), cellAt_append_right (by simp)] at this
    simpa using this

/-- sheets: if the collected rows hold every source cell at its place, no collapsed run of empty cells has a
    value behind it and no collapsed run of empty rows has data below it -/
theorem noGapRows_of_gridEq (C : Caps) (hcell : C.cell > 0) (hrow : C.row > 0) (rows : List RRow)
    (h : GridEq (rawRows C rows) (expand rows)) : noGapRows C rows = true := by
  induction rows with
  | nil => rfl
  | cons r rs ih =>
    rw [rawRows_cons, expand_cons] at h
    by_cases hc : (r.1 > C.row && allNone (rowValues C r.2)) = true
    · have hc2 := hc
      simp only [Bool.and_eq_true, decide_eq_true_eq] at hc2
      have hbelow : (expand rs).all allNone = true := by
        cases hr : (expand rs).all allNone with
        | true => rfl
        | false =>
          exfalso
          have h1 : lastIdx hasData (expand rs) > 0 := (extG_pos_iff _).mpr hr
          have h2 := (ext_rawRows C rs).2 h1
          have h3 := (ext_rawRows C rs).1
          have e := ext_gridEq h
          rw [lastIdx_append, lastIdx_append, if_pos h1, if_pos h2, rowPiece_capped C r hc] at e
          simp only [List.length_cons, List.length_nil, List.length_replicate] at e
          omega
      simp only [noGapRows, Bool.and_eq_true]
      refine ⟨⟨?_, ?_⟩, noGapRows_of_allNone C rs hbelow⟩
      · rw [noGapRow_of_allNone C r.2 (by rw [← allNone_rowValues C]; exact hc2.2)]; simp
      · rw [if_pos (by simpa using hc2)]; exact hbelow
    · rw [rowPiece_plain C r hc] at h
      obtain ⟨hrowEq, hrest⟩ := gridEq_cancel r.1 h
      simp only [noGapRows, Bool.and_eq_true]
      refine ⟨⟨?_, ?_⟩, ih hrest⟩
      · by_cases h0 : r.1 = 0
        · simp [h0]
        · rw [noGapRow_of_rowEq C hcell r.2 (hrowEq (by omega))]; simp
      · rw [if_neg (by simpa using hc)]

/-- the hypothesis of `sheetData_cells` is exact -/
theorem sheetData_cells_iff (C : Caps) (hcell : C.cell > 0) (hrow : C.row > 0) (rows : List RRow) :
    noGapRows C rows = true ↔ GridEq (sheetData C rows) (expand rows) := by
  constructor
  · exact sheetData_cells C rows
  · intro h
    apply noGapRows_of_gridEq C hcell hrow rows
    rw [sheetData_eq] at h
    exact gridEq_trans (fun i j => (sheetOf_cells (rawRows C rows) i j).symm) h

end S2T.Tables.Ods
