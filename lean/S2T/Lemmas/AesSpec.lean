import S2T.Lemmas.AesBytes
import S2T.Model.Aes
/-!
Structural lemmas about the FIPS-197 specification: every transformation maps 16-byte blocks to 16-byte blocks,
the inverse transformations invert them, InvCipher ∘ Cipher = id, the key schedule produces Nr+1 round keys of
16 bytes.  Independent of the Python source (only `IsBytes` is taken from the model file).
-/
namespace S2T.AesL
open S2T.Aes (IsBytes)
open S2T.Spec.Fips197

/-! ### generic list / fold lemmas -/

theorem list16 {α} (s : List α) (h : s.length = 16) :
    ∃ a0 a1 a2 a3 a4 a5 a6 a7 a8 a9 a10 a11 a12 a13 a14 a15,
      s = [a0, a1, a2, a3, a4, a5, a6, a7, a8, a9, a10, a11, a12, a13, a14, a15] := by
  match s, h with
  | [a0, a1, a2, a3, a4, a5, a6, a7, a8, a9, a10, a11, a12, a13, a14, a15], _ =>
    exact ⟨a0, a1, a2, a3, a4, a5, a6, a7, a8, a9, a10, a11, a12, a13, a14, a15, rfl⟩

theorem list4 {α} (s : List α) (h : s.length = 4) : ∃ a0 a1 a2 a3, s = [a0, a1, a2, a3] := by
  match s, h with
  | [a0, a1, a2, a3], _ => exact ⟨a0, a1, a2, a3, rfl⟩

theorem foldl_inv {σ β} (P : σ → Prop) (f : σ → β → σ) (l : List β)
    (h : ∀ st b, b ∈ l → P st → P (f st b)) : ∀ st, P st → P (l.foldl f st) := by
  induction l with
  | nil => intro st hst; exact hst
  | cons b t ih =>
    intro st hst
    simp only [List.foldl_cons]
    exact ih (fun st' b' hb' => h st' b' (List.mem_cons_of_mem _ hb')) _ (h st b (List.mem_cons_self ..) hst)

theorem foldl_congr_inv {σ β} (P : σ → Prop) (f g : σ → β → σ) (l : List β)
    (h : ∀ st b, b ∈ l → P st → f st b = g st b ∧ P (g st b)) :
    ∀ st, P st → l.foldl f st = l.foldl g st ∧ P (l.foldl g st) := by
  induction l with
  | nil => intro st hst; exact ⟨rfl, hst⟩
  | cons b t ih =>
    intro st hst
    simp only [List.foldl_cons]
    obtain ⟨e, p⟩ := h st b (List.mem_cons_self ..) hst
    rw [e]
    exact ih (fun st' b' hb' => h st' b' (List.mem_cons_of_mem _ hb')) _ p

/-- a forward pass followed by the reversed pass of step-wise inverses is the identity -/
theorem foldl_cancel {σ β} (P : σ → Prop) (f g : σ → β → σ) (l : List β)
    (h : ∀ st b, b ∈ l → P st → P (f st b) ∧ g (f st b) b = st) :
    ∀ st, P st → l.reverse.foldl g (l.foldl f st) = st := by
  induction l with
  | nil => intro st _; rfl
  | cons b t ih =>
    intro st hst
    obtain ⟨p, e⟩ := h st b (List.mem_cons_self ..) hst
    simp only [List.foldl_cons, List.reverse_cons, List.foldl_append, List.foldl_nil]
    rw [ih (fun st' b' hb' => h st' b' (List.mem_cons_of_mem _ hb')) _ p, e]

/-- `h` commutes with the steps ⇒ with the fold -/
theorem foldl_comm {σ τ β} (h : σ → τ) (f : σ → β → σ) (f' : τ → β → τ) (l : List β)
    (hc : ∀ st b, h (f st b) = f' (h st) b) : ∀ st, h (l.foldl f st) = l.foldl f' (h st) := by
  induction l with
  | nil => intro st; rfl
  | cons b t ih => intro st; simp only [List.foldl_cons]; rw [ih, hc]

theorem foldl_range'_inv {σ} (P : Nat → σ → Prop) (f : σ → Nat → σ) :
    ∀ n s st, P s st → (∀ i st, s ≤ i → i < s + n → P i st → P (i + 1) (f st i)) →
      P (s + n) ((List.range' s n).foldl f st) := by
  intro n
  induction n with
  | zero => intro s st h _; simpa using h
  | succ n ih =>
    intro s st h hs
    rw [List.range'_succ, List.foldl_cons]
    have := ih (s + 1) (f st s) (hs s st (Nat.le_refl _) (by omega) h)
      (fun i st' h1 h2 h3 => hs i st' (by omega) (by omega) h3)
    have e : s + 1 + n = s + (n + 1) := by omega
    rw [e] at this
    exact this

/-! ### bytes and blocks -/

theorem isBytes_nil : IsBytes [] := by intro b hb; cases hb
theorem isBytes_cons {a : Nat} {l : List Nat} : IsBytes (a :: l) ↔ a < 256 ∧ IsBytes l := by
  simp [IsBytes]
theorem isBytes_append {l m : List Nat} : IsBytes (l ++ m) ↔ IsBytes l ∧ IsBytes m := by
  simp only [IsBytes, List.mem_append]
  constructor
  · intro h; exact ⟨fun b hb => h b (Or.inl hb), fun b hb => h b (Or.inr hb)⟩
  · rintro ⟨h1, h2⟩ b (hb | hb)
    · exact h1 b hb
    · exact h2 b hb

/-- a 16-byte block -/
def Block (s : List Nat) : Prop := s.length = 16 ∧ IsBytes s

instance (s : List Nat) : Decidable (Block s) := by unfold Block; infer_instance

theorem isBytes_zipWith_xor {a b : List Nat} (ha : IsBytes a) (hb : IsBytes b) :
    IsBytes (List.zipWith (· ^^^ ·) a b) := by
  induction a generalizing b with
  | nil => simpa using isBytes_nil
  | cons x t ih =>
    cases b with
    | nil => simpa using isBytes_nil
    | cons y u =>
      simp only [List.zipWith_cons_cons]
      rw [isBytes_cons] at ha hb ⊢
      exact ⟨xor_lt ha.1 hb.1, ih ha.2 hb.2⟩

theorem addRoundKey_block {s k : List Nat} (hs : Block s) (hk : Block k) : Block (addRoundKey s k) := by
  refine ⟨?_, isBytes_zipWith_xor hs.2 hk.2⟩
  simp [addRoundKey, hs.1, hk.1]

theorem zipWith_xor_cancel {s k : List Nat} (h : s.length = k.length) :
    List.zipWith (· ^^^ ·) (List.zipWith (· ^^^ ·) s k) k = s := by
  induction s generalizing k with
  | nil => simp
  | cons x t ih =>
    cases k with
    | nil => simp at h
    | cons y u =>
      simp only [List.zipWith_cons_cons, List.length_cons, Nat.add_right_cancel_iff] at h ⊢
      rw [ih h]
      congr 1
      rw [Nat.xor_comm x y, Nat.xor_comm, xcl]

theorem addRoundKey_cancel {s k : List Nat} (hs : Block s) (hk : Block k) :
    addRoundKey (addRoundKey s k) k = s := zipWith_xor_cancel (by rw [hs.1, hk.1])

theorem subBytes_block {s : List Nat} (hs : Block s) : Block (subBytes s) := by
  refine ⟨by simp [subBytes, hs.1], ?_⟩
  intro b hb
  obtain ⟨a, ha, rfl⟩ := List.mem_map.mp hb
  exact sbox_lt a (hs.2 a ha)

theorem invSubBytes_block {s : List Nat} (hs : Block s) : Block (invSubBytes s) := by
  refine ⟨by simp [invSubBytes, hs.1], ?_⟩
  intro b hb
  obtain ⟨a, ha, rfl⟩ := List.mem_map.mp hb
  exact invSbox_lt a (hs.2 a ha)

theorem invSubBytes_subBytes {s : List Nat} (hs : IsBytes s) : invSubBytes (subBytes s) = s := by
  simp only [invSubBytes, subBytes, List.map_map]
  conv => rhs; rw [← List.map_id s]
  apply List.map_congr_left
  intro a ha
  exact invSbox_sbox a (hs a ha)

theorem subBytes_invSubBytes {s : List Nat} (hs : IsBytes s) : subBytes (invSubBytes s) = s := by
  simp only [invSubBytes, subBytes, List.map_map]
  conv => rhs; rw [← List.map_id s]
  apply List.map_congr_left
  intro a ha
  exact sbox_invSbox a (hs a ha)

theorem shiftRows_block {s : List Nat} (hs : Block s) : Block (shiftRows s) := by
  obtain ⟨hl, hb⟩ := hs
  obtain ⟨a0, a1, a2, a3, a4, a5, a6, a7, a8, a9, a10, a11, a12, a13, a14, a15, rfl⟩ := list16 s hl
  refine ⟨rfl, ?_⟩
  show IsBytes [a0, a5, a10, a15, a4, a9, a14, a3, a8, a13, a2, a7, a12, a1, a6, a11]
  simp only [isBytes_cons] at hb ⊢
  simp [hb]

theorem invShiftRows_block {s : List Nat} (hs : Block s) : Block (invShiftRows s) := by
  obtain ⟨hl, hb⟩ := hs
  obtain ⟨a0, a1, a2, a3, a4, a5, a6, a7, a8, a9, a10, a11, a12, a13, a14, a15, rfl⟩ := list16 s hl
  refine ⟨rfl, ?_⟩
  show IsBytes [a0, a13, a10, a7, a4, a1, a14, a11, a8, a5, a2, a15, a12, a9, a6, a3]
  simp only [isBytes_cons] at hb ⊢
  simp [hb]

theorem invShiftRows_shiftRows {s : List Nat} (hl : s.length = 16) : invShiftRows (shiftRows s) = s := by
  obtain ⟨a0, a1, a2, a3, a4, a5, a6, a7, a8, a9, a10, a11, a12, a13, a14, a15, rfl⟩ := list16 s hl
  rfl

theorem shiftRows_invShiftRows {s : List Nat} (hl : s.length = 16) : shiftRows (invShiftRows s) = s := by
  obtain ⟨a0, a1, a2, a3, a4, a5, a6, a7, a8, a9, a10, a11, a12, a13, a14, a15, rfl⟩ := list16 s hl
  rfl

/-! ### MixColumns -/

/-- one column of (5.6), `{01}•a` written `a` -/
def mcol (a0 a1 a2 a3 : Nat) : List Nat :=
  [gmul a0 2 ^^^ gmul a1 3 ^^^ a2 ^^^ a3, a0 ^^^ gmul a1 2 ^^^ gmul a2 3 ^^^ a3,
   a0 ^^^ a1 ^^^ gmul a2 2 ^^^ gmul a3 3, gmul a0 3 ^^^ a1 ^^^ a2 ^^^ gmul a3 2]

/-- one column of (5.10) -/
def imcol (a0 a1 a2 a3 : Nat) : List Nat :=
  [gmul a0 14 ^^^ gmul a1 11 ^^^ gmul a2 13 ^^^ gmul a3 9, gmul a0 9 ^^^ gmul a1 14 ^^^ gmul a2 11 ^^^ gmul a3 13,
   gmul a0 13 ^^^ gmul a1 9 ^^^ gmul a2 14 ^^^ gmul a3 11, gmul a0 11 ^^^ gmul a1 13 ^^^ gmul a2 9 ^^^ gmul a3 14]

theorem mixcol_dot {a b c d : Nat} (ha : a < 256) (hb : b < 256) (hc : c < 256) (hd : d < 256) :
    mixMatrix.map (fun row => dot row [a, b, c, d]) = mcol a b c d := by
  simp [mixMatrix, dot, mcol, gmul_one _ ha, gmul_one _ hb, gmul_one _ hc, gmul_one _ hd]

theorem invmixcol_dot (a b c d : Nat) :
    invMixMatrix.map (fun row => dot row [a, b, c, d]) = imcol a b c d := by
  simp [invMixMatrix, dot, imcol]

theorem mixColumns_expl {a0 a1 a2 a3 a4 a5 a6 a7 a8 a9 a10 a11 a12 a13 a14 a15 : Nat}
    (hb : IsBytes [a0, a1, a2, a3, a4, a5, a6, a7, a8, a9, a10, a11, a12, a13, a14, a15]) :
    mixColumns [a0, a1, a2, a3, a4, a5, a6, a7, a8, a9, a10, a11, a12, a13, a14, a15]
      = mcol a0 a1 a2 a3 ++ mcol a4 a5 a6 a7 ++ mcol a8 a9 a10 a11 ++ mcol a12 a13 a14 a15 := by
  simp only [isBytes_cons] at hb
  obtain ⟨h0, h1, h2, h3, h4, h5, h6, h7, h8, h9, h10, h11, h12, h13, h14, h15, _⟩ := hb
  have e : mixColumns [a0, a1, a2, a3, a4, a5, a6, a7, a8, a9, a10, a11, a12, a13, a14, a15]
      = mixMatrix.map (fun row => dot row [a0, a1, a2, a3]) ++ (mixMatrix.map (fun row => dot row [a4, a5, a6, a7])
        ++ (mixMatrix.map (fun row => dot row [a8, a9, a10, a11])
        ++ (mixMatrix.map (fun row => dot row [a12, a13, a14, a15]) ++ []))) := rfl
  rw [e, mixcol_dot h0 h1 h2 h3, mixcol_dot h4 h5 h6 h7, mixcol_dot h8 h9 h10 h11, mixcol_dot h12 h13 h14 h15]
  simp

theorem invMixColumns_expl (a0 a1 a2 a3 a4 a5 a6 a7 a8 a9 a10 a11 a12 a13 a14 a15 : Nat) :
    invMixColumns [a0, a1, a2, a3, a4, a5, a6, a7, a8, a9, a10, a11, a12, a13, a14, a15]
      = imcol a0 a1 a2 a3 ++ imcol a4 a5 a6 a7 ++ imcol a8 a9 a10 a11 ++ imcol a12 a13 a14 a15 := by
  have e : invMixColumns [a0, a1, a2, a3, a4, a5, a6, a7, a8, a9, a10, a11, a12, a13, a14, a15]
      = invMixMatrix.map (fun row => dot row [a0, a1, a2, a3]) ++ (invMixMatrix.map (fun row => dot row [a4, a5, a6, a7])
        ++ (invMixMatrix.map (fun row => dot row [a8, a9, a10, a11])
        ++ (invMixMatrix.map (fun row => dot row [a12, a13, a14, a15]) ++ []))) := rfl
  rw [e, invmixcol_dot, invmixcol_dot, invmixcol_dot, invmixcol_dot]
  simp

theorem mcol_bytes {a b c d : Nat} (ha : a < 256) (hb : b < 256) (hc : c < 256) (hd : d < 256) :
    IsBytes (mcol a b c d) := by
  have A := gmul_lt a ha; have B := gmul_lt b hb; have C := gmul_lt c hc; have D := gmul_lt d hd
  simp only [mcol, isBytes_cons]
  refine ⟨?_, ?_, ?_, ?_, isBytes_nil⟩
  · exact xor_lt (xor_lt (xor_lt A.1 B.2.1) hc) hd
  · exact xor_lt (xor_lt (xor_lt ha B.1) C.2.1) hd
  · exact xor_lt (xor_lt (xor_lt ha hb) C.1) D.2.1
  · exact xor_lt (xor_lt (xor_lt A.2.1 hb) hc) D.1

theorem imcol_bytes {a b c d : Nat} (ha : a < 256) (hb : b < 256) (hc : c < 256) (hd : d < 256) :
    IsBytes (imcol a b c d) := by
  obtain ⟨_, _, a9, a11, a13, a14⟩ := gmul_lt a ha
  obtain ⟨_, _, b9, b11, b13, b14⟩ := gmul_lt b hb
  obtain ⟨_, _, c9, c11, c13, c14⟩ := gmul_lt c hc
  obtain ⟨_, _, d9, d11, d13, d14⟩ := gmul_lt d hd
  simp only [imcol, isBytes_cons]
  refine ⟨?_, ?_, ?_, ?_, isBytes_nil⟩
  · exact xor_lt (xor_lt (xor_lt a14 b11) c13) d9
  · exact xor_lt (xor_lt (xor_lt a9 b14) c11) d13
  · exact xor_lt (xor_lt (xor_lt a13 b9) c14) d11
  · exact xor_lt (xor_lt (xor_lt a11 b13) c9) d14

/-- InvMixColumns ∘ MixColumns on one column, from linearity of •9, •11, •13, •14 and the matrix product -/
theorem imcol_mcol {a b c d : Nat} (ha : a < 256) (hb : b < 256) (hc : c < 256) (hd : d < 256) :
    imcol (gmul a 2 ^^^ gmul b 3 ^^^ c ^^^ d) (a ^^^ gmul b 2 ^^^ gmul c 3 ^^^ d)
      (a ^^^ b ^^^ gmul c 2 ^^^ gmul d 3) (gmul a 3 ^^^ b ^^^ c ^^^ gmul d 2) = [a, b, c, d] := by
  obtain ⟨a2, a3, -⟩ := gmul_lt a ha
  obtain ⟨b2, b3, -⟩ := gmul_lt b hb
  obtain ⟨c2, c3, -⟩ := gmul_lt c hc
  obtain ⟨d2, d3, -⟩ := gmul_lt d hd
  have L9 : ∀ {x y z w : Nat}, x < 256 → y < 256 → z < 256 → w < 256 →
      gmul (x ^^^ y ^^^ z ^^^ w) 9 = gmul x 9 ^^^ gmul y 9 ^^^ gmul z 9 ^^^ gmul w 9 :=
    fun hx hy hz hw => lin4 lin9 hx hy hz hw
  have L11 : ∀ {x y z w : Nat}, x < 256 → y < 256 → z < 256 → w < 256 →
      gmul (x ^^^ y ^^^ z ^^^ w) 11 = gmul x 11 ^^^ gmul y 11 ^^^ gmul z 11 ^^^ gmul w 11 :=
    fun hx hy hz hw => lin4 lin11 hx hy hz hw
  have L13 : ∀ {x y z w : Nat}, x < 256 → y < 256 → z < 256 → w < 256 →
      gmul (x ^^^ y ^^^ z ^^^ w) 13 = gmul x 13 ^^^ gmul y 13 ^^^ gmul z 13 ^^^ gmul w 13 :=
    fun hx hy hz hw => lin4 lin13 hx hy hz hw
  have L14 : ∀ {x y z w : Nat}, x < 256 → y < 256 → z < 256 → w < 256 →
      gmul (x ^^^ y ^^^ z ^^^ w) 14 = gmul x 14 ^^^ gmul y 14 ^^^ gmul z 14 ^^^ gmul w 14 :=
    fun hx hy hz hw => lin4 lin14 hx hy hz hw
  have Da := comp_d a ha; have Db := comp_d b hb; have Dc := comp_d c hc; have Dd := comp_d d hd
  have Z1a := comp_z1 a ha; have Z1b := comp_z1 b hb; have Z1c := comp_z1 c hc; have Z1d := comp_z1 d hd
  have Z2a := comp_z2 a ha; have Z2b := comp_z2 b hb; have Z2c := comp_z2 c hc; have Z2d := comp_z2 d hd
  have Z3a := comp_z3 a ha; have Z3b := comp_z3 b hb; have Z3c := comp_z3 c hc; have Z3d := comp_z3 d hd
  unfold imcol
  rw [L14 a2 b3 hc hd, L11 ha b2 c3 hd, L13 ha hb c2 d3, L9 a3 hb hc d2,
      L9 a2 b3 hc hd, L14 ha b2 c3 hd, L11 ha hb c2 d3, L13 a3 hb hc d2,
      L13 a2 b3 hc hd, L9 ha b2 c3 hd, L14 ha hb c2 d3, L11 a3 hb hc d2,
      L11 a2 b3 hc hd, L13 ha b2 c3 hd, L9 ha hb c2 d3, L14 a3 hb hc d2]
  congr 1
  · calc _ = (gmul (gmul a 2) 14 ^^^ gmul a 11 ^^^ gmul a 13 ^^^ gmul (gmul a 3) 9)
            ^^^ (gmul (gmul b 3) 14 ^^^ gmul (gmul b 2) 11 ^^^ gmul b 13 ^^^ gmul b 9)
            ^^^ (gmul c 14 ^^^ gmul (gmul c 3) 11 ^^^ gmul (gmul c 2) 13 ^^^ gmul c 9)
            ^^^ (gmul d 14 ^^^ gmul d 11 ^^^ gmul (gmul d 3) 13 ^^^ gmul (gmul d 2) 9) := by ac_rfl
      _ = a := by rw [Da, Z1b, Z2c, Z3d]; simp
  congr 1
  · calc _ = (gmul a 14 ^^^ gmul a 11 ^^^ gmul (gmul a 3) 13 ^^^ gmul (gmul a 2) 9)
            ^^^ (gmul (gmul b 2) 14 ^^^ gmul b 11 ^^^ gmul b 13 ^^^ gmul (gmul b 3) 9)
            ^^^ (gmul (gmul c 3) 14 ^^^ gmul (gmul c 2) 11 ^^^ gmul c 13 ^^^ gmul c 9)
            ^^^ (gmul d 14 ^^^ gmul (gmul d 3) 11 ^^^ gmul (gmul d 2) 13 ^^^ gmul d 9) := by ac_rfl
      _ = b := by rw [Z3a, Db, Z1c, Z2d]; simp
  congr 1
  · calc _ = (gmul a 14 ^^^ gmul (gmul a 3) 11 ^^^ gmul (gmul a 2) 13 ^^^ gmul a 9)
            ^^^ (gmul b 14 ^^^ gmul b 11 ^^^ gmul (gmul b 3) 13 ^^^ gmul (gmul b 2) 9)
            ^^^ (gmul (gmul c 2) 14 ^^^ gmul c 11 ^^^ gmul c 13 ^^^ gmul (gmul c 3) 9)
            ^^^ (gmul (gmul d 3) 14 ^^^ gmul (gmul d 2) 11 ^^^ gmul d 13 ^^^ gmul d 9) := by ac_rfl
      _ = c := by rw [Z2a, Z3b, Dc, Z1d]; simp
  congr 1
  · calc _ = (gmul (gmul a 3) 14 ^^^ gmul (gmul a 2) 11 ^^^ gmul a 13 ^^^ gmul a 9)
            ^^^ (gmul b 14 ^^^ gmul (gmul b 3) 11 ^^^ gmul (gmul b 2) 13 ^^^ gmul b 9)
            ^^^ (gmul c 14 ^^^ gmul c 11 ^^^ gmul (gmul c 3) 13 ^^^ gmul (gmul c 2) 9)
            ^^^ (gmul (gmul d 2) 14 ^^^ gmul d 11 ^^^ gmul d 13 ^^^ gmul (gmul d 3) 9) := by ac_rfl
      _ = d := by rw [Z1a, Z2b, Z3c, Dd]; simp


theorem mixColumns_block {s : List Nat} (hs : Block s) : Block (mixColumns s) := by
  obtain ⟨hl, hb⟩ := hs
  obtain ⟨a0, a1, a2, a3, a4, a5, a6, a7, a8, a9, a10, a11, a12, a13, a14, a15, rfl⟩ := list16 s hl
  rw [mixColumns_expl hb]
  simp only [isBytes_cons] at hb
  obtain ⟨h0, h1, h2, h3, h4, h5, h6, h7, h8, h9, h10, h11, h12, h13, h14, h15, _⟩ := hb
  refine ⟨rfl, ?_⟩
  simp only [isBytes_append]
  exact ⟨⟨⟨mcol_bytes h0 h1 h2 h3, mcol_bytes h4 h5 h6 h7⟩, mcol_bytes h8 h9 h10 h11⟩, mcol_bytes h12 h13 h14 h15⟩

theorem invMixColumns_block {s : List Nat} (hs : Block s) : Block (invMixColumns s) := by
  obtain ⟨hl, hb⟩ := hs
  obtain ⟨a0, a1, a2, a3, a4, a5, a6, a7, a8, a9, a10, a11, a12, a13, a14, a15, rfl⟩ := list16 s hl
  rw [invMixColumns_expl]
  simp only [isBytes_cons] at hb
  obtain ⟨h0, h1, h2, h3, h4, h5, h6, h7, h8, h9, h10, h11, h12, h13, h14, h15, _⟩ := hb
  refine ⟨rfl, ?_⟩
  simp only [isBytes_append]
  exact ⟨⟨⟨imcol_bytes h0 h1 h2 h3, imcol_bytes h4 h5 h6 h7⟩, imcol_bytes h8 h9 h10 h11⟩, imcol_bytes h12 h13 h14 h15⟩

theorem invMixColumns_mixColumns {s : List Nat} (hs : Block s) : invMixColumns (mixColumns s) = s := by
  obtain ⟨hl, hb⟩ := hs
  obtain ⟨a0, a1, a2, a3, a4, a5, a6, a7, a8, a9, a10, a11, a12, a13, a14, a15, rfl⟩ := list16 s hl
  rw [mixColumns_expl hb]
  simp only [isBytes_cons] at hb
  obtain ⟨h0, h1, h2, h3, h4, h5, h6, h7, h8, h9, h10, h11, h12, h13, h14, h15, _⟩ := hb
  simp only [mcol, List.cons_append, List.nil_append]
  rw [invMixColumns_expl, imcol_mcol h0 h1 h2 h3, imcol_mcol h4 h5 h6 h7, imcol_mcol h8 h9 h10 h11,
    imcol_mcol h12 h13 h14 h15]
  rfl

/-! ### Cipher / InvCipher -/

/-- round keys 0 … nr are 16-byte blocks -/
def RKOk (rk : Nat → List Nat) (nr : Nat) : Prop := ∀ r, r ≤ nr → Block (rk r)

theorem mem_range'_1 {r n : Nat} (h : r ∈ List.range' 1 (n - 1)) : 1 ≤ r ∧ r ≤ n := by
  obtain ⟨i, hi, rfl⟩ := List.mem_range'.mp h
  omega

theorem cipherRK_block {rk : Nat → List Nat} {nr : Nat} {b : List Nat} (hrk : RKOk rk nr) (hb : Block b) :
    Block (cipherRK rk nr b) := by
  unfold cipherRK
  apply addRoundKey_block _ (hrk nr (Nat.le_refl _))
  apply shiftRows_block; apply subBytes_block
  apply foldl_inv Block
  · intro st r hr hst
    exact addRoundKey_block (mixColumns_block (shiftRows_block (subBytes_block hst))) (hrk r (mem_range'_1 hr).2)
  · exact addRoundKey_block hb (hrk 0 (Nat.zero_le _))

theorem invCipherRK_block {rk : Nat → List Nat} {nr : Nat} {b : List Nat} (hrk : RKOk rk nr) (hb : Block b) :
    Block (invCipherRK rk nr b) := by
  unfold invCipherRK
  apply addRoundKey_block _ (hrk 0 (Nat.zero_le _))
  apply invSubBytes_block; apply invShiftRows_block
  apply foldl_inv Block
  · intro st r hr hst
    exact invMixColumns_block (addRoundKey_block (invSubBytes_block (invShiftRows_block hst))
      (hrk r (mem_range'_1 (List.mem_reverse.mp hr)).2))
  · exact addRoundKey_block hb (hrk nr (Nat.le_refl _))

/-- FIPS-197 InvCipher inverts Cipher, for every number of rounds and every sequence of 16-byte round keys -/
theorem invCipherRK_cipherRK {rk : Nat → List Nat} {nr : Nat} {b : List Nat} (hrk : RKOk rk nr) (hb : Block b) :
    invCipherRK rk nr (cipherRK rk nr b) = b := by
  have hk0 := hrk 0 (Nat.zero_le _)
  have hkn := hrk nr (Nat.le_refl _)
  -- the cipher with the state observed after ShiftRows∘SubBytes
  let F' : List Nat → Nat → List Nat := fun t r => shiftRows (subBytes (addRoundKey (mixColumns t) (rk r)))
  let G : List Nat → Nat → List Nat := fun s r => invMixColumns (addRoundKey (invSubBytes (invShiftRows s)) (rk r))
  let l := List.range' 1 (nr - 1)
  let t0 := shiftRows (subBytes (addRoundKey b (rk 0)))
  have ht0 : Block t0 := shiftRows_block (subBytes_block (addRoundKey_block hb hk0))
  have hF : ∀ st r, r ∈ l → Block st → Block (F' st r) ∧ G (F' st r) r = st := by
    intro st r hr hst
    have hkr := hrk r (mem_range'_1 hr).2
    have h1 : Block (addRoundKey (mixColumns st) (rk r)) := addRoundKey_block (mixColumns_block hst) hkr
    refine ⟨shiftRows_block (subBytes_block h1), ?_⟩
    show invMixColumns (addRoundKey (invSubBytes (invShiftRows (shiftRows (subBytes
      (addRoundKey (mixColumns st) (rk r)))))) (rk r)) = st
    rw [invShiftRows_shiftRows (subBytes_block h1).1, invSubBytes_subBytes h1.2,
      addRoundKey_cancel (mixColumns_block hst) hkr, invMixColumns_mixColumns hst]
  have e1 : cipherRK rk nr b = addRoundKey (l.foldl F' t0) (rk nr) := by
    have := foldl_comm (fun s => shiftRows (subBytes s))
      (fun s r => addRoundKey (mixColumns (shiftRows (subBytes s))) (rk r)) F' l (fun _ _ => rfl)
      (addRoundKey b (rk 0))
    exact congrArg (fun x => addRoundKey x (rk nr)) this
  have hfold : Block (l.foldl F' t0) := foldl_inv Block F' l (fun st r hr hst => (hF st r hr hst).1) t0 ht0
  rw [e1]
  unfold invCipherRK
  rw [addRoundKey_cancel hfold hkn]
  show addRoundKey (invSubBytes (invShiftRows (l.reverse.foldl G (l.foldl F' t0)))) (rk 0) = b
  rw [foldl_cancel Block F' G l hF t0 ht0]
  show addRoundKey (invSubBytes (invShiftRows (shiftRows (subBytes (addRoundKey b (rk 0)))))) (rk 0) = b
  have h0 := addRoundKey_block hb hk0
  rw [invShiftRows_shiftRows (subBytes_block h0).1, invSubBytes_subBytes h0.2, addRoundKey_cancel hb hk0]

/-! ### key schedule -/

/-- an AES key: 16, 24 or 32 bytes -/
def KeyOk (key : List Nat) : Prop := (key.length = 16 ∨ key.length = 24 ∨ key.length = 32) ∧ IsBytes key

instance (key : List Nat) : Decidable (KeyOk key) := by unfold KeyOk; infer_instance

def Word (x : List Nat) : Prop := x.length = 4 ∧ IsBytes x

theorem getD_mem {α} {w : List α} {j : Nat} {d : α} (h : j < w.length) : w.getD j d ∈ w := by
  have : w.getD j d = w[j] := by simp [List.getD, List.getElem?_eq_getElem h]
  rw [this]
  exact List.getElem_mem h

theorem rotWord_word {x : List Nat} (h : Word x) : Word (rotWord x) := by
  obtain ⟨hl, hb⟩ := h
  obtain ⟨a, b, c, d, rfl⟩ := list4 x hl
  refine ⟨rfl, ?_⟩
  show IsBytes [b, c, d, a]
  simp only [isBytes_cons] at hb ⊢
  simp [hb]

theorem subWord_word {x : List Nat} (h : Word x) : Word (subWord x) := by
  refine ⟨by simp [subWord, h.1], ?_⟩
  intro b hb
  obtain ⟨a, ha, rfl⟩ := List.mem_map.mp hb
  exact sbox_lt a (h.2 a ha)

theorem xorWords_word {x y : List Nat} (hx : Word x) (hy : Word y) : Word (xorWords x y) :=
  ⟨by simp [xorWords, hx.1, hy.1], isBytes_zipWith_xor hx.2 hy.2⟩

theorem expandStep_inv {nk : Nat} (hnk : nk = 4 ∨ nk = 6 ∨ nk = 8) (w : List (List Nat)) (i : Nat)
    (hi : nk ≤ i) (hi2 : i < 4 * (nk + 7)) (hw : w.length = i ∧ ∀ x ∈ w, Word x) :
    (expandStep nk w i).length = i + 1 ∧ ∀ x ∈ expandStep nk w i, Word x := by
  obtain ⟨hl, hwd⟩ := hw
  have hpos : 0 < nk := by omega
  have ht : Word (w.getD (i - 1) []) := hwd _ (getD_mem (by omega))
  have hp : Word (w.getD (i - nk) []) := hwd _ (getD_mem (by omega))
  have hrc : Word [rcon (i / nk), 0, 0, 0] := by
    refine ⟨rfl, ?_⟩
    have : rcon (i / nk) < 256 := by
      apply rcon_lt
      rcases hnk with rfl | rfl | rfl <;> omega
    simp [isBytes_cons, this, isBytes_nil]
  unfold expandStep
  refine ⟨by simp [hl], ?_⟩
  intro x hx
  rcases List.mem_append.mp hx with hx | hx
  · exact hwd x hx
  · simp only [List.mem_singleton] at hx
    subst hx
    apply xorWords_word hp
    split
    · exact xorWords_word (subWord_word (rotWord_word ht)) hrc
    · split
      · exact subWord_word ht
      · exact ht

theorem keyExpansion_inv {key : List Nat} (hk : KeyOk key) :
    (keyExpansion key).length = 4 * (Nr key + 1) ∧ ∀ x ∈ keyExpansion key, Word x := by
  obtain ⟨hlen, hb⟩ := hk
  have hnk : (Nk key = 4 ∨ Nk key = 6 ∨ Nk key = 8) ∧ key.length = 4 * Nk key := by
    unfold Nk; rcases hlen with h | h | h <;> rw [h] <;> decide
  obtain ⟨hnk, hlen4⟩ := hnk
  unfold keyExpansion
  have hsum : Nk key + (4 * (Nr key + 1) - Nk key) = 4 * (Nr key + 1) := by unfold Nr; omega
  have := foldl_range'_inv (fun i (w : List (List Nat)) => w.length = i ∧ ∀ x ∈ w, Word x) (expandStep (Nk key))
    (4 * (Nr key + 1) - Nk key) (Nk key)
    ((List.range (Nk key)).map fun i => (key.drop (4 * i)).take 4)
    (by
      refine ⟨by simp, ?_⟩
      intro x hx
      obtain ⟨i, hi, rfl⟩ := List.mem_map.mp hx
      have hi := List.mem_range.mp hi
      refine ⟨by simp only [List.length_take, List.length_drop]; omega, ?_⟩
      intro b hb'
      exact hb b (List.mem_of_mem_drop (List.mem_of_mem_take hb')))
    (by
      intro i st h1 h2 h3
      exact expandStep_inv hnk st i h1 (by unfold Nr at h2; omega) h3)
  rw [hsum] at this
  exact this

theorem roundKey_block {w : List (List Nat)} {n r : Nat} (hl : w.length = 4 * (n + 1)) (hw : ∀ x ∈ w, Word x)
    (hr : r ≤ n) : Block (roundKey w r) := by
  have hlen : ((w.drop (4 * r)).take 4).length = 4 := by
    simp only [List.length_take, List.length_drop]; omega
  obtain ⟨x0, x1, x2, x3, e⟩ := list4 _ hlen
  have hm : ∀ x ∈ [x0, x1, x2, x3], Word x := by
    intro x hx; rw [← e] at hx
    exact hw x (List.mem_of_mem_drop (List.mem_of_mem_take hx))
  unfold roundKey
  rw [e]
  obtain ⟨l0, b0⟩ := hm x0 (by simp)
  obtain ⟨l1, b1⟩ := hm x1 (by simp)
  obtain ⟨l2, b2⟩ := hm x2 (by simp)
  obtain ⟨l3, b3⟩ := hm x3 (by simp)
  refine ⟨by simp [l0, l1, l2, l3], ?_⟩
  simp only [List.flatten_cons, List.flatten_nil, List.append_nil, isBytes_append]
  exact ⟨b0, b1, b2, b3⟩

theorem rk_ok {key : List Nat} (hk : KeyOk key) : RKOk (roundKey (keyExpansion key)) (Nr key) := by
  obtain ⟨h1, h2⟩ := keyExpansion_inv hk
  intro r hr
  exact roundKey_block h1 h2 hr

theorem aesEnc_block {key b : List Nat} (hk : KeyOk key) (hb : Block b) : Block (aesEnc key b) :=
  cipherRK_block (rk_ok hk) hb
theorem aesDec_block {key b : List Nat} (hk : KeyOk key) (hb : Block b) : Block (aesDec key b) :=
  invCipherRK_block (rk_ok hk) hb
theorem aesDec_aesEnc {key b : List Nat} (hk : KeyOk key) (hb : Block b) : aesDec key (aesEnc key b) = b :=
  invCipherRK_cipherRK (rk_ok hk) hb

/-! ### modes -/

def Blocks (bs : List (List Nat)) : Prop := ∀ b ∈ bs, Block b

instance (bs : List (List Nat)) : Decidable (Blocks bs) := by unfold Blocks; infer_instance

theorem xorWords_block {a b : List Nat} (ha : Block a) (hb : Block b) : Block (xorWords a b) :=
  addRoundKey_block ha hb

theorem ecbEncrypt_blocks {key : List Nat} {bs : List (List Nat)} (hk : KeyOk key) (hbs : Blocks bs) :
    Blocks (ecbEncrypt key bs) := by
  intro c hc
  obtain ⟨b, hb, rfl⟩ := List.mem_map.mp hc
  exact aesEnc_block hk (hbs b hb)

theorem ecbDecrypt_ecbEncrypt {key : List Nat} {bs : List (List Nat)} (hk : KeyOk key) (hbs : Blocks bs) :
    ecbDecrypt key (ecbEncrypt key bs) = bs := by
  simp only [ecbDecrypt, ecbEncrypt, List.map_map]
  conv => rhs; rw [← List.map_id bs]
  apply List.map_congr_left
  intro b hb
  exact aesDec_aesEnc hk (hbs b hb)

theorem cbcEncrypt_blocks {key : List Nat} (hk : KeyOk key) :
    ∀ (bs : List (List Nat)) (iv : List Nat), Block iv → Blocks bs → Blocks (cbcEncrypt key iv bs) := by
  intro bs
  induction bs with
  | nil => intro iv _ _ c hc; simp [cbcEncrypt] at hc
  | cons p rest ih =>
    intro iv hiv hbs
    have hp : Block p := hbs p (List.mem_cons_self ..)
    have hc : Block (aesEnc key (xorWords p iv)) := aesEnc_block hk (xorWords_block hp hiv)
    intro c hcm
    simp only [cbcEncrypt, List.mem_cons] at hcm
    rcases hcm with rfl | hcm
    · exact hc
    · exact ih _ hc (fun b hb => hbs b (List.mem_cons_of_mem _ hb)) c hcm

theorem cbcDecrypt_cbcEncrypt {key : List Nat} (hk : KeyOk key) :
    ∀ (bs : List (List Nat)) (iv : List Nat), Block iv → Blocks bs →
      cbcDecrypt key iv (cbcEncrypt key iv bs) = bs := by
  intro bs
  induction bs with
  | nil => intro iv _ _; rfl
  | cons p rest ih =>
    intro iv hiv hbs
    have hp : Block p := hbs p (List.mem_cons_self ..)
    have hx : Block (xorWords p iv) := xorWords_block hp hiv
    have hc : Block (aesEnc key (xorWords p iv)) := aesEnc_block hk hx
    simp only [cbcEncrypt, cbcDecrypt]
    rw [aesDec_aesEnc hk hx, ih _ hc (fun b hb => hbs b (List.mem_cons_of_mem _ hb))]
    congr 1
    exact zipWith_xor_cancel (by rw [hp.1, hiv.1])

end S2T.AesL
