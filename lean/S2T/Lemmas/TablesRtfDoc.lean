import S2T.Lemmas.TablesRtfRow
/-! Rows found in a text that is gaps and written rows in turn; the grouping loop without positions. -/
namespace S2T.Tables.Rtf
open S2T.HtmlSkip (Str)
open S2T.Tables

def RowOk (r : RRow) : Prop := r ≠ [] ∧ ∀ c ∈ r, plainCell c = true
def StartsNl (s : Str) : Prop := ∃ t, s = '\n' :: t
/-- what may stand behind a `\row` so that `\\row\b` matches there: nothing, or a character that `\w` does not
    match — a line end, a space, a brace, the backslash of the next control word (`\row\trowd`: rows written
    directly one after the other) -/
def StartsNW (P : Params) (s : Str) : Prop := ∀ c t, s = c :: t → isWord P c = false
/-- neither `\trowd` nor `\row` matches inside the gap, whatever follows -/
def QuietGap (P : Params) (G : Str) : Prop := ∀ b, Quiet P sTrowd G b ∧ Quiet P sRow G b

theorem quiet_cells (P : Params) {kw : Str} (hk : kw = sTrowd ∨ kw = sRow) : ∀ (cs : List RCell) (b : Str),
    (∀ c ∈ cs, plainCell c = true) → Quiet P kw (cs.flatMap cellRtf) b
  | [], b, _ => quiet_nil P kw b
  | c :: cs, b, h => by
    have hk' : IsKw kw := by rcases hk with rfl | rfl <;> simp [IsKw]
    simp only [List.flatMap_cons, cellRtf_eq]
    exact quiet_append _ _ _ _ _
      (quiet_append _ _ _ _ _ (quiet_cellFront P hk' c (h c List.mem_cons_self) _) (quiet_cellEnd P hk _))
      (quiet_cells P hk cs b (fun x hx => h x (List.mem_cons_of_mem _ hx)))

theorem startsNW_of_nl (P : Params) {s : Str} (h : StartsNl s) : StartsNW P s := by
  obtain ⟨t, rfl⟩ := h
  intro c t' he
  cases he
  simp [isWord, isAsciiAlpha, isDigit]

theorem isWord_bs (P : Params) : isWord P '\\' = false := by simp [isWord, isAsciiAlpha, isDigit]
theorem isWord_nl (P : Params) : isWord P '\n' = false := by simp [isWord, isAsciiAlpha, isDigit]

/-- a written row behind its `\trowd` -/
def midRtf (r : RRow) : Str := cellxs 0 r.length ++ ([' '] ++ (r.flatMap cellRtf ++ "\\row".toList))

theorem rowRtf_trowd (r : RRow) : rowRtf r = '\\' :: (sTrowd ++ midRtf r) := by
  unfold rowRtf midRtf
  simp only [List.append_assoc]
  rfl

theorem rowRtf_row (r : RRow) : rowRtf r = ("\\trowd".toList ++ cellxs 0 r.length ++ [' '] ++ r.flatMap cellRtf) ++ ('\\' :: (sRow ++ [])) := by
  unfold rowRtf
  simp only [List.append_nil]
  rfl

theorem findStarts_trowd_row (P : Params) (r : RRow) (hr : RowOk r) (b : Str) (i : Nat) :
    findStarts P sTrowd i (rowRtf r ++ b) = i :: findStarts P sTrowd (i + (rowRtf r).length) b := by
  obtain ⟨hne, hc⟩ := hr
  obtain ⟨n, hn⟩ : ∃ n, r.length = n + 1 := by
    cases r with
    | nil => exact absurd rfl hne
    | cons c cs => exact ⟨cs.length, rfl⟩
  have hat : kwAt P sTrowd ('\\' :: (sTrowd ++ (midRtf r ++ b))) = true := by
    unfold midRtf
    rw [hn, cellxs_succ]
    have : '\\' :: (sTrowd ++ ((cellxW (1500 * (0 + 1)) ++ cellxs (0 + 1) n ++ ([' '] ++ (r.flatMap cellRtf ++ "\\row".toList))) ++ b)) =
        '\\' :: 't' :: 'r' :: 'o' :: 'w' :: 'd' :: '\\' :: ("cellx".toList ++ toDec (1500 * (0 + 1)) ++ cellxs (0 + 1) n ++ ([' '] ++ (r.flatMap cellRtf ++ "\\row".toList)) ++ b) := by
      simp [sTrowd, cellxW]
    rw [this]
    simp [kwAt, sTrowd, List.isPrefixOf, isWord_bs]
  have hq : Quiet P sTrowd (midRtf r) b :=
    quiet_append _ _ _ _ _ (quiet_cellxs P (Or.inr (Or.inl rfl)) _ _ _)
      (quiet_append _ _ _ _ _ (quiet_noBs P _ [' '] _ (noBs_of_all _ (by decide)))
        (quiet_append _ _ _ _ _ (quiet_cells P (Or.inl rfl) r _ hc) (quiet_row_lit P (Or.inr rfl) b)))
  have e : rowRtf r ++ b = '\\' :: (sTrowd ++ (midRtf r ++ b)) := by
    rw [rowRtf_trowd]; simp only [List.cons_append, List.append_assoc]
  rw [e, findStarts_hit P sTrowd _ i (noBs_of_all _ (by decide)) hat,
    findStarts_quiet P sTrowd _ b (i + 1 + sTrowd.length) hq, rowRtf_trowd]
  congr 2
  simp only [List.length_cons, List.length_append]
  omega

theorem findStarts_row_row (P : Params) (r : RRow) (hr : RowOk r) (b : Str) (hb : StartsNW P b) (i : Nat) :
    findStarts P sRow i (rowRtf r ++ b) = (i + (rowRtf r).length - 4) :: findStarts P sRow (i + (rowRtf r).length) b := by
  obtain ⟨hne, hc⟩ := hr
  have hq : Quiet P sRow ("\\trowd".toList ++ cellxs 0 r.length ++ [' '] ++ r.flatMap cellRtf) ('\\' :: (sRow ++ [] ++ b)) :=
    quiet_append _ _ _ _ _ (quiet_append _ _ _ _ _ (quiet_append _ _ _ _ _ (quiet_trowd_lit P (Or.inr rfl) _)
      (quiet_cellxs P (Or.inr (Or.inr rfl)) _ _ _)) (quiet_noBs P _ [' '] _ (noBs_of_all _ (by decide))))
      (quiet_cells P (Or.inr rfl) r _ hc)
  have hat : kwAt P sRow ('\\' :: (sRow ++ b)) = true := by
    cases b with
    | nil => simp [kwAt, sRow, List.isPrefixOf]
    | cons c t =>
      have hw := hb c t rfl
      have : '\\' :: (sRow ++ (c :: t)) = '\\' :: 'r' :: 'o' :: 'w' :: c :: t := rfl
      rw [this]
      simp [kwAt, sRow, List.isPrefixOf, hw]
  have hlen : (rowRtf r).length = ("\\trowd".toList ++ cellxs 0 r.length ++ [' '] ++ r.flatMap cellRtf).length + 4 := by
    rw [rowRtf_row]; simp [sRow]; omega
  rw [hlen]
  rw [rowRtf_row, List.append_assoc, findStarts_quiet P sRow _ _ i (by simpa using hq)]
  have e : '\\' :: (sRow ++ []) ++ b = '\\' :: (sRow ++ b) := by simp
  rw [e, findStarts_hit P sRow _ _ (noBs_of_all _ (by decide)) hat]
  try congr 1
  all_goals try congr 1
  all_goals try (simp [sRow]; omega)

/-! ## a text of gaps and rows -/

abbrev Seg := Str × RRow

def body2 (segs : List Seg) (tail : Str) : Str := segs.flatMap (fun s => s.1 ++ rowRtf s.2) ++ tail

/-- `(trowd_pos, rpos, content)` of the rows when the text in front of them is `i` long -/
def rowsOf : Nat → List Seg → List (Nat × Nat × Str)
  | _, [] => []
  | i, s :: segs =>
    (i + s.1.length, i + s.1.length + (rowRtf s.2).length, rowRtf s.2) :: rowsOf (i + s.1.length + (rowRtf s.2).length) segs

def WellSeg (P : Params) : List Seg → Str → Prop
  | [], tail => Quiet P sTrowd tail [] ∧ Quiet P sRow tail []
  | s :: segs, tail => QuietGap P s.1 ∧ RowOk s.2 ∧ StartsNW P (body2 segs tail) ∧ WellSeg P segs tail

theorem body2_cons (s : Seg) (segs : List Seg) (tail : Str) :
    body2 (s :: segs) tail = s.1 ++ (rowRtf s.2 ++ body2 segs tail) := by
  simp [body2, List.append_assoc]

theorem trowds_body (P : Params) : ∀ (segs : List Seg) (tail : Str) (i : Nat), WellSeg P segs tail →
    findStarts P sTrowd i (body2 segs tail) = (rowsOf i segs).map (·.1)
  | [], tail, i, h => by
    simpa [body2, rowsOf] using findStarts_quiet_nil P sTrowd tail i h.1
  | s :: segs, tail, i, h => by
    obtain ⟨hg, hr, _, hw⟩ := h
    rw [body2_cons, findStarts_quiet P sTrowd _ _ i (hg _).1, findStarts_trowd_row P s.2 hr,
      trowds_body P segs tail _ hw]
    simp [rowsOf]

theorem ends_body (P : Params) : ∀ (segs : List Seg) (tail : Str) (i : Nat), WellSeg P segs tail →
    (findStarts P sRow i (body2 segs tail)).map (· + 4) = (rowsOf i segs).map (·.2.1)
  | [], tail, i, h => by
    simpa [body2, rowsOf] using findStarts_quiet_nil P sRow tail i h.2
  | s :: segs, tail, i, h => by
    obtain ⟨hg, hr, hnl, hw⟩ := h
    have h4 : 4 ≤ (rowRtf s.2).length := by rw [rowRtf_row]; simp [sRow]
    rw [body2_cons, findStarts_quiet P sRow _ _ i (hg _).2, findStarts_row_row P s.2 hr _ hnl, List.map_cons,
      ends_body P segs tail _ hw]
    simp only [rowsOf, List.map_cons]
    try congr 1
    all_goals try omega

end S2T.Tables.Rtf
