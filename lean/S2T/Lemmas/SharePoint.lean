import S2T.Model.SharePoint
/-! Helper lemmas for C18 (core Lean only). -/
namespace S2T.SP

/-! ### 1. state predicates preserved by every client function, for any transport -/

section pres
variable {c : Cfg} {t : Transport} {P : St → Prop}

/-- `P` survives one `_send` and the token-cache update. -/
structure Pres (c : Cfg) (t : Transport) (P : St → Prop) : Prop where
  send : ∀ u s, P s → P (send c t u s).2
  tok : ∀ s x, P s → P { s with token := x }

theorem fetchToken_pres (h : Pres c t P) (s : St) (hs : P s) : P (fetchToken c t s).2 := by
  have h1 := h.send .token s hs
  unfold fetchToken
  split
  · rename_i e s' he; rw [he] at h1; exact h1
  · rename_i s' he; rw [he] at h1; exact h1
  · rename_i s' he; rw [he] at h1; exact h1
  · rename_i o s' he; rw [he] at h1
    split
    · exact h1
    · split
      · exact h1
      · exact h.tok _ _ h1

theorem ensureToken_pres (h : Pres c t P) (s : St) (hs : P s) : P (ensureToken c t s).2 := by
  unfold ensureToken
  split
  · exact hs
  · exact fetchToken_pres h s hs

theorem getJson_pres (h : Pres c t P) (u : Url) (s : St) (hs : P s) : P (getJson c t u s).2 := by
  have h1 := ensureToken_pres h s hs
  unfold getJson
  split
  · rename_i e s' he; rw [he] at h1; exact h1
  · rename_i x s' he; rw [he] at h1
    have h2 := h.send u s' h1
    split
    · rename_i e s'' he2; rw [he2] at h2; exact h2
    · rename_i s'' he2; rw [he2] at h2; exact h2
    · rename_i s'' he2; rw [he2] at h2; exact h2
    · rename_i o s'' he2; rw [he2] at h2; exact h2

theorem pagesWith_pres {α} (h : Pres c t P) (proj : Item → Option α) :
    ∀ fuel u s, P s → P (pagesWith c t proj fuel u s).2 := by
  intro fuel
  induction fuel with
  | zero => intro u s hs; exact hs
  | succ f ih =>
    intro u s hs
    have h1 := getJson_pres h u s hs
    unfold pagesWith
    split
    · rename_i e s' he; rw [he] at h1; exact h1
    · rename_i o s' he; rw [he] at h1
      simp only
      split
      · exact h1
      · rename_i u' _
        have h2 := ih u' s' h1
        split
        · rename_i e s'' he2; rw [he2] at h2; exact h2
        · rename_i m s'' he2; rw [he2] at h2; exact h2

theorem forFolders_pres {rec : Str → Str → St → R (List FileMeta)}
    (hrec : ∀ fid p s, P s → P (rec fid p s).2) (parent : Str) :
    ∀ fs s, P s → P (forFolders rec parent fs s).2 := by
  intro fs
  induction fs with
  | nil => intro s hs; exact hs
  | cons x rest ih =>
    intro s hs
    obtain ⟨name, id⟩ := x
    unfold forFolders
    split
    · exact ih s hs
    · rename_i fid
      split
      · exact ih s hs
      · have h1 := hrec fid (childPath parent name) s hs
        split
        · rename_i e s' he; rw [he] at h1; exact h1
        · rename_i a s' he; rw [he] at h1
          have h2 := ih s' h1
          split
          · rename_i e s'' he2; rw [he2] at h2; exact h2
          · rename_i b s'' he2; rw [he2] at h2; exact h2

theorem walk_pres (h : Pres c t P) (site : Str) :
    ∀ fuel item parent s, P s → P (walk c t site fuel item parent s).2 := by
  intro fuel
  induction fuel with
  | zero => intro item parent s hs; exact hs
  | succ f ih =>
    intro item parent s hs
    have h1 := pagesWith_pres h (fileOf parent) f (Url.children site item) s hs
    unfold walk
    simp only [listPaginated, getFolders]
    split
    · rename_i e s' he; rw [he] at h1; exact h1
    · rename_i files s' he; rw [he] at h1
      have h2 := pagesWith_pres h folderOf f (Url.children site item) s' h1
      split
      · rename_i e s'' he2; rw [he2] at h2; exact h2
      · rename_i folders s'' he2; rw [he2] at h2
        have h3 := forFolders_pres (P := P) (rec := fun fid p s => walk c t site f (some fid) p s)
          (fun fid p s hs => ih (some fid) p s hs) parent folders s'' h2
        split
        · rename_i e s3 he3; rw [he3] at h3; exact h3
        · rename_i b s3 he3; rw [he3] at h3; exact h3

/-- `get_site_id`, given that `P` also survives the site-id cache update actually performed. -/
theorem getSiteId_pres (h : Pres c t P)
    (hsite : ∀ s o id, P s → (getJson c t .site s).1 = .ok o → o.id = some id →
      P { (getJson c t .site s).2 with site := some id })
    (s : St) (hs : P s) : P (getSiteId c t s).2 := by
  have h1 := getJson_pres h .site s hs
  unfold getSiteId
  split
  · exact hs
  · split
    · rename_i e s' he; rw [he] at h1; exact h1
    · rename_i o s' he
      split
      · rename_i id hid
        have := hsite s o id hs (by rw [he]) hid
        rw [he] at this; exact this
      · rw [he] at h1; exact h1

theorem listAll_pres (h : Pres c t P)
    (hsite : ∀ s o id, P s → (getJson c t .site s).1 = .ok o → o.id = some id →
      P { (getJson c t .site s).2 with site := some id })
    (fuel : Nat) (s : St) (hs : P s) : P (listAll c t fuel s).2 := by
  have h1 := getSiteId_pres h hsite s hs
  unfold listAll
  split
  · rename_i e s' he; rw [he] at h1; exact h1
  · rename_i site s' he; rw [he] at h1
    exact walk_pres h site fuel none [] s' h1

end pres

/-! ### 2. the call stops at the first failed request and raises what that request produced -/

/-- the request was answered by a 2xx response whose body is a JSON object -/
def Fine (o : Outcome) : Prop := ∃ st ob, o = .resp st (.obj ob) ∧ ok2xx st = true

/-- what the client may raise when the request for `u` got the outcome `o` -/
def Raised (o : Outcome) (u : Url) (e : Err) : Prop :=
  match o with
  | .urlError => e = .request none u
  | .httpError code => e = .request (some code) u
  | .resp st _ => if ok2xx st then (e = .auth ∨ e = .request none u) else e = .request (some st) u

def AllFine (t : Transport) (l : List (Nat × Url)) : Prop := ∀ p ∈ l, Fine (t p.1 p.2)

/-- Summary of a call that took the log from `l` to `l'` with result `r`: all requests made were fine,
    except that an error result (other than the model's fuel stop) comes from the *last* request made. -/
def Tr (t : Transport) (l : List (Nat × Url)) {α : Type} (r : Except Err α) (l' : List (Nat × Url)) : Prop :=
  ∃ new, l' = new ++ l ∧
    match r with
    | .ok _ => AllFine t new
    | .error e => (e = .outOfFuel ∧ AllFine t new) ∨
        ∃ i u rest, new = (i, u) :: rest ∧ AllFine t rest ∧ Raised (t i u) u e

theorem Raised.family {o u e} (h : Raised o u e) : e.family = true := by
  unfold Raised at h
  split at h
  · subst h; rfl
  · subst h; rfl
  · split at h
    · rcases h with h | h <;> subst h <;> rfl
    · subst h; rfl

section tr
variable {t : Transport}

theorem Tr.ok_refl {α} (l : List (Nat × Url)) (a : α) : Tr t l (.ok a) l :=
  ⟨[], by simp, by intro p hp; cases hp⟩

theorem Tr.fuel {α} (l : List (Nat × Url)) : Tr t l (α := α) (.error .outOfFuel) l :=
  ⟨[], by simp, Or.inl ⟨rfl, by intro p hp; cases hp⟩⟩

theorem Tr.ok_val {α β} {l l'} {a : α} (b : β) (h : Tr t l (.ok a) l') : Tr t l (.ok b) l' := h

theorem Tr.err_ty {α β} {l l'} {e : Err} (h : Tr t l (α := α) (.error e) l') : Tr t l (α := β) (.error e) l' := h

theorem Tr.seq {α β} {l l1 l2} {a : α} {r : Except Err β}
    (h1 : Tr t l (.ok a) l1) (h2 : Tr t l1 r l2) : Tr t l r l2 := by
  obtain ⟨n1, e1, f1⟩ := h1
  obtain ⟨n2, e2, f2⟩ := h2
  refine ⟨n2 ++ n1, by rw [e2, e1, List.append_assoc], ?_⟩
  have happ : ∀ x, AllFine t x → AllFine t (x ++ n1) := by
    intro x hx p hp
    rcases List.mem_append.mp hp with h | h
    · exact hx p h
    · exact f1 p h
  cases r with
  | ok b => exact happ n2 f2
  | error e =>
    rcases f2 with ⟨he, hf⟩ | ⟨i, u, rest, hn, hf, hr⟩
    · exact Or.inl ⟨he, happ n2 hf⟩
    · exact Or.inr ⟨i, u, rest ++ n1, by rw [hn]; rfl, happ rest hf, hr⟩

/-- one `_send`, described completely -/
theorem send_spec (c : Cfg) (u : Url) (s : St) :
    (send c t u s).2.log = (s.log.length, u) :: s.log ∧
    match (send c t u s).1 with
    | .ok b => ∃ st, t s.log.length u = .resp st b ∧ ok2xx st = true
    | .error e => Raised (t s.log.length u) u e ∧ ¬ Fine (t s.log.length u) ∧ e ≠ .auth := by
  unfold send
  simp only
  cases hto : t s.log.length u with
  | urlError =>
    refine ⟨rfl, ?_, ?_, ?_⟩
    · simp [Raised]
    · rintro ⟨st, ob, h, _⟩; cases h
    · intro h; cases h
  | httpError code =>
    refine ⟨rfl, ?_, ?_, ?_⟩
    · simp [Raised]
    · rintro ⟨st, ob, h, _⟩; cases h
    · intro h; cases h
  | resp st b =>
    simp only
    by_cases hok : ok2xx st = true
    · simp only [hok, if_true]
      exact ⟨trivial, st, rfl, hok⟩
    · simp only [hok]
      refine ⟨rfl, ?_, ?_, ?_⟩
      · simp [Raised, hok]
      · rintro ⟨st', ob, h, h2⟩; cases h; exact hok h2
      · intro h; cases h

theorem fetchToken_tr (c : Cfg) (hc : c.checkObject = true) (s : St) :
    Tr t s.log (fetchToken c t s).1 (fetchToken c t s).2.log := by
  have hs := send_spec (t := t) c .token s
  unfold fetchToken
  have one : ∀ e, Raised (t s.log.length .token) .token e →
      Tr t s.log (α := Str) (.error e) ((s.log.length, Url.token) :: s.log) := by
    intro e hr
    exact ⟨[(s.log.length, .token)], rfl, Or.inr ⟨_, _, [], rfl, (by intro p hp; cases hp), hr⟩⟩
  split
  · rename_i e s' he; rw [he] at hs; simp only at hs
    rw [hs.1]; exact one e hs.2.1
  · rename_i s' he; rw [he] at hs; simp only at hs
    obtain ⟨hl, st, hto, hok⟩ := hs
    rw [hl]; apply one; simp [Raised, hto, hok]
  · rename_i s' he; rw [he] at hs; simp only at hs
    obtain ⟨hl, st, hto, hok⟩ := hs
    rw [hl, hc]; apply one; simp [Raised, hto, hok]
  · rename_i o s' he; rw [he] at hs; simp only at hs
    obtain ⟨hl, st, hto, hok⟩ := hs
    have fine : Tr t s.log (.ok ()) ((s.log.length, Url.token) :: s.log) :=
      ⟨[(s.log.length, .token)], rfl, by
        intro p hp
        simp only [List.mem_singleton] at hp; subst hp
        exact ⟨st, o, hto, hok⟩⟩
    split
    · rw [hl]; apply one; simp [Raised, hto, hok]
    · split
      · rw [hl]; apply one; simp [Raised, hto, hok]
      · simp only; rw [hl]; exact fine

theorem ensureToken_tr (c : Cfg) (hc : c.checkObject = true) (s : St) :
    Tr t s.log (ensureToken c t s).1 (ensureToken c t s).2.log := by
  unfold ensureToken
  split
  · exact Tr.ok_refl _ _
  · exact fetchToken_tr c hc s

theorem getJson_tr (c : Cfg) (hc : c.checkObject = true) (u : Url) (s : St) :
    Tr t s.log (getJson c t u s).1 (getJson c t u s).2.log := by
  have h1 := ensureToken_tr (t := t) c hc s
  unfold getJson
  split
  · rename_i e s' he; rw [he] at h1; exact h1
  · rename_i x s' he; rw [he] at h1; simp only at h1
    have hs := send_spec (t := t) c u s'
    have one : ∀ e, Raised (t s'.log.length u) u e →
        Tr t s'.log (α := Obj) (.error e) ((s'.log.length, u) :: s'.log) := by
      intro e hr
      exact ⟨[(s'.log.length, u)], rfl, Or.inr ⟨_, _, [], rfl, (by intro p hp; cases hp), hr⟩⟩
    split
    · rename_i e s'' he2; rw [he2] at hs; simp only at hs
      rw [hs.1]; exact Tr.seq h1 (one e hs.2.1)
    · rename_i s'' he2; rw [he2] at hs; simp only at hs
      obtain ⟨hl, st, hto, hok⟩ := hs
      rw [hl]; apply Tr.seq h1; apply one; simp [Raised, hto, hok]
    · rename_i s'' he2; rw [he2] at hs; simp only at hs
      obtain ⟨hl, st, hto, hok⟩ := hs
      rw [hl, hc]; apply Tr.seq h1; apply one; simp [Raised, hto, hok]
    · rename_i o s'' he2; rw [he2] at hs; simp only at hs
      obtain ⟨hl, st, hto, hok⟩ := hs
      rw [hl]; apply Tr.seq h1
      exact ⟨[(s'.log.length, u)], rfl, by
        intro p hp
        simp only [List.mem_singleton] at hp; subst hp
        exact ⟨st, o, hto, hok⟩⟩

theorem getJson_ok (c : Cfg) (hc : c.checkObject = true) {u : Url} {s s' : St} {o : Obj}
    (h : getJson c t u s = (.ok o, s')) :
    ∃ (s1 : St) (st : Nat), Tr t s.log (.ok ()) s1.log ∧ s'.log = (s1.log.length, u) :: s1.log ∧
      t s1.log.length u = .resp st (.obj o) ∧ ok2xx st = true := by
  have h1 := ensureToken_tr (t := t) c hc s
  unfold getJson at h
  split at h
  · cases h
  · rename_i x s1 he; rw [he] at h1; simp only at h1
    have hs := send_spec (t := t) c u s1
    split at h
    · cases h
    · cases h
    · cases h
    · rename_i o' s'' he2; rw [he2] at hs; simp only at hs
      obtain ⟨hl, st, hto, hok⟩ := hs
      cases h
      exact ⟨s1, st, h1, hl, hto, hok⟩

theorem pagesWith_tr {α} (c : Cfg) (hc : c.checkObject = true) (proj : Item → Option α) :
    ∀ fuel u s, Tr t s.log (pagesWith c t proj fuel u s).1 (pagesWith c t proj fuel u s).2.log := by
  intro fuel
  induction fuel with
  | zero => intro u s; exact Tr.fuel _
  | succ f ih =>
    intro u s
    have h1 := getJson_tr (t := t) c hc u s
    unfold pagesWith
    split
    · rename_i e s' he; rw [he] at h1; exact h1
    · rename_i o s' he; rw [he] at h1; simp only at h1 ⊢
      split
      · exact h1
      · rename_i u' _
        have h2 := ih u' s'
        split
        · rename_i e s'' he2; rw [he2] at h2; exact Tr.seq h1 h2
        · rename_i m s'' he2; rw [he2] at h2; exact Tr.seq h1 h2

theorem forFolders_tr {rec : Str → Str → St → R (List FileMeta)}
    (hrec : ∀ fid p s, Tr t s.log (rec fid p s).1 (rec fid p s).2.log) (parent : Str) :
    ∀ fs s, Tr t s.log (forFolders rec parent fs s).1 (forFolders rec parent fs s).2.log := by
  intro fs
  induction fs with
  | nil => intro s; exact Tr.ok_refl _ _
  | cons x rest ih =>
    intro s
    obtain ⟨name, id⟩ := x
    unfold forFolders
    split
    · exact ih s
    · rename_i fid
      split
      · exact ih s
      · have h1 := hrec fid (childPath parent name) s
        split
        · rename_i e s' he; rw [he] at h1; exact h1
        · rename_i a s' he; rw [he] at h1; simp only at h1
          have h2 := ih s'
          split
          · rename_i e s'' he2; rw [he2] at h2; exact Tr.seq h1 h2
          · rename_i b s'' he2; rw [he2] at h2; exact Tr.seq h1 h2

theorem walk_tr (c : Cfg) (hc : c.checkObject = true) (site : Str) :
    ∀ fuel item parent s,
      Tr t s.log (walk c t site fuel item parent s).1 (walk c t site fuel item parent s).2.log := by
  intro fuel
  induction fuel with
  | zero => intro item parent s; exact Tr.fuel _
  | succ f ih =>
    intro item parent s
    have h1 := pagesWith_tr (t := t) c hc (fileOf parent) f (Url.children site item) s
    unfold walk
    simp only [listPaginated, getFolders]
    split
    · rename_i e s' he; rw [he] at h1; exact h1
    · rename_i files s' he; rw [he] at h1; simp only at h1
      have h2 := pagesWith_tr (t := t) c hc folderOf f (Url.children site item) s'
      split
      · rename_i e s'' he2; rw [he2] at h2; exact Tr.seq h1 h2
      · rename_i folders s'' he2; rw [he2] at h2; simp only at h2
        have h3 := forFolders_tr (t := t) (rec := fun fid p s => walk c t site f (some fid) p s)
          (fun fid p s => ih (some fid) p s) parent folders s''
        split
        · rename_i e s3 he3; rw [he3] at h3; exact Tr.seq h1 (Tr.seq h2 h3)
        · rename_i b s3 he3; rw [he3] at h3; exact Tr.seq h1 (Tr.seq h2 h3)

theorem getSiteId_tr (c : Cfg) (hc : c.checkObject = true) (s : St) :
    Tr t s.log (getSiteId c t s).1 (getSiteId c t s).2.log := by
  have h1 := getJson_tr (t := t) c hc .site s
  unfold getSiteId
  split
  · exact Tr.ok_refl _ _
  · split
    · rename_i e s' he; rw [he] at h1; exact h1
    · rename_i o s' he; rw [he] at h1; simp only at h1
      split
      · exact h1
      · -- the site answer was an object without a string id: the error names the site request,
        -- which is the last request made
        obtain ⟨s1, st, htr, hl, hto, hok⟩ := getJson_ok (t := t) c hc he
        rw [hl]
        apply Tr.seq htr
        exact ⟨[(s1.log.length, .site)], rfl, Or.inr ⟨_, _, [], rfl, (by intro p hp; cases hp),
          by simp [Raised, hto, hok]⟩⟩

theorem listAll_tr (c : Cfg) (hc : c.checkObject = true) (fuel : Nat) (s : St) :
    Tr t s.log (listAll c t fuel s).1 (listAll c t fuel s).2.log := by
  have h1 := getSiteId_tr (t := t) c hc s
  unfold listAll
  split
  · rename_i e s' he; rw [he] at h1; exact h1
  · rename_i site s' he; rw [he] at h1; simp only at h1
    exact Tr.seq h1 (walk_tr c hc site fuel none [] s')

theorem listFiltered_tr (c : Cfg) (hc : c.checkObject = true) (iso lower glob) (f : Filter) (fuel : Nat) (s : St) :
    Tr t s.log (listFiltered c t iso lower glob f fuel s).1 (listFiltered c t iso lower glob f fuel s).2.log := by
  have h1 := getSiteId_tr (t := t) c hc s
  unfold listFiltered
  split
  · rename_i e s' he; rw [he] at h1; exact h1
  · rename_i site s' he; rw [he] at h1; simp only at h1
    have h2 := walk_tr (t := t) c hc site fuel none [] s'
    split
    · rename_i e s'' he2; rw [he2] at h2; exact Tr.seq h1 h2
    · rename_i fs s'' he2; rw [he2] at h2; exact Tr.seq h1 h2

end tr


/-! ### 3. the client against the healthy fake Graph server -/

section healthy
variable (c : Cfg) (L : Lib) (n : Nat)

theorem send_resp {t : Transport} {u : Url} {s : St} {st : Nat} {b : Body}
    (h : t s.log.length u = .resp st b) (hok : ok2xx st = true) :
    send c t u s = (.ok b, { s with log := (s.log.length, u) :: s.log, opened := s.opened + 1, closed := s.closed + 1 }) := by
  unfold send
  simp only [h, hok, if_true]

theorem fetchToken_healthy (s : St) :
    ∃ s', fetchToken c (healthy L n) s = (.ok srvToken, s') ∧ s'.site = s.site := by
  have h := send_resp c (t := healthy L n) (u := .token) (s := s) (st := 200)
    (b := .obj { accessToken := some srvToken }) rfl rfl
  unfold fetchToken
  rw [h]
  exact ⟨_, rfl, rfl⟩

theorem getJson_healthy (u : Url) (ob : Obj) (h : serve L n u = .resp 200 (.obj ob)) (s : St) :
    ∃ s', getJson c (healthy L n) u s = (.ok ob, s') ∧ s'.site = s.site := by
  unfold getJson ensureToken
  cases htok : s.token with
  | some tok =>
    simp only
    rw [send_resp c (t := healthy L n) (u := u) (s := s) (st := 200) (b := .obj ob) h rfl]
    exact ⟨_, rfl, rfl⟩
  | none =>
    simp only
    obtain ⟨s1, h1, hs1⟩ := fetchToken_healthy c L n s
    rw [h1]
    simp only
    rw [send_resp c (t := healthy L n) (u := u) (s := s1) (st := 200) (b := .obj ob) h rfl]
    exact ⟨_, rfl, hs1⟩

theorem serve_page (item : Option Str) (its : List Item) (hits : folderItems L item = some its)
    (off : Nat) (u : Url) (hu : u = .cursor item off ∨ (off = 0 ∧ u = .children srvSite item)) :
    serve L n u = .resp 200 (.obj (pageOf its item n off)) := by
  rcases hu with hu | ⟨h0, hu⟩
  · subst hu; simp [serve, servePage, hits]
  · subst hu; subst h0; simp [serve, servePage, hits]

theorem pages_healthy {α} (proj : Item → Option α) (hn : 0 < n) (item : Option Str) (its : List Item)
    (hits : folderItems L item = some its) :
    ∀ fuel off u s, (u = .cursor item off ∨ (off = 0 ∧ u = .children srvSite item)) →
      its.length - off < fuel →
      ∃ s', pagesWith c (healthy L n) proj fuel u s = (.ok ((its.drop off).filterMap proj), s') ∧
        s'.site = s.site := by
  intro fuel
  induction fuel with
  | zero => intro off u s _ h; omega
  | succ f ih =>
    intro off u s hu hlen
    obtain ⟨s1, h1, hs1⟩ := getJson_healthy c L n u _ (serve_page L n item its hits off u hu) s
    unfold pagesWith
    rw [h1]
    simp only [pageOf]
    by_cases hmore : off + n < its.length
    · simp only [hmore, if_true]
      obtain ⟨s2, h2, hs2⟩ := ih (off + n) (.cursor item (off + n)) s1 (Or.inl rfl) (by omega)
      rw [h2]
      refine ⟨s2, ?_, hs2.trans hs1⟩
      simp only
      rw [← List.filterMap_append]
      congr 3
      rw [← List.drop_drop]
      exact List.take_append_drop n (its.drop off)
    · simp only [hmore, if_false]
      refine ⟨s1, ?_, hs1⟩
      rw [List.take_of_length_le (by rw [List.length_drop]; omega)]

theorem items_length_le (K : Lib) : K.items.length ≤ K.size := by
  induction K with
  | nil => simp [Lib.items, Lib.size]
  | file f r ih => simp [Lib.items, Lib.size]; omega
  | other r ih => simp [Lib.items, Lib.size]; omega
  | folder nm id k r _ ih => simp [Lib.items, Lib.size]; omega

/-- the folder loop of `_walk_drive_items` over the folders of `K`, given that the recursive call is right
    for every sub-folder of `K` -/
theorem forFolders_healthy (rec : Str → Str → St → R (List FileMeta)) (f : Nat)
    (hrec : ∀ (k : Lib) (id p : Str) (s : St), k.size + 2 ≤ f → resolves L k = true →
      folderItems L (some id) = some k.items →
      ∃ s', rec id p s = (.ok (clientListing p k), s') ∧ s'.site = s.site)
    (parent : Str) :
    ∀ (K : Lib) (s : St), K.size + 1 ≤ f → resolves L K = true →
      ∃ s', forFolders rec parent (K.items.filterMap folderOf) s = (.ok (below parent K), s') ∧
        s'.site = s.site := by
  intro K
  induction K with
  | nil => intro s _ _; exact ⟨s, rfl, rfl⟩
  | file fi r ih =>
    intro s hsz hres
    simp only [Lib.items, List.filterMap_cons, folderOf, below]
    exact ih s (by simp [Lib.size] at hsz; omega) (by simpa [resolves] using hres)
  | other r ih =>
    intro s hsz hres
    simp only [Lib.items, List.filterMap_cons, folderOf, below]
    exact ih s (by simp [Lib.size] at hsz; omega) (by simpa [resolves] using hres)
  | folder nm id k r _ ihr =>
    intro s hsz hres
    simp only [resolves, Bool.and_eq_true, Bool.not_eq_true', decide_eq_true_eq] at hres
    obtain ⟨⟨⟨hid, hfind⟩, hk⟩, hr⟩ := hres
    simp only [Lib.size] at hsz
    simp only [Lib.items, List.filterMap_cons, folderOf, below]
    unfold forFolders
    simp only [hid, Bool.false_eq_true, if_false]
    obtain ⟨s1, h1, hs1⟩ := hrec k id (childPath parent nm) s (by omega) hk (by simp [folderItems, hfind])
    rw [h1]
    simp only
    obtain ⟨s2, h2, hs2⟩ := ihr s1 (by omega) hr
    rw [h2]
    exact ⟨s2, rfl, hs2.trans hs1⟩

theorem walk_healthy (hn : 0 < n) :
    ∀ (fuel : Nat) (K : Lib) (item : Option Str) (parent : Str) (s : St),
      K.size + 2 ≤ fuel → resolves L K = true → folderItems L item = some K.items →
      ∃ s', walk c (healthy L n) srvSite fuel item parent s = (.ok (clientListing parent K), s') ∧
        s'.site = s.site := by
  intro fuel
  induction fuel with
  | zero => intro K item parent s h; omega
  | succ f ih =>
    intro K item parent s hsz hres hits
    have hlen := items_length_le K
    obtain ⟨s1, h1, hs1⟩ := pages_healthy c L n (fileOf parent) hn item K.items hits f 0
      (.children srvSite item) s (Or.inr ⟨rfl, rfl⟩) (by omega)
    obtain ⟨s2, h2, hs2⟩ := pages_healthy c L n folderOf hn item K.items hits f 0
      (.children srvSite item) s1 (Or.inr ⟨rfl, rfl⟩) (by omega)
    obtain ⟨s3, h3, hs3⟩ := forFolders_healthy L
      (fun fid p s => walk c (healthy L n) srvSite f (some fid) p s) f
      (fun k id p s hk hr hi => ih k (some id) p s hk hr hi) parent K s2 (by omega) hres
    unfold walk
    simp only [listPaginated, getFolders]
    rw [h1]; simp only [List.drop_zero]
    rw [h2]; simp only [List.drop_zero]
    rw [h3]
    exact ⟨s3, rfl, hs3.trans (hs2.trans hs1)⟩

/-- the site-id cache is empty or holds the server's id -/
def Consistent (s : St) : Prop := s.site = none ∨ s.site = some srvSite

theorem getSiteId_healthy (s : St) (hs : Consistent s) :
    ∃ s', getSiteId c (healthy L n) s = (.ok srvSite, s') := by
  unfold getSiteId
  rcases hs with hs | hs
  · rw [hs]; simp only
    obtain ⟨s1, h1, _⟩ := getJson_healthy c L n .site { id := some srvSite } rfl s
    rw [h1]
    exact ⟨_, rfl⟩
  · rw [hs]; exact ⟨_, rfl⟩

theorem listAll_healthy (hn : 0 < n) (hL : resolves L L = true) (fuel : Nat) (hf : L.size + 2 ≤ fuel)
    (s : St) (hs : Consistent s) :
    ∃ s', listAll c (healthy L n) fuel s = (.ok (clientListing [] L), s') := by
  obtain ⟨s1, h1⟩ := getSiteId_healthy c L n s hs
  obtain ⟨s2, h2, _⟩ := walk_healthy c L n hn fuel L none [] s1 hf hL rfl
  unfold listAll
  rw [h1]; simp only
  exact ⟨s2, h2⟩

theorem listFiltered_healthy (iso lower glob) (f : Filter) (hn : 0 < n) (hL : resolves L L = true)
    (fuel : Nat) (hf : L.size + 2 ≤ fuel) (s : St) (hs : Consistent s) :
    ∃ s', listFiltered c (healthy L n) iso lower glob f fuel s =
      (.ok ((clientListing [] L).filter (matchesF c iso lower glob f)), s') := by
  obtain ⟨s1, h1⟩ := getSiteId_healthy c L n s hs
  obtain ⟨s2, h2, _⟩ := walk_healthy c L n hn fuel L none [] s1 hf hL rfl
  unfold listFiltered
  rw [h1]; simp only
  rw [h2]
  exact ⟨s2, rfl⟩

end healthy


/-! ### 4. client order is a rearrangement of document order -/

theorem clientListing_perm : ∀ (L : Lib) (parent : Str), (clientListing parent L).Perm (specListing parent L) := by
  intro L
  induction L with
  | nil => intro p; simp [clientListing, filesHere, below, specListing, Lib.items]
  | file f r ih =>
    intro p
    have := ih p
    simp only [clientListing, filesHere, below, specListing, Lib.items, List.filterMap_cons, fileOf,
      List.cons_append] at this ⊢
    exact List.Perm.cons _ this
  | other r ih =>
    intro p
    have := ih p
    simp only [clientListing, filesHere, below, specListing, Lib.items, List.filterMap_cons, fileOf] at this ⊢
    exact this
  | folder nm id k r ihk ihr =>
    intro p
    have h1 := ihk (childPath p nm)
    have h2 := ihr p
    simp only [clientListing, filesHere, below, specListing, Lib.items, List.filterMap_cons, fileOf] at h1 h2 ⊢
    -- a ++ ((b ++ c) ++ d)  ~  (b ++ c) ++ (a ++ d)
    refine List.Perm.trans ?_ (List.Perm.append h1 h2)
    rw [List.perm_iff_count]
    intro x
    simp only [List.count_append]
    omega

/-! ### 5. balance of opened / closed responses; consistency of the site-id cache -/

def Bal (s : St) : Prop := s.closed = s.opened

theorem bal_pres (c : Cfg) (hc : c.closeHttpError = true) (t : Transport) : Pres c t Bal := by
  constructor
  · intro u s hs
    unfold Bal at hs ⊢
    unfold send
    simp only
    cases t s.log.length u with
    | urlError => simpa using hs
    | httpError code => simp [hc, hs]
    | resp st b =>
      simp only
      split <;> simp [hs]
  · intro s x hs; exact hs

theorem listAll_bal (c : Cfg) (hc : c.closeHttpError = true) (t : Transport) (fuel : Nat) (s : St)
    (hs : Bal s) : Bal (listAll c t fuel s).2 :=
  listAll_pres (bal_pres c hc t) (fun _ _ _ _ _ _ => by
    have := getJson_pres (bal_pres c hc t) .site _ ‹Bal _›
    exact this) fuel s hs

theorem site_pres (c : Cfg) (t : Transport) (v : Option Str) : Pres c t (fun s => s.site = v) := by
  constructor
  · intro u s hs
    unfold send
    simp only
    cases t s.log.length u with
    | urlError => exact hs
    | httpError code => exact hs
    | resp st b => simp only; split <;> exact hs
  · intro s x hs; exact hs

/-- a transport whose accepted site answers carry the server's site id -/
def SiteHonest (t : Transport) : Prop :=
  ∀ i st ob, t i .site = .resp st (.obj ob) → ok2xx st = true → ob.id = some srvSite ∨ ob.id = none

theorem consistent_pres (c : Cfg) (t : Transport) : Pres c t Consistent := by
  constructor
  · intro u s hs
    rcases hs with hs | hs
    · exact Or.inl ((site_pres c t none).send u s hs)
    · exact Or.inr ((site_pres c t (some srvSite)).send u s hs)
  · intro s x hs; exact hs

theorem listAll_consistent (c : Cfg) (hc : c.checkObject = true) (t : Transport) (ht : SiteHonest t)
    (fuel : Nat) (s : St) (hs : Consistent s) : Consistent (listAll c t fuel s).2 := by
  refine listAll_pres (consistent_pres c t) ?_ fuel s hs
  intro s o id _ hok hid
  cases hj : getJson c t .site s with
  | mk r s' =>
    rw [hj] at hok; simp only at hok; subst hok
    obtain ⟨s1, st, _, _, hto, hst⟩ := getJson_ok (t := t) c hc hj
    rcases ht _ st o hto hst with h | h
    · rw [h] at hid; cases hid; exact Or.inr rfl
    · rw [h] at hid; cases hid

theorem siteHonest_faultAt (L : Lib) (n k : Nat) (o : Outcome) (ho : ¬ Fine o) :
    SiteHonest (faultAt k o (healthy L n)) := by
  intro i st ob h hok
  unfold faultAt at h
  split at h
  · exact absurd ⟨st, ob, h, hok⟩ ho
  · simp only [healthy, serve] at h
    cases h
    exact Or.inl rfl


/-! ### 6. filter: dates and `_parse_iso_datetime` -/

def DateIn (parse : Str → Option Int) (raw : Option Str) (a b : Option Int) : Prop :=
  (a = none ∧ b = none) ∨
  ∃ s ts, raw = some s ∧ s ≠ [] ∧ parse s = some ts ∧ (∀ x, a = some x → x ≤ ts) ∧ (∀ y, b = some y → ts < y)

theorem dateOk_iff (c : Cfg) (iso) (raw a b) : dateOk c iso raw a b = true ↔ DateIn (parseIso c iso) raw a b := by
  unfold dateOk DateIn
  cases a <;> cases b <;> cases raw <;> simp
  all_goals
    rename_i s
    cases hs : s <;> simp
    all_goals
      cases hp : parseIso c iso _ <;> simp


theorem tw_dot (base r : Str) (hb : '.' ∉ base) : (base ++ '.' :: r).takeWhile (· ≠ '.') = base := by
  induction base with
  | nil => simp
  | cons a b ih =>
    simp only [List.mem_cons, not_or] at hb
    have ha : a ≠ '.' := fun h => hb.1 h.symm
    rw [List.cons_append, List.takeWhile_cons_of_pos (by simpa using ha), ih hb.2]

theorem dw_dot (base r : Str) (hb : '.' ∉ base) : (base ++ '.' :: r).dropWhile (· ≠ '.') = '.' :: r := by
  induction base with
  | nil => simp
  | cons a b ih =>
    simp only [List.mem_cons, not_or] at hb
    have ha : a ≠ '.' := fun h => hb.1 h.symm
    rw [List.cons_append, List.dropWhile_cons_of_pos (by simpa using ha), ih hb.2]

theorem digit_ne_plus (ch : Char) (h : isAsciiDigit ch = true) : (ch == '+') = false := by
  simp only [isAsciiDigit, Bool.and_eq_true, decide_eq_true_eq] at h
  simp only [beq_eq_false_iff_ne, ne_eq]
  intro hc; subst hc; revert h; decide

theorem tz_digits (frac r : Str) (hd : frac.all isAsciiDigit = true) :
    tzIndex (frac ++ '+' :: r) = some frac.length := by
  have : (frac ++ '+' :: r).findIdx? (· == '+') = some frac.length := by
    induction frac with
    | nil => simp [List.findIdx?_cons]
    | cons a b ih =>
      simp only [List.all_cons, Bool.and_eq_true] at hd
      simp [List.findIdx?_cons, digit_ne_plus a hd.1, ih hd.2]
  simp [tzIndex, this]

theorem parseIso_fraction (iso : Str → Option Int) (base frac : Str) (hb : '.' ∉ base)
    (hd : frac.all isAsciiDigit = true) (hne : frac ≠ []) :
    parseIso .fixed iso (base ++ '.' :: (frac ++ ['Z'])) =
      (iso (base ++ "+00:00".toList)).map (· + (microOf frac : Int)) := by
  have hlast : (base ++ '.' :: (frac ++ ['Z'])).getLast? = some 'Z' := by
    rw [show base ++ '.' :: (frac ++ ['Z']) = (base ++ '.' :: frac) ++ ['Z'] by simp]
    exact List.getLast?_concat
  have hdl : (base ++ '.' :: (frac ++ ['Z'])).dropLast = base ++ '.' :: frac := by
    rw [show base ++ '.' :: (frac ++ ['Z']) = (base ++ '.' :: frac) ++ ['Z'] by simp]
    exact List.dropLast_concat
  have hz : "+00:00".toList = '+' :: "00:00".toList := by decide
  unfold parseIso
  simp only [hlast, if_true, hdl]
  have hcont : (base ++ '.' :: frac ++ "+00:00".toList).contains '.' = true := by simp
  rw [show base ++ '.' :: frac ++ "+00:00".toList = base ++ '.' :: (frac ++ "+00:00".toList) by simp] at *
  simp only [hcont, if_true, tw_dot _ _ hb, dw_dot _ _ hb, List.drop_succ_cons, List.drop_zero]
  rw [hz, tz_digits frac _ hd]
  simp only [List.take_left', List.drop_left', Cfg.fixed, if_true]
  cases iso (base ++ '+' :: "00:00".toList) with
  | none => rfl
  | some t => simp [hne, hd]


/-! ### 7. unique folder ids make every folder addressable -/


/-- a folder with this id and these children occurs somewhere in the library -/
inductive FolderIn (id : Str) (k : Lib) : Lib → Prop
  | here {n r} : FolderIn id k (.folder n id k r)
  | fileRest {f r} : FolderIn id k r → FolderIn id k (.file f r)
  | otherRest {r} : FolderIn id k r → FolderIn id k (.other r)
  | inKids {n id' k' r} : FolderIn id k k' → FolderIn id k (.folder n id' k' r)
  | folderRest {n id' k' r} : FolderIn id k r → FolderIn id k (.folder n id' k' r)

theorem FolderIn.mem_ids {id k K} (h : FolderIn id k K) : id ∈ K.folderIds := by
  induction h with
  | here => simp [Lib.folderIds]
  | fileRest _ ih => simpa [Lib.folderIds] using ih
  | otherRest _ ih => simpa [Lib.folderIds] using ih
  | inKids _ ih => simp [Lib.folderIds, ih]
  | folderRest _ ih => simp [Lib.folderIds, ih]

theorem findFolder_none_of_not_mem (id : Str) : ∀ K : Lib, id ∉ K.folderIds → findFolder id K = none := by
  intro K
  induction K with
  | nil => intro _; rfl
  | file f r ih => intro h; simpa [findFolder, Lib.folderIds] using ih (by simpa [Lib.folderIds] using h)
  | other r ih => intro h; simpa [findFolder, Lib.folderIds] using ih (by simpa [Lib.folderIds] using h)
  | folder n id' k r ihk ihr =>
    intro h
    simp only [Lib.folderIds, List.mem_cons, List.mem_append, not_or] at h
    obtain ⟨h1, h2, h3⟩ := h
    simp [findFolder, h1, ihk h2, ihr h3]

theorem findFolder_of_nodup {id k} : ∀ K : Lib, K.folderIds.Nodup → FolderIn id k K → findFolder id K = some k := by
  intro K
  induction K with
  | nil => intro _ h; cases h
  | file f r ih =>
    intro hn h
    cases h with | fileRest h => simpa [findFolder] using ih (by simpa [Lib.folderIds] using hn) h
  | other r ih =>
    intro hn h
    cases h with | otherRest h => simpa [findFolder] using ih (by simpa [Lib.folderIds] using hn) h
  | folder n id' k' r ihk ihr =>
    intro hn h
    simp only [Lib.folderIds, List.nodup_cons, List.mem_append, not_or, List.nodup_append] at hn
    obtain ⟨⟨hk', hr'⟩, hnk, hnr, hdisj⟩ := hn
    cases h with
    | here => simp [findFolder]
    | inKids h =>
      have hne : id ≠ id' := fun e => hk' (e ▸ h.mem_ids)
      simp [findFolder, hne, ihk hnk h]
    | folderRest h =>
      have hne : id ≠ id' := fun e => hr' (e ▸ h.mem_ids)
      have hnot : id ∉ k'.folderIds := fun hm => hdisj id hm id h.mem_ids rfl
      simp [findFolder, hne, findFolder_none_of_not_mem id k' hnot, ihr hnr h]

theorem resolves_of_folderIn (L : Lib) : ∀ K : Lib,
    (∀ id k, FolderIn id k K → findFolder id L = some k ∧ id ≠ []) → resolves L K = true := by
  intro K
  induction K with
  | nil => intro _; rfl
  | file f r ih => intro h; simpa [resolves] using ih (fun id k hk => h id k (.fileRest hk))
  | other r ih => intro h; simpa [resolves] using ih (fun id k hk => h id k (.otherRest hk))
  | folder n id' k' r ihk ihr =>
    intro h
    have h0 := h id' k' .here
    simp only [resolves, Bool.and_eq_true, Bool.not_eq_true', decide_eq_true_eq]
    refine ⟨⟨⟨by simpa using h0.2, h0.1⟩, ihk (fun id k hk => h id k (.inKids hk))⟩, ihr (fun id k hk => h id k (.folderRest hk))⟩

/-- unique, non-empty folder ids make the library well addressed -/
theorem resolves_of_nodup (L : Lib) (hn : L.folderIds.Nodup) (he : ∀ id ∈ L.folderIds, id ≠ []) :
    resolves L L = true :=
  resolves_of_folderIn L L (fun _ _ h => ⟨findFolder_of_nodup L hn h, he _ h.mem_ids⟩)


end S2T.SP
