import S2T.Model.Wrapper
/-! Soundness of the `escapes` analysis w.r.t. the big-step semantics. -/
namespace S2T.Wrapper

structure HierOk (H : Hier) (isFam : String → Bool) (root : String) : Prop where
  rootFam : isFam root = true
  famRoot : ∀ c, isFam c = true → H.famSub c root = true

theorem Abs.mem_union_left {e : Exn} {a b : Abs} (h : Abs.mem e a) : Abs.mem e (a.union b) := by
  cases e <;> simp only [Abs.mem, Abs.union] at * 
  · rcases h with h | h
    · left; simp [h]
    · right; exact List.mem_append_left _ h
  · simp [h]

theorem Abs.mem_union_right {e : Exn} {a b : Abs} (h : Abs.mem e b) : Abs.mem e (a.union b) := by
  cases e <;> simp only [Abs.mem, Abs.union] at *
  · rcases h with h | h
    · left; simp [h]
    · right; exact List.mem_append_right _ h
  · simp [h]

theorem Abs.mem_top (e : Exn) : Abs.mem e Abs.top := by
  cases e <;> simp [Abs.mem, Abs.top]

def CurOk (cur : Option Exn) (ca : Option Abs) : Prop :=
  match cur, ca with
  | none, none => True
  | some e, some a => Abs.mem e a
  | _, _ => False

theorem catches_catchall (H : Hier) (isFam : String → Bool) (p : String) (e : Exn)
    (hp : (p = "Exception" || p = "BaseException" || p = "") = true) : catches H isFam p e = true := by
  unfold catches
  simp only [Bool.or_eq_true, decide_eq_true_eq] at hp
  have : p = "Exception" ∨ p = "BaseException" ∨ p = "" := by
    rcases hp with (h | h) | h <;> simp [h]
  simp [this]

theorem uncaught_sound {H : Hier} {isFam : String → Bool} {root : String} (ok : HierOk H isFam root)
    (hs : List (List String × Stmt)) (a : Abs) (e : Exn) (hwf : WfExn H isFam root e) (hm : Abs.mem e a)
    (hun : ∀ h ∈ hs, catchesAny H isFam h.1 e = false) : Abs.mem e (uncaught root hs a) := by
  unfold uncaught
  simp only
  split
  · rename_i hany
    exfalso
    obtain ⟨p, hp, hpc⟩ := List.any_eq_true.mp hany
    obtain ⟨h, hh, hph⟩ := List.mem_flatMap.mp hp
    have := hun h hh
    unfold catchesAny at this
    have hcatch := catches_catchall H isFam p e hpc
    have : (h.1.any fun p => catches H isFam p e) = true := List.any_eq_true.mpr ⟨p, hph, hcatch⟩
    simp_all
  · split
    · rename_i _ hroot
      cases e with
      | other n => simpa [Abs.mem] using hm
      | fam c =>
        exfalso
        have hroot' : root ∈ hs.flatMap (·.1) := by simpa using hroot
        obtain ⟨h, hh, hph⟩ := List.mem_flatMap.mp hroot'
        have := hun h hh
        unfold catchesAny at this
        have hc : catches H isFam root (.fam c) = true := by
          unfold catches
          split
          · rfl
          · simp only [WfExn] at hwf
            simp [ok.rootFam, hwf.2]
        have : (h.1.any fun p => catches H isFam p (.fam c)) = true := List.any_eq_true.mpr ⟨root, hph, hc⟩
        simp_all
    · exact hm

theorem caughtBy_sound {H : Hier} {isFam : String → Bool} (pats : List String) (a : Abs) (e : Exn)
    (hm : Abs.mem e a) (hc : catchesAny H isFam pats e = true) : Abs.mem e (caughtBy isFam pats a) := by
  unfold caughtBy
  split
  · exact hm
  · rename_i hnall
    have hnall' : ∀ p ∈ pats, ¬ (p = "Exception" ∨ p = "BaseException" ∨ p = "") := by
      intro p hp hcon
      apply hnall
      exact List.any_eq_true.mpr ⟨p, hp, by rcases hcon with h | h | h <;> simp [h]⟩
    obtain ⟨p, hp, hpc⟩ := List.any_eq_true.mp hc
    split
    · rename_i hall
      cases e with
      | fam c => simpa [Abs.mem] using hm
      | other n =>
        exfalso
        have hf := List.all_eq_true.mp hall p hp
        unfold catches at hpc
        simp [hnall' p hp, hf] at hpc
    · split
      · rename_i _ hall
        cases e with
        | other n => simpa [Abs.mem] using hm
        | fam c =>
          exfalso
          have hf := List.all_eq_true.mp hall p hp
          unfold catches at hpc
          simp only [Bool.not_eq_true'] at hf
          simp [hnall' p hp, hf] at hpc
      · exact hm

theorem escapesHandlers_mem {root : String} {isFam : String → Bool} {eb : Abs}
    (pre : List (List String × Stmt)) (h : List String × Stmt) (post : List (List String × Stmt)) (e : Exn)
    (hm : Abs.mem e (escapes root isFam (some (caughtBy isFam h.1 eb)) h.2)) :
    Abs.mem e (escapesHandlers root isFam eb (pre ++ h :: post)) := by
  induction pre with
  | nil =>
    obtain ⟨pats, hb⟩ := h
    simp only [List.nil_append, escapesHandlers]
    exact Abs.mem_union_left hm
  | cons x xs ih =>
    obtain ⟨p, b⟩ := x
    simp only [List.cons_append, escapesHandlers]
    exact Abs.mem_union_right ih

/-- **Soundness.** Whatever a term can raise under the semantics is in `escapes`. -/
theorem escapes_sound {H : Hier} {isFam : String → Bool} {root : String} (ok : HierOk H isFam root)
    {cur : Option Exn} {s : Stmt} {tr : List Ch} {o : Out} (hex : Exec H isFam root cur s tr o) :
    ∀ (ca : Option Abs), CurOk cur ca → (∀ e0, cur = some e0 → WfExn H isFam root e0) →
      ∀ e, o = .raised e → (WfExn H isFam root e ∧ Abs.mem e (escapes root isFam ca s)) := by
  induction hex with
  | atomOk => intro ca _ _ e he; cases he
  | atomRaise hwf =>
    intro ca _ _ e he; cases he
    exact ⟨hwf, by simp only [escapes]; exact Abs.mem_top _⟩
  | writeOk => intro ca _ _ e he; cases he
  | writeRaise hwf _ =>
    intro ca _ _ e he; cases he
    exact ⟨hwf, by simp only [escapes]; exact Abs.mem_top _⟩
  | raiseFam hf =>
    intro ca _ _ e he; cases he
    exact ⟨⟨hf, ok.famRoot _ hf⟩, by simp [escapes, hf, Abs.mem]⟩
  | raiseOther hf =>
    intro ca _ _ e he; cases he
    exact ⟨trivial, by simp [escapes, hf, Abs.mem]⟩
  | reraise =>
    intro ca hcur hw e he; cases he
    rename_i e
    cases ca with
    | none => simp [CurOk] at hcur
    | some a => exact ⟨hw e rfl, by simpa only [escapes, CurOk] using hcur⟩
  | reraiseNone =>
    intro ca hcur _ e he; cases he
    cases ca with
    | none => exact ⟨trivial, by simp [escapes, Abs.mem]⟩
    | some a => simp [CurOk] at hcur
  | ret => intro ca _ _ e he; cases he
  | brk => intro ca _ _ e he; cases he
  | cont => intro ca _ _ e he; cases he
  | yield_ => intro ca _ _ e he; cases he
  | seqStop _ _ ih =>
    intro ca hc hw e he
    obtain ⟨h1, h2⟩ := ih ca hc hw e he
    exact ⟨h1, by simp only [escapes]; exact Abs.mem_union_left h2⟩
  | seqGo _ _ _ ih2 =>
    intro ca hc hw e he
    obtain ⟨h1, h2⟩ := ih2 ca hc hw e he
    exact ⟨h1, by simp only [escapes]; exact Abs.mem_union_right h2⟩
  | iteL _ ih =>
    intro ca hc hw e he
    obtain ⟨h1, h2⟩ := ih ca hc hw e he
    exact ⟨h1, by simp only [escapes]; exact Abs.mem_union_left h2⟩
  | iteR _ ih =>
    intro ca hc hw e he
    obtain ⟨h1, h2⟩ := ih ca hc hw e he
    exact ⟨h1, by simp only [escapes]; exact Abs.mem_union_right h2⟩
  | loopDone => intro ca _ _ e he; cases he
  | loopBrk _ _ => intro ca _ _ e he; cases he
  | loopStep _ _ _ _ ih2 =>
    intro ca hc hw e he
    exact ih2 ca hc hw e he
  | loopExit _ _ ih =>
    intro ca hc hw e he
    obtain ⟨h1, h2⟩ := ih ca hc hw e he
    exact ⟨h1, by simpa only [escapes] using h2⟩
  | tryNoExc _ hne _ ihb ihf =>
    intro ca hc hw e he
    rename_i o o' _ _
    by_cases hn : o' = .normal
    · simp only [hn, ↓reduceIte] at he
      exact absurd he (hne e)
    · simp only [hn, ↓reduceIte] at he
      obtain ⟨h1, h2⟩ := ihf ca hc hw e he
      exact ⟨h1, by simp only [escapes]; exact Abs.mem_union_right h2⟩
  | tryUncaught _ hun _ ihb ihf =>
    intro ca hc hw e he
    rename_i e0 t t' o' _ _
    by_cases hn : o' = .normal
    · simp only [hn, ↓reduceIte] at he
      cases he
      obtain ⟨h1, h2⟩ := ihb ca hc hw e0 rfl
      refine ⟨h1, ?_⟩
      simp only [escapes]
      exact Abs.mem_union_left (Abs.mem_union_left (uncaught_sound ok _ _ _ h1 h2 hun))
    · simp only [hn, ↓reduceIte] at he
      obtain ⟨h1, h2⟩ := ihf ca hc hw e he
      exact ⟨h1, by simp only [escapes]; exact Abs.mem_union_right h2⟩
  | tryCaught _ hpre hcatch _ _ ihb ihh ihf =>
    intro ca hc hw e he
    rename_i cur' body fin e0 o o' t th t' pre h post _ _ _
    by_cases hn : o' = .normal
    · simp only [hn, ↓reduceIte] at he
      obtain ⟨hb1, hb2⟩ := ihb ca hc hw e0 rfl
      have hcur : CurOk (some e0) (some (caughtBy isFam h.1 (escapes root isFam ca body))) := by
        simp only [CurOk]
        exact caughtBy_sound _ _ _ hb2 hcatch
      obtain ⟨h1, h2⟩ := ihh _ hcur (by intro e1 he1; cases he1; exact hb1) e he
      refine ⟨h1, ?_⟩
      simp only [escapes]
      exact Abs.mem_union_left (Abs.mem_union_right (escapesHandlers_mem pre h post e h2))
    · simp only [hn, ↓reduceIte] at he
      obtain ⟨h1, h2⟩ := ihf ca hc hw e he
      exact ⟨h1, by simp only [escapes]; exact Abs.mem_union_right h2⟩

end S2T.Wrapper
