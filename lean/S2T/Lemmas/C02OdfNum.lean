import S2T.Spec.C02OdfDoc
/-! Decimal numerals: `int(str(n)) = n` for the model's `pyInt` and the renderer's `natToDec`. -/
namespace S2T.OdfDoc
open S2T.Tok S2T.OdfText

def ofDigitsRev : List Nat → Nat
  | [] => 0
  | d :: r => d + 10 * ofDigitsRev r

theorem ofDigitsRev_digitsRev (n : Nat) : ofDigitsRev (digitsRev n) = n := by
  fun_induction digitsRev n with
  | case1 n h => simp [ofDigitsRev]
  | case2 n h ih => simp only [ofDigitsRev, ih]; omega

theorem digitsRev_lt (n : Nat) : ∀ d ∈ digitsRev n, d < 10 := by
  fun_induction digitsRev n with
  | case1 n h => intro d hd; simp at hd; omega
  | case2 n h ih =>
    intro d hd
    simp at hd
    rcases hd with rfl | hd
    · omega
    · exact ih d hd

theorem digitsRev_ne_nil (n : Nat) : digitsRev n ≠ [] := by
  fun_induction digitsRev n <;> simp

theorem digitVal_digitChar {d : Nat} (h : d < 10) : digitVal (digitChar d) = some d := by
  have : ∀ d < 10, digitVal (digitChar d) = some d := by decide
  exact this d h

theorem digitChar_not_sign {d : Nat} (h : d < 10) : digitChar d ≠ '-' ∧ digitChar d ≠ '+' := by
  have : ∀ d < 10, digitChar d ≠ '-' ∧ digitChar d ≠ '+' := by decide
  exact this d h

theorem parseDigits_digits (ds : List Nat) (hds : ∀ d ∈ ds, d < 10) (acc : Nat) (flag : Bool)
    (hne : ds ≠ [] ∨ flag = true) :
    parseDigits (ds.map digitChar) acc flag = some (ds.foldl (fun a d => a * 10 + d) acc) := by
  induction ds generalizing acc flag with
  | nil =>
    rcases hne with h | h
    · exact absurd rfl h
    · simp [parseDigits, h]
  | cons d r ih =>
    simp only [List.map_cons, parseDigits, digitVal_digitChar (hds d (by simp)), List.foldl_cons]
    exact ih (fun x hx => hds x (by simp [hx])) _ true (Or.inr rfl)

theorem foldl_reverse_digits (l : List Nat) :
    (l.reverse).foldl (fun a d => a * 10 + d) 0 = ofDigitsRev l := by
  induction l with
  | nil => rfl
  | cons d r ih => simp [List.foldl_append, ih, ofDigitsRev]; omega

/-- whitespace never contains an ASCII digit -/
def NoDigitWs (p : Char → Bool) : Prop := ∀ d, d < 10 → p (digitChar d) = false

theorem strip_digits {p : Char → Bool} (hp : NoDigitWs p) (ds : List Nat) (hds : ∀ d ∈ ds, d < 10) :
    strip p (ds.map digitChar) = ds.map digitChar := by
  have hall : ∀ c ∈ ds.map digitChar, p c = false := by
    intro c hc
    obtain ⟨d, hd, rfl⟩ := List.mem_map.mp hc
    exact hp d (hds d hd)
  have h1 : ∀ l : Str, (∀ c ∈ l, p c = false) → l.dropWhile p = l := by
    intro l hl
    cases l with
    | nil => rfl
    | cons c r => simp [List.dropWhile, hl c (by simp)]
  unfold strip rstrip lstrip
  rw [h1 _ hall, h1 _ (by intro c hc; exact hall c (by simpa using hc)), List.reverse_reverse]

theorem pyInt_natToDec {p : Char → Bool} (hp : NoDigitWs p) (n : Nat) : pyInt p (natToDec n) = some (n : Int) := by
  unfold natToDec pyInt
  have hds : ∀ d ∈ (digitsRev n).reverse, d < 10 := by
    intro d hd; exact digitsRev_lt n d (by simpa using hd)
  rw [strip_digits hp _ hds]
  have hne : (digitsRev n).reverse ≠ [] := by simpa using digitsRev_ne_nil n
  have hpd := parseDigits_digits (digitsRev n).reverse hds 0 false (Or.inl hne)
  rw [foldl_reverse_digits, ofDigitsRev_digitsRev] at hpd
  cases hrev : (digitsRev n).reverse with
  | nil => exact absurd hrev hne
  | cons d r =>
    rw [hrev] at hpd hds
    have hd := digitChar_not_sign (hds d (by simp))
    simp only [List.map_cons] at hpd ⊢
    split
    · rename_i heq; simp at heq; exact absurd heq.1 hd.1
    · rename_i heq; simp at heq; exact absurd heq.1 hd.2
    · rw [hpd]; rfl

end S2T.OdfDoc
