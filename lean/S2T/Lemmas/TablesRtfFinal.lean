import S2T.Lemmas.TablesRtfTables
/-! A written document as gaps and tables; the gaps are quiet; `saveTable` on rectangular tables. -/
namespace S2T.Tables.Rtf
open S2T.HtmlSkip (Str)
open S2T.Tables

/-- a document: leading paragraphs, then tables, each followed by paragraphs -/
def docOf (lead : List Str) (ts : List (RTable × List Str)) : List RBlk :=
  lead.map RBlk.para ++ ts.flatMap (fun tp => RBlk.table tp.1 :: tp.2.map RBlk.para)

def parasRtf (ps : List Str) : Str := ps.flatMap paraRtf
/-- the text between the last `\row` of a table and what follows the paragraphs behind it -/
def gapAfter (ps : List Str) : Str := '\n' :: parasRtf ps

def gtsOf (g : Str) : List (RTable × List Str) → List GT
  | [] => []
  | tp :: rest => (g, tp.1) :: gtsOf (gapAfter tp.2) rest

def tailOf (g : Str) : List (RTable × List Str) → Str
  | [] => g ++ ['}']
  | tp :: rest => tailOf (gapAfter tp.2) rest

def tablesRtf (ts : List (RTable × List Str)) : Str := ts.flatMap (fun tp => tableRtf tp.1 ++ parasRtf tp.2)

theorem docRtf_docOf (lead : List Str) (ts : List (RTable × List Str)) :
    docRtf (docOf lead ts) = (header ++ parasRtf lead) ++ tablesRtf ts ++ ['}'] := by
  have h1 : ∀ ps : List Str, (ps.map RBlk.para).flatMap RBlk.rtf = parasRtf ps := by
    intro ps; induction ps with
    | nil => rfl
    | cons p ps ih => simp [parasRtf, RBlk.rtf] at ih ⊢; exact ih
  have h2 : (ts.flatMap (fun tp => RBlk.table tp.1 :: tp.2.map RBlk.para)).flatMap RBlk.rtf = tablesRtf ts := by
    induction ts with
    | nil => rfl
    | cons tp ts ih =>
      simp only [List.flatMap_cons, List.flatMap_append, tablesRtf] at ih ⊢
      rw [ih, h1]
      simp [RBlk.rtf]
  simp only [docRtf, docOf, List.flatMap_append, h1, h2, List.append_assoc]

theorem shiftNl : ∀ (rs : List RRow) (Y : Str),
    '\n' :: (tableRtf rs ++ Y) = (rs.flatMap (fun r => '\n' :: rowRtf r)) ++ '\n' :: Y
  | [], Y => rfl
  | r :: rs, Y => by
    have ih := shiftNl rs Y
    simp only [tableRtf, List.flatMap_cons, List.append_assoc, List.cons_append, List.nil_append,
      List.singleton_append] at ih ⊢
    rw [ih]

theorem body2_append (a b : List Seg) (tail : Str) :
    body2 (a ++ b) tail = a.flatMap (fun s => s.1 ++ rowRtf s.2) ++ body2 b tail := by
  simp [body2, List.append_assoc]

theorem text_as_body : ∀ (ts : List (RTable × List Str)) (g : Str), (∀ tp ∈ ts, tp.1 ≠ []) →
    g ++ tablesRtf ts ++ ['}'] = body2 (segsGT (gtsOf g ts)) (tailOf g ts)
  | [], g, _ => by simp [tablesRtf, gtsOf, segsGT, body2, tailOf]
  | tp :: rest, g, h => by
    have ih := text_as_body rest (gapAfter tp.2) (fun x hx => h x (List.mem_cons_of_mem _ hx))
    obtain ⟨r, rs, ht⟩ : ∃ r rs, tp.1 = r :: rs := by
      cases h1 : tp.1 with
      | nil => exact absurd h1 (h tp List.mem_cons_self)
      | cons r rs => exact ⟨r, rs, rfl⟩
    have e1 : segsGT (gtsOf g (tp :: rest)) =
        ((g, r) :: rs.map (fun r => ((['\n'], r) : Seg))) ++ segsGT (gtsOf (gapAfter tp.2) rest) := by
      simp [segsGT, gtsOf, ht, rowsSegs]
    have e2 : (rs.map (fun r => ((['\n'], r) : Seg))).flatMap (fun s => s.1 ++ rowRtf s.2) =
        rs.flatMap (fun r => '\n' :: rowRtf r) := by
      simp [List.flatMap_map]
    rw [e1, body2_append, tailOf, ← ih]
    simp only [List.flatMap_cons, e2, tablesRtf, ht, gapAfter]
    have := shiftNl rs (parasRtf tp.2 ++ (rest.flatMap (fun tp => tableRtf tp.1 ++ parasRtf tp.2) ++ ['}']))
    simp only [tableRtf, List.flatMap_cons, List.append_assoc, List.cons_append, List.nil_append,
      List.singleton_append] at this ⊢
    rw [this]

/-! ## the text between tables is quiet -/

theorem plainText_textChar {s : Str} (h : plainText s = true) : s.all textChar = true := h

theorem quiet_para (P : Params) {kw : Str} (hk : kw = sTrowd ∨ kw = sRow) (s : Str) (hs : plainText s = true) (b : Str) :
    Quiet P kw (paraRtf s) b := by
  have hk' : IsKw kw := by rcases hk with rfl | rfl <;> simp [IsKw]
  obtain ⟨hf, hne⟩ := isKw_first hk' 'p' (by decide)
  have e : paraRtf s = ('\\' :: 'p' :: "ard ".toList) ++ (esc s ++ ('\\' :: 'p' :: "ar\n".toList)) := by
    unfold paraRtf; simp only [List.append_assoc]; rfl
  rw [e]
  exact quiet_append _ _ _ _ _ (quiet_first P kw 'p' _ _ (noBs_of_all _ (by decide)) hf hne)
    (quiet_append _ _ _ _ _ (quiet_esc P hk' s _ (plainText_textChar hs))
      (quiet_first P kw 'p' _ _ (noBs_of_all _ (by decide)) hf hne))

theorem quiet_paras (P : Params) {kw : Str} (hk : kw = sTrowd ∨ kw = sRow) : ∀ (ps : List Str) (b : Str),
    (∀ p ∈ ps, plainText p = true) → Quiet P kw (parasRtf ps) b
  | [], b, _ => quiet_nil P kw b
  | p :: ps, b, h => by
    simp only [parasRtf, List.flatMap_cons]
    exact quiet_append _ _ _ _ _ (quiet_para P hk p (h p List.mem_cons_self) _)
      (quiet_paras P hk ps b (fun x hx => h x (List.mem_cons_of_mem _ hx)))

theorem quiet_header (P : Params) {kw : Str} (hk : kw = sTrowd ∨ kw = sRow) (b : Str) : Quiet P kw header b := by
  have e : header = ['{'] ++ (('\\' :: "rtf1".toList) ++ (('\\' :: "ansi".toList) ++ (('\\' :: "deff0 {".toList) ++
      (('\\' :: "fonttbl{".toList) ++ ('\\' :: "f0 Times New Roman;}}\n".toList))))) := by rfl
  rw [e]
  have q : ∀ (w : Str) (b' : Str), NoBs w → kw.isPrefixOf (w ++ b') = false → Quiet P kw ('\\' :: w) b' :=
    fun w b' hw hp => ⟨kwAt_other P kw _ hp, quiet_noBs P kw w b' hw⟩
  rcases hk with rfl | rfl
  · refine quiet_append _ _ _ _ _ (quiet_noBs P _ _ _ (noBs_of_all _ (by decide))) ?_
    refine quiet_append _ _ _ _ _ (q _ _ (noBs_of_all _ (by decide)) (by rfl)) ?_
    refine quiet_append _ _ _ _ _ (q _ _ (noBs_of_all _ (by decide)) (by rfl)) ?_
    refine quiet_append _ _ _ _ _ (q _ _ (noBs_of_all _ (by decide)) (by rfl)) ?_
    exact quiet_append _ _ _ _ _ (q _ _ (noBs_of_all _ (by decide)) (by rfl)) (q _ _ (noBs_of_all _ (by decide)) (by rfl))
  · refine quiet_append _ _ _ _ _ (quiet_noBs P _ _ _ (noBs_of_all _ (by decide))) ?_
    refine quiet_append _ _ _ _ _ (q _ _ (noBs_of_all _ (by decide)) (by rfl)) ?_
    refine quiet_append _ _ _ _ _ (q _ _ (noBs_of_all _ (by decide)) (by rfl)) ?_
    refine quiet_append _ _ _ _ _ (q _ _ (noBs_of_all _ (by decide)) (by rfl)) ?_
    exact quiet_append _ _ _ _ _ (q _ _ (noBs_of_all _ (by decide)) (by rfl)) (q _ _ (noBs_of_all _ (by decide)) (by rfl))

theorem quietGap_first (P : Params) (lead : List Str) (h : ∀ p ∈ lead, plainText p = true) :
    QuietGap P (header ++ parasRtf lead) :=
  fun b => ⟨quiet_append _ _ _ _ _ (quiet_header P (Or.inl rfl) _) (quiet_paras P (Or.inl rfl) lead b h),
    quiet_append _ _ _ _ _ (quiet_header P (Or.inr rfl) _) (quiet_paras P (Or.inr rfl) lead b h)⟩

theorem quietGap_after (P : Params) (ps : List Str) (h : ∀ p ∈ ps, plainText p = true) : QuietGap P (gapAfter ps) :=
  fun b => ⟨quiet_append P _ ['\n'] _ b (quiet_noBs P _ _ _ (noBs_of_all _ (by decide))) (quiet_paras P (Or.inl rfl) ps b h),
    quiet_append P _ ['\n'] _ b (quiet_noBs P _ _ _ (noBs_of_all _ (by decide))) (quiet_paras P (Or.inr rfl) ps b h)⟩

/-! ## `_save_table` on a rectangle -/

theorem foldl_max_le (c : Nat) : ∀ (rows : Grid) (m : Nat), m ≤ c → (∀ r ∈ rows, r.length = c) →
    rows.foldl (fun m r => max m r.length) m ≤ c
  | [], m, hm, _ => hm
  | r :: rows, m, hm, h => by
    rw [List.foldl_cons]
    apply foldl_max_le c rows _ _ (fun x hx => h x (List.mem_cons_of_mem _ hx))
    have := h r List.mem_cons_self
    omega

theorem saveTable_rect (rows : Grid) (c : Nat) (h : ∀ r ∈ rows, r.length = c) : saveTable rows = rows := by
  unfold saveTable
  simp only
  have hw := foldl_max_le c rows 0 (Nat.zero_le _) h
  conv => rhs; rw [← List.map_id rows]
  apply List.map_congr_left
  intro r hr
  have := h r hr
  have : rows.foldl (fun m r => max m r.length) 0 - r.length = 0 := by omega
  simp [this]

end S2T.Tables.Rtf
