import S2T.Lemmas.PyBytes
import S2T.Lemmas.AesModel
/-!
Helper lemmas for `Props/C20_Src.lean` (the translated `_pypdf_aes_fallback.py` equals the hand model `S2T.Aes`)
that mention neither the generated translation nor the generated tables: bytes / blocks / words under `set`, `xor`,
slices; the ECB loop with its two-variable state; the error liftings `liftV` / `unsited`; the closing tactics.
-/
set_option linter.unusedSimpArgs false
set_option linter.unusedVariables false
namespace S2T.C20.Src
open S2T.Py S2T.Aes S2T.AesL

/-- a table indexed by a byte: 256 entries, each a byte -/
def Tab (t : List Nat) : Prop := t.length = 256 ∧ IsBytes t
instance (t : List Nat) : Decidable (Tab t) := by unfold Tab; infer_instance

theorem getD_lt256 {l : List Nat} (h : IsBytes l) (i : Nat) : l.getD i 0 < 256 := by
  unfold List.getD
  cases hi : l[i]? with
  | none => simp
  | some a => exact h a (List.mem_of_getElem? hi)

theorem getItem_tab {t : List Nat} (ht : Tab t) {x : Nat} (hx : x < 256) :
    getItem t (x : Int) = Except.ok (t.getD x 0) :=
  getItem_natCast t (by rw [ht.1]; exact hx)

theorem isBytes_set {l : List Nat} (h : IsBytes l) (i v : Nat) (hv : v < 256) : IsBytes (l.set i v) := by
  intro b hb
  rcases List.mem_or_eq_of_mem_set hb with hb | rfl
  · exact h b hb
  · exact hv

theorem block_set {l : List Nat} {i v : Nat} (h : Block l) (hv : v < 256) : Block (l.set i v) :=
  ⟨by simp [h.1], isBytes_set h.2 i v hv⟩

/-- `x < 256` for `x` built by `^` from bytes and table entries -/
macro "py_lt256" : tactic =>
  `(tactic| (repeat' (first | assumption | apply xor_lt | (apply getD_lt256; assumption))))
/-- side conditions of the conditional rewrite rules: index in range, byte value -/
macro "py_side" : tactic =>
  `(tactic| first
    | omega
    | (py_lt256; all_goals fail)
    | (simp only [List.length_set, List.length_append, List.length_drop, List.length_take, List.length_map,
        List.length_range, List.length_cons, List.length_nil] at *; omega)
    | fail)

/-- normal form of a translated `for` loop: `let mut x := x; for … ; return x` -/
macro "py_loop_nf" : tactic =>
  `(tactic| simp +instances only [bind_pure_comp, map_pure, bind_pure, rangeN_zero])

theorem getD_block {rks : List (List Nat)} (hr : ∀ rk ∈ rks, Block rk) {r : Nat} (h : r < rks.length) :
    Block (rks.getD r []) := hr _ (getD_mem h)

/-- a model outcome in the translated function's monad; `e` = the `raise` statement that fires -/
def liftV {α} (e : Py.Exc) : Except Aes.Exc α → M α
  | .ok a => Except.ok a
  | .error _ => Except.error e

@[simp] theorem liftV_ok {α} (e : Py.Exc) (a : α) : liftV e (.ok a) = Except.ok a := rfl
@[simp] theorem liftV_error {α} (e : Py.Exc) (x : Aes.Exc) : (liftV e (.error x) : M α) = Except.error e := rfl

theorem repeat_zero (m : Nat) : repeatList [(0 : Nat)] ((m : Nat) : Int) = List.replicate m 0 := by
  simp only [repeatList, Int.toNat_natCast]
  induction m with
  | zero => rfl
  | succ k ih => simp [List.replicate_succ, ih]

theorem rotWord_word {x : List Nat} (h : Word x) : Word (rotWord x) := by
  obtain ⟨a, b, c, d, rfl⟩ := list4 x h.1
  have := h.2
  simp only [isBytes_cons] at this
  refine ⟨rfl, ?_⟩
  simp only [rotWord, List.drop, List.take, List.cons_append, List.nil_append, isBytes_cons]
  exact ⟨this.2.1, this.2.2.1, this.2.2.2.1, this.1, isBytes_nil⟩

theorem xorHead_word {x : List Nat} {c : Nat} (h : Word x) (hc : c < 256) : Word (xorHead x c) := by
  obtain ⟨a, b, d, e, rfl⟩ := list4 x h.1
  have := h.2
  simp only [isBytes_cons] at this
  refine ⟨rfl, ?_⟩
  simp only [xorHead, isBytes_cons]
  exact ⟨xor_lt this.1 hc, this.2⟩

theorem zipXor_word {x y : List Nat} (hx : Word x) (hy : Word y) : Word (List.zipWith (· ^^^ ·) x y) :=
  ⟨by simp [hx.1, hy.1], isBytes_zipWith_xor hx.2 hy.2⟩

theorem set0_xorHead (t : List Nat) (c : Nat) : t.set 0 (t.getD 0 0 ^^^ c) = xorHead t c := by
  cases t <;> simp [xorHead]

theorem getD_word {w : List (List Nat)} (hW : ∀ x ∈ w, Word x) {j : Nat} (hj : j < w.length) : Word (w.getD j []) :=
  hW _ (getD_mem hj)

theorem isBytes_take_drop {key : List Nat} (hk : IsBytes key) (a b : Nat) : IsBytes ((key.drop a).take b) := by
  intro x hx
  exact hk x (List.mem_of_mem_drop (List.mem_of_mem_take hx))

theorem repeat_singleton (x : Nat) (m : Nat) : repeatList [x] ((m : Nat) : Int) = List.replicate m x := by
  simp only [repeatList, Int.toNat_natCast]
  induction m with
  | zero => rfl
  | succ k ih => simp [List.replicate_succ, ih]

theorem bytesOfInts_single {p : Nat} (h : p < 256) : bytesOfInts [((p : Nat) : Int)] = Except.ok [p] := by
  simp [bytesOfInts]; omega

theorem bytesOfInts_single_bad {p : Nat} (h : ¬ p < 256) : bytesOfInts [((p : Nat) : Int)] = Except.error valueError := by
  simp only [bytesOfInts, List.all_cons, List.all_nil, Bool.and_true]
  rw [if_neg]
  · rfl
  · simp; omega

theorem getItem_last (l : List Nat) : getItem l (-((1 : Nat) : Int)) =
    match l.getLast? with
    | some a => Except.ok a
    | none => Except.error indexError := by
  cases l with
  | nil => rfl
  | cons a t =>
    have h1 : ¬ (0 ≤ -((1 : Nat) : Int)) := by omega
    have h2 : 0 ≤ -((1 : Nat) : Int) + (((a :: t).length : Nat) : Int) := by simp; omega
    have h3 : (-((1 : Nat) : Int) + (((a :: t).length : Nat) : Int)).toNat = (a :: t).length - 1 := by simp; omega
    simp only [getItem, normIndex, h1, h2, h3, if_false, if_true]
    rw [List.getLast?_eq_getElem?]
    cases (a :: t)[(a :: t).length - 1]? <;> rfl

/-- forget WHICH `raise` statement of a function fired (both `raise ValueError("Invalid PKCS#7 padding")` of
    `_pkcs7_unpad` are the same exception to every caller) -/
def unsited {α} (x : M α) : M α := x.mapError (fun e => { e with site := 0 })

@[simp] theorem unsited_ok {α} (a : α) : unsited (Except.ok a : M α) = Except.ok a := rfl
@[simp] theorem unsited_error {α} (e : Py.Exc) : unsited (Except.error e : M α) = Except.error { e with site := 0 } := rfl

theorem range'_step (n s : Nat) : List.range' 0 n s = (List.range n).map (fun j => j * s) := by
  apply List.ext_getElem
  · simp
  · intro i h1 h2
    simp [List.getElem_range', Nat.mul_comm]

/-- `out[off : off + 16] = x` where `off` is the end of the part already written and 16 more zero bytes follow -/
theorem setSlice_block {α} (pre post x : List α) (h : 16 ≤ post.length) :
    setSlice (pre ++ post) (some ((pre.length : Nat) : Int)) (some ((pre.length + 16 : Nat) : Int)) x
      = (pre ++ x) ++ post.drop 16 := by
  have h1 : ¬ (((pre.length : Nat) : Int) < 0) := by omega
  have h2 : ¬ (((pre.length + 16 : Nat) : Int) < 0) := by omega
  simp only [setSlice, sliceLo, sliceHi, clampIndex, h1, h2, if_false, Int.toNat_natCast, List.length_append]
  rw [Nat.min_eq_left (by omega), Nat.min_eq_left (by omega), Nat.max_eq_right (by omega)]
  simp [List.take_append, List.drop_append]

/-- the loop `for block in chunks: out[offset:offset+16] = f(block); offset += 16` is the model's `ecbLoop`:
    whatever the shape of the translated body `F`, provided it is that step -/
theorem ecb_forIn {σ : Type} (mk : List Nat → Nat → σ) (outOf : σ → List Nat) (hmk : ∀ o n, outOf (mk o n) = o)
    (f : List Nat → M (List Nat)) (g : List Nat → Except Aes.Exc (List Nat)) (e : Py.Exc)
    (F : List Nat → σ → M (ForInStep σ))
    (hF : ∀ b out off, F b (mk out off) =
      (fun a => ForInStep.yield (mk (setSlice out (some ((off : Nat) : Int)) (some ((off + 16 : Nat) : Int)) a) (off + 16)))
        <$> f b) :
    ∀ (bs : List (List Nat)), (∀ b ∈ bs, f b = liftV e (g b)) → (∀ b ∈ bs, ∀ c, g b = .ok c → c.length = 16) →
    ∀ (pre post : List Nat), post.length = 16 * bs.length →
      outOf <$> forIn bs (mk (pre ++ post) pre.length) F = (fun t => pre ++ t) <$> liftV e (ecbLoop g bs) := by
  intro bs
  induction bs with
  | nil =>
    intro _ _ pre post hp
    have : post = [] := List.eq_nil_of_length_eq_zero (by simpa using hp)
    subst this
    simp [ecbLoop, hmk]
  | cons b rest ih =>
    intro hfg hlen pre post hp
    simp only [List.forIn_cons, hF, hfg b (List.mem_cons_self ..), ecbLoop]
    cases hg : g b with
    | error x => simp
    | ok x =>
      have hx : x.length = 16 := hlen b (List.mem_cons_self ..) x hg
      have hp' : 16 ≤ post.length := by simp at hp; omega
      simp only [liftV_ok, M.map_ok, M.ok_bind, setSlice_block pre post x hp']
      have := ih (fun b' hb' => hfg b' (List.mem_cons_of_mem _ hb')) (fun b' hb' => hlen b' (List.mem_cons_of_mem _ hb'))
        (pre ++ x) (post.drop 16) (by simp at hp ⊢; omega)
      rw [show pre.length + 16 = (pre ++ x).length by simp [hx]]
      rw [this]
      cases ecbLoop g rest with
      | error y => simp
      | ok t => simp [List.append_assoc]

/-! `_chunks(data, 16)` of a block-aligned byte string: 16-byte blocks, `len(data) / 16` of them -/
theorem chunks16_mem {d : List Nat} (hd : IsBytes d) (hl : d.length % 16 = 0) {b : List Nat} (hb : b ∈ chunks d 16) :
    Block b := by
  simp only [chunks, List.mem_map, List.mem_range] at hb
  obtain ⟨j, hj, rfl⟩ := hb
  refine ⟨?_, isBytes_take_drop hd _ _⟩
  simp only [List.length_take, List.length_drop]
  omega

theorem chunks16_length {d : List Nat} (hl : d.length % 16 = 0) : d.length = 16 * (chunks d 16).length := by
  simp only [chunks, List.length_map, List.length_range]
  omega

theorem rangeStep_down' (z : Int) :
    rangeStep z ((0 : Nat) : Int) (-1) = ((List.range' 1 z.toNat).reverse).map (fun (k : Nat) => (k : Int)) :=
  rangeStep_down z

theorem foldl_set_range {α} (v : Nat → α) (pre : List α) : ∀ (n : Nat) (post : List α), n ≤ post.length →
    (List.range n).foldl (fun o i => o.set (pre.length + i) (v i)) (pre ++ post)
      = pre ++ (List.range n).map v ++ post.drop n := by
  intro n
  induction n with
  | zero => intro post _; simp
  | succ n ih =>
    intro post h
    rw [List.range_succ, List.foldl_append, ih post (by omega)]
    simp only [List.foldl_cons, List.foldl_nil, List.map_append, List.map_cons, List.map_nil]
    have hd : post.drop n = post[n] :: post.drop (n + 1) := by
      rw [List.drop_eq_getElem_cons (by omega)]
    rw [hd]
    have hl : (pre ++ List.map v (List.range n)).length = pre.length + n := by simp
    rw [← hl, List.set_append_right _ _ (Nat.le_refl _)]
    simp only [Nat.sub_self, List.append_assoc, List.cons_append, List.nil_append, List.set_cons_zero]

end S2T.C20.Src
