import S2T.Lemmas.AesKeys
/-! ECB / CBC drivers, PKCS#7 helpers, `CryptAES` wrapper and the round-key cache of the model. -/
namespace S2T.AesL
open S2T.Aes (IsBytes Tables Exc)
open S2T.Spec

variable {T : Tables}

/-! ### `_chunks` -/

theorem chunks_append {b R : List Nat} (hb : b.length = 16) : Aes.chunks (b ++ R) 16 = b :: Aes.chunks R 16 := by
  unfold Aes.chunks
  have h1 : ((b ++ R).length + 16 - 1) / 16 = (R.length + 16 - 1) / 16 + 1 := by
    rw [List.length_append, hb]; omega
  rw [h1, List.range_succ_eq_map, List.map_cons, List.map_map]
  congr 1
  · simp [List.take_left' hb]
  · apply List.map_congr_left
    intro j _
    simp only [Function.comp, Nat.succ_eq_add_one]
    have : (j + 1) * 16 = b.length + j * 16 := by rw [hb]; omega
    rw [this, List.drop_append, List.drop_of_length_le (by omega)]
    simp

theorem chunks_flatten {bs : List (List Nat)} (hbs : Blocks bs) : Aes.chunks bs.flatten 16 = bs := by
  induction bs with
  | nil => rfl
  | cons b rest ih =>
    rw [List.flatten_cons, chunks_append (hbs b (List.mem_cons_self ..)).1,
      ih (fun x hx => hbs x (List.mem_cons_of_mem _ hx))]

theorem length_flatten_blocks {bs : List (List Nat)} (hbs : Blocks bs) : bs.flatten.length = 16 * bs.length := by
  induction bs with
  | nil => rfl
  | cons b rest ih =>
    rw [List.flatten_cons, List.length_append, (hbs b (List.mem_cons_self ..)).1,
      ih (fun x hx => hbs x (List.mem_cons_of_mem _ hx)), List.length_cons]
    omega

theorem isBytes_flatten {bs : List (List Nat)} (hbs : Blocks bs) : IsBytes bs.flatten := by
  intro x hx
  obtain ⟨b, hb, hxb⟩ := List.mem_flatten.mp hx
  exact (hbs b hb).2 x hxb

/-- every byte string whose length is a multiple of 16 is the concatenation of 16-byte blocks -/
theorem exists_blocks : ∀ (n : Nat) (d : List Nat), d.length = 16 * n → IsBytes d →
    ∃ bs, Blocks bs ∧ bs.flatten = d ∧ bs.length = n := by
  intro n
  induction n with
  | zero =>
    intro d hd _
    have : d = [] := List.eq_nil_of_length_eq_zero (by omega)
    subst this
    refine ⟨[], ?_, rfl, rfl⟩
    intro b hb; cases hb
  | succ n ih =>
    intro d hd hb
    obtain ⟨bs, h1, h2, h3⟩ := ih (d.drop 16) (by rw [List.length_drop]; omega)
      (fun x hx => hb x (List.mem_of_mem_drop hx))
    refine ⟨d.take 16 :: bs, ?_, ?_, by simp [h3]⟩
    · intro b hbm
      rcases List.mem_cons.mp hbm with rfl | hbm
      · exact ⟨by rw [List.length_take]; omega, fun x hx => hb x (List.mem_of_mem_take hx)⟩
      · exact h1 b hbm
    · rw [List.flatten_cons, h2, List.take_append_drop]

/-! ### loops -/

theorem ecbLoop_enc (hT : TablesOk T) {key : List Nat} (hk : KeyOk key) :
    ∀ bs : List (List Nat), Blocks bs →
      Aes.ecbLoop (fun b => Aes.encryptBlock T b (specRoundKeys key)) bs = .ok (Fips197.ecbEncrypt key bs).flatten := by
  intro bs
  induction bs with
  | nil => intro _; rfl
  | cons b rest ih =>
    intro hbs
    simp only [Aes.ecbLoop, encryptBlock_eq hT hk (hbs b (List.mem_cons_self ..)),
      ih (fun x hx => hbs x (List.mem_cons_of_mem _ hx))]
    rfl

theorem ecbLoop_dec (hT : TablesOk T) {key : List Nat} (hk : KeyOk key) :
    ∀ bs : List (List Nat), Blocks bs →
      Aes.ecbLoop (fun b => Aes.decryptBlock T b (specRoundKeys key)) bs = .ok (Fips197.ecbDecrypt key bs).flatten := by
  intro bs
  induction bs with
  | nil => intro _; rfl
  | cons b rest ih =>
    intro hbs
    simp only [Aes.ecbLoop, decryptBlock_eq hT hk (hbs b (List.mem_cons_self ..)),
      ih (fun x hx => hbs x (List.mem_cons_of_mem _ hx))]
    rfl

theorem cbcEncLoop_eq (hT : TablesOk T) {key : List Nat} (hk : KeyOk key) :
    ∀ (bs : List (List Nat)) (iv : List Nat), Block iv → Blocks bs →
      Aes.cbcEncLoop T (specRoundKeys key) iv bs = .ok (Fips197.cbcEncrypt key iv bs).flatten := by
  intro bs
  induction bs with
  | nil => intro _ _ _; rfl
  | cons p rest ih =>
    intro iv hiv hbs
    have hp : Block p := hbs p (List.mem_cons_self ..)
    have hx : Block (Fips197.xorWords p iv) := xorWords_block hp hiv
    have hc : Block (Fips197.aesEnc key (Fips197.xorWords p iv)) := aesEnc_block hk hx
    have e : Aes.encryptBlock T (List.zipWith (· ^^^ ·) p iv) (specRoundKeys key)
        = .ok (Fips197.aesEnc key (Fips197.xorWords p iv)) := encryptBlock_eq hT hk hx
    simp only [Aes.cbcEncLoop, e, ih _ hc (fun x hx => hbs x (List.mem_cons_of_mem _ hx))]
    rfl

theorem cbcDecLoop_eq (hT : TablesOk T) {key : List Nat} (hk : KeyOk key) :
    ∀ (bs : List (List Nat)) (iv : List Nat), Block iv → Blocks bs →
      Aes.cbcDecLoop T (specRoundKeys key) iv bs = .ok (Fips197.cbcDecrypt key iv bs).flatten := by
  intro bs
  induction bs with
  | nil => intro _ _ _; rfl
  | cons c rest ih =>
    intro iv hiv hbs
    have hc : Block c := hbs c (List.mem_cons_self ..)
    have hd : Block (Fips197.aesDec key c) := aesDec_block hk hc
    simp only [Aes.cbcDecLoop, decryptBlock_eq hT hk hc, ih _ hc (fun x hx => hbs x (List.mem_cons_of_mem _ hx)),
      xor16_eq hd.1 hiv.1]
    rfl

/-! ### drivers -/

theorem keyLen_ok {key : List Nat} (hk : KeyOk key) : ¬ (key.length ≠ 16 ∧ key.length ≠ 24 ∧ key.length ≠ 32) := by
  have := hk.1; omega

theorem flatten_mod {bs : List (List Nat)} (hbs : Blocks bs) : ¬ (bs.flatten.length % 16 ≠ 0) := by
  rw [length_flatten_blocks hbs]; omega

theorem aesEcbEncrypt_eq (hT : TablesOk T) {key : List Nat} {bs : List (List Nat)} (hk : KeyOk key) (hbs : Blocks bs) :
    Aes.aesEcbEncrypt T key bs.flatten = .ok (Fips197.ecbEncrypt key bs).flatten := by
  unfold Aes.aesEcbEncrypt
  rw [if_neg (flatten_mod hbs), expandKey_eq hT hk, chunks_flatten hbs]
  exact ecbLoop_enc hT hk bs hbs

theorem aesEcbDecrypt_eq (hT : TablesOk T) {key : List Nat} {bs : List (List Nat)} (hk : KeyOk key) (hbs : Blocks bs) :
    Aes.aesEcbDecrypt T key bs.flatten = .ok (Fips197.ecbDecrypt key bs).flatten := by
  unfold Aes.aesEcbDecrypt
  rw [if_neg (flatten_mod hbs), expandKey_eq hT hk, chunks_flatten hbs]
  exact ecbLoop_dec hT hk bs hbs

theorem aesCbcEncrypt_eq (hT : TablesOk T) {key iv : List Nat} {bs : List (List Nat)} (hk : KeyOk key)
    (hiv : Block iv) (hbs : Blocks bs) :
    Aes.aesCbcEncrypt T key iv bs.flatten = .ok (Fips197.cbcEncrypt key iv bs).flatten := by
  unfold Aes.aesCbcEncrypt
  rw [if_neg (by rw [hiv.1]; decide), if_neg (flatten_mod hbs), expandKey_eq hT hk, chunks_flatten hbs]
  exact cbcEncLoop_eq hT hk bs iv hiv hbs

theorem aesCbcDecrypt_eq (hT : TablesOk T) {key iv : List Nat} {bs : List (List Nat)} (hk : KeyOk key)
    (hiv : Block iv) (hbs : Blocks bs) :
    Aes.aesCbcDecrypt T key iv bs.flatten = .ok (Fips197.cbcDecrypt key iv bs).flatten := by
  unfold Aes.aesCbcDecrypt
  rw [if_neg (by rw [hiv.1]; decide), if_neg (flatten_mod hbs), expandKey_eq hT hk, chunks_flatten hbs]
  exact cbcDecLoop_eq hT hk bs iv hiv hbs

/-! ### PKCS#7 -/

theorem pkcs7Pad_spec (m : List Nat) (k : Nat) : Aes.pkcs7Pad m k = Fips197.pkcs7Pad k m := rfl

theorem pkcs7Unpad_pad (m : List Nat) {k : Nat} (hk : 0 < k) : Aes.pkcs7Unpad (Aes.pkcs7Pad m k) k = .ok m := by
  have hp1 : 1 ≤ k - m.length % k := by have := Nat.mod_lt m.length hk; omega
  have hp2 : k - m.length % k ≤ k := Nat.sub_le _ _
  generalize hp : k - m.length % k = p at hp1 hp2
  unfold Aes.pkcs7Pad
  simp only [hp]
  unfold Aes.pkcs7Unpad
  have hlast : (m ++ List.replicate p p).getLast? = some p := by
    rw [List.getLast?_append, List.getLast?_replicate, if_neg (by omega)]
    rfl
  rw [hlast]
  simp only
  rw [if_neg (by omega)]
  have hlen : (m ++ List.replicate p p).length - p = m.length := by simp
  rw [hlen, List.drop_left' rfl, if_neg (by simp), List.take_left' rfl]

theorem pkcs7Pad_length (m : List Nat) : (Aes.pkcs7Pad m 16).length = 16 * (m.length / 16 + 1) := by
  unfold Aes.pkcs7Pad
  simp only [List.length_append, List.length_replicate]
  omega

theorem pkcs7Pad_bytes {m : List Nat} (hm : IsBytes m) : IsBytes (Aes.pkcs7Pad m 16) := by
  unfold Aes.pkcs7Pad
  rw [isBytes_append]
  refine ⟨hm, ?_⟩
  intro x hx
  have := (List.mem_replicate.mp hx).2
  omega

/-! ### `CryptAES` -/

theorem cryptAesEncrypt_eq (hT : TablesOk T) {key iv m : List Nat} (hk : KeyOk key) (hiv : Block iv) (hm : IsBytes m) :
    ∃ bs, Blocks bs ∧ bs.flatten = Fips197.pkcs7Pad 16 m ∧ bs.length = m.length / 16 + 1 ∧
      Aes.cryptAesEncrypt T key iv m = .ok (iv ++ (Fips197.cbcEncrypt key iv bs).flatten) := by
  obtain ⟨bs, h1, h2, h3⟩ := exists_blocks (m.length / 16 + 1) (Aes.pkcs7Pad m 16) (pkcs7Pad_length m) (pkcs7Pad_bytes hm)
  refine ⟨bs, h1, h2, h3, ?_⟩
  unfold Aes.cryptAesEncrypt
  rw [← h2, aesCbcEncrypt_eq hT hk hiv h1]

theorem cryptAes_roundtrip (hT : TablesOk T) {key iv m : List Nat} (hk : KeyOk key) (hiv : Block iv) (hm : IsBytes m) :
    ∃ c, Aes.cryptAesEncrypt T key iv m = .ok c ∧ c.take 16 = iv ∧ c.length = 16 + 16 * (m.length / 16 + 1) ∧
      Aes.cryptAesDecrypt T key c = .ok m := by
  obtain ⟨bs, h1, h2, h3, h4⟩ := cryptAesEncrypt_eq hT hk hiv hm
  have hcb : Blocks (Fips197.cbcEncrypt key iv bs) := cbcEncrypt_blocks hk bs iv hiv h1
  have hclen : (Fips197.cbcEncrypt key iv bs).flatten.length = 16 * (m.length / 16 + 1) := by
    have hcl : ∀ (l : List (List Nat)) (v : List Nat), (Fips197.cbcEncrypt key v l).length = l.length := by
      intro l; induction l with
      | nil => intro _; rfl
      | cons p r ih => intro v; simp [Fips197.cbcEncrypt, ih]
    rw [length_flatten_blocks hcb, hcl, h3]
  refine ⟨_, h4, List.take_left' hiv.1, by rw [List.length_append, hiv.1, hclen], ?_⟩
  unfold Aes.cryptAesDecrypt
  simp only [List.take_left' hiv.1, List.drop_left' hiv.1]
  have hne : (Fips197.cbcEncrypt key iv bs).flatten ≠ [] := by
    intro h; rw [h] at hclen; simp at hclen
  rw [if_neg hne, if_neg (flatten_mod hcb), aesCbcDecrypt_eq hT hk hiv hcb, cbcDecrypt_cbcEncrypt hk bs iv hiv h1, h2]
  exact pkcs7Unpad_pad m (by decide)

/-! ### round-key cache -/

/-- every cached entry is what `_expand_key` returns for its key -/
def CacheOk (T : Tables) (cache : Aes.Cache) : Prop := ∀ e ∈ cache, Aes.expandKey T e.1 = .ok e.2

theorem lookup_mem {key : List Nat} {rks : List (List Nat)} :
    ∀ {cache : Aes.Cache}, cache.lookup key = some rks → (key, rks) ∈ cache := by
  intro cache
  induction cache with
  | nil => intro h; simp [List.lookup] at h
  | cons e rest ih =>
    intro h
    obtain ⟨k, v⟩ := e
    by_cases hkk : key = k
    · subst hkk
      simp [List.lookup] at h
      simp [h]
    · have : (key == k) = false := by simpa using hkk
      simp only [List.lookup, this] at h
      exact List.mem_cons_of_mem _ (ih h)

theorem filter_lt {α} (p : α → Bool) (l : List α) (a : α) (ha : a ∈ l) (hp : p a = false) :
    (l.filter p).length + 1 ≤ l.length := by
  induction l with
  | nil => cases ha
  | cons x t ih =>
    rcases List.mem_cons.mp ha with rfl | ha
    · rw [List.filter_cons_of_neg (by simp [hp])]
      have := List.length_filter_le p t
      simp only [List.length_cons]; omega
    · have := ih ha
      by_cases hx : p x = true
      · rw [List.filter_cons_of_pos hx]; simp only [List.length_cons]; omega
      · rw [List.filter_cons_of_neg hx]; simp only [List.length_cons]; omega

/-- `_get_round_keys(key)` returns exactly what `_expand_key(key)` returns (value or ValueError) and keeps the
    cache consistent and bounded, whatever was cached before -/
theorem getRoundKeys_spec (T : Tables) (n : Nat) (cache : Aes.Cache) (key : List Nat) (hc : CacheOk T cache) :
    (Aes.getRoundKeys T n cache key).1 = Aes.expandKey T key ∧ CacheOk T (Aes.getRoundKeys T n cache key).2 ∧
      (cache.length ≤ n → (Aes.getRoundKeys T n cache key).2.length ≤ n) := by
  unfold Aes.getRoundKeys
  split
  · rename_i rks hl
    have hm := lookup_mem hl
    refine ⟨(hc _ hm).symm, ?_, ?_⟩
    · intro e he
      rcases List.mem_append.mp he with he | he
      · exact hc e (List.mem_filter.mp he).1
      · simp only [List.mem_singleton] at he; subst he; exact hc _ hm
    · intro hn
      simp only [List.length_append, List.length_cons, List.length_nil]
      have h1 : (List.filter (fun e => decide (e.1 ≠ key)) cache).length + 1 ≤ cache.length := by
        exact filter_lt _ cache (key, rks) hm (by simp)
      omega
  · split
    · rename_i e he
      exact ⟨he.symm, hc, fun h => h⟩
    · rename_i rks he
      refine ⟨he.symm, ?_, ?_⟩
      · have hall : CacheOk T (cache ++ [(key, rks)]) := by
          intro e hm
          rcases List.mem_append.mp hm with hm | hm
          · exact hc e hm
          · simp only [List.mem_singleton] at hm; subst hm; exact he
        simp only
        split
        · intro e hm; exact hall e (List.mem_of_mem_drop hm)
        · exact hall
      · intro hn
        simp only
        split
        · simp only [List.length_drop, List.length_append, List.length_cons, List.length_nil]; omega
        · rename_i h; omega

end S2T.AesL
