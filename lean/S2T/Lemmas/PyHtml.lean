import S2T.Lemmas.Py
import S2T.Lemmas.PyPaths
import S2T.Py.Html
/-!
Lemmas for the equivalence proofs of `Props/C17_Src.lean` (translated handler methods of `_HtmlTreeBuilder` and
`_XhtmlTextExtractor` = transitions of `S2T/Model/HtmlSkip.lean`).  Core Lean only; every declaration is in `S2T.Py.Html`.

1. strings: `" ".join` = the model's `joinWith`; `s.strip().split() = s.split()`; the pieces of `split()` contain no white
   space, hence `" ".join(s.split()).strip()` is the joined string — together `cellText_eq`: the cell text the source
   computes is the model's `cellText`.
2. the dict comprehension over the attribute pairs is the model's `attrsDict` (`mapM_unwrap_filter` for ANY two lambdas
   that behave as the comprehension's test and element; `dictOfPairs_filterMap`).
3. the heap of node objects: `readNode` (the tree below an address, fuel-free: children have larger addresses),
   `Within h hi r` (the subtree at `r` is well formed and lies below `hi`), the FRAME lemma `Within.frame` (a heap that
   agrees on `[r, hi)` has the same subtree), `Chain` (finished siblings in allocation order, each closed below the next).
4. the ABSTRACTION `absTree` / `absT` (parser object ↦ model state: frames of the open elements, finished nodes read out
   of the heap) and the object INVARIANT `InvAt` / `Inv`.
5. one lemma per heap operation a handler performs — (A) allocation of garbage, (B1/B2) `… ["tail"/"text"] += d`,
   (C) `pop`, (D) allocate + append to the parent's children + push / set `last_closed`, (G) gate fields only,
   (I) `__init__` — each: the invariant is preserved and `absTree` of the new object is the model's operation on
   `absTree` of the old one.  The new object is described by equations on its fields (closed by `rfl`), never by the
   shape of the generated code.  `InvAt.get_tree`: the tree at `self.root` is the model's `getTree`.
-/
namespace S2T.Py.Html
open S2T.Py S2T.HtmlSkip

/-! ## `str.join`, `str.split()`, `str.strip()` -/

theorem strJoin_eq_joinWith (sep : Str) (l : List Str) : strJoin sep l = Epub.joinWith sep l := by
  induction l with
  | nil => rfl
  | cons s t ih =>
    cases t with
    | nil => rfl
    | cons t1 t2 => simp only [strJoin, Epub.joinWith, ih]

theorem go_lstrip (s : Str) (acc : List Str) :
    Epub.pySplit.go (s.dropWhile Epub.isPySpace) [] acc = Epub.pySplit.go s [] acc := by
  induction s with
  | nil => rfl
  | cons c r ih =>
    by_cases hc : Epub.isPySpace c = true
    · simp [List.dropWhile, hc, Epub.pySplit.go, ih]
    · simp [List.dropWhile, hc]

theorem go_append_space (c : Char) (hc : Epub.isPySpace c = true) (s cur : Str) (acc : List Str) :
    Epub.pySplit.go (s ++ [c]) cur acc = Epub.pySplit.go s cur acc := by
  induction s generalizing cur acc with
  | nil => simp [Epub.pySplit.go, hc]
  | cons d r ih => simp only [List.cons_append, Epub.pySplit.go, ih]

theorem go_rstrip (t cur : Str) (acc : List Str) :
    Epub.pySplit.go (t.dropWhile Epub.isPySpace).reverse cur acc = Epub.pySplit.go t.reverse cur acc := by
  induction t with
  | nil => rfl
  | cons c r ih =>
    by_cases hc : Epub.isPySpace c = true
    · simp [List.dropWhile, hc, ih, go_append_space c hc]
    · simp [List.dropWhile, hc]

/-- `s.strip().split() = s.split()` -/
theorem pySplit_strip (s : Str) : Epub.pySplit (strStrip s) = Epub.pySplit s := by
  unfold Epub.pySplit strStrip
  rw [go_rstrip, List.reverse_reverse, go_lstrip]

/-- a piece of `s.split()`: not empty, no white space -/
def Word (w : Str) : Prop := w ≠ [] ∧ ∀ c ∈ w, Epub.isPySpace c = false

theorem go_words (s cur : Str) (acc : List Str) (hcur : ∀ c ∈ cur, Epub.isPySpace c = false)
    (hacc : ∀ w ∈ acc, Word w) : ∀ w ∈ Epub.pySplit.go s cur acc, Word w := by
  induction s generalizing cur acc with
  | nil =>
    intro w hw
    simp only [Epub.pySplit.go, List.mem_reverse] at hw
    split at hw
    · exact hacc w hw
    · rename_i hne
      rcases List.mem_cons.1 hw with rfl | h
      · exact ⟨by simpa using hne, by simpa using hcur⟩
      · exact hacc w h
  | cons c r ih =>
    simp only [Epub.pySplit.go]
    split
    · apply ih
      · simp
      · split
        · exact hacc
        · rename_i hne
          intro w hw
          rcases List.mem_cons.1 hw with rfl | h
          · exact ⟨by simpa using hne, by simpa using hcur⟩
          · exact hacc w h
    · rename_i hc
      apply ih
      · intro d hd
        rcases List.mem_cons.1 hd with rfl | h
        · simpa using hc
        · exact hcur d h
      · exact hacc

theorem pySplit_words (s : Str) : ∀ w ∈ Epub.pySplit s, Word w :=
  go_words s [] [] (by simp) (by simp)

theorem joinWith_last (sep : Str) (ws : List Str) (hne : ws ≠ []) (hw : ∀ w ∈ ws, Word w) :
    ∃ pre c, Epub.joinWith sep ws = pre ++ [c] ∧ Epub.isPySpace c = false := by
  induction ws with
  | nil => exact absurd rfl hne
  | cons w r ih =>
    cases r with
    | nil =>
      have ⟨h1, h2⟩ := hw w (by simp)
      refine ⟨w.dropLast, w.getLast h1, ?_, h2 _ (List.getLast_mem h1)⟩
      simp [Epub.joinWith, List.dropLast_concat_getLast]
    | cons w2 r2 =>
      obtain ⟨pre, c, e, hc⟩ := ih (by simp) (fun x hx => hw x (List.mem_cons_of_mem _ hx))
      exact ⟨w ++ sep ++ pre, c, by simp [Epub.joinWith, e], hc⟩

/-- `" ".join(words).strip()` is the joined string itself -/
theorem strStrip_joinWith (sep : Str) (ws : List Str) (hw : ∀ w ∈ ws, Word w) :
    strStrip (Epub.joinWith sep ws) = Epub.joinWith sep ws := by
  cases ws with
  | nil => rfl
  | cons w r =>
    obtain ⟨pre, c, e, hc⟩ := joinWith_last sep (w :: r) (by simp) hw
    have ⟨h1, h2⟩ := hw w (by simp)
    obtain ⟨a, w', rfl⟩ := List.exists_cons_of_ne_nil h1
    have ha : Epub.isPySpace a = false := h2 a (by simp)
    have hl : (Epub.joinWith sep ((a :: w') :: r)).dropWhile Epub.isPySpace = Epub.joinWith sep ((a :: w') :: r) := by
      cases r <;> simp [Epub.joinWith, ha]
    unfold strStrip
    rw [hl, e]
    simp [hc]

/-- the cell text the source computes is the model's `cellText` -/
theorem cellText_eq (cell : List Str) :
    strStrip (strJoin [' '] (strSplitWs (strStrip (strJoin [' '] cell)))) = Epub.cellText cell := by
  simp only [strSplitWs, pySplit_strip, strJoin_eq_joinWith, Epub.cellText]
  exact strStrip_joinWith _ _ (pySplit_words _)

/-! ## dict comprehension over the attribute pairs -/

theorem foldl_filterMap_attrs (a : Attrs) (d : List (Str × Str)) :
    (a.filterMap fun kv => kv.2.map (fun v => (kv.1, v))).foldl (fun d kv => Tree.dictSet d kv.1 kv.2) d
      = a.foldl (fun d kv => match kv.2 with | some v => Tree.dictSet d kv.1 v | none => d) d := by
  induction a generalizing d with
  | nil => rfl
  | cons kv r ih =>
    obtain ⟨k, v⟩ := kv
    cases v <;> simp [ih]

theorem mapM_unwrap_filter (f : Str × Option Str → M (Str × Str)) (g : Str × Option Str → Bool)
    (hf : ∀ k v, f (k, some v) = Except.ok (k, v)) (hg : ∀ k v, g (k, v) = v.isSome) (a : Attrs) :
    List.mapM f (a.filter g) = Except.ok (a.filterMap fun kv => kv.2.map (fun v => (kv.1, v))) := by
  induction a with
  | nil => rfl
  | cons kv r ih =>
    obtain ⟨k, v⟩ := kv
    cases v with
    | none => simp [hg, ih]
    | some v => simp [hg, hf, ih, List.mapM_cons]

/-- `{k: v for k, v in attrs if v is not None}`, whatever the shape of the two lambdas, is the model's `attrsDict` -/
theorem dictComp_attrs {β} (f : Str × Option Str → M (Str × Str)) (g : Str × Option Str → Bool)
    (hf : ∀ k v, f (k, some v) = Except.ok (k, v)) (hg : ∀ k v, g (k, v) = v.isSome) (a : Attrs)
    (k : List (Str × Str) → M β) :
    (List.mapM f (a.filter g) >>= fun l => k (dictOfPairs l)) = k (Tree.attrsDict a) := by
  rw [mapM_unwrap_filter f g hf hg]
  simp only [M.ok_bind, dictOfPairs, Tree.attrsDict]
  rw [foldl_filterMap_attrs]
  rfl


/-- `{k: v for k, v in attrs if v is not None}` once the `mapM` has been evaluated -/
theorem dictOfPairs_filterMap (a : Attrs) :
    dictOfPairs (a.filterMap fun kv => kv.2.map (fun v => (kv.1, v))) = Tree.attrsDict a := by
  simp only [dictOfPairs, Tree.attrsDict]
  rw [foldl_filterMap_attrs]
  rfl

/-! ## `self.stack[-1]`, `self.stack.pop()`, `len(self.stack)` on a stack `rs.reverse ++ [t]` -/

@[simp] theorem listGetItem_last {α} (l : List α) (t : α) : listGetItem (l ++ [t]) (-1) = Except.ok t := by
  simp [listGetItem]
  have : ((-1 : Int) + ((l.length : Int) + 1)).toNat = l.length := by omega
  simp [this]
  omega

@[simp] theorem listPop_snoc {α} (l : List α) (t : α) : listPop (l ++ [t]) = Except.ok (l, t) := by
  rw [listPop_of_ne_nil _ (by simp)]
  simp

@[simp] theorem len_snoc_gt_one {α} (l : List α) (t : α) : (len (l ++ [t]) > 1) = (l ≠ []) := by
  cases l <;> simp [len] <;> omega

@[simp] theorem deref_of_some {α} {h : Heap α} {r : Nat} {o : α} (hr : h[r]? = some o) : deref h r = Except.ok o := by
  simp [deref, hr]

theorem getElem?_append_of_some {α} {h : List α} {r : Nat} {o : α} (hr : h[r]? = some o) (l : List α) :
    (h ++ l)[r]? = some o := by
  rw [List.getElem?_append_left (List.getElem?_eq_some_iff.1 hr).1]; exact hr

@[simp] theorem alloc_fst {α} (h : Heap α) (o : α) : (alloc h o).1 = h.length := rfl
@[simp] theorem alloc_snd {α} (h : Heap α) (o : α) : (alloc h o).2 = h ++ [o] := rfl
@[simp] theorem store_def {α} (h : Heap α) (r : Nat) (o : α) : store h r o = h.set r o := rfl

/-! ## the heap of `_HtmlTreeBuilder`: reading trees, separation -/

/-- what a dangling / ill-ordered reference is read as (never reached under `Inv`) -/
def noNode : Tree.Node := .mk [] [] [] [] []

/-- the tree below the object at address `r`.  Children are allocated after their parent, so addresses grow
    downwards; a child whose address is not larger is read as `noNode` (this is what makes the function total
    without fuel). -/
def readNode (h : Heap NodeObj) (r : Nat) : Tree.Node :=
  match _hr : h[r]? with
  | none => noNode
  | some o => .mk o.tag o.attrs o.text (o.children.map fun c => if r < c then readNode h c else noNode) o.tail
termination_by h.length - r
decreasing_by
  obtain ⟨hlt, _⟩ := List.getElem?_eq_some_iff.1 _hr
  omega

theorem readNode_eq {h : Heap NodeObj} {r : Ref} {o : NodeObj} (hr : h[r]? = some o) :
    readNode h r = .mk o.tag o.attrs o.text (o.children.map fun c => if r < c then readNode h c else noNode) o.tail := by
  rw [readNode]
  split
  · rename_i h0; rw [hr] at h0; cases h0
  · rename_i o' h0; rw [hr] at h0; cases h0; rfl

/-- the subtree at `r` is well formed (every child has a larger address than its parent and is allocated) and lies
    below the address `hi` -/
inductive Within (h : Heap NodeObj) (hi : Nat) : Nat → Prop
  | mk (r : Nat) (o : NodeObj) (hr : h[r]? = some o) (hlt : r < hi) (hgt : ∀ c ∈ o.children, r < c)
      (hch : ∀ c ∈ o.children, Within h hi c) : Within h hi r

theorem Within.lt {h : Heap NodeObj} {hi r} (w : Within h hi r) : r < hi := by cases w; assumption

theorem Within.mono {h : Heap NodeObj} {hi hi' r} (w : Within h hi r) (hle : hi ≤ hi') : Within h hi' r := by
  induction w with
  | mk r o hr hlt hgt _ ih => exact .mk r o hr (by omega) hgt ih

/-- FRAME: a heap that agrees with `h` on the addresses `[r, hi)` has the same subtree at `r` -/
theorem Within.frame {h : Heap NodeObj} {hi r} (w : Within h hi r) :
    ∀ h' : Heap NodeObj, (∀ a, r ≤ a → a < hi → h'[a]? = h[a]?) → Within h' hi r ∧ readNode h' r = readNode h r := by
  induction w with
  | mk r o hr hlt hgt _ ih =>
    intro h' agree
    have e : h'[r]? = some o := by rw [agree r (Nat.le_refl r) hlt]; exact hr
    have ihc : ∀ c ∈ o.children, Within h' hi c ∧ readNode h' c = readNode h c := fun c hc =>
      ih c hc h' (fun a ha hb => agree a (by have := hgt c hc; omega) hb)
    refine ⟨.mk r o e hlt hgt (fun c hc => (ihc c hc).1), ?_⟩
    rw [readNode_eq e, readNode_eq hr]
    congr 1
    apply List.map_congr_left
    intro c hc
    rw [(ihc c hc).2]

/-- finished children `ks` of an open element, oldest first: each subtree lies below its successor, the last below `hi` -/
def Chain (h : Heap NodeObj) (hi : Nat) : List Nat → Prop
  | [] => True
  | k :: rest => Within h (rest.headD hi) k ∧ Chain h hi rest

theorem Chain.within_all {h : Heap NodeObj} {hi} : ∀ {ks}, Chain h hi ks → ∀ k ∈ ks, Within h hi k
  | [], _, _, hk => by cases hk
  | k :: rest, ⟨w, c⟩, x, hx => by
    have ih := Chain.within_all c
    rcases List.mem_cons.1 hx with rfl | hx
    · cases rest with
      | nil => exact w
      | cons k' r' => exact w.mono (Nat.le_of_lt (ih k' (by simp)).lt)
    · exact ih x hx

theorem Chain.headD_le {h : Heap NodeObj} {hi} {ks : List Nat} (c : Chain h hi ks) : ks.headD hi ≤ hi := by
  cases ks with
  | nil => exact Nat.le_refl _
  | cons k r => exact Nat.le_of_lt (c.within_all k (by simp)).lt

theorem Chain.frame {h : Heap NodeObj} {hi lo} (h' : Heap NodeObj) (agree : ∀ a, lo ≤ a → a < hi → h'[a]? = h[a]?) :
    ∀ {ks}, Chain h hi ks → (∀ k ∈ ks, lo ≤ k) → Chain h' hi ks ∧ ks.map (readNode h') = ks.map (readNode h)
  | [], _, _ => ⟨trivial, rfl⟩
  | k :: rest, ⟨w, c⟩, hlo => by
    have ih := Chain.frame h' agree c (fun x hx => hlo x (List.mem_cons_of_mem _ hx))
    have hk := hlo k (by simp)
    have hb := c.headD_le
    have f := w.frame h' (fun a ha hb' => agree a (by omega) (by omega))
    exact ⟨⟨f.1, ih.1⟩, by simp [f.2, ih.2]⟩

theorem Chain.snoc {h : Heap NodeObj} {hi x} : ∀ {ks}, Chain h hi (ks ++ [x]) ↔ Chain h x ks ∧ Within h hi x
  | [] => by simp [Chain]
  | k :: rest => by
    have ih := @Chain.snoc h hi x rest
    cases rest with
    | nil => simp [Chain]
    | cons k' r' => simp only [List.cons_append, Chain, List.headD_cons] at ih ⊢; rw [ih]; simp [and_assoc]

theorem Chain.mono {h : Heap NodeObj} {hi hi'} (hle : hi ≤ hi') : ∀ {ks}, Chain h hi ks → Chain h hi' ks
  | [], _ => trivial
  | k :: rest, ⟨w, c⟩ => by
    refine ⟨?_, Chain.mono hle c⟩
    cases rest with
    | nil => exact w.mono hle
    | cons k' r' => exact w


/-! ## the abstraction function: parser object ↦ state of the hand model `S2T.HtmlSkip.Tree` -/

/-- finished children of an open element as the model holds them (newest first): all children but the one
    still being worked on (`open_`: the next element of the stack / `last_closed`), which is always the last one -/
def kidsOf (h : Heap NodeObj) (cs : List Nat) (open_ : Option Nat) : List Tree.Node :=
  ((if open_.isSome then cs.dropLast else cs).map (readNode h)).reverse

/-- an element of `self.stack` as a frame of the model -/
def frameOf (h : Heap NodeObj) (r : Nat) (open_ : Option Nat) : Tree.Frame :=
  match h[r]? with
  | some o => { tag := o.tag, attrs := o.attrs, text := o.text, kids := kidsOf h o.children open_ }
  | none => { tag := [], attrs := [], text := [], kids := [] }

/-- the elements below `above` on the stack (top first) -/
def restFrames (h : Heap NodeObj) : Nat → List Nat → List Tree.Frame
  | _, [] => []
  | above, r :: rs => frameOf h r (some above) :: restFrames h r rs

/-- ABSTRACTION of the tree-building fields (`heap`, `stack`, `last_closed`) -/
def absTree (s : TreeBuilder) : Tree.State :=
  match s.stack.reverse with
  | [] => Tree.initState      -- `self.stack` is never empty (`Inv`)
  | t :: rs => { top := frameOf s.heap t s.lastClosed, rest := restFrames s.heap t rs,
                 last := s.lastClosed.map (readNode s.heap) }

/-- ABSTRACTION of a `_HtmlTreeBuilder` object: the gate's two fields + the tree state -/
def absT (s : TreeBuilder) : St Tree.State :=
  { skipDepth := s.skipDepth, skipTag := s.skipTag, down := absTree s }

@[simp] theorem absT_skipDepth (s : TreeBuilder) : (absT s).skipDepth = s.skipDepth := rfl
@[simp] theorem absT_skipTag (s : TreeBuilder) : (absT s).skipTag = s.skipTag := rfl
@[simp] theorem absT_down (s : TreeBuilder) : (absT s).down = absTree s := rfl

/-! ## the invariant of the parser object -/

/-- the object at `r` is an open element: its children are the finished ones `ks` (each closed below its successor)
    followed by `open_` (if any); its `tail` is still empty -/
def OpenAt (h : Heap NodeObj) (r : Nat) (ks : List Nat) (open_ : Option Nat) (o : NodeObj) : Prop :=
  h[r]? = some o ∧ o.children = ks ++ open_.toList ∧ (∀ c ∈ o.children, r < c) ∧ o.tail = []

/-- top of the stack: finished children, then `last_closed` (if any), all closed below the end of the heap -/
def TopOk (h : Heap NodeObj) (t : Nat) (lc : Option Nat) : Prop :=
  ∃ o ks, OpenAt h t ks lc o ∧ Chain h h.length (ks ++ lc.toList)

/-- the elements below: finished children closed below the open child, which is the next element of the stack -/
def StackOk (h : Heap NodeObj) : Nat → List Nat → Prop
  | _, [] => True
  | above, r :: rs => (∃ o ks, OpenAt h r ks (some above) o ∧ Chain h above ks) ∧ StackOk h r rs

/-- INVARIANT of `_HtmlTreeBuilder` (with the stack spelled out: `t` on top of `rs`, top first): the stack is not
    empty; every element of it is the last child of the one below; `last_closed` is `None` or the last child of the
    top; finished subtrees are closed (allocated, children after parents, siblings in allocation order, nothing of a
    later sibling inside); the bottom of the stack is `self.root`.  Garbage in the heap (the node `handle_starttag` allocates before it looks at the gate)
    is unconstrained. -/
def InvAt (s : TreeBuilder) (t : Nat) (rs : List Nat) : Prop :=
  s.stack = rs.reverse ++ [t] ∧ TopOk s.heap t s.lastClosed ∧ StackOk s.heap t rs ∧ (t :: rs).getLast? = some s.root

def Inv (s : TreeBuilder) : Prop := ∃ t rs, InvAt s t rs

theorem absTree_of_stack {s : TreeBuilder} {t rs} (hs : s.stack = rs.reverse ++ [t]) :
    absTree s = { top := frameOf s.heap t s.lastClosed, rest := restFrames s.heap t rs,
                  last := s.lastClosed.map (readNode s.heap) } := by
  simp [absTree, hs]

theorem StackOk.lt {h : Heap NodeObj} {above r rs} (w : StackOk h above (r :: rs)) : r < above := by
  obtain ⟨⟨o, ks, ⟨_, hc, hg, _⟩, _⟩, _⟩ := w
  exact hg above (by simp [hc])

/-- FRAME for the lower part of the stack: a heap that agrees with `h` below `above` -/
theorem StackOk.frame {h : Heap NodeObj} (h' : Heap NodeObj) :
    ∀ {rs above}, StackOk h above rs → (∀ a, a < above → h'[a]? = h[a]?) →
      StackOk h' above rs ∧ restFrames h' above rs = restFrames h above rs
  | [], _, _, _ => ⟨trivial, rfl⟩
  | r :: rs, above, w, agree => by
    have hlt := w.lt
    obtain ⟨⟨o, ks, ⟨ho, hc, hg, htl⟩, hch⟩, wr⟩ := w
    have ih := StackOk.frame h' wr (fun a ha => agree a (by omega))
    have f := Chain.frame (lo := 0) h' (fun a _ hb => agree a hb) hch (fun _ _ => Nat.zero_le _)
    have e : h'[r]? = some o := by rw [agree r hlt]; exact ho
    refine ⟨⟨⟨o, ks, ⟨e, hc, hg, htl⟩, f.1⟩, ih.1⟩, ?_⟩
    simp [restFrames, frameOf, e, ho, ih.2, kidsOf, hc, f.2]


@[simp] theorem kidsOf_some (h : Heap NodeObj) (ks : List Nat) (l l' : Nat) :
    kidsOf h (ks ++ [l]) (some l') = (ks.map (readNode h)).reverse := by simp [kidsOf]
@[simp] theorem kidsOf_none (h : Heap NodeObj) (ks : List Nat) :
    kidsOf h ks none = (ks.map (readNode h)).reverse := by simp [kidsOf]

/-- under the invariant, `last_closed` is allocated -/
theorem InvAt.last_alloc {s : TreeBuilder} {t rs} (hI : InvAt s t rs) {l} (hl : s.lastClosed = some l) :
    ∃ ol, s.heap[l]? = some ol := by
  obtain ⟨_, ⟨o, ks, _, hch⟩, _, _⟩ := hI
  rw [hl] at hch
  have w := hch.within_all l (by simp)
  cases w with
  | mk _ ol hr => exact ⟨ol, hr⟩

/-- under the invariant, the top of the stack is allocated -/
theorem InvAt.top_alloc {s : TreeBuilder} {t rs} (hI : InvAt s t rs) : ∃ o, s.heap[t]? = some o := by
  obtain ⟨_, ⟨o, ks, ⟨ho, _⟩, _⟩, _, _⟩ := hI
  exact ⟨o, ho⟩

/-- (A) an allocation nobody refers to (what `handle_starttag` does before it looks at the gate) -/
theorem InvAt.alloc {s s' : TreeBuilder} {t rs} {n : NodeObj} (hI : InvAt s t rs) (hh : s'.heap = s.heap ++ [n])
    (hs : s'.stack = s.stack) (hl : s'.lastClosed = s.lastClosed) (hr : s'.root = s.root) :
    InvAt s' t rs ∧ absTree s' = absTree s := by
  obtain ⟨hstk, ⟨o, ks, ⟨ho, hc, hg, htl⟩, hch⟩, hrest, hroot⟩ := hI
  have htlt : t < s.heap.length := (List.getElem?_eq_some_iff.1 ho).1
  have agree : ∀ a, a < s.heap.length → s'.heap[a]? = s.heap[a]? := fun a ha => by
    rw [hh, List.getElem?_append_left ha]
  have e : s'.heap[t]? = some o := by rw [agree t htlt]; exact ho
  have f := Chain.frame (lo := 0) s'.heap (fun a _ hb => agree a hb) hch (fun _ _ => Nat.zero_le _)
  have g := StackOk.frame s'.heap hrest (fun a ha => agree a (by omega))
  have hlen : s'.heap.length = s.heap.length + 1 := by simp [hh]
  refine ⟨⟨by rw [hs, hstk], ⟨o, ks, ⟨e, by rw [hl]; exact hc, hg, htl⟩, ?_⟩, g.1, by rw [hr]; exact hroot⟩, ?_⟩
  · rw [hl, hlen]; exact f.1.mono (Nat.le_succ _)
  · rw [absTree_of_stack (hs.trans hstk), absTree_of_stack hstk, hl, g.2]
    have f2 := f.2
    cases hlc : s.lastClosed with
    | none =>
      rw [hlc] at hc f2
      simp only [Option.toList_none, List.append_nil] at hc f2
      simp [frameOf, e, ho, hc, f2]
    | some l =>
      rw [hlc] at hc f2
      simp only [Option.toList_some, List.map_append, List.map_cons, List.map_nil] at hc f2
      have f3 := List.append_inj f2 (by simp)
      simp only [List.cons.injEq, and_true] at f3
      simp [frameOf, e, ho, hc, f3.1, f3.2]

/-- (B1) `self.last_closed["tail"] += d` -/
theorem InvAt.data_last {s s' : TreeBuilder} {t rs l} {ol : NodeObj} {d : Str} (hI : InvAt s t rs)
    (hlc : s.lastClosed = some l) (hol : s.heap[l]? = some ol)
    (hh : s'.heap = s.heap.set l { ol with tail := ol.tail ++ d }) (hs : s'.stack = s.stack)
    (hl : s'.lastClosed = s.lastClosed) (hr : s'.root = s.root) :
    InvAt s' t rs ∧ absTree s' = Tree.data (absTree s) d := by
  obtain ⟨hstk, ⟨o, ks, ⟨ho, hc, hg, htl⟩, hch⟩, hrest, hroot⟩ := hI
  rw [hlc] at hc hch
  simp only [Option.toList_some] at hc hch
  obtain ⟨hck, wl⟩ := Chain.snoc.1 hch
  have htl' : t < l := hg l (by simp [hc])
  have agree : ∀ a, a ≠ l → s'.heap[a]? = s.heap[a]? := fun a ha => by
    rw [hh, List.getElem?_set_ne (Ne.symm ha)]
  have e : s'.heap[t]? = some o := by rw [agree t (by omega)]; exact ho
  have f := Chain.frame (lo := 0) s'.heap (fun a _ hb => agree a (by omega)) hck (fun _ _ => Nat.zero_le _)
  have g := StackOk.frame s'.heap hrest (fun a ha => agree a (by omega))
  have hlen : s'.heap.length = s.heap.length := by simp [hh]
  cases wl with
  | mk _ ol' hr hlt hgt' hch' =>
    rw [hol] at hr; cases hr
    have el : s'.heap[l]? = some { ol with tail := ol.tail ++ d } := by
      rw [hh, List.getElem?_set_self hlt]
    have kids : ∀ c ∈ ol.children, Within s'.heap s.heap.length c ∧ readNode s'.heap c = readNode s.heap c :=
      fun c hcm => (hch' c hcm).frame s'.heap (fun a ha _ => agree a (by have := hgt' c hcm; omega))
    have wl' : Within s'.heap s.heap.length l := .mk l _ el hlt hgt' (fun c hcm => (kids c hcm).1)
    have rl : readNode s'.heap l = match readNode s.heap l with
        | .mk tg a tx ch tl => .mk tg a tx ch (tl ++ d) := by
      rw [readNode_eq el, readNode_eq hol]
      simp only
      congr 1
      apply List.map_congr_left
      intro c hcm
      rw [(kids c hcm).2]
    refine ⟨⟨by rw [hs, hstk], ⟨o, ks, ⟨e, by rw [hl, hlc]; exact hc, hg, htl⟩, ?_⟩, g.1, by rw [hr]; exact hroot⟩, ?_⟩
    · rw [hl, hlc, hlen]; exact Chain.snoc.2 ⟨f.1, wl'⟩
    · rw [absTree_of_stack (hs.trans hstk), absTree_of_stack hstk, hl, hlc, g.2]
      simp only [Tree.data, Option.map_some, frameOf, e, ho, hc, kidsOf_some, f.2, rl]
      cases readNode s.heap l
      rfl

/-- (B2) `self.stack[-1]["text"] += d` when `last_closed` is `None` -/
theorem InvAt.data_top {s s' : TreeBuilder} {t rs} {o : NodeObj} {d : Str} (hI : InvAt s t rs)
    (hlc : s.lastClosed = none) (ho : s.heap[t]? = some o)
    (hh : s'.heap = s.heap.set t { o with text := o.text ++ d }) (hs : s'.stack = s.stack)
    (hl : s'.lastClosed = s.lastClosed) (hr : s'.root = s.root) :
    InvAt s' t rs ∧ absTree s' = Tree.data (absTree s) d := by
  obtain ⟨hstk, ⟨o', ks, ⟨ho', hc, hg, htl⟩, hch⟩, hrest, hroot⟩ := hI
  rw [ho] at ho'; cases ho'
  rw [hlc] at hc hch
  simp only [Option.toList_none, List.append_nil] at hc hch
  have htlt : t < s.heap.length := (List.getElem?_eq_some_iff.1 ho).1
  have agree : ∀ a, a ≠ t → s'.heap[a]? = s.heap[a]? := fun a ha => by
    rw [hh, List.getElem?_set_ne (Ne.symm ha)]
  have e : s'.heap[t]? = some { o with text := o.text ++ d } := by rw [hh, List.getElem?_set_self htlt]
  have f := Chain.frame (lo := t + 1) s'.heap (fun a ha _ => agree a (by omega)) hch
    (fun k hk => hg k (by rw [hc]; exact hk))
  have g := StackOk.frame s'.heap hrest (fun a ha => agree a (by omega))
  have hlen : s'.heap.length = s.heap.length := by simp [hh]
  refine ⟨⟨by rw [hs, hstk], ⟨_, ks, ⟨e, by rw [hl, hlc]; simpa using hc, hg, htl⟩, ?_⟩, g.1, by rw [hr]; exact hroot⟩, ?_⟩
  · rw [hl, hlc, hlen]; simpa using f.1
  · rw [absTree_of_stack (hs.trans hstk), absTree_of_stack hstk, hl, hlc, g.2]
    simp [Tree.data, frameOf, e, ho, hc, f.2]


/-- the tag the model's `Tree.end_` compares with is the tag of the object on top of the stack -/
theorem InvAt.top_tag {s : TreeBuilder} {t rs} {o : NodeObj} (hI : InvAt s t rs) (ho : s.heap[t]? = some o) :
    (absTree s).top.tag = o.tag := by
  rw [absTree_of_stack hI.1]; simp [frameOf, ho]

/-- `len(self.stack) > 1` fails: the model's `rest` is empty -/
theorem InvAt.end_nil {s : TreeBuilder} {t} (hI : InvAt s t []) (tag : Str) : Tree.end_ (absTree s) tag = absTree s := by
  rw [absTree_of_stack hI.1]; simp [Tree.end_, restFrames]

/-- the tag differs from the top's -/
theorem InvAt.end_ne {s : TreeBuilder} {t rs} {o : NodeObj} (hI : InvAt s t rs) (ho : s.heap[t]? = some o) {tag : Str}
    (hne : o.tag ≠ tag) : Tree.end_ (absTree s) tag = absTree s := by
  have := hI.top_tag ho
  unfold Tree.end_
  split
  · rfl
  · simp [this, hne]

/-- (C) `self.last_closed = self.stack.pop()` -/
theorem InvAt.pop {s s' : TreeBuilder} {t p rs} {o : NodeObj} (hI : InvAt s t (p :: rs)) (ho : s.heap[t]? = some o)
    (hh : s'.heap = s.heap) (hs : s'.stack = rs.reverse ++ [p]) (hl : s'.lastClosed = some t) (hr : s'.root = s.root) :
    InvAt s' p rs ∧ absTree s' = Tree.end_ (absTree s) o.tag := by
  obtain ⟨hstk, ⟨o', ks, ⟨ho', hc, hg, htl⟩, hch⟩, ⟨⟨op, kp, ⟨hop, hcp, hgp, htp⟩, hchp⟩, hrest⟩, hroot⟩ := hI
  rw [ho] at ho'; cases ho'
  have htlt : t < s.heap.length := (List.getElem?_eq_some_iff.1 ho).1
  have wt : Within s.heap s.heap.length t :=
    .mk t o ho htlt hg (fun c hcm => hch.within_all c (by rw [← hc]; exact hcm))
  have rt : readNode s.heap t = .mk o.tag o.attrs o.text ((ks ++ s.lastClosed.toList).map (readNode s.heap)) [] := by
    rw [readNode_eq ho, htl, hc]
    congr 1
    apply List.map_congr_left
    intro c hcm
    simp [hg c (by rw [hc]; exact hcm)]
  refine ⟨⟨hs, ⟨op, kp, ⟨by rw [hh]; exact hop, by rw [hl]; exact hcp, hgp, htp⟩, ?_⟩, by rw [hh]; exact hrest,
    by rw [hr]; simpa using hroot⟩, ?_⟩
  · rw [hl, hh]; exact Chain.snoc.2 ⟨hchp, wt⟩
  · rw [absTree_of_stack hs, absTree_of_stack hstk, hl, hh]
    simp only [Tree.end_, restFrames, frameOf, ho, hop, hcp, Option.toList_some, kidsOf_some, if_true, Option.map_some, rt]
    cases hlc : s.lastClosed with
    | none => rw [hlc] at hc; simp [Tree.flush, hc, kidsOf]
    | some l => rw [hlc] at hc; simp [Tree.flush, hc]

/-- (D) `node = {…}` … `self.stack[-1]["children"].append(node)` and then `self.stack.append(node)` (element that is
    not void) or `self.last_closed = node` (void element) -/
theorem InvAt.push {s s' : TreeBuilder} {t rs} {o n : NodeObj} (hI : InvAt s t rs) (ho : s.heap[t]? = some o)
    (hn : n.children = [] ∧ n.text = [] ∧ n.tail = [])
    (hh : s'.heap = (s.heap ++ [n]).set t { o with children := o.children ++ [s.heap.length] }) (hr : s'.root = s.root) :
    (s'.stack = s.stack ++ [s.heap.length] → s'.lastClosed = none →
      InvAt s' s.heap.length (t :: rs) ∧
      absTree s' = { top := { tag := n.tag, attrs := n.attrs, text := [], kids := [] },
                     rest := Tree.flush (absTree s).top (absTree s).last :: (absTree s).rest, last := none }) ∧
    (s'.stack = s.stack → s'.lastClosed = some s.heap.length →
      InvAt s' t rs ∧
      absTree s' = { top := Tree.flush (absTree s).top (absTree s).last, rest := (absTree s).rest,
                     last := some (.mk n.tag n.attrs [] [] []) }) := by
  obtain ⟨hstk, ⟨o', ks, ⟨ho', hc, hg, htl⟩, hch⟩, hrest, hroot⟩ := hI
  rw [ho] at ho'; cases ho'
  have htlt : t < s.heap.length := (List.getElem?_eq_some_iff.1 ho).1
  have hlen : s'.heap.length = s.heap.length + 1 := by simp [hh]
  have agree : ∀ a, a ≠ t → a < s.heap.length → s'.heap[a]? = s.heap[a]? := fun a ha hb => by
    rw [hh, List.getElem?_set_ne (Ne.symm ha), List.getElem?_append_left hb]
  have e : s'.heap[t]? = some { o with children := (ks ++ s.lastClosed.toList) ++ [s.heap.length] } := by
    rw [hh, List.getElem?_set_self (by simp; omega), hc]
  have en : s'.heap[s.heap.length]? = some n := by
    rw [hh, List.getElem?_set_ne (by omega)]; simp
  have f := Chain.frame (lo := t + 1) s'.heap (fun a ha hb => agree a (by omega) hb) hch
    (fun k hk => hg k (by rw [hc]; exact hk))
  have g := StackOk.frame s'.heap hrest (fun a ha => agree a (by omega) (by omega))
  have wn : Within s'.heap (s.heap.length + 1) s.heap.length :=
    .mk _ n en (Nat.lt_succ_self _) (by simp [hn.1]) (by simp [hn.1])
  have hg' : ∀ c ∈ (ks ++ s.lastClosed.toList) ++ [s.heap.length], t < c := by
    intro c hcm
    rcases List.mem_append.1 hcm with h1 | h1
    · exact hg c (by rw [hc]; exact h1)
    · simp at h1; omega
  have flush_eq : Tree.flush (frameOf s.heap t s.lastClosed) (s.lastClosed.map (readNode s.heap))
      = { tag := o.tag, attrs := o.attrs, text := o.text,
          kids := ((ks ++ s.lastClosed.toList).map (readNode s.heap)).reverse } := by
    cases hlc : s.lastClosed with
    | none => rw [hlc] at hc; simp [Tree.flush, frameOf, ho, hc]
    | some l => rw [hlc] at hc; simp [Tree.flush, frameOf, ho, hc]
  have kk : kidsOf s'.heap ((ks ++ s.lastClosed.toList) ++ [s.heap.length]) (some s.heap.length)
      = ((ks ++ s.lastClosed.toList).map (readNode s.heap)).reverse := by rw [kidsOf_some, f.2]
  constructor
  · intro hs hl
    have hs' : s'.stack = (t :: rs).reverse ++ [s.heap.length] := by rw [hs, hstk]; simp
    refine ⟨⟨hs', ⟨n, [], ⟨en, by rw [hl]; simp [hn.1], by simp [hn.1], hn.2.2⟩, by rw [hl]; trivial⟩,
      ⟨⟨_, ks ++ s.lastClosed.toList, ⟨e, rfl, hg', htl⟩, f.1⟩, g.1⟩, by rw [hr]; simpa using hroot⟩, ?_⟩
    rw [absTree_of_stack hs', absTree_of_stack hstk, hl]
    dsimp only
    rw [flush_eq]
    simp only [restFrames, g.2, Option.map_none, frameOf, e, en, kk]
    simp [hn.1, hn.2.1]
  · intro hs hl
    refine ⟨⟨by rw [hs, hstk], ⟨_, ks ++ s.lastClosed.toList, ⟨e, by rw [hl]; rfl, hg', htl⟩, ?_⟩, g.1, by rw [hr]; exact hroot⟩, ?_⟩
    · rw [hl, hlen]; exact Chain.snoc.2 ⟨f.1, wn⟩
    · rw [absTree_of_stack (hs.trans hstk), absTree_of_stack hstk, hl, g.2]
      dsimp only
      rw [flush_eq]
      simp only [frameOf, e, kk]
      simp [readNode_eq en, hn.1, hn.2.1, hn.2.2]


/-- (G) only the gate's fields change -/
theorem InvAt.gate {s s' : TreeBuilder} {t rs} (hI : InvAt s t rs) (hh : s'.heap = s.heap) (hs : s'.stack = s.stack)
    (hl : s'.lastClosed = s.lastClosed) (hr : s'.root = s.root) : InvAt s' t rs ∧ absTree s' = absTree s := by
  refine ⟨?_, ?_⟩
  · unfold InvAt; rw [hh, hs, hl, hr]; exact hI
  · unfold absTree; rw [hh, hs, hl]

/-- (I) `__init__`: one object, alone on the stack -/
theorem InvAt.init {s' : TreeBuilder} {h0 : Heap NodeObj}
    (hh : s'.heap = h0 ++ [{ tag := "root".toList, attrs := [], children := [], text := [], tail := [] }])
    (hs : s'.stack = [h0.length]) (hl : s'.lastClosed = none) (hr : s'.root = h0.length) :
    InvAt s' h0.length [] ∧ absTree s' = Tree.initState := by
  have e : s'.heap[h0.length]? = some { tag := "root".toList, attrs := [], children := [], text := [], tail := [] } := by
    rw [hh]; simp
  refine ⟨⟨by rw [hs]; rfl, ⟨_, [], ⟨e, by rw [hl]; rfl, by simp, rfl⟩, by rw [hl]; trivial⟩, trivial, by rw [hr]; rfl⟩, ?_⟩
  rw [absTree_of_stack (t := h0.length) (rs := []) (by rw [hs]; rfl), hl]
  simp [frameOf, e, restFrames, Tree.initState]

/-- an open element with the child being worked on put back: the node the model would make of it -/
theorem node_of_open {h : Heap NodeObj} {r ks} {open_ : Option Nat} {o : NodeObj} (hO : OpenAt h r ks open_ o) :
    (let f := Tree.flush (frameOf h r open_) (open_.map (readNode h))
     Tree.Node.mk f.tag f.attrs f.text f.kids.reverse []) = readNode h r := by
  obtain ⟨ho, hc, hg, htl⟩ := hO
  have hm : (o.children.map fun c => if r < c then readNode h c else noNode) = o.children.map (readNode h) := by
    apply List.map_congr_left
    intro c hcm
    simp [hg c hcm]
  rw [readNode_eq ho, htl, hm, hc]
  cases open_ with
  | none => simp [Tree.flush, frameOf, ho, hc]
  | some l => simp [Tree.flush, frameOf, ho, hc]

/-- `get_tree()`: the tree at the bottom of the stack is the model's `closeUp` of the frames -/
theorem closeUp_read {h : Heap NodeObj} : ∀ (rs : List Nat) (r : Nat) (ks : List Nat) (open_ : Option Nat) (o : NodeObj),
    OpenAt h r ks open_ o → StackOk h r rs →
      some (Tree.closeUp (frameOf h r open_) (open_.map (readNode h)) (restFrames h r rs))
        = ((r :: rs).getLast?).map (readNode h)
  | [], r, ks, open_, o, hO, _ => by
    have := node_of_open hO
    simp only [Tree.closeUp, restFrames] at this ⊢
    simp [this]
  | p :: rs, r, ks, open_, o, hO, ⟨⟨op, kp, hOp, _⟩, hrest⟩ => by
    have h1 := node_of_open hO
    have ih := closeUp_read rs p kp (some r) op hOp hrest
    simp only [Tree.closeUp, restFrames] at h1 ⊢
    rw [h1]
    simpa using ih

/-- under the invariant, the tree `self.root` points to is the model's `getTree` -/
theorem InvAt.get_tree {s : TreeBuilder} {t rs} (hI : InvAt s t rs) :
    readNode s.heap s.root = Tree.getTree (absTree s) := by
  obtain ⟨hstk, ⟨o, ks, hO, _⟩, hrest, hroot⟩ := hI
  have := closeUp_read rs t ks s.lastClosed o hO hrest
  rw [hroot] at this
  rw [absTree_of_stack hstk]
  simpa [Tree.getTree] using this.symm

/-- from a statement about the tree fields to the statement of the commuting square (`s'` and `M` come from the goal) -/
theorem square_of {s' : TreeBuilder} {t rs} {T : Tree.State} {M : St Tree.State}
    (h : InvAt s' t rs ∧ absTree s' = T) (hM : M = ⟨s'.skipDepth, s'.skipTag, T⟩) : Inv s' ∧ absT s' = M := by
  refine ⟨⟨t, rs, h.1⟩, ?_⟩
  rw [hM, ← h.2]; rfl

end S2T.Py.Html
