import S2T.Model.OoxmlDocx
import S2T.Spec.OoxmlDoc
import S2T.Lemmas.OoxmlLin
/-! C02 (part "ooxml"): the DOCX walk on rendered documents. -/
namespace S2T.C02.Ooxml.Docx
open S2T.C02.Ooxml

variable {ws : Char → Bool}

theorem concat_append (a b : List Str) : concat (a ++ b) = concat a ++ concat b := by
  induction a with
  | nil => rfl
  | cons x a ih => simp [concat, ih]

theorem blockTexts_append (a b : List Xml) : blockTexts ws (a ++ b) = blockTexts ws a ++ blockTexts ws b := by
  induction a with
  | nil => simp [blockTexts]
  | cons x a ih => cases x with | node t a1 tx k => simp [blockTexts, ih]

theorem join_nonblank (sep : Str) (hsep : AllWs ws sep) (hne : sep ≠ []) (ts : List Str) (h : ts ≠ [])
    (hall : ∀ t ∈ ts, nonblank ws t = true) : nonblank ws (join sep ts) = true := by
  rw [nonblank_iff, words_join _ hne hsep]
  cases ts with
  | nil => exact absurd rfl h
  | cons t r =>
    have := (nonblank_iff (ws := ws) t).1 (hall t (by simp))
    simp [this]


/- every text `_extract_block_texts` / `_extract_table_text` returns has a word in it -/
mutual
theorem nbB (hw : WsOk ws) : ∀ xs : List Xml, (∀ t ∈ blockTexts ws xs, nonblank ws t = true)
  | [] => by simp [blockTexts]
  | .node tag a tx kids :: r => by
    intro t ht
    simp only [blockTexts, List.mem_append] at ht
    rcases ht with ht | ht
    · cases tag <;> simp only [List.not_mem_nil] at ht
      case wSdt => exact nbSB hw kids t ht
      case wCustomXml => exact nbB hw kids t ht
      case wP =>
        split at ht
        · simp at ht; subst ht; assumption
        · simp at ht
      case wTbl => exact nbR hw kids t ht
    · exact nbB hw r t ht
theorem nbSB (hw : WsOk ws) : ∀ xs : List Xml, (∀ t ∈ sdtBlocks ws xs, nonblank ws t = true)
  | [] => by simp [sdtBlocks]
  | .node tag a tx kids :: r => by
    intro t ht
    simp only [sdtBlocks] at ht
    split at ht
    · exact nbB hw kids t ht
    · exact nbSB hw r t ht
theorem nbR (hw : WsOk ws) : ∀ xs : List Xml, (∀ t ∈ tableRows ws xs, nonblank ws t = true)
  | [] => by simp [tableRows]
  | .node tag a tx kids :: r => by
    intro t ht
    simp only [tableRows, List.mem_append] at ht
    rcases ht with ht | ht
    · cases tag <;> simp only [List.not_mem_nil] at ht
      case wSdt => exact nbSR hw kids t ht
      case wCustomXml => exact nbR hw kids t ht
      case wTr => exact nbC hw kids t ht
    · exact nbR hw r t ht
theorem nbSR (hw : WsOk ws) : ∀ xs : List Xml, (∀ t ∈ sdtRows ws xs, nonblank ws t = true)
  | [] => by simp [sdtRows]
  | .node tag a tx kids :: r => by
    intro t ht
    simp only [sdtRows] at ht
    split at ht
    · exact nbR hw kids t ht
    · exact nbSR hw r t ht
theorem nbC (hw : WsOk ws) : ∀ xs : List Xml, (∀ t ∈ rowCells ws xs, nonblank ws t = true)
  | [] => by simp [rowCells]
  | .node tag a tx kids :: r => by
    intro t ht
    simp only [rowCells, List.mem_append] at ht
    rcases ht with ht | ht
    · cases tag <;> simp only [List.not_mem_nil] at ht
      case wSdt => exact nbSC hw kids t ht
      case wCustomXml => exact nbC hw kids t ht
      case wTc =>
        split at ht
        · simp at ht
        · rename_i hne
          simp at ht; subst ht
          exact join_nonblank _ (allws_sp hw) (by simp) _ (by simpa using hne) (nbB hw kids)
    · exact nbC hw r t ht
theorem nbSC (hw : WsOk ws) : ∀ xs : List Xml, (∀ t ∈ sdtCells ws xs, nonblank ws t = true)
  | [] => by simp [sdtCells]
  | .node tag a tx kids :: r => by
    intro t ht
    simp only [sdtCells] at ht
    split at ht
    · exact nbC hw kids t ht
    · exact nbSC hw r t ht
end


theorem flatMap_words_eq_nil_of_nil (ts : List Str) (h : ts = []) : ts.flatMap (words ws) = [] := by subst h; rfl

theorem flatMap_words_ne_nil (ts : List Str) (hne : ts ≠ []) (hall : ∀ t ∈ ts, nonblank ws t = true) :
    ts.flatMap (words ws) ≠ [] := by
  cases ts with
  | nil => exact absurd rfl hne
  | cons t r =>
    have := (nonblank_iff (ws := ws) t).1 (hall t (by simp))
    simp [this]

/-- the text-box part of `_process_text_element` against the reference linearisation -/
theorem box_eqv (hw : WsOk ws) (ts : List Str) (L : Str) (hd : Delim ws L)
    (hall : ∀ t ∈ ts, nonblank ws t = true) (h : ts.flatMap (words ws) = words ws L) :
    Eqv ws (concat (if ts.isEmpty then [] else [['\n'] ++ join ['\n'] ts ++ ['\n']]))
      (if nonblank ws L then L else []) := by
  by_cases hts : ts = []
  · subst hts
    have : nonblank ws L = false := by
      cases hn : nonblank ws L with
      | false => rfl
      | true => exact absurd h.symm ((nonblank_iff L).1 hn)
    simp [this, concat]
    exact Eqv.refl _
  · have hne := flatMap_words_ne_nil ts hts hall
    have hL : nonblank ws L = true := by rw [nonblank_iff, ← h]; exact hne
    have e : ts.isEmpty = false := by cases ts <;> simp_all
    simp only [e, hL, if_true, concat, List.append_nil, Bool.false_eq_true, if_false]
    rcases hd with rfl | ⟨c1, m, c2, rfl, h1, h2⟩
    · simp [nonblank] at hL
    · have hm : words ws (c1 :: m ++ [c2]) = words ws m := by
        rw [List.cons_append, words_cons_ws _ _ h1, words_append_ws_end _ _ h2]
      have := Eqv.wrap (ws := ws) (s1 := ['\n']) (s2 := ['\n']) (s3 := [c1]) (s4 := [c2])
        (a := join ['\n'] ts) (b := m) (by simp) (by simp) (by simp) (by simp)
        (allws_nl hw) (allws_nl hw) (by intro c hc; simp at hc; subst hc; exact h1)
        (by intro c hc; simp at hc; subst hc; exact h2)
        (by rw [words_join _ (by simp) (allws_nl hw), h, hm])
      simpa using this


mutual
theorem docx_I (hw : WsOk ws) : ∀ x : Inline, Eqv ws (concat (processEl ws (renderI x))) (linI fmtDocx ws x)
  | .text s => by
    simp only [renderI, el, leaf, processEl, runKids, linI, o]
    split <;> simp_all [concat] <;> exact Eqv.refl _
  | .tab => by
    simp only [renderI, el, processEl, runKids, linI, concat, List.append_nil]
    exact Eqv.seps (by simp) (by simp) (by intro c hc; simp at hc; subst hc; exact hw.tab) (allws_sp hw)
  | .br => by
    simp only [renderI, el, processEl, runKids, linI, concat, List.append_nil]
    exact Eqv.seps (by simp) (by simp) (allws_nl hw) (allws_sp hw)
  | .link _ xs => by
    simp only [renderI, processEl, linI, o]
    exact docx_Is hw xs
  | .ins xs => by
    simp only [renderI, el, processEl, linI, o]
    exact docx_Is hw xs
  | .del s => by
    simp only [renderI, el, leaf, processEl, processEls, runKids, linI, o, concat, List.append_nil]
    exact Eqv.refl _
  | .ctl xs => by
    simp only [renderI, el, processEl, processEls, linI, o, List.append_nil, List.nil_append]
    exact docx_Is hw xs
  | .mark _ => by
    simp only [renderI, el, processEl, runKids, linI, o, concat, List.append_nil]
    exact Eqv.refl _
  | .box bs => by
    simp only [renderI, boxRun, el, processEl, processEls, runKids, choiceKids, linI, o, List.append_nil,
      if_true]
    exact box_eqv hw _ _ (delim_Bs fmtDocx hw bs) (nbB hw _) (docx_Bs hw bs)
theorem docx_Is (hw : WsOk ws) : ∀ xs : List Inline, Eqv ws (concat (processEls ws (renderIs xs))) (linIs fmtDocx ws xs)
  | [] => by simp only [renderIs, processEls, concat, linIs]; exact Eqv.refl _
  | x :: r => by
    simp only [renderIs, processEls, concat_append, linIs]
    exact Eqv.append (docx_I hw x) (docx_Is hw r)
theorem docx_B (hw : WsOk ws) : ∀ b : Block, (blockTexts ws (renderB b)).flatMap (words ws) = words ws (linB fmtDocx ws b)
  | .para _ xs => by
    have h := (docx_Is hw xs).toWords
    simp only [renderB, el, blockTexts, processEls, processEl, prop, o, List.append_nil, List.nil_append, linB]
    rw [List.cons_append, words_cons_ws _ _ hw.sp, words_append_ws_end _ _ hw.sp,
      ← h, ← words_strip (ws := ws) (· == '\n') (by intro c hc; simp at hc; subst hc; exact hw.nl)]
    split
    · simp
    · rename_i hn
      have := (nonblank_false_iff (ws := ws) _).1 (by simpa using hn)
      simp [words_allws _ this]
  | .heading _ xs => by
    have h := (docx_Is hw xs).toWords
    simp only [renderB, el, blockTexts, processEls, processEl, prop, o, List.append_nil, List.nil_append, linB]
    rw [List.cons_append, words_cons_ws _ _ hw.sp, words_append_ws_end _ _ hw.sp,
      ← h, ← words_strip (ws := ws) (· == '\n') (by intro c hc; simp at hc; subst hc; exact hw.nl)]
    split
    · simp
    · rename_i hn
      have := (nonblank_false_iff (ws := ws) _).1 (by simpa using hn)
      simp [words_allws _ this]
  | .list items => by
    simp only [renderB, linB]
    exact docx_Items hw items
  | .table rows => by
    simp only [renderB, el, blockTexts, tableRows, o, List.append_nil, List.nil_append, linB]
    exact docx_Rows hw rows
  | .ctl bs => by
    simp only [renderB, el, blockTexts, sdtBlocks, o, List.append_nil, linB]
    simp only [reduceCtorEq, if_false, if_true]
    exact docx_Bs hw bs
theorem docx_Bs (hw : WsOk ws) : ∀ bs : List Block, (blockTexts ws (renderBs bs)).flatMap (words ws) = words ws (linBs fmtDocx ws bs)
  | [] => by simp [renderBs, blockTexts, linBs, words_nil]
  | b :: r => by
    simp only [renderBs, blockTexts_append, List.flatMap_append, linBs]
    rw [docx_B hw b, docx_Bs hw r, (delim_B fmtDocx hw b).words_right]
theorem docx_Items (hw : WsOk ws) : ∀ its : List (List Block),
    (blockTexts ws (renderItems its)).flatMap (words ws) = words ws (linCells fmtDocx ws its)
  | [] => by simp [renderItems, blockTexts, linCells, words_nil]
  | it :: r => by
    simp only [renderItems, blockTexts_append, List.flatMap_append, linCells]
    rw [docx_Bs hw it, docx_Items hw r, (delim_Bs fmtDocx hw it).words_right]
theorem docx_Cells (hw : WsOk ws) : ∀ cs : List (List Block),
    (rowCells ws (renderCells cs)).flatMap (words ws) = words ws (linCells fmtDocx ws cs)
  | [] => by simp [renderCells, rowCells, linCells, words_nil]
  | c :: r => by
    simp only [renderCells, el, rowCells, blockTexts, o, List.nil_append, List.flatMap_append, linCells]
    rw [docx_Cells hw r, (delim_Bs fmtDocx hw c).words_right, ← docx_Bs hw c]
    congr 1
    by_cases he : (blockTexts ws (renderBs c)).isEmpty = true
    · have : blockTexts ws (renderBs c) = [] := by simpa using he
      simp [this]
    · simp [he, words_join _ (by simp) (allws_sp hw)]
theorem docx_Rows (hw : WsOk ws) : ∀ rows : List (List (List Block)),
    (tableRows ws (renderRows rows)).flatMap (words ws) = words ws (linRows fmtDocx ws rows)
  | [] => by simp [renderRows, tableRows, linRows, words_nil]
  | row :: r => by
    simp only [renderRows, el, tableRows, rowCells, o, List.nil_append, List.flatMap_append, linRows]
    rw [docx_Rows hw r, docx_Cells hw row, (delim_Cells fmtDocx hw row).words_right]
end

/-- `DocxContent.get_full_text()` of the rendered document has exactly the words of the body, in order -/
theorem docx_words (hw : WsOk ws) (d : Doc) : words ws (fullText ws (renderBody d)) = bodyWords fmtDocx ws d := by
  simp only [fullText, renderBody, blockTexts_append, bodyWords]
  rw [words_join _ (by simp) (allws_nl hw), List.flatMap_append, docx_Bs hw d.body]
  simp [el, blockTexts, o]

end S2T.C02.Ooxml.Docx
