import S2T.Lemmas.TablesRtfRows
/-! The cells of a written row; where rows start and end in a text. -/
namespace S2T.Tables.Rtf
open S2T.HtmlSkip (Str)
open S2T.Tables

theorem quiet_trowd_lit (P : Params) {kw : Str} (hk : kw = sCell ∨ kw = sRow) (b : Str) :
    Quiet P kw "\\trowd".toList b := by
  have e : "\\trowd".toList = '\\' :: 't' :: "rowd".toList := by rfl
  rw [e]
  rcases hk with rfl | rfl
  · exact quiet_first P _ 't' _ _ (noBs_of_all _ (by decide)) (by decide) (by decide)
  · exact quiet_first P _ 't' _ _ (noBs_of_all _ (by decide)) (by decide) (by decide)

theorem quiet_row_lit (P : Params) {kw : Str} (hk : kw = sCell ∨ kw = sTrowd) (b : Str) :
    Quiet P kw "\\row".toList b := by
  have e : "\\row".toList = '\\' :: 'r' :: "ow".toList := by rfl
  rw [e]
  rcases hk with rfl | rfl
  · exact quiet_first P _ 'r' _ _ (noBs_of_all _ (by decide)) (by decide) (by decide)
  · exact quiet_first P _ 'r' _ _ (noBs_of_all _ (by decide)) (by decide) (by decide)

theorem quiet_cellEnd (P : Params) {kw : Str} (hk : kw = sTrowd ∨ kw = sRow) (b : Str) : Quiet P kw sCellEnd b := by
  have e : sCellEnd = '\\' :: 'c' :: "ell ".toList := by rfl
  rw [e]
  rcases hk with rfl | rfl
  · exact quiet_first P _ 'c' _ _ (noBs_of_all _ (by decide)) (by decide) (by decide)
  · exact quiet_first P _ 'c' _ _ (noBs_of_all _ (by decide)) (by decide) (by decide)

theorem quiet_lead0 (P : Params) (n : Nat) (b : Str) : Quiet P sCell (lead0 n) b := by
  unfold lead0
  exact quiet_append _ _ _ _ _ (quiet_append _ _ _ _ _ (quiet_trowd_lit P (Or.inl rfl) _) (quiet_cellxs P (Or.inl rfl) n 0 _))
    (quiet_noBs P _ [' '] b (noBs_of_all _ (by decide)))

theorem sCellEnd_eq (X : Str) : sCellEnd ++ X = '\\' :: (sCell ++ (' ' :: X)) := rfl

theorem rowRtf_cons (c : RCell) (cs : List RCell) :
    rowRtf (c :: cs) = lead0 (cs.length + 1) ++ ((sCellStart ++ bodyRtf c) ++
      ('\\' :: (sCell ++ (' ' :: (cs.flatMap cellRtf ++ "\\row".toList))))) := by
  unfold rowRtf lead0
  simp only [List.flatMap_cons, cellRtf_eq, List.length_cons, List.append_assoc, sCellEnd_eq, List.cons_append]

theorem split_row (P : Params) (c : RCell) (cs : List RCell) (hr : ∀ x ∈ c :: cs, plainCell x = true) :
    splitKw P sCell 0 [] (rowRtf (c :: cs)) =
      (lead0 (cs.length + 1) ++ sCellStart ++ bodyRtf c) ::
        (cs.map (fun x => [' '] ++ sCellStart ++ bodyRtf x) ++ [[' '] ++ "\\row".toList]) := by
  rw [rowRtf_cons, splitKw_quiet P sCell _ _ _ (quiet_lead0 P _ _),
    splitKw_quiet P sCell _ _ _ (quiet_cellFront P (Or.inl rfl) c (hr c List.mem_cons_self) _),
    splitKw_hit P sCell _ _ (kwAt_cellEnd P _)]
  have e2 : splitKw P sCell 0 [] (' ' :: (cs.flatMap cellRtf ++ "\\row".toList)) =
      splitKw P sCell 0 [' '] (cs.flatMap cellRtf ++ "\\row".toList) := by
    simp only [splitKw, kwAt_noBs P sCell ' ' _ (by decide), Bool.false_eq_true, if_false]
  rw [e2, split_cells P cs _ (fun x hx => hr x (List.mem_cons_of_mem _ hx)) (quiet_row_lit P (Or.inl rfl) [])]
  simp only [List.reverse_append, List.reverse_reverse, List.append_nil, List.append_assoc]

/-- `_extract_table_cells` of a written row: the texts of its cells, in order -/
theorem extractCells_row (P : Params) (hP : specialsOk P = true) (r : RRow) (hne : r ≠ [])
    (hr : ∀ c ∈ r, plainCell c = true) : extractCells P (rowRtf r) = r.map cellSpec := by
  cases r with
  | nil => exact absurd rfl hne
  | cons c cs =>
    unfold extractCells
    rw [split_row P c cs hr]
    have e3 : ∀ (x : Str) (l : List Str) (y : Str), (x :: (l ++ [y])).dropLast = x :: l := by
      intro x l y
      rw [show x :: (l ++ [y]) = (x :: l) ++ [y] from rfl, List.dropLast_concat]
    rw [e3, List.map_cons, List.map_cons, List.map_map]
    have h0 := cellText_part P hP c (hr c List.mem_cons_self) (LeadOf.first cs.length)
    unfold bodyRtf
    rw [h0]
    congr 1
    apply List.map_congr_left
    intro x hx
    simp only [Function.comp_apply]
    exact cellText_part P hP x (hr x (List.mem_cons_of_mem _ hx)) LeadOf.later

/-! ## `finditer` -/

theorem findStarts_quiet (P : Params) (kw a b : Str) (i : Nat) (h : Quiet P kw a b) :
    findStarts P kw i (a ++ b) = findStarts P kw (i + a.length) b := by
  induction a generalizing i with
  | nil => rfl
  | cons c a ih =>
    obtain ⟨h1, h2⟩ := h
    simp only [List.cons_append] at h1 ⊢
    simp only [findStarts, h1, Bool.false_eq_true, if_false]
    rw [ih _ h2]
    congr 1
    simp; omega

theorem findStarts_quiet_nil (P : Params) (kw a : Str) (i : Nat) (h : Quiet P kw a []) : findStarts P kw i a = [] := by
  have := findStarts_quiet P kw a [] i h
  simpa [findStarts] using this

/-- a match of `\\kw\b` at the head -/
theorem findStarts_hit (P : Params) (kw b : Str) (i : Nat) (hk : NoBs kw) (h : kwAt P kw ('\\' :: (kw ++ b)) = true) :
    findStarts P kw i ('\\' :: (kw ++ b)) = i :: findStarts P kw (i + 1 + kw.length) b := by
  simp only [findStarts, h, if_true]
  rw [findStarts_quiet P kw kw b (i + 1) (quiet_noBs P kw kw b hk)]

end S2T.Tables.Rtf
