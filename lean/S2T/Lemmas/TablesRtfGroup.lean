import S2T.Lemmas.TablesRtfDoc
/-! `tableRows` of a text of gaps and rows; the grouping loop without positions. -/
namespace S2T.Tables.Rtf
open S2T.HtmlSkip (Str)
open S2T.Tables

theorem rowsOf_lower : ∀ (segs : List Seg) (i : Nat), ∀ q ∈ rowsOf i segs, i ≤ q.1
  | [], _, q, h => by simp [rowsOf] at h
  | s :: segs, i, q, h => by
    simp only [rowsOf, List.mem_cons] at h
    rcases h with rfl | h
    · simp
    · have := rowsOf_lower segs _ q h; omega

def ChainOK : List (Nat × Nat × Str) → Prop
  | [] => True
  | q :: O => q.1 < q.2.1 ∧ (∀ q' ∈ O, q.2.1 ≤ q'.1) ∧ ChainOK O

theorem rowRtf_len_pos (r : RRow) : 0 < (rowRtf r).length := by rw [rowRtf_row]; simp

theorem chain_rowsOf : ∀ (segs : List Seg) (i : Nat), ChainOK (rowsOf i segs)
  | [], _ => trivial
  | s :: segs, i => by
    refine ⟨?_, ?_, chain_rowsOf segs _⟩
    · have := rowRtf_len_pos s.2; simp only; omega
    · intro q' hq'; exact rowsOf_lower segs _ q' hq'

theorem chain_filterMap (text : Str) : ∀ (O : List (Nat × Nat × Str)) (pre : List Nat), ChainOK O →
    (∀ q ∈ O, slice text q.1 q.2.1 = q.2.2) → (∀ e ∈ pre, ∀ q ∈ O, e ≤ q.1) →
    (O.map (·.1)).filterMap (fun p => ((pre ++ O.map (·.2.1)).find? (fun e => e > p)).map (fun e => (p, e, slice text p e))) = O
  | [], _, _, _, _ => rfl
  | q :: O, pre, hc, hs, hp => by
    obtain ⟨h1, h2, h3⟩ := hc
    have hpre : pre.find? (fun e => decide (e > q.1)) = none := by
      rw [List.find?_eq_none]; intro e he; simpa using hp e he q List.mem_cons_self
    have hhead : ((pre ++ (q :: O).map (·.2.1)).find? (fun e => decide (e > q.1))).map
        (fun e => (q.1, e, slice text q.1 e)) = some q := by
      rw [List.find?_append, hpre, Option.none_or, List.map_cons, List.find?_cons_of_pos (by simpa using h1)]
      simp only [Option.map_some, hs q List.mem_cons_self]
    have ih := chain_filterMap text O (pre ++ [q.2.1]) h3 (fun x hx => hs x (List.mem_cons_of_mem _ hx))
      (by
        intro e he x hx
        rcases List.mem_append.mp he with h | h
        · exact hp e h x (List.mem_cons_of_mem _ hx)
        · simp only [List.mem_singleton] at h; subst h; exact h2 x hx)
    have eapp : pre ++ (q :: O).map (·.2.1) = (pre ++ [q.2.1]) ++ O.map (·.2.1) := by simp
    simp only [eapp] at hhead ⊢
    rw [List.map_cons, List.filterMap_cons]
    simp only [hhead]
    rw [ih]

theorem slice_mid (a R c : Str) : slice (a ++ R ++ c) a.length (a.length + R.length) = R := by
  simp [slice, List.append_assoc]

theorem slices_rowsOf : ∀ (segs : List Seg) (tail pre : Str), ∀ q ∈ rowsOf pre.length segs,
    slice (pre ++ body2 segs tail) q.1 q.2.1 = q.2.2
  | [], _, _, q, h => by simp [rowsOf] at h
  | s :: segs, tail, pre, q, h => by
    simp only [rowsOf, List.mem_cons] at h
    rcases h with rfl | h
    · have := slice_mid (pre ++ s.1) (rowRtf s.2) (body2 segs tail)
      simpa [body2_cons, List.append_assoc] using this
    · have := slices_rowsOf segs tail (pre ++ s.1 ++ rowRtf s.2) q (by simpa [Nat.add_assoc] using h)
      simpa [body2_cons, List.append_assoc] using this

theorem tableRows_body (P : Params) (segs : List Seg) (tail : Str) (h : WellSeg P segs tail) :
    tableRows P (body2 segs tail) = rowsOf 0 segs := by
  unfold tableRows
  simp only
  rw [trowds_body P segs tail 0 h, ends_body P segs tail 0 h]
  have := chain_filterMap (body2 segs tail) (rowsOf 0 segs) [] (chain_rowsOf segs 0)
    (by intro q hq; have := slices_rowsOf segs tail [] q (by simpa using hq); simpa using this) (by simp)
  simpa using this

/-! ## the grouping loop over (gap, row) pairs -/

/-- the row-grouping heuristic sees a table break in this gap -/
def breaks (P : Params) (g : Str) : Bool :=
  decide (g.length > P.rawGap) && decide ((pyStrip (stripSimple P g)).length > P.textGap)

def segStep (P : Params) (st : Grid × List Grid) (s : Seg) : Grid × List Grid :=
  let st1 : Grid × List Grid := if !st.1.isEmpty && breaks P s.1 then ([], st.2 ++ [saveTable st.1]) else st
  let cells := extractCells P (rowRtf s.2)
  (if cells.isEmpty then st1.1 else st1.1 ++ [cells], st1.2)

theorem slice_gap (pre G c : Str) : slice (pre ++ (G ++ c)) pre.length (pre.length + G.length) = G := by
  simp [slice]

theorem fold_segs (P : Params) (tail : Str) : ∀ (segs : List Seg) (pre : Str) (st : GState),
    (st.cur = [] ∨ st.lastEnd = pre.length) →
    ((rowsOf pre.length segs).foldl (groupStep P (pre ++ body2 segs tail)) st).cur =
      (segs.foldl (segStep P) (st.cur, st.out)).1 ∧
    ((rowsOf pre.length segs).foldl (groupStep P (pre ++ body2 segs tail)) st).out =
      (segs.foldl (segStep P) (st.cur, st.out)).2
  | [], _, _, _ => ⟨rfl, rfl⟩
  | s :: segs, pre, st, hst => by
    have etext : pre ++ body2 (s :: segs) tail = (pre ++ s.1 ++ rowRtf s.2) ++ body2 segs tail := by
      simp [body2_cons, List.append_assoc]
    have elen : (pre ++ s.1 ++ rowRtf s.2).length = pre.length + s.1.length + (rowRtf s.2).length := by
      simp [Nat.add_assoc]
    simp only [rowsOf, List.foldl_cons]
    -- one turn of the loop
    have hstep : (groupStep P (pre ++ body2 (s :: segs) tail) st
        (pre.length + s.1.length, pre.length + s.1.length + (rowRtf s.2).length, rowRtf s.2)).cur = (segStep P (st.cur, st.out) s).1 ∧
      (groupStep P (pre ++ body2 (s :: segs) tail) st
        (pre.length + s.1.length, pre.length + s.1.length + (rowRtf s.2).length, rowRtf s.2)).out = (segStep P (st.cur, st.out) s).2 ∧
      (groupStep P (pre ++ body2 (s :: segs) tail) st
        (pre.length + s.1.length, pre.length + s.1.length + (rowRtf s.2).length, rowRtf s.2)).lastEnd =
          pre.length + s.1.length + (rowRtf s.2).length := by
      rcases hst with hc | hl
      · simp [groupStep, segStep, hc]
      · have hsl : slice (pre ++ body2 (s :: segs) tail) st.lastEnd (pre.length + s.1.length) = s.1 := by
          rw [hl, body2_cons]; exact slice_gap pre s.1 _
        have hsub : pre.length + s.1.length - st.lastEnd = s.1.length := by omega
        simp only [groupStep, segStep, hsl, hsub, breaks]
        by_cases h1 : st.cur.isEmpty = true
        · simp [h1]
        · simp only [h1, Bool.not_false, Bool.true_and, Bool.false_eq_true]
          by_cases h2 : s.1.length > P.rawGap
          · by_cases h3 : (pyStrip (stripSimple P s.1)).length > P.textGap
            · simp [h2, h3]
            · simp [h2, h3]
          · simp [h2]
    obtain ⟨hc, ho, hl⟩ := hstep
    have ih := fold_segs P tail segs (pre ++ s.1 ++ rowRtf s.2)
      (groupStep P (pre ++ body2 (s :: segs) tail) st
        (pre.length + s.1.length, pre.length + s.1.length + (rowRtf s.2).length, rowRtf s.2))
      (Or.inr (by rw [hl, elen]))
    rw [elen, ← etext, hc, ho] at ih
    exact ih

def finish (st : Grid × List Grid) : List Grid := if st.1.isEmpty then st.2 else st.2 ++ [saveTable st.1]

theorem extractTables_body (P : Params) (segs : List Seg) (tail : Str) (h : WellSeg P segs tail) :
    extractTables P (body2 segs tail) = finish (segs.foldl (segStep P) ([], [])) := by
  unfold extractTables
  simp only
  rw [tableRows_body P segs tail h]
  have := fold_segs P tail segs [] { cur := [], lastEnd := 0, out := [] } (Or.inl rfl)
  simp only [List.length_nil, List.nil_append] at this
  obtain ⟨h1, h2⟩ := this
  simp only [finish, h1, h2]

end S2T.Tables.Rtf
