import S2T.Lemmas.Tables
/-! C13: the HTML table walk (`_process_node` / `_extract_table` / `_find_own_rows` / `_find_nested_tables` /
    `_get_cell_text`) on written pages. -/
namespace S2T.Tables
open S2T.HtmlSkip (Str)

/-- what the theorem needs from the generated tag sets -/
def HtmlTags.ok (H : HtmlTags) : Bool :=
  [hP, hTable, hTr, hTd].all H.cellBreak.contains
  && [hB, hThead, hTbody].all (fun t => !H.cellBreak.contains t)
  && [hP, hB, hTable, hThead, hTbody, hTr, hTd, hRoot, hHtml, hHead, hBody].all (fun t => !H.remove.contains t)

@[simp] theorem hx_tbl : htmlXT.tbl = hTable := rfl
@[simp] theorem hx_tr : htmlXT.tr = hTr := rfl
@[simp] theorem hx_tc : htmlXT.tc = hTd := rfl
@[simp] theorem hx_p : htmlXT.p = hP := rfl
@[simp] theorem hx_wh : htmlXT.wrapHdr = some hThead := rfl
@[simp] theorem hx_wb : htmlXT.wrapBody = some hTbody := rfl
@[simp] theorem hx_p1 : htmlXT.tblPre = [] := rfl
@[simp] theorem hx_p2 : htmlXT.trPre = [] := rfl
@[simp] theorem hx_p3 : htmlXT.tcPre = [] := rfl

theorem hrender_para (p : HPara) : Blk.render htmlXT hParaNode (.para p) = hParaNode p := by
  simp [Blk.render, Blk.fold_para]

theorem hrender_tbl (h : Nat) (rows : Rows HPara) : Blk.render htmlXT hParaNode (.tbl h rows) =
    tblNode htmlXT h (rows.map (fun row => trNode htmlXT (row.map (fun cell => tcNode htmlXT (cell.map (Blk.render htmlXT hParaNode)))))) := by
  simp only [Blk.render, Blk.fold_tbl, List.map_map, Function.comp_def]

/-! ### rows of a table -/

theorem ownRows_append (a b : List Node) : htmlOwnRowsL (a ++ b) = htmlOwnRowsL a ++ htmlOwnRowsL b := by
  induction a with
  | nil => simp [htmlOwnRowsL]
  | cons c r ih => cases c; simp [htmlOwnRowsL, ih]

theorem tagfacts : (hThead == sTable) = false ∧ (hThead == sTr) = false ∧ (hTbody == sTable) = false ∧ (hTbody == sTr) = false
    ∧ (hTr == sTable) = false ∧ (hTd == sTable) = false ∧ (hTd == sTr) = false ∧ (hP == sTable) = false ∧ (hP == sTr) = false
    ∧ (hB == sTable) = false ∧ (hB == sTr) = false ∧ (hTable == sTable) = true ∧ (hTr == sTr) = true
    ∧ (hTd == sTd) = true := by decide

theorem ownRows_bnodes (l : List (Str × Str)) : htmlOwnRowsL (l.map (fun bt => (.mk hB [] bt.1 [] bt.2 : Node))) = [] := by
  have tf := tagfacts
  induction l with
  | nil => simp [htmlOwnRowsL]
  | cons x xs ihx => simp [htmlOwnRowsL, tf.2.2.2.2.2.2.2.2.2.1, tf.2.2.2.2.2.2.2.2.2.2.1, ihx]

theorem ownRows_blocks (cell : List (Blk HPara)) : htmlOwnRowsL (cell.map (Blk.render htmlXT hParaNode)) = [] := by
  have tf := tagfacts
  induction cell with
  | nil => simp [htmlOwnRowsL]
  | cons b r ih =>
    rw [List.map_cons]
    cases b with
    | para p =>
      rw [hrender_para]
      simp only [hParaNode, htmlOwnRowsL, tf.2.2.2.2.2.2.2.1, tf.2.2.2.2.2.2.2.2.1, bne, Bool.not_false, if_true,
        Bool.false_eq_true, if_false, ownRows_bnodes, ih, List.append_nil, List.nil_append]
    | tbl h rows =>
      rw [hrender_tbl]
      simp only [tblNode, elem, hx_tbl, htmlOwnRowsL, tf.2.2.2.2.2.2.2.2.2.2.2.1, if_true, ih, List.append_nil]

theorem ownRows_wrap (w : Str) (h1 : (w == sTable) = false) (h2 : (w == sTr) = false) (l : List Node) :
    htmlOwnRowsL (wrap (some w) l) = htmlOwnRowsL l := by
  unfold wrap
  by_cases hl : l.isEmpty = true
  · have : l = [] := by simpa using hl
    subst this; simp
  · have hl' : l.isEmpty = false := by simpa using hl
    simp [hl', elem, htmlOwnRowsL, h1, h2]

theorem ownRows_cells (row : List (List (Blk HPara))) :
    htmlOwnRowsL (row.map (fun cell => tcNode htmlXT (cell.map (Blk.render htmlXT hParaNode)))) = [] := by
  have tf := tagfacts
  induction row with
  | nil => simp [htmlOwnRowsL]
  | cons c cs ihc =>
    rw [List.map_cons]
    have e : tcNode htmlXT (c.map (Blk.render htmlXT hParaNode)) = .mk hTd [] [] (c.map (Blk.render htmlXT hParaNode)) [] := by
      simp [tcNode, elem]
    rw [e]
    simp only [htmlOwnRowsL, tf.2.2.2.2.2.1, tf.2.2.2.2.2.2.1, Bool.false_eq_true, if_false, List.nil_append, ownRows_blocks, ihc,
      List.append_nil]

theorem ownRows_rows (rows : Rows HPara) :
    htmlOwnRowsL (rows.map (fun row => trNode htmlXT (row.map (fun cell => tcNode htmlXT (cell.map (Blk.render htmlXT hParaNode))))))
      = rows.map (fun row => trNode htmlXT (row.map (fun cell => tcNode htmlXT (cell.map (Blk.render htmlXT hParaNode))))) := by
  have tf := tagfacts
  induction rows with
  | nil => simp [htmlOwnRowsL]
  | cons row rs ih =>
    rw [List.map_cons]
    have e : trNode htmlXT (row.map (fun cell => tcNode htmlXT (cell.map (Blk.render htmlXT hParaNode))))
        = .mk hTr [] [] (row.map (fun cell => tcNode htmlXT (cell.map (Blk.render htmlXT hParaNode)))) [] := by
      simp [trNode, elem]
    rw [e]
    simp only [htmlOwnRowsL, tf.2.2.2.2.1, tf.2.2.2.2.2.2.2.2.2.2.2.2.1, if_true, Bool.false_eq_true, if_false, ownRows_cells,
      List.append_nil, List.singleton_append, ih]

theorem ownRows_table (h : Nat) (R : List Node) : htmlOwnRowsL (tblNode htmlXT h R).kids = htmlOwnRowsL R := by
  have tf := tagfacts
  unfold tblNode
  rw [elem_kids, hx_p1, hx_wh, hx_wb, List.nil_append, ownRows_append, ownRows_wrap _ tf.1 tf.2.1,
    ownRows_wrap _ tf.2.2.1 tf.2.2.2.1, ← ownRows_append, List.take_append_drop]

section html
variable (H : HtmlTags) (hH : H.ok = true)
include hH

theorem html_parts :
    (∀ t ∈ [hP, hTable, hTr, hTd], H.cellBreak.contains t = true) ∧
    (∀ t ∈ [hB, hThead, hTbody], H.cellBreak.contains t = false) ∧
    (∀ t ∈ [hP, hB, hTable, hThead, hTbody, hTr, hTd, hRoot, hHtml, hHead, hBody], H.remove.contains t = false) := by
  have h := hH
  simp only [HtmlTags.ok, Bool.and_eq_true, List.all_eq_true] at h
  obtain ⟨⟨h1, h2⟩, h3⟩ := h
  exact ⟨h1, fun t ht => by simpa using h2 t ht, fun t ht => by simpa using h3 t ht⟩

/-! ### cell text -/

omit hH in
theorem hraw_para (p : HPara) : Blk.hraw (.para p) = p.text := by simp [Blk.hraw, Blk.fold_para]

omit hH in
theorem hraw_tbl (h : Nat) (rows : Rows HPara) :
    Blk.hraw (.tbl h rows) = rows.flatMap (fun row => sp ++ row.flatMap (fun cell => sp ++ hcellRaw cell ++ sp) ++ sp) := by
  simp only [Blk.hraw, Blk.fold_tbl, List.flatMap_map, hcellRaw]

omit hH in
theorem htmlCellRawL_append (a b : List Node) : htmlCellRawL H (a ++ b) = htmlCellRawL H a ++ htmlCellRawL H b := by
  induction a with
  | nil => simp [htmlCellRawL]
  | cons c r ih => simp [htmlCellRawL, ih]

omit hH in
theorem htmlCellRawL_map {α : Type} (l : List α) (f : α → Node) :
    htmlCellRawL H (l.map f) = l.flatMap (fun a =>
      (if H.cellBreak.contains (f a).tag then sp else []) ++ htmlCellRaw H (f a) ++ (if H.cellBreak.contains (f a).tag then sp else []) ++ (f a).tail) := by
  induction l with
  | nil => simp [htmlCellRawL]
  | cons a r ih => simp [htmlCellRawL, ih, sp]

theorem cellRaw_para (p : HPara) : htmlCellRaw H (hParaNode p) = p.text := by
  obtain ⟨_, h2, _⟩ := html_parts H hH
  have hb := h2 hB (by simp)
  unfold hParaNode HPara.text
  simp only [htmlCellRaw]
  congr 1
  rw [htmlCellRawL_map]
  apply flatMap_congr'
  intro bt _
  have hb' : hB ∉ H.cellBreak := by simpa using hb
  simp [hb', htmlCellRaw, htmlCellRawL]

theorem cellRaw_wrap (w : Option Str) (hw : ∀ t, w = some t → H.cellBreak.contains t = false) (l : List Node) :
    htmlCellRawL H (wrap w l) = htmlCellRawL H l := by
  cases w with
  | none => rfl
  | some t =>
    unfold wrap
    by_cases hl : l.isEmpty = true
    · have : l = [] := by simpa using hl
      subst this; simp
    · have hl' : l.isEmpty = false := by simpa using hl
      simp only [hl', Bool.false_eq_true, if_false]
      have hw' : t ∉ H.cellBreak := by simpa using hw t rfl
      simp [htmlCellRawL, elem, htmlCellRaw, hw']

/-- `_get_cell_text` on a written block -/
theorem cellRaw_render (b : Blk HPara) : htmlCellRaw H (Blk.render htmlXT hParaNode b) = b.hraw := by
  obtain ⟨h1, h2, _⟩ := html_parts H hH
  induction b using Blk.ind with
  | hp p => simp only [Blk.render, Blk.fold_para, hraw_para]; exact cellRaw_para H hH p
  | ht h rows ih =>
    have hrt : Blk.render htmlXT hParaNode (.tbl h rows) =
        tblNode htmlXT h (rows.map (fun row => trNode htmlXT (row.map (fun cell => tcNode htmlXT (cell.map (Blk.render htmlXT hParaNode)))))) := by
      simp only [Blk.render, Blk.fold_tbl, List.map_map, Function.comp_def]
    rw [hrt, hraw_tbl]
    unfold tblNode
    simp only [elem, htmlCellRaw, hx_p1, hx_wh, hx_wb, List.nil_append, htmlCellRawL_append, List.append_nil]
    rw [cellRaw_wrap H hH _ (by intro t ht; cases ht; exact h2 hThead (by simp)),
      cellRaw_wrap H hH _ (by intro t ht; cases ht; exact h2 hTbody (by simp)),
      ← htmlCellRawL_append, List.take_append_drop, htmlCellRawL_map]
    apply flatMap_congr'
    intro row hrow
    have e1 : H.cellBreak.contains hTr = true := h1 hTr (by simp)
    simp only [trNode, elem, mk_tag, mk_tail, hx_tr, hx_p2, e1, if_true, List.nil_append, htmlCellRaw, List.append_nil]
    congr 2
    rw [htmlCellRawL_map]
    apply flatMap_congr'
    intro cell hcell
    have e2 : H.cellBreak.contains hTd = true := h1 hTd (by simp)
    simp only [tcNode, elem, mk_tag, mk_tail, hx_tc, hx_p3, e2, if_true, List.nil_append, htmlCellRaw, List.append_nil, hcellRaw]
    congr 2
    rw [htmlCellRawL_map]
    apply flatMap_congr'
    intro b hb
    have hbreak : H.cellBreak.contains (Blk.render htmlXT hParaNode b).tag = true := by
      cases b with
      | para p => simp only [Blk.render, Blk.fold_para, hParaNode, mk_tag]; exact h1 hP (by simp)
      | tbl h' rows' => simp only [Blk.render, Blk.fold_tbl, tblNode, elem_tag, hx_tbl]; exact h1 hTable (by simp)
    have htail : (Blk.render htmlXT hParaNode b).tail = [] := by
      cases b with
      | para p => simp [Blk.render, Blk.fold_para, hParaNode]
      | tbl h' rows' => simp [Blk.render, Blk.fold_tbl, tblNode, elem]
    rw [hbreak, htail, ih row hrow cell hcell b hb]
    simp

theorem render_break_tail (b : Blk HPara) :
    H.cellBreak.contains (Blk.render htmlXT hParaNode b).tag = true ∧ (Blk.render htmlXT hParaNode b).tail = [] := by
  obtain ⟨h1, _, _⟩ := html_parts H hH
  cases b with
  | para p => rw [hrender_para]; exact ⟨h1 hP (by simp), rfl⟩
  | tbl h' rows' => rw [hrender_tbl]; exact ⟨h1 hTable (by simp), rfl⟩

/-- raw text of a written cell -/
theorem cellRaw_cell (cell : List (Blk HPara)) :
    htmlCellRaw H (tcNode htmlXT (cell.map (Blk.render htmlXT hParaNode))) = hcellRaw cell := by
  simp only [tcNode, elem, htmlCellRaw, hx_p3, List.nil_append, hcellRaw]
  rw [htmlCellRawL_map]
  apply flatMap_congr'
  intro b _
  obtain ⟨hb, ht⟩ := render_break_tail H hH b
  rw [hb, ht, cellRaw_render H hH b]
  simp

/-- `_extract_table` on a written table whose rows all have a cell -/
theorem htmlTable_render (h : Nat) (rows : Rows HPara) (hne : rows.all (fun row => !row.isEmpty) = true) :
    htmlTable H (Blk.render htmlXT hParaNode (.tbl h rows)) = rows.map (fun row => row.map hcellText) := by
  have tf := tagfacts
  unfold htmlTable
  rw [hrender_tbl, ownRows_table, ownRows_rows, List.filterMap_map]
  have key : ∀ row ∈ rows, (fun tr : Node =>
      let r := (tr.kids.filter (fun c => c.tag == sTh || c.tag == sTd)).map (fun c => reSubWs (pyStrip (htmlCellRaw H c)))
      if r.isEmpty then none else some r) (trNode htmlXT (row.map (fun cell => tcNode htmlXT (cell.map (Blk.render htmlXT hParaNode)))))
        = some (row.map hcellText) := by
    intro row hrow
    have hrne : row.isEmpty = false := by simpa using List.all_eq_true.mp hne row hrow
    simp only [trNode, elem_kids, hx_p2, List.nil_append]
    have hf : (row.map (fun cell => tcNode htmlXT (cell.map (Blk.render htmlXT hParaNode)))).filter (fun c => c.tag == sTh || c.tag == sTd)
        = row.map (fun cell => tcNode htmlXT (cell.map (Blk.render htmlXT hParaNode))) := by
      rw [List.filter_eq_self]
      intro n hn
      simp only [List.mem_map] at hn
      obtain ⟨_, _, rfl⟩ := hn
      simp [tcNode, tf.2.2.2.2.2.2.2.2.2.2.2.2.2]
    rw [hf, List.map_map]
    have : (row.map ((fun c => reSubWs (pyStrip (htmlCellRaw H c))) ∘ fun cell => tcNode htmlXT (cell.map (Blk.render htmlXT hParaNode)))).isEmpty = false := by
      cases row <;> simp_all
    simp only [this, Bool.false_eq_true, if_false]
    congr 1
    apply List.map_congr_left
    intro cell _
    simp only [Function.comp, cellRaw_cell H hH cell, hcellText]
  induction rows with
  | nil => rfl
  | cons r rs ih =>
    rw [List.filterMap_cons]
    have := key r (by simp)
    simp only [Function.comp] at this ⊢
    rw [this]
    simp only [List.all_cons, Bool.and_eq_true] at hne
    rw [List.map_cons, ih hne.2 (fun row hrow => key row (by simp [hrow]))]

/-! ### which tables are registered -/

omit hH in
theorem htables_para (p : HPara) : Blk.htables (.para p) = [] := by simp [Blk.htables, Blk.fold_para]

omit hH in
theorem htables_tbl (h : Nat) (rows : Rows HPara) :
    Blk.htables (.tbl h rows) = rows.map (fun row => row.map hcellText) ::
      rows.flatMap (fun row => row.flatMap (fun cell => cell.flatMap Blk.htables)) := by
  simp only [Blk.htables, Blk.fold_tbl, flat3, List.flatMap_map, List.flatMap_id]
  rfl

omit hH in
theorem rowsProper_tbl (h : Nat) (rows : Rows HPara) :
    Blk.rowsProper (.tbl h rows) = (rows.all (fun row => !row.isEmpty)
      && rows.all (fun row => row.all (fun cell => cell.all Blk.rowsProper))) := by
  simp only [Blk.rowsProper, Blk.fold_tbl, List.all_map, Function.comp_def, id]

omit hH in
theorem htmlNested_append (a b : List Node) : htmlNested H (a ++ b) = htmlNested H a ++ htmlNested H b := by
  induction a with
  | nil => simp [htmlNested]
  | cons c r ih => cases c; simp [htmlNested, ih]

omit hH in
theorem htmlProcL_map {α : Type} (l : List α) (f : α → Node) : htmlProcL H (l.map f) = l.flatMap (fun a => htmlProc H (f a)) := by
  induction l with
  | nil => simp [htmlProcL]
  | cons a r ih => simp [htmlProcL, ih]

omit hH in
theorem htmlNested_wrap (w : Str) (h1 : (w == sTable) = false) (l : List Node) :
    htmlNested H (wrap (some w) l) = htmlNested H l := by
  unfold wrap
  by_cases hl : l.isEmpty = true
  · have : l = [] := by simpa using hl
    subst this; simp
  · have hl' : l.isEmpty = false := by simpa using hl
    simp [hl', elem, htmlNested, h1]

omit hH in
theorem htmlNested_bnodes (l : List (Str × Str)) : htmlNested H (l.map (fun bt => (.mk hB [] bt.1 [] bt.2 : Node))) = [] := by
  have tf := tagfacts
  induction l with
  | nil => simp [htmlNested]
  | cons x xs ihx => simp [htmlNested, tf.2.2.2.2.2.2.2.2.2.1, ihx]

theorem morefacts : (hP == "li".toList) = false ∧ isHeading hP = false ∧ (hP == "br".toList) = false ∧ (hP == "hr".toList) = false
    ∧ (hB == "li".toList) = false ∧ isHeading hB = false ∧ (hB == "br".toList) = false ∧ (hB == "hr".toList) = false
    ∧ (hBody == sTable) = false ∧ (hBody == "li".toList) = false ∧ isHeading hBody = false ∧ (hBody == "br".toList) = false
    ∧ (hBody == "hr".toList) = false ∧ (hRoot == sBody) = false ∧ (hHtml == sBody) = false ∧ (hHead == sBody) = false
    ∧ (hBody == sBody) = true := by decide

theorem htmlProcL_bnodes (l : List (Str × Str)) : htmlProcL H (l.map (fun bt => (.mk hB [] bt.1 [] bt.2 : Node))) = [] := by
  obtain ⟨_, _, h3⟩ := html_parts H hH
  have hb : H.remove.contains hB = false := h3 hB (by simp)
  have tf := tagfacts
  have mf := morefacts H hH
  induction l with
  | nil => simp [htmlProcL]
  | cons x xs ihx =>
    simp only [List.map_cons, htmlProcL, htmlProc, hb, tf.2.2.2.2.2.2.2.2.2.1, mf.2.2.2.2.1, mf.2.2.2.2.2.1, mf.2.2.2.2.2.2.1,
      mf.2.2.2.2.2.2.2.1, Bool.false_eq_true, if_false, Bool.or_self, ihx, List.append_nil]

omit hH in
theorem nested_cell (cell : List (Blk HPara))
    (hc : ∀ b ∈ cell, htmlProc H (Blk.render htmlXT hParaNode b) = b.htables) :
    htmlNested H (cell.map (Blk.render htmlXT hParaNode)) = cell.flatMap Blk.htables := by
  have tf := tagfacts
  induction cell with
  | nil => simp [htmlNested]
  | cons b bs ihb =>
    rw [List.map_cons, List.flatMap_cons]
    have := ihb (fun x hx => hc x (by simp [hx]))
    cases b with
    | para p =>
      rw [hrender_para, htables_para]
      simp only [hParaNode, htmlNested, tf.2.2.2.2.2.2.2.1, Bool.false_eq_true, if_false, htmlNested_bnodes, List.nil_append, this]
    | tbl h' rows' =>
      have hb' := hc (.tbl h' rows') (by simp)
      have e3 : Blk.render htmlXT hParaNode (.tbl h' rows') = .mk hTable [] [] (tblNode htmlXT h' (rows'.map (fun row =>
          trNode htmlXT (row.map (fun cell => tcNode htmlXT (cell.map (Blk.render htmlXT hParaNode))))))).kids [] := by
        rw [hrender_tbl]; simp [tblNode, elem]
      rw [e3] at hb' ⊢
      simp only [htmlNested, tf.2.2.2.2.2.2.2.2.2.2.2.1, if_true]
      rw [hb', this]

omit hH in
theorem nested_row (row : List (List (Blk HPara)))
    (hc : ∀ cell ∈ row, ∀ b ∈ cell, htmlProc H (Blk.render htmlXT hParaNode b) = b.htables) :
    htmlNested H (row.map (fun cell => tcNode htmlXT (cell.map (Blk.render htmlXT hParaNode))))
      = row.flatMap (fun cell => cell.flatMap Blk.htables) := by
  have tf := tagfacts
  induction row with
  | nil => simp [htmlNested]
  | cons cell cs ihc =>
    rw [List.map_cons, List.flatMap_cons]
    have e2 : tcNode htmlXT (cell.map (Blk.render htmlXT hParaNode)) = .mk hTd [] [] (cell.map (Blk.render htmlXT hParaNode)) [] := by
      simp [tcNode, elem]
    rw [e2]
    simp only [htmlNested, tf.2.2.2.2.2.1, Bool.false_eq_true, if_false]
    rw [ihc (fun c hc' b hb => hc c (by simp [hc']) b hb), nested_cell H cell (fun b hb => hc cell (by simp) b hb)]

omit hH in
theorem nested_rows (rows : Rows HPara)
    (hc : ∀ row ∈ rows, ∀ cell ∈ row, ∀ b ∈ cell, htmlProc H (Blk.render htmlXT hParaNode b) = b.htables) :
    htmlNested H (rows.map (fun row => trNode htmlXT (row.map (fun cell => tcNode htmlXT (cell.map (Blk.render htmlXT hParaNode))))))
      = rows.flatMap (fun row => row.flatMap (fun cell => cell.flatMap Blk.htables)) := by
  have tf := tagfacts
  induction rows with
  | nil => simp [htmlNested]
  | cons row rs ihr =>
    rw [List.map_cons, List.flatMap_cons]
    have e1 : trNode htmlXT (row.map (fun cell => tcNode htmlXT (cell.map (Blk.render htmlXT hParaNode))))
        = .mk hTr [] [] (row.map (fun cell => tcNode htmlXT (cell.map (Blk.render htmlXT hParaNode)))) [] := by
      simp [trNode, elem]
    rw [e1]
    simp only [htmlNested, tf.2.2.2.2.1, Bool.false_eq_true, if_false]
    rw [ihr (fun r hr c hc' b hb => hc r (by simp [hr]) c hc' b hb), nested_row H row (fun c hc' b hb => hc row (by simp) c hc' b hb)]

/-- `_process_node` on a written block registers exactly the block's tables, outer before inner -/
theorem htmlProc_render (b : Blk HPara) (hp : b.rowsProper = true) :
    htmlProc H (Blk.render htmlXT hParaNode b) = b.htables := by
  obtain ⟨_, _, h3⟩ := html_parts H hH
  have tf := tagfacts
  have mf := morefacts H hH
  induction b using Blk.ind with
  | hp p =>
    rw [hrender_para, htables_para]
    have hr : H.remove.contains hP = false := h3 hP (by simp)
    simp only [hParaNode, htmlProc, hr, tf.2.2.2.2.2.2.2.1, mf.1, mf.2.1, mf.2.2.1, mf.2.2.2.1, Bool.false_eq_true, if_false,
      Bool.or_self, htmlProcL_bnodes H hH]
  | ht h rows ih =>
    rw [rowsProper_tbl] at hp
    simp only [Bool.and_eq_true, List.all_eq_true] at hp
    have hr : H.remove.contains hTable = false := h3 hTable (by simp)
    have e : Blk.render htmlXT hParaNode (.tbl h rows) = .mk hTable [] [] (tblNode htmlXT h (rows.map (fun row =>
        trNode htmlXT (row.map (fun cell => tcNode htmlXT (cell.map (Blk.render htmlXT hParaNode))))))).kids [] := by
      rw [hrender_tbl]; simp [tblNode, elem]
    have hmain := htmlTable_render H hH h rows (List.all_eq_true.mpr hp.1)
    rw [e] at hmain ⊢
    simp only [htmlProc, hr, tf.2.2.2.2.2.2.2.2.2.2.2.1, Bool.false_eq_true, if_false, if_true]
    rw [hmain, htables_tbl]
    congr 1
    unfold tblNode
    rw [elem_kids, hx_p1, hx_wh, hx_wb, List.nil_append, htmlNested_append, htmlNested_wrap H _ tf.1, htmlNested_wrap H _ tf.2.2.1,
      ← htmlNested_append, List.take_append_drop]
    exact nested_rows H rows (fun row hr' cell hc b hb => ih row hr' cell hc b hb (hp.2 row hr' cell hc b hb))

/-- HTML: `extract()` on a written page registers exactly the page's tables -/
theorem html_tables (doc : List (Blk HPara)) (hp : doc.all Blk.rowsProper = true) :
    htmlTables H (htmlRoot doc) = doc.flatMap Blk.htables := by
  obtain ⟨_, _, h3⟩ := html_parts H hH
  have mf := morefacts H hH
  have hr : H.remove.contains hBody = false := h3 hBody (by simp)
  have hfind : findNode sBody (htmlRoot doc) = some (.mk hBody [] [] (doc.map (Blk.render htmlXT hParaNode)) []) := by
    simp [htmlRoot, elem, findNode, findNodeL, mf.2.2.2.2.2.2.2.2.2.2.2.2.2.1, mf.2.2.2.2.2.2.2.2.2.2.2.2.2.2.1,
      mf.2.2.2.2.2.2.2.2.2.2.2.2.2.2.2.1, mf.2.2.2.2.2.2.2.2.2.2.2.2.2.2.2.2]
  unfold htmlTables
  rw [hfind]
  simp only [htmlProc, hr, mf.2.2.2.2.2.2.2.2.1, mf.2.2.2.2.2.2.2.2.2.1, mf.2.2.2.2.2.2.2.2.2.2.1, mf.2.2.2.2.2.2.2.2.2.2.2.1,
    mf.2.2.2.2.2.2.2.2.2.2.2.2.1, Bool.false_eq_true, if_false, Bool.or_self]
  rw [htmlProcL_map]
  apply flatMap_congr'
  intro b hb
  exact htmlProc_render H hH b (List.all_eq_true.mp hp b hb)

end html

end S2T.Tables
