import S2T.Lemmas.TablesEpub
/-! C13: EPUB chapters as an XML serializer writes them: an element without content (`<td></td>`, `<th></th>`,
    `<tr></tr>`, `<p></p>`, …) may be written as the empty-element tag `<td/>`; `HTMLParser` then calls
    `handle_startendtag` once instead of `handle_starttag` + `handle_endtag`. -/
namespace S2T.Tables.Epub
open S2T.HtmlSkip

/-- `XmlForm items written`: `written` is `items` with any number of the adjacent pairs `<t …></t>` replaced by the
    empty-element tag `<t …/>` (every choice of pairs, including none and all). -/
inductive XmlForm : List Item → List Item → Prop
  | nil : XmlForm [] []
  | keep (i : Item) {a b : List Item} : XmlForm a b → XmlForm (i :: a) (i :: b)
  | empty (t : Str) (at_ : Attrs) {a b : List Item} : XmlForm a b →
      XmlForm (.open_ t at_ :: .close t :: a) (.selfclosed t at_ :: b)

/-- the writer used by the harness: the k-th candidate pair `<t></t>` (left to right) becomes `<t/>` iff `mask[k]`;
    pairs beyond the mask stay as they are -/
def collapse : List Bool → List Item → List Item
  | _, [] => []
  | _, [i] => [i]
  | mask, .open_ t a :: .close t' :: r =>
    if t = t' then
      match mask with
      | true :: m => .selfclosed t a :: collapse m r
      | false :: m => .open_ t a :: .close t' :: collapse m r
      | [] => .open_ t a :: .close t' :: collapse [] r
    else .open_ t a :: collapse mask (.close t' :: r)
  | mask, i :: j :: r => i :: collapse mask (j :: r)

theorem xmlForm_refl (items : List Item) : XmlForm items items := by
  induction items with
  | nil => exact .nil
  | cons i r ih => exact .keep i ih

theorem xmlForm_collapse (mask : List Bool) (items : List Item) : XmlForm items (collapse mask items) := by
  fun_induction collapse mask items <;> first
    | exact .nil
    | exact xmlForm_refl _
    | (rename_i ih; subst_vars; exact .empty _ _ ih)
    | (rename_i ih; exact .keep _ (.keep _ ih))
    | (rename_i ih; exact .keep _ ih)

theorem collapse_nil' (mask : List Bool) (items : List Item) (h : mask = []) : collapse mask items = items := by
  fun_induction collapse mask items <;> simp_all

theorem collapse_nil (items : List Item) : collapse [] items = items := collapse_nil' [] items rfl

theorem xmlForm_downEvents {a b : List Item} (h : XmlForm a b) : downEvents b = downEvents a := by
  induction h with
  | nil => rfl
  | keep i _ ih => simp only [downEvents, List.flatMap_cons] at ih ⊢; rw [ih]
  | empty t at_ _ ih =>
    simp only [downEvents, List.flatMap_cons] at ih ⊢
    rw [ih]; rfl

theorem xmlForm_docOk (T : Tables) {a b : List Item} (h : XmlForm a b) (ha : DocOk T a = true) : DocOk T b = true := by
  induction h with
  | nil => rfl
  | keep i _ ih =>
    simp only [DocOk, List.all_cons, Bool.and_eq_true] at ha ih ⊢
    exact ⟨ha.1, ih ha.2⟩
  | empty t at_ _ ih =>
    simp only [DocOk, List.all_cons, Bool.and_eq_true] at ha ih ⊢
    exact ⟨by simpa [ItemOk] using ha.1, ih ha.2.2⟩

/-- the items (tags and text chunks) of a written chapter, every element with a start and an end tag -/
def chapterItems (doc : List EBlk) : List Item := (doc.flatMap EBlk.evs).map itemOf

/-- EPUB: a written chapter in ANY XML form (any of its empty elements written as `<t/>`): the tables
    `_XhtmlTextExtractor` has collected are the chapter's tables -/
theorem tables_chapter_xml (T : Tables) (block : List Str) (hT : usedTags.all (fun t => !T.remove.contains t) = true)
    (doc : List EBlk) (hp : doc.all EBlk.proper = true) (written : List Item) (hw : XmlForm (chapterItems doc) written) :
    (run T (S2T.HtmlSkip.Epub.down block) (init S2T.HtmlSkip.Epub.initState) (events written)).down.tables
      = doc.flatMap EBlk.tables := by
  have hok := xmlForm_docOk T hw (docOk_items T _ (startTags_doc doc) hT)
  rw [run_doc T _ _ _ hok ⟨rfl, rfl⟩, xmlForm_downEvents hw]
  unfold chapterItems
  rw [downEvents_items]
  simp only [init]
  have := core_feed block S2T.HtmlSkip.Epub.initState (doc.flatMap EBlk.evs)
  have h2 := crun_doc doc hp [] [] [] [] false
  have e : core S2T.HtmlSkip.Epub.initState = ⟨[], [], [], [], false, false, false⟩ := rfl
  rw [e] at this
  have h3 : ((S2T.HtmlSkip.Epub.down block).feed S2T.HtmlSkip.Epub.initState (doc.flatMap EBlk.evs)).tables
      = (core ((S2T.HtmlSkip.Epub.down block).feed S2T.HtmlSkip.Epub.initState (doc.flatMap EBlk.evs))).tables := rfl
  rw [h3, this, h2]
  simp

end S2T.Tables.Epub
