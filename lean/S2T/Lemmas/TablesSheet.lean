import S2T.Model.Tables
/-! C13: sheet-as-table shaping (XLSX, XLS, `get_dim`). -/
namespace S2T.Tables
open S2T.HtmlSkip (Str)

/-! ## `get_dim` -/

theorem foldl_max_const {α : Type} (rows : List (List α)) (c m : Nat) (h : ∀ row ∈ rows, row.length = c) (hm : m ≤ c) :
    rows.foldl (fun m row => max m row.length) m = if rows.isEmpty then m else c := by
  induction rows generalizing m with
  | nil => rfl
  | cons r rs ih =>
    have hr : r.length = c := h r (by simp)
    simp only [List.foldl_cons, hr, List.isEmpty_cons, Bool.false_eq_true, if_false]
    rw [ih (max m c) (fun row hrow => h row (by simp [hrow])) (by omega)]
    cases rs with
    | nil => simp; omega
    | cons _ _ => simp

/-- `get_dim()` of an r × c grid (r ≥ 1) is (r, c) -/
theorem getDim_rect {α : Type} (data : List (List α)) (c : Nat) (hne : data ≠ [])
    (h : ∀ row ∈ data, row.length = c) : getDim data = (data.length, c) := by
  unfold getDim
  rw [foldl_max_const data c 0 h (by omega)]
  cases data with
  | nil => exact absurd rfl hne
  | cons _ _ => simp

/-- in general: the row count and the length of the longest row -/
theorem getDim_fst {α : Type} (data : List (List α)) : (getDim data).1 = data.length := rfl

theorem foldl_max_ge {α : Type} (rows : List (List α)) (m : Nat) :
    m ≤ rows.foldl (fun m row => max m row.length) m ∧
    ∀ row ∈ rows, row.length ≤ rows.foldl (fun m row => max m row.length) m := by
  induction rows generalizing m with
  | nil => simp
  | cons r rs ih =>
    simp only [List.foldl_cons]
    have := ih (max m r.length)
    refine ⟨by omega, ?_⟩
    intro row hrow
    rcases List.mem_cons.mp hrow with h | h
    · subst h; omega
    · exact this.2 row h

/-! ## `lastIdx` (the backwards scans of `_find_last_data_row` / `_find_last_data_column`) -/

namespace Xlsx

theorem lastIdx_le {α : Type} (p : α → Bool) (l : List α) : lastIdx p l ≤ l.length := by
  induction l with
  | nil => simp [lastIdx]
  | cons x r ih => simp only [lastIdx, List.length_cons]; split <;> (try split) <;> omega

theorem lastIdx_eq_length {α : Type} (p : α → Bool) (l : List α) (hne : l ≠ [])
    (h : p (l.getLast hne) = true) : lastIdx p l = l.length := by
  induction l with
  | nil => exact absurd rfl hne
  | cons x r ih =>
    cases r with
    | nil => simp [lastIdx] at h ⊢; simp [h]
    | cons y ys =>
      have := ih (by simp) (by simpa [List.getLast_cons] using h)
      have e : lastIdx p (x :: y :: ys) = if lastIdx p (y :: ys) > 0 then lastIdx p (y :: ys) + 1 else if p x then 1 else 0 := rfl
      rw [e, this]
      simp

/-- nothing after position `lastIdx` satisfies `p` -/
theorem lastIdx_after {α : Type} (p : α → Bool) (l : List α) (j : Nat) (hj : lastIdx p l ≤ j) (x : α)
    (hx : l[j]? = some x) : p x = false := by
  induction l generalizing j with
  | nil => simp at hx
  | cons y r ih =>
    simp only [lastIdx] at hj
    by_cases hk : lastIdx p r > 0
    · rw [if_pos hk] at hj
      cases j with
      | zero => omega
      | succ j => exact ih j (by omega) (by simpa using hx)
    · rw [if_neg hk] at hj
      cases j with
      | zero =>
        by_cases hy : p y = true
        · rw [if_pos hy] at hj; omega
        · simp at hx; subst hx; simpa using hy
      | succ j => exact ih j (by omega) (by simpa using hx)

/-- position `lastIdx - 1` satisfies `p` -/
theorem lastIdx_at {α : Type} (p : α → Bool) (l : List α) (h : lastIdx p l > 0) :
    ∃ x, l[lastIdx p l - 1]? = some x ∧ p x = true := by
  induction l with
  | nil => simp [lastIdx] at h
  | cons y r ih =>
    simp only [lastIdx] at h ⊢
    by_cases hk : lastIdx p r > 0
    · rw [if_pos hk]
      obtain ⟨x, hx, hp⟩ := ih hk
      refine ⟨x, ?_, hp⟩
      have : lastIdx p r + 1 - 1 = (lastIdx p r - 1) + 1 := by omega
      rw [this]; simpa using hx
    · rw [if_neg hk] at h ⊢
      by_cases hy : p y = true
      · rw [if_pos hy]; exact ⟨y, by simp, hy⟩
      · rw [if_neg hy] at h; omega

/-! ## XLSX -/

/-- `_get_cell_value` keeps numbers, booleans and strings; dates/times become their ISO string -/
theorem getCellValue_typed :
    (∀ i, getCellValue (.int i) = .int i) ∧ (∀ r, getCellValue (.flt r) = .flt r) ∧
    (∀ b, getCellValue (.bool b) = .bool b) ∧ (∀ s, getCellValue (.str s) = .str s) ∧
    (∀ iso, getCellValue (.dt iso) = .str iso) ∧ getCellValue .none = .none :=
  ⟨fun _ => rfl, fun _ => rfl, fun _ => rfl, fun _ => rfl, fun _ => rfl, rfl⟩

/-- the header names generated from the first row -/
def headersOf (first : List Val) (strOf : Nat → Str) : List Val :=
  (List.range first.length).zipWith (fun i v => headerName i v (strOf i)) first

/-- the used range: rows up to the last row with data, columns up to the last column with data -/
def usedRange (rows : VGrid) : VGrid :=
  let rs := rows.take (findLastDataRow rows)
  rs.map (padTake (findLastDataColumn rs))

theorem readSheetData_eq (rows : VGrid) (strOf : Nat → Str) :
    readSheetData rows strOf =
      match usedRange rows with
      | [] => ([], [])
      | first :: rest => (headersOf first strOf :: rest.map (fun row => row.map getCellValue), first.map getCellValue) := by
  unfold readSheetData usedRange
  cases rows with
  | nil => simp [findLastDataRow, lastIdx]
  | cons r rs =>
    simp only [List.isEmpty_cons, Bool.false_eq_true, if_false]
    cases h : List.take (findLastDataRow (r :: rs)) (r :: rs) with
    | nil => simp
    | cons a as => simp only [List.map_cons]; rfl

/-- XLSX: unless the first used row is taken for a table name, the sheet's table is its used
    range, cell by cell, through `_get_cell_value` -/
theorem sheetData_eq (rows : VGrid) (strOf : Nat → Str)
    (hname : ∀ first rest, usedRange rows = first :: rest → isTableNameRow (headersOf first strOf) = false) :
    sheetData rows strOf = (usedRange rows).map (fun row => row.map getCellValue) := by
  unfold sheetData
  rw [readSheetData_eq]
  cases h : usedRange rows with
  | nil => rfl
  | cons first rest => simp [hname first rest h]

/-- a table-name first row is dropped: the table starts at the second used row -/
theorem sheetData_nameRow (rows : VGrid) (strOf : Nat → Str) (first : List Val) (rest : VGrid)
    (h : usedRange rows = first :: rest) (hname : isTableNameRow (headersOf first strOf) = true) :
    sheetData rows strOf = rest.map (fun row => row.map getCellValue) := by
  unfold sheetData
  rw [readSheetData_eq, h]
  simp [hname]

theorem foldl_max_lastIdx_le (p : Val → Bool) (rows : VGrid) (c m : Nat) (h : ∀ row ∈ rows, row.length = c) (hm : m ≤ c) :
    rows.foldl (fun m row => max m (lastIdx p row)) m ≤ c := by
  induction rows generalizing m with
  | nil => simpa
  | cons r rs ih =>
    simp only [List.foldl_cons]
    have := lastIdx_le p r
    have hr : r.length = c := h r (by simp)
    exact ih _ (fun row hrow => h row (by simp [hrow])) (by omega)

theorem foldl_max_mono (f : List Val → Nat) (rows : VGrid) (m : Nat) :
    m ≤ rows.foldl (fun m row => max m (f row)) m ∧ ∀ row ∈ rows, f row ≤ rows.foldl (fun m row => max m (f row)) m := by
  induction rows generalizing m with
  | nil => simp
  | cons r rs ih =>
    simp only [List.foldl_cons]
    have := ih (max m (f r))
    refine ⟨by omega, ?_⟩
    intro row hrow
    rcases List.mem_cons.mp hrow with h | h
    · subst h; omega
    · exact this.2 row h

/-- an r × c grid whose last row and last column hold data is its own used range -/
theorem usedRange_tight (g : VGrid) (c : Nat) (hne : g ≠ []) (hrect : ∀ row ∈ g, row.length = c)
    (hrow : (g.getLast hne).any isCellNonEmpty = true)
    (hcol : ∃ row ∈ g, ∃ hr : row ≠ [], isCellNonEmpty (row.getLast hr) = true) :
    usedRange g = g := by
  unfold usedRange
  have h1 : findLastDataRow g = g.length := lastIdx_eq_length _ g hne hrow
  simp only [h1, List.take_length]
  have h2 : findLastDataColumn g = c := by
    unfold findLastDataColumn
    apply Nat.le_antisymm
    · exact foldl_max_lastIdx_le _ g c 0 hrect (by omega)
    · obtain ⟨row, hmem, hr, hp⟩ := hcol
      have := (foldl_max_mono (lastIdx isCellNonEmpty) g 0).2 row hmem
      rw [lastIdx_eq_length _ row hr hp, hrect row hmem] at this
      exact this
  rw [h2]
  conv => rhs; rw [← List.map_id g]
  apply List.map_congr_left
  intro row hrow
  rw [← hrect row hrow]; simp [padTake]

/-! ### rows of different lengths (a worksheet part without `<dimension>`) -/

theorem padTake_length (n : Nat) (row : List Val) : (padTake n row).length = n := by
  simp only [padTake, List.length_append, List.length_take, List.length_replicate]; omega

/-- cell `j < n` of a filled-up row: the stored cell, an empty cell where the row stores none -/
theorem padTake_get (n : Nat) (row : List Val) (j : Nat) (hj : j < n) :
    (padTake n row)[j]? = some (row[j]?.getD Val.none) := by
  unfold padTake
  by_cases h : j < row.length
  · rw [List.getElem?_append_left (by simp; omega), List.getElem?_take_of_lt hj]
    simp [h]
  · have hl : (row.take n).length = row.length := by simp; omega
    rw [List.getElem?_append_right (by omega), hl, List.getElem?_replicate]
    have : j - row.length < n - row.length := by omega
    simp [this, List.getElem?_eq_none (Nat.le_of_not_lt h)]

theorem usedRange_length (rows : VGrid) : (usedRange rows).length = findLastDataRow rows := by
  have := lastIdx_le (fun row => row.any isCellNonEmpty) rows
  simp only [usedRange, List.length_map, List.length_take, findLastDataRow] at this ⊢
  omega

/-- the used range is a rectangle, whatever the lengths of the stored rows -/
theorem usedRange_rect (rows : VGrid) :
    ∀ row ∈ usedRange rows, row.length = findLastDataColumn (rows.take (findLastDataRow rows)) := by
  intro row hrow
  simp only [usedRange, List.mem_map] at hrow
  obtain ⟨r, _, rfl⟩ := hrow
  exact padTake_length _ _

/-- cell (i, j) of the used range is the stored cell (i, j); an empty cell where row i stores fewer cells -/
theorem usedRange_cell (rows : VGrid) (i j : Nat) (hi : i < findLastDataRow rows)
    (hj : j < findLastDataColumn (rows.take (findLastDataRow rows))) :
    ((usedRange rows)[i]?.bind (fun row => row[j]?)) = some (((rows[i]?.bind (fun row => row[j]?))).getD Val.none) := by
  have hle := lastIdx_le (fun row => row.any isCellNonEmpty) rows
  have hlt : i < rows.length := by simp only [findLastDataRow] at hi; omega
  simp only [usedRange, List.getElem?_map, List.getElem?_take_of_lt hi, List.getElem?_eq_getElem hlt, Option.map_some,
    Option.bind_some]
  exact padTake_get _ _ _ hj

theorem le_foldl_max (f : List Val → Nat) : ∀ (rows : VGrid) (m : Nat) (row : List Val), row ∈ rows →
    f row ≤ rows.foldl (fun m row => max m (f row)) m := fun rows m row h => (foldl_max_mono f rows m).2 row h

/-- no stored value lies outside the used range: a non-empty cell (i, j) has i below the last data row and j below
    the last data column -/
theorem nonEmpty_inside (rows : VGrid) (i j : Nat) (row : List Val) (v : Val) (hr : rows[i]? = some row)
    (hv : row[j]? = some v) (hne : isCellNonEmpty v = true) :
    i < findLastDataRow rows ∧ j < findLastDataColumn (rows.take (findLastDataRow rows)) := by
  have hi : i < findLastDataRow rows := by
    apply Nat.lt_of_not_le
    intro hle
    have := lastIdx_after (fun (row : List Val) => row.any isCellNonEmpty) rows i hle row hr
    have hmem : v ∈ row := List.mem_of_getElem? hv
    simp only [List.any_eq_false] at this
    exact absurd hne (by simpa using this v hmem)
  refine ⟨hi, ?_⟩
  have hmem : row ∈ rows.take (findLastDataRow rows) := by
    apply List.mem_of_getElem? (i := i)
    rw [List.getElem?_take_of_lt hi]; exact hr
  have h1 : j < lastIdx isCellNonEmpty row := by
    apply Nat.lt_of_not_le
    intro hle
    have := lastIdx_after isCellNonEmpty row j hle v hv
    rw [this] at hne; exact absurd hne (by decide)
  have h2 := le_foldl_max (lastIdx isCellNonEmpty) (rows.take (findLastDataRow rows)) 0 row hmem
  unfold findLastDataColumn
  omega

/-- some row of the used range holds a value in the last column, the last row holds a value: the range is tight -/
theorem findLastDataColumn_attained : ∀ (rows : VGrid) (m : Nat),
    rows.foldl (fun m row => max m (lastIdx isCellNonEmpty row)) m = m ∨
      ∃ row ∈ rows, lastIdx isCellNonEmpty row = rows.foldl (fun m row => max m (lastIdx isCellNonEmpty row)) m
  | [], _ => Or.inl rfl
  | r :: rs, m => by
    simp only [List.foldl_cons]
    rcases findLastDataColumn_attained rs (max m (lastIdx isCellNonEmpty r)) with h | ⟨row, hrow, h⟩
    · rw [h]
      by_cases hm : lastIdx isCellNonEmpty r ≤ m
      · left; omega
      · right; exact ⟨r, List.mem_cons_self, by omega⟩
    · right; exact ⟨row, List.mem_cons_of_mem _ hrow, h⟩

end Xlsx

/-! ## XLS -/
namespace Xls

theorem dictSet_fresh (d : List (Str × Val)) (k : Str) (v : Val) (h : ∀ kv ∈ d, kv.1 ≠ k) :
    dictSet d k v = d ++ [(k, v)] := by
  induction d with
  | nil => rfl
  | cons kv r ih =>
    obtain ⟨k', v'⟩ := kv
    have hne : k ≠ k' := fun e => h (k', v') (by simp) e.symm
    simp only [dictSet, hne, if_false, List.cons_append]
    rw [ih (fun kv hkv => h kv (by simp [hkv]))]

theorem foldl_dictSet_nodup (pairs : List (Str × Val)) (acc : List (Str × Val))
    (hnd : (acc.map (·.1) ++ pairs.map (·.1)).Nodup) :
    pairs.foldl (fun d hc => dictSet d hc.1 hc.2) acc = acc ++ pairs := by
  induction pairs generalizing acc with
  | nil => simp
  | cons p ps ih =>
    simp only [List.foldl_cons]
    have hfresh : ∀ kv ∈ acc, kv.1 ≠ p.1 := by
      intro kv hkv e
      rw [List.nodup_append] at hnd
      exact hnd.2.2 kv.1 (List.mem_map.mpr ⟨kv, hkv, rfl⟩) p.1 (by simp) e
    rw [dictSet_fresh acc p.1 p.2 hfresh, ih]
    · simp
    · simpa [List.map_append, List.append_assoc] using hnd

theorem rowDict_nodup (headers : List Str) (row : List Cell) (hnd : headers.Nodup) (hlen : row.length = headers.length) :
    rowDict headers row = headers.zip (row.map (·.native)) := by
  unfold rowDict
  have : (headers.zip row).foldl (fun d hc => dictSet d hc.1 hc.2.native) [] =
      ((headers.zip row).map (fun hc => (hc.1, hc.2.native))).foldl (fun d hc => dictSet d hc.1 hc.2) [] := by
    rw [List.foldl_map]
  rw [this, foldl_dictSet_nodup]
  · simp only [List.nil_append]
    rw [List.zip_map_right]
    rfl
  · simp only [List.map_nil, List.nil_append, List.map_map]
    have : (List.map ((fun x => x.fst) ∘ fun hc => (hc.fst, hc.snd.native)) (headers.zip row)) = headers := by
      have h2 : ((fun x : Str × Val => x.fst) ∘ fun hc : Str × Cell => (hc.fst, hc.snd.native)) = Prod.fst := rfl
      rw [h2, List.map_fst_zip]; omega
    rw [this]; exact hnd

theorem dictGet_zip (headers : List Str) (vals : List Val) (hnd : headers.Nodup) (hlen : vals.length = headers.length) :
    headers.map (dictGet (headers.zip vals)) = vals := by
  induction headers generalizing vals with
  | nil => cases vals <;> simp_all
  | cons k ks ih =>
    cases vals with
    | nil => simp at hlen
    | cons v vs =>
      simp only [List.zip_cons_cons, List.map_cons]
      have hk : dictGet ((k, v) :: ks.zip vs) k = v := by simp [dictGet]
      rw [hk]
      congr 1
      rw [List.nodup_cons] at hnd
      rw [← ih vs hnd.2 (by simpa using hlen)]
      apply List.map_congr_left
      intro k' hk'
      have : k ≠ k' := fun e => hnd.1 (e ▸ hk')
      have e : ((k, v).1 == k') = false := by simp [this]
      simp only [dictGet, List.find?_cons, e]
      rw [ih vs hnd.2 (by simpa using hlen)]

/-- XLS: with pairwise distinct header texts and at least one data row, `get_table()` is the
    header texts followed by the native values of every data row, cell by cell -/
theorem getTable_sheetData (first : List Cell) (rest : List (List Cell)) (hne : rest ≠ [])
    (hnd : (first.map (·.hdr)).Nodup) (hlen : ∀ row ∈ rest, row.length = first.length) :
    getTable (sheetData (first :: rest)) =
      (first.map (fun c => Val.str c.hdr)) :: rest.map (fun row => row.map (·.native)) := by
  unfold sheetData
  have hrows : rest.map (rowDict (first.map (·.hdr))) = rest.map (fun row => (first.map (·.hdr)).zip (row.map (·.native))) := by
    apply List.map_congr_left
    intro row hrow
    exact rowDict_nodup _ row hnd (by simp [hlen row hrow])
  simp only
  rw [hrows]
  cases rest with
  | nil => exact absurd rfl hne
  | cons r0 rs =>
    simp only [List.map_cons, getTable]
    have h0 : ((first.map (·.hdr)).zip (r0.map (·.native))).map (·.1) = first.map (·.hdr) := by
      rw [List.map_fst_zip]; simp [hlen r0 (by simp)]
    rw [h0]
    congr 1
    · simp
    · congr 1
      · exact dictGet_zip _ _ hnd (by simp [hlen r0 (by simp)])
      · rw [List.map_map]
        apply List.map_congr_left
        intro row hrow
        exact dictGet_zip _ _ hnd (by simp [hlen row (by simp [hrow])])

end Xls

end S2T.Tables
