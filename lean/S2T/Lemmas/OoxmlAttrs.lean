import S2T.Model.OoxmlDocx
import S2T.Model.OoxmlPptx
/-!
C02 (part "ooxml"): the DOCX walk reads NO attribute of any element.

`Xml.erase` removes every attribute of every element of a tree.  `*_erase`: each function of the walk gives the same
result on the erased tree, hence two trees that differ only in attributes (a `w:br` with `w:type="page"`, a `w:t` with
`xml:space`, revision ids on runs and paragraphs, ids / authors on tracked changes, `Requires` on `mc:Choice` …) have
the same full text.  The correspondence ties this to the source: the documents of the Lean renderer are "dressed" with
attributes WordprocessingML really carries and go through the real extractor; the text must not move.
-/
namespace S2T.C02.Ooxml

mutual
/-- the same element without any attribute, at every depth -/
def Xml.erase : Xml → Xml
  | .node t _ x k => .node t [] x (eraseL k)
def eraseL : List Xml → List Xml
  | [] => []
  | e :: r => e.erase :: eraseL r
end

/-- `a` and `b` differ at most in attributes -/
def SameButAttrs (a b : List Xml) : Prop := eraseL a = eraseL b

namespace Docx
variable (ws : Char → Bool)

mutual
theorem processEl_erase : ∀ e : Xml, processEl ws e.erase = processEl ws e
  | .node tag a x kids => by
    cases tag <;>
      simp only [Xml.erase, processEl, choiceKids_erase kids, blockTexts_erase kids, runKids_erase kids,
        processEls_erase kids]
theorem processEls_erase : ∀ l : List Xml, processEls ws (eraseL l) = processEls ws l
  | [] => by simp [eraseL, processEls]
  | e :: r => by simp only [eraseL, processEls, processEl_erase e, processEls_erase r]
theorem choiceKids_erase : ∀ l : List Xml, choiceKids ws (eraseL l) = choiceKids ws l
  | [] => by simp [eraseL, choiceKids]
  | .node tag a x kids :: r => by
    simp only [eraseL, Xml.erase, choiceKids, processEls_erase kids, choiceKids_erase r]
theorem runKids_erase : ∀ l : List Xml, runKids ws (eraseL l) = runKids ws l
  | [] => by simp [eraseL, runKids]
  | .node tag a x kids :: r => by
    cases tag <;> simp only [eraseL, Xml.erase, runKids, choiceKids_erase kids, runKids_erase r]
theorem blockTexts_erase : ∀ l : List Xml, blockTexts ws (eraseL l) = blockTexts ws l
  | [] => by simp [eraseL, blockTexts]
  | .node tag a x kids :: r => by
    cases tag <;>
      simp only [eraseL, Xml.erase, blockTexts, sdtBlocks_erase kids, blockTexts_erase kids, processEls_erase kids,
        tableRows_erase kids, blockTexts_erase r]
theorem sdtBlocks_erase : ∀ l : List Xml, sdtBlocks ws (eraseL l) = sdtBlocks ws l
  | [] => by simp [eraseL, sdtBlocks]
  | .node tag a x kids :: r => by
    simp only [eraseL, Xml.erase, sdtBlocks, blockTexts_erase kids, sdtBlocks_erase r]
theorem tableRows_erase : ∀ l : List Xml, tableRows ws (eraseL l) = tableRows ws l
  | [] => by simp [eraseL, tableRows]
  | .node tag a x kids :: r => by
    cases tag <;>
      simp only [eraseL, Xml.erase, tableRows, sdtRows_erase kids, tableRows_erase kids, rowCells_erase kids,
        tableRows_erase r]
theorem sdtRows_erase : ∀ l : List Xml, sdtRows ws (eraseL l) = sdtRows ws l
  | [] => by simp [eraseL, sdtRows]
  | .node tag a x kids :: r => by
    simp only [eraseL, Xml.erase, sdtRows, tableRows_erase kids, sdtRows_erase r]
theorem rowCells_erase : ∀ l : List Xml, rowCells ws (eraseL l) = rowCells ws l
  | [] => by simp [eraseL, rowCells]
  | .node tag a x kids :: r => by
    cases tag <;>
      simp only [eraseL, Xml.erase, rowCells, sdtCells_erase kids, rowCells_erase kids, blockTexts_erase kids,
        rowCells_erase r]
theorem sdtCells_erase : ∀ l : List Xml, sdtCells ws (eraseL l) = sdtCells ws l
  | [] => by simp [eraseL, sdtCells]
  | .node tag a x kids :: r => by
    simp only [eraseL, Xml.erase, sdtCells, rowCells_erase kids, sdtCells_erase r]
end

theorem fullText_erase (kids : List Xml) : fullText ws (eraseL kids) = fullText ws kids := by
  simp only [fullText, blockTexts_erase]

/-- two bodies that differ only in attributes have the same full text -/
theorem fullText_attr_blind (a b : List Xml) (h : SameButAttrs a b) : fullText ws a = fullText ws b := by
  rw [← fullText_erase ws a, ← fullText_erase ws b, h]

end Docx
end S2T.C02.Ooxml
