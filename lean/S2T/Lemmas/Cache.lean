import S2T.Model.Cache
namespace S2T.Cache

theorem find?_mem {K V} [DecidableEq K] {k : K} {c : Cache K V} {v : V} (h : find? k c = some v) : (k, v) ∈ c := by
  induction c with
  | nil => cases h
  | cons a r ih =>
    obtain ⟨k', v'⟩ := a
    unfold find? at h
    split at h
    · rename_i e; cases h; subst e; exact List.mem_cons_self
    · exact List.mem_cons_of_mem _ (ih h)

theorem mem_erase {K V} [DecidableEq K] {k : K} {c : Cache K V} {x : K × V} (h : x ∈ erase k c) : x ∈ c := by
  induction c with
  | nil => cases h
  | cons a r ih =>
    obtain ⟨k', v'⟩ := a
    unfold erase at h
    split at h
    · exact List.mem_cons_of_mem _ h
    · rcases List.mem_cons.mp h with e | e
      · exact e ▸ List.mem_cons_self
      · exact List.mem_cons_of_mem _ (ih e)

theorem lruGet_spec {K V E} [DecidableEq K] (cap : Nat) (f : K → Except E V) (c : Cache K V) (k : K)
    (hc : Consistent f c) : (lruGet cap f c k).1 = f k ∧ Consistent f (lruGet cap f c k).2 := by
  unfold lruGet
  split
  · rename_i v hv
    have hm := find?_mem hv
    refine ⟨(hc _ hm).symm, ?_⟩
    intro kv hkv
    rcases List.mem_append.mp hkv with h | h
    · exact hc _ (mem_erase h)
    · simp at h; subst h; exact hc _ hm
  · split
    · rename_i e he
      exact ⟨he.symm, hc⟩
    · rename_i v hv
      refine ⟨hv.symm, ?_⟩
      have hall : Consistent f (c ++ [(k, v)]) := by
        intro kv hkv
        rcases List.mem_append.mp hkv with h | h
        · exact hc _ h
        · simp at h; subst h; exact hv
      simp only []
      split
      · intro kv hkv; exact hall _ (List.mem_of_mem_drop hkv)
      · exact hall

theorem lruRun_consistent {K V E} [DecidableEq K] (cap : Nat) (f : K → Except E V) (c : Cache K V)
    (hc : Consistent f c) (h : List K) : Consistent f (lruRun cap f c h) := by
  induction h generalizing c with
  | nil => exact hc
  | cons k r ih => exact ih _ (lruGet_spec cap f c k hc).2

theorem fontFixed_spec {K P G V} [DecidableEq K] (parse : K → P) (feat : K → P → G → V) (c : Cache K P)
    (k : K) (g : G) (hc : FontFixed.Consistent parse c) :
    (FontFixed.get parse feat c k g).1 = feat k (parse k) g ∧ FontFixed.Consistent parse (FontFixed.get parse feat c k g).2 := by
  unfold FontFixed.get
  split
  · rename_i p hp
    have := hc _ (find?_mem hp)
    simp only at this
    exact ⟨by rw [this], hc⟩
  · refine ⟨rfl, ?_⟩
    intro kp hkp
    rcases List.mem_append.mp hkp with h | h
    · exact hc _ h
    · simp at h; subst h; rfl

theorem fontFixed_run_consistent {K P G V} [DecidableEq K] (parse : K → P) (feat : K → P → G → V) (c : Cache K P)
    (hc : FontFixed.Consistent parse c) (h : List (K × G)) : FontFixed.Consistent parse (FontFixed.run parse feat c h) := by
  induction h generalizing c with
  | nil => exact hc
  | cons a r ih =>
    obtain ⟨k, g⟩ := a
    exact ih _ (fontFixed_spec parse feat c k g hc).2

end S2T.Cache
