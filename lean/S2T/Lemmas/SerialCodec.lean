import S2T.Lemmas.Serial
/-! Helper lemmas for C05: the base64 codec is *size-independent* — the text of a payload is the concatenation of
the texts of its 3-aligned pieces, so no payload length (and no position inside a payload) is special.
Core Lean only. -/
namespace S2T.Serial

/-- length of the text: 4 characters per started group of 3 bytes, whatever the size -/
theorem b64enc_length (bs : List Nat) : (b64enc bs).length = 4 * ((bs.length + 2) / 3) := by
  fun_induction b64enc bs with
  | case1 => rfl
  | case2 a => simp
  | case3 a b => simp
  | case4 a b c rest ih =>
    simp only [List.length_cons, ih]
    omega

/-- the encoder distributes over a split at a multiple of 3 bytes -/
theorem b64enc_append (xs ys : List Nat) (h : xs.length % 3 = 0) : b64enc (xs ++ ys) = b64enc xs ++ b64enc ys := by
  fun_induction b64enc xs with
  | case1 => simp
  | case2 a => simp at h
  | case3 a b => simp at h
  | case4 a b c rest ih =>
    have h' : rest.length % 3 = 0 := by
      simp only [List.length_cons] at h
      omega
    simp [b64enc, ih h']

/-- … hence the text of a 3-aligned prefix has exactly 4/3 of its length -/
theorem b64enc_length_aligned (xs : List Nat) (h : xs.length % 3 = 0) : (b64enc xs).length = 4 * (xs.length / 3) := by
  rw [b64enc_length]
  omega

/-! ## an encoder that goes through the payload in slices of `k` bytes

`b64encChunked k` is what `"".join(b64encode(view[o : o + k]) for o in range(0, len(view), k))` computes (payloads of at
most `k` bytes, and `k = 0` = "no slicing", are encoded in one go). -/
def b64encChunked (k : Nat) (bs : List Nat) : List Char :=
  if k = 0 ∨ bs.length ≤ k then b64enc bs
  else b64enc (bs.take k) ++ b64encChunked k (bs.drop k)
termination_by bs.length
decreasing_by
  simp only [List.length_drop]
  omega

/-- slicing at a multiple of 3 bytes is invisible: the joined text IS the text of the whole payload -/
theorem b64encChunked_aligned (k : Nat) (bs : List Nat) (hk : k % 3 = 0) : b64encChunked k bs = b64enc bs := by
  fun_induction b64encChunked k bs with
  | case1 bs h => rfl
  | case2 bs h ih =>
    have hl : (bs.take k).length % 3 = 0 := by
      rw [List.length_take]
      have : k ≤ bs.length := by omega
      rw [Nat.min_eq_left this]
      exact hk
    rw [ih, ← b64enc_append _ _ hl, List.take_append_drop]

/-- payloads of at most one slice never show the difference (why no small payload is a witness) -/
theorem b64encChunked_short (k : Nat) (bs : List Nat) (h : bs.length ≤ k) : b64encChunked k bs = b64enc bs := by
  rw [b64encChunked]
  simp [h]

/-- CPython's non-strict `binascii.a2b_base64` on a text made of canonical quads: decoding STOPS after the first
padded quad (whatever follows is ignored) -/
def b64decStop : List Char → Option (List Nat)
  | [] => some []
  | w :: x :: y :: z :: rest =>
      match b64idx w, b64idx x with
      | some p, some q =>
        if y = '=' then
          if z = '=' then some [p * 4 + q / 16] else none
        else match b64idx y with
          | some r =>
            if z = '=' then some [p * 4 + q / 16, (q % 16) * 16 + r / 4]
            else match b64idx z, b64decStop rest with
              | some s, some tl => some ((p * 4 + q / 16) :: ((q % 16) * 16 + r / 4) :: ((r % 4) * 64 + s) :: tl)
              | _, _ => none
          | none => none
      | _, _ => none
  | _ => none

/-- on canonical text the stopping decoder is the canonical one -/
theorem b64decStop_enc : ∀ bs, bytesOk bs = true → b64decStop (b64enc bs) = some bs := by
  intro bs
  fun_induction b64enc bs with
  | case1 => intro _; simp [b64decStop]
  | case2 a =>
    intro h
    simp [bytesOk] at h
    have h1 := b64idx_c (a / 4) (by omega)
    have h2 := b64idx_c (a % 4 * 16) (by omega)
    simp [b64decStop, h1, h2]
    omega
  | case3 a b =>
    intro h
    simp [bytesOk] at h
    have h1 := b64idx_c (a / 4) (by omega)
    have h2 := b64idx_c (a % 4 * 16 + b / 16) (by omega)
    have h3 := b64idx_c (b % 16 * 4) (by omega)
    have n3 := b64c_ne_pad (b % 16 * 4) (by omega)
    simp [b64decStop, h1, h2, h3, n3]
    omega
  | case4 a b c rest ih =>
    intro h
    simp [bytesOk] at h
    have h1 := b64idx_c (a / 4) (by omega)
    have h2 := b64idx_c (a % 4 * 16 + b / 16) (by omega)
    have h3 := b64idx_c (b % 16 * 4 + c / 64) (by omega)
    have h4 := b64idx_c (c % 64) (by omega)
    have n3 := b64c_ne_pad (b % 16 * 4 + c / 64) (by omega)
    have n4 := b64c_ne_pad (c % 64) (by omega)
    have ih' := ih (by simp [bytesOk]; exact h.2.2.2)
    simp [b64decStop, h1, h2, h3, h4, n3, n4, ih']
    omega

end S2T.Serial
