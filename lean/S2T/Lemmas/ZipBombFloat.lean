import S2T.Lemmas.ZipBomb
/-!
Float side of the ZIP-bomb guard (C11).  The *unpatched* source computes
`ratio = size / compressed` (a double, correctly rounded by CPython) and tests `ratio > limit`.
Lean's `Float` is opaque, so the rounding is a **hypothesis**: an arbitrary function
`rnd : Rat → Rat` that is monotone and leaves two doubles fixed — the limit `L` and its
successor `L⁺`.  Under a decidable arithmetic condition on the limits (`FloatOk`) the float test
and the exact test agree on every input; without it they do not (`float_rounding_counterexample`).
Uses only core `Rat`.
-/
namespace S2T.ZipBomb

def Ratio.toRat (L : Ratio) : Rat := (L.num : Rat) / (L.den : Rat)

/-- what is assumed of `int / int`: monotone, and exact on the two doubles `L < L⁺` -/
structure Rounding (rnd : Rat → Rat) (L Lp : Rat) : Prop where
  mono : ∀ x y, x ≤ y → rnd x ≤ rnd y
  fixL : rnd L = L
  fixLp : rnd Lp = Lp

/-- order-theoretic core: if no candidate quotient lies strictly between `L` and `L⁺`,
    rounding does not change the outcome of `> L`. -/
theorem float_gt_iff {rnd : Rat → Rat} {L Lp x : Rat} (h : Rounding rnd L Lp) (hlt : L < Lp)
    (gap : L < x → Lp ≤ x) : L < rnd x ↔ L < x := by
  constructor
  · intro hr
    apply Rat.not_le.mp
    intro hle
    have := h.mono x L hle
    rw [h.fixL] at this
    exact absurd hr (Rat.not_lt.mpr this)
  · intro hx
    have := h.mono Lp x (gap hx)
    rw [h.fixLp] at this
    grind

theorem cross (a b c d : Nat) (hb : 0 < b) (hd : 0 < d) :
    (c : Rat) / (d : Rat) < (a : Rat) / (b : Rat) ↔ c * b < a * d := by
  have hb' : (0 : Rat) < (b : Rat) := by exact_mod_cast hb
  have hd' : (0 : Rat) < (d : Rat) := by exact_mod_cast hd
  have e : (c : Rat) / (d : Rat) * (b : Rat) = ((c : Rat) * (b : Rat)) / (d : Rat) := by
    rw [Rat.div_def, Rat.div_def, Rat.mul_assoc, Rat.mul_comm (d : Rat)⁻¹, ← Rat.mul_assoc]
  rw [Rat.lt_div_iff hb', e, Rat.div_lt_iff hd']
  norm_cast

theorem cross_le (a b c d : Nat) (hb : 0 < b) (hd : 0 < d) :
    (c : Rat) / (d : Rat) ≤ (a : Rat) / (b : Rat) ↔ c * b ≤ a * d := by
  rw [← Rat.not_lt, cross c d a b hd hb]
  omega

/-- the exact test of the model is the comparison of the two rationals -/
theorem ratioExceeds_iff_rat (a b : Nat) (L : Ratio) (hb : 0 < b) (hd : 0 < L.den) :
    ratioExceeds a b L = true ↔ L.toRat < (a : Rat) / (b : Rat) := by
  unfold ratioExceeds Ratio.toRat
  rw [cross a b L.num L.den hb hd]
  simp

theorem gap_nat (a b p q p' q' : Nat) (hq : 0 < q)
    (hgap : b * (p' * q - p * q') ≤ q') (h : p * b < a * q) : p' * b ≤ a * q' := by
  have h1 : p' * q ≤ p * q' + (p' * q - p * q') := by omega
  have h2 : b * (p' * q) ≤ b * (p * q' + (p' * q - p * q')) := Nat.mul_le_mul_left b h1
  have h3 : (p * b + 1) * q' ≤ (a * q) * q' := Nat.mul_le_mul_right q' h
  have h4 : (p' * b) * q ≤ (a * q') * q := by
    have e1 : (p' * b) * q = b * (p' * q) := by grind
    have e2 : b * (p * q' + (p' * q - p * q')) = (p * b) * q' + b * (p' * q - p * q') := by grind
    have e3 : (p * b + 1) * q' = (p * b) * q' + q' := by grind
    have e4 : (a * q) * q' = (a * q') * q := by grind
    omega
  exact Nat.le_of_mul_le_mul_right h4 hq

theorem gap_of_bound (a b p q u q' S : Nat) (hp : 0 < p) (ha : a ≤ S) (h : p * b < a * q)
    (hS : S * q * u ≤ p * q') : b * u ≤ q' := by
  have h1 : p * b ≤ S * q := Nat.le_trans (Nat.le_of_lt h) (Nat.mul_le_mul_right q ha)
  have h2 : (p * b) * u ≤ (S * q) * u := Nat.mul_le_mul_right u h1
  have h3 : p * (b * u) ≤ p * q' := by
    have e : p * (b * u) = (p * b) * u := by grind
    omega
  exact Nat.le_of_mul_le_mul_left h3 hp

/-- decidable condition on a ratio limit `L`, its successor double `Lp` and the size bound `S`
    enforced before the ratio test (`max_single…` resp. `max_total…`):
    `S · den(L) · (Lp − L as numerator) ≤ num(L) · den(Lp)`. -/
def FloatOk (S : Nat) (L Lp : Ratio) : Bool :=
  decide (0 < L.num) && decide (0 < L.den) && decide (0 < Lp.den)
    && decide (L.num * Lp.den < Lp.num * L.den)
    && decide (S * L.den * (Lp.num * L.den - L.num * Lp.den) ≤ L.num * Lp.den)

/-- the float test as the unpatched source performs it -/
def ratioExceedsF (rnd : Rat → Rat) (a b : Nat) (L : Ratio) : Bool :=
  decide (L.toRat < rnd ((a : Rat) / (b : Rat)))

/-- **float = exact** for sizes up to `S`. -/
theorem float_cmp_exact (rnd : Rat → Rat) (S : Nat) (L Lp : Ratio) (hok : FloatOk S L Lp = true)
    (hr : Rounding rnd L.toRat Lp.toRat) (a b : Nat) (hb : 0 < b) (ha : a ≤ S) :
    ratioExceedsF rnd a b L = ratioExceeds a b L := by
  simp only [FloatOk, Bool.and_eq_true, decide_eq_true_eq] at hok
  obtain ⟨⟨⟨⟨hp, hq⟩, hq'⟩, hlt⟩, hS⟩ := hok
  have hlt' : L.toRat < Lp.toRat := by
    unfold Ratio.toRat; exact (cross Lp.num Lp.den L.num L.den hq' hq).mpr hlt
  have key : L.toRat < rnd ((a : Rat) / (b : Rat)) ↔ L.toRat < (a : Rat) / (b : Rat) := by
    apply float_gt_iff hr hlt'
    intro hx
    have hx' : L.num * b < a * L.den := (cross a b L.num L.den hb hq).mp hx
    have hg := gap_of_bound a b L.num L.den (Lp.num * L.den - L.num * Lp.den) Lp.den S hp ha hx' hS
    have := gap_nat a b L.num L.den Lp.num Lp.den hq hg hx'
    unfold Ratio.toRat
    exact (cross_le a b Lp.num Lp.den hb hq').mpr this
  unfold ratioExceedsF
  rw [Bool.eq_iff_iff, decide_eq_true_eq, key, ratioExceeds_iff_rat a b L hb hq]

/-! ## The guard with an arbitrary pair of ratio tests (entry, total) -/

def stepWith (cmpE : Nat → Nat → Bool) (lim : Limits) (tu tc : Nat) (e : Entry) : Except Reason (Nat × Nat) :=
  if e.isDir then .ok (tu, tc)
  else if e.fileSize > lim.maxSingle then .error .entryTooLarge
  else if e.fileSize > 0 && e.compressSize == 0 then .error .entryZeroCompressed
  else if e.fileSize > 0 && cmpE e.fileSize e.compressSize then .error .entryRatio
  else if tu + e.fileSize > lim.maxTotal then .error .totalTooLarge
  else .ok (tu + e.fileSize, tc + e.compressSize)

def loopWith (cmpE : Nat → Nat → Bool) (lim : Limits) : Nat → Nat → List Entry → Except Reason (Nat × Nat)
  | tu, tc, [] => .ok (tu, tc)
  | tu, tc, e :: es =>
    match stepWith cmpE lim tu tc e with
    | .error r => .error r
    | .ok (tu', tc') => loopWith cmpE lim tu' tc' es

def finishWith (cmpT : Nat → Nat → Bool) (tu tc : Nat) : Except Reason Unit :=
  if tu > 0 then
    if tc == 0 then .error .totalZeroCompressed
    else if cmpT tu tc then .error .totalRatio
    else .ok ()
  else .ok ()

def validateWith (cmpE cmpT : Nat → Nat → Bool) (lim : Limits) (infolist : Option (List Entry)) : Except Reason Unit :=
  match infolist with
  | none => .error .inspectFailed
  | some infos =>
    if infos.length > lim.maxEntries then .error .tooManyEntries
    else
      match loopWith cmpE lim 0 0 infos with
      | .error r => .error r
      | .ok (tu, tc) => finishWith cmpT tu tc

theorem stepWith_eq (cmpE : Nat → Nat → Bool) (lim : Limits)
    (hE : ∀ a b, 0 < b → a ≤ lim.maxSingle → cmpE a b = ratioExceeds a b lim.entryRatio)
    (tu tc : Nat) (e : Entry) : stepWith cmpE lim tu tc e = step lim tu tc e := by
  unfold stepWith step
  by_cases hd : e.isDir = true
  · simp [hd]
  · by_cases h1 : e.fileSize > lim.maxSingle
    · simp [hd, h1]
    · by_cases hf : e.fileSize > 0
      · by_cases hc : e.compressSize = 0
        · simp [hd, h1, hf, hc]
        · rw [hE e.fileSize e.compressSize (Nat.pos_of_ne_zero hc) (Nat.le_of_not_lt h1)]
      · have hf0 : e.fileSize = 0 := by omega
        simp [hd, hf0]

theorem loopWith_eq (cmpE : Nat → Nat → Bool) (lim : Limits)
    (hE : ∀ a b, 0 < b → a ≤ lim.maxSingle → cmpE a b = ratioExceeds a b lim.entryRatio)
    (es : List Entry) : ∀ tu tc, loopWith cmpE lim tu tc es = loop lim tu tc es := by
  induction es with
  | nil => intro tu tc; rfl
  | cons e es ih =>
    intro tu tc
    unfold loopWith loop
    rw [stepWith_eq cmpE lim hE]
    cases step lim tu tc e with
    | error r => rfl
    | ok q => exact ih _ _

theorem validateWith_eq (cmpE cmpT : Nat → Nat → Bool) (lim : Limits)
    (hE : ∀ a b, 0 < b → a ≤ lim.maxSingle → cmpE a b = ratioExceeds a b lim.entryRatio)
    (hT : ∀ a b, 0 < b → a ≤ lim.maxTotal → cmpT a b = ratioExceeds a b lim.totalRatio)
    (infos : Option (List Entry)) : validateWith cmpE cmpT lim infos = validate lim infos := by
  cases infos with
  | none => rfl
  | some es =>
    unfold validateWith validate
    by_cases hlen : es.length > lim.maxEntries
    · simp [hlen]
    · simp only [hlen, ↓reduceIte]
      rw [loopWith_eq cmpE lim hE]
      cases hl : loop lim 0 0 es with
      | error r => rfl
      | ok p =>
        obtain ⟨_, htot, hp⟩ := (loop_ok_iff lim es 0 0 p (Nat.zero_le _)).mp hl
        subst hp
        simp only [Nat.zero_add] at htot ⊢
        unfold finishWith finish
        by_cases hu : totalU es > 0
        · by_cases hc : totalC es = 0
          · simp [hu, hc]
          · rw [hT (totalU es) (totalC es) (Nat.pos_of_ne_zero hc) htot]
        · simp [hu]

/-- `validate_zipfile` of the unpatched source, with CPython's division as `rnd` -/
def validateF (rnd : Rat → Rat) (lim : Limits) (infos : Option (List Entry)) : Except Reason Unit :=
  validateWith (fun a b => ratioExceedsF rnd a b lim.entryRatio) (fun a b => ratioExceedsF rnd a b lim.totalRatio) lim infos

/-- the duplicated control skeleton is the model's (checked, not trusted) -/
theorem validateWith_self (lim : Limits) (infos : Option (List Entry)) :
    validateWith (fun a b => ratioExceeds a b lim.entryRatio) (fun a b => ratioExceeds a b lim.totalRatio) lim infos
      = validate lim infos :=
  validateWith_eq _ _ lim (fun _ _ _ _ => rfl) (fun _ _ _ _ => rfl) infos

/-- **float guard = exact guard** whenever both ratio limits satisfy `FloatOk` with the size bound
    that is enforced before the respective test. -/
theorem validateF_eq (rnd : Rat → Rat) (lim : Limits) (en tn : Ratio)
    (hE : FloatOk lim.maxSingle lim.entryRatio en = true) (hT : FloatOk lim.maxTotal lim.totalRatio tn = true)
    (hrE : Rounding rnd lim.entryRatio.toRat en.toRat) (hrT : Rounding rnd lim.totalRatio.toRat tn.toRat)
    (infos : Option (List Entry)) : validateF rnd lim infos = validate lim infos :=
  validateWith_eq _ _ lim
    (fun a b hb ha => float_cmp_exact rnd _ _ en hE hrE a b hb ha)
    (fun a b hb ha => float_cmp_exact rnd _ _ tn hT hrT a b hb ha) infos

/-- a rounding that sends the whole interval `[L, L⁺)` down to `L` — what round-half-even does to the
    lower half of it, e.g. to the midpoint `500 + 2^-45 = (500·2^45 + 1) / 2^45` -/
def roundDown (L Lp : Rat) (x : Rat) : Rat := if L ≤ x ∧ x < Lp then L else x

theorem roundDown_rounding (L Lp : Rat) : Rounding (roundDown L Lp) L Lp := by
  refine ⟨?_, ?_, ?_⟩
  · intro x y hxy
    unfold roundDown
    split <;> split <;> grind
  · unfold roundDown; grind
  · unfold roundDown; grind

end S2T.ZipBomb
