import S2T.Model.OoxmlText
/-! C02 (part "ooxml"): lemmas about `words` (Python's `str.split()`) and the string operations that
preserve it, and the congruence `Eqv` ("same words in every context"). -/
namespace S2T.C02.Ooxml

variable {ws : Char → Bool}

theorem wordsAux_append_sep (a : Str) (c : Char) (b cur : Str) (hc : ws c = true) :
    wordsAux ws (a ++ c :: b) cur = wordsAux ws a cur ++ words ws b := by
  induction a generalizing cur with
  | nil => simp [wordsAux, hc, words]; split <;> simp
  | cons x a ih =>
    simp only [List.cons_append, wordsAux]
    split
    · split <;> simp [ih]
    · exact ih _

theorem words_append_sep (a : Str) (c : Char) (b : Str) (hc : ws c = true) :
    words ws (a ++ c :: b) = words ws a ++ words ws b := wordsAux_append_sep a c b [] hc

theorem words_nil : words ws [] = [] := by simp [words, wordsAux]

theorem words_cons_ws (c : Char) (b : Str) (hc : ws c = true) : words ws (c :: b) = words ws b := by
  have := words_append_sep (ws := ws) [] c b hc
  simpa [words_nil] using this

theorem words_append_ws_end (a : Str) (c : Char) (hc : ws c = true) : words ws (a ++ [c]) = words ws a := by
  have := words_append_sep (ws := ws) a c [] hc
  simpa [words_nil] using this

def AllWs (ws : Char → Bool) (s : Str) : Prop := ∀ c ∈ s, ws c = true

theorem words_allws_append (s b : Str) (h : AllWs ws s) : words ws (s ++ b) = words ws b := by
  induction s with
  | nil => rfl
  | cons c s ih =>
    have hc : ws c = true := h c (by simp)
    rw [List.cons_append, words_cons_ws _ _ hc]
    exact ih (fun x hx => h x (by simp [hx]))

theorem words_allws (s : Str) (h : AllWs ws s) : words ws s = [] := by
  have := words_allws_append (ws := ws) s [] h
  simpa [words_nil] using this

theorem wordsAux_allws (s cur : Str) (h : AllWs ws s) :
    wordsAux ws s cur = if cur.isEmpty then [] else [cur] := by
  induction s generalizing cur with
  | nil => simp [wordsAux]
  | cons c s ih =>
    have hc : ws c = true := h c (by simp)
    have hs : AllWs ws s := fun x hx => h x (by simp [hx])
    simp only [wordsAux, hc, if_true]
    split <;> simp [ih _ hs]

theorem wordsAux_append_allws (a s cur : Str) (h : AllWs ws s) :
    wordsAux ws (a ++ s) cur = wordsAux ws a cur := by
  induction a generalizing cur with
  | nil => simp [wordsAux, wordsAux_allws s cur h]
  | cons x a ih =>
    simp only [List.cons_append, wordsAux]
    split
    · split <;> simp [ih]
    · exact ih _

theorem words_append_allws (a s : Str) (h : AllWs ws s) : words ws (a ++ s) = words ws a :=
  wordsAux_append_allws a s [] h

/-- a non-empty all-whitespace separator splits the words -/
theorem words_append_seps (a sep b : Str) (hne : sep ≠ []) (h : AllWs ws sep) :
    words ws (a ++ sep ++ b) = words ws a ++ words ws b := by
  cases sep with
  | nil => exact absurd rfl hne
  | cons c s =>
    have hc : ws c = true := h c (by simp)
    have hs : AllWs ws s := fun x hx => h x (by simp [hx])
    rw [List.append_assoc, List.cons_append, words_append_sep _ _ _ hc, words_allws_append _ _ hs]

theorem wordsAux_nows (s cur : Str) (h : ∀ c ∈ s, ws c = false) (hne : cur ++ s ≠ []) :
    wordsAux ws s cur = [cur ++ s] := by
  induction s generalizing cur with
  | nil => simp at hne; simp [wordsAux, hne]
  | cons c s ih =>
    have hc : ws c = false := h c (by simp)
    simp only [wordsAux, hc]
    rw [ih (cur ++ [c]) (fun x hx => h x (by simp [hx])) (by simp)]
    simp

/-- a non-empty string without whitespace is exactly one word -/
theorem words_token (s : Str) (hne : s ≠ []) (h : ∀ c ∈ s, ws c = false) : words ws s = [s] := by
  have := wordsAux_nows (ws := ws) s [] h (by simpa using hne)
  simpa [words] using this

theorem nonblank_false_iff (s : Str) : nonblank ws s = false ↔ AllWs ws s := by
  simp [nonblank, AllWs]

theorem wordsAux_ne_nil_of_cur (s cur : Str) (h : cur ≠ []) : wordsAux ws s cur ≠ [] := by
  induction s generalizing cur with
  | nil => simp [wordsAux, h]
  | cons c s ih =>
    simp only [wordsAux]
    split
    · simp [h]
    · exact ih _ (by simp)

theorem words_eq_nil_iff (s : Str) : words ws s = [] ↔ AllWs ws s := by
  constructor
  · intro h
    induction s with
    | nil => intro c hc; cases hc
    | cons c s ih =>
      by_cases hc : ws c = true
      · rw [words_cons_ws _ _ hc] at h
        intro x hx
        rcases List.mem_cons.1 hx with rfl | hx
        · exact hc
        · exact ih h x hx
      · exfalso
        simp only [words, wordsAux, hc] at h
        exact wordsAux_ne_nil_of_cur (ws := ws) s ([] ++ [c]) (by simp) (by simpa using h)
  · exact words_allws s

theorem nonblank_iff (s : Str) : nonblank ws s = true ↔ words ws s ≠ [] := by
  rw [Ne, words_eq_nil_iff, ← nonblank_false_iff]; simp

/-! ### strip -/
theorem words_dropWhile (p : Char → Bool) (hp : ∀ c, p c = true → ws c = true) (s : Str) :
    words ws (s.dropWhile p) = words ws s := by
  induction s with
  | nil => rfl
  | cons c s ih =>
    simp only [List.dropWhile]
    split
    · rename_i h; rw [ih, words_cons_ws _ _ (hp c h)]
    · rfl

theorem mem_takeWhile_p (p : Char → Bool) (l : List Char) (c : Char) (h : c ∈ l.takeWhile p) : p c = true := by
  induction l with
  | nil => simp at h
  | cons x l ih =>
    simp only [List.takeWhile] at h
    split at h
    · rename_i hx
      rcases List.mem_cons.1 h with rfl | h
      · exact hx
      · exact ih h
    · simp at h

theorem dropWhileEnd_split (p : Char → Bool) (s : Str) :
    ∃ t, s = dropWhileEnd p s ++ t ∧ ∀ c ∈ t, p c = true := by
  refine ⟨(s.reverse.takeWhile p).reverse, ?_, ?_⟩
  · have := List.takeWhile_append_dropWhile (p := p) (l := s.reverse)
    have h2 := congrArg List.reverse this
    simp only [List.reverse_append, List.reverse_reverse] at h2
    exact h2.symm
  · intro c hc
    exact mem_takeWhile_p p _ c (List.mem_reverse.1 hc)

theorem words_dropWhileEnd (p : Char → Bool) (hp : ∀ c, p c = true → ws c = true) (s : Str) :
    words ws (dropWhileEnd p s) = words ws s := by
  obtain ⟨t, h1, h2⟩ := dropWhileEnd_split p s
  conv => rhs; rw [h1]
  exact (words_append_allws _ _ (fun c hc => hp c (h2 c hc))).symm

theorem words_strip (p : Char → Bool) (hp : ∀ c, p c = true → ws c = true) (s : Str) :
    words ws (strip p s) = words ws s := by
  rw [strip, words_dropWhileEnd p hp, words_dropWhile p hp]

/-! ### join -/
theorem words_join (sep : Str) (hne : sep ≠ []) (h : AllWs ws sep) (ts : List Str) :
    words ws (join sep ts) = ts.flatMap (words ws) := by
  induction ts with
  | nil => simp [join, words_nil]
  | cons t r ih =>
    cases r with
    | nil => simp [join]
    | cons y r =>
      rw [join, words_append_seps _ _ _ hne h, ih]
      simp

theorem words_concat_wrapped (c1 c2 : Char) (h1 : ws c1 = true) (h2 : ws c2 = true) (a rest : Str) :
    words ws (c1 :: a ++ c2 :: rest) = words ws a ++ words ws rest := by
  rw [List.cons_append, words_cons_ws _ _ h1, words_append_sep _ _ _ h2]

theorem words_concat_wrapped' (c1 c2 : Char) (h1 : ws c1 = true) (h2 : ws c2 = true) (a rest : Str) :
    words ws (c1 :: (a ++ c2 :: rest)) = words ws a ++ words ws rest := by
  rw [words_cons_ws _ _ h1, words_append_sep _ _ _ h2]

/-! ### `Eqv`: same words in every context (a congruence for `++`) -/
def Eqv (ws : Char → Bool) (a b : Str) : Prop :=
  ∀ pre post : Str, words ws (pre ++ a ++ post) = words ws (pre ++ b ++ post)

theorem Eqv.refl (a : Str) : Eqv ws a a := fun _ _ => rfl
theorem Eqv.symm {a b : Str} (h : Eqv ws a b) : Eqv ws b a := fun p q => (h p q).symm
theorem Eqv.trans {a b c : Str} (h1 : Eqv ws a b) (h2 : Eqv ws b c) : Eqv ws a c :=
  fun p q => (h1 p q).trans (h2 p q)
theorem Eqv.toWords {a b : Str} (h : Eqv ws a b) : words ws a = words ws b := by
  simpa using h [] []
theorem Eqv.append {a a' b b' : Str} (h1 : Eqv ws a a') (h2 : Eqv ws b b') : Eqv ws (a ++ b) (a' ++ b') := by
  intro p q
  have e1 := h1 p (b ++ q)
  have e2 := h2 (p ++ a') q
  simp only [List.append_assoc] at e1 e2 ⊢
  exact e1.trans e2

/-- non-empty all-whitespace wrappers: only the words inside matter -/
theorem Eqv.wrap {s1 s2 s3 s4 a b : Str} (n1 : s1 ≠ []) (n2 : s2 ≠ []) (n3 : s3 ≠ []) (n4 : s4 ≠ [])
    (h1 : AllWs ws s1) (h2 : AllWs ws s2) (h3 : AllWs ws s3) (h4 : AllWs ws s4)
    (h : words ws a = words ws b) : Eqv ws (s1 ++ a ++ s2) (s3 ++ b ++ s4) := by
  intro p q
  have l : ∀ (s s' x : Str), s ≠ [] → s' ≠ [] → AllWs ws s → AllWs ws s' →
      words ws (p ++ (s ++ x ++ s') ++ q) = words ws p ++ words ws x ++ words ws q := by
    intro s s' x n n' hs hs'
    have : p ++ (s ++ x ++ s') ++ q = p ++ s ++ (x ++ s' ++ q) := by simp [List.append_assoc]
    rw [this, words_append_seps _ _ _ n hs, words_append_seps _ _ _ n' hs', List.append_assoc]
  rw [l s1 s2 a n1 n2 h1 h2, l s3 s4 b n3 n4 h3 h4, h]

theorem Eqv.seps {s s' : Str} (n : s ≠ []) (n' : s' ≠ []) (h : AllWs ws s) (h' : AllWs ws s') : Eqv ws s s' := by
  intro p q
  rw [words_append_seps _ _ _ n h, words_append_seps _ _ _ n' h']

/-! ### self-delimiting strings -/
/-- empty, or starting and ending with whitespace -/
def Delim (ws : Char → Bool) (x : Str) : Prop :=
  x = [] ∨ ∃ c1 m c2, x = c1 :: m ++ [c2] ∧ ws c1 = true ∧ ws c2 = true

theorem Delim.nil : Delim ws [] := Or.inl rfl
theorem Delim.wrap (c1 c2 : Char) (m : Str) (h1 : ws c1 = true) (h2 : ws c2 = true) : Delim ws (c1 :: m ++ [c2]) :=
  Or.inr ⟨c1, m, c2, rfl, h1, h2⟩

theorem Delim.append {x y : Str} (hx : Delim ws x) (hy : Delim ws y) : Delim ws (x ++ y) := by
  rcases hx with rfl | ⟨c1, m, c2, rfl, h1, h2⟩
  · simpa using hy
  · rcases hy with rfl | ⟨d1, n, d2, rfl, g1, g2⟩
    · simpa using Delim.wrap c1 c2 m h1 h2
    · refine Or.inr ⟨c1, m ++ [c2] ++ d1 :: n, d2, by simp, h1, g2⟩

theorem Delim.words_append {x : Str} (hx : Delim ws x) (pre post : Str) :
    words ws (pre ++ x ++ post) = words ws pre ++ words ws x ++ words ws post ∨ x = [] := by
  rcases hx with rfl | ⟨c1, m, c2, rfl, h1, h2⟩
  · exact Or.inr rfl
  · left
    have e : pre ++ (c1 :: m ++ [c2]) ++ post = pre ++ c1 :: (m ++ c2 :: post) := by simp
    rw [e, words_append_sep _ _ _ h1, words_append_sep _ _ _ h2, List.cons_append, words_cons_ws _ _ h1,
      words_append_ws_end _ _ h2, List.append_assoc]

theorem Delim.words_right {x : Str} (hx : Delim ws x) (post : Str) :
    words ws (x ++ post) = words ws x ++ words ws post := by
  rcases hx.words_append [] post with h | h
  · simpa [words_nil] using h
  · subst h; simp [words_nil]

theorem Delim.words_left {x : Str} (hx : Delim ws x) (pre : Str) :
    words ws (pre ++ x) = words ws pre ++ words ws x := by
  rcases hx.words_append pre [] with h | h
  · simpa [words_nil] using h
  · subst h; simp [words_nil]

/-! ### whitespace-run rewriting -/
theorem collapseAux_eqv (s : Str) (hsp : ws ' ' = true) :
    (∀ pre post : Str, words ws (pre ++ (collapseAux ws false s ++ post)) = words ws (pre ++ (s ++ post))) ∧
    (∀ pre post : Str, ∀ w : Char, ws w = true →
      words ws (pre ++ (w :: (collapseAux ws true s ++ post))) = words ws (pre ++ (w :: (s ++ post)))) := by
  induction s with
  | nil => simp [collapseAux]
  | cons c s ih =>
    obtain ⟨ih1, ih2⟩ := ih
    constructor
    · intro pre post
      by_cases hc : ws c = true
      · simp only [collapseAux, hc, if_true, Bool.false_eq_true, if_false, List.cons_append]
        rw [ih2 pre post ' ' hsp, words_append_sep _ _ _ hsp, words_append_sep _ _ _ hc]
      · simp only [collapseAux, hc, Bool.false_eq_true, if_false, List.cons_append]
        have := ih1 (pre ++ [c]) post
        simpa [List.append_assoc] using this
    · intro pre post w hw
      by_cases hc : ws c = true
      · simp only [collapseAux, hc, if_true, List.cons_append]
        rw [ih2 pre post w hw, words_append_sep _ _ _ hw, words_append_sep _ _ _ hw, words_cons_ws _ _ hc]
      · simp only [collapseAux, hc, Bool.false_eq_true, if_false, List.cons_append]
        have := ih1 (pre ++ [w, c]) post
        simpa [List.append_assoc] using this

theorem collapse_eqv (s : Str) (hsp : ws ' ' = true) : Eqv ws (collapse ws s) s := by
  intro pre post
  have := (collapseAux_eqv (ws := ws) s hsp).1 pre post
  simpa [collapse, List.append_assoc] using this

theorem words_collapse (s : Str) (hsp : ws ' ' = true) : words ws (collapse ws s) = words ws s :=
  (collapse_eqv s hsp).toWords

theorem words_replicate_append (n : Nat) (c : Char) (hc : ws c = true) (b : Str) :
    words ws (List.replicate n c ++ b) = words ws b :=
  words_allws_append _ _ (by intro x hx; rw [List.eq_of_mem_replicate hx]; exact hc)

theorem squeezeNlAux_words (hnl : ws '\n' = true) (s : Str) (n : Nat) (pre : Str) :
    words ws (pre ++ squeezeNlAux n s) = words ws (pre ++ List.replicate n '\n' ++ s) := by
  induction s generalizing n pre with
  | nil =>
    simp only [squeezeNlAux, List.append_nil]
    rw [words_append_allws, words_append_allws]
    all_goals (intro x hx; rw [List.eq_of_mem_replicate hx]; exact hnl)
  | cons c s ih =>
    simp only [squeezeNlAux]
    split
    · rename_i h
      subst h
      rw [ih (n + 1) pre]
      simp [List.replicate_succ', List.append_assoc]
    · have e := ih 0 (pre ++ List.replicate (if n ≥ 3 then 2 else n) '\n' ++ [c])
      simp only [List.replicate_zero, List.append_nil, List.append_assoc, List.cons_append,
        List.nil_append] at e ⊢
      rw [e]
      by_cases hn : n = 0
      · subst hn; simp
      · have n1 : List.replicate (if n ≥ 3 then 2 else n) '\n' ≠ [] := by
          simp; split <;> omega
        have n2 : List.replicate n '\n' ≠ [] := by simp [hn]
        have a1 : AllWs ws (List.replicate (if n ≥ 3 then 2 else n) '\n') := by
          intro x hx; rw [List.eq_of_mem_replicate hx]; exact hnl
        have a2 : AllWs ws (List.replicate n '\n') := by
          intro x hx; rw [List.eq_of_mem_replicate hx]; exact hnl
        have := words_append_seps (ws := ws) pre _ (c :: s) n1 a1
        have := words_append_seps (ws := ws) pre _ (c :: s) n2 a2
        simp only [List.append_assoc] at *
        simp_all

theorem words_squeezeNl (hnl : ws '\n' = true) (s : Str) : words ws (squeezeNl s) = words ws s := by
  have := squeezeNlAux_words (ws := ws) hnl s 0 []
  simpa [squeezeNl] using this

theorem splitOnAux_ne_nil (c : Char) (s cur : Str) : ∃ y r, splitOnAux c s cur = y :: r := by
  induction s generalizing cur with
  | nil => exact ⟨cur, [], rfl⟩
  | cons x s ih =>
    simp only [splitOnAux]
    split
    · exact ⟨cur, _, rfl⟩
    · exact ih _

theorem join_splitOnAux (c : Char) (s cur : Str) : join [c] (splitOnAux c s cur) = cur ++ s := by
  induction s generalizing cur with
  | nil => simp [splitOnAux, join]
  | cons x s ih =>
    simp only [splitOnAux]
    split
    · rename_i h
      subst h
      obtain ⟨y, r, hy⟩ := splitOnAux_ne_nil x s []
      have := ih []
      rw [hy] at this
      rw [hy, join, this]
      simp
    · rw [ih]; simp

theorem join_splitOn (c : Char) (s : Str) : join [c] (splitOn c s) = s := by
  simpa [splitOn] using join_splitOnAux c s []

/-- `"\n".join(line.strip() for line in s.split("\n"))` keeps the words -/
theorem words_strip_lines (hnl : ws '\n' = true) (s : Str) :
    words ws (join ['\n'] ((splitOn '\n' s).map (strip ws))) = words ws s := by
  have hall : AllWs ws ['\n'] := by intro x hx; simp at hx; subst hx; exact hnl
  rw [words_join _ (by simp) hall]
  conv => rhs; rw [← join_splitOn '\n' s, words_join _ (by simp) hall]
  induction splitOn '\n' s with
  | nil => rfl
  | cons l r ih => simp [words_strip ws (fun _ h => h), ih]

theorem words_ljust (hsp : ws ' ' = true) (n : Nat) (s : Str) : words ws (ljust n s) = words ws s :=
  words_append_allws _ _ (by intro x hx; rw [List.eq_of_mem_replicate hx]; exact hsp)

theorem words_rjust (hsp : ws ' ' = true) (n : Nat) (s : Str) : words ws (rjust n s) = words ws s :=
  words_replicate_append _ _ hsp _

end S2T.C02.Ooxml
