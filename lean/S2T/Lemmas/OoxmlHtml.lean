import S2T.Spec.OoxmlHtml
import S2T.Lemmas.OoxmlLin
/-! C02 (part "ooxml"): the HTML walker on rendered documents. -/
namespace S2T.C02.Ooxml.Html
open S2T.C02.Ooxml
open S2T.HtmlSkip.Tree (Node)

/-- a tag that takes the generic branch of `_process_node` -/
structure Generic (T : Tables) (tag : Str) : Prop where
  nr : tag ∉ T.remove
  nt : tag ≠ sTable
  nl : tag ≠ sLi
  nh : tag ∉ headings
  nb : tag ≠ sBr
  nhr : tag ≠ sHr

/-- what the theorems need of REMOVE_TAGS / BLOCK_TAGS / _CELL_BREAK_TAGS (decided on the generated tables) -/
structure HtmlOk (T : Tables) : Prop where
  span : Generic T "span".toList
  a : Generic T "a".toList
  ins : Generic T "ins".toList
  p : Generic T "p".toList
  div : Generic T "div".toList
  ul : Generic T "ul".toList
  spanB : "span".toList ∉ T.block
  aB : "a".toList ∉ T.block
  insB : "ins".toList ∉ T.block
  pB : "p".toList ∈ T.block
  divB : "div".toList ∈ T.block
  ulB : "ul".toList ∈ T.block
  spanK : "span".toList ∉ T.breaks
  aK : "a".toList ∉ T.breaks
  insK : "ins".toList ∉ T.breaks
  tbodyK : "tbody".toList ∉ T.breaks
  pK : "p".toList ∈ T.breaks
  divK : "div".toList ∈ T.breaks
  ulK : "ul".toList ∈ T.breaks
  liK : sLi ∈ T.breaks
  tableK : sTable ∈ T.breaks
  trK : sTr ∈ T.breaks
  tdK : sTd ∈ T.breaks
  brK : sBr ∈ T.breaks
  hK : ∀ h ∈ headings, h ∈ T.breaks
  hR : ∀ h ∈ headings, h ∉ T.remove
  liR : sLi ∉ T.remove
  tableR : sTable ∉ T.remove
  brR : sBr ∉ T.remove

/-- the decoration characters are not whitespace -/
structure DecoOk (ws : Char → Bool) : Prop where
  dash : ws '-' = false
  pipe : ws '|' = false

variable {T : Tables} {ws : Char → Bool}

theorem hTag_mem (n : Nat) : hTag n ∈ headings := by
  unfold hTag
  split <;> decide

theorem headings_ne_table : ∀ h ∈ headings, h ≠ sTable := by decide
theorem headings_ne_li : ∀ h ∈ headings, h ≠ sLi := by decide

/-! ### shape of the walkers on each kind of node -/

theorem cellKids_append (a b : List Node) : cellKids T (a ++ b) = cellKids T a ++ cellKids T b := by
  induction a with
  | nil => simp [cellKids]
  | cons x a ih => cases x with | mk t at1 tx k tl => simp [cellKids, ih]

theorem procKids_append (d : Nat) (a b : List Node) :
    procKids T ws d (a ++ b) = procKids T ws d a ++ procKids T ws d b := by
  induction a with
  | nil => simp [procKids]
  | cons x a ih => simp [procKids, ih]

theorem proc_generic {tag : Str} (g : Generic T tag) (d : Nat) (it : Bool) (a : List (Str × Str)) (text : Str)
    (kids : List Node) (tail : Str) :
    procNode T ws d it (.mk tag a text kids tail) =
      (if T.block.contains tag then '\n' :: strip ws (text ++ procKids T ws d kids) ++ ['\n']
       else text ++ procKids T ws d kids) ++ (if it then tail else []) := by
  simp [procNode, g.nr, g.nt, g.nl, g.nh, g.nb, g.nhr]


/-! ### `_get_cell_text` (flattening) on rendered content -/

theorem kids_inline {tag : Str} (h : tag ∉ T.breaks) (a : List (Str × Str)) (text : Str) (kids : List Node) :
    cellKids T [.mk tag a text kids []] = text ++ cellKids T kids := by
  simp [cellKids, h]

theorem kids_break {tag : Str} (h : tag ∈ T.breaks) (a : List (Str × Str)) (text : Str) (kids : List Node) :
    cellKids T [.mk tag a text kids []] = ' ' :: (text ++ cellKids T kids) ++ [' '] := by
  simp [cellKids, h]

theorem kids_cons (n : Node) (r : List Node) : cellKids T (n :: r) = cellKids T [n] ++ cellKids T r := by
  have := cellKids_append (T := T) [n] r
  simpa using this

theorem words_nl_wrap (hw : WsOk ws) (x : Str) : words ws ('\n' :: x ++ ['\n']) = words ws x := by
  rw [List.cons_append, words_cons_ws _ _ hw.nl, words_append_ws_end _ _ hw.nl]

theorem words_sp_wrap (hw : WsOk ws) (x : Str) : words ws (' ' :: x ++ [' ']) = words ws x := by
  rw [List.cons_append, words_cons_ws _ _ hw.sp, words_append_ws_end _ _ hw.sp]

theorem eqv_nl_sp (hw : WsOk ws) {x y : Str} (h : words ws x = words ws y) :
    Eqv ws ('\n' :: x ++ ['\n']) (' ' :: y ++ [' ']) := by
  have := Eqv.wrap (ws := ws) (s1 := ['\n']) (s2 := ['\n']) (s3 := [' ']) (s4 := [' ']) (a := x) (b := y)
    (by simp) (by simp) (by simp) (by simp) (allws_nl hw) (allws_nl hw) (allws_sp hw) (allws_sp hw) h
  simpa using this

theorem eqv_sp_sp (hw : WsOk ws) {x y : Str} (h : words ws x = words ws y) :
    Eqv ws (' ' :: x ++ [' ']) (' ' :: y ++ [' ']) := by
  have := Eqv.wrap (ws := ws) (s1 := [' ']) (s2 := [' ']) (s3 := [' ']) (s4 := [' ']) (a := x) (b := y)
    (by simp) (by simp) (by simp) (by simp) (allws_sp hw) (allws_sp hw) (allws_sp hw) (allws_sp hw) h
  simpa using this

mutual
theorem flat_I (ok : HtmlOk T) (hw : WsOk ws) : ∀ x : Inline, Eqv ws (cellKids T (renderI x)) (linI fmtHtml ws x)
  | .text s => by
    simp only [renderI, elem, kids_inline ok.spanK, cellKids, List.append_nil, linI]
    exact Eqv.refl _
  | .tab => by
    simp only [renderI, elem, kids_inline ok.spanK, cellKids, List.append_nil, linI]
    exact Eqv.seps (by simp) (by simp) (by intro c hc; simp at hc; subst hc; exact hw.tab) (allws_sp hw)
  | .br => by
    simp only [renderI, kids_break ok.brK, cellKids, List.append_nil, linI]
    exact Eqv.seps (by simp) (by simp) (by intro c hc; simp at hc; rcases hc with rfl | rfl <;> exact hw.sp) (allws_sp hw)
  | .link _ xs => by
    simp only [renderI, elem, kids_inline ok.aK, List.nil_append, linI]
    exact flat_Is ok hw xs
  | .ins xs => by
    simp only [renderI, elem, kids_inline ok.insK, List.nil_append, linI]
    exact flat_Is ok hw xs
  | .del _ => by simp only [renderI, cellKids, linI]; exact Eqv.refl _
  | .ctl xs => by simp only [renderI, linI]; exact flat_Is ok hw xs
  | .mark _ => by
    simp only [renderI, elem, kids_inline ok.aK, cellKids, List.append_nil, linI]
    exact Eqv.refl _
  | .box bs => by
    simp only [renderI, elem, kids_break ok.divK, List.nil_append, linI, fmtHtml, if_true]
    exact eqv_sp_sp hw (flat_Bs ok hw bs).1
theorem flat_Is (ok : HtmlOk T) (hw : WsOk ws) : ∀ xs : List Inline, Eqv ws (cellKids T (renderIs xs)) (linIs fmtHtml ws xs)
  | [] => by simp only [renderIs, cellKids, linIs]; exact Eqv.refl _
  | x :: r => by
    simp only [renderIs, cellKids_append, linIs]
    exact Eqv.append (flat_I ok hw x) (flat_Is ok hw r)
theorem flat_B (ok : HtmlOk T) (hw : WsOk ws) : ∀ b : Block,
    words ws (cellKids T (renderB b)) = words ws (linB fmtHtml ws b) ∧ Delim ws (cellKids T (renderB b))
  | .para _ xs => by
    simp only [renderB, elem, kids_break ok.pK, List.nil_append, linB]
    exact ⟨by rw [words_sp_wrap hw, words_sp_wrap hw]; exact (flat_Is ok hw xs).toWords, Delim.wrap _ _ _ hw.sp hw.sp⟩
  | .heading n xs => by
    simp only [renderB, kids_break (ok.hK _ (hTag_mem n)), List.nil_append, linB]
    exact ⟨by rw [words_sp_wrap hw, words_sp_wrap hw]; exact (flat_Is ok hw xs).toWords, Delim.wrap _ _ _ hw.sp hw.sp⟩
  | .list items => by
    simp only [renderB, elem, kids_break ok.ulK, List.nil_append, linB]
    exact ⟨by rw [words_sp_wrap hw]; exact (flat_Items ok hw items).1, Delim.wrap _ _ _ hw.sp hw.sp⟩
  | .table rows => by
    simp only [renderB, elem, kids_break ok.tableK, kids_inline ok.tbodyK, List.nil_append, linB]
    exact ⟨by rw [words_sp_wrap hw]; exact (flat_Rows ok hw rows).1, Delim.wrap _ _ _ hw.sp hw.sp⟩
  | .ctl bs => by simp only [renderB, linB]; exact flat_Bs ok hw bs
theorem flat_Bs (ok : HtmlOk T) (hw : WsOk ws) : ∀ bs : List Block,
    words ws (cellKids T (renderBs bs)) = words ws (linBs fmtHtml ws bs) ∧ Delim ws (cellKids T (renderBs bs))
  | [] => by simp only [renderBs, cellKids, linBs]; exact ⟨trivial, Delim.nil⟩
  | b :: r => by
    have hb := flat_B ok hw b
    have hr := flat_Bs ok hw r
    simp only [renderBs, cellKids_append, linBs]
    exact ⟨by rw [hb.2.words_right, (delim_B fmtHtml hw b).words_right, hb.1, hr.1], hb.2.append hr.2⟩
theorem flat_Items (ok : HtmlOk T) (hw : WsOk ws) : ∀ its : List (List Block),
    words ws (cellKids T (renderItems its)) = words ws (linCells fmtHtml ws its) ∧ Delim ws (cellKids T (renderItems its))
  | [] => by simp only [renderItems, cellKids, linCells]; exact ⟨trivial, Delim.nil⟩
  | it :: r => by
    have hb := flat_Bs ok hw it
    have hr := flat_Items ok hw r
    rw [renderItems, kids_cons, kids_break ok.liK]
    simp only [List.nil_append, linCells]
    have hd : Delim ws (' ' :: cellKids T (renderBs it) ++ [' ']) := Delim.wrap _ _ _ hw.sp hw.sp
    exact ⟨by rw [hd.words_right, (delim_Bs fmtHtml hw it).words_right, words_sp_wrap hw, hb.1, hr.1], hd.append hr.2⟩
theorem flat_Cells (ok : HtmlOk T) (hw : WsOk ws) : ∀ cs : List (List Block),
    words ws (cellKids T (renderCells cs)) = words ws (linCells fmtHtml ws cs) ∧ Delim ws (cellKids T (renderCells cs))
  | [] => by simp only [renderCells, cellKids, linCells]; exact ⟨trivial, Delim.nil⟩
  | c :: r => by
    have hb := flat_Bs ok hw c
    have hr := flat_Cells ok hw r
    rw [renderCells, kids_cons, kids_break ok.tdK]
    simp only [List.nil_append, linCells]
    have hd : Delim ws (' ' :: cellKids T (renderBs c) ++ [' ']) := Delim.wrap _ _ _ hw.sp hw.sp
    exact ⟨by rw [hd.words_right, (delim_Bs fmtHtml hw c).words_right, words_sp_wrap hw, hb.1, hr.1], hd.append hr.2⟩
theorem flat_Rows (ok : HtmlOk T) (hw : WsOk ws) : ∀ rows : List (List (List Block)),
    words ws (cellKids T (renderRows rows)) = words ws (linRows fmtHtml ws rows) ∧ Delim ws (cellKids T (renderRows rows))
  | [] => by simp only [renderRows, cellKids, linRows]; exact ⟨trivial, Delim.nil⟩
  | row :: r => by
    have hb := flat_Cells ok hw row
    have hr := flat_Rows ok hw r
    rw [renderRows, kids_cons, kids_break ok.trK]
    simp only [List.nil_append, linRows]
    have hd : Delim ws (' ' :: cellKids T (renderCells row) ++ [' ']) := Delim.wrap _ _ _ hw.sp hw.sp
    exact ⟨by rw [hd.words_right, (delim_Cells fmtHtml hw row).words_right, words_sp_wrap hw, hb.1, hr.1], hd.append hr.2⟩
end


/-! ### tables: `_extract_table` + `_format_table_as_text` -/

/-- text of one cell as `_extract_table` stores it -/
def cellOf (T : Tables) (ws : Char → Bool) (c : List Block) : Str :=
  collapse ws (strip ws (cellKids T (renderBs c)))

theorem cellOf_nil : cellOf T ws [] = [] := by
  simp [cellOf, renderBs, cellKids, strip, dropWhileEnd, collapse, collapseAux]

theorem rowCells_render (cs : List (List Block)) : rowCells T ws (renderCells cs) = cs.map (cellOf T ws) := by
  induction cs with
  | nil => simp [renderCells, rowCells]
  | cons c r ih => simp [renderCells, rowCells, ih, cellOf, cellText, sTd]

theorem tableData_append (a b : List Node) : tableData T ws (a ++ b) = tableData T ws a ++ tableData T ws b := by
  induction a with
  | nil => simp [tableData]
  | cons x a ih => cases x with | mk t at1 tx k tl => simp [tableData, ih]

/-- a node that is neither a table nor a row: `_find_own_rows` only looks inside -/
theorem tableData_plain {tag : Str} (h1 : tag ≠ sTable) (h2 : tag ≠ sTr) (a : List (Str × Str)) (text : Str)
    (kids : List Node) (tail : Str) :
    tableData T ws [.mk tag a text kids tail] = tableData T ws kids := by
  simp [tableData, h1, h2]

/-- a nested table is skipped -/
theorem tableData_table (a : List (Str × Str)) (text : Str) (kids : List Node) (tail : Str) :
    tableData T ws [.mk sTable a text kids tail] = [] := by
  simp [tableData]

theorem tableData_cons (n : Node) (r : List Node) : tableData T ws (n :: r) = tableData T ws [n] ++ tableData T ws r := by
  have := tableData_append (T := T) (ws := ws) [n] r
  simpa using this

theorem li_ne_table : sLi ≠ sTable := by decide
theorem br_ne_table : sBr ≠ sTable := by decide
theorem headings_ne_tr : ∀ h ∈ headings, h ≠ sTr := by decide
theorem tr_ne_table : sTr ≠ sTable := by decide
theorem td_ne_table : sTd ≠ sTable := by decide
theorem td_ne_tr : sTd ≠ sTr := by decide
theorem li_ne_tr : sLi ≠ sTr := by decide
theorem br_ne_tr : sBr ≠ sTr := by decide
theorem tbody_ne_tr : "tbody".toList ≠ sTr := by decide
theorem tbody_ne_table : "tbody".toList ≠ sTable := by decide
theorem span_ne : "span".toList ≠ sTable ∧ "span".toList ≠ sTr := by decide
theorem a_ne : "a".toList ≠ sTable ∧ "a".toList ≠ sTr := by decide
theorem ins_ne : "ins".toList ≠ sTable ∧ "ins".toList ≠ sTr := by decide
theorem div_ne : "div".toList ≠ sTable ∧ "div".toList ≠ sTr := by decide
theorem p_ne : "p".toList ≠ sTable ∧ "p".toList ≠ sTr := by decide
theorem ul_ne : "ul".toList ≠ sTable ∧ "ul".toList ≠ sTr := by decide

/-! rendered content has no `tr` outside a (nested) table: the only rows `_find_own_rows` finds below a
    rendered cell are none, so a nested table's rows never leak into the outer table -/
mutual
theorem norows_I : ∀ x : Inline, tableData T ws (renderI x) = []
  | .text _ => by simp only [renderI, elem, tableData_plain span_ne.1 span_ne.2, tableData]
  | .tab => by simp only [renderI, elem, tableData_plain span_ne.1 span_ne.2, tableData]
  | .br => by simp only [renderI, tableData_plain br_ne_table br_ne_tr, tableData]
  | .link _ xs => by simp only [renderI, elem, tableData_plain a_ne.1 a_ne.2]; exact norows_Is xs
  | .ins xs => by simp only [renderI, elem, tableData_plain ins_ne.1 ins_ne.2]; exact norows_Is xs
  | .del _ => by simp only [renderI, tableData]
  | .ctl xs => by simp only [renderI]; exact norows_Is xs
  | .mark _ => by simp only [renderI, elem, tableData_plain a_ne.1 a_ne.2, tableData]
  | .box bs => by simp only [renderI, elem, tableData_plain div_ne.1 div_ne.2]; exact norows_Bs bs
theorem norows_Is : ∀ xs : List Inline, tableData T ws (renderIs xs) = []
  | [] => by simp only [renderIs, tableData]
  | x :: r => by simp only [renderIs, tableData_append, norows_I x, norows_Is r, List.append_nil]
theorem norows_B : ∀ b : Block, tableData T ws (renderB b) = []
  | .para _ xs => by simp only [renderB, elem, tableData_plain p_ne.1 p_ne.2]; exact norows_Is xs
  | .heading n xs => by
    simp only [renderB, tableData_plain (headings_ne_table _ (hTag_mem n)) (headings_ne_tr _ (hTag_mem n))]
    exact norows_Is xs
  | .list items => by simp only [renderB, elem, tableData_plain ul_ne.1 ul_ne.2]; exact norows_Items items
  | .table _ => by simp only [renderB, tableData_table]
  | .ctl bs => by simp only [renderB]; exact norows_Bs bs
theorem norows_Bs : ∀ bs : List Block, tableData T ws (renderBs bs) = []
  | [] => by simp only [renderBs, tableData]
  | b :: r => by simp only [renderBs, tableData_append, norows_B b, norows_Bs r, List.append_nil]
theorem norows_Items : ∀ its : List (List Block), tableData T ws (renderItems its) = []
  | [] => by simp only [renderItems, tableData]
  | it :: r => by
    rw [renderItems, tableData_cons, tableData_plain li_ne_table li_ne_tr, norows_Bs it, norows_Items r]; rfl
end

theorem norows_Cells : ∀ cs : List (List Block), tableData T ws (renderCells cs) = []
  | [] => by simp only [renderCells, tableData]
  | c :: r => by
    rw [renderCells, tableData_cons, tableData_plain td_ne_table td_ne_tr, norows_Bs c, norows_Cells r]; rfl

theorem tableData_render (rows : List (List (List Block))) :
    tableData T ws (renderRows rows) = (rows.filter (fun r => !r.isEmpty)).map (fun r => r.map (cellOf T ws)) := by
  induction rows with
  | nil => simp [renderRows, tableData]
  | cons row r ih =>
    rw [renderRows, tableData_cons, ih]
    simp only [tableData, tr_ne_table, if_false, if_true, rowCells_render, norows_Cells, List.append_nil]
    cases row <;> simp

theorem tableData_tbody (rows : List (List (List Block))) :
    tableData T ws [elem "tbody" [] [] (renderRows rows)] = tableData T ws (renderRows rows) := by
  simp only [elem, tableData_plain tbody_ne_table tbody_ne_tr]

theorem foldl_max_len_map {α β : Type} (f : α → β) (R : List (List α)) (m : Nat) :
    (R.map (fun r => r.map f)).foldl (fun m r => max m r.length) m = R.foldl (fun m r => max m r.length) m := by
  induction R generalizing m with
  | nil => rfl
  | cons r R ih => simp [ih]

theorem foldl_max_len_filter {α : Type} (R : List (List α)) (m : Nat) :
    (R.filter (fun r => !r.isEmpty)).foldl (fun m r => max m r.length) m = R.foldl (fun m r => max m r.length) m := by
  induction R generalizing m with
  | nil => rfl
  | cons r R ih =>
    cases r with
    | nil => simp [ih]
    | cons x r => simp [ih]

theorem words_join_pipe_congr (hw : WsOk ws) {ι : Type} (F G : ι → Str) (is : List ι)
    (h : ∀ i, words ws (F i) = words ws (G i)) :
    words ws (join " | ".toList (is.map F)) = words ws (join " | ".toList (is.map G)) := by
  induction is with
  | nil => rfl
  | cons i r ih =>
    cases r with
    | nil => simpa [join] using h i
    | cons j r =>
      have e : ∀ (x y : Str), words ws (x ++ " | ".toList ++ y) = words ws x ++ words ws ('|' :: ' ' :: y) := by
        intro x y
        have : x ++ " | ".toList ++ y = x ++ ' ' :: ('|' :: ' ' :: y) := by simp
        rw [this, words_append_sep _ _ _ hw.sp]
      simp only [List.map_cons, join] at ih ⊢
      rw [e, e, h i]
      congr 1
      have e2 : ∀ y : Str, words ws ('|' :: ' ' :: y) = words ws ['|'] ++ words ws y := by
        intro y
        have := words_append_sep (ws := ws) ['|'] ' ' y hw.sp
        simpa using this
      rw [e2, e2, ih]

theorem getD_map_default {α β : Type} (f : α → β) (l : List α) (i : Nat) (d : α) :
    (l.map f).getD i (f d) = f (l.getD i d) := by
  induction l generalizing i with
  | nil => simp
  | cons x l ih => cases i <;> simp [ih]

/-- one printed table line has the words of the spec's row -/
theorem words_line (ok : HtmlOk T) (hw : WsOk ws) (n : Nat) (W : Nat → Nat) (r : List (List Block)) :
    words ws (dropWhileEnd ws (join " | ".toList ((List.range n).map fun i => ljust (W i) ((r.map (cellOf T ws)).getD i []))))
      = words ws (hrow ws n r) := by
  rw [words_dropWhileEnd ws (fun _ h => h), hrow]
  apply words_join_pipe_congr hw
  intro i
  rw [words_ljust hw.sp]
  have := getD_map_default (cellOf T ws) r i []
  rw [cellOf_nil] at this
  rw [this, cellOf, words_collapse _ hw.sp, words_strip ws (fun _ h => h)]
  exact (flat_Bs ok hw _).1

theorem words_hrows (hw : WsOk ws) (n : Nat) (rows : List (List (List Block))) :
    words ws (hrows ws n rows) = (rows.filter (fun r => !r.isEmpty)).flatMap (fun r => words ws (hrow ws n r)) := by
  induction rows with
  | nil => simp [hrows, words_nil]
  | cons row r ih =>
    simp only [hrows]
    cases row with
    | nil => simpa using ih
    | cons c cs =>
      have hd : Delim ws (' ' :: hrow ws n (c :: cs) ++ [' ']) := Delim.wrap _ _ _ hw.sp hw.sp
      simp only [List.isEmpty_cons, Bool.false_eq_true, if_false]
      rw [hd.words_right, words_sp_wrap hw, ih]
      simp

theorem words_formatTable (ok : HtmlOk T) (hw : WsOk ws) (rows : List (List (List Block))) :
    words ws (formatTable ws (tableData T ws [elem "tbody" [] [] (renderRows rows)])) =
      words ws (hrows ws (numCols rows) rows) := by
  rw [tableData_tbody, tableData_render, words_hrows hw]
  generalize hR : rows.filter (fun r => !r.isEmpty) = R
  unfold formatTable
  by_cases hne : R = []
  · subst hne; simp [words_nil]
  · have e : (R.map (fun r => r.map (cellOf T ws))).isEmpty = false := by
      cases R <;> simp_all
    simp only [e, Bool.false_eq_true, if_false]
    rw [words_join _ (by simp) (allws_nl hw), foldl_max_len_map, ← hR, foldl_max_len_filter, hR]
    simp only [List.flatMap_map]
    have hn : rows.foldl (fun m r => max m r.length) 0 = numCols rows := rfl
    rw [hn]
    congr 1
    funext r
    exact words_line ok hw _ _ r


/-! ### `_process_node` on rendered content -/

theorem proc_inline {tag : Str} (g : Generic T tag) (hb : tag ∉ T.block) (d : Nat) (a : List (Str × Str)) (text : Str)
    (kids : List Node) :
    procNode T ws d true (.mk tag a text kids []) = text ++ procKids T ws d kids := by
  simp [procNode, g.nr, g.nt, g.nl, g.nh, g.nb, g.nhr, hb]

theorem proc_block {tag : Str} (g : Generic T tag) (hb : tag ∈ T.block) (d : Nat) (a : List (Str × Str)) (text : Str)
    (kids : List Node) :
    procNode T ws d true (.mk tag a text kids []) = '\n' :: strip ws (text ++ procKids T ws d kids) ++ ['\n'] := by
  simp [procNode, g.nr, g.nt, g.nl, g.nh, g.nb, g.nhr, hb]

theorem br_ne_li : sBr ≠ sLi := by decide
theorem br_not_heading : sBr ∉ headings := by decide

theorem proc_li (ok : HtmlOk T) (d : Nat) (kids : List Node) :
    procNode T ws d true (.mk sLi [] [] kids []) =
      List.replicate (2 * d) ' ' ++ '-' :: ' ' :: collapse ws (strip ws (procKids T ws (d + 1) kids)) ++ ['\n'] := by
  simp [procNode, ok.liR, li_ne_table]

theorem proc_heading (ok : HtmlOk T) {h : Str} (hh : h ∈ headings) (d : Nat) (kids : List Node) :
    procNode T ws d true (.mk h [] [] kids []) = '\n' :: collapse ws (strip ws (cellKids T kids)) ++ ['\n'] := by
  simp [procNode, ok.hR h hh, headings_ne_table h hh, headings_ne_li h hh, hh]

theorem proc_br (ok : HtmlOk T) (d : Nat) : procNode T ws d true (.mk sBr [] [] [] []) = ['\n'] := by
  simp [procNode, ok.brR, br_ne_table, br_ne_li, br_not_heading]

theorem proc_table (ok : HtmlOk T) (d : Nat) (kids : List Node) :
    procNode T ws d true (.mk sTable [] [] kids []) = '\n' :: formatTable ws (tableData T ws kids) ++ ['\n'] := by
  simp [procNode, ok.tableR]

theorem procKids_single (d : Nat) (n : Node) : procKids T ws d [n] = procNode T ws d true n := by
  simp [procKids]

theorem procKids_cons (d : Nat) (n : Node) (r : List Node) :
    procKids T ws d (n :: r) = procNode T ws d true n ++ procKids T ws d r := by
  simp [procKids]

mutual
theorem hdelim_B (hw : WsOk ws) : ∀ b : Block, Delim ws (hlinB ws b)
  | .para _ _ => by simp only [hlinB]; exact Delim.wrap _ _ _ hw.sp hw.sp
  | .heading _ _ => by simp only [hlinB]; exact Delim.wrap _ _ _ hw.sp hw.sp
  | .list _ => by simp only [hlinB]; exact Delim.wrap _ _ _ hw.sp hw.sp
  | .table _ => by simp only [hlinB]; exact Delim.wrap _ _ _ hw.sp hw.sp
  | .ctl bs => by simp only [hlinB]; exact hdelim_Bs hw bs
theorem hdelim_Bs (hw : WsOk ws) : ∀ bs : List Block, Delim ws (hlinBs ws bs)
  | [] => by simp only [hlinBs]; exact Delim.nil
  | b :: r => by simp only [hlinBs]; exact (hdelim_B hw b).append (hdelim_Bs hw r)
end

theorem words_dash (hd : DecoOk ws) (hw : WsOk ws) (x : Str) :
    words ws ('-' :: ' ' :: x) = ['-'] :: words ws x := by
  have := words_append_sep (ws := ws) ['-'] ' ' x hw.sp
  rw [words_token ['-'] (by simp) (by intro c hc; simp at hc; subst hc; exact hd.dash)] at this
  simpa using this

mutual
theorem proc_I (ok : HtmlOk T) (hw : WsOk ws) (hd : DecoOk ws) : ∀ (x : Inline) (d : Nat),
    Eqv ws (procKids T ws d (renderI x)) (hlinI ws x)
  | .text s, d => by
    simp only [renderI, elem, procKids_single, proc_inline ok.span ok.spanB, procKids, List.append_nil, hlinI]
    exact Eqv.refl _
  | .tab, d => by
    simp only [renderI, elem, procKids_single, proc_inline ok.span ok.spanB, procKids, List.append_nil, hlinI]
    exact Eqv.seps (by simp) (by simp) (by intro c hc; simp at hc; subst hc; exact hw.tab) (allws_sp hw)
  | .br, d => by
    simp only [renderI, procKids_single, proc_br ok, hlinI]
    exact Eqv.seps (by simp) (by simp) (allws_nl hw) (allws_sp hw)
  | .link _ xs, d => by
    simp only [renderI, elem, procKids_single, proc_inline ok.a ok.aB, List.nil_append, hlinI]
    exact proc_Is ok hw hd xs d
  | .ins xs, d => by
    simp only [renderI, elem, procKids_single, proc_inline ok.ins ok.insB, List.nil_append, hlinI]
    exact proc_Is ok hw hd xs d
  | .del _, d => by simp only [renderI, procKids, hlinI]; exact Eqv.refl _
  | .ctl xs, d => by simp only [renderI, hlinI]; exact proc_Is ok hw hd xs d
  | .mark _, d => by
    simp only [renderI, elem, procKids_single, proc_inline ok.a ok.aB, procKids, List.append_nil, hlinI]
    exact Eqv.refl _
  | .box bs, d => by
    simp only [renderI, elem, procKids_single, proc_block ok.div ok.divB, List.nil_append, hlinI]
    exact eqv_nl_sp hw (by rw [words_strip ws (fun _ h => h)]; exact (proc_Bs ok hw hd bs d).1)
theorem proc_Is (ok : HtmlOk T) (hw : WsOk ws) (hd : DecoOk ws) : ∀ (xs : List Inline) (d : Nat),
    Eqv ws (procKids T ws d (renderIs xs)) (hlinIs ws xs)
  | [], d => by simp only [renderIs, procKids, hlinIs]; exact Eqv.refl _
  | x :: r, d => by
    simp only [renderIs, procKids_append, hlinIs]
    exact Eqv.append (proc_I ok hw hd x d) (proc_Is ok hw hd r d)
theorem proc_B (ok : HtmlOk T) (hw : WsOk ws) (hd : DecoOk ws) : ∀ (b : Block) (d : Nat),
    words ws (procKids T ws d (renderB b)) = words ws (hlinB ws b) ∧ Delim ws (procKids T ws d (renderB b))
  | .para _ xs, d => by
    simp only [renderB, elem, procKids_single, proc_block ok.p ok.pB, List.nil_append, hlinB]
    exact ⟨by rw [words_nl_wrap hw, words_sp_wrap hw, words_strip ws (fun _ h => h)]; exact (proc_Is ok hw hd xs d).toWords,
      Delim.wrap _ _ _ hw.nl hw.nl⟩
  | .heading n xs, d => by
    simp only [renderB, procKids_single, proc_heading ok (hTag_mem n), hlinB]
    exact ⟨by rw [words_nl_wrap hw, words_sp_wrap hw, words_collapse _ hw.sp, words_strip ws (fun _ h => h)]
              exact (flat_Is ok hw xs).toWords,
      Delim.wrap _ _ _ hw.nl hw.nl⟩
  | .list items, d => by
    simp only [renderB, elem, procKids_single, proc_block ok.ul ok.ulB, List.nil_append, hlinB]
    exact ⟨by rw [words_nl_wrap hw, words_sp_wrap hw, words_strip ws (fun _ h => h)]; exact proc_Items ok hw hd items d,
      Delim.wrap _ _ _ hw.nl hw.nl⟩
  | .table rows, d => by
    simp only [renderB, procKids_single, proc_table ok, hlinB]
    exact ⟨by rw [words_nl_wrap hw, words_sp_wrap hw]; exact words_formatTable ok hw rows, Delim.wrap _ _ _ hw.nl hw.nl⟩
  | .ctl bs, d => by simp only [renderB, hlinB]; exact proc_Bs ok hw hd bs d
theorem proc_Bs (ok : HtmlOk T) (hw : WsOk ws) (hd : DecoOk ws) : ∀ (bs : List Block) (d : Nat),
    words ws (procKids T ws d (renderBs bs)) = words ws (hlinBs ws bs) ∧ Delim ws (procKids T ws d (renderBs bs))
  | [], d => by simp only [renderBs, procKids, hlinBs]; exact ⟨trivial, Delim.nil⟩
  | b :: r, d => by
    have hb := proc_B ok hw hd b d
    have hr := proc_Bs ok hw hd r d
    simp only [renderBs, procKids_append, hlinBs]
    exact ⟨by rw [hb.2.words_right, (hdelim_B hw b).words_right, hb.1, hr.1], hb.2.append hr.2⟩
theorem proc_Items (ok : HtmlOk T) (hw : WsOk ws) (hd : DecoOk ws) : ∀ (its : List (List Block)) (d : Nat),
    words ws (procKids T ws d (renderItems its)) = words ws (hlinItems ws its)
  | [], d => by simp only [renderItems, procKids, hlinItems]
  | it :: r, d => by
    have hb := proc_Bs ok hw hd it (d + 1)
    have hr := proc_Items ok hw hd r d
    rw [renderItems, procKids_cons, proc_li ok]
    simp only [hlinItems]
    have e1 : ∀ (x rest : Str), words ws (List.replicate (2 * d) ' ' ++ '-' :: ' ' :: x ++ ['\n'] ++ rest)
        = ['-'] :: words ws x ++ words ws rest := by
      intro x rest
      have : List.replicate (2 * d) ' ' ++ '-' :: ' ' :: x ++ ['\n'] ++ rest
          = List.replicate (2 * d) ' ' ++ (('-' :: ' ' :: x) ++ '\n' :: rest) := by simp
      rw [this, words_replicate_append _ _ hw.sp, words_append_sep _ _ _ hw.nl, words_dash hd hw]
    have e2 : ∀ (x rest : Str), words ws (' ' :: '-' :: ' ' :: x ++ ' ' :: rest) = ['-'] :: words ws x ++ words ws rest := by
      intro x rest
      have : ' ' :: '-' :: ' ' :: x ++ ' ' :: rest = ' ' :: (('-' :: ' ' :: x) ++ ' ' :: rest) := by simp
      rw [this, words_cons_ws _ _ hw.sp, words_append_sep _ _ _ hw.sp, words_dash hd hw]
    rw [e1, e2, words_collapse _ hw.sp, words_strip ws (fun _ h => h), hb.1, hr]
end

theorem root_ne_body : "root".toList ≠ sBody := by decide
theorem html_ne_body : "html".toList ≠ sBody := by decide
theorem head_ne_body : "head".toList ≠ sBody := by decide
theorem title_ne_body : "title".toList ≠ sBody := by decide

theorem findBody (title : Str) (d : Doc) :
    findNode sBody (renderDoc title d) = some (.mk sBody [] [] (renderBs d.body) []) := by
  simp only [renderDoc, elem, findNode, findNodes, root_ne_body, html_ne_body, head_ne_body, title_ne_body, if_false,
    if_true]

theorem body_not_special : sBody ∉ headings ∧ sBody ≠ sTable ∧ sBody ≠ sLi ∧ sBody ≠ sBr ∧ sBody ≠ sHr := by decide

theorem words_cleanup (hw : WsOk ws) (s : Str) : words ws (cleanup ws s) = words ws s := by
  rw [cleanup, words_strip ws (fun _ h => h), words_strip_lines hw.nl, words_squeezeNl hw.nl]

/-- `HtmlContent.get_full_text()` of the rendered document has exactly the expected words, in order -/
theorem html_words (ok : HtmlOk T) (hbody : sBody ∉ T.remove) (hw : WsOk ws) (hd : DecoOk ws) (title : Str) (d : Doc) :
    words ws (fullText T ws (renderDoc title d)) = htmlWords ws d := by
  rw [fullText, words_strip ws (fun _ h => h), words_strip ws (fun _ h => h), extract, findBody]
  simp only [Option.getD_some]
  rw [words_cleanup hw, htmlWords]
  obtain ⟨h1, h2, h3, h4, h5⟩ := body_not_special
  have : procNode T ws 0 false (.mk sBody [] [] (renderBs d.body) []) =
      (if sBody ∈ T.block then '\n' :: strip ws (procKids T ws 0 (renderBs d.body)) ++ ['\n']
       else procKids T ws 0 (renderBs d.body)) := by
    simp [procNode, hbody, h1, h2, h3, h4, h5]
  rw [this]
  split
  · rw [words_nl_wrap hw, words_strip ws (fun _ h => h)]; exact (proc_Bs ok hw hd d.body 0).1
  · exact (proc_Bs ok hw hd d.body 0).1

end S2T.C02.Ooxml.Html
