import S2T.Lemmas.TablesRtfPass
/-! `cellText` of the piece of a written row that stands in front of a `\cell`. -/
namespace S2T.Tables.Rtf
open S2T.HtmlSkip (Str)
open S2T.Tables

/-- a pass over paragraphs joined by a separator -/
theorem pass_join (m : Str → Option (Str × Nat)) (sepIn sepOut : Str) (g : Str → Str) :
    ∀ (ps : List Str),
    (∀ p ∈ ps, ∀ X, subst m 0 (g p ++ X) = p ++ subst m 0 X) →
    (∀ q ∈ ps, ∀ X, subst m 0 (sepIn ++ (g q ++ X)) = sepOut ++ subst m 0 (g q ++ X)) →
    subst m 0 (joinWith sepIn (ps.map g)) = joinWith sepOut ps
  | [], _, _ => rfl
  | [p], hp, _ => by
    have := hp p List.mem_cons_self []
    simpa [joinWith, subst_nil] using this
  | p :: q :: r, hp, hs => by
    have ih := pass_join m sepIn sepOut g (q :: r) (fun x hx => hp x (List.mem_cons_of_mem _ hx))
      (fun x hx => hs x (List.mem_cons_of_mem _ hx))
    simp only [List.map_cons] at ih ⊢
    rw [joinWith_cons_cons, joinWith_cons_cons, List.append_assoc, hp p List.mem_cons_self]
    cases r with
    | nil =>
      simp only [List.map_nil, joinWith] at ih ⊢
      have h2 := hs q (by simp) []
      simp only [List.append_nil] at h2
      rw [h2, ih, List.append_assoc]
    | cons r0 r =>
      rw [List.map_cons, joinWith_cons_cons] at ih ⊢
      rw [List.append_assoc (g q)] at ih ⊢
      rw [hs q (by simp), ih, List.append_assoc]

theorem textChar_noBs {p : Str} (h : p.all textChar = true) : NoBs p := by
  intro c hc
  have := List.all_eq_true.mp h c hc
  simp only [textChar, Bool.and_eq_true, bne_iff_ne, ne_eq] at this
  exact this.1.1.1

theorem plainPara_textChar {p : Str} (h : plainPara p = true) : p.all textChar = true := by
  obtain ⟨_, hall, _⟩ := plainPara_parts h
  exact List.all_eq_true.mpr (fun c hc => textChar_of_plain (List.all_eq_true.mp hall c hc))

theorem sPar_eq (X : Str) : sPar ++ X = '\\' :: ("par ".toList ++ X) := by rfl

/-- `\uN?` decoding of the written paragraphs of a cell -/
theorem uniEsc_join (ps : List Str) (h : ∀ p ∈ ps, p.all textChar = true) :
    uniEsc (joinWith sPar (ps.map esc)) = joinWith sPar ps := by
  apply pass_join uniM sPar sPar esc ps
  · intro p hp X; exact uniEsc_esc p X (h p hp)
  · intro q _ X
    rw [sPar_eq, subst_cw uniM anch_uniM _ _ (noBs_of_all _ (by decide)) (uniM_none _ _ (by decide))]
    rfl

theorem hexEsc_join (ps : List Str) (h : ∀ p ∈ ps, NoBs p) :
    hexEsc (joinWith sPar ps) = joinWith sPar ps := by
  have := pass_join hexEscM sPar sPar id ps
    (fun p hp X => subst_noBs hexEscM anch_hexEscM p X (h p hp))
    (fun q _ X => by
      simp only [id]
      rw [sPar_eq, subst_cw hexEscM anch_hexEscM _ _ (noBs_of_all _ (by decide)) (hexEscM_none _ _ (by decide))]
      rfl)
  unfold hexEsc
  simpa using this

theorem specialM_par (c : Char) (X : Str) (hc : isPySpace c = false) :
    specialM "par".toList ['\n'] (sPar ++ (c :: X)) = some (['\n'], sPar.length) := by
  have h1 : sPar ++ (c :: X) = '\\' :: 'p' :: 'a' :: 'r' :: ' ' :: c :: X := by rfl
  have h2 : (' ' :: c :: X).takeWhile isPySpace = [' '] := by
    rw [List.takeWhile_cons_of_pos (by decide), takeWhile_head_false _ c X hc]
  rw [h1]
  simp only [specialM]
  rw [if_pos (by rfl)]
  simp only [show ("par".toList).length = 3 by rfl, List.drop_succ_cons, List.drop_zero, h2]
  rfl

theorem par_join (ps : List Str) (h : ps.all plainPara = true) :
    subst (specialM "par".toList ['\n']) 0 (joinWith sPar ps) = joinWith ['\n'] ps := by
  have := pass_join (specialM "par".toList ['\n']) sPar ['\n'] id ps
    (fun p hp X => subst_noBs _ (anch_specialM _ _) p X
      (textChar_noBs (plainPara_textChar (List.all_eq_true.mp h p hp))))
    (fun q hq X => by
      simp only [id]
      obtain ⟨c, r, he, hw, hpl⟩ := plainPara_head (List.all_eq_true.mp h q hq)
      have hsp : isPySpace c = false := by
        apply plainChar_not_space hpl
        intro hc; subst hc; exact absurd hw (by decide)
      rw [he]
      simp only [List.cons_append]
      exact subst_head _ sPar _ ['\n'] (by decide) (specialM_par c _ hsp))
  simpa using this

/-! ## control-word removal -/

theorem digit_not_alpha : ∀ c : Char, isDigit c = true → isCtlAlpha c = false := by
  intro c h
  simp only [isDigit, Bool.and_eq_true, decide_eq_true_eq] at h
  have h1 : 48 ≤ c.toNat := h.1
  have h2 : c.toNat ≤ 57 := h.2
  simp only [isCtlAlpha, isAsciiAlpha, Bool.or_eq_false_iff, Bool.and_eq_false_iff, decide_eq_false_iff_not, beq_eq_false_iff_ne]
  have e1 : ('a' ≤ c) = (97 ≤ c.toNat) := rfl
  have e2 : ('A' ≤ c) = (65 ≤ c.toNat) := rfl
  have e3 : (c ≤ 'Z') = (c.toNat ≤ 90) := rfl
  simp only [e1, e2, e3]
  omega

/-- `\name`, digits, then a character that is no letter, no digit, no minus -/
theorem ctlM_eval (name ds : Str) (c : Char) (Y : Str) (hname : ∀ x ∈ name, isCtlAlpha x = true) (hne : name ≠ [])
    (hds : ∀ x ∈ ds, isDigit x = true) (hc1 : isCtlAlpha c = false) (hc2 : isDigit c = false) (hc3 : c ≠ '-') :
    ctlM ('\\' :: (name ++ (ds ++ c :: Y))) =
      some ([], 1 + name.length + ds.length + (if isPySpace c then 1 else 0)) := by
  obtain ⟨x, rest, hx, hxa, hxm⟩ : ∃ x rest, ds ++ c :: Y = x :: rest ∧ isCtlAlpha x = false ∧ x ≠ '-' := by
    cases ds with
    | nil => exact ⟨c, Y, rfl, hc1, hc3⟩
    | cons d ds =>
      refine ⟨d, ds ++ c :: Y, rfl, digit_not_alpha d (hds d List.mem_cons_self), ?_⟩
      intro h; subst h; exact absurd (hds _ List.mem_cons_self) (by decide)
  have hname' : (name ++ (ds ++ c :: Y)).takeWhile isCtlAlpha = name := by
    rw [hx]; exact takeWhile_all_stop isCtlAlpha name x rest hname hxa
  have hneg : ((ds ++ c :: Y).head? == some '-') = false := by
    rw [hx]; simpa using hxm
  have hds' : (ds ++ c :: Y).takeWhile isDigit = ds := takeWhile_all_stop isDigit ds c Y hds hc2
  simp only [ctlM, hname', List.drop_left, hneg, Bool.false_eq_true, if_false, hds']
  rw [if_neg (by simpa using hne)]
  have hplen : (if ds.isEmpty = true then 0 else ds.length + 0) = ds.length := by
    cases ds <;> simp
  simp only [hplen, List.drop_left]

theorem ctlWords_noBs (N : Str) (h : NoBs N) : ctlWords N = N := subst_noBs' ctlM anch_ctlM N h

theorem sp_bs : isPySpace '\\' = false := by decide
theorem sp_sp : isPySpace ' ' = true := by decide

theorem ctl_cellStart (N : Str) (h : NoBs N) : ctlWords (sCellStart ++ N) = N := by
  have e1 : sCellStart ++ N = "\\pard".toList ++ ('\\' :: ("intbl".toList ++ ([] ++ ' ' :: N))) := by rfl
  have m1 := ctlM_eval "pard".toList [] '\\' ("intbl".toList ++ ([] ++ ' ' :: N)) (by decide) (by decide) (by simp)
    (by decide) (by decide) (by decide)
  have m2 := ctlM_eval "intbl".toList [] ' ' N (by decide) (by decide) (by simp) (by decide) (by decide) (by decide)
  unfold ctlWords
  rw [e1, subst_head ctlM "\\pard".toList _ [] (by decide) (by simpa [sp_bs] using m1)]
  have e2 : '\\' :: ("intbl".toList ++ ([] ++ ' ' :: N)) = "\\intbl ".toList ++ N := by rfl
  rw [e2, subst_head ctlM "\\intbl ".toList _ [] (by decide) (by simpa [sp_sp] using m2)]
  simpa using subst_noBs' ctlM anch_ctlM N h

/-- one `\cellxN` -/
def cellxW (k : Nat) : Str := '\\' :: ("cellx".toList ++ toDec k)

theorem cellxs_succ (i n : Nat) : cellxs i (n + 1) = cellxW (1500 * (i + 1)) ++ cellxs (i + 1) n := by
  simp [cellxs, cellxW]

theorem cellxW_ne (k : Nat) : cellxW k ≠ [] := by simp [cellxW]

theorem ctl_cellx_bs (k : Nat) (Y : Str) : ctlWords (cellxW k ++ '\\' :: Y) = ctlWords ('\\' :: Y) := by
  have m1 := ctlM_eval "cellx".toList (toDec k) '\\' Y (by decide) (by decide) (toDec_digits _) (by decide) (by decide)
    (by decide)
  unfold ctlWords
  rw [subst_head ctlM (cellxW k) _ [] (cellxW_ne k) (by
    have : cellxW k ++ '\\' :: Y = '\\' :: ("cellx".toList ++ (toDec k ++ '\\' :: Y)) := by simp [cellxW]
    rw [this, m1]
    simp [sp_bs, cellxW]
    omega)]
  rfl

theorem ctl_cellx_sp (k : Nat) (Y : Str) : ctlWords (cellxW k ++ ' ' :: Y) = ctlWords Y := by
  have m1 := ctlM_eval "cellx".toList (toDec k) ' ' Y (by decide) (by decide) (toDec_digits _) (by decide) (by decide)
    (by decide)
  unfold ctlWords
  have e : cellxW k ++ ' ' :: Y = (cellxW k ++ [' ']) ++ Y := by simp
  rw [e, subst_head ctlM (cellxW k ++ [' ']) _ [] (by simp) (by
    have : cellxW k ++ [' '] ++ Y = '\\' :: ("cellx".toList ++ (toDec k ++ ' ' :: Y)) := by simp [cellxW]
    rw [this, m1]
    simp [sp_sp, cellxW]
    omega)]
  rfl

theorem ctl_cellxs : ∀ (n i : Nat) (Y : Str), ctlWords (cellxs i (n + 1) ++ ' ' :: Y) = ctlWords Y
  | 0, i, Y => by
    rw [cellxs_succ]
    simp only [cellxs, List.append_nil]
    exact ctl_cellx_sp _ Y
  | n + 1, i, Y => by
    rw [cellxs_succ, List.append_assoc, cellxs_succ (i + 1) n]
    have : cellxW (1500 * (i + 1 + 1)) ++ cellxs (i + 1 + 1) n ++ ' ' :: Y =
        '\\' :: ("cellx".toList ++ toDec (1500 * (i + 1 + 1)) ++ cellxs (i + 1 + 1) n ++ ' ' :: Y) := by
      simp [cellxW]
    rw [this, ctl_cellx_bs, ← this, ← cellxs_succ]
    exact ctl_cellxs n (i + 1) Y

theorem ctl_trowd (Y : Str) : ctlWords ("\\trowd".toList ++ '\\' :: Y) = ctlWords ('\\' :: Y) := by
  have m1 := ctlM_eval "trowd".toList [] '\\' Y (by decide) (by decide) (by simp) (by decide) (by decide) (by decide)
  unfold ctlWords
  rw [subst_head ctlM "\\trowd".toList _ [] (by decide) (by simpa [sp_bs] using m1)]
  rfl

theorem ctl_lead0 (n : Nat) (N : Str) (h : NoBs N) : ctlWords (lead0 (n + 1) ++ sCellStart ++ N) = N := by
  have e1 : lead0 (n + 1) ++ sCellStart ++ N =
      "\\trowd".toList ++ '\\' :: ("cellx".toList ++ toDec (1500 * (0 + 1)) ++ cellxs 1 n ++ ' ' :: (sCellStart ++ N)) := by
    simp [lead0, cellxs_succ, cellxW]
  have e2 : '\\' :: ("cellx".toList ++ toDec (1500 * (0 + 1)) ++ cellxs 1 n ++ ' ' :: (sCellStart ++ N)) =
      cellxs 0 (n + 1) ++ ' ' :: (sCellStart ++ N) := by
    simp [cellxs_succ, cellxW]
  rw [e1, ctl_trowd, e2, ctl_cellxs n 0]
  exact ctl_cellStart N h

theorem ctl_lead1 (N : Str) (h : NoBs N) : ctlWords ([' '] ++ sCellStart ++ N) = ' ' :: N := by
  have := ctl_cellStart N h
  unfold ctlWords at this ⊢
  rw [List.append_assoc, subst_noBs ctlM anch_ctlM [' '] _ (noBs_of_all _ (by decide)), this]
  rfl

end S2T.Tables.Rtf
