import S2T.Model.SevenZip
namespace S2T.SevenZip

/-- `k` bytes of `n`, little endian -/
def leBytes : Nat → Nat → Bytes
  | 0, _ => []
  | k + 1, n => n % 256 :: leBytes k (n / 256)

/-- first-byte marker: `k` leading one bits -/
def hiMask (k : Nat) : Nat := 256 - 2 ^ (8 - k)

/-- 7zFormat.txt `REAL_UINT64` written with `k` extra bytes -/
def writeNumberK (k n : Nat) : Bytes := (hiMask k + n / 256 ^ k) :: leBytes k n

theorem bits_a : ∀ k, k < 9 → ∀ h, h < 2 ^ (7 - k) → ∀ j, j < k → (hiMask k + h) &&& (0x80 >>> j) ≠ 0 := by
  decide +kernel

theorem bits_b : ∀ k, k < 8 → ∀ h, h < 2 ^ (7 - k) →
    (hiMask k + h) &&& (0x80 >>> k) = 0 ∧ (hiMask k + h) &&& ((0x80 >>> k) - 1) = h := by
  decide +kernel

theorem or_shift (a b s : Nat) (h : a < 2 ^ s) : a ||| (b <<< s) = a + b * 2 ^ s := by
  rw [Nat.or_comm, ← Nat.shiftLeft_add_eq_or_of_lt h, Nat.shiftLeft_eq, Nat.add_comm]

theorem pow256 (j : Nat) : 2 ^ (j * 8) = 256 ^ j := by
  rw [Nat.mul_comm, Nat.pow_mul]

theorem readNumberAux_spec (k n : Nat) (rest : Bytes) (r : R) (hk : k ≤ 8) (hfit : n / 256 ^ k < 2 ^ (7 - k)) :
    ∀ d j, d + j = k →
      readNumberAux (hiMask k + n / 256 ^ k) (8 - j) j (0x80 >>> j) (n % 256 ^ j)
        { r with stream := leBytes d (n / 256 ^ j) ++ rest } = .ok (n, { r with stream := rest }) := by
  intro d
  induction d with
  | zero =>
    intro j hj
    have hjk : j = k := by omega
    subst hjk
    by_cases h8 : j = 8
    · subst h8
      have : n < 256 ^ 8 := by
        have h1 : n / 256 ^ 8 = 0 := by simpa using hfit
        exact (Nat.div_eq_zero_iff_lt (by decide)).mp h1
      simp [readNumberAux, leBytes, pure, StateT.pure, Nat.mod_eq_of_lt this]
      rfl
    · have hlt : j < 8 := by omega
      have ⟨hb1, hb2⟩ := bits_b j hlt _ hfit
      rw [show 8 - j = (7 - j) + 1 by omega]
      unfold readNumberAux
      rw [if_pos hb1, hb2]
      have hm : n % 256 ^ j < 2 ^ (j * 8) := by rw [pow256]; exact Nat.mod_lt _ (by apply Nat.pow_pos; decide)
      rw [or_shift _ _ _ hm, pow256]
      simp [leBytes, pure, StateT.pure, Nat.mod_add_div']
      rfl
  | succ d ih =>
    intro j hj
    have hlt : j < k := by omega
    have ha := bits_a k (by omega) _ hfit j hlt
    rw [show 8 - j = (7 - j) + 1 by omega]
    unfold readNumberAux
    rw [if_neg ha]
    have hm : n % 256 ^ j < 2 ^ (j * 8) := by rw [pow256]; exact Nat.mod_lt _ (by apply Nat.pow_pos; decide)
    have hval : n % 256 ^ j ||| ((n / 256 ^ j % 256) <<< (j * 8)) = n % 256 ^ (j + 1) := by
      rw [or_shift _ _ _ hm, pow256, Nat.mod_pow_succ, Nat.mul_comm]
    have hdiv : n / 256 ^ j / 256 = n / 256 ^ (j + 1) := by
      rw [Nat.div_div_eq_div_mul, Nat.pow_succ]
    have hmask : (0x80 >>> j) >>> 1 = 0x80 >>> (j + 1) := by rw [← Nat.shiftRight_add]
    have := ih (j + 1) (by omega)
    rw [show 8 - (j + 1) = 7 - j by omega] at this
    simp only [leBytes, List.cons_append, bind, StateT.bind, readU8, Except.bind, hval, hdiv, hmask]
    exact this

/-- **varint round trip**: whatever number of extra bytes `k ≤ 8` the writer chose (as long as the value
    fits), `_read_number` returns the value and leaves exactly the rest of the stream. -/
theorem readNumber_writeNumberK (k n : Nat) (rest : Bytes) (hk : k ≤ 8) (hfit : n / 256 ^ k < 2 ^ (7 - k)) (r : R) :
    readNumber { r with stream := writeNumberK k n ++ rest } = .ok (n, { r with stream := rest }) := by
  unfold readNumber writeNumberK
  have := readNumberAux_spec k n rest r hk hfit k 0 (by omega)
  simp only [Nat.sub_zero, Nat.shiftRight_zero, Nat.pow_zero, Nat.mod_one, Nat.div_one] at this
  simp only [List.cons_append, bind, StateT.bind, readU8, Except.bind]
  exact this

end S2T.SevenZip
