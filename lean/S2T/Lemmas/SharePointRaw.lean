import S2T.Lemmas.SharePointFolders
import S2T.Model.SharePointRaw
/-! Helper lemmas for C18, part "percent-decoding on the server / raw items" (core Lean only). -/
namespace S2T.SP

/-! ### percent-decoding undoes `quote` -/

theorem hexVal_hexDigit : ∀ d, d < 16 → hexVal (hexDigit d) = some d := by decide

theorem pctDecode_nil : pctDecode [] = [] := by unfold pctDecode; rfl

theorem pctDecode_plain (ch : Char) (r : Str) (h : ch ≠ '%') : pctDecode (ch :: r) = ch.toNat :: pctDecode r := by
  rw [pctDecode]; simp [h]

theorem pctDecode_escape (r r' : Str) (v : Nat) (h : pctHead r = some (v, r')) :
    pctDecode ('%' :: r) = v :: pctDecode r' := by
  rw [pctDecode]
  simp only [if_true]
  split
  · rename_i v' r'' h'
    rw [h] at h'
    simp only [Option.some.injEq, Prod.mk.injEq] at h'
    rw [h'.1, h'.2]
  · rename_i h'
    rw [h] at h'; cases h'

theorem pctDecode_literal (r : Str) (h : pctHead r = none) : pctDecode ('%' :: r) = 37 :: pctDecode r := by
  rw [pctDecode]
  simp only [if_true]
  split
  · rename_i v' r'' h'
    rw [h] at h'; cases h'
  · rfl

theorem pctHead_pctByte (b : Nat) (hb : b < 256) (rest : Str) :
    pctHead (hexDigit (b / 16) :: hexDigit (b % 16) :: rest) = some (b, rest) := by
  simp only [pctHead, hexVal_hexDigit _ (show b / 16 < 16 by omega), hexVal_hexDigit _ (show b % 16 < 16 by omega),
    Option.some.injEq, Prod.mk.injEq, and_true]
  omega

theorem pctDecode_pct (bs : List Nat) (hb : ∀ b ∈ bs, b < 256) (rest : Str) :
    pctDecode (bs.flatMap pctByte ++ rest) = bs ++ pctDecode rest := by
  induction bs with
  | nil => rfl
  | cons b r ih =>
    have hlt := hb b (by simp)
    simp only [List.flatMap_cons, pctByte, List.cons_append, List.nil_append]
    rw [pctDecode_escape _ _ _ (pctHead_pctByte b hlt _), ih (fun c hc => hb c (List.mem_cons_of_mem _ hc))]

theorem quoteSafe_ascii (ch : Char) (h : quoteSafe ch = true) : ch.toNat < 128 := by
  by_cases hlt : ch.toNat < 128
  · exact hlt
  · exfalso
    have hv : 128 ≤ ch.val.toNat := by have : ch.toNat = ch.val.toNat := rfl; omega
    simp only [quoteSafe, Char.isAlphanum, Char.isAlpha, Char.isUpper, Char.isLower, Char.isDigit,
      Bool.or_eq_true, Bool.and_eq_true, decide_eq_true_eq, beq_iff_eq, UInt32.le_iff_toNat_le] at h
    rcases h with ((((h | h) | h) | h) | h) | h
    · rcases h with (h | h) | h <;> (have := h.2; simp at this; omega)
    · subst h; revert hv; decide
    · subst h; revert hv; decide
    · subst h; revert hv; decide
    · subst h; revert hv; decide
    · subst h; revert hv; decide

theorem quoteSafe_ne_pct (ch : Char) (h : quoteSafe ch = true) : ch ≠ '%' := by
  intro e; subst e; revert h; decide

theorem utf8_ascii (n : Nat) (h : n < 128) : utf8 n = [n] := by simp [utf8]; omega

theorem pctDecode_quoteChar (ch : Char) (rest : Str) :
    pctDecode (quoteChar ch ++ rest) = utf8 ch.toNat ++ pctDecode rest := by
  unfold quoteChar
  split
  · rename_i hs
    rw [utf8_ascii _ (quoteSafe_ascii ch hs)]
    exact pctDecode_plain ch rest (quoteSafe_ne_pct ch hs)
  · exact pctDecode_pct _ (utf8_lt _ (char_toNat_lt ch)) rest

/-- the server's decoding of the client's request path gives back the bytes of the name -/
theorem pctDecode_quote (s : Str) : pctDecode (quote s) = utf8Str s := by
  induction s with
  | nil => simp [quote, utf8Str, pctDecode_nil]
  | cons ch r ih =>
    rw [quote_cons, pctDecode_quoteChar, ih]
    simp [utf8Str]

/-- UTF-8 is injective on strings (through `quote`: both are determined by the bytes) -/
theorem utf8Str_injective (a b : Str) (h : utf8Str a = utf8Str b) : a = b := by
  induction a generalizing b with
  | nil =>
    cases b with
    | nil => rfl
    | cons y r =>
      simp only [utf8Str, List.flatMap_nil, List.flatMap_cons] at h
      exact absurd (List.append_eq_nil_iff.mp h.symm).1 (utf8_ne_nil _)
  | cons x r ih =>
    cases b with
    | nil =>
      simp only [utf8Str, List.flatMap_nil, List.flatMap_cons] at h
      exact absurd (List.append_eq_nil_iff.mp h).1 (utf8_ne_nil _)
    | cons y r' =>
      simp only [utf8Str, List.flatMap_cons] at h
      have hx := char_toNat_lt x
      have hy := char_toNat_lt y
      have hh : (utf8 x.toNat).headD 0 = (utf8 y.toNat).headD 0 := by
        have := congrArg (fun l => l.headD 0) h
        cases hu : utf8 x.toNat with
        | nil => exact absurd hu (utf8_ne_nil _)
        | cons a0 t =>
          cases hv : utf8 y.toNat with
          | nil => exact absurd hv (utf8_ne_nil _)
          | cons b0 t' => rw [hu, hv] at this; simpa using this
      have hl := utf8_length _ _ hx hy hh
      have he := List.append_inj h hl
      have hxy : x = y := Char.toNat_inj.mp (utf8_inj _ _ hx hy he.1)
      subst hxy
      rw [ih r' he.2]

/-! ### raw items -/

theorem classify_essence (r : RawItem) : classify r.essence = classify r := by
  unfold classify RawItem.essence
  cases hf : r.folder.present <;> cases hg : r.file.present <;> simp [Facet.present]

theorem toObj_essence (o : RawObj) : o.essence.toObj = o.toObj := by
  unfold RawObj.toObj RawObj.essence
  simp only [List.map_map]
  congr 1
  · apply List.map_congr_left; intro r _; exact classify_essence r
  · cases o.folder <;> rfl

theorem toOutcome_essence (o : RawOutcome) : o.essence.toOutcome = o.toOutcome := by
  cases o with
  | resp st b =>
    cases b with
    | obj ob => simp [RawOutcome.essence, RawBody.essence, RawOutcome.toOutcome, RawBody.toBody, toObj_essence]
    | notJson => rfl
    | nonObject => rfl
  | httpError c => rfl
  | urlError => rfl

theorem ofRaw_essence (rt : RawTransport) : ofRaw (fun i u => (rt i u).essence) = ofRaw rt := by
  funext i u; exact toOutcome_essence _

theorem classify_decorateItems (d : Nat → Item → RawItem) (hd : ∀ k it, classify (d k it) = it) :
    ∀ (k : Nat) (its : List Item), (decorateItems d k its).map classify = its := by
  intro k its
  induction its generalizing k with
  | nil => rfl
  | cons it r ih => simp [decorateItems, hd, ih]

theorem toOutcome_decorate (d : Nat → Item → RawItem) (hd : ∀ k it, classify (d k it) = it) (fd : Facet)
    (hfd : fd.present = true) (o : Outcome) : (decorateOutcome d fd o).toOutcome = o := by
  cases o with
  | resp st b =>
    cases b with
    | obj ob =>
      obtain ⟨tok, id, value, next, hasFolder⟩ := ob
      simp only [decorateOutcome, RawOutcome.toOutcome, RawBody.toBody, RawObj.toObj, classify_decorateItems d hd]
      cases hasFolder
      · rfl
      · simp only [if_true, hfd]
    | notJson => rfl
    | nonObject => rfl
  | httpError c => rfl
  | urlError => rfl

end S2T.SP
