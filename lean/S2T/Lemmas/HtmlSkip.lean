import S2T.Spec.HtmlDoc
/-! Helper lemmas for C17 (skip gate of the HTML event machines). -/
namespace S2T.HtmlSkip

variable {σ : Type} (T : Tables) (D : Down σ)

theorem run_append (st : St σ) (a b : List Ev) :
    run T D st (a ++ b) = run T D (run T D st a) b := by
  simp [run, List.foldl_append]

theorem run_cons (st : St σ) (e : Ev) (r : List Ev) :
    run T D st (e :: r) = run T D (step T D st e) r := rfl

theorem run_nil (st : St σ) : run T D st [] = st := rfl

/-- While skipping `tag`, content whose same-name nesting goes from `k` to `k'` moves the counter
    from `k+1` to `k'+1` and changes nothing else. -/
theorem run_junk (tag : Str) (junk : List Ev) :
    ∀ (k k' : Nat) (st : St σ), st.skipTag = some tag → st.skipDepth = (k : Int) + 1 →
      bal tag k junk = some k' →
      run T D st junk = { st with skipDepth := (k' : Int) + 1 } := by
  induction junk with
  | nil =>
    intro k k' st _ hd hb
    simp only [bal, Option.some.injEq] at hb
    subst hb
    cases st; simp_all [run]
  | cons e r ih =>
    intro k k' st ht hd hb
    have hpos : st.skipDepth > 0 := by omega
    rw [run_cons]
    cases e with
    | start t a =>
      simp only [bal] at hb
      by_cases h : t = tag
      · subst h
        simp only [↓reduceIte] at hb
        have hs : step T D st (.start t a) = { st with skipDepth := st.skipDepth + 1 } := by
          simp [step, handleStarttag, hpos, ht]
        rw [hs]
        have := ih (k + 1) k' { st with skipDepth := st.skipDepth + 1 } ht (by simp; omega) hb
        rw [this]
      · simp only [h, ↓reduceIte] at hb
        have hs : step T D st (.start t a) = st := by
          simp [step, handleStarttag, hpos, ht, h]
        rw [hs]; exact ih k k' st ht hd hb
    | end_ t =>
      simp only [bal] at hb
      by_cases h : t = tag
      · subst h
        simp only [↓reduceIte] at hb
        cases k with
        | zero => simp at hb
        | succ k0 =>
          simp only at hb
          have hs : step T D st (.end_ t) = { st with skipDepth := st.skipDepth - 1 } := by
            have hne : ¬ (st.skipDepth - 1 = 0) := by omega
            simp [step, handleEndtag, hpos, ht, hne]
          rw [hs]
          have := ih k0 k' { st with skipDepth := st.skipDepth - 1 } ht (by simp; omega) hb
          rw [this]
      · simp only [h, ↓reduceIte] at hb
        have hs : step T D st (.end_ t) = st := by
          simp [step, handleEndtag, hpos, ht, h]
        rw [hs]; exact ih k k' st ht hd hb
    | startend t a =>
      simp only [bal] at hb
      have hs : step T D st (.startend t a) = st := by
        simp [step, handleStartendtag, hpos]
      rw [hs]; exact ih k k' st ht hd hb
    | data s =>
      simp only [bal] at hb
      have hs : step T D st (.data s) = st := by simp [step, handleData, hpos]
      rw [hs]; exact ih k k' st ht hd hb
    | comment s => simp only [bal] at hb; exact ih k k' st ht hd hb
    | decl s => simp only [bal] at hb; exact ih k k' st ht hd hb
    | pi s => simp only [bal] at hb; exact ih k k' st ht hd hb
    | unknownDecl s => simp only [bal] at hb; exact ih k k' st ht hd hb

/-- a state outside any removed element -/
def Clean (st : St σ) : Prop := st.skipDepth = 0 ∧ st.skipTag = none

/-- One well-formed item, started outside any removed element: the class-specific part receives
    exactly the item's visible calls and the gate is back outside. -/
theorem run_item (i : Item) (hi : ItemOk T i = true) (st : St σ) (hc : Clean st) :
    run T D st i.events = { st with down := D.feed st.down i.downEvents } := by
  obtain ⟨hd, ht⟩ := hc
  have hnp : ¬ (st.skipDepth > 0) := by omega
  cases i with
  | text s => simp [Item.events, Item.downEvents, run, step, handleData, hnp, Down.feed, Down.step]
  | open_ t a =>
    have hi' : t ∉ T.remove := by simpa [ItemOk] using hi
    simp [Item.events, Item.downEvents, run, step, handleStarttag, hnp, hi', Down.feed, Down.step]
  | close t =>
    simp [Item.events, Item.downEvents, run, step, handleEndtag, hnp, Down.feed, Down.step]
  | selfclosed t a =>
    have hi' : t ∉ T.remove := by simpa [ItemOk] using hi
    simp [Item.events, Item.downEvents, run, step, handleStartendtag, handleStarttag, handleEndtag,
      hnp, hi', Down.feed, Down.step]
  | removed t a junk =>
    simp only [ItemOk, Bool.and_eq_true, Bool.not_eq_true', JunkOk, beq_iff_eq] at hi
    obtain ⟨⟨hr, hv⟩, hj⟩ := hi
    have hr' : t ∈ T.remove := by simpa using hr
    have hv' : t ∉ T.void := by simpa using hv
    simp only [Item.events, Item.downEvents]
    rw [run_cons, run_append]
    have hs : step T D st (.start t a) = { st with skipTag := some t, skipDepth := 1 } := by
      simp [step, handleStarttag, hnp, hr', hv']
    rw [hs]
    have := run_junk T D t junk 0 0 { st with skipTag := some t, skipDepth := 1 } rfl (by simp) hj
    rw [this]
    cases st
    simp_all [run, step, handleEndtag, Down.feed]
  | removedEmpty t a sc =>
    simp only [ItemOk, Bool.and_eq_true, Bool.or_eq_true] at hi
    obtain ⟨hr, hsv⟩ := hi
    cases sc with
    | true =>
      cases st
      simp_all [Item.events, Item.downEvents, run, step, handleStartendtag, Down.feed]
    | false =>
      have hv : T.void.contains t = true := by simpa using hsv
      cases st
      simp_all [Item.events, Item.downEvents, run, step, handleStarttag, Down.feed]
  | comment s => cases st; simp [Item.events, Item.downEvents, run, step, Down.feed]
  | decl s => cases st; simp [Item.events, Item.downEvents, run, step, Down.feed]
  | pi s => cases st; simp [Item.events, Item.downEvents, run, step, Down.feed]
  | unknownDecl s => cases st; simp [Item.events, Item.downEvents, run, step, Down.feed]

theorem feed_append (d : σ) (a b : List DEv) : D.feed d (a ++ b) = D.feed (D.feed d a) b := by
  simp [Down.feed, List.foldl_append]

theorem run_doc (doc : Doc) : ∀ (st : St σ), DocOk T doc = true → Clean st →
    run T D st (events doc) = { st with down := D.feed st.down (downEvents doc) } := by
  induction doc with
  | nil => intro st _ _; cases st; simp [events, downEvents, run, Down.feed]
  | cons i r ih =>
    intro st hd hc
    simp only [DocOk, List.all_cons, Bool.and_eq_true] at hd
    have hev : events (i :: r) = i.events ++ events r := by simp [events]
    have hdv : downEvents (i :: r) = i.downEvents ++ downEvents r := by simp [downEvents]
    rw [hev, hdv, run_append, run_item T D i hd.1 st hc, feed_append]
    have hc' : Clean ({ st with down := D.feed st.down i.downEvents } : St σ) := hc
    rw [ih _ (by simpa [DocOk] using hd.2) hc']

theorem strip_ok (doc : Doc) (h : DocOk T doc = true) : DocOk T (strip doc) = true := by
  simp only [DocOk, strip, List.all_eq_true, List.mem_filter] at *
  intro i hi; exact h i hi.1

theorem strip_downEvents (doc : Doc) : downEvents (strip doc) = downEvents doc := by
  induction doc with
  | nil => rfl
  | cons i r ih =>
    have hdv : ∀ (j : Item) (l : Doc), downEvents (j :: l) = j.downEvents ++ downEvents l := by
      intro j l; simp [downEvents]
    cases i <;> simp_all [strip, List.filter_cons, Item.isVisible, Item.downEvents]

theorem dataOf_downEvents (doc : Doc) : dataOf (downEvents doc) = visibleData doc := by
  induction doc with
  | nil => rfl
  | cons i r ih =>
    have hdv : downEvents (i :: r) = i.downEvents ++ downEvents r := by simp [downEvents]
    have hvd : visibleData (i :: r) = i.visibleData ++ visibleData r := by simp [visibleData]
    have happ : ∀ a b, dataOf (a ++ b) = dataOf a ++ dataOf b := by intro a b; simp [dataOf]
    rw [hdv, hvd, happ, ih]
    cases i <;> simp [Item.downEvents, Item.visibleData, dataOf]

/-- the recording downstream records exactly what it is fed -/
theorem logDown_feed (l evs : List DEv) : logDown.feed l evs = l ++ evs := by
  induction evs generalizing l with
  | nil => simp [Down.feed]
  | cons e r ih =>
    have : logDown.feed l (e :: r) = logDown.feed (logDown.step l e) r := rfl
    rw [this, ih]
    cases e <;> simp [Down.step, logDown]

/-! ### tables vs. the property statement's own lists -/

theorem matchSpec_parts (h : TablesMatchSpec T = true) :
    (∀ t, T.remove.contains t = specRemovable.contains t) ∧
    (∀ t, specRemovable.contains t = true → T.void.contains t = stdVoid.contains t) := by
  simp only [TablesMatchSpec, Bool.and_eq_true, List.all_eq_true] at h
  obtain ⟨⟨h1, h2⟩, h3⟩ := h
  refine ⟨?_, ?_⟩
  · intro t
    apply Bool.eq_iff_iff.mpr
    constructor
    · intro ht; exact h2 t (by simpa using ht)
    · intro ht; exact h1 t (by simpa using ht)
  · intro t ht
    have := h3 t (by simpa using ht)
    simpa using this

theorem specItemOk_iff (h : TablesMatchSpec T = true) (i : Item) : ItemOk T i = SpecItemOk i := by
  obtain ⟨hr, hv⟩ := matchSpec_parts T h
  cases i with
  | removed t a junk =>
    simp only [ItemOk, SpecItemOk, hr]
    cases hs : specRemovable.contains t with
    | false => simp
    | true => rw [hv t hs]
  | removedEmpty t a sc =>
    simp only [ItemOk, SpecItemOk, hr]
    cases hs : specRemovable.contains t with
    | false => simp
    | true => rw [hv t hs]
  | _ => simp only [ItemOk, SpecItemOk, hr]

theorem specDocOk_iff (h : TablesMatchSpec T = true) (doc : Doc) : DocOk T doc = SpecDocOk doc := by
  simp only [DocOk, SpecDocOk]
  congr 1
  funext i
  exact specItemOk_iff T h i

/-! ### the gate before the repair -/

/-- Legacy counter: content whose *every-tag* nesting goes from `k` to `k'` moves the counter from
    `k+1` to `k'+1`. -/
theorem legacy_run_junk (junk : List Ev) :
    ∀ (k k' : Nat) (st : St σ), st.skipDepth = (k : Int) + 1 → balAll k junk = some k' →
      Legacy.run T D st junk = { st with skipDepth := (k' : Int) + 1 } := by
  induction junk with
  | nil =>
    intro k k' st hd hb
    simp only [balAll, Option.some.injEq] at hb
    subst hb
    cases st; simp_all [Legacy.run]
  | cons e r ih =>
    intro k k' st hd hb
    have hpos : st.skipDepth > 0 := by omega
    have hc : Legacy.run T D st (e :: r) = Legacy.run T D (Legacy.step T D st e) r := rfl
    rw [hc]
    cases e with
    | start t a =>
      simp only [balAll] at hb
      have hs : Legacy.step T D st (.start t a) = { st with skipDepth := st.skipDepth + 1 } := by
        simp [Legacy.step, Legacy.handleStarttag, hpos]
      rw [hs, ih (k + 1) k' _ (by simp; omega) hb]
    | end_ t =>
      simp only [balAll] at hb
      cases k with
      | zero => simp at hb
      | succ k0 =>
        simp only at hb
        have hs : Legacy.step T D st (.end_ t) = { st with skipDepth := st.skipDepth - 1 } := by
          simp [Legacy.step, Legacy.handleEndtag, hpos]
        rw [hs, ih k0 k' _ (by simp; omega) hb]
    | startend t a =>
      simp only [balAll] at hb
      have hs : Legacy.step T D st (.startend t a) = st := by
        have : st.skipDepth + 1 > 0 := by omega
        cases st
        simp_all [Legacy.step, Legacy.handleStarttag, Legacy.handleEndtag]
      rw [hs]; exact ih k k' st hd hb
    | data s =>
      simp only [balAll] at hb
      have hs : Legacy.step T D st (.data s) = st := by simp [Legacy.step, handleData, hpos]
      rw [hs]; exact ih k k' st hd hb
    | comment s => simp only [balAll] at hb; exact ih k k' st hd hb
    | decl s => simp only [balAll] at hb; exact ih k k' st hd hb
    | pi s => simp only [balAll] at hb; exact ih k k' st hd hb
    | unknownDecl s => simp only [balAll] at hb; exact ih k k' st hd hb

/-- items the gate before the repair handled correctly: the content of a removed element is
    balanced over *all* tag names (no void or unclosed child, no stray end tag), and an empty
    removed element is written in the self-closing form. -/
def LegacyItemOk (T : Tables) : Item → Bool
  | .removed t _ junk => T.remove.contains t && balAll 0 junk == some 0
  | .removedEmpty t _ sc => T.remove.contains t && sc
  | i => ItemOk T i

theorem legacy_run_item (i : Item) (hi : LegacyItemOk T i = true) (st : St σ) (hd : st.skipDepth = 0) :
    Legacy.run T D st i.events = { st with down := D.feed st.down i.downEvents } := by
  have hnp : ¬ (st.skipDepth > 0) := by omega
  cases i with
  | text s => simp [Item.events, Item.downEvents, Legacy.run, Legacy.step, handleData, hnp, Down.feed, Down.step]
  | open_ t a =>
    have hi' : t ∉ T.remove := by simpa [LegacyItemOk, ItemOk] using hi
    simp [Item.events, Item.downEvents, Legacy.run, Legacy.step, Legacy.handleStarttag, hnp, hi', Down.feed, Down.step]
  | close t =>
    simp [Item.events, Item.downEvents, Legacy.run, Legacy.step, Legacy.handleEndtag, hnp, Down.feed, Down.step]
  | selfclosed t a =>
    have hi' : t ∉ T.remove := by simpa [LegacyItemOk, ItemOk] using hi
    simp [Item.events, Item.downEvents, Legacy.run, Legacy.step, Legacy.handleStarttag, Legacy.handleEndtag,
      hnp, hi', Down.feed, Down.step]
  | removed t a junk =>
    simp only [LegacyItemOk, Bool.and_eq_true, beq_iff_eq] at hi
    obtain ⟨hr, hj⟩ := hi
    have hr' : t ∈ T.remove := by simpa using hr
    simp only [Item.events, Item.downEvents]
    have hc : Legacy.run T D st (.start t a :: (junk ++ [.end_ t]))
        = Legacy.run T D (Legacy.run T D (Legacy.step T D st (.start t a)) junk) [.end_ t] := by
      simp [Legacy.run, List.foldl_append]
    rw [hc]
    have hs : Legacy.step T D st (.start t a) = { st with skipDepth := 1 } := by
      simp [Legacy.step, Legacy.handleStarttag, hnp, hr']
    rw [hs, legacy_run_junk T D junk 0 0 { st with skipDepth := 1 } (by simp) hj]
    cases st
    simp_all [Legacy.run, Legacy.step, Legacy.handleEndtag, Down.feed]
  | removedEmpty t a sc =>
    simp only [LegacyItemOk, Bool.and_eq_true] at hi
    obtain ⟨hr, hsc⟩ := hi
    have hr' : t ∈ T.remove := by simpa using hr
    subst hsc
    cases st
    simp_all [Item.events, Item.downEvents, Legacy.run, Legacy.step, Legacy.handleStarttag,
      Legacy.handleEndtag, Down.feed]
  | comment s => cases st; simp [Item.events, Item.downEvents, Legacy.run, Legacy.step, Down.feed]
  | decl s => cases st; simp [Item.events, Item.downEvents, Legacy.run, Legacy.step, Down.feed]
  | pi s => cases st; simp [Item.events, Item.downEvents, Legacy.run, Legacy.step, Down.feed]
  | unknownDecl s => cases st; simp [Item.events, Item.downEvents, Legacy.run, Legacy.step, Down.feed]

theorem legacy_run_doc (doc : Doc) : ∀ (st : St σ), doc.all (LegacyItemOk T) = true → st.skipDepth = 0 →
    Legacy.run T D st (events doc) = { st with down := D.feed st.down (downEvents doc) } := by
  induction doc with
  | nil => intro st _ _; cases st; simp [events, downEvents, Legacy.run, Down.feed]
  | cons i r ih =>
    intro st hd hc
    simp only [List.all_cons, Bool.and_eq_true] at hd
    have hev : events (i :: r) = i.events ++ events r := by simp [events]
    have hdv : downEvents (i :: r) = i.downEvents ++ downEvents r := by simp [downEvents]
    have happ : ∀ a b, Legacy.run T D st (a ++ b) = Legacy.run T D (Legacy.run T D st a) b := by
      intro a b; simp [Legacy.run, List.foldl_append]
    rw [hev, hdv, happ, legacy_run_item T D i hd.1 st hc, feed_append]
    exact ih { st with down := D.feed st.down i.downEvents } hd.2 hc

end S2T.HtmlSkip
