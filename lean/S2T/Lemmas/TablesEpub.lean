import S2T.Spec.Tables
import S2T.Lemmas.HtmlSkip
/-! C13: the table state of the EPUB event machine (`S2T.HtmlSkip.Epub`) on written chapters without
    tables inside cells. -/
namespace S2T.Tables.Epub
open S2T.HtmlSkip
open S2T.HtmlSkip.Epub (State)

/-- the part of the parser state the tables depend on -/
structure Core where
  tables : List Grid
  currentTable : Grid
  currentRow : List Str
  currentCell : List Str
  inTable : Bool
  inCell : Bool
  inTitle : Bool
  deriving DecidableEq

def core (s : State) : Core :=
  ⟨s.tables, s.currentTable, s.currentRow, s.currentCell, s.inTable, s.inCell, s.inTitle⟩

def tTitle : Str := "title".toList
def tTable : Str := "table".toList
def tTr : Str := "tr".toList
def tTd : Str := "td".toList
def tTh : Str := "th".toList
def tP : Str := "p".toList
def tThead : Str := "thead".toList
def tTbody : Str := "tbody".toList

/-- a tag the table logic does not look at -/
def inert (t : Str) : Bool := t != tTitle && t != tTable && t != tTr && t != tTd && t != tTh

variable (block : List Str)

theorem start_inert (s : State) (t : Str) (a : Attrs) (h : inert t = true) :
    core (Epub.start block s t a) = core s := by
  simp only [inert, Bool.and_eq_true, bne_iff_ne, ne_eq, tTitle, tTable, tTr, tTd, tTh] at h
  obtain ⟨⟨⟨⟨h1, h2⟩, h3⟩, h4⟩, h5⟩ := h
  unfold Epub.start
  simp only [h1, h2, h3, h4, h5, if_false, Bool.false_or, decide_false, Bool.false_eq_true, ite_self]
  split <;> split <;> rfl

theorem end_inert (s : State) (t : Str) (h : inert t = true) :
    core (Epub.end_ block s t) = core s := by
  simp only [inert, Bool.and_eq_true, bne_iff_ne, ne_eq, tTitle, tTable, tTr, tTd, tTh] at h
  obtain ⟨⟨⟨⟨h1, h2⟩, h3⟩, h4⟩, h5⟩ := h
  unfold Epub.end_
  simp only [h1, h2, h3, h4, h5, if_false, Bool.false_or, decide_false, Bool.false_eq_true, ite_self]
  split <;> rfl

theorem data_cell (s : State) (d : Str) (h1 : s.inTitle = false) (h2 : s.inCell = true) :
    core (Epub.data s d) = { core s with currentCell := s.currentCell ++ [d] } := by
  simp [Epub.data, h1, h2, core]

theorem data_out (s : State) (d : Str) (h1 : s.inTitle = false) (h2 : s.inCell = false) :
    core (Epub.data s d) = core s := by
  simp [Epub.data, h1, h2, core]

/-! ## the table logic as a machine of its own -/

def cstart (c : Core) (tag : Str) : Core :=
  if tag = tTitle then { c with inTitle := true }
  else if tag = tTable then { c with inTable := true, currentTable := [] }
  else if c.inTable then
    (if tag = tTr then { c with currentRow := [] }
     else if tag = tTd || tag = tTh then { c with inCell := true, currentCell := [] }
     else c)
  else c

def cend (c : Core) (tag : Str) : Core :=
  if tag = tTitle then { c with inTitle := false }
  else if tag = tTable then
    { c with tables := (if c.currentTable.isEmpty then c.tables else c.tables ++ [c.currentTable]),
             currentTable := [], inTable := false }
  else if c.inTable then
    (if tag = tTr then
       { c with currentTable := (if c.currentRow.isEmpty then c.currentTable else c.currentTable ++ [c.currentRow]),
                currentRow := [] }
     else if tag = tTd || tag = tTh then
       { c with currentRow := c.currentRow ++ [S2T.HtmlSkip.Epub.cellText c.currentCell], currentCell := [], inCell := false }
     else c)
  else c

def cdata (c : Core) (d : Str) : Core :=
  if c.inTitle then c else if c.inCell then { c with currentCell := c.currentCell ++ [d] } else c

def cstep (c : Core) : DEv → Core
  | .start t _ => cstart c t
  | .end_ t => cend c t
  | .data d => cdata c d

/-- the table fields evolve on their own: the rest of the state (text parts, block flag, title) never feeds back -/
theorem core_step (s : State) (e : DEv) : core ((Epub.down block).step s e) = cstep (core s) e := by
  cases e with
  | start t a =>
    simp only [Down.step, Epub.down, cstep, cstart, Epub.start, core, tTitle, tTable, tTr, tTd, tTh,
      Bool.or_eq_true, decide_eq_true_eq]
    by_cases h1 : t = "title".toList
    · simp [h1]
    · by_cases h2 : t = "table".toList
      · simp [h2]
      · simp only [h1, h2, if_false]
        cases hi : s.inTable
        · simp only [Bool.false_eq_true, if_false]; split <;> split <;> simp_all
        · simp only [if_true]
          by_cases h3 : t = "tr".toList
          · simp only [h3, if_true]; split <;> split <;> simp_all
          · simp only [h3, if_false]
            by_cases h4 : t = "td".toList ∨ t = "th".toList
            · rcases h4 with h4 | h4 <;> subst h4 <;> simp (config := {decide := true}) only [true_or, or_true, if_true] <;> split <;> split <;> simp_all (config := {decide := true})
            · simp only [h4, if_false]; split <;> split <;> simp_all
  | end_ t =>
    simp only [Down.step, Epub.down, cstep, cend, Epub.end_, core, tTitle, tTable, tTr, tTd, tTh,
      Bool.or_eq_true, decide_eq_true_eq]
    by_cases h1 : t = "title".toList
    · simp [h1]
    · by_cases h2 : t = "table".toList
      · simp [h2]
      · simp only [h1, h2, if_false]
        cases hi : s.inTable
        · simp only [Bool.false_eq_true, if_false]; split <;> simp_all
        · simp only [if_true]
          by_cases h3 : t = "tr".toList
          · simp only [h3, if_true]; split <;> simp_all
          · simp only [h3, if_false]
            by_cases h4 : t = "td".toList ∨ t = "th".toList
            · rcases h4 with h4 | h4 <;> subst h4 <;> simp (config := {decide := true}) only [true_or, or_true, if_true] <;> split <;> simp_all (config := {decide := true})
            · simp only [h4, if_false]; split <;> simp_all
  | data d =>
    simp only [Down.step, Epub.down, cstep, cdata, Epub.data]
    cases h1 : s.inTitle <;> cases h2 : s.inCell <;> simp [core, h1, h2]

def crun (c : Core) (evs : List DEv) : Core := evs.foldl cstep c

theorem core_feed (s : State) (evs : List DEv) : core ((Epub.down block).feed s evs) = crun (core s) evs := by
  induction evs generalizing s with
  | nil => rfl
  | cons e r ih =>
    simp only [Down.feed, List.foldl_cons, crun] at ih ⊢
    rw [ih, core_step]

theorem crun_append (c : Core) (a b : List DEv) : crun c (a ++ b) = crun (crun c a) b := by
  simp [crun, List.foldl_append]

/-! ## written chapters -/

/-- a table without nested tables: header-row count, rows of cells of paragraph texts -/
abbrev ETable := Nat × List (List (List Str))

inductive EBlk where
  | para (s : Str)
  | tbl (t : ETable)

def paraEvs (p : Str) : List DEv := [.start tP [], .data p, .end_ tP]
def cellEvs (tag : Str) (cell : List Str) : List DEv := [.start tag []] ++ cell.flatMap paraEvs ++ [.end_ tag]
def rowEvs (tag : Str) (row : List (List Str)) : List DEv := [.start tTr []] ++ row.flatMap (cellEvs tag) ++ [.end_ tTr]
def wrapEvs (w : Str) (evs : List DEv) : List DEv := if evs.isEmpty then [] else [.start w []] ++ evs ++ [.end_ w]
def tableEvs (t : ETable) : List DEv :=
  [.start tTable []] ++ wrapEvs tThead ((t.2.take t.1).flatMap (rowEvs tTh))
    ++ wrapEvs tTbody ((t.2.drop t.1).flatMap (rowEvs tTd)) ++ [.end_ tTable]
def EBlk.evs : EBlk → List DEv
  | .para s => paraEvs s
  | .tbl t => tableEvs t

def gridOfE (t : ETable) : Grid := t.2.map (fun row => row.map S2T.HtmlSkip.Epub.cellText)
def EBlk.tables : EBlk → List Grid
  | .para _ => []
  | .tbl t => [gridOfE t]
def ETable.proper (t : ETable) : Bool := !t.2.isEmpty && t.2.all (fun row => !row.isEmpty)
def EBlk.proper : EBlk → Bool
  | .para _ => true
  | .tbl t => t.proper

theorem crun_paras (cell : List Str) (T : List Grid) (ct : Grid) (cr cc : List Str) :
    crun ⟨T, ct, cr, cc, true, true, false⟩ (cell.flatMap paraEvs) = ⟨T, ct, cr, cc ++ cell, true, true, false⟩ := by
  induction cell generalizing cc with
  | nil => simp [crun]
  | cons p r ih =>
    rw [List.flatMap_cons, crun_append]
    have : crun ⟨T, ct, cr, cc, true, true, false⟩ (paraEvs p) = ⟨T, ct, cr, cc ++ [p], true, true, false⟩ := by
      simp [crun, paraEvs, cstep, cstart, cend, cdata, tP, tTitle, tTable, tTr, tTd, tTh]
      try decide
    rw [this, ih]
    simp

theorem crun_cell (tag : Str) (htag : tag = tTd ∨ tag = tTh) (cell : List Str) (T : List Grid) (ct : Grid) (cr cc : List Str) :
    crun ⟨T, ct, cr, cc, true, false, false⟩ (cellEvs tag cell)
      = ⟨T, ct, cr ++ [S2T.HtmlSkip.Epub.cellText cell], [], true, false, false⟩ := by
  unfold cellEvs
  rw [crun_append, crun_append]
  have h1 : crun ⟨T, ct, cr, cc, true, false, false⟩ [.start tag []] = ⟨T, ct, cr, [], true, true, false⟩ := by
    rcases htag with rfl | rfl <;> (simp [crun, cstep, cstart, tTitle, tTable, tTr, tTd, tTh]; try decide)
  rw [h1, crun_paras]
  rcases htag with rfl | rfl <;> (simp [crun, cstep, cend, tTitle, tTable, tTr, tTd, tTh]; try decide)

theorem crun_cells (tag : Str) (htag : tag = tTd ∨ tag = tTh) (row : List (List Str)) (T : List Grid) (ct : Grid) (cr cc : List Str) :
    crun ⟨T, ct, cr, cc, true, false, false⟩ (row.flatMap (cellEvs tag))
      = ⟨T, ct, cr ++ row.map S2T.HtmlSkip.Epub.cellText, if row.isEmpty then cc else [], true, false, false⟩ := by
  induction row generalizing cr cc with
  | nil => simp [crun]
  | cons c r ih =>
    rw [List.flatMap_cons, crun_append, crun_cell tag htag, ih]
    cases r <;> simp

theorem crun_row (tag : Str) (htag : tag = tTd ∨ tag = tTh) (row : List (List Str)) (hne : row.isEmpty = false)
    (T : List Grid) (ct : Grid) (cr cc : List Str) :
    crun ⟨T, ct, cr, cc, true, false, false⟩ (rowEvs tag row)
      = ⟨T, ct ++ [row.map S2T.HtmlSkip.Epub.cellText], [], [], true, false, false⟩ := by
  unfold rowEvs
  rw [crun_append, crun_append]
  have h1 : crun ⟨T, ct, cr, cc, true, false, false⟩ [.start tTr []] = ⟨T, ct, [], cc, true, false, false⟩ := by
    simp [crun, cstep, cstart, tTitle, tTable, tTr]; try decide
  rw [h1, crun_cells tag htag]
  have : (row.map S2T.HtmlSkip.Epub.cellText).isEmpty = false := by cases row <;> simp_all
  simp [crun, cstep, cend, tTitle, tTable, tTr, hne, this]
  try decide

theorem crun_rows (tag : Str) (htag : tag = tTd ∨ tag = tTh) (rows : List (List (List Str)))
    (hne : rows.all (fun row => !row.isEmpty) = true) (T : List Grid) (ct : Grid) (cr cc : List Str) :
    crun ⟨T, ct, cr, cc, true, false, false⟩ (rows.flatMap (rowEvs tag))
      = ⟨T, ct ++ rows.map (fun row => row.map S2T.HtmlSkip.Epub.cellText),
          if rows.isEmpty then cr else [], if rows.isEmpty then cc else [], true, false, false⟩ := by
  induction rows generalizing ct cr cc with
  | nil => simp [crun]
  | cons r rs ih =>
    simp only [List.all_cons, Bool.and_eq_true] at hne
    rw [List.flatMap_cons, crun_append, crun_row tag htag r (by simpa using hne.1), ih hne.2]
    cases rs <;> simp

theorem crun_wrap (w : Str) (hw : inert w = true) (hw2 : w ≠ tTr ∧ w ≠ tTd ∧ w ≠ tTh ∧ w ≠ tTitle ∧ w ≠ tTable)
    (c : Core) (evs : List DEv) : crun c (wrapEvs w evs) = crun c evs := by
  unfold wrapEvs
  by_cases he : evs.isEmpty = true
  · simp only [he, if_true]; cases evs <;> simp_all [crun]
  · have he' : evs.isEmpty = false := by simpa using he
    simp only [he', Bool.false_eq_true, if_false]
    rw [crun_append, crun_append]
    obtain ⟨a1, a2, a3, a4, a5⟩ := hw2
    have s1 : ∀ c : Core, crun c [.start w []] = c := by
      intro c; simp [crun, cstep, cstart, a1, a2, a3, a4, a5]
    have s2 : ∀ c : Core, crun c [.end_ w] = c := by
      intro c; simp [crun, cstep, cend, a1, a2, a3, a4, a5]
    rw [s1, s2]

theorem crun_table (t : ETable) (hp : t.proper = true) (T : List Grid) (ct : Grid) (cr cc : List Str) (it : Bool) :
    crun ⟨T, ct, cr, cc, it, false, false⟩ (tableEvs t) = ⟨T ++ [gridOfE t], [], [], [], false, false, false⟩ := by
  obtain ⟨h, rows⟩ := t
  simp only [ETable.proper, Bool.and_eq_true] at hp
  obtain ⟨hne, hall⟩ := hp
  unfold tableEvs
  simp only
  rw [crun_append, crun_append, crun_append]
  have h1 : crun ⟨T, ct, cr, cc, it, false, false⟩ [.start tTable []] = ⟨T, [], cr, cc, true, false, false⟩ := by
    simp [crun, cstep, cstart, tTitle, tTable]; try decide
  have hall1 : (rows.take h).all (fun row => !row.isEmpty) = true := by
    rw [List.all_eq_true] at hall ⊢; exact fun r hr => hall r (List.mem_of_mem_take hr)
  have hall2 : (rows.drop h).all (fun row => !row.isEmpty) = true := by
    rw [List.all_eq_true] at hall ⊢; exact fun r hr => hall r (List.mem_of_mem_drop hr)
  rw [h1, crun_wrap tThead (by decide) (by decide), crun_rows tTh (Or.inr rfl) _ hall1,
    crun_wrap tTbody (by decide) (by decide), crun_rows tTd (Or.inl rfl) _ hall2]
  have hg : (rows.take h).map (fun row => row.map S2T.HtmlSkip.Epub.cellText) ++ (rows.drop h).map (fun row => row.map S2T.HtmlSkip.Epub.cellText)
      = gridOfE (h, rows) := by
    rw [← List.map_append, List.take_append_drop]; rfl
  have hgne : (gridOfE (h, rows)).isEmpty = false := by
    cases rows <;> simp_all [gridOfE]
  simp only [List.nil_append]
  rw [hg]
  have hrows : rows ≠ [] := by cases rows <;> simp_all
  have hcr : (if (rows.drop h).isEmpty then (if (rows.take h).isEmpty then cr else []) else []) = ([] : List Str)
      ∧ (if (rows.drop h).isEmpty then (if (rows.take h).isEmpty then cc else []) else []) = ([] : List Str) := by
    by_cases hd : (rows.drop h).isEmpty = true
    · have hd' : rows.drop h = [] := by simpa using hd
      have : rows.take h ≠ [] := by
        intro ht; have := List.take_append_drop h rows; rw [ht, hd'] at this; exact hrows this.symm
      have : (rows.take h).isEmpty = false := by cases hh : rows.take h <;> simp_all
      simp [hd, this]
    · simp [hd]
  rw [hcr.1, hcr.2]
  simp [crun, cstep, cend, tTitle, tTable, hgne]
  try decide

theorem crun_blk (b : EBlk) (hp : b.proper = true) (T : List Grid) (ct : Grid) (cr cc : List Str) (it : Bool) :
    ∃ ct' cr' cc' it', crun ⟨T, ct, cr, cc, it, false, false⟩ b.evs = ⟨T ++ b.tables, ct', cr', cc', it', false, false⟩ := by
  cases b with
  | para s =>
    refine ⟨ct, cr, cc, it, ?_⟩
    cases it <;> (simp [EBlk.evs, EBlk.tables, crun, paraEvs, cstep, cstart, cend, cdata, tP, tTitle, tTable, tTr, tTd, tTh]; try decide)
  | tbl t => exact ⟨[], [], [], false, by simpa [EBlk.evs, EBlk.tables] using crun_table t hp T ct cr cc it⟩

/-- a written chapter: its tables come back in order, each r × c with the words of every cell -/
theorem crun_doc (doc : List EBlk) (hp : doc.all EBlk.proper = true) (T : List Grid) (ct : Grid) (cr cc : List Str) (it : Bool) :
    (crun ⟨T, ct, cr, cc, it, false, false⟩ (doc.flatMap EBlk.evs)).tables = T ++ doc.flatMap EBlk.tables := by
  induction doc generalizing T ct cr cc it with
  | nil => simp [crun]
  | cons b r ih =>
    simp only [List.all_cons, Bool.and_eq_true] at hp
    obtain ⟨ct', cr', cc', it', h⟩ := crun_blk b hp.1 T ct cr cc it
    rw [List.flatMap_cons, crun_append, h, ih hp.2]
    simp

/-! ## through the skip gate (C17): handler calls of a written chapter -/

def itemOf : DEv → Item
  | .start t a => .open_ t a
  | .end_ t => .close t
  | .data s => .text s

/-- the handler calls `HTMLParser` makes for the chapter -/
def chapterEvents (doc : List EBlk) : List Ev := events ((doc.flatMap EBlk.evs).map itemOf)

def usedTags : List Str := [tTable, tThead, tTbody, tTr, tTd, tTh, tP]

theorem downEvents_items (evs : List DEv) : downEvents (evs.map itemOf) = evs := by
  induction evs with
  | nil => rfl
  | cons e r ih =>
    have : downEvents ((e :: r).map itemOf) = (itemOf e).downEvents ++ downEvents (r.map itemOf) := by simp [downEvents]
    rw [this, ih]
    cases e <;> rfl

def startTagsIn (tags : List Str) (evs : List DEv) : Bool :=
  evs.all (fun e => match e with | .start t _ => tags.contains t | _ => true)

theorem docOk_items (T : Tables) (evs : List DEv) (h : startTagsIn usedTags evs = true)
    (hT : usedTags.all (fun t => !T.remove.contains t) = true) : DocOk T (evs.map itemOf) = true := by
  simp only [DocOk, List.all_map, List.all_eq_true, startTagsIn] at *
  intro e he
  have := h e he
  cases e with
  | start t a =>
    simp only at this
    have h2 := hT t (by simpa using this)
    simpa [itemOf, ItemOk] using h2
  | end_ t => simp [itemOf, ItemOk]
  | data s => simp [itemOf, ItemOk]

theorem startTags_append (tags : List Str) (a b : List DEv) :
    startTagsIn tags (a ++ b) = (startTagsIn tags a && startTagsIn tags b) := by
  simp [startTagsIn, List.all_append]

theorem startTags_flatMap {α : Type} (tags : List Str) (l : List α) (f : α → List DEv) (h : ∀ a ∈ l, startTagsIn tags (f a) = true) :
    startTagsIn tags (l.flatMap f) = true := by
  induction l with
  | nil => rfl
  | cons a r ih =>
    rw [List.flatMap_cons, startTags_append, h a (by simp), ih (fun b hb => h b (by simp [hb]))]
    rfl

theorem startTags_doc (doc : List EBlk) : startTagsIn usedTags (doc.flatMap EBlk.evs) = true := by
  have hpara : ∀ p, startTagsIn usedTags (paraEvs p) = true := by intro p; simp [startTagsIn, paraEvs, usedTags]
  have hcell : ∀ tag, tag = tTd ∨ tag = tTh → ∀ cell, startTagsIn usedTags (cellEvs tag cell) = true := by
    intro tag ht cell
    unfold cellEvs
    rw [startTags_append, startTags_append, startTags_flatMap _ _ _ (fun p _ => hpara p)]
    rcases ht with rfl | rfl <;> simp [startTagsIn, usedTags]
  have hrow : ∀ tag, tag = tTd ∨ tag = tTh → ∀ row, startTagsIn usedTags (rowEvs tag row) = true := by
    intro tag ht row
    unfold rowEvs
    rw [startTags_append, startTags_append, startTags_flatMap _ _ _ (fun c _ => hcell tag ht c)]
    simp [startTagsIn, usedTags]
  have hwrap : ∀ w, usedTags.contains w = true → ∀ evs, startTagsIn usedTags evs = true → startTagsIn usedTags (wrapEvs w evs) = true := by
    intro w hw evs he
    unfold wrapEvs
    split
    · rfl
    · rw [startTags_append, startTags_append, he]
      have hw' : w ∈ usedTags := by simpa using hw
      simp [startTagsIn, hw']
  apply startTags_flatMap
  intro b _
  cases b with
  | para s => exact hpara s
  | tbl t =>
    simp only [EBlk.evs, tableEvs]
    rw [startTags_append, startTags_append, startTags_append,
      hwrap tThead (by decide) _ (startTags_flatMap _ _ _ (fun r _ => hrow tTh (Or.inr rfl) r)),
      hwrap tTbody (by decide) _ (startTags_flatMap _ _ _ (fun r _ => hrow tTd (Or.inl rfl) r))]
    simp [startTagsIn, usedTags]

/-- EPUB: the tables `_XhtmlTextExtractor` has collected after the handler calls of a written chapter
    (tables 1..R × 1..C without tables inside cells, each paragraph one text chunk) -/
theorem tables_chapter (T : Tables) (block : List Str) (hT : usedTags.all (fun t => !T.remove.contains t) = true)
    (doc : List EBlk) (hp : doc.all EBlk.proper = true) :
    (run T (S2T.HtmlSkip.Epub.down block) (init S2T.HtmlSkip.Epub.initState) (chapterEvents doc)).down.tables
      = doc.flatMap EBlk.tables := by
  unfold chapterEvents
  rw [run_doc T _ _ _ (docOk_items T _ (startTags_doc doc) hT) ⟨rfl, rfl⟩, downEvents_items]
  simp only [init]
  have := core_feed block S2T.HtmlSkip.Epub.initState (doc.flatMap EBlk.evs)
  have h2 := crun_doc doc hp [] [] [] [] false
  have e : core S2T.HtmlSkip.Epub.initState = ⟨[], [], [], [], false, false, false⟩ := rfl
  rw [e] at this
  have h3 : ((S2T.HtmlSkip.Epub.down block).feed S2T.HtmlSkip.Epub.initState (doc.flatMap EBlk.evs)).tables
      = (core ((S2T.HtmlSkip.Epub.down block).feed S2T.HtmlSkip.Epub.initState (doc.flatMap EBlk.evs))).tables := rfl
  rw [h3, this, h2]
  simp

end S2T.Tables.Epub
