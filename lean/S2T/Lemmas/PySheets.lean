import S2T.Lemmas.Py
import S2T.Lemmas.PyPaths
import S2T.Lemmas.PyBytes
import S2T.Py.Sheets
/-!
Generic lemmas for the equivalence proofs of the sheet shaping code (`Props/C13_Src.lean`,
`Props/C02_SheetsSrc.lean`).  Core Lean only.  Namespace `S2T.Py.Sheets`.

Loop lemmas are stated for an ARBITRARY body `f` with the hypothesis "`f` agrees with the model's step" (the part
files discharge it with `simp` / `split`), never for the generated term.
-/
namespace S2T.Py.Sheets
open S2T.Py S2T.Tables

/-- induction from the end of a list (core only) -/
theorem rev_ind {α} {P : List α → Prop} (nil : P []) (snoc : ∀ ys a, P ys → P (ys ++ [a])) (xs : List α) : P xs := by
  have h : ∀ r : List α, P r.reverse := by
    intro r
    induction r with
    | nil => exact nil
    | cons a r ih => rw [List.reverse_cons]; exact snoc _ _ ih
  have := h xs.reverse
  rwa [List.reverse_reverse] at this

/-! ## loops -/

/-- a loop whose body first runs the effects `g x` and then updates the state purely: the effects of all
    iterations in order (`mapM` stops at the first exception, like the loop), then the fold -/
theorem forIn_mapM_fold {α β σ} (g : α → M β) (step : σ → β → σ) (xs : List α) (f : α → σ → M (ForInStep σ))
    (hf : ∀ x s, f x s = g x >>= fun y => Except.ok (ForInStep.yield (step s y))) (s : σ) :
    forIn xs s f = xs.mapM g >>= fun ys => Except.ok (ys.foldl step s) := by
  induction xs generalizing s with
  | nil => rfl
  | cons x r ih =>
    simp only [List.forIn_cons, hf, List.mapM_cons]
    cases hg : g x with
    | error e => rfl
    | ok y =>
      simp only [M.ok_bind, ih, bind_assoc, M.pure_def]
      cases hr : List.mapM g r with
      | error e => rfl
      | ok ys => rfl

/-! ### the order of the loop state

Lean's `do` notation carries the mutable variables of a loop as a tuple in DECLARATION order, so re-ordering independent
`x = …` statements in the source permutes the tuple.  `forIn_conj` moves a loop to any other presentation of its state: the part files rewrite with a loop lemma stated for the
model's order either directly or after one of the listed conjugations
(`first | rw [L] | (rw [forIn_conj e e' (fun _ => rfl)]; rw [L]) | …`, each `e`, `e'` a fully typed re-arrangement). -/

def stepMap {σ τ} (e : σ → τ) : ForInStep σ → ForInStep τ
  | .yield a => .yield (e a)
  | .done a => .done (e a)

@[simp] theorem stepMap_yield {σ τ} (e : σ → τ) (a : σ) : stepMap e (.yield a) = .yield (e a) := rfl
@[simp] theorem stepMap_done {σ τ} (e : σ → τ) (a : σ) : stepMap e (.done a) = .done (e a) := rfl

theorem forIn_conj {α σ τ} (e : σ → τ) (e' : τ → σ) (he : ∀ s, e' (e s) = s) (xs : List α) (s : σ)
    (f : α → σ → M (ForInStep σ)) :
    forIn xs s f = (forIn xs (e s) (fun x t => f x (e' t) >>= fun r => Except.ok (stepMap e r))) >>= fun t => Except.ok (e' t) := by
  induction xs generalizing s with
  | nil => simp [he]
  | cons x r ih =>
    simp only [List.forIn_cons, he, bind_assoc]
    cases hf : f x s with
    | error err => rfl
    | ok st =>
      cases st with
      | done a => simp [he]
      | yield a => simp [ih]

/-- a loop whose body cannot raise and does not leave the loop (body known on the elements of the list) -/
theorem forIn_ok_fold {β σ} (g : σ → β → σ) (l : List β) (f : β → σ → M (ForInStep σ))
    (h : ∀ b ∈ l, ∀ s, f b s = Except.ok (ForInStep.yield (g s b))) (s : σ) :
    forIn l s f = Except.ok (l.foldl g s) :=
  (forIn_fold (fun _ => True) g l f (fun b hb s _ => ⟨h b hb s, trivial⟩) s trivial).1


/-! ## indexing -/

theorem listGetItem_natCast {α} (l : List α) (i : Nat) (h : i < l.length) : listGetItem l (i : Int) = Except.ok l[i] := by
  unfold listGetItem
  have h1 : ¬ ((i : Int) < 0) := by omega
  simp [h1, h]

theorem listGetItem_append_last {α} (ys : List α) (a : α) : listGetItem (ys ++ [a]) (-1) = Except.ok a := by
  unfold listGetItem
  have e : (-1 : Int) + ((ys ++ [a]).length : Int) = (ys.length : Int) := by simp; omega
  have h1 : ¬ ((ys.length : Int) < 0) := by omega
  simp only [show ((-1 : Int) < 0) from by decide, if_true, e, h1, if_false, Int.toNat_natCast]
  simp

@[simp] theorem truthy_append_singleton {α} (ys : List α) (a : α) : truthy (ys ++ [a]) = true := by
  simp [truthy_list]

theorem listPop_append_last {α} (ys : List α) (a : α) : listPop (ys ++ [a]) = Except.ok (ys, a) := by
  rw [listPop_of_ne_nil _ (by simp)]
  simp

/-! ## ranges -/

theorem rangeI_zero (w : Int) : rangeI 0 w = (List.range w.toNat).map (fun (k : Nat) => (k : Int)) := by
  simp [rangeI]

theorem range_countdown (n : Nat) :
    (List.range n).map (fun (k : Nat) => (n : Int) - 1 - (k : Int)) = (List.range n).reverse.map (fun (k : Nat) => (k : Int)) := by
  induction n with
  | zero => rfl
  | succ n ih =>
    have e1 : List.range (n + 1) = 0 :: (List.range n).map Nat.succ := List.range_succ_eq_map
    have e2 : (List.range (n + 1)).reverse = n :: (List.range n).reverse := by
      rw [List.range_succ, List.reverse_append]; rfl
    rw [e2]
    conv => lhs; rw [e1]
    rw [List.map_cons, List.map_map, List.map_cons, ← ih]
    congr 1
    · simp
    · apply List.map_congr_left
      intro k _; simp; omega

/-- `range(n - 1, -1, -1)`: `n - 1, …, 0` -/
theorem rangeStep_down_all (n : Nat) :
    rangeStep ((n : Int) - 1) (-1) (-1) = (List.range n).reverse.map (fun (k : Nat) => (k : Int)) := by
  rw [← range_countdown]
  unfold rangeStep
  have e : ((((n : Int) - 1 - -1) + -(-1 : Int) - 1) / -(-1 : Int)).toNat = n := by
    have : ((n : Int) - 1 - -1) + -(-1 : Int) - 1 = (n : Int) := by omega
    rw [this]; simp
  simp only [e]
  simp
  intro a _; omega

/-- `for i in range(w)` with a body that cannot raise and does not leave the loop -/
theorem forIn_rangeI_fold {σ} (g : σ → Nat → σ) (w : Int) (f : Int → σ → M (ForInStep σ))
    (hf : ∀ (i : Nat), i < w.toNat → ∀ s, f (i : Int) s = Except.ok (ForInStep.yield (g s i))) (s : σ) :
    forIn (rangeI 0 w) s f = Except.ok ((List.range w.toNat).foldl g s) := by
  rw [rangeI_zero, List.forIn_map]
  exact forIn_ok_fold g _ _ (fun i hi s => hf i (List.mem_range.mp hi) s) s

/-! ## the backwards scan `for i in range(len(row) - 1, -1, -1): if p(row[i]): m = max(m, i + 1); break` -/

theorem lastIdx_append_singleton {α} (p : α → Bool) (ys : List α) (a : α) :
    Xlsx.lastIdx p (ys ++ [a]) = if p a then ys.length + 1 else Xlsx.lastIdx p ys := by
  induction ys with
  | nil => simp [Xlsx.lastIdx]
  | cons y r ih =>
    simp only [List.cons_append, Xlsx.lastIdx, ih, List.length_cons]
    by_cases hp : p a = true
    · simp [hp]
    · simp [hp]

theorem forIn_scan_lastIdx {α} (p : α → Bool) (row : List α) (f : Int → Int → M (ForInStep Int))
    (hf : ∀ (i : Nat) (h : i < row.length) (acc : Int), f (i : Int) acc =
      if p row[i] = true then Except.ok (ForInStep.done (max acc ((i : Int) + 1))) else Except.ok (ForInStep.yield acc))
    (acc : Int) (hacc : 0 ≤ acc) :
    forIn (rangeStep (len row - 1) (-1) (-1)) acc f = Except.ok (max acc (Xlsx.lastIdx p row : Int)) := by
  simp only [len]
  rw [rangeStep_down_all, List.forIn_map]
  induction row using rev_ind with
  | nil => simp [Xlsx.lastIdx]; omega
  | snoc ys a ih =>
    simp only [List.length_append, List.length_singleton, List.range_succ, List.reverse_append, List.reverse_singleton,
      List.singleton_append, List.forIn_cons]
    have hlast := hf ys.length (by simp) acc
    simp only [List.getElem_concat_length] at hlast
    rw [hlast, lastIdx_append_singleton]
    by_cases hp : p a = true
    · simp [hp]
    · simp only [hp, if_false, Bool.false_eq_true, M.ok_bind]
      apply ih
      intro i hi acc'
      have := hf i (by simp; omega) acc'
      rw [List.getElem_append_left hi] at this
      exact this

/-- closes the body obligation of the scans (`hf` of `forIn_scan_lastIdx` / `forIn_scan_return`) after the indexed read has
    been rewritten: by `rfl`, or — when the source writes `max(i + 1, m)`, a negated test, … — by splitting the test -/
macro "py_scan_leaf" : tactic => `(tactic| first
  | rfl
  | (simp only [M.ok_bind]; split <;> first | rfl | (simp_all [Int.max_comm]; done) | (simp_all; omega)))

/-- the same scan leaving the function: `for i in range(len(rows) - 1, -1, -1): if p(rows[i]): return i + 1`
    (Lean's encoding of an early `return` in a loop without mutable variables: state `(Option result, ())`) -/
theorem forIn_scan_return {α} (p : α → Bool) (rows : List α) (f : Int → Option Int × Unit → M (ForInStep (Option Int × Unit)))
    (hf : ∀ (i : Nat) (h : i < rows.length) (s : Option Int × Unit), f (i : Int) s =
      if p rows[i] = true then Except.ok (ForInStep.done (some ((i : Int) + 1), ())) else Except.ok (ForInStep.yield (none, ()))) :
    forIn (rangeStep (len rows - 1) (-1) (-1)) (none, ()) f =
      Except.ok (if Xlsx.lastIdx p rows = 0 then none else some (Xlsx.lastIdx p rows : Int), ()) := by
  simp only [len]
  rw [rangeStep_down_all, List.forIn_map]
  induction rows using rev_ind with
  | nil => simp [Xlsx.lastIdx]
  | snoc ys a ih =>
    simp only [List.length_append, List.length_singleton, List.range_succ, List.reverse_append, List.reverse_singleton,
      List.singleton_append, List.forIn_cons]
    have hlast := hf ys.length (by simp) (none, ())
    simp only [List.getElem_concat_length] at hlast
    rw [hlast, lastIdx_append_singleton]
    by_cases hp : p a = true
    · simp [hp]
    · simp only [hp, if_false, Bool.false_eq_true, M.ok_bind]
      apply ih
      intro i hi s
      have := hf i (by simp; omega) s
      rw [List.getElem_append_left hi] at this
      exact this

/-- the scan over all rows: `for row in rows: <scan row>` keeps the maximum (ANY body that agrees with the model's
    step on non-negative counts) -/
theorem forIn_scan_rows {α} (p : α → Bool) (T : List (List α)) (f : List α → Int → M (ForInStep Int))
    (hf : ∀ row ∈ T, ∀ acc : Int, 0 ≤ acc → f row acc = Except.ok (ForInStep.yield (max acc (Xlsx.lastIdx p row : Int)))) :
    forIn T 0 f = Except.ok ((T.foldl (fun m row => max m (Xlsx.lastIdx p row)) 0 : Nat) : Int) := by
  have key : ∀ (T : List (List α)) (m : Nat), (∀ row ∈ T, ∀ acc : Int, 0 ≤ acc → f row acc =
      Except.ok (ForInStep.yield (max acc (Xlsx.lastIdx p row : Int)))) →
      forIn T (m : Int) f = Except.ok ((T.foldl (fun m row => max m (Xlsx.lastIdx p row)) m : Nat) : Int) := by
    intro T
    induction T with
    | nil => intro m _; rfl
    | cons r rs ih =>
      intro m h
      rw [List.forIn_cons, h r (List.mem_cons_self ..) m (by omega)]
      simp only [M.ok_bind, List.foldl_cons]
      rw [← ih _ (fun row hr => h row (List.mem_cons_of_mem _ hr))]
      congr 1
      omega
  exact key T 0 hf

/-! ## comprehensions / `any` whose body cannot raise after all -/

theorem anyM_ok {α} (p : α → Bool) (l : List α) : List.anyM (fun x => (Except.ok (p x) : M Bool)) l = Except.ok (l.any p) := by
  induction l with
  | nil => rfl
  | cons a r ih =>
    simp only [List.anyM, List.any_cons]
    cases p a <;> simp [ih]

theorem allM_ok {α} (p : α → Bool) (l : List α) : List.allM (fun x => (Except.ok (p x) : M Bool)) l = Except.ok (l.all p) := by
  induction l with
  | nil => rfl
  | cons a r ih =>
    simp only [List.allM, List.all_cons]
    cases p a <;> simp [ih]

theorem filterMapM_ok {α β} (g : α → Option β) (l : List α) (f : α → M (Option β)) (h : ∀ a ∈ l, f a = Except.ok (g a)) :
    filterMapM f l = Except.ok (l.filterMap g) := by
  induction l with
  | nil => rfl
  | cons a r ih =>
    simp only [filterMapM, h a (List.mem_cons_self ..), ih (fun a' ha' => h a' (List.mem_cons_of_mem _ ha')), M.ok_bind,
      M.pure_def, List.filterMap_cons]
    cases g a <;> rfl

/-! ## `enumerate` -/

theorem map_enumFrom {α β} (F : Int × α → β) (k : Nat) (l : List α) :
    (enumFrom k l).map F = List.zipWith (fun (i : Nat) v => F ((i : Int), v)) (List.range' k l.length) l := by
  induction l generalizing k with
  | nil => rfl
  | cons a r ih => simp [enumFrom, List.range'_succ, ih]

theorem map_enumerate {α β} (F : Int × α → β) (l : List α) :
    (enumerate l).map F = List.zipWith (fun (i : Nat) v => F ((i : Int), v)) (List.range l.length) l := by
  rw [enumerate, map_enumFrom, List.range_eq_range']

theorem mem_enumFrom {α} {k : Nat} {l : List α} {x : Int × α} (h : x ∈ enumFrom k l) :
    ∃ j : Nat, x.1 = ((k + j : Nat) : Int) ∧ l[j]? = some x.2 := by
  induction l generalizing k with
  | nil => simp [enumFrom] at h
  | cons a r ih =>
    simp only [enumFrom, List.mem_cons] at h
    rcases h with h | h
    · subst h; exact ⟨0, by simp, by simp⟩
    · obtain ⟨j, h1, h2⟩ := ih h
      exact ⟨j + 1, by rw [h1]; congr 1; omega, by simpa using h2⟩

theorem mem_enumerate {α} {l : List α} {x : Int × α} (h : x ∈ enumerate l) : ∃ j : Nat, x.1 = (j : Int) ∧ l[j]? = some x.2 := by
  obtain ⟨j, h1, h2⟩ := mem_enumFrom h
  exact ⟨j, by simpa using h1, h2⟩

/-- two `zipWith`s over the index range agree if the functions agree at every index -/
theorem zipWith_range'_congr {α β} (f g : Nat → α → β) (l : List α) (k : Nat)
    (h : ∀ (j : Nat) (hj : j < l.length), f (k + j) l[j] = g (k + j) l[j]) :
    List.zipWith f (List.range' k l.length) l = List.zipWith g (List.range' k l.length) l := by
  induction l generalizing k with
  | nil => rfl
  | cons a r ih =>
    simp only [List.length_cons, List.range'_succ, List.zipWith_cons_cons]
    congr 1
    · have h0 := h 0 (by simp)
      simp only [List.getElem_cons_zero, Nat.add_zero] at h0
      exact h0
    · apply ih
      intro j hj
      have := h (j + 1) (by simp; omega)
      simpa [Nat.add_assoc, Nat.add_comm 1 j] using this

theorem pSlice_take {α} (xs : List α) (i : Nat) : pSlice xs none (some (i : Int)) = xs.take i := by
  have h : ¬ ((i : Int) < 0) := by omega
  simp [pSlice, pClampIndex, h]

theorem pSlice_drop {α} (xs : List α) (i : Nat) : pSlice xs (some (i : Int)) none = xs.drop i := by
  have h : ¬ ((i : Int) < 0) := by omega
  simp only [pSlice, pClampIndex, h, if_false, Int.toNat_natCast, List.take_length]
  by_cases hi : i ≤ xs.length
  · rw [Nat.min_eq_left hi]
  · rw [Nat.min_eq_right (by omega), List.drop_of_length_le (Nat.le_refl _), List.drop_of_length_le (by omega)]

theorem listGetItem_cons_zero {α} (a : α) (r : List α) : listGetItem (a :: r) 0 = Except.ok a := by
  simp [listGetItem]

/-! ## `sep.join` -/

theorem strJoin_eq_join (sep : Py.Str) (l : List Py.Str) : strJoin sep l = S2T.Tok.join sep l := by
  induction l with
  | nil => rfl
  | cons a r ih =>
    cases r with
    | nil => rfl
    | cons b r' => simp only [strJoin, S2T.Tok.join, ih]

theorem bne_nil {α} [BEq α] (l : List α) : (l != []) = !l.isEmpty := by cases l <;> rfl

theorem intStr_natCast (i : Nat) : intStr (i : Int) = (toString i).toList := rfl

/-! ## `while xs and p(xs[-1]): xs.pop()` -/

theorem whileM_trim {α} (p : α → Bool) (test : List α → M Bool) (body : List α → M (List α))
    (h0 : test [] = Except.ok false) (h1 : ∀ ys a, test (ys ++ [a]) = Except.ok (p a))
    (hb : ∀ ys a, body (ys ++ [a]) = Except.ok ys) (xs : List α) :
    whileM List.length test body xs = Except.ok (xs.reverse.dropWhile p).reverse := by
  induction xs using rev_ind with
  | nil => rw [whileM, h0]; rfl
  | snoc ys a ih =>
    rw [whileM, h1]
    by_cases hp : p a = true
    · simp only [hp, hb, List.length_append, List.length_singleton, Nat.lt_add_one, if_true, ih]
      simp [hp]
    · simp only [hp]
      simp [hp]

end S2T.Py.Sheets
