import S2T.Model.Archive
/-! Helper lemmas for C09: splitting on '/', normal form of `normpath`, `_safe_join`. -/
namespace S2T.Archive
open S2T.Router (Str)

/-! ### split -/

theorem splitOn_nil (sep : Char) : splitOn sep [] = [[]] := rfl

theorem splitOn_cons_sep (sep : Char) (r : Str) : splitOn sep (sep :: r) = [] :: splitOn sep r := by
  simp [splitOn, splitAux]

theorem splitOn_cons_ne (sep c : Char) (r : Str) (h : c ≠ sep) :
    splitOn sep (c :: r) = (c :: (splitAux sep r).1) :: (splitAux sep r).2 := by
  simp [splitOn, splitAux, h]

/-- `(a + sep + b).split(sep) == a.split(sep) + b.split(sep)` -/
theorem splitOn_append (sep : Char) (a b : Str) :
    splitOn sep (a ++ sep :: b) = splitOn sep a ++ splitOn sep b := by
  induction a with
  | nil => simp [splitOn_cons_sep, splitOn_nil]
  | cons c a ih =>
    by_cases hc : c = sep
    · subst hc
      simp only [List.cons_append, splitOn_cons_sep, ih]
    · simp only [List.cons_append, splitOn_cons_ne _ _ _ hc]
      have : splitOn sep (a ++ sep :: b) = (splitAux sep a).1 :: ((splitAux sep a).2 ++ splitOn sep b) := by
        rw [ih]; rfl
      simp only [splitOn] at this
      injection this with h1 h2
      rw [h1, h2]
      simp [splitOn]

theorem comps_append_slash (a b : Str) : comps (a ++ '/' :: b) = comps a ++ comps b := by
  simp [comps, splitOn_append, List.filter_append]

theorem splitOn_noSep (sep : Char) (p : Str) : ∀ c ∈ splitOn sep p, sep ∉ c := by
  induction p with
  | nil => simp [splitOn_nil]
  | cons x r ih =>
    by_cases hx : x = sep
    · subst hx
      rw [splitOn_cons_sep]
      intro c hc
      rcases List.mem_cons.mp hc with h | h
      · subst h; simp
      · exact ih c h
    · rw [splitOn_cons_ne _ _ _ hx]
      intro c hc
      rcases List.mem_cons.mp hc with h | h
      · subst h
        have := ih (splitAux sep r).1 (by simp [splitOn])
        intro hm
        rcases List.mem_cons.mp hm with h' | h'
        · exact hx h'.symm
        · exact this h'
      · exact ih c (by simp [splitOn, h])

theorem splitOn_of_noSep (sep : Char) (c : Str) (h : sep ∉ c) : splitOn sep c = [c] := by
  induction c with
  | nil => rfl
  | cons x r ih =>
    have hx : x ≠ sep := by intro e; apply h; simp [e]
    have hr : sep ∉ r := by intro e; apply h; simp [e]
    rw [splitOn_cons_ne _ _ _ hx]
    have := ih hr
    simp only [splitOn] at this
    injection this with h1 h2
    rw [h1, h2]

theorem splitOn_replicate_append (k : Nat) (x : Str) :
    splitOn '/' (List.replicate k '/' ++ x) = List.replicate k [] ++ splitOn '/' x := by
  induction k with
  | zero => simp
  | succ n ih => simp [List.replicate_succ, splitOn_cons_sep, ih]

theorem mem_splitOn_joinSlash (cs : List Str) (h : ∀ c ∈ cs, '/' ∉ c) :
    ∀ x ∈ splitOn '/' (joinSlash cs), x ∈ cs ∨ x = [] := by
  induction cs with
  | nil => simp [joinSlash, splitOn_nil]
  | cons c r ih =>
    cases r with
    | nil =>
      simp only [joinSlash]
      rw [splitOn_of_noSep _ _ (h c (by simp))]
      simp
    | cons c2 r2 =>
      simp only [joinSlash]
      rw [splitOn_append, splitOn_of_noSep _ _ (h c (by simp))]
      intro x hx
      rcases List.mem_append.mp hx with hx | hx
      · left; simp at hx; simp [hx]
      · have := ih (fun c hc => h c (List.mem_cons_of_mem _ hc)) x (by simpa [joinSlash] using hx)
        rcases this with h1 | h1
        · left; exact List.mem_cons_of_mem _ h1
        · right; exact h1

/-! ### normal form -/

/-- a path component that names an entry: not empty, not `.`, not `..`, without a slash -/
def Clean (c : Str) : Prop := c ≠ [] ∧ c ≠ dot ∧ c ≠ dotdot ∧ '/' ∉ c

theorem normStep_clean (st : List Str) (c : Str) (hst : ∀ x ∈ st, Clean x) (hc : '/' ∉ c) :
    ∀ x ∈ normStep true st c, Clean x := by
  unfold normStep
  split
  · exact hst
  · rename_i h1
    split
    · rename_i h2
      -- the pushed component is neither "", ".", nor ".." (abs: `..` is only pushed onto `..`, which a clean stack never has)
      have hne : c ≠ [] ∧ c ≠ dot := by
        simp only [Bool.or_eq_true, List.isEmpty_iff, beq_iff_eq, not_or] at h1
        exact h1
      have hdd : c ≠ dotdot := by
        intro e
        subst e
        simp only [bne_self_eq_false, Bool.not_true, Bool.false_and, Bool.or_false, Bool.false_or, beq_iff_eq] at h2
        cases st with
        | nil => simp at h2
        | cons a r =>
          simp only [List.head?_cons, Option.some.injEq] at h2
          exact (hst a (by simp)).2.2.1 h2
      intro x hx
      rcases List.mem_cons.mp hx with e | e
      · subst e; exact ⟨hne.1, hne.2, hdd, hc⟩
      · exact hst x e
    · intro x hx
      exact hst x (List.mem_of_mem_tail hx)

theorem foldl_normStep_clean (cs : List Str) (st : List Str) (hst : ∀ x ∈ st, Clean x)
    (hcs : ∀ c ∈ cs, '/' ∉ c) : ∀ x ∈ cs.foldl (normStep true) st, Clean x := by
  induction cs generalizing st with
  | nil => simpa using hst
  | cons c r ih =>
    simp only [List.foldl_cons]
    exact ih _ (normStep_clean st c hst (hcs c (by simp))) (fun c hc => hcs c (List.mem_cons_of_mem _ hc))

theorem initialSlashes_pos (q : Str) (h : isAbs q = true) : initialSlashes q ≠ 0 := by
  unfold isAbs at h
  cases q with
  | nil => simp at h
  | cons a r =>
    simp only [List.head?_cons, beq_iff_eq, Option.some.injEq] at h
    subst h
    unfold initialSlashes
    split <;> simp_all

/-- every component of the normal form of an absolute path names an entry -/
theorem comps_normpath_clean (q : Str) (h : isAbs q = true) : ∀ c ∈ comps (normpath q), Clean c := by
  have hk := initialSlashes_pos q h
  have hq : q.isEmpty = false := by
    cases q with
    | nil => simp [isAbs] at h
    | cons _ _ => rfl
  have hcl : ∀ x ∈ normComps true (splitOn '/' q), Clean x := by
    intro x hx
    unfold normComps at hx
    exact foldl_normStep_clean _ [] (by simp) (splitOn_noSep '/' q) x (List.mem_reverse.mp hx)
  intro c hc
  unfold normpath at hc
  simp only [hq, Bool.false_eq_true, if_false] at hc
  have hkb : (initialSlashes q != 0) = true := by simp [hk]
  rw [hkb] at hc
  have hne : (List.replicate (initialSlashes q) '/' ++ joinSlash (normComps true (splitOn '/' q))).isEmpty = false := by
    cases hi : initialSlashes q with
    | zero => exact absurd hi hk
    | succ n => simp [List.replicate_succ]
  simp only [hne, Bool.false_eq_true, if_false] at hc
  unfold comps at hc
  rw [splitOn_replicate_append] at hc
  obtain ⟨hm, hnz⟩ := List.mem_filter.mp hc
  rcases List.mem_append.mp hm with h1 | h1
  · have := List.eq_of_mem_replicate h1
    subst this; simp at hnz
  · rcases mem_splitOn_joinSlash _ (fun c hc => (hcl c hc).2.2.2) c h1 with h2 | h2
    · exact hcl c h2
    · subst h2; simp at hnz

theorem isAbs_join_of_abs (a b : Str) (ha : isAbs a = true) : isAbs (join a b) = true := by
  unfold join
  split
  · rename_i h; simpa [isAbs] using h
  · cases a with
    | nil => simp [isAbs] at ha
    | cons x r =>
      split <;> simpa [isAbs] using ha

/-- the normal form of an absolute path is absolute -/
theorem isAbs_normpath (q : Str) (h : isAbs q = true) : isAbs (normpath q) = true := by
  have hk := initialSlashes_pos q h
  have hq : q.isEmpty = false := by
    cases q with
    | nil => simp [isAbs] at h
    | cons _ _ => rfl
  unfold normpath
  simp only [hq, Bool.false_eq_true, if_false]
  cases hi : initialSlashes q with
  | zero => exact absurd hi hk
  | succ n => simp [List.replicate_succ, isAbs]

/-- `p` is lexically inside (or equal to) `base`: it adds only entry names to `base`'s components -/
def Inside (base p : Str) : Prop := ∃ s, comps p = comps base ++ s ∧ ∀ c ∈ s, Clean c

/-- what `_safe_join` returns, for an absolute base that is its own normal form (as `mkdtemp` returns) -/
theorem safeJoin_inside (cwd base rel p : Str) (habs : isAbs base = true) (hnorm : normpath base = base)
    (h : safeJoin cwd base rel = .ok p) : isAbs p = true ∧ Inside base p := by
  have hbase : abspath cwd base = base := by simp [abspath, habs, hnorm]
  unfold safeJoin at h
  split at h
  · cases h; exact ⟨habs, [], by simp, by simp⟩
  · split at h
    · cases h
    · dsimp only at h
      rw [hbase] at h
      have hj : isAbs (join base rel) = true := isAbs_join_of_abs _ _ habs
      have ht : abspath cwd (join base rel) = normpath (join base rel) := by simp [abspath, hj]
      rw [ht] at h
      have hclean := comps_normpath_clean _ hj
      have habsp := isAbs_normpath _ hj
      split at h
      · rename_i heq
        cases h
        refine ⟨habsp, [], ?_, by simp⟩
        have : normpath (join base rel) = base := by simpa using heq
        simp [this]
      · split at h
        · rename_i hpre
          cases h
          refine ⟨habsp, ?_⟩
          obtain ⟨rest, hrest⟩ := List.isPrefixOf_iff_prefix.mp hpre
          have hp : normpath (join base rel) = base ++ '/' :: rest := by
            rw [← hrest]; simp
          refine ⟨comps rest, ?_, ?_⟩
          · rw [hp, comps_append_slash]
          · intro c hc
            apply hclean
            rw [hp, comps_append_slash]
            exact List.mem_append_right _ hc
        · cases h

/-! ### dirname / basename -/

theorem takeWhile_dropWhile_rev (p : Str) :
    (p.reverse.dropWhile (· != '/')).reverse ++ (p.reverse.takeWhile (· != '/')).reverse = p := by
  rw [← List.reverse_append, List.takeWhile_append_dropWhile, List.reverse_reverse]

theorem mem_takeWhile_holds {α} (q : α → Bool) (l : List α) : ∀ x ∈ l.takeWhile q, q x = true := by
  induction l with
  | nil => simp
  | cons a r ih =>
    intro x hx
    by_cases ha : q a = true
    · simp only [List.takeWhile_cons, ha, if_true] at hx
      rcases List.mem_cons.mp hx with e | e
      · subst e; exact ha
      · exact ih x e
    · simp [ha] at hx

theorem basename_noSlash (p : Str) : '/' ∉ basename p := by
  unfold basename
  intro h
  have := mem_takeWhile_holds _ _ _ (List.mem_reverse.mp h)
  simp at this

theorem comps_of_noSlash (c : Str) (h : '/' ∉ c) : comps c = if c.isEmpty then [] else [c] := by
  unfold comps
  rw [splitOn_of_noSep _ _ h]
  cases c <;> simp

/-- stripping trailing slashes does not change the components -/
theorem comps_append_slashes (x : Str) (sl : Str) (h : ∀ c ∈ sl, c = '/') : comps (x ++ sl) = comps x := by
  induction sl generalizing x with
  | nil => simp
  | cons c r ih =>
    have hc : c = '/' := h c (by simp)
    subst hc
    have : x ++ '/' :: r = (x ++ ['/']) ++ r := by simp
    rw [this, ih _ (fun c hc => h c (List.mem_cons_of_mem _ hc))]
    have : x ++ ['/'] = x ++ '/' :: [] := rfl
    rw [this, comps_append_slash]
    simp [comps, splitOn_nil]

theorem dropWhile_slash_split (l : Str) :
    ∃ sl, (∀ c ∈ sl, c = '/') ∧ l = sl ++ l.dropWhile (· == '/') := by
  induction l with
  | nil => exact ⟨[], by simp, by simp⟩
  | cons a r ih =>
    by_cases ha : a = '/'
    · subst ha
      obtain ⟨sl, h1, h2⟩ := ih
      refine ⟨'/' :: sl, ?_, ?_⟩
      · intro c hc
        rcases List.mem_cons.mp hc with e | e
        · exact e
        · exact h1 c e
      · simp only [List.dropWhile_cons, beq_self_eq_true, if_true, List.cons_append]
        rw [← h2]
    · refine ⟨[], by simp, ?_⟩
      simp [ha]

/-- `comps p = comps (dirname p) ++ comps (basename p)` -/
theorem comps_dirname_basename (p : Str) : comps p = comps (dirname p) ++ comps (basename p) := by
  have hsplit := takeWhile_dropWhile_rev p
  -- head = p[:i], where i = rfind('/') + 1
  generalize hhead : (p.reverse.dropWhile (· != '/')).reverse = head at hsplit
  have hb : (p.reverse.takeWhile (· != '/')).reverse = basename p := rfl
  rw [hb] at hsplit
  -- components of head are those of dirname
  have hdir : comps (dirname p) = comps head := by
    unfold dirname
    simp only [hhead]
    split
    · obtain ⟨sl, h1, h2⟩ := dropWhile_slash_split head.reverse
      have : head = (head.reverse.dropWhile (· == '/')).reverse ++ sl.reverse := by
        have := congrArg List.reverse h2
        simpa using this
      conv => rhs; rw [this]
      rw [comps_append_slashes _ _ (fun c hc => h1 c (List.mem_reverse.mp hc))]
    · rfl
  rw [hdir]
  have hlast : head = [] ∨ ∃ r, head = r ++ ['/'] := by
    cases hh : head.reverse with
    | nil => left; simpa using hh
    | cons a r =>
      right
      have ha : a = '/' := by
        have h1 : head.reverse = p.reverse.dropWhile (· != '/') := by rw [← hhead]; simp
        rw [h1] at hh
        have := List.head?_dropWhile_not (· != '/') p.reverse
        rw [hh] at this
        simpa using this
      subst ha
      refine ⟨r.reverse, ?_⟩
      have := congrArg List.reverse hh
      simpa using this
  generalize basename p = bn at hsplit
  subst hsplit
  rcases hlast with h | ⟨r, h⟩
  · subst h
    simp [comps, splitOn_nil]
  · subst h
    have e1 : r ++ ['/'] ++ bn = r ++ '/' :: bn := by simp
    have e2 : r ++ ['/'] = r ++ '/' :: [] := rfl
    rw [e1, e2, comps_append_slash, comps_append_slash]
    simp [comps, splitOn_nil]

/-! ### the 7z write / read-back path stays inside the private directory -/

/-- ancestor-or-self of `base` (component-wise) -/
def Anc (base q : Str) : Prop := (comps q) <+: (comps base)

def PathOk (base q : Str) : Prop := Inside base q ∨ Anc base q

/-- events that may occur between `mkdtemp base` and `rmtree base` -/
def EvIn (base : Str) : Ev → Prop
  | .mkdir p => isAbs p = true ∧ Inside base p
  | .write p => isAbs p = true ∧ Inside base p
  | .probe p => isAbs p = true ∧ Inside base p
  | .read p => isAbs p = true ∧ Inside base p
  | .mkdtemp _ => False
  | .rmtree _ => False

theorem inside_prefix {base p : Str} (h : Inside base p) : (comps base).isPrefixOf (comps p) = true := by
  obtain ⟨s, hs, _⟩ := h
  rw [List.isPrefixOf_iff_prefix, hs]
  exact List.prefix_append _ _

theorem dirname_pathOk {base p : Str} (h : Inside base p) : PathOk base (dirname p) := by
  obtain ⟨s, hs, hcl⟩ := h
  have hd := comps_dirname_basename p
  have hb := comps_of_noSlash (basename p) (basename_noSlash p)
  rw [hs, hb] at hd
  split at hd
  · left
    exact ⟨s, by simpa using hd.symm, hcl⟩
  · rcases List.eq_nil_or_concat s with h0 | ⟨s', x, hx⟩
    · subst h0
      right
      unfold Anc
      simp only [List.append_nil] at hd
      rw [hd]
      exact List.prefix_append _ _
    · left
      subst hx
      refine ⟨s', ?_, fun c hc => hcl c (by simp [hc])⟩
      have hd' : (comps base ++ s') ++ [x] = comps (dirname p) ++ [basename p] := by
        rw [← hd]; simp [List.concat_eq_append]
      exact (List.append_inj_left' hd' rfl).symm

theorem nodeAt_anc (env : Env) (base : Str) (fs : Overlay) (q : Str) (h : Anc base q) :
    nodeAt env base fs q = some .dir := by
  unfold nodeAt
  simp [List.isPrefixOf_iff_prefix.mpr h]

theorem mkdirsWalk_evIn (env : Env) (base : Str) (qs : List Str) (r : Run)
    (hq : ∀ q ∈ qs, nodeAt env base r.fs q = none → isAbs q = true ∧ Inside base q)
    (hq' : ∀ q ∈ qs, ∀ fs', Anc base q → nodeAt env base fs' q = some .dir)
    (hall : ∀ q ∈ qs, Anc base q ∨ (isAbs q = true ∧ Inside base q))
    (hr : ∀ e ∈ r.evs, EvIn base e) : ∀ e ∈ (mkdirsWalk env base qs r).evs, EvIn base e := by
  induction qs generalizing r with
  | nil => simpa [mkdirsWalk] using hr
  | cons q qs ih =>
    unfold mkdirsWalk
    split
    · exact hr
    · split
      · exact ih r (fun q' h' => hq q' (List.mem_cons_of_mem _ h')) (fun q' h' => hq' q' (List.mem_cons_of_mem _ h'))
          (fun q' h' => hall q' (List.mem_cons_of_mem _ h')) hr
      · exact hr
      · rename_i hnone
        have hqok : isAbs q = true ∧ Inside base q := by
          rcases hall q (by simp) with ha | hi
          · rw [nodeAt_anc env base r.fs q ha] at hnone; cases hnone
          · exact hi
        apply ih
        · intro q' h' _
          rcases hall q' (List.mem_cons_of_mem _ h') with ha | hi
          · have := hq' q' (List.mem_cons_of_mem _ h') ((q, Node.dir) :: r.fs) ha
            rename_i hn; rw [this] at hn; cases hn
          · exact hi
        · exact fun q' h' => hq' q' (List.mem_cons_of_mem _ h')
        · exact fun q' h' => hall q' (List.mem_cons_of_mem _ h')
        · intro e he
          simp only [List.mem_append, List.mem_singleton] at he
          rcases he with he | he
          · exact hr e he
          · subst he; exact hqok

theorem isAbs_append {a : Str} (b : Str) (h : isAbs a = true) : isAbs (a ++ b) = true := by
  cases a with
  | nil => simp [isAbs] at h
  | cons x r => simpa [isAbs] using h

theorem chain_elem_inside (base : Str) (xs : List Str) (hx : ∀ c ∈ xs, Clean c) :
    Inside base (base ++ '/' :: joinSlash xs) := by
  refine ⟨comps (joinSlash xs), comps_append_slash _ _, ?_⟩
  intro c hc
  unfold comps at hc
  obtain ⟨hm, hne⟩ := List.mem_filter.mp hc
  rcases mem_splitOn_joinSlash xs (fun c hc => (hx c hc).2.2.2) c hm with h | h
  · exact hx c h
  · subst h; simp at hne

theorem mkdirs_evIn (env : Env) (base p : Str) (r : Run) (habs : isAbs base = true) (hp : PathOk base p)
    (hr : ∀ e ∈ r.evs, EvIn base e) : ∀ e ∈ (mkdirs env base p r).evs, EvIn base e := by
  unfold mkdirs
  apply mkdirsWalk_evIn
  · intro q hq _
    unfold chainBelow at hq
    split at hq
    · obtain ⟨i, _, hi⟩ := List.mem_map.mp hq
      subst hi
      have hclean : ∀ c ∈ (comps p).drop (comps base).length, Clean c := by
        rcases hp with ⟨s, hs, hcl⟩ | ha
        · rw [hs]; simpa using hcl
        · intro c hc
          have := List.IsPrefix.length_le ha
          have : (comps p).drop (comps base).length = [] := List.drop_eq_nil_of_le this
          rw [this] at hc; cases hc
      exact ⟨isAbs_append _ habs, chain_elem_inside base _ (fun c hc => hclean c (List.mem_of_mem_take hc))⟩
    · rename_i hnp
      rcases hp with hi | ha
      · exact absurd (inside_prefix hi) hnp
      · simp only [List.mem_singleton] at hq
        subst hq
        rename_i hnone
        rw [nodeAt_anc env base r.fs _ ha] at hnone; cases hnone
  · intro q _ fs' ha
    exact nodeAt_anc env base fs' q ha
  · intro q hq
    unfold chainBelow at hq
    split at hq
    · right
      obtain ⟨i, _, hi⟩ := List.mem_map.mp hq
      subst hi
      have hclean : ∀ c ∈ (comps p).drop (comps base).length, Clean c := by
        rcases hp with ⟨s, hs, hcl⟩ | ha
        · rw [hs]; simpa using hcl
        · intro c hc
          have := List.IsPrefix.length_le ha
          have : (comps p).drop (comps base).length = [] := List.drop_eq_nil_of_le this
          rw [this] at hc; cases hc
      exact ⟨isAbs_append _ habs, chain_elem_inside base _ (fun c hc => hclean c (List.mem_of_mem_take hc))⟩
    · rename_i hnp
      rcases hp with hi | ha
      · exact absurd (inside_prefix hi) hnp
      · left
        simp only [List.mem_singleton] at hq
        subst hq; exact ha
  · exact hr

theorem writeFile_evIn (env : Env) (base p : Str) (d : List Nat) (r : Run) (hp : isAbs p = true ∧ Inside base p)
    (hr : ∀ e ∈ r.evs, EvIn base e) : ∀ e ∈ (writeFile env base p d r).evs, EvIn base e := by
  have hadd : ∀ e ∈ r.evs ++ [Ev.write p], EvIn base e := by
    intro e he
    simp only [List.mem_append, List.mem_singleton] at he
    rcases he with he | he
    · exact hr e he
    · subst he; exact hp
  unfold writeFile
  split
  · exact hr
  · split
    · exact hadd
    · split <;> exact hadd

theorem extractOne_evIn (env : Env) (cwd base : Str) (data : List Nat) (w : Wanted) (nf : Nat × FileInfo) (st : Run × Nat)
    (habs : isAbs base = true) (hnorm : normpath base = base)
    (hr : ∀ e ∈ st.1.evs, EvIn base e) : ∀ e ∈ (extractOne env cwd base data w nf st).1.evs, EvIn base e := by
  obtain ⟨r, off⟩ := st
  unfold extractOne
  simp only
  split
  · exact hr
  · split
    · exact hr
    · split
      · split
        · exact hr
        · rename_i p hp
          have := safeJoin_inside cwd base nf.2.filename p habs hnorm hp
          exact mkdirs_evIn env base p r habs (Or.inl this.2) hr
      · split
        · exact hr
        · split
          · exact hr
          · rename_i p hp
            have hin := safeJoin_inside cwd base nf.2.filename p habs hnorm hp
            apply writeFile_evIn _ _ _ _ _ hin
            split
            · exact hr
            · exact mkdirs_evIn env base _ r habs (dirname_pathOk hin.2) hr

theorem extractFolder_evIn (env : Env) (cwd base : Str) (data : List Nat) (w : Wanted) (fs : List (Nat × FileInfo)) (r : Run)
    (habs : isAbs base = true) (hnorm : normpath base = base)
    (hr : ∀ e ∈ r.evs, EvIn base e) : ∀ e ∈ (extractFolder env cwd base data w fs r).evs, EvIn base e := by
  unfold extractFolder
  suffices h : ∀ (st : Run × Nat), (∀ e ∈ st.1.evs, EvIn base e) →
      ∀ e ∈ (fs.foldl (fun st nf => extractOne env cwd base data w nf st) st).1.evs, EvIn base e from h (r, 0) hr
  induction fs with
  | nil => intro st h; simpa using h
  | cons f fs ih =>
    intro st h
    simp only [List.foldl_cons]
    exact ih _ (extractOne_evIn env cwd base data w f st habs hnorm h)

theorem extractAll_evIn (env : Env) (cwd base : Str) (files : List FileInfo) (fmap : List (Nat × Nat))
    (fd : List (Option (List Nat))) (w : Wanted) (k : Nat) (fl : List Nat) (r : Run)
    (habs : isAbs base = true) (hnorm : normpath base = base)
    (hr : ∀ e ∈ r.evs, EvIn base e) : ∀ e ∈ (extractAll env cwd base files fmap fd w k fl r).evs, EvIn base e := by
  induction fl generalizing k r with
  | nil => simpa [extractAll] using hr
  | cons x rest ih =>
    unfold extractAll
    split
    · exact hr
    · simp only
      split
      · exact ih _ _ hr
      · split
        · exact ih _ _ hr
        · split
          · exact hr
          · exact ih _ _ (extractFolder_evIn env cwd base _ w _ r habs hnorm hr)

theorem writeEmpty_evIn (env : Env) (cwd base : Str) (f : FileInfo) (r : Run)
    (habs : isAbs base = true) (hnorm : normpath base = base)
    (hr : ∀ e ∈ r.evs, EvIn base e) : ∀ e ∈ (writeEmpty env cwd base f r).evs, EvIn base e := by
  unfold writeEmpty
  split
  · exact hr
  · split
    · exact hr
    · rename_i p hp
      have hin := safeJoin_inside cwd base f.filename p habs hnorm hp
      apply writeFile_evIn _ _ _ _ _ hin
      split
      · exact hr
      · exact mkdirs_evIn env base _ r habs (dirname_pathOk hin.2) hr

theorem extractEmpties_evIn (env : Env) (cwd base : Str) (files : List FileInfo) (w : Wanted) (r : Run)
    (habs : isAbs base = true) (hnorm : normpath base = base)
    (hr : ∀ e ∈ r.evs, EvIn base e) : ∀ e ∈ (extractEmpties env cwd base files w r).evs, EvIn base e := by
  unfold extractEmpties
  generalize (indexed files 0).filter (fun nf => nf.2.emptyFile && isWanted w nf.1) = fl
  induction fl generalizing r with
  | nil => simpa using hr
  | cons f fl ih =>
    simp only [List.foldl_cons]
    exact ih _ (writeEmpty_evIn env cwd base f.2 r habs hnorm hr)

theorem extractAllFull_evIn (env : Env) (cwd base : Str) (files : List FileInfo) (fmap : List (Nat × Nat))
    (fd : List (Option (List Nat))) (fl : List Nat) (w : Wanted) (r : Run)
    (habs : isAbs base = true) (hnorm : normpath base = base)
    (hr : ∀ e ∈ r.evs, EvIn base e) : ∀ e ∈ (extractAllFull env cwd base files fmap fd fl w r).evs, EvIn base e := by
  unfold extractAllFull
  exact extractEmpties_evIn env cwd base files w _ habs hnorm (extractAll_evIn env cwd base files fmap fd w 0 fl r habs hnorm hr)

theorem readBack_evIn (env : Env) (lim : Limits) (cwd base : Str) (fs : Overlay) (f : FileInfo)
    (habs : isAbs base = true) (hnorm : normpath base = base) :
    ∀ e ∈ (readBack env lim cwd base fs f).evs, EvIn base e := by
  unfold readBack
  split
  · simp
  · rename_i p hp
    have hin := safeJoin_inside cwd base f.filename p habs hnorm hp
    split <;> (intro e he; simp at he; rcases he with he | he <;> (try subst he) <;> first | exact hin | skip)
    all_goals (try (subst he; exact hin))

theorem consume_evs (lim : Option Nat) (steps : List Step) :
    ∀ e ∈ (consume lim steps).1, ∃ s ∈ steps, e ∈ s.evs := by
  induction steps generalizing lim with
  | nil => cases lim <;> simp [consume]
  | cons s r ih =>
    cases lim with
    | none =>
      simp only [consume]
      intro e he
      rcases List.mem_append.mp he with h | h
      · exact ⟨s, by simp, h⟩
      · obtain ⟨s', hs', he'⟩ := ih none e h
        exact ⟨s', List.mem_cons_of_mem _ hs', he'⟩
    | some k =>
      simp only [consume]
      split
      · intro e he; exact ⟨s, by simp, he⟩
      · intro e he
        rcases List.mem_append.mp he with h | h
        · exact ⟨s, by simp, h⟩
        · obtain ⟨s', hs', he'⟩ := ih _ e h
          exact ⟨s', List.mem_cons_of_mem _ hs', he'⟩

theorem consume_res (lim : Option Nat) (steps : List Step) :
    ∀ x ∈ (consume lim steps).2.1, ∃ s ∈ steps, x ∈ s.res := by
  induction steps generalizing lim with
  | nil => cases lim <;> simp [consume]
  | cons s r ih =>
    cases lim with
    | none =>
      simp only [consume]
      intro e he
      rcases List.mem_append.mp he with h | h
      · exact ⟨s, by simp, h⟩
      · obtain ⟨s', hs', he'⟩ := ih none e h
        exact ⟨s', List.mem_cons_of_mem _ hs', he'⟩
    | some k =>
      simp only [consume]
      split
      · intro e he; exact ⟨s, by simp, List.mem_of_mem_take he⟩
      · intro e he
        rcases List.mem_append.mp he with h | h
        · exact ⟨s, by simp, h⟩
        · obtain ⟨s', hs', he'⟩ := ih _ e h
          exact ⟨s', List.mem_cons_of_mem _ hs', he'⟩

/-! ### the host file system is never consulted (repaired code) -/

def withHost (env : Env) (h : Str → Option (Option (List Nat))) : Env := { env with host := h }

/-- `q` is decided without asking the host -/
def NoHost (base q : Str) : Prop :=
  (comps q).isPrefixOf (comps base) = true ∨ (comps base).isPrefixOf (comps q) = true

theorem pathOk_noHost {base q : Str} (h : PathOk base q) : NoHost base q := by
  rcases h with hi | ha
  · right; exact inside_prefix hi
  · left; exact List.isPrefixOf_iff_prefix.mpr ha

theorem nodeAt_host (env : Env) (h' : Str → Option (Option (List Nat))) (base : Str) (fs : Overlay) (q : Str)
    (hq : NoHost base q) : nodeAt (withHost env h') base fs q = nodeAt env base fs q := by
  unfold nodeAt
  rcases hq with h | h
  · simp [h]
  · split
    · rfl
    · split
      · rfl
      · simp

theorem mkdirsWalk_host (env : Env) (h' : Str → Option (Option (List Nat))) (base : Str) (qs : List Str) (r : Run)
    (hq : ∀ q ∈ qs, NoHost base q) : mkdirsWalk (withHost env h') base qs r = mkdirsWalk env base qs r := by
  induction qs generalizing r with
  | nil => rfl
  | cons q qs ih =>
    unfold mkdirsWalk
    rw [nodeAt_host env h' base r.fs q (hq q (by simp))]
    split
    · rfl
    · split
      · exact ih r (fun q' h => hq q' (List.mem_cons_of_mem _ h))
      · rfl
      · exact ih _ (fun q' h => hq q' (List.mem_cons_of_mem _ h))

theorem chainBelow_noHost (base p : Str) (hp : PathOk base p) : ∀ q ∈ chainBelow base p, NoHost base q := by
  intro q hq
  unfold chainBelow at hq
  split at hq
  · obtain ⟨i, _, hi⟩ := List.mem_map.mp hq
    subst hi
    right
    rw [comps_append_slash, List.isPrefixOf_iff_prefix]
    exact List.prefix_append _ _
  · simp only [List.mem_singleton] at hq
    subst hq
    exact pathOk_noHost hp

theorem mkdirs_host (env : Env) (h' : Str → Option (Option (List Nat))) (base p : Str) (r : Run) (hp : PathOk base p) :
    mkdirs (withHost env h') base p r = mkdirs env base p r := by
  unfold mkdirs
  exact mkdirsWalk_host env h' base _ r (chainBelow_noHost base p hp)

theorem writeFile_host (env : Env) (h' : Str → Option (Option (List Nat))) (base p : Str) (d : List Nat) (r : Run)
    (hp : Inside base p) : writeFile (withHost env h') base p d r = writeFile env base p d r := by
  unfold writeFile
  rw [nodeAt_host env h' base r.fs p (pathOk_noHost (Or.inl hp)),
      nodeAt_host env h' base r.fs (dirname p) (pathOk_noHost (dirname_pathOk hp))]

theorem extractOne_host (env : Env) (h' : Str → Option (Option (List Nat))) (cwd base : Str) (data : List Nat)
    (w : Wanted) (nf : Nat × FileInfo) (st : Run × Nat) (habs : isAbs base = true) (hnorm : normpath base = base) :
    extractOne (withHost env h') cwd base data w nf st = extractOne env cwd base data w nf st := by
  obtain ⟨r, off⟩ := st
  unfold extractOne
  simp only
  split
  · rfl
  · split
    · rfl
    · split
      · split
        · rfl
        · rename_i p hp
          have := safeJoin_inside cwd base nf.2.filename p habs hnorm hp
          rw [mkdirs_host env h' base p r (Or.inl this.2)]
      · split
        · rfl
        · split
          · rfl
          · rename_i p hp
            have hin := safeJoin_inside cwd base nf.2.filename p habs hnorm hp
            rw [mkdirs_host env h' base _ r (dirname_pathOk hin.2)]
            rw [writeFile_host env h' base p _ _ hin.2]

theorem extractFolder_host (env : Env) (h' : Str → Option (Option (List Nat))) (cwd base : Str) (data : List Nat)
    (w : Wanted) (fs : List (Nat × FileInfo)) (r : Run) (habs : isAbs base = true) (hnorm : normpath base = base) :
    extractFolder (withHost env h') cwd base data w fs r = extractFolder env cwd base data w fs r := by
  unfold extractFolder
  have : (fun st nf => extractOne (withHost env h') cwd base data w nf st) = (fun st nf => extractOne env cwd base data w nf st) := by
    funext st nf; exact extractOne_host env h' cwd base data w nf st habs hnorm
  rw [this]

theorem extractAll_host (env : Env) (h' : Str → Option (Option (List Nat))) (cwd base : Str) (files : List FileInfo)
    (fmap : List (Nat × Nat)) (fd : List (Option (List Nat))) (w : Wanted) (k : Nat) (fl : List Nat) (r : Run)
    (habs : isAbs base = true) (hnorm : normpath base = base) :
    extractAll (withHost env h') cwd base files fmap fd w k fl r = extractAll env cwd base files fmap fd w k fl r := by
  induction fl generalizing k r with
  | nil => rfl
  | cons x rest ih =>
    unfold extractAll
    split
    · rfl
    · simp only
      split
      · exact ih _ _
      · split
        · exact ih _ _
        · split
          · rfl
          · rw [extractFolder_host env h' cwd base _ w _ r habs hnorm]
            exact ih _ _

theorem writeEmpty_host (env : Env) (h' : Str → Option (Option (List Nat))) (cwd base : Str) (f : FileInfo) (r : Run)
    (habs : isAbs base = true) (hnorm : normpath base = base) :
    writeEmpty (withHost env h') cwd base f r = writeEmpty env cwd base f r := by
  unfold writeEmpty
  split
  · rfl
  · split
    · rfl
    · rename_i p hp
      have hin := safeJoin_inside cwd base f.filename p habs hnorm hp
      simp only
      rw [mkdirs_host env h' base _ r (dirname_pathOk hin.2)]
      rw [writeFile_host env h' base p _ _ hin.2]

theorem extractAllFull_host (env : Env) (h' : Str → Option (Option (List Nat))) (cwd base : Str) (files : List FileInfo)
    (fmap : List (Nat × Nat)) (fd : List (Option (List Nat))) (fl : List Nat) (w : Wanted) (r : Run)
    (habs : isAbs base = true) (hnorm : normpath base = base) :
    extractAllFull (withHost env h') cwd base files fmap fd fl w r = extractAllFull env cwd base files fmap fd fl w r := by
  unfold extractAllFull extractEmpties
  rw [extractAll_host env h' cwd base files fmap fd w 0 fl r habs hnorm]
  have : (fun r (nf : Nat × FileInfo) => writeEmpty (withHost env h') cwd base nf.2 r) = (fun r nf => writeEmpty env cwd base nf.2 r) := by
    funext r nf; exact writeEmpty_host env h' cwd base nf.2 r habs hnorm
  rw [this]

theorem mem_indexed {α} (l : List α) (n i : Nat) (x : α) (h : (i, x) ∈ indexed l n) : x ∈ l := by
  induction l generalizing n with
  | nil => simp [indexed] at h
  | cons a r ih =>
    simp only [indexed, List.mem_cons, Prod.mk.injEq] at h
    rcases h with ⟨_, e⟩ | h
    · simp [e]
    · exact List.mem_cons_of_mem _ (ih _ h)

theorem readBack_host (env : Env) (h' : Str → Option (Option (List Nat))) (lim : Limits) (cwd base : Str) (fs : Overlay)
    (f : FileInfo) (habs : isAbs base = true) (hnorm : normpath base = base) :
    readBack (withHost env h') lim cwd base fs f = readBack env lim cwd base fs f := by
  unfold readBack
  split
  · rfl
  · rename_i p hp
    have hin := safeJoin_inside cwd base f.filename p habs hnorm hp
    rw [nodeAt_host env h' base fs p (pathOk_noHost (Or.inl hin.2))]
    rfl

/-! ### soundness of the trace acceptor -/

def dirsOf : List FsEvent → List Str
  | [] => []
  | .mkdtemp p :: r => p :: dirsOf r
  | _ :: r => dirsOf r

/-- what an accepted event may be, relative to a set `D` of private directories -/
def FsOk (cfg : Cfg) (D : List Str) : FsEvent → Prop
  | .mkdtemp p => within cfg.tmpRoot p = true ∧ isAbs p = true
  | .rmtree p gone => p ∈ D ∧ gone = true
  | .mkdir p => ∃ d ∈ D, isAbs p = true ∧ within d p = true
  | .mkdirExisting _ => True
  | .openW p => ∃ d ∈ D, isAbs p = true ∧ within d p = true
  | .remove p => ∃ d ∈ D, isAbs p = true ∧ within d p = true
  | .rmdir p => ∃ d ∈ D, isAbs p = true ∧ within d p = true
  | .openR p => (∃ d ∈ D, isAbs p = true ∧ within d p = true) ∨ roOk cfg p = true
  | .listdir p => (∃ d ∈ D, isAbs p = true ∧ within d p = true) ∨ roOk cfg p = true
  | .stat p => (∃ d ∈ D, isAbs p = true ∧ within d p = true) ∨ roOk cfg p = true
      ∨ (∃ d ∈ D, (comps p).isPrefixOf (comps d) = true)
  | .other _ _ => False

theorem inLive_elim {live : List Str} {p : Str} (h : inLive live p = true) :
    ∃ d ∈ live, isAbs p = true ∧ within d p = true := by
  unfold inLive at h
  simp only [Bool.and_eq_true, List.any_eq_true] at h
  obtain ⟨ha, d, hd, hw⟩ := h
  exact ⟨d, hd, ha, hw⟩

theorem FsOk_mono (cfg : Cfg) {D D' : List Str} (h : ∀ d ∈ D, d ∈ D') (e : FsEvent) (he : FsOk cfg D e) : FsOk cfg D' e := by
  cases e <;> simp only [FsOk] at he ⊢
  all_goals first
    | exact he
    | (obtain ⟨d, hd, r⟩ := he; exact ⟨d, h d hd, r⟩)
    | (rcases he with ⟨d, hd, r⟩ | r
       · exact Or.inl ⟨d, h d hd, r⟩
       · exact Or.inr r)
    | skip
  · exact ⟨h _ he.1, he.2⟩
  · rcases he with ⟨d, hd, r⟩ | r | ⟨d, hd, r⟩
    · exact Or.inl ⟨d, h d hd, r⟩
    · exact Or.inr (Or.inl r)
    · exact Or.inr (Or.inr ⟨d, h d hd, r⟩)

theorem stepOk_sound (cfg : Cfg) (live live' : List Str) (e : FsEvent) (h : stepOk cfg live e = some live') :
    FsOk cfg live e ∧ (∀ d ∈ live', d ∈ live ++ dirsOf [e]) ∧
    (∀ d ∈ live, d ∈ live' ∨ e = .rmtree d true) := by
  cases e with
  | mkdtemp p =>
    simp only [stepOk] at h
    split at h
    · rename_i hc
      cases h
      simp only [Bool.and_eq_true] at hc
      refine ⟨⟨hc.1.1.2, hc.1.1.1⟩, ?_, ?_⟩
      · intro d hd; simpa [dirsOf, or_comm] using hd
      · intro d hd; left; exact List.mem_cons_of_mem _ hd
    · cases h
  | rmtree p gone =>
    simp only [stepOk] at h
    split at h
    · rename_i hc
      cases h
      simp only [Bool.and_eq_true, List.contains_iff_mem] at hc
      refine ⟨⟨hc.1, hc.2⟩, ?_, ?_⟩
      · intro d hd; simp [dirsOf]; exact List.mem_of_mem_erase hd
      · intro d hd
        by_cases hdp : d = p
        · right; subst hdp; rw [hc.2]
        · left; exact (List.mem_erase_of_ne hdp).mpr hd
    · cases h
  | mkdirExisting p =>
    simp only [stepOk] at h; cases h
    exact ⟨trivial, by intro d hd; simp [hd], fun d hd => Or.inl hd⟩
  | other w p => simp [stepOk] at h
  | mkdir p =>
    simp only [stepOk] at h
    split at h
    · rename_i hc; cases h
      exact ⟨inLive_elim hc, by intro d hd; simp [hd], fun d hd => Or.inl hd⟩
    · cases h
  | openW p =>
    simp only [stepOk] at h
    split at h
    · rename_i hc; cases h
      exact ⟨inLive_elim hc, by intro d hd; simp [hd], fun d hd => Or.inl hd⟩
    · cases h
  | remove p =>
    simp only [stepOk] at h
    split at h
    · rename_i hc; cases h
      exact ⟨inLive_elim hc, by intro d hd; simp [hd], fun d hd => Or.inl hd⟩
    · cases h
  | rmdir p =>
    simp only [stepOk] at h
    split at h
    · rename_i hc; cases h
      exact ⟨inLive_elim hc, by intro d hd; simp [hd], fun d hd => Or.inl hd⟩
    · cases h
  | openR p =>
    simp only [stepOk] at h
    split at h
    · rename_i hc; cases h
      simp only [Bool.or_eq_true] at hc
      refine ⟨?_, by intro d hd; simp [hd], fun d hd => Or.inl hd⟩
      rcases hc with hc | hc
      · exact Or.inl (inLive_elim hc)
      · exact Or.inr hc
    · cases h
  | listdir p =>
    simp only [stepOk] at h
    split at h
    · rename_i hc; cases h
      simp only [Bool.or_eq_true] at hc
      refine ⟨?_, by intro d hd; simp [hd], fun d hd => Or.inl hd⟩
      rcases hc with hc | hc
      · exact Or.inl (inLive_elim hc)
      · exact Or.inr hc
    · cases h
  | stat p =>
    simp only [stepOk] at h
    split at h
    · rename_i hc; cases h
      simp only [Bool.or_eq_true, Bool.and_eq_true, List.any_eq_true] at hc
      refine ⟨?_, by intro d hd; simp [hd], fun d hd => Or.inl hd⟩
      rcases hc with (hc | hc) | ⟨_, d, hd, hp⟩
      · exact Or.inl (inLive_elim hc)
      · exact Or.inr (Or.inl hc)
      · exact Or.inr (Or.inr ⟨d, hd, hp⟩)
    · cases h

theorem dirsOf_cons_sub (e : FsEvent) (r : List FsEvent) : ∀ d ∈ dirsOf [e] ++ dirsOf r, d ∈ dirsOf (e :: r) := by
  cases e <;> simp [dirsOf]

theorem confinedFrom_sound (cfg : Cfg) (live : List Str) (t : List FsEvent) (h : confinedFrom cfg live t = true) :
    (∀ e ∈ t, FsOk cfg (live ++ dirsOf t) e) ∧ (∀ d ∈ live, FsEvent.rmtree d true ∈ t) := by
  induction t generalizing live with
  | nil =>
    simp only [confinedFrom, List.isEmpty_iff] at h
    subst h; simp
  | cons e r ih =>
    simp only [confinedFrom] at h
    split at h
    · cases h
    · rename_i live' hs
      obtain ⟨hok, hsub, hkeep⟩ := stepOk_sound cfg live live' e hs
      obtain ⟨ih1, ih2⟩ := ih live' h
      have hD : ∀ d ∈ live' ++ dirsOf r, d ∈ live ++ dirsOf (e :: r) := by
        intro d hd
        rcases List.mem_append.mp hd with h1 | h1
        · rcases List.mem_append.mp (hsub d h1) with h2 | h2
          · exact List.mem_append_left _ h2
          · exact List.mem_append_right _ (dirsOf_cons_sub e r d (List.mem_append_left _ h2))
        · exact List.mem_append_right _ (dirsOf_cons_sub e r d (List.mem_append_right _ h1))
      constructor
      · intro e' he'
        rcases List.mem_cons.mp he' with h1 | h1
        · subst h1
          exact FsOk_mono cfg (fun d hd => List.mem_append_left _ hd) _ hok
        · exact FsOk_mono cfg hD _ (ih1 e' h1)
      · intro d hd
        rcases hkeep d hd with h1 | h1
        · exact List.mem_cons_of_mem _ (ih2 d h1)
        · subst h1; simp

theorem confinedFrom_suffix (cfg : Cfg) (live : List Str) (pre rest : List FsEvent)
    (h : confinedFrom cfg live (pre ++ rest) = true) : ∃ live', confinedFrom cfg live' rest = true := by
  induction pre generalizing live with
  | nil => exact ⟨live, h⟩
  | cons e r ih =>
    simp only [List.cons_append, confinedFrom] at h
    split at h
    · cases h
    · exact ih _ h

end S2T.Archive
