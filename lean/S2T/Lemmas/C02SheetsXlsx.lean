import S2T.Spec.C02SheetsDoc
import S2T.Lemmas.C02SheetsOds
import S2T.Lemmas.C02OdfStr
/-! XLSX sheet formatter (C02, part 'sheets'). -/
namespace S2T.C02.Sheets.Xlsx
open S2T.Tok S2T.OdfText S2T.C02.Sheets S2T.C02.Sheets.XlsxDoc
open S2T.C02.Sheets.Ods (SepOk rstrip_split flatMap_congr' flatten_replicate_nil)

structure XlsxOk (T : XlsxT) : Prop where
  colSep : SepOk T.isWs T.colSep
  rowSep : SepOk T.isWs T.rowSep
  unitSep : SepOk T.isWs T.unitSep
  joinSep : SepOk T.isWs T.joinSep
  sp : T.isWs ' ' = true

/-! ## `_format_sheet_as_text` -/

theorem padRow_tokens {p : Char → Bool} (n : Nat) (row : List Str) :
    (padRow n row).flatMap (tokens p) = row.flatMap (tokens p) := by
  unfold padRow
  rw [List.flatMap_append]
  have : (List.replicate (n - row.length) ([] : Str)).flatMap (tokens p) = [] := by
    generalize n - row.length = k
    induction k with
    | zero => rfl
    | succ k ih => simp [List.replicate_succ, ih]
  rw [this, List.append_nil]

/-- the padded, right-justified table text carries exactly the cells' tokens, row by row, left to right -/
theorem formatSheet_tokens {T : XlsxT} (h : XlsxOk T) (rows : List (List Str)) :
    tokens T.isWs (formatSheet T rows) = rows.flatMap (fun r => r.flatMap (tokens T.isWs)) := by
  unfold formatSheet
  rw [tokens_join h.rowSep.2 h.rowSep.1, List.flatMap_map, List.flatMap_map]
  apply flatMap_congr'
  intro r _
  rw [tokens_join h.colSep.2 h.colSep.1, List.flatMap_map]
  rw [S2T.Rtf.flatMap_zipIdx (padRow _ r) 0 _ (tokens T.isWs) (fun v i => by simp [S2T.Rtf.tokens_rjust h.sp])]
  exact padRow_tokens _ r

/-! ## trimming loses no token -/

theorem nonEmpty_false {p : Char → Bool} (c : XCell) (h : nonEmpty p c = false) (b : Bool) :
    tokens p (shown b c) = [] ∧ tokens p (display c) = [] := by
  cases c with
  | empty => cases b <;> simp [shown, display]
  | str s =>
    have hb : blank p s = true := by simpa [nonEmpty] using h
    cases b <;> simp [shown, display, pyStr, blank_tokens hb]
  | int i => simp [nonEmpty] at h
  | bool v => simp [nonEmpty] at h
  | float r w => simp [nonEmpty] at h

theorem take_flatMap {α β : Type} (q : α → Bool) (g : α → List β) (hg : ∀ a, q a = true → g a = []) (r : List α) (n : Nat)
    (hn : (rstrip q r).length ≤ n) : (r.take n).flatMap g = r.flatMap g := by
  obtain ⟨w, h1, h2⟩ := rstrip_split q r
  generalize rstrip q r = a at h1 hn
  subst h1
  have hz : ∀ l : List α, (∀ x ∈ l, q x = true) → l.flatMap g = [] := by
    intro l hl
    induction l with
    | nil => rfl
    | cons x t ih => simp [hg x (hl x (by simp)), ih (fun y hy => hl y (by simp [hy]))]
  rw [List.take_append, List.take_of_length_le hn]
  simp only [List.flatMap_append]
  rw [hz w h2, hz (w.take (n - a.length)) (fun x hx => h2 x (List.mem_of_mem_take hx))]

theorem le_foldl_max {α : Type} (f : α → Nat) (rows : List α) (m : Nat) :
    m ≤ rows.foldl (fun m r => max m (f r)) m ∧ ∀ r ∈ rows, f r ≤ rows.foldl (fun m r => max m (f r)) m := by
  induction rows generalizing m with
  | nil => simp
  | cons a t ih =>
    simp only [List.foldl_cons]
    obtain ⟨h1, h2⟩ := ih (max m (f a))
    refine ⟨by omega, ?_⟩
    intro r hr
    simp at hr
    rcases hr with rfl | hr
    · omega
    · exact h2 r hr

theorem flatMap_zipIdx_mem {β γ : Type} (l : List β) (n : Nat) (f : β × Nat → List γ) (g : β → List γ)
    (h : ∀ v ∈ l, ∀ i, f (v, i) = g v) : (l.zipIdx n).flatMap f = l.flatMap g := by
  induction l generalizing n with
  | nil => rfl
  | cons a r ih =>
    simp only [List.zipIdx_cons, List.flatMap_cons, h a (by simp)]
    rw [ih (n + 1) (fun v hv i => h v (by simp [hv]) i)]

/-- rows without a non-empty cell carry no token -/
theorem emptyRows_tokens {p : Char → Bool} (w : List (List XCell)) (h : ∀ r ∈ w, (!r.any (nonEmpty p)) = true) (b : Bool) :
    w.flatMap (fun r => r.flatMap (fun c => tokens p (shown b c))) = [] := by
  induction w with
  | nil => rfl
  | cons a t ih =>
    have ha := h a (by simp)
    simp only [Bool.not_eq_true', List.any_eq_false] at ha
    have : a.flatMap (fun c => tokens p (shown b c)) = [] := by
      clear ih h
      induction a with
      | nil => rfl
      | cons c r ih2 =>
        have hc : nonEmpty p c = false := by simpa using ha c (by simp)
        simp [(nonEmpty_false c hc b).1, ih2 (fun x hx => ha x (by simp [hx]))]
    simp [this, ih (fun r hr => h r (by simp [hr]))]

/-- when the first used row is full, `all_rows` carries exactly the grid's tokens -/
theorem allRows_tokens {T : XlsxT} (rows : List (List XCell)) (hf : firstRowFull T.isWs rows = true) :
    (allRows T rows).flatMap (fun r => r.flatMap (tokens T.isWs)) = gridTokens T.isWs rows := by
  obtain ⟨w, h1, h2⟩ := rstrip_split (fun r => !r.any (nonEmpty T.isWs)) rows
  unfold allRows
  unfold firstRowFull at hf
  change rows = trimRows T.isWs rows ++ w at h1
  conv => rhs; rw [h1]
  cases ht : trimRows T.isWs rows with
  | nil =>
    simp only [List.nil_append, List.flatMap_nil]
    cases w with
    | nil => rfl
    | cons f rest =>
      have e1 := emptyRows_tokens [f] (fun r hr => h2 r (by simp at hr; simp [hr])) true
      have e2 := emptyRows_tokens rest (fun r hr => h2 r (by simp [hr])) false
      simp only [List.flatMap_cons, List.flatMap_nil, List.append_nil] at e1
      simp [gridTokens, e1, e2]
  | cons first rest =>
    rw [ht] at hf
    simp only [Bool.and_eq_true, decide_eq_true_eq, List.all_eq_true] at hf
    obtain ⟨_, hfull⟩ := hf
    have hw := (le_foldl_max (lastCol T.isWs) (first :: rest) 0).2
    have hq : ∀ b, ∀ a : XCell, (!nonEmpty T.isWs a) = true → tokens T.isWs (shown b a) = [] := by
      intro b a ha
      exact (nonEmpty_false a (by simpa using ha) b).1
    simp only [List.cons_append, gridTokens, List.flatMap_cons, List.flatMap_append, List.flatMap_map]
    rw [emptyRows_tokens w h2 false, List.append_nil]
    congr 1
    · rw [flatMap_zipIdx_mem (first.take (width T.isWs (first :: rest))) 0 _ (fun c => tokens T.isWs (shown true c))]
      · exact take_flatMap _ _ (hq true) first _ (hw first (by simp))
      · intro c hc i
        have hne := hfull c hc
        simp only [header, hne, if_true, shown]
        cases c <;> simp_all [nonEmpty]
    · apply flatMap_congr'
      intro r hr
      have e : ∀ c : XCell, shown false c = display c := fun c => by simp [shown]
      simp only [e]
      exact take_flatMap _ (fun c => tokens T.isWs (display c))
        (fun a ha => (nonEmpty_false a (by simpa using ha) false).2) r _ (hw r (by simp [hr]))

theorem unitOf_tokens {T : XlsxT} (h : XlsxOk T) (name text : Str) :
    tokens T.isWs (unitOf T name text) = tokens T.isWs name ++ tokens T.isWs text := by
  unfold unitOf
  have : tokens T.isWs (name ++ T.unitSep ++ strip T.isWs text) = tokens T.isWs name ++ tokens T.isWs text := by
    rw [tokens_append_sep _ _ _ h.unitSep.2 h.unitSep.1, tokens_strip]
  rw [List.append_assoc] at this
  by_cases hs : T.unitStrip = true
  · simp [hs, tokens_strip, this]
  · simp [hs, this]

/-- the full text's tokens: per sheet the name's tokens, then the display texts of `all_rows` in row-major order -/
theorem fullText_tokens {T : XlsxT} (h : XlsxOk T) (sheets : List (Str × List (List XCell))) :
    tokens T.isWs (fullText T sheets)
      = sheets.flatMap (fun s => tokens T.isWs s.1 ++ (allRows T s.2).flatMap (fun r => r.flatMap (tokens T.isWs))) := by
  unfold fullText
  rw [tokens_strip, tokens_join h.joinSep.2 h.joinSep.1, List.flatMap_map]
  apply flatMap_congr'
  intro s _
  rw [unitOf_tokens h, formatSheet_tokens h]

end S2T.C02.Sheets.Xlsx
