import S2T.Model.AesThreads
/-! lemmas for `S2T.AesThreads`: a thread with private state computes, under every schedule, what it computes alone -/
namespace S2T.AesThreadsL
open S2T.Aes S2T.AesThreads

theorem step_alone {σ : Type} (t : Thread σ) : t.step.alone = t.alone := by
  unfold Thread.step Thread.alone
  cases h : t.todo <;> simp [h]

theorem sched1_alone {σ : Type} : ∀ (ts : List (Thread σ)) (i : Nat),
    (sched1 ts i).map Thread.alone = ts.map Thread.alone
  | [], _ => rfl
  | t :: ts, 0 => by simp [sched1, step_alone]
  | t :: ts, i + 1 => by simp [sched1, sched1_alone ts i]

theorem run_alone {σ : Type} (sched : List Nat) : ∀ (ts : List (Thread σ)),
    (run ts sched).map Thread.alone = ts.map Thread.alone := by
  induction sched with
  | nil => intro ts; rfl
  | cons i r ih => intro ts; simp only [run, List.foldl_cons] at ih ⊢; rw [ih, sched1_alone]

theorem sched1_length {σ : Type} : ∀ (ts : List (Thread σ)) (i : Nat), (sched1 ts i).length = ts.length
  | [], _ => rfl
  | t :: ts, 0 => by simp [sched1]
  | t :: ts, i + 1 => by simp [sched1, sched1_length ts i]

theorem run_length {σ : Type} (sched : List Nat) : ∀ (ts : List (Thread σ)), (run ts sched).length = ts.length := by
  induction sched with
  | nil => intro ts; rfl
  | cons i r ih => intro ts; simp only [run, List.foldl_cons] at ih ⊢; rw [ih, sched1_length]

theorem finished_alone {σ : Type} : ∀ (ts : List (Thread σ)), finished ts = true → ts.map Thread.alone = ts.map (·.st)
  | [], _ => rfl
  | t :: ts, h => by
    simp only [finished, List.all_cons, Bool.and_eq_true, List.isEmpty_iff] at h
    have := finished_alone ts (by simpa [finished] using h.2)
    simp [Thread.alone, h.1, this]

/-- ANY number of threads, ANY schedule: once every thread has finished, each holds what it computes alone -/
theorem run_private {σ : Type} (ts : List (Thread σ)) (sched : List Nat) (h : finished (run ts sched) = true) :
    (run ts sched).map (·.st) = ts.map Thread.alone := by
  rw [← finished_alone _ h, run_alone]

/-- … and at every moment before, what a thread will compute from where it stands is what it computes alone
    (nothing another thread does changes it) -/
theorem run_private_invariant {σ : Type} (ts : List (Thread σ)) (sched : List Nat) :
    (run ts sched).map Thread.alone = ts.map Thread.alone := run_alone sched ts

theorem foldl_flatMap {α σ : Type} (g : α → List (σ → σ)) : ∀ (l : List α) (s : σ),
    (l.flatMap g).foldl (fun s f => f s) s = l.foldl (fun s a => (g a).foldl (fun s f => f s) s) s
  | [], _ => rfl
  | a :: l, s => by simp [List.flatMap_cons, List.foldl_append, foldl_flatMap g l]

/-- the step program of `_aes_encrypt_block` run alone IS `encryptBlock` -/
theorem encProgram_alone (T : Tables) {b : List Nat} (rks : List (List Nat)) (hb : b.length = 16) :
    encryptBlock T b rks = .ok (Thread.alone ⟨encProgram T rks, b⟩) := by
  simp [encryptBlock, hb, Thread.alone, encProgram, List.foldl_append, foldl_flatMap]

theorem decProgram_alone (T : Tables) {b : List Nat} (rks : List (List Nat)) (hb : b.length = 16) :
    decryptBlock T b rks = .ok (Thread.alone ⟨decProgram T rks, b⟩) := by
  simp [decryptBlock, hb, Thread.alone, decProgram, List.foldl_append, foldl_flatMap]

end S2T.AesThreadsL
