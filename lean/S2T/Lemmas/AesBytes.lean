import S2T.Spec.Fips197
/-!
Facts about the FIPS-197 byte functions, each decided by the kernel over the complete domain of 256 bytes,
and GF(2)-linearity of multiplication by the InvMixColumns constants derived from them.
Nothing here depends on the Python source.
-/
namespace S2T.AesL
open S2T.Spec.Fips197
set_option maxRecDepth 100000

/-- `ginv` is the multiplicative inverse (validates the b²⁵⁴ chain in the spec) -/
theorem gmul_ginv : ∀ a, a < 256 → (a ≠ 0 → gmul a (ginv a) = 1) := by decide +kernel
theorem ginv_zero : ginv 0 = 0 := by decide +kernel
theorem sbox_lt : ∀ a, a < 256 → sbox a < 256 := by decide +kernel
theorem invSbox_lt : ∀ a, a < 256 → invSbox a < 256 := by decide +kernel
theorem invSbox_sbox : ∀ a, a < 256 → invSbox (sbox a) = a := by decide +kernel
theorem sbox_invSbox : ∀ a, a < 256 → sbox (invSbox a) = a := by decide +kernel
theorem gmul_one : ∀ a, a < 256 → gmul a 1 = a := by decide +kernel
theorem gmul_lt : ∀ a, a < 256 → (gmul a 2 < 256 ∧ gmul a 3 < 256 ∧ gmul a 9 < 256 ∧ gmul a 11 < 256
    ∧ gmul a 13 < 256 ∧ gmul a 14 < 256) := by decide +kernel
theorem rcon_lt : ∀ i, i < 15 → rcon i < 256 := by decide +kernel

theorem xcl (a b : Nat) : a ^^^ (a ^^^ b) = b := by rw [← Nat.xor_assoc, Nat.xor_self, Nat.zero_xor]

/-- ⊕ over the bits i < n of x of c i -/
def bitsum (c : Nat → Nat) (x : Nat) : Nat → Nat
  | 0 => 0
  | n + 1 => bitsum c x n ^^^ (if x.testBit n then c n else 0)

theorem bitsum_xor (c : Nat → Nat) (x y : Nat) : ∀ n, bitsum c (x ^^^ y) n = bitsum c x n ^^^ bitsum c y n
  | 0 => by simp [bitsum]
  | n + 1 => by
    simp only [bitsum, bitsum_xor c x y n, Nat.testBit_xor]
    cases x.testBit n <;> cases y.testBit n <;> simp
    · ac_rfl
    · ac_rfl
    · have : bitsum c x n ^^^ c n ^^^ (bitsum c y n ^^^ c n)
          = c n ^^^ (c n ^^^ (bitsum c x n ^^^ bitsum c y n)) := by ac_rfl
      rw [this, xcl]

/-- `f` is determined on bytes by its values on the basis 1, 2, 4, …, 128 (⇒ GF(2)-linear) -/
def Lin8 (f : Nat → Nat) : Prop := ∀ x, x < 256 → f x = bitsum (fun i => f (2 ^ i)) x 8

theorem lin_of {f : Nat → Nat} (h : Lin8 f) {x y : Nat} (hx : x < 256) (hy : y < 256) :
    f (x ^^^ y) = f x ^^^ f y := by
  have hxy : x ^^^ y < 256 := Nat.xor_lt_two_pow (n := 8) hx hy
  rw [h _ hxy, h _ hx, h _ hy, bitsum_xor]

theorem xor_lt {x y : Nat} (hx : x < 256) (hy : y < 256) : x ^^^ y < 256 := Nat.xor_lt_two_pow (n := 8) hx hy

theorem lin4 {f : Nat → Nat} (h : Lin8 f) {x y z w : Nat} (hx : x < 256) (hy : y < 256) (hz : z < 256) (hw : w < 256) :
    f (x ^^^ y ^^^ z ^^^ w) = f x ^^^ f y ^^^ f z ^^^ f w := by
  rw [lin_of h (xor_lt (xor_lt hx hy) hz) hw, lin_of h (xor_lt hx hy) hz, lin_of h hx hy]

theorem lin9 : Lin8 (fun a => gmul a 9) := by unfold Lin8; decide +kernel
theorem lin11 : Lin8 (fun a => gmul a 11) := by unfold Lin8; decide +kernel
theorem lin13 : Lin8 (fun a => gmul a 13) := by unfold Lin8; decide +kernel
theorem lin14 : Lin8 (fun a => gmul a 14) := by unfold Lin8; decide +kernel

/-- the product InvMixMatrix · MixMatrix, entry by entry on one byte: diagonal = identity -/
theorem comp_d : ∀ a, a < 256 → gmul (gmul a 2) 14 ^^^ gmul a 11 ^^^ gmul a 13 ^^^ gmul (gmul a 3) 9 = a := by
  decide +kernel
theorem comp_z1 : ∀ a, a < 256 → gmul (gmul a 3) 14 ^^^ gmul (gmul a 2) 11 ^^^ gmul a 13 ^^^ gmul a 9 = 0 := by
  decide +kernel
theorem comp_z2 : ∀ a, a < 256 → gmul a 14 ^^^ gmul (gmul a 3) 11 ^^^ gmul (gmul a 2) 13 ^^^ gmul a 9 = 0 := by
  decide +kernel
theorem comp_z3 : ∀ a, a < 256 → gmul a 14 ^^^ gmul a 11 ^^^ gmul (gmul a 3) 13 ^^^ gmul (gmul a 2) 9 = 0 := by
  decide +kernel

end S2T.AesL
