import S2T.Model.Amplify
/-! Helper lemmas for `Props/C12_Amplify.lean` (core Lean only). -/
namespace S2T.Amplify
open S2T.Limits (digits)

theorem five_pow_ge (n : Nat) : 8 * (n + 2) ≤ 5 ^ (n + 2) := by
  induction n with
  | zero => decide
  | succ k ih => rw [Nat.pow_succ]; omega

/-- an exponential beats K times a linear function: the exponent `K + a + 2` is enough -/
theorem pow10_beats_linear (K a : Nat) : K * (a + 4 * (K + a + 2)) < 10 ^ (K + a + 2) := by
  have h5 : a + 4 * (K + a + 2) ≤ 5 ^ (K + a + 2) := by have := five_pow_ge (K + a); omega
  have h2 : K + 1 ≤ 2 ^ (K + a + 2) := by have := Nat.lt_two_pow_self (n := K + a + 2); omega
  have hpos : 0 < a + 4 * (K + a + 2) := by omega
  generalize K + a + 2 = d at h5 h2 hpos ⊢
  have h10 : (10 : Nat) ^ d = 2 ^ d * 5 ^ d := by rw [← Nat.mul_pow]
  calc K * (a + 4 * d) < (K + 1) * (a + 4 * d) := Nat.mul_lt_mul_of_pos_right (Nat.lt_succ_self K) hpos
    _ ≤ 2 ^ d * 5 ^ d := Nat.mul_le_mul h2 h5
    _ = 10 ^ d := h10.symm

theorem foldl_digits_zeros (acc d : Nat) :
    (List.replicate d 0).foldl (fun acc x => acc * 10 + x) acc = acc * 10 ^ d := by
  induction d generalizing acc with
  | zero => simp
  | succ k ih => rw [List.replicate_succ, List.foldl_cons, ih, Nat.pow_succ, Nat.add_zero, Nat.mul_assoc, Nat.mul_comm 10]

theorem digitsVal_pow10 (d : Nat) : digitsVal (pow10Digits d) = 10 ^ d := by
  simp [digitsVal, pow10Digits, foldl_digits_zeros]

theorem digits_pow10 (d : Nat) : digits (10 ^ d) = d + 1 := by
  induction d with
  | zero => rw [digits]; simp
  | succ k ih =>
    have hp : 0 < 10 ^ k := Nat.pow_pos (by decide)
    rw [digits]
    have hge : ¬ (10 ^ (k + 1) < 10) := by rw [Nat.pow_succ]; omega
    simp only [hge, dite_false]
    have : 10 ^ (k + 1) / 10 = 10 ^ k := by rw [Nat.pow_succ]; omega
    rw [this, ih]; omega

theorem foldl_max_ge (l : List Nat) (a : Nat) : a ≤ l.foldl max a := by
  induction l generalizing a with
  | nil => simp
  | cons x xs ih => simp only [List.foldl_cons]; exact Nat.le_trans (Nat.le_max_left a x) (ih _)

end S2T.Amplify
