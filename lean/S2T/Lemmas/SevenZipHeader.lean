import S2T.Lemmas.SevenZip
import S2T.Lemmas.Varint
import S2T.Spec.SevenZipWriter
/-!
Helper lemmas for the 7z header round trip (C10, `Props/C10_Header.lean`): the model of the library's header
parser (`S2T/Model/SevenZip.lean`) applied to what the writer specification (`S2T/Spec/SevenZipWriter.lean`)
emits, bottom-up: numbers, little-endian words, bit vectors, UTF-16 names, the property stream, every Info
block.  The reader state is written with its eight fields explicit so that the lemmas rewrite under `simp`.
-/
set_option linter.unusedSimpArgs false
namespace S2T.SevenZip
open S2T.Spec.SevenZipWriter

/-! ### numbers -/

theorem le_eq_leBytes (k n : Nat) : le k n = leBytes k n := by
  induction k generalizing n with
  | zero => rfl
  | succ k ih => simp [le, leBytes, ih]

/-- number of extra bytes of the minimal form -/
def widthOf (n : Nat) : Nat :=
  if n < 2 ^ 7 then 0 else if n < 2 ^ 14 then 1 else if n < 2 ^ 21 then 2 else if n < 2 ^ 28 then 3
  else if n < 2 ^ 35 then 4 else if n < 2 ^ 42 then 5 else if n < 2 ^ 49 then 6 else if n < 2 ^ 56 then 7 else 8

theorem number_eq (n : Nat) (h : n < 2 ^ 64) : number n = writeNumberK (widthOf n) n := by
  unfold number widthOf
  repeat' split
  all_goals simp [writeNumberK, hiMask, le_eq_leBytes, leBytes]
  all_goals omega

theorem widthOf_le (n : Nat) : widthOf n ≤ 8 := by
  unfold widthOf
  repeat' split
  all_goals omega

theorem widthOf_fit (n : Nat) (h : n < 2 ^ 64) : n / 256 ^ widthOf n < 2 ^ (7 - widthOf n) := by
  unfold widthOf
  repeat' split
  all_goals simp only [Nat.reducePow, Nat.reduceSub] at *
  all_goals omega

/-- **number round trip**, all nine length classes -/
theorem readNumber_number (n : Nat) (h : n < 2 ^ 64) (rest : Bytes) (pp ps fo fs fi f2f ef) :
    readNumber ⟨number n ++ rest, pp, ps, fo, fs, fi, f2f, ef⟩ = .ok (n, ⟨rest, pp, ps, fo, fs, fi, f2f, ef⟩) := by
  rw [number_eq n h]
  exact readNumber_writeNumberK (widthOf n) n rest (widthOf_le n) (widthOf_fit n h) ⟨[], pp, ps, fo, fs, fi, f2f, ef⟩

theorem number_ne_nil (n : Nat) : number n ≠ [] := by
  unfold number
  repeat' split
  all_goals simp

theorem readU8_cons (b : Nat) (rest : Bytes) (pp ps fo fs fi f2f ef) :
    readU8 ⟨b :: rest, pp, ps, fo, fs, fi, f2f, ef⟩ = .ok (b, ⟨rest, pp, ps, fo, fs, fi, f2f, ef⟩) := rfl

theorem replicateM_numbers (xs : List Nat) (hx : ∀ x ∈ xs, x < 2 ^ 64) (rest : Bytes) (pp ps fo fs fi f2f ef) :
    replicateM' readNumber xs.length ⟨xs.flatMap number ++ rest, pp, ps, fo, fs, fi, f2f, ef⟩
      = .ok (xs, ⟨rest, pp, ps, fo, fs, fi, f2f, ef⟩) := by
  induction xs with
  | nil => rfl
  | cons x xs ih =>
    have hx0 := hx x (List.mem_cons_self ..)
    have ih' := ih (fun y hy => hx y (List.mem_cons_of_mem _ hy))
    simp only [List.length_cons, replicateM', List.flatMap_cons, List.append_assoc, bind, StateT.bind,
      readNumber_number x hx0, Except.bind, ih', pure, StateT.pure, Except.pure]

/-! ### little-endian words -/

theorem le_length (k n : Nat) : (le k n).length = k := by
  induction k generalizing n with
  | zero => rfl
  | succ k ih => simp [le, ih]

theorem leValue_le (k n : Nat) : leValue (le k n) = n % 256 ^ k := by
  induction k generalizing n with
  | zero => simp [le, leValue, Nat.mod_one]
  | succ k ih =>
    simp only [le, leValue, ih]
    rw [Nat.pow_succ, Nat.mul_comm (256 ^ k) 256, Nat.mod_mul]

theorem le_lt (k n : Nat) : ∀ b ∈ le k n, b < 256 := by
  induction k generalizing n with
  | zero => simp [le]
  | succ k ih =>
    intro b hb
    simp only [le, List.mem_cons] at hb
    rcases hb with rfl | hb
    · exact Nat.mod_lt _ (by decide)
    · exact ih _ b hb

theorem readU32_le (v : Nat) (h : v < 2 ^ 32) (rest : Bytes) (pp ps fo fs fi f2f ef) :
    readU32 ⟨le 4 v ++ rest, pp, ps, fo, fs, fi, f2f, ef⟩ = .ok (v, ⟨rest, pp, ps, fo, fs, fi, f2f, ef⟩) := by
  have hl := le_length 4 v
  have hv : leValue (le 4 v) = v := by rw [leValue_le]; exact Nat.mod_eq_of_lt (by simpa using h)
  simp only [readU32, readBytes, bind, StateT.bind, Except.bind, List.length_append, hl]
  rw [if_neg (by omega)]
  simp only [pure, StateT.pure, Except.pure]
  rw [List.take_left' hl, List.drop_left' hl, hv]

/-- the digests after `kCRC` with AllAreDefined = 1 -/
theorem readDefinedU32_all (crcs : List Nat) (h : ∀ c ∈ crcs, c < 2 ^ 32) (rest : Bytes) (pp ps fo fs fi f2f ef) :
    readDefinedU32 (List.replicate crcs.length true) ⟨crcs.flatMap (le 4) ++ rest, pp, ps, fo, fs, fi, f2f, ef⟩
      = .ok (crcs.map some, ⟨rest, pp, ps, fo, fs, fi, f2f, ef⟩) := by
  induction crcs with
  | nil => rfl
  | cons c cs ih =>
    have h0 := h c (List.mem_cons_self ..)
    have ih' := ih (fun y hy => h y (List.mem_cons_of_mem _ hy))
    simp only [List.length_cons, List.replicate_succ, readDefinedU32, List.flatMap_cons, List.append_assoc, bind,
      StateT.bind, readU32_le c h0, Except.bind, ih', pure, StateT.pure, Except.pure, List.map_cons]

theorem readBoolVector_allDefined (n : Nat) (rest : Bytes) (pp ps fo fs fi f2f ef) :
    readBoolVector n true ⟨1 :: rest, pp, ps, fo, fs, fi, f2f, ef⟩
      = .ok (List.replicate n true, ⟨rest, pp, ps, fo, fs, fi, f2f, ef⟩) := by
  simp [readBoolVector, bind, StateT.bind, Except.bind, readU8_cons, pure, StateT.pure, Except.pure]

/-! ### bit vectors -/

theorem and_two_pow_eq (v k : Nat) : v &&& 2 ^ k = if v.testBit k then 2 ^ k else 0 := by
  apply Nat.eq_of_testBit_eq
  intro j
  rw [Nat.testBit_and, Nat.testBit_two_pow]
  by_cases h : k = j
  · subst h
    cases hv : v.testBit k <;> simp
  · cases hv : v.testBit k <;> simp [h]

theorem and_two_pow_ne (v k : Nat) : (v &&& 2 ^ k != 0) = v.testBit k := by
  rw [and_two_pow_eq]
  cases v.testBit k <;> simp

theorem bit_extract (hi low k : Nat) (b : Bool) (h : low < 2 ^ k) :
    ((2 ^ (k + 1) * hi + ((if b then 2 ^ k else 0) + low)) &&& 2 ^ k != 0) = b := by
  rw [and_two_pow_ne]
  have e : 2 ^ (k + 1) * hi + ((if b then 2 ^ k else 0) + low) = 2 ^ k * (2 * hi + (if b then 1 else 0)) + low := by
    rw [Nat.pow_succ]; cases b <;> simp [Nat.mul_add, Nat.mul_assoc] <;> omega
  rw [e, Nat.testBit_two_pow_mul_add _ h]
  simp [Nat.testBit_zero]
  cases b <;> simp <;> omega

theorem bitsByte_lt : ∀ (c : List Bool) (k : Nat), c.length ≤ k + 1 → bitsByte c (2 ^ k) < 2 ^ (k + 1)
  | [], k, _ => by simp [bitsByte, Nat.pow_pos]
  | b :: t, 0, h => by
    have : t = [] := by cases t <;> simp_all
    subst this
    cases b <;> simp [bitsByte]
  | b :: t, k + 1, h => by
    have ih := bitsByte_lt t k (by simpa using h)
    have e : 2 ^ (k + 1) / 2 = 2 ^ k := by rw [Nat.pow_succ]; simp
    simp only [bitsByte, e]
    have : 2 ^ (k + 1 + 1) = 2 * 2 ^ (k + 1) := by rw [Nat.pow_succ, Nat.mul_comm]
    split <;> omega

/-- with an exhausted mask the next byte is fetched: same as starting on that byte -/
theorem readBits_fetch (n bv B : Nat) (s : Bytes) (pp ps fo fs fi f2f ef) :
    readBitsAux (n + 1) bv 0 ⟨B :: s, pp, ps, fo, fs, fi, f2f, ef⟩
      = readBitsAux (n + 1) B 0x80 ⟨s, pp, ps, fo, fs, fi, f2f, ef⟩ := by
  simp [readBitsAux, bind, StateT.bind, Except.bind, readU8_cons, pure, StateT.pure, Except.pure]

theorem bitVector_cons (b : Bool) (t : List Bool) :
    bitVector (b :: t) = bitsByte ((b :: t).take 8) 0x80 :: bitVector ((b :: t).drop 8) := by
  rw [bitVector]

/-- reading inside a byte whose remaining `k+1` bits (weights `2^k …`) are the next bits of `bs` -/
theorem readBits_mid (rest : Bytes) (pp ps fo fs fi f2f ef) : ∀ (bs : List Bool) (k hi : Nat), k < 8 →
    readBitsAux bs.length (2 ^ (k + 1) * hi + bitsByte (bs.take (k + 1)) (2 ^ k)) (2 ^ k)
        ⟨bitVector (bs.drop (k + 1)) ++ rest, pp, ps, fo, fs, fi, f2f, ef⟩
      = .ok (bs, ⟨rest, pp, ps, fo, fs, fi, f2f, ef⟩)
  | [], k, hi, _ => by simp [readBitsAux, bitVector, pure, StateT.pure, Except.pure]
  | b :: t, k, hi, hk => by
    have hpos : 2 ^ k ≠ 0 := Nat.ne_of_gt (Nat.pow_pos (by decide))
    have hlow : bitsByte (t.take k) (2 ^ k / 2) < 2 ^ k := by
      cases k with
      | zero => simp [bitsByte]
      | succ k =>
        have e : 2 ^ (k + 1) / 2 = 2 ^ k := by rw [Nat.pow_succ]; simp
        rw [e]
        exact bitsByte_lt _ k (by simp; omega)
    have hbit := bit_extract hi (bitsByte (t.take k) (2 ^ k / 2)) k b hlow
    simp only [List.length_cons, readBitsAux, List.take_succ_cons, bitsByte, List.drop_succ_cons, bind, StateT.bind,
      Except.bind, if_neg hpos, pure, StateT.pure, Except.pure, hbit]
    cases k with
    | zero =>
      -- the byte is used up: the next bit comes from the next byte
      have hnext : readBitsAux t.length (2 ^ (0 + 1) * hi + ((if b = true then 2 ^ 0 else 0) + bitsByte (List.take 0 t) (2 ^ 0 / 2)))
          (2 ^ 0 >>> 1) ⟨bitVector (List.drop 0 t) ++ rest, pp, ps, fo, fs, fi, f2f, ef⟩
            = .ok (t, ⟨rest, pp, ps, fo, fs, fi, f2f, ef⟩) := by
        cases t with
        | nil => simp [readBitsAux, bitVector, pure, StateT.pure, Except.pure]
        | cons b' t' =>
          have := readBits_mid rest pp ps fo fs fi f2f ef (b' :: t') 7 0 (by decide)
          simp only [List.drop_zero, bitVector_cons, List.cons_append, List.length_cons]
          rw [show (2 ^ 0 >>> 1) = 0 by decide, readBits_fetch]
          simpa using this
      rw [hnext]
    | succ k =>
      have e : 2 ^ (k + 1) / 2 = 2 ^ k := by rw [Nat.pow_succ]; simp
      have e2 : 2 ^ (k + 1) >>> 1 = 2 ^ k := by rw [Nat.shiftRight_eq_div_pow]; simpa using e
      have ih := readBits_mid rest pp ps fo fs fi f2f ef t k (2 * hi + (if b then 1 else 0)) (by omega)
      have ev : 2 ^ (k + 1 + 1) * hi + ((if b = true then 2 ^ (k + 1) else 0) + bitsByte (List.take (k + 1) t) (2 ^ (k + 1) / 2))
          = 2 ^ (k + 1) * (2 * hi + (if b then 1 else 0)) + bitsByte (List.take (k + 1) t) (2 ^ k) := by
        rw [e, Nat.pow_succ 2 (k + 1)]
        cases b <;> simp [Nat.mul_add, Nat.mul_assoc] <;> omega
      rw [ev, e2, ih]
termination_by bs _ _ _ => bs.length

/-- **bit vector round trip** for every length: `_read_boolean_vector(count)` on the vector a packer wrote -/
theorem readBoolVector_bitVector (bs : List Bool) (rest : Bytes) (pp ps fo fs fi f2f ef) :
    readBoolVector bs.length false ⟨bitVector bs ++ rest, pp, ps, fo, fs, fi, f2f, ef⟩
      = .ok (bs, ⟨rest, pp, ps, fo, fs, fi, f2f, ef⟩) := by
  simp only [readBoolVector, Bool.false_eq_true, if_false]
  cases bs with
  | nil => simp [readBitsAux, bitVector, pure, StateT.pure, Except.pure, bind, StateT.bind, Except.bind]
  | cons b t =>
    have := readBits_mid rest pp ps fo fs fi f2f ef (b :: t) 7 0 (by decide)
    simp only [bitVector_cons, List.cons_append, List.length_cons, bind, StateT.bind, Except.bind, pure, StateT.pure, Except.pure]
    rw [readBits_fetch]
    simpa using this

/-! ### names -/

/-- Unicode scalar value other than NUL -/
def CpOk (c : Nat) : Prop := c ≠ 0 ∧ c < 0x110000 ∧ ¬ (0xD800 ≤ c ∧ c < 0xE000)

theorem cpOk_of_nameOk {name : List Nat} (h : nameOk name = true) : name ≠ [] ∧ ∀ c ∈ name, CpOk c := by
  simp only [nameOk, Bool.and_eq_true, Bool.not_eq_true', List.isEmpty_eq_false_iff, List.all_eq_true, bne_iff_ne,
    decide_eq_true_eq, Bool.and_eq_false_imp, decide_eq_false_iff_not] at h
  refine ⟨h.1, fun c hc => ?_⟩
  have := h.2 c hc
  refine ⟨this.1.1, this.1.2, ?_⟩
  intro hh
  exact this.2 hh.1 hh.2

theorem readNameUnits_units (us : List Nat) (h : ∀ u ∈ us, u ≠ 0 ∧ u < 65536) (rest : Bytes) :
    readNameUnits (us.flatMap unitBytes ++ 0 :: 0 :: rest) = .ok (us, rest) := by
  induction us with
  | nil => simp [readNameUnits]
  | cons u us ih =>
    have ⟨h0, h1⟩ := h u (List.mem_cons_self ..)
    have ih' := ih (fun y hy => h y (List.mem_cons_of_mem _ hy))
    have hz : ¬ (u % 256 = 0 ∧ u / 256 = 0) := by omega
    have hv : u % 256 + 256 * (u / 256) = u := by omega
    simp only [List.flatMap_cons, unitBytes, List.cons_append, List.nil_append, readNameUnits, if_neg hz, ih', hv]

theorem units_ok (name : List Nat) (h : ∀ c ∈ name, CpOk c) : ∀ u ∈ name.flatMap utf16Units, u ≠ 0 ∧ u < 65536 := by
  intro u hu
  obtain ⟨c, hc, huc⟩ := List.mem_flatMap.mp hu
  obtain ⟨c0, c1, c2⟩ := h c hc
  unfold utf16Units at huc
  split at huc
  · simp at huc; omega
  · simp at huc; omega

/-- **UTF-16 round trip** (surrogate pairs included): decoding the code units of a name gives the name -/
theorem decodeUtf16_units (name : List Nat) (h : ∀ c ∈ name, CpOk c) :
    decodeUtf16 (name.flatMap utf16Units) = name := by
  unfold decodeUtf16
  induction name with
  | nil => rfl
  | cons c cs ih =>
    obtain ⟨c0, c1, c2⟩ := h c (List.mem_cons_self ..)
    have ih' := ih (fun y hy => h y (List.mem_cons_of_mem _ hy))
    by_cases hb : c < 0x10000
    · have hns : ¬ (0xD800 ≤ c ∧ c < 0xDC00) := by omega
      simp only [List.flatMap_cons, utf16Units, if_pos hb, List.cons_append, List.nil_append, decodeUtf16Aux, if_neg hns, ih']
    · have h1 : 0xD800 ≤ 0xD800 + (c - 0x10000) / 0x400 ∧ 0xD800 + (c - 0x10000) / 0x400 < 0xDC00 := by omega
      have h2 : 0xDC00 ≤ 0xDC00 + (c - 0x10000) % 0x400 ∧ 0xDC00 + (c - 0x10000) % 0x400 < 0xE000 := by omega
      have hv : 0x10000 + (0xD800 + (c - 0x10000) / 0x400 - 0xD800) * 0x400 + (0xDC00 + (c - 0x10000) % 0x400 - 0xDC00) = c := by omega
      simp only [List.flatMap_cons, utf16Units, if_neg hb, List.cons_append, List.nil_append, decodeUtf16Aux, if_pos h1,
        if_pos h2, hv, ih']

/-- **names round trip**: the Names block a packer wrote decodes to the names, leaving the rest -/
theorem readNames_names (names : List (List Nat)) (h : ∀ n ∈ names, ∀ c ∈ n, CpOk c) (rest : Bytes) :
    readNames decodeUtf16 names.length (names.flatMap nameBytes ++ rest) = .ok (names, rest) := by
  induction names with
  | nil => simp [readNames]
  | cons n ns ih =>
    have h0 := h n (List.mem_cons_self ..)
    have ih' := ih (fun y hy => h y (List.mem_cons_of_mem _ hy))
    have := readNameUnits_units (n.flatMap utf16Units) (units_ok n h0) (ns.flatMap nameBytes ++ rest)
    simp only [List.length_cons, List.flatMap_cons, nameBytes, List.append_assoc, List.cons_append, List.nil_append,
      readNames, this, ih', decodeUtf16_units n h0]

/-! ### coders and folders -/

theorem readBytes_append (a rest : Bytes) (pp ps fo fs fi f2f ef) :
    readBytes a.length ⟨a ++ rest, pp, ps, fo, fs, fi, f2f, ef⟩ = .ok (a, ⟨rest, pp, ps, fo, fs, fi, f2f, ef⟩) := by
  simp [readBytes]

theorem readBytes_one (b : Nat) (rest : Bytes) (pp ps fo fs fi f2f ef) :
    readBytes 1 ⟨b :: rest, pp, ps, fo, fs, fi, f2f, ef⟩ = .ok ([b], ⟨rest, pp, ps, fo, fs, fi, f2f, ef⟩) := by
  simp [readBytes]

theorem readBytes_three (a b c : Nat) (rest : Bytes) (pp ps fo fs fi f2f ef) :
    readBytes 3 ⟨a :: b :: c :: rest, pp, ps, fo, fs, fi, f2f, ef⟩ = .ok ([a, b, c], ⟨rest, pp, ps, fo, fs, fi, f2f, ef⟩) := by
  simp [readBytes]

def coderOf : Method → Coder
  | .copy => ⟨[0x00], none⟩
  | .lzma p => ⟨[0x03, 0x01, 0x01], some p⟩
  | .lzma2 p => ⟨[0x21], some [p]⟩

theorem parseCoder_coder (m : Method) (hm : methodOk m = true) (rest : Bytes) (pp ps fo fs fi f2f ef) :
    parseCoder ⟨coderBytes m ++ rest, pp, ps, fo, fs, fi, f2f, ef⟩
      = .ok ((coderOf m, 1), ⟨rest, pp, ps, fo, fs, fi, f2f, ef⟩) := by
  cases m with
  | copy =>
    simp [parseCoder, coderBytes, coderOf, bind, StateT.bind, Except.bind, readU8_cons, pure, StateT.pure, Except.pure,
      readBytes_one]
  | lzma p =>
    have hp : p.length = 5 := by simp [methodOk] at hm; exact hm.1
    have h2 := readBytes_append p rest pp ps fo fs fi f2f ef
    simp [parseCoder, coderBytes, coderOf, bind, StateT.bind, Except.bind, readU8_cons, pure, StateT.pure, Except.pure,
      readBytes_three, readNumber_number p.length (by omega), h2]
  | lzma2 q =>
    simp [parseCoder, coderBytes, coderOf, bind, StateT.bind, Except.bind, readU8_cons, pure, StateT.pure, Except.pure,
      readBytes_one, readNumber_number 1 (by decide)]

def folder0 (f : FolderSpec) : Folder := { coders := [coderOf f.method], unpackSizes := [], numPackStreams := 1 }

theorem parseFolder_folder (f : FolderSpec) (hm : methodOk f.method = true) (rest : Bytes) (pp ps fo fs fi f2f ef) :
    parseFolder ⟨folderBytes f ++ rest, pp, ps, fo, fs, fi, f2f, ef⟩
      = .ok (folder0 f, ⟨rest, pp, ps, fo, fs, fi, f2f, ef⟩) := by
  simp [parseFolder, folderBytes, folder0, bind, StateT.bind, Except.bind, pure, StateT.pure, Except.pure,
    readNumber_number 1 (by decide), replicateM', parseCoder_coder f.method hm]

theorem parseFolders (fs' : List FolderSpec) (hm : ∀ f ∈ fs', methodOk f.method = true) (rest : Bytes) (pp ps fo fs fi f2f ef) :
    replicateM' parseFolder fs'.length ⟨fs'.flatMap folderBytes ++ rest, pp, ps, fo, fs, fi, f2f, ef⟩
      = .ok (fs'.map folder0, ⟨rest, pp, ps, fo, fs, fi, f2f, ef⟩) := by
  induction fs' with
  | nil => rfl
  | cons f l ih =>
    have ih' := ih (fun y hy => hm y (List.mem_cons_of_mem _ hy))
    simp only [List.length_cons, replicateM', List.flatMap_cons, List.append_assoc, bind, StateT.bind,
      parseFolder_folder f (hm f (List.mem_cons_self ..)), Except.bind, ih', pure, StateT.pure, Except.pure, List.map_cons]

theorem readUnpackSizes_sizes (fs' : List FolderSpec) (hu : ∀ f ∈ fs', f.unpackSize < 2 ^ 64) (rest : Bytes) (pp ps fo fs fi f2f ef) :
    readUnpackSizes (fs'.map folder0) ⟨fs'.flatMap (fun f => number f.unpackSize) ++ rest, pp, ps, fo, fs, fi, f2f, ef⟩
      = .ok (fs'.map (fun f => { folder0 f with unpackSizes := [f.unpackSize] }), ⟨rest, pp, ps, fo, fs, fi, f2f, ef⟩) := by
  induction fs' with
  | nil => rfl
  | cons f l ih =>
    have ih' := ih (fun y hy => hu y (List.mem_cons_of_mem _ hy))
    simp only [List.map_cons, readUnpackSizes, List.flatMap_cons, List.append_assoc, bind, StateT.bind, folder0,
      List.length_cons, List.length_nil, replicateM', readNumber_number _ (hu f (List.mem_cons_self ..)), Except.bind, pure,
      StateT.pure, Except.pure]
    simp only [folder0] at ih'
    rw [ih']
/-! ### pack info, unpack info -/

theorem parsePackInfo_write (L : Layout) (hp : L.packPos < 2 ^ 64) (hn : L.folders.length < 2 ^ 64)
    (hs : ∀ f ∈ L.folders, f.packSize < 2 ^ 64) (hc : ∀ f ∈ L.folders, f.packCrc < 2 ^ 32)
    (rest : Bytes) (pp ps fo fs fi f2f ef) :
    parsePackInfo specIds ⟨packInfo L ++ rest, pp, ps, fo, fs, fi, f2f, ef⟩
      = .ok (some (L.packPos + 32, L.folders.map (·.packSize)),
             ⟨rest, [L.packPos + 32], L.folders.map (·.packSize), fo, fs, fi, f2f, ef⟩) := by
  have hsz := replicateM_numbers (L.folders.map (·.packSize)) (by simpa using hs)
  simp only [List.length_map, List.flatMap_map] at hsz
  have hcr := readDefinedU32_all (L.folders.map (·.packCrc)) (by simpa using hc)
  simp only [List.length_map, List.flatMap_map] at hcr
  unfold parsePackInfo packInfo
  cases L.opts.packCrc
  · simp [bind, StateT.bind, Except.bind, get, getThe, MonadStateOf.get, StateT.get, pure, StateT.pure, Except.pure,
      specIds, readU8_cons, readNumber_number, hp, hn, hsz, modify, modifyGet, MonadStateOf.modifyGet,
      StateT.modifyGet, headerOffset]
  · simp [bind, StateT.bind, Except.bind, get, getThe, MonadStateOf.get, StateT.get, pure, StateT.pure, Except.pure,
      specIds, readU8_cons, readNumber_number, hp, hn, hsz, modify, modifyGet, MonadStateOf.modifyGet,
      StateT.modifyGet, headerOffset, digests, readBoolVector_allDefined, List.flatMap_map, hcr]

/-- the folders as `_parse_unpack_info` leaves them -/
def foldersU (L : Layout) : List Folder :=
  L.folders.map fun f => { coders := [coderOf f.method], unpackSizes := [f.unpackSize],
                           crc := if L.opts.folderCrc then some f.crc else none, numPackStreams := 1 }

theorem setCrcs_all {α : Type} (l : List α) (g : α → Folder) (c : α → Nat) :
    setCrcs (l.map g) (l.map fun f => some (c f)) = l.map fun f => { g f with crc := some (c f) } := by
  induction l with
  | nil => rfl
  | cons f l ih => simp [setCrcs, ih]

theorem parseUnpackInfo_write (L : Layout) (hn : L.folders.length < 2 ^ 64)
    (hm : ∀ f ∈ L.folders, methodOk f.method = true) (hu : ∀ f ∈ L.folders, f.unpackSize < 2 ^ 64)
    (hc : ∀ f ∈ L.folders, f.crc < 2 ^ 32) (rest : Bytes) (pp ps fo fs fi f2f ef) :
    parseUnpackInfo specIds ⟨unpackInfo L ++ rest, pp, ps, fo, fs, fi, f2f, ef⟩
      = .ok (foldersU L, ⟨rest, pp, ps, foldersU L, fs, fi, f2f, ef⟩) := by
  have hcr := readDefinedU32_all (L.folders.map (·.crc)) (by simpa using hc)
  simp only [List.length_map, List.flatMap_map] at hcr
  unfold parseUnpackInfo unpackInfo foldersU
  cases L.opts.folderCrc
  · simp [bind, StateT.bind, Except.bind, get, getThe, MonadStateOf.get, StateT.get, pure, StateT.pure, Except.pure,
      specIds, readU8_cons, readNumber_number, hn, parseFolders L.folders hm, readUnpackSizes_sizes L.folders hu,
      modify, modifyGet, MonadStateOf.modifyGet, StateT.modifyGet, folder0, bad]
  · simp [bind, StateT.bind, Except.bind, get, getThe, MonadStateOf.get, StateT.get, pure, StateT.pure, Except.pure,
      specIds, readU8_cons, readNumber_number, hn, parseFolders L.folders hm, readUnpackSizes_sizes L.folders hu,
      modify, modifyGet, MonadStateOf.modifyGet, StateT.modifyGet, bad, digests, readBoolVector_allDefined,
      List.flatMap_map, hcr, Function.comp_def, setCrcs_all, List.map_map]
    intro a _; simp [folder0]
/-! ### substreams info -/

/-- the folders as `_parse_substreams_info` leaves them -/
def foldersS (L : Layout) : List Folder :=
  L.folders.map fun f => { coders := [coderOf f.method], unpackSizes := [f.unpackSize],
                           crc := if L.opts.folderCrc then some f.crc else none, numStreams := f.count, numPackStreams := 1 }

theorem readNumStreams_counts {α : Type} (l : List α) (g : α → Folder) (c : α → Nat) (hc : ∀ f ∈ l, c f < 2 ^ 64)
    (rest : Bytes) (pp ps fo fs fi f2f ef) :
    readNumStreams (l.map g) ⟨l.flatMap (fun f => number (c f)) ++ rest, pp, ps, fo, fs, fi, f2f, ef⟩
      = .ok (l.map (fun f => { g f with numStreams := c f }), ⟨rest, pp, ps, fo, fs, fi, f2f, ef⟩) := by
  induction l with
  | nil => rfl
  | cons f l ih =>
    have ih' := ih (fun y hy => hc y (List.mem_cons_of_mem _ hy))
    simp only [List.map_cons, readNumStreams, List.flatMap_cons, List.append_assoc, bind, StateT.bind,
      readNumber_number _ (hc f (List.mem_cons_self ..)), Except.bind, ih', pure, StateT.pure, Except.pure]

theorem readSubSizes_sizes (xs : List Nat) (hx : ∀ x ∈ xs, x < 2 ^ 64) (total : Int) (rest : Bytes) (pp ps fo fs fi f2f ef) :
    readSubSizes xs.length total ⟨xs.flatMap number ++ rest, pp, ps, fo, fs, fi, f2f, ef⟩
      = .ok ((xs, total - (xs.sum : Nat)), ⟨rest, pp, ps, fo, fs, fi, f2f, ef⟩) := by
  induction xs generalizing total with
  | nil => simp [readSubSizes, pure, StateT.pure, Except.pure]
  | cons x xs ih =>
    have ih' := ih (fun y hy => hx y (List.mem_cons_of_mem _ hy)) (total - x)
    simp only [List.length_cons, readSubSizes, List.flatMap_cons, List.append_assoc, bind, StateT.bind,
      readNumber_number _ (hx x (List.mem_cons_self ..)), Except.bind, ih', pure, StateT.pure, Except.pure, List.sum_cons]
    congr 3
    omega

theorem sum_dropLast_getLast (xs : List Nat) (h : xs ≠ []) : xs.dropLast.sum + xs.getLast h = xs.sum := by
  conv => rhs; rw [← List.dropLast_concat_getLast h]
  simp

theorem readFolderFileSizes_sizes {α : Type} (l : List α) (g : α → Folder) (sz : α → List Nat)
    (hu : ∀ f ∈ l, (g f).unpackSizes = [(sz f).sum]) (hn : ∀ f ∈ l, (g f).numStreams = (sz f).length)
    (hne : ∀ f ∈ l, sz f ≠ []) (hpos : ∀ f ∈ l, ∀ x ∈ sz f, x ≠ 0 ∧ x < 2 ^ 64)
    (rest : Bytes) (pp ps fo fs fi f2f ef) :
    readFolderFileSizes (l.map g) ⟨l.flatMap (fun f => (sz f).dropLast.flatMap number) ++ rest, pp, ps, fo, fs, fi, f2f, ef⟩
      = .ok (l.flatMap sz, ⟨rest, pp, ps, fo, fs, fi, f2f, ef⟩) := by
  induction l with
  | nil => rfl
  | cons f l ih =>
    have ih' := ih (fun y hy => hu y (List.mem_cons_of_mem _ hy)) (fun y hy => hn y (List.mem_cons_of_mem _ hy))
      (fun y hy => hne y (List.mem_cons_of_mem _ hy)) (fun y hy => hpos y (List.mem_cons_of_mem _ hy))
    have h1 := hu f (List.mem_cons_self ..)
    have h2 := hn f (List.mem_cons_self ..)
    have h3 := hne f (List.mem_cons_self ..)
    have h4 := hpos f (List.mem_cons_self ..)
    have hsub := readSubSizes_sizes (sz f).dropLast (fun x hx => (h4 x (List.dropLast_subset _ hx)).2) ((sz f).sum : Nat)
    have hlen : (g f).numStreams - 1 = (sz f).dropLast.length := by simp [h2]
    have hsum := sum_dropLast_getLast (sz f) h3
    have hlast := (h4 _ (List.getLast_mem h3)).1
    have hleft : ((((sz f).sum : Nat) : Int) - (((sz f).dropLast.sum : Nat) : Int)) = (((sz f).getLast h3 : Nat) : Int) := by omega
    have hgt : ((((sz f).getLast h3 : Nat) : Int)) > 0 := by omega
    simp only [List.map_cons, readFolderFileSizes, List.flatMap_cons, List.append_assoc, h1, List.getLast?_singleton, hlen,
      bind, StateT.bind, hsub, Except.bind, hleft, if_pos hgt, Int.toNat_natCast, ih', pure, StateT.pure, Except.pure]
    rw [← List.append_assoc, List.dropLast_concat_getLast h3]
/-- what the PREVIOUS reader needed of the SubStreamsInfo digests: none, or one per substream -/
def DigestsAgree (L : Layout) : Prop := subCrcs L = [] ∨ (subCrcs L).length = (L.folders.map (·.count)).sum

/-- what the reader (`known = true`: repaired, `false`: previous) needs of the SubStreamsInfo digests:
    none written, or as many as it counts -/
def DigestsOk (known : Bool) (L : Layout) : Prop :=
  subCrcs L = [] ∨ (subCrcs L).length = digestCount known (foldersS L)

/-- the repaired reader counts exactly the digests 7zFormat.txt stores — for EVERY layout -/
theorem digestsOk_fixed (L : Layout) : DigestsOk true L := by
  right
  unfold subCrcs digestCount foldersS
  simp only [List.filter_map, List.map_map, Function.comp_def, Bool.true_and]
  induction L.folders with
  | nil => rfl
  | cons f l ih =>
    simp only [List.flatMap_cons, List.length_append, List.filter_cons, ih]
    by_cases hc : (L.opts.folderCrc && f.count == 1) = true
    · have h1 : L.opts.folderCrc = true := by simp at hc; exact hc.1
      have h2 : (f.count == 1) = true := by simp at hc; simpa using hc.2
      simp [hc, h1, h2]
    · have hk : (!(f.count == 1 && (if L.opts.folderCrc = true then some f.crc else none).isSome)) = true := by
        cases hfc : L.opts.folderCrc <;> cases h1 : (f.count == 1) <;> simp_all
      simp only [FolderSpec.fileCrcs, FolderSpec.count, FolderSpec.sizes, List.length_map] at hc hk ih ⊢
      simp only [hc, Bool.false_eq_true, if_false, hk, if_true, List.map_cons, List.sum_cons, List.length_map]

theorem digestsOk_legacy (L : Layout) (h : DigestsAgree L) : DigestsOk false L := by
  rcases h with h | h
  · exact Or.inl h
  · right
    rw [h]
    have hft : ∀ l : List FolderSpec, l.filter (fun _ => true) = l := fun l => by induction l <;> simp_all
    simp [digestCount, foldersS, List.map_map, Function.comp_def, List.filter_map, hft]

theorem parseSubstreamsInfo_write (L : Layout)
    (hc1 : ∀ f ∈ L.folders, f.count ≥ 1) (hc2 : ∀ f ∈ L.folders, f.count < 2 ^ 64)
    (hsz : ∀ f ∈ L.folders, ∀ x ∈ f.sizes, x ≠ 0 ∧ x < 2 ^ 64)
    (hcrc : ∀ c ∈ subCrcs L, c < 2 ^ 32) (known : Bool) (hdig : DigestsOk known L)
    (rest : Bytes) (pp ps fs fi f2f ef) :
    parseSubstreamsInfo specIds known ⟨subStreamsBody L ++ rest, pp, ps, foldersU L, fs, fi, f2f, ef⟩
      = .ok ((), ⟨rest, pp, ps, foldersS L, L.folders.flatMap (·.sizes), fi, f2f, ef⟩) := by
  have hA : ∀ (rest : Bytes) pp ps fo fs fi f2f ef,
      readNumStreams (foldersU L) ⟨L.folders.flatMap (fun f => number f.count) ++ rest, pp, ps, fo, fs, fi, f2f, ef⟩
        = .ok (foldersS L, ⟨rest, pp, ps, fo, fs, fi, f2f, ef⟩) := by
    intro rest pp ps fo fs fi f2f ef
    exact readNumStreams_counts L.folders _ (·.count) hc2 rest pp ps fo fs fi f2f ef
  have hB : ∀ (rest : Bytes) pp ps fo fs fi f2f ef,
      readFolderFileSizes (foldersS L) ⟨L.folders.flatMap (fun f => f.sizes.dropLast.flatMap number) ++ rest, pp, ps, fo, fs, fi, f2f, ef⟩
        = .ok (L.folders.flatMap (·.sizes), ⟨rest, pp, ps, fo, fs, fi, f2f, ef⟩) := by
    intro rest pp ps fo fs fi f2f ef
    exact readFolderFileSizes_sizes L.folders _ (·.sizes) (fun f _ => rfl) (fun f _ => rfl)
      (fun f hf => by have := hc1 f hf; unfold FolderSpec.count at this; intro h0; rw [h0] at this; simp at this)
      hsz rest pp ps fo fs fi f2f ef
  have hT : ((foldersS L).map (·.numStreams)).sum = (L.folders.map (·.count)).sum := by
    simp [foldersS, List.map_map, Function.comp_def]
  -- the three optional parts
  have hcnt1 : writesSubSizes L = false → ∀ f ∈ L.folders, f.count = 1 := by
    intro h f hf
    have h1 := hc1 f hf
    simp only [writesSubSizes, List.any_eq_false, decide_eq_true_eq] at h
    have := h f hf
    omega
  have hF : writesSubSizes L = false →
      (foldersS L).filterMap (fun f => f.unpackSizes.getLast?) = L.folders.flatMap (·.sizes) := by
    intro h
    have h1 := hcnt1 h
    simp only [foldersS, List.filterMap_map, Function.comp_def, List.getLast?_singleton]
    have : ∀ l : List FolderSpec, (∀ f ∈ l, f.count = 1) → l.map (fun f => f.unpackSize) = l.flatMap (·.sizes) := by
      intro l hl
      induction l with
      | nil => rfl
      | cons f l ih =>
        have hf := hl f (List.mem_cons_self ..)
        have ih' := ih (fun y hy => hl y (List.mem_cons_of_mem _ hy))
        unfold FolderSpec.count at hf
        obtain ⟨x, hx⟩ := List.length_eq_one_iff.mp hf
        simp only [FolderSpec.unpackSize] at ih' ⊢
        simp [ih', hx]
    simpa using this _ h1
  have hE : writesNumStreams L = false →
      (foldersU L).map (fun f => { f with numStreams := 1 }) = foldersS L := by
    intro h
    simp only [writesNumStreams, Bool.or_eq_false_iff, List.any_eq_false, bne_iff_ne, ne_eq, Decidable.not_not] at h
    simp only [foldersU, foldersS, List.map_map, Function.comp_def]
    apply List.map_congr_left
    intro f hf
    simp [h.2 f hf]
  have hE2 : writesNumStreams L = false → writesSubSizes L = false := by
    intro h
    simp only [writesNumStreams, Bool.or_eq_false_iff, List.any_eq_false, bne_iff_ne, ne_eq, Decidable.not_not] at h
    simp only [writesSubSizes, List.any_eq_false, decide_eq_true_eq]
    intro f hf
    have := h.2 f hf
    omega
  have hD : (subCrcs L).isEmpty = false → ∀ (rest : Bytes) pp ps fo fs fi f2f ef,
      readDefinedU32 (List.replicate (digestCount known (foldersS L)) true)
          ⟨(subCrcs L).flatMap (le 4) ++ rest, pp, ps, fo, fs, fi, f2f, ef⟩
        = .ok ((subCrcs L).map some, ⟨rest, pp, ps, fo, fs, fi, f2f, ef⟩) := by
    intro hne rest pp ps fo fs fi f2f ef
    rcases hdig with h0 | h1
    · rw [h0] at hne; simp at hne
    · rw [← h1]
      exact readDefinedU32_all (subCrcs L) hcrc rest pp ps fo fs fi f2f ef
  unfold parseSubstreamsInfo subStreamsBody
  cases c1 : writesNumStreams L <;> cases c2 : writesSubSizes L <;> cases c3 : (subCrcs L).isEmpty
  all_goals first
    | (have := hE2 c1; rw [c2] at this; exact absurd this (by decide))
    | simp [bind, StateT.bind, Except.bind, get, getThe, MonadStateOf.get, StateT.get, pure, StateT.pure, Except.pure,
        specIds, readU8_cons, modify, modifyGet, MonadStateOf.modifyGet, StateT.modifyGet, hA, hB, bad, digests,
        readBoolVector_allDefined, hD c3, hE c1, hF c2]
    | simp [bind, StateT.bind, Except.bind, get, getThe, MonadStateOf.get, StateT.get, pure, StateT.pure, Except.pure,
        specIds, readU8_cons, modify, modifyGet, MonadStateOf.modifyGet, StateT.modifyGet, hA, hB, bad, digests,
        readBoolVector_allDefined, hD c3, hF c2]
    | simp [bind, StateT.bind, Except.bind, get, getThe, MonadStateOf.get, StateT.get, pure, StateT.pure, Except.pure,
        specIds, readU8_cons, modify, modifyGet, MonadStateOf.modifyGet, StateT.modifyGet, hA, hB, bad, digests,
        readBoolVector_allDefined, hE c1, hF c2]
    | simp [bind, StateT.bind, Except.bind, get, getThe, MonadStateOf.get, StateT.get, pure, StateT.pure, Except.pure,
        specIds, readU8_cons, modify, modifyGet, MonadStateOf.modifyGet, StateT.modifyGet, hA, hB, bad, digests,
        readBoolVector_allDefined, hD c3]
    | simp [bind, StateT.bind, Except.bind, get, getThe, MonadStateOf.get, StateT.get, pure, StateT.pure, Except.pure,
        specIds, readU8_cons, modify, modifyGet, MonadStateOf.modifyGet, StateT.modifyGet, hA, hB, bad, digests,
        readBoolVector_allDefined, hF c2]
    | simp [bind, StateT.bind, Except.bind, get, getThe, MonadStateOf.get, StateT.get, pure, StateT.pure, Except.pure,
        specIds, readU8_cons, modify, modifyGet, MonadStateOf.modifyGet, StateT.modifyGet, hA, hB, bad, digests,
        readBoolVector_allDefined]
theorem ids_kEnd : specIds.kEnd = 0 := rfl
theorem ids_kHeader : specIds.kHeader = 1 := rfl
theorem ids_kArchiveProperties : specIds.kArchiveProperties = 2 := rfl
theorem ids_kAdditionalStreamsInfo : specIds.kAdditionalStreamsInfo = 3 := rfl
theorem ids_kMainStreamsInfo : specIds.kMainStreamsInfo = 4 := rfl
theorem ids_kFilesInfo : specIds.kFilesInfo = 5 := rfl
theorem ids_kPackInfo : specIds.kPackInfo = 6 := rfl
theorem ids_kUnpackInfo : specIds.kUnpackInfo = 7 := rfl
theorem ids_kSubStreamsInfo : specIds.kSubStreamsInfo = 8 := rfl
theorem ids_kSize : specIds.kSize = 9 := rfl
theorem ids_kCRC : specIds.kCRC = 10 := rfl
theorem ids_kFolder : specIds.kFolder = 11 := rfl
theorem ids_kCodersUnpackSize : specIds.kCodersUnpackSize = 12 := rfl
theorem ids_kNumUnpackStream : specIds.kNumUnpackStream = 13 := rfl
theorem ids_kEmptyStream : specIds.kEmptyStream = 14 := rfl
theorem ids_kEmptyFile : specIds.kEmptyFile = 15 := rfl
theorem ids_kName : specIds.kName = 17 := rfl
theorem ids_kWinAttributes : specIds.kWinAttributes = 21 := rfl
theorem ids_kEncodedHeader : specIds.kEncodedHeader = 23 := rfl
/-- the property ids, as rewrite rules (keeps `specIds` folded) -/
theorem ids_all : specIds.kEnd = 0 ∧ specIds.kHeader = 1 ∧ specIds.kArchiveProperties = 2 ∧ specIds.kAdditionalStreamsInfo = 3 ∧ specIds.kMainStreamsInfo = 4 ∧ specIds.kFilesInfo = 5 ∧ specIds.kPackInfo = 6 ∧ specIds.kUnpackInfo = 7 ∧ specIds.kSubStreamsInfo = 8 ∧ specIds.kSize = 9 ∧ specIds.kCRC = 10 ∧ specIds.kFolder = 11 ∧ specIds.kCodersUnpackSize = 12 ∧ specIds.kNumUnpackStream = 13 ∧ specIds.kEmptyStream = 14 ∧ specIds.kEmptyFile = 15 ∧ specIds.kName = 17 ∧ specIds.kWinAttributes = 21 ∧ specIds.kEncodedHeader = 23 := by decide

/-- what the header needs of the folders of a layout (all of it follows from `WellFormed`) -/
structure FoldersOk (L : Layout) : Prop where
  packPos : L.packPos < 2 ^ 64
  nfolders : L.folders.length < 2 ^ 64
  packSize : ∀ f ∈ L.folders, f.packSize < 2 ^ 64
  packCrc : ∀ f ∈ L.folders, f.packCrc < 2 ^ 32
  method : ∀ f ∈ L.folders, methodOk f.method = true
  unpack : ∀ f ∈ L.folders, f.unpackSize < 2 ^ 64
  crc : ∀ f ∈ L.folders, f.crc < 2 ^ 32
  count1 : ∀ f ∈ L.folders, f.count ≥ 1
  count2 : ∀ f ∈ L.folders, f.count < 2 ^ 64
  sizes : ∀ f ∈ L.folders, ∀ x ∈ f.sizes, x ≠ 0 ∧ x < 2 ^ 64
  subCrc : ∀ c ∈ subCrcs L, c < 2 ^ 32

theorem parseStreamsInfo_write (L : Layout) (h : FoldersOk L) (known : Bool) (hdig : DigestsOk known L)
    (rest : Bytes) (pp ps fo fs fi f2f ef) :
    parseStreamsInfo specIds known ⟨streamsInfo L ++ rest, pp, ps, fo, fs, fi, f2f, ef⟩
      = .ok ((), ⟨rest, [L.packPos + 32], L.folders.map (·.packSize), foldersS L, L.folders.flatMap (·.sizes), fi, f2f, ef⟩) := by
  obtain ⟨tp, htp⟩ : ∃ t, packInfo L = 6 :: t := ⟨_, rfl⟩
  obtain ⟨tu, htu⟩ : ∃ t, unpackInfo L = 7 :: t := ⟨_, rfl⟩
  have hP := parsePackInfo_write L h.packPos h.nfolders h.packSize h.packCrc
  have hU := parseUnpackInfo_write L h.nfolders h.method h.unpack h.crc
  have hS := parseSubstreamsInfo_write L h.count1 h.count2 h.sizes h.subCrc known hdig
  rw [htp] at hP
  rw [htu] at hU
  simp only [List.cons_append] at hP hU
  unfold parseStreamsInfo streamsInfo subStreamsInfo
  rw [htp, htu]
  simp [bind, StateT.bind, Except.bind, get, getThe, MonadStateOf.get, StateT.get, pure, StateT.pure, Except.pure,
    ids_kEnd, ids_kHeader, ids_kArchiveProperties, ids_kAdditionalStreamsInfo, ids_kMainStreamsInfo, ids_kFilesInfo, ids_kPackInfo, ids_kUnpackInfo, ids_kSubStreamsInfo, ids_kSize, ids_kCRC, ids_kFolder, ids_kCodersUnpackSize, ids_kNumUnpackStream, ids_kEmptyStream, ids_kEmptyFile, ids_kName, ids_kWinAttributes, ids_kEncodedHeader,
    readU8_cons, modify, modifyGet, MonadStateOf.modifyGet, StateT.modifyGet, hP, hU, hS, bad]
/-! ### files info: the property stream -/

theorem filesProps_end (dec : List Nat → Str) (ext : Bool) (n : Nat) (acc : FilesAcc) (rest : Bytes) :
    filesProps specIds dec ext n acc (0 :: rest) = .ok (acc, rest) := by
  rw [filesProps]; rw [if_pos (show (0 : Nat) = specIds.kEnd from rfl)]

/-- one property: the body is handed to `fileProp` (with what follows), then skipped by its declared size -/
theorem filesProps_step (dec : List Nat → Str) (ext : Bool) (n : Nat) (acc : FilesAcc) (pid : Nat) (body rest : Bytes)
    (hp : pid ≠ 0) (hb : body.length < 2 ^ 64) :
    filesProps specIds dec ext n acc (prop pid body ++ rest)
      = match fileProp specIds dec ext n acc pid (body ++ rest) with
        | .error e => .error e
        | .ok acc' => filesProps specIds dec ext n acc' rest := by
  have hn := readNumber_number body.length hb (body ++ rest) [] [] [] [] [] [] []
  simp only [prop, List.cons_append, List.append_assoc]
  rw [filesProps]
  have hp' : ¬ pid = specIds.kEnd := hp
  rw [if_neg hp']
  split
  · rename_i e he; rw [hn] at he; cases he
  · rename_i size r1 he
    rw [hn] at he
    cases he
    simp only [List.drop_left]
    cases fileProp specIds dec ext n acc pid (body ++ rest) <;> rfl

/-! the single properties -/

theorem runOn_ok {α} (m : M α) (s : Bytes) (a : α) (r' : R) (h : m { stream := s } = .ok (a, r')) : runOn m s = .ok a := by
  simp [runOn, h]

theorem fileProp_emptyStream (dec : List Nat → Str) (ext : Bool) (acc : FilesAcc) (bits : List Bool) (rest : Bytes) :
    fileProp specIds dec ext bits.length acc 0x0E (bitVector bits ++ rest) = .ok { acc with emptyStreams := bits } := by
  have := runOn_ok _ _ _ _ (readBoolVector_bitVector bits rest [] [] [] [] [] [] [])
  simp [fileProp, ids_kEmptyStream, this, bind, Except.bind, pure, Except.pure]

theorem fileProp_emptyFile (dec : List Nat → Str) (ext : Bool) (n : Nat) (acc : FilesAcc) (bits : List Bool) (rest : Bytes)
    (h : (acc.emptyStreams.filter id).length = bits.length) :
    fileProp specIds dec ext n acc 0x0F (bitVector bits ++ rest) = .ok { acc with emptyFiles := bits } := by
  have := runOn_ok _ _ _ _ (readBoolVector_bitVector bits rest [] [] [] [] [] [] [])
  simp [fileProp, ids_kEmptyStream, ids_kEmptyFile, h, this, bind, Except.bind, pure, Except.pure]

theorem fileProp_names (ext : Bool) (acc : FilesAcc) (names : List (List Nat)) (h : ∀ n ∈ names, ∀ c ∈ n, CpOk c) (rest : Bytes) :
    fileProp specIds decodeUtf16 ext names.length acc 0x11 (0 :: (names.flatMap nameBytes ++ rest)) = .ok { acc with names := names } := by
  simp [fileProp, ids_kEmptyStream, ids_kEmptyFile, ids_kName, readNames_names names h, bind, Except.bind, pure, Except.pure]

theorem fileProp_unknown (dec : List Nat → Str) (ext : Bool) (n : Nat) (acc : FilesAcc) (pid : Nat) (body : Bytes)
    (h : pid ≠ 0x0E ∧ pid ≠ 0x0F ∧ pid ≠ 0x11 ∧ pid ≠ 0x15) :
    fileProp specIds dec ext n acc pid body = .ok acc := by
  simp [fileProp, ids_kEmptyStream, ids_kEmptyFile, ids_kName, ids_kWinAttributes, h, pure, Except.pure]

/-- what `_parse_files_info` takes for the attributes: it does not consume the `External` byte of the property, so
    every value is read one byte early — the low byte is the previous entry's high byte (0 for the first), the
    upper three bytes are the entry's lower three. -/
def seenAttrs : Nat → List Nat → List Nat
  | _, [] => []
  | c, a :: r => (c + 256 * (a % 2 ^ 24)) :: seenAttrs (a / 2 ^ 24) r

def carryOut : Nat → List Nat → Nat
  | c, [] => c
  | _, a :: r => carryOut (a / 2 ^ 24) r

theorem readDefinedU32_shifted (as : List Nat) (h : ∀ a ∈ as, a < 2 ^ 32) (c : Nat) (rest : Bytes) (pp ps fo fs fi f2f ef) :
    readDefinedU32 (List.replicate as.length true) ⟨c :: (as.flatMap (le 4) ++ rest), pp, ps, fo, fs, fi, f2f, ef⟩
      = .ok ((seenAttrs c as).map some, ⟨carryOut c as :: rest, pp, ps, fo, fs, fi, f2f, ef⟩) := by
  induction as generalizing c with
  | nil => rfl
  | cons a as ih =>
    have ha := h a (List.mem_cons_self ..)
    have ih' := ih (fun y hy => h y (List.mem_cons_of_mem _ hy)) (a / 2 ^ 24)
    have hv : c + 256 * (a % 256 + 256 * (a / 256 % 256 + 256 * (a / 256 / 256 % 256 + 256 * 0))) = c + 256 * (a % 2 ^ 24) := by omega
    have hc : a / 256 / 256 / 256 % 256 = a / 2 ^ 24 := by omega
    have hle : le 4 a = [a % 256, a / 256 % 256, a / 256 / 256 % 256, a / 256 / 256 / 256 % 256] := by simp [le]
    simp only [List.length_cons, List.replicate_succ, readDefinedU32, List.flatMap_cons, hle, List.cons_append, List.nil_append,
      bind, StateT.bind, Except.bind, readU32, readBytes, List.length_cons, pure, StateT.pure, Except.pure, seenAttrs,
      carryOut, List.map_cons]
    rw [if_neg (by omega)]
    simp only [List.take_succ_cons, List.take_zero, List.drop_succ_cons, List.drop_zero, leValue, hv, hc, ih']

theorem seenAttrs_length (c : Nat) (as : List Nat) : (seenAttrs c as).length = as.length := by
  induction as generalizing c with
  | nil => rfl
  | cons a as ih => simp [seenAttrs, ih]

theorem setAttrs_all (vals : List Nat) : setAttrs (List.replicate vals.length 0) (vals.map some) = vals := by
  induction vals with
  | nil => rfl
  | cons v vs ih => simp [List.replicate_succ, setAttrs, ih]

/-- the attributes as the reader ends up with them: as written (`ext = true`, repaired) or one byte early -/
def readAttrs (ext : Bool) (as : List Nat) : List Nat := if ext then as else seenAttrs 0 as

theorem readAttrs_length (ext : Bool) (as : List Nat) : (readAttrs ext as).length = as.length := by
  unfold readAttrs; split <;> simp [seenAttrs_length]

/-- the attributes property: AllAreDefined = 1, External = 0, the values.  The repaired reader consumes the
    External byte and gets the values as written; the previous one (`ext = false`) gets `seenAttrs`. -/
theorem fileProp_attrs (dec : List Nat → Str) (ext : Bool) (acc : FilesAcc) (as : List Nat) (h : ∀ a ∈ as, a < 2 ^ 32) (rest : Bytes)
    (hacc : acc.attributes = List.replicate as.length 0) :
    fileProp specIds dec ext as.length acc 0x15 (1 :: 0 :: (as.flatMap (le 4) ++ rest))
      = .ok { acc with attributes := readAttrs ext as } := by
  cases ext
  · have h1 := readDefinedU32_shifted as h 0 rest [] [] [] [] [] [] []
    have hl : (seenAttrs 0 as).length = as.length := seenAttrs_length 0 as
    have h2 := setAttrs_all (seenAttrs 0 as)
    rw [hl] at h2
    simp [fileProp, ids_kEmptyStream, ids_kEmptyFile, ids_kName, ids_kWinAttributes, runOn, bind, StateT.bind, Except.bind,
      readBoolVector_allDefined, h1, hacc, h2, pure, Except.pure, readAttrs]
  · have h1 := readDefinedU32_all as h rest [] [] [] [] [] [] []
    have h2 := setAttrs_all as
    simp [fileProp, ids_kEmptyStream, ids_kEmptyFile, ids_kName, ids_kWinAttributes, runOn, bind, StateT.bind, Except.bind,
      readBoolVector_allDefined, readU8_cons, h1, hacc, h2, pure, StateT.pure, Except.pure, readAttrs]
theorem bitVector_length : ∀ (n : Nat) (bs : List Bool), bs.length ≤ n → (bitVector bs).length ≤ bs.length
  | _, [], _ => by simp [bitVector]
  | 0, b :: t, h => by simp at h
  | n + 1, b :: t, h => by
    rw [bitVector_cons]
    have := bitVector_length n ((b :: t).drop 8) (by simp at h ⊢; omega)
    simp only [List.length_cons, List.length_drop] at this ⊢
    omega

/-- the EmptyFile vector as the reader ends up with it (`[]` when the property is absent) -/
def efParsed (es : List EntrySpec) : List Bool := if (emptyFileVec es).any id then emptyFileVec es else []

theorem emptyStream_count (es : List EntrySpec) : ((emptyStreamVec es).filter id).length = (emptyFileVec es).length := by
  induction es with
  | nil => rfl
  | cons e es ih =>
    simp only [emptyStreamVec, emptyFileVec, List.map_cons, List.filter_cons] at ih ⊢
    cases h : e.hasStream <;> simp [h, ih]

theorem emptyProps_run (dec : List Nat → Str) (ext : Bool) (es : List EntrySpec) (hn : es.length < 2 ^ 60) (acc : FilesAcc)
    (h1 : acc.emptyStreams = List.replicate es.length false) (h2 : acc.emptyFiles = []) (X : Bytes) :
    filesProps specIds dec ext es.length acc (emptyProps es ++ X)
      = filesProps specIds dec ext es.length { acc with emptyStreams := emptyStreamVec es, emptyFiles := efParsed es } X := by
  have hlen : (emptyStreamVec es).length = es.length := by simp [emptyStreamVec]
  have hb1 : (bitVector (emptyStreamVec es)).length < 2 ^ 64 := by
    have := bitVector_length _ (emptyStreamVec es) (Nat.le_refl _); omega
  have hb2 : (bitVector (emptyFileVec es)).length < 2 ^ 64 := by
    have := bitVector_length _ (emptyFileVec es) (Nat.le_refl _)
    have h3 : (emptyFileVec es).length ≤ es.length := by
      simp only [emptyFileVec, List.length_map]; exact List.length_filter_le _ _
    omega
  unfold emptyProps
  cases hes : (emptyStreamVec es).any id
  · -- no entry without a stream: nothing is written, and the defaults are the vectors
    have hall : emptyStreamVec es = List.replicate es.length false := by
      rw [← hlen]
      apply List.eq_replicate_iff.mpr
      refine ⟨rfl, fun b hb => ?_⟩
      simp only [List.any_eq_false, id_eq, Bool.not_eq_true] at hes
      exact hes b hb
    have hef : emptyFileVec es = [] := by
      have := emptyStream_count es
      rw [hall] at this
      simp at this
      exact List.length_eq_zero_iff.mp this.symm
    have : efParsed es = [] := by simp [efParsed, hef]
    simp only [Bool.false_eq_true, if_false, List.nil_append, this, hall]
    congr 1
    cases acc; simp_all
  · have hs := fileProp_emptyStream dec ext acc (emptyStreamVec es)
    rw [hlen] at hs
    cases hef : (emptyFileVec es).any id
    · simp [filesProps_step _ _ _ _ _ _ _ (by decide : (0x0E : Nat) ≠ 0) hb1, hs, efParsed, hef, h2]
    · have hf := fileProp_emptyFile dec ext es.length { acc with emptyStreams := emptyStreamVec es } (emptyFileVec es)
      simp [filesProps_step _ _ _ _ _ _ _ (by decide : (0x0E : Nat) ≠ 0) hb1, hs,
        filesProps_step _ _ _ _ _ _ _ (by decide : (0x0F : Nat) ≠ 0) hb2, hf, emptyStream_count, efParsed, hef]

theorem names_run (ext : Bool) (es : List EntrySpec) (hok : ∀ e ∈ es, ∀ c ∈ e.name, CpOk c) (hl : (namesBody es).length < 2 ^ 64)
    (acc : FilesAcc) (X : Bytes) :
    filesProps specIds decodeUtf16 ext es.length acc (prop 0x11 (namesBody es) ++ X)
      = filesProps specIds decodeUtf16 ext es.length { acc with names := es.map (·.name) } X := by
  have h := fileProp_names ext acc (es.map (·.name)) (by simpa using hok) X
  simp only [List.length_map, List.flatMap_map] at h
  rw [filesProps_step _ _ _ _ _ (namesBody es) X (by decide) hl]
  simp only [namesBody, List.cons_append]
  rw [h]

/-- the attribute of every entry as the reader ends up with it (0 when the property is absent) -/
def attrsParsed (ext : Bool) (o : Opts) (es : List EntrySpec) : List Nat :=
  if o.attrs then readAttrs ext (es.map (·.attrib)) else List.replicate es.length 0

theorem flatMap_length_const {α : Type} (l : List α) (f : α → Bytes) (k : Nat) (h : ∀ a, (f a).length = k) :
    (l.flatMap f).length = k * l.length := by
  induction l with
  | nil => rfl
  | cons a l ih => simp [List.flatMap_cons, h, ih, Nat.mul_add]; omega

theorem unknown_run (dec : List Nat → Str) (ext : Bool) (n : Nat) (acc : FilesAcc) (pid : Nat) (body X : Bytes)
    (hp : pid ≠ 0 ∧ pid ≠ 0x0E ∧ pid ≠ 0x0F ∧ pid ≠ 0x11 ∧ pid ≠ 0x15) (hl : body.length < 2 ^ 64) :
    filesProps specIds dec ext n acc (prop pid body ++ X) = filesProps specIds dec ext n acc X := by
  rw [filesProps_step _ _ _ _ _ body X hp.1 hl, fileProp_unknown _ _ _ _ _ _ hp.2]

theorem attrs_run (dec : List Nat → Str) (ext : Bool) (es : List EntrySpec) (hn : es.length < 2 ^ 60)
    (ha : ∀ e ∈ es, e.attrib < 2 ^ 32) (acc : FilesAcc) (hacc : acc.attributes = List.replicate es.length 0) (X : Bytes) :
    filesProps specIds dec ext es.length acc (prop 0x15 (attrsBody es) ++ X)
      = filesProps specIds dec ext es.length { acc with attributes := readAttrs ext (es.map (·.attrib)) } X := by
  have hl3 : (attrsBody es).length < 2 ^ 64 := by
    simp only [attrsBody, List.length_append, flatMap_length_const es _ 4 (fun e => le_length 4 _), List.length_cons,
      List.length_nil]
    omega
  have hat := fileProp_attrs dec ext acc (es.map (·.attrib)) (by simpa using ha) X
  simp only [List.length_map, List.flatMap_map] at hat
  rw [filesProps_step _ _ _ _ _ (attrsBody es) X (by decide) hl3]
  simp only [attrsBody, List.cons_append, List.nil_append]
  rw [hat hacc]

theorem otherProps_end (dec : List Nat → Str) (ext : Bool) (o : Opts) (es : List EntrySpec) (hn : es.length < 2 ^ 60)
    (hd : o.dummy < 2 ^ 64) (ha : ∀ e ∈ es, e.attrib < 2 ^ 32) (acc : FilesAcc)
    (hacc : acc.attributes = List.replicate es.length 0) (rest : Bytes) :
    filesProps specIds dec ext es.length acc (otherProps o es ++ 0 :: rest)
      = .ok ({ acc with attributes := attrsParsed ext o es }, rest) := by
  have hl1 : (List.replicate o.dummy 0).length < 2 ^ 64 := by simpa using hd
  have hl2 : (mtimeBody es).length < 2 ^ 64 := by
    simp only [mtimeBody, List.length_append, flatMap_length_const es _ 8 (fun e => le_length 8 _), List.length_cons,
      List.length_nil]
    omega
  have hself : { acc with attributes := List.replicate es.length 0 } = acc := by cases acc; simp_all
  have r1 := fun X => unknown_run dec ext es.length acc 0x19 (List.replicate o.dummy 0) X (by decide) hl1
  have r2 := fun X => unknown_run dec ext es.length acc 0x14 (mtimeBody es) X (by decide) hl2
  have r3 := fun X => attrs_run dec ext es hn ha acc hacc X
  unfold otherProps attrsParsed
  by_cases hd0 : o.dummy = 0 <;> cases o.mtime <;> cases o.attrs <;>
    simp [hd0, r1, r2, r3, filesProps_end, hself]
/-- what the header needs of the entries of a layout (follows from `WellFormed`) -/
structure EntriesOk (o : Opts) (es : List EntrySpec) : Prop where
  names : ∀ e ∈ es, ∀ c ∈ e.name, CpOk c
  namesLen : (namesBody es).length < 2 ^ 60
  count : es.length < 2 ^ 60
  attrib : ∀ e ∈ es, e.attrib < 2 ^ 32
  dummy : o.dummy < 2 ^ 64

theorem namesBody_length_ge (es : List EntrySpec) : 2 * es.length ≤ (namesBody es).length := by
  induction es with
  | nil => simp [namesBody]
  | cons e es ih =>
    simp only [namesBody, List.flatMap_cons, List.length_cons, List.length_append, nameBytes] at ih ⊢
    omega

theorem prop_length (pid : Nat) (body : Bytes) : body.length ≤ (prop pid body).length := by
  simp [prop]; omega

theorem propsStream_length (o : Opts) (es : List EntrySpec) : es.length ≤ (propsStream o es).length := by
  have h1 := namesBody_length_ge es
  have h2 := prop_length 0x11 (namesBody es)
  unfold propsStream
  split <;> simp only [List.length_append] <;> omega

/-- the entries as `_parse_files_info` hands them to `_build_file_list` -/
def rawOf (ext : Bool) (o : Opts) (es : List EntrySpec) : List RawEntry :=
  zipEntries (es.map (·.name)) (emptyStreamVec es) (attrsParsed ext o es)

theorem parseFilesInfo_write (ext : Bool) (o : Opts) (es : List EntrySpec) (h : EntriesOk o es)
    (rest : Bytes) (pp ps fo fs fi f2f ef) :
    parseFilesInfo specIds decodeUtf16 true ext ⟨number es.length ++ (propsStream o es ++ 0 :: rest), pp, ps, fo, fs, fi, f2f, ef⟩
      = .ok ((), buildFileList ⟨rest, pp, ps, fo, fs, fi, f2f, ef⟩ (rawOf ext o es) (efParsed es)) := by
  have hn64 : es.length < 2 ^ 64 := by have := h.count; omega
  have hnl : (namesBody es).length < 2 ^ 64 := by have := h.namesLen; omega
  have hlen : ¬ (es.length > (propsStream o es ++ 0 :: rest).length) := by
    have := propsStream_length o es
    simp only [List.length_append]; omega
  have hloop : filesProps specIds decodeUtf16 ext es.length
      { emptyStreams := List.replicate es.length false, emptyFiles := [], names := List.replicate es.length [],
        attributes := List.replicate es.length 0 } (propsStream o es ++ 0 :: rest)
      = .ok ({ emptyStreams := emptyStreamVec es, emptyFiles := efParsed es, names := es.map (·.name),
               attributes := attrsParsed ext o es }, rest) := by
    unfold propsStream
    cases o.namesFirst
    · simp only [Bool.false_eq_true, if_false, List.append_assoc]
      rw [emptyProps_run _ ext es h.count _ rfl rfl, names_run ext es h.names hnl,
        otherProps_end _ ext o es h.count h.dummy h.attrib _ rfl]
    · simp only [if_true, List.append_assoc]
      rw [names_run ext es h.names hnl, emptyProps_run _ ext es h.count _ rfl rfl,
        otherProps_end _ ext o es h.count h.dummy h.attrib _ rfl]
  unfold parseFilesInfo
  simp only [bind, StateT.bind, Except.bind, readNumber_number es.length hn64, get, getThe, MonadStateOf.get, StateT.get,
    pure, StateT.pure, Except.pure, if_neg hlen, hloop, set, StateT.set, rawOf, if_true]
/-- the reader after the streams info of the layout (nothing at all when there is no folder) -/
def streamsState (L : Layout) : R :=
  if L.folders ≠ [] then
    { stream := [], packPositions := [L.packPos + 32], packSizes := L.folders.map (·.packSize), folders := foldersS L,
      fileSizes := L.folders.flatMap (·.sizes) }
  else { stream := [] }

/-- the reader state after `__init__`: `_build_file_list` run on the parsed streams info with the entries' names,
    EmptyStream bits, attributes and EmptyFile bits.  `ext = false`: with the attributes as the PREVIOUS reader took
    them (`seenAttrs`, one byte early). -/
def stateOfV (ext : Bool) (L : Layout) : R :=
  if L.entries ≠ [] then buildFileList (streamsState L) (rawOf ext L.opts L.entries) (efParsed L.entries)
  else streamsState L

/-- **the reader state a well-formed layout stands for** (attributes as written) -/
def stateOf (L : Layout) : R := stateOfV true L

theorem readU8_buildFileList (b : Nat) (s : Bytes) (pp ps fo fs fi f2f ef) (raw : List RawEntry) (efs : List Bool) :
    readU8 (buildFileList ⟨b :: s, pp, ps, fo, fs, fi, f2f, ef⟩ raw efs)
      = .ok (b, buildFileList ⟨s, pp, ps, fo, fs, fi, f2f, ef⟩ raw efs) := by
  simp [buildFileList, readU8]

theorem parseMainHeader_write (L : Layout) (hf : FoldersOk L) (known ext : Bool) (hd : DigestsOk known L)
    (he : EntriesOk L.opts L.entries) :
    parseMainHeader specIds { fixed with digestsKnown := known, attrExternal := ext } ⟨(writeHeader L).tail, [], [], [], [], [], [], []⟩
      = .ok ((), stateOfV ext L) := by
  have hS := parseStreamsInfo_write L hf known hd
  have hF := parseFilesInfo_write ext L.opts L.entries he
  unfold parseMainHeader writeHeader stateOfV streamsState filesInfo
  by_cases h1 : L.folders = [] <;> by_cases h2 : L.entries = [] <;>
    simp [h1, h2, bind, StateT.bind, Except.bind, get, getThe, MonadStateOf.get, StateT.get, pure, StateT.pure, Except.pure,
      ids_kEnd, ids_kArchiveProperties, ids_kAdditionalStreamsInfo, ids_kMainStreamsInfo, ids_kFilesInfo, readU8_cons,
      hS, hF, bad, fixed, readU8_buildFileList]
/-! ### `WellFormed` gives everything the block lemmas ask for -/

theorem entryOk_facts {e : EntrySpec} (h : entryOk e = true) :
    nameOk e.name = true ∧ e.size < 2 ^ 64 ∧ e.attrib < 2 ^ 32 ∧ e.crc < 2 ^ 32 := by
  simp only [entryOk, Bool.and_eq_true, decide_eq_true_eq] at h
  exact ⟨h.1.1.1.1.1, h.1.1.1.1.2, h.1.1.1.2, h.1.2⟩

theorem folderOk_facts {f : FolderSpec} (h : folderOk f = true) :
    methodOk f.method = true ∧ f.packSize < 2 ^ 64 ∧ f.packCrc < 2 ^ 32 ∧ f.crc < 2 ^ 32 ∧ f.count ≥ 1
      ∧ f.unpackSize < 2 ^ 64 ∧ ∀ e ∈ f.entries, entryOk e = true := by
  simp only [folderOk, Bool.and_eq_true, decide_eq_true_eq, List.all_eq_true] at h
  exact ⟨h.1.1.1.1.1.1, h.1.1.1.1.1.2, h.1.1.1.1.2, h.1.1.1.2, h.1.1.2, h.1.2, h.2⟩

theorem wf_facts {L : Layout} (h : WellFormed L) :
    (∀ f ∈ L.folders, folderOk f = true) ∧ (∀ e ∈ L.tail, entryOk e = true ∧ e.hasStream = false)
      ∧ L.packPos < 2 ^ 64 ∧ L.opts.dummy < 2 ^ 64 ∧ (namesBody L.entries).length < 2 ^ 60 := by
  simp only [WellFormed, wellFormed, Bool.and_eq_true, decide_eq_true_eq, List.all_eq_true, Bool.not_eq_true'] at h
  exact ⟨h.1.1.1.1, h.1.1.1.2, h.1.1.2, h.1.2, h.2⟩

theorem wf_entryOk {L : Layout} (h : WellFormed L) : ∀ e ∈ L.entries, entryOk e = true := by
  obtain ⟨h1, h2, _⟩ := wf_facts h
  intro e he
  simp only [Layout.entries, List.mem_append, List.mem_flatMap] at he
  rcases he with ⟨f, hf, hef⟩ | he
  · exact (folderOk_facts (h1 f hf)).2.2.2.2.2.2 e hef
  · exact (h2 e he).1

theorem count_le_entries (f : FolderSpec) : f.count ≤ f.entries.length := by
  simp only [FolderSpec.count, FolderSpec.sizes, List.length_map]
  exact List.length_filter_le _ _

theorem length_le_flatMap (l : List FolderSpec) (h : ∀ f ∈ l, f.count ≥ 1) : l.length ≤ (l.flatMap (·.entries)).length := by
  induction l with
  | nil => simp
  | cons f l ih =>
    have := ih (fun y hy => h y (List.mem_cons_of_mem _ hy))
    have h1 := h f (List.mem_cons_self ..)
    have h2 := count_le_entries f
    simp only [List.length_cons, List.flatMap_cons, List.length_append]
    omega

theorem entries_length_ge (l : List FolderSpec) (f : FolderSpec) (hf : f ∈ l) : f.entries.length ≤ (l.flatMap (·.entries)).length := by
  induction l with
  | nil => simp at hf
  | cons g l ih =>
    simp only [List.flatMap_cons, List.length_append]
    rcases List.mem_cons.mp hf with rfl | h
    · omega
    · have := ih h; omega

theorem wf_entriesOk {L : Layout} (h : WellFormed L) : EntriesOk L.opts L.entries := by
  obtain ⟨h1, h2, h3, h4, h5⟩ := wf_facts h
  have he := wf_entryOk h
  refine ⟨?_, h5, ?_, ?_, h4⟩
  · intro e hm
    exact (cpOk_of_nameOk (entryOk_facts (he e hm)).1).2
  · have := namesBody_length_ge L.entries; omega
  · intro e hm; exact (entryOk_facts (he e hm)).2.2.1

theorem wf_foldersOk {L : Layout} (h : WellFormed L) : FoldersOk L := by
  obtain ⟨h1, h2, h3, h4, h5⟩ := wf_facts h
  have hn : L.entries.length < 2 ^ 60 := by have := namesBody_length_ge L.entries; omega
  have hc1 : ∀ f ∈ L.folders, f.count ≥ 1 := fun f hf => (folderOk_facts (h1 f hf)).2.2.2.2.1
  have hfl : (L.folders.flatMap (·.entries)).length ≤ L.entries.length := by simp [Layout.entries]
  have hsize : ∀ f ∈ L.folders, ∀ e ∈ f.entries.filter (·.hasStream), e.size ≠ 0 ∧ e.size < 2 ^ 64 ∧ e.crc < 2 ^ 32 := by
    intro f hf e he
    have ⟨hin, hs⟩ := List.mem_filter.mp he
    have hok := entryOk_facts ((folderOk_facts (h1 f hf)).2.2.2.2.2.2 e hin)
    refine ⟨?_, hok.2.1, hok.2.2.2⟩
    simp only [EntrySpec.hasStream, Bool.and_eq_true, bne_iff_ne, ne_eq] at hs
    exact hs.2
  refine ⟨h3, ?_, ?_, ?_, ?_, ?_, ?_, hc1, ?_, ?_, ?_⟩
  · have := length_le_flatMap L.folders hc1; omega
  · intro f hf; exact (folderOk_facts (h1 f hf)).2.1
  · intro f hf; exact (folderOk_facts (h1 f hf)).2.2.1
  · intro f hf; exact (folderOk_facts (h1 f hf)).1
  · intro f hf; exact (folderOk_facts (h1 f hf)).2.2.2.2.2.1
  · intro f hf; exact (folderOk_facts (h1 f hf)).2.2.2.1
  · intro f hf
    have := count_le_entries f
    have := entries_length_ge L.folders f hf
    omega
  · intro f hf x hx
    simp only [FolderSpec.sizes, List.mem_map] at hx
    obtain ⟨e, he, rfl⟩ := hx
    exact ⟨(hsize f hf e he).1, (hsize f hf e he).2.1⟩
  · intro c hc
    simp only [subCrcs, List.mem_flatMap] at hc
    obtain ⟨f, hf, hcf⟩ := hc
    split at hcf
    · simp at hcf
    · simp only [FolderSpec.fileCrcs, List.mem_map] at hcf
      obtain ⟨e, he, rfl⟩ := hcf
      exact (hsize f hf e he).2.2

/-- the layouts whose SubStreamsInfo digests the reader cannot follow: folder CRCs are stored AND some folder holds
    one file while another holds several (then 7zFormat.txt stores digests for the latter's files only) -/
def mixedWithFolderCrc (L : Layout) : Bool :=
  L.opts.folderCrc && L.folders.any (·.count == 1) && L.folders.any (fun f => decide (f.count > 1))

theorem fileCrcs_length (f : FolderSpec) : f.fileCrcs.length = f.count := by
  simp [FolderSpec.fileCrcs, FolderSpec.count, FolderSpec.sizes]

theorem digestsAgree_of_not_mixed (L : Layout) (hc1 : ∀ f ∈ L.folders, f.count ≥ 1) (h : mixedWithFolderCrc L = false) :
    DigestsAgree L := by
  unfold DigestsAgree subCrcs
  have key : ∀ l : List FolderSpec, (∀ f ∈ l, f.count ≥ 1) →
      (L.opts.folderCrc = false ∨ (∀ f ∈ l, f.count ≠ 1)) →
      (l.flatMap fun f => if (L.opts.folderCrc && f.count == 1) = true then [] else f.fileCrcs).length = (l.map (·.count)).sum := by
    intro l hl hcase
    induction l with
    | nil => rfl
    | cons f l ih =>
      have ih' := ih (fun y hy => hl y (List.mem_cons_of_mem _ hy))
        (hcase.imp id (fun hh y hy => hh y (List.mem_cons_of_mem _ hy)))
      have hne : ¬ ((L.opts.folderCrc && f.count == 1) = true) := by
        rcases hcase with h0 | h0
        · simp [h0]
        · have := h0 f (List.mem_cons_self ..); simp [this]
      simp only [List.flatMap_cons, if_neg hne, List.length_append, fileCrcs_length, ih', List.map_cons, List.sum_cons]
  have key0 : (L.opts.folderCrc = true ∧ ∀ f ∈ L.folders, f.count = 1) →
      (L.folders.flatMap fun f => if (L.opts.folderCrc && f.count == 1) = true then [] else f.fileCrcs) = [] := by
    intro ⟨h0, h1⟩
    rw [List.flatMap_eq_nil_iff]
    intro f hf
    simp [h0, h1 f hf]
  by_cases hfc : L.opts.folderCrc = true
  case neg => right; exact key _ hc1 (Or.inl (by simpa using hfc))
  case pos =>
    simp only [mixedWithFolderCrc, hfc, Bool.true_and, Bool.and_eq_false_imp, List.any_eq_true, beq_iff_eq,
        List.any_eq_false, decide_eq_true_eq] at h
    by_cases hs : ∃ f ∈ L.folders, f.count = 1
    · left
      have := h (by obtain ⟨f, hf, h1⟩ := hs; exact ⟨f, hf, h1⟩)
      apply key0 ⟨hfc, ?_⟩
      intro f hf
      have a := this f hf
      have b := hc1 f hf
      omega
    · right
      apply key _ hc1 (Or.inr ?_)
      intro f hf h1
      exact hs ⟨f, hf, h1⟩
/-! ### from the data-carrying layouts of the layout theorems (`Entry`, `Group`) to the writer's `Layout` -/

/-- the entry as the writer sees it: its size instead of its bytes, plus the values of the optional properties
    (`x e` = attribute, mtime, CRC) -/
def specEntry (x : Entry → Nat × Nat × Nat) (e : Entry) : EntrySpec :=
  { name := e.name, isDir := e.isDir, size := e.data.length, attrib := (x e).1, mtime := (x e).2.1, crc := (x e).2.2 }

def layoutOf (x : Entry → Nat × Nat × Nat) (mgs : List (Method × Group)) (tail : List Entry) (o : Opts) : Layout :=
  { packPos := 0,
    folders := mgs.map fun p => { method := p.1, packSize := p.2.packed.length, entries := p.2.entries.map (specEntry x) },
    tail := tail.map (specEntry x), opts := o }

theorem specEntry_hasStream (x) (e : Entry) : (specEntry x e).hasStream = e.hasStream := by
  simp only [EntrySpec.hasStream, specEntry, Entry.hasStream]
  cases e.isDir <;> cases h : e.data <;> simp

theorem specEntry_isEmptyFile (x) (e : Entry) : (specEntry x e).isEmptyFile = e.isEmptyFile := by
  simp only [EntrySpec.isEmptyFile, specEntry, Entry.isEmptyFile]
  cases e.isDir <;> cases h : e.data <;> simp

theorem layoutOf_entries (x) (mgs : List (Method × Group)) (tail : List Entry) (o : Opts) :
    (layoutOf x mgs tail o).entries = (allEntries (mgs.map (·.2)) tail).map (specEntry x) := by
  simp [Layout.entries, layoutOf, allEntries, List.flatMap_map, List.map_flatMap]

theorem sizes_spec (x) (es : List Entry) :
    ((es.map (specEntry x)).filter (·.hasStream)).map (·.size) = (es.filter (·.hasStream)).map (·.data.length) := by
  induction es with
  | nil => rfl
  | cons e es ih =>
    simp only [List.map_cons, List.filter_cons, specEntry_hasStream]
    cases e.hasStream
    · simpa using ih
    · simp only [if_true, List.map_cons, ih]
      rfl

theorem sum_lengths (es : List Entry) : (es.map (·.data.length)).sum = (es.flatMap (·.data)).length := by
  induction es with
  | nil => rfl
  | cons e es ih => simp only [List.map_cons, List.sum_cons, List.flatMap_cons, List.length_append, ih]

theorem emptyStreamVec_spec (x) (es : List Entry) : emptyStreamVec (es.map (specEntry x)) = es.map (!·.hasStream) := by
  simp [emptyStreamVec, List.map_map, Function.comp_def, specEntry_hasStream]

theorem emptyFileVec_spec (x) (es : List Entry) : emptyFileVec (es.map (specEntry x)) = emptyFileBits es := by
  induction es with
  | nil => rfl
  | cons e es ih =>
    simp only [emptyFileVec, emptyFileBits, List.map_cons, List.filter_cons, specEntry_hasStream] at ih ⊢
    cases e.hasStream <;> simp [ih, specEntry_isEmptyFile]

/-- an absent EmptyFile vector and an all-false one are the same to `_build_file_list` -/
theorem buildInfos_allFalse (raw : List RawEntry) (sizes : List Nat) (efs : List Bool) (h : ∀ b ∈ efs, b = false) :
    buildInfos raw sizes efs = buildInfos raw sizes [] := by
  induction raw generalizing sizes efs with
  | nil => rfl
  | cons r raw ih =>
    have hhead : efs.head?.getD false = false := by
      cases efs with
      | nil => rfl
      | cons b t => simp [h b (List.mem_cons_self ..)]
    have htail : ∀ b ∈ efs.tail, b = false := fun b hb => h b (List.mem_of_mem_tail hb)
    have hself : ∀ b ∈ efs, b = false := h
    simp only [buildInfos, hhead, List.head?_nil, Option.getD_none, List.tail_nil, Bool.and_false]
    cases r.emptyStream <;> simp [ih _ _ htail, ih _ _ hself, ih _ [] (by simp)]
    all_goals (split <;> simp [ih _ _ htail, ih _ _ hself])

theorem zipEntries_lookup (es : List Entry) (xs : List Nat) (f : Entry → Nat)
    (hl : xs.length = es.length) (hf : ∀ i (h : i < es.length), f es[i] = xs[i]'(by omega)) :
    zipEntries (es.map (·.name)) (es.map (!·.hasStream)) xs = rawEntries f es := by
  induction es generalizing xs with
  | nil => simp [zipEntries, rawEntries]
  | cons e es ih =>
    cases xs with
    | nil => simp at hl
    | cons a xs =>
      have h0 := hf 0 (by simp)
      simp only [List.getElem_cons_zero] at h0
      have := ih xs (by simpa using hl) (fun i h => by have := hf (i + 1) (by simp; omega); simpa only [List.getElem_cons_succ] using this)
      simp only [rawEntries] at this
      simp [zipEntries, rawEntries, this, h0]

theorem attrsParsed_length (ext : Bool) (o : Opts) (es : List EntrySpec) : (attrsParsed ext o es).length = es.length := by
  unfold attrsParsed
  split <;> simp [readAttrs_length]

theorem zipEntries_map (es : List Entry) (f : Entry → Nat) :
    zipEntries (es.map (·.name)) (es.map (!·.hasStream)) (es.map f) = rawEntries f es := by
  induction es with
  | nil => simp [zipEntries, rawEntries]
  | cons e es ih =>
    simp only [rawEntries] at ih
    simp [zipEntries, rawEntries, ih]

/-- the attribute the (repaired) reader reports for an entry: the stored one, 0 without the property -/
def attrOf (x : Entry → Nat × Nat × Nat) (o : Opts) (e : Entry) : Nat := if o.attrs then (x e).1 else 0

theorem attrsParsed_spec (x) (o : Opts) (es : List Entry) :
    attrsParsed true o (es.map (specEntry x)) = es.map (attrOf x o) := by
  unfold attrsParsed attrOf readAttrs
  cases o.attrs
  · simp only [Bool.false_eq_true, if_false, List.length_map]
    induction es with
    | nil => rfl
    | cons e es ih => simp [List.replicate_succ, ih]
  · simp [List.map_map, Function.comp_def, specEntry]

theorem buildFileList_efParsed (r : R) (raw : List RawEntry) (x) (es : List Entry) :
    buildFileList r raw (efParsed (es.map (specEntry x))) = buildFileList r raw (emptyFileBits es) := by
  unfold efParsed
  rw [emptyFileVec_spec]
  split
  · rfl
  · rename_i h
    have hall : ∀ b ∈ emptyFileBits es, b = false := by
      intro b hb
      simp only [List.any_eq_true, id_eq, not_exists, not_and, Bool.not_eq_true] at h
      exact h b hb
    simp only [buildFileList, buildInfos_allFalse raw r.fileSizes (emptyFileBits es) hall]

theorem filter_hasStream_tail (tail : List Entry) (ht : ∀ e ∈ tail, e.hasStream = false) : tail.filter (·.hasStream) = [] := by
  rw [List.filter_eq_nil_iff]
  intro e he
  simp [ht e he]

/-- **the state a layout stands for is the state the layout theorems of `Props/C10.lean` start from** -/
theorem stateOf_layoutOf (x : Entry → Nat × Nat × Nat) (mgs : List (Method × Group)) (tail : List Entry) (o : Opts)
    (hcoder : ∀ p ∈ mgs, p.2.coder = coderOf p.1) (ht : ∀ e ∈ tail, e.hasStream = false) (hfc : o.folderCrc = false)
    (hne : mgs ≠ []) (hes : allEntries (mgs.map (·.2)) tail ≠ []) :
    stateOf (layoutOf x mgs tail o)
      = buildFileList (packR 0 (mgs.map (·.2)) tail) (rawEntries (attrOf x o) (allEntries (mgs.map (·.2)) tail))
          (emptyFileBits (allEntries (mgs.map (·.2)) tail)) := by
  have hent := layoutOf_entries x mgs tail o
  have h1 : (layoutOf x mgs tail o).entries ≠ [] := by rw [hent]; simpa using hes
  have h2 : (layoutOf x mgs tail o).folders ≠ [] := by simpa [layoutOf] using hne
  have hstreams : streamsState (layoutOf x mgs tail o) = packR 0 (mgs.map (·.2)) tail := by
    unfold streamsState
    rw [if_pos h2]
    unfold packR foldersS
    simp only [layoutOf, List.map_map, Function.comp_def, hfc, Bool.false_eq_true, if_false, headerOffset, Nat.zero_add,
      List.flatMap_map]
    congr 1
    · apply List.map_congr_left
      intro p hp
      simp only [Group.folder, FolderSpec.unpackSize, FolderSpec.count, FolderSpec.sizes, sizes_spec, hcoder p hp,
        streamData, streamCount, sum_lengths, List.length_map]
    · simp only [FolderSpec.sizes, sizes_spec, allEntries, List.filter_append, filter_hasStream_tail tail ht,
        List.append_nil, List.filter_flatMap, List.map_flatMap, List.flatMap_map]
  have hraw : rawOf true o (layoutOf x mgs tail o).entries
      = rawEntries (attrOf x o) (allEntries (mgs.map (·.2)) tail) := by
    rw [hent]
    unfold rawOf
    rw [emptyStreamVec_spec, attrsParsed_spec]
    simp only [List.map_map, Function.comp_def, specEntry]
    exact zipEntries_map _ _
  unfold stateOf stateOfV
  rw [if_pos h1, hstreams]
  show buildFileList _ (rawOf true o (layoutOf x mgs tail o).entries) _ = _
  rw [hraw, hent, buildFileList_efParsed]
end S2T.SevenZip
