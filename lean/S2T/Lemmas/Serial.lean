import S2T.Spec.Serial
/-! Helper lemmas for C05 (serialiser / deserialiser round trip). Core Lean only. -/
namespace S2T.Serial

/-! ## base64 -/
theorem b64idx_c : ∀ n, n < 64 → b64idx (b64c n) = some n := by decide
theorem b64c_ne_pad : ∀ n, n < 64 → b64c n ≠ '=' := by decide +kernel

theorem b64dec_enc : ∀ bs, bytesOk bs = true → b64dec (b64enc bs) = some bs := by
  intro bs
  fun_induction b64enc bs with
  | case1 => intro _; simp [b64dec]
  | case2 a =>
    intro h
    simp [bytesOk] at h
    have h1 := b64idx_c (a / 4) (by omega)
    have h2 := b64idx_c (a % 4 * 16) (by omega)
    simp [b64dec, h1, h2]
    omega
  | case3 a b =>
    intro h
    simp [bytesOk] at h
    have h1 := b64idx_c (a / 4) (by omega)
    have h2 := b64idx_c (a % 4 * 16 + b / 16) (by omega)
    have h3 := b64idx_c (b % 16 * 4) (by omega)
    have n3 := b64c_ne_pad (b % 16 * 4) (by omega)
    simp [b64dec, h1, h2, h3, n3]
    omega
  | case4 a b c rest ih =>
    intro h
    simp [bytesOk] at h
    have h1 := b64idx_c (a / 4) (by omega)
    have h2 := b64idx_c (a % 4 * 16 + b / 16) (by omega)
    have h3 := b64idx_c (b % 16 * 4 + c / 64) (by omega)
    have h4 := b64idx_c (c % 64) (by omega)
    have n3 := b64c_ne_pad (b % 16 * 4 + c / 64) (by omega)
    have n4 := b64c_ne_pad (c % 64) (by omega)
    have ih' := ih (by simp [bytesOk]; exact h.2.2.2)
    simp [b64dec, h1, h2, h3, h4, n3, n4, ih']
    omega

/-! ## the mutual list functions are maps -/
def mapVals (f : PyVal → PyVal) (l : List (Key × PyVal)) : List (Key × PyVal) := l.map (fun kv => (kv.1, f kv.2))
def strKeys (l : List (Key × PyVal)) : List (Key × PyVal) := l.map (fun kv => (Key.str (keyStr kv.1), kv.2))
def fieldKeys (l : List (Str × PyVal)) : List (Key × PyVal) := l.map (fun kv => (Key.str kv.1, kv.2))

theorem serList_eq (b : Bool) (xs : List PyVal) : serList b xs = xs.map (ser b) := by
  induction xs with
  | nil => simp [serList]
  | cons x xs ih => simp [serList, ih]

theorem serKVs_eq (b : Bool) (l : List (Key × PyVal)) : serKVs b l = mapVals (ser b) (strKeys l) := by
  induction l with
  | nil => simp [serKVs, mapVals, strKeys]
  | cons kv l ih => obtain ⟨k, v⟩ := kv; simp [serKVs, ih, mapVals, strKeys]

theorem serFields_eq (b : Bool) (l : List (Str × PyVal)) : serFields b l = mapVals (ser b) (fieldKeys l) := by
  induction l with
  | nil => simp [serFields, mapVals, fieldKeys]
  | cons kv l ih => obtain ⟨k, v⟩ := kv; simp [serFields, ih, mapVals, fieldKeys]

theorem canonList_eq (S : Schema) (t : Ty) (xs : List PyVal) : canonList S t xs = xs.map (canon S t) := by
  induction xs with
  | nil => simp [canonList]
  | cons x xs ih => simp [canonList, ih]

theorem canonKVs_eq (S : Schema) (t : Ty) (l : List (Key × PyVal)) :
    canonKVs S t l = mapVals (canon S t) (strKeys l) := by
  induction l with
  | nil => simp [canonKVs, mapVals, strKeys]
  | cons kv l ih => obtain ⟨k, v⟩ := kv; simp [canonKVs, ih, mapVals, strKeys]

theorem canonFields_eq (S : Schema) (C : Class) (l : List (Str × PyVal)) :
    canonFields S C l = l.map (fun kv => (kv.1, canon S ((C.fieldTy kv.1).getD .any) kv.2)) := by
  induction l with
  | nil => simp [canonFields]
  | cons kv l ih => obtain ⟨k, v⟩ := kv; simp [canonFields, ih]

/-! ## `normKeys` -/
def keys (l : List (Key × PyVal)) : List Key := l.map (·.1)

theorem ins_not_mem (acc : List (Key × PyVal)) (k : Key) (v : PyVal) (h : k ∉ keys acc) :
    ins acc k v = acc ++ [(k, v)] := by
  induction acc with
  | nil => simp [ins]
  | cons a t ih =>
    obtain ⟨k', v'⟩ := a
    simp [keys] at h
    have h1 : k' ≠ k := fun e => h.1 e.symm
    simp [ins, h1]
    exact ih (by simpa [keys] using h.2)

theorem keys_ins (acc : List (Key × PyVal)) (k : Key) (v : PyVal) :
    keys (ins acc k v) = if k ∈ keys acc then keys acc else keys acc ++ [k] := by
  induction acc with
  | nil => simp [ins, keys]
  | cons a t ih =>
    obtain ⟨k', v'⟩ := a
    by_cases h : k' = k
    · subst h; simp [ins, keys]
    · have h' : ¬ k = k' := fun e => h e.symm
      simp only [ins, h, if_false]
      simp only [keys, List.map_cons, List.mem_cons, h', false_or] at ih ⊢
      rw [ih]
      split <;> simp [*]

theorem nodup_keys_ins (acc : List (Key × PyVal)) (k : Key) (v : PyVal) (h : (keys acc).Nodup) :
    (keys (ins acc k v)).Nodup := by
  rw [keys_ins]
  split
  · exact h
  · rename_i hk
    rw [List.nodup_append]
    refine ⟨h, by simp, ?_⟩
    intro a ha b hb
    simp at hb; subst hb
    intro e; subst e; exact hk ha

theorem mem_ins (acc : List (Key × PyVal)) (k : Key) (v : PyVal) (e : Key × PyVal) (h : e ∈ ins acc k v) :
    e ∈ acc ∨ e = (k, v) := by
  induction acc with
  | nil => simp [ins] at h; exact Or.inr h
  | cons a t ih =>
    obtain ⟨k', v'⟩ := a
    by_cases hk : k' = k
    · subst hk
      simp [ins] at h
      rcases h with h | h
      · exact Or.inr h
      · exact Or.inl (List.mem_cons_of_mem _ h)
    · simp [ins, hk] at h
      rcases h with h | h
      · exact Or.inl (by simp [h])
      · rcases ih h with h | h
        · exact Or.inl (List.mem_cons_of_mem _ h)
        · exact Or.inr h

theorem normGo_nodup (l acc : List (Key × PyVal)) (h : (keys (acc ++ l)).Nodup) : normGo acc l = acc ++ l := by
  induction l generalizing acc with
  | nil => simp [normGo]
  | cons kv l ih =>
    obtain ⟨k, v⟩ := kv
    have hk : k ∉ keys acc := by
      simp only [keys, List.map_append, List.map_cons] at h
      rw [List.nodup_append] at h
      intro hm
      exact h.2.2 k (by simpa [keys] using hm) k (by simp) rfl
    simp only [normGo, ins_not_mem acc k v hk]
    rw [ih (acc ++ [(k, v)]) (by simpa using h)]
    simp

theorem normGo_keys_nodup (l acc : List (Key × PyVal)) (h : (keys acc).Nodup) : (keys (normGo acc l)).Nodup := by
  induction l generalizing acc with
  | nil => simpa [normGo] using h
  | cons kv l ih => obtain ⟨k, v⟩ := kv; exact ih _ (nodup_keys_ins acc k v h)

theorem mem_normGo (l acc : List (Key × PyVal)) (e : Key × PyVal) (h : e ∈ normGo acc l) : e ∈ acc ∨ e ∈ l := by
  induction l generalizing acc with
  | nil => simp [normGo] at h; exact Or.inl h
  | cons kv l ih =>
    obtain ⟨k, v⟩ := kv
    rcases ih _ h with h | h
    · rcases mem_ins acc k v e h with h | h
      · exact Or.inl h
      · exact Or.inr (by simp [h])
    · exact Or.inr (List.mem_cons_of_mem _ h)

theorem ins_mapVals (f : PyVal → PyVal) (acc : List (Key × PyVal)) (k : Key) (v : PyVal) :
    ins (mapVals f acc) k (f v) = mapVals f (ins acc k v) := by
  induction acc with
  | nil => simp [ins, mapVals]
  | cons a t ih =>
    obtain ⟨k', v'⟩ := a
    by_cases hk : k' = k
    · subst hk; simp [ins, mapVals]
    · simp only [mapVals, List.map_cons, ins, hk, if_false] at ih ⊢
      rw [ih]

theorem normGo_mapVals (f : PyVal → PyVal) (l acc : List (Key × PyVal)) :
    normGo (mapVals f acc) (mapVals f l) = mapVals f (normGo acc l) := by
  induction l generalizing acc with
  | nil => simp [normGo, mapVals]
  | cons kv l ih =>
    obtain ⟨k, v⟩ := kv
    have : mapVals f ((k, v) :: l) = (k, f v) :: mapVals f l := by simp [mapVals]
    rw [this]
    simp only [normGo, ins_mapVals, ih]

theorem normKeys_nodup (l : List (Key × PyVal)) (h : (keys l).Nodup) : normKeys l = l := by
  simpa [normKeys] using normGo_nodup l [] (by simpa using h)

theorem normKeys_keys_nodup (l : List (Key × PyVal)) : (keys (normKeys l)).Nodup :=
  normGo_keys_nodup l [] (by simp [keys])

theorem mem_normKeys (l : List (Key × PyVal)) (e : Key × PyVal) (h : e ∈ normKeys l) : e ∈ l := by
  rcases mem_normGo l [] e h with h | h
  · simp at h
  · exact h

theorem normKeys_mapVals (f : PyVal → PyVal) (l : List (Key × PyVal)) :
    normKeys (mapVals f l) = mapVals f (normKeys l) := by
  simpa [normKeys, mapVals] using normGo_mapVals f l []

theorem normKeys_idem (l : List (Key × PyVal)) : normKeys (normKeys l) = normKeys l :=
  normKeys_nodup _ (normKeys_keys_nodup l)

theorem keys_mapVals (f : PyVal → PyVal) (l : List (Key × PyVal)) : keys (mapVals f l) = keys l := by
  simp [keys, mapVals]

theorem mapVals_congr (f g : PyVal → PyVal) (l : List (Key × PyVal)) (h : ∀ e ∈ l, f e.2 = g e.2) :
    mapVals f l = mapVals g l := by
  simp only [mapVals]
  apply List.map_congr_left
  intro e he
  rw [h e he]

theorem mapVals_mapVals (f g : PyVal → PyVal) (l : List (Key × PyVal)) :
    mapVals f (mapVals g l) = mapVals (f ∘ g) l := by
  simp [mapVals]

end S2T.Serial
