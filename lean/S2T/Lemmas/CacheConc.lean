import S2T.Model.CacheConc
import S2T.Lemmas.Cache
namespace S2T.CacheConc
open S2T.Cache

set_option linter.unusedSectionVars false
variable {K V E : Type} [DecidableEq K]

theorem mem_put {k : K} {v : V} {c : Cache K V} {x : K × V} (h : x ∈ put k v c) : x ∈ c ∨ x = (k, v) := by
  induction c with
  | nil => simp [put] at h; exact Or.inr h
  | cons a r ih =>
    obtain ⟨k', v'⟩ := a
    unfold put at h
    split at h
    · rcases List.mem_cons.mp h with e | e
      · exact Or.inr e
      · exact Or.inl (List.mem_cons_of_mem _ e)
    · rcases List.mem_cons.mp h with e | e
      · exact Or.inl (e ▸ List.mem_cons_self)
      · rcases ih e with e' | e'
        · exact Or.inl (List.mem_cons_of_mem _ e')
        · exact Or.inr e'

theorem put_consistent (f : K → Except E V) {c : Cache K V} {k : K} {v : V}
    (hc : Consistent f c) (hv : f k = .ok v) : Consistent f (put k v c) := by
  intro kv hkv
  rcases mem_put hkv with h | h
  · exact hc _ h
  · subst h; exact hv

theorem touch_consistent (f : K → Except E V) {c : Cache K V} {k : K} {v : V}
    (hc : Consistent f c) (hv : find? k c = some v) : Consistent f (erase k c ++ [(k, v)]) := by
  intro kv hkv
  rcases List.mem_append.mp hkv with h | h
  · exact hc _ (mem_erase h)
  · simp at h; subst h; exact hc _ (find?_mem hv)

theorem evict_consistent (f : K → Except E V) {c : Cache K V} (cap : Nat)
    (hc : Consistent f c) : Consistent f (if c.length > cap then c.drop 1 else c) := by
  split
  · intro kv hkv; exact hc _ (List.mem_of_mem_drop hkv)
  · exact hc

/-- what the invariant says about one thread: its local value is `f key`, and a result it has delivered is
    the expected one (`allowKE`: or a `KeyError`, for the legacy code) -/
def ThrOk (allowKE : Prop) (f : K → Except E V) (x : Thr K V E) : Prop :=
  (∀ v, x.loc = some v → f x.key = .ok v) ∧
  (∀ r, x.res = some r → r = expected f x.key ∨ (allowKE ∧ r = .keyError))

def Good (allowKE : Prop) (f : K → Except E V) (s : St K V E) : Prop :=
  Consistent f s.cache ∧ ∀ x ∈ s.thr, ThrOk allowKE f x

theorem expected_ok {f : K → Except E V} {k : K} {v : V} (h : f k = .ok v) : expected f k = .ok v := by
  unfold expected; rw [h]

theorem expected_err {f : K → Except E V} {k : K} {e : E} (h : f k = .error e) : expected f k = .err e := by
  unfold expected; rw [h]

theorem good_set {allowKE : Prop} {f : K → Except E V} {c : Cache K V} {thr : List (Thr K V E)} {t : Nat}
    {x' : Thr K V E} (hc : Consistent f c) (ht : ∀ x ∈ thr, ThrOk allowKE f x) (hx' : ThrOk allowKE f x') :
    Good allowKE f { cache := c, thr := thr.set t x' } := by
  refine ⟨hc, ?_⟩
  intro y hy
  rcases List.mem_or_eq_of_mem_set hy with h | h
  · exact ht y h
  · subst h; exact hx'

theorem good_init (allowKE : Prop) (f : K → Except E V) (c : Cache K V) (hc : Consistent f c) (keys : List K) :
    Good allowKE f (init (E := E) c keys) := by
  refine ⟨hc, ?_⟩
  intro x hx
  simp only [init, List.mem_map] at hx
  obtain ⟨k, _, rfl⟩ := hx
  refine ⟨?_, ?_⟩
  · intro v h; cases h
  · intro r h; cases h

theorem fixed_step_good (cap : Nat) (f : K → Except E V) (s : St K V E) (t : Nat) (h : Good False f s) :
    Good False f (Fixed.step cap f s t) := by
  unfold Fixed.step
  split
  · exact h
  · rename_i x hx
    have hm : x ∈ s.thr := List.mem_of_getElem? hx
    obtain ⟨hloc, hres⟩ := h.2 x hm
    split
    · -- lookup
      split
      · rename_i v hv
        have hfv := h.1 _ (find?_mem hv)
        exact good_set (touch_consistent f h.1 hv) h.2
          ⟨by intro v' e; cases e; exact hfv, by intro r e; cases e; exact Or.inl (expected_ok hfv).symm⟩
      · exact good_set h.1 h.2 ⟨hloc, hres⟩
    · -- expand
      split
      · rename_i e he
        exact good_set h.1 h.2 ⟨hloc, by intro r e'; cases e'; exact Or.inl (expected_err he).symm⟩
      · rename_i v hv
        exact good_set h.1 h.2 ⟨by intro v' e; cases e; exact hv, hres⟩
    · -- store
      split
      · exact h
      · rename_i v hv
        have hfv := hloc v hv
        exact good_set (evict_consistent f cap (put_consistent f h.1 hfv)) h.2
          ⟨hloc, by intro r e; cases e; exact Or.inl (expected_ok hfv).symm⟩
    · exact h

theorem fixed_run_good (cap : Nat) (f : K → Except E V) (s : St K V E) (h : Good False f s) (sched : List Nat) :
    Good False f (Fixed.run cap f s sched) := by
  induction sched generalizing s with
  | nil => exact h
  | cons t r ih => exact ih _ (fixed_step_good cap f s t h)

theorem legacy_step_good (cap : Nat) (f : K → Except E V) (s : St K V E) (t : Nat) (h : Good True f s) :
    Good True f (Legacy.step cap f s t) := by
  unfold Legacy.step
  split
  · exact h
  · rename_i x hx
    have hm : x ∈ s.thr := List.mem_of_getElem? hx
    obtain ⟨hloc, hres⟩ := h.2 x hm
    split
    · -- lookup
      split
      · rename_i v hv
        have hfv := h.1 _ (find?_mem hv)
        exact good_set h.1 h.2 ⟨by intro v' e; cases e; exact hfv, hres⟩
      · exact good_set h.1 h.2 ⟨hloc, hres⟩
    · -- touch
      split
      · rename_i v' v hv' hv
        have hfv := hloc v hv
        exact good_set (touch_consistent f h.1 hv') h.2
          ⟨hloc, by intro r e; cases e; exact Or.inl (expected_ok hfv).symm⟩
      · exact good_set h.1 h.2 ⟨hloc, by intro r e; cases e; exact Or.inr ⟨trivial, rfl⟩⟩
    · -- expand
      split
      · rename_i e he
        exact good_set h.1 h.2 ⟨hloc, by intro r e'; cases e'; exact Or.inl (expected_err he).symm⟩
      · rename_i v hv
        exact good_set h.1 h.2 ⟨by intro v' e; cases e; exact hv, hres⟩
    · -- store
      split
      · exact h
      · rename_i v hv
        exact good_set (put_consistent f h.1 (hloc v hv)) h.2 ⟨hloc, hres⟩
    · -- evict
      split
      · exact h
      · rename_i v hv
        have hfv := hloc v hv
        exact good_set (evict_consistent f cap h.1) h.2
          ⟨hloc, by intro r e; cases e; exact Or.inl (expected_ok hfv).symm⟩
    · exact h

theorem legacy_run_good (cap : Nat) (f : K → Except E V) (s : St K V E) (h : Good True f s) (sched : List Nat) :
    Good True f (Legacy.run cap f s sched) := by
  induction sched generalizing s with
  | nil => exact h
  | cons t r ih => exact ih _ (legacy_step_good cap f s t h)

/-! ### keyed cache -/
namespace Keyed
variable {Q P G W : Type} [DecidableEq Q]

omit [DecidableEq K] in
theorem get_spec (keyOf : K → Q) (inj : ∀ a b, keyOf a = keyOf b → a = b) (parse : K → P) (feat : K → P → G → W)
    (c : Cache Q P) (k : K) (g : G) (hc : Consistent keyOf parse c) :
    (get keyOf parse feat c k g).1 = feat k (parse k) g ∧ Consistent keyOf parse (get keyOf parse feat c k g).2 := by
  unfold get
  split
  · rename_i p hp
    have := hc _ (find?_mem hp) k rfl
    simp only at this
    exact ⟨by rw [this], hc⟩
  · refine ⟨rfl, ?_⟩
    intro qp hqp k' hk'
    rcases List.mem_append.mp hqp with h | h
    · exact hc _ h k' hk'
    · simp at h; subst h
      simp only at hk'
      rw [inj _ _ hk']

omit [DecidableEq K] in
theorem run_consistent (keyOf : K → Q) (inj : ∀ a b, keyOf a = keyOf b → a = b) (parse : K → P) (feat : K → P → G → W)
    (c : Cache Q P) (hc : Consistent keyOf parse c) (h : List (K × G)) :
    Consistent keyOf parse (run keyOf parse feat c h) := by
  induction h generalizing c with
  | nil => exact hc
  | cons a r ih =>
    obtain ⟨k, g⟩ := a
    exact ih _ (get_spec keyOf inj parse feat c k g hc).2

end Keyed

end S2T.CacheConc
