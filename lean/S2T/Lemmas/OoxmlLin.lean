import S2T.Spec.OoxmlDoc
import S2T.Lemmas.OoxmlWords
/-! C02 (part "ooxml"): the reference linearisation is self-delimiting at block level. -/
namespace S2T.C02.Ooxml

/-- what the theorems need of `str.isspace` -/
structure WsOk (ws : Char → Bool) : Prop where
  sp : ws ' ' = true
  nl : ws '\n' = true
  tab : ws '\t' = true
  vt : ws '\x0b' = true


variable {ws : Char → Bool}

theorem allws_sp (hw : WsOk ws) : AllWs ws [' '] := by intro c hc; simp at hc; subst hc; exact hw.sp
theorem allws_nl (hw : WsOk ws) : AllWs ws ['\n'] := by intro c hc; simp at hc; subst hc; exact hw.nl

mutual
theorem delim_B (F : Fmt) (hw : WsOk ws) : ∀ b : Block, Delim ws (linB F ws b)
  | .para _ xs => by simp only [linB]; exact Delim.wrap _ _ _ hw.sp hw.sp
  | .heading _ xs => by simp only [linB]; exact Delim.wrap _ _ _ hw.sp hw.sp
  | .list items => by simp only [linB]; exact delim_Cells F hw items
  | .table rows => by simp only [linB]; exact delim_Rows F hw rows
  | .ctl bs => by simp only [linB]; exact delim_Bs F hw bs
theorem delim_Bs (F : Fmt) (hw : WsOk ws) : ∀ bs : List Block, Delim ws (linBs F ws bs)
  | [] => by simp only [linBs]; exact Delim.nil
  | b :: r => by simp only [linBs]; exact (delim_B F hw b).append (delim_Bs F hw r)
theorem delim_Cells (F : Fmt) (hw : WsOk ws) : ∀ cs : List (List Block), Delim ws (linCells F ws cs)
  | [] => by simp only [linCells]; exact Delim.nil
  | c :: r => by simp only [linCells]; exact (delim_Bs F hw c).append (delim_Cells F hw r)
theorem delim_Rows (F : Fmt) (hw : WsOk ws) : ∀ rows : List (List (List Block)), Delim ws (linRows F ws rows)
  | [] => by simp only [linRows]; exact Delim.nil
  | c :: r => by simp only [linRows]; exact (delim_Cells F hw c).append (delim_Rows F hw r)
end


/-! ### every character of the reference linearisation is a boundary blank or comes from a visible leaf
(tracked deletions and reference marks are not leaves: their text occurs nowhere) -/
def FromLeaves (ls : List Str) (c : Char) : Prop := c = ' ' ∨ ∃ l ∈ ls, c ∈ l

theorem FromLeaves.mono {a b : List Str} {c : Char} (h : FromLeaves a c) (hab : ∀ l ∈ a, l ∈ b) : FromLeaves b c := by
  rcases h with h | ⟨l, hl, hc⟩
  · exact Or.inl h
  · exact Or.inr ⟨l, hab l hl, hc⟩

mutual
theorem lin_chars_I (F : Fmt) : ∀ (x : Inline) (c : Char), c ∈ linI F ws x → FromLeaves (leavesI x) c
  | .text s, c, h => by simp only [linI] at h; exact Or.inr ⟨s, by simp [leavesI], h⟩
  | .tab, c, h => by simp only [linI] at h; exact Or.inl (by simpa using h)
  | .br, c, h => by simp only [linI] at h; exact Or.inl (by simpa using h)
  | .link _ xs, c, h => by simp only [linI] at h; simpa [leavesI] using lin_chars_Is F xs c h
  | .ins xs, c, h => by simp only [linI] at h; simpa [leavesI] using lin_chars_Is F xs c h
  | .del _, c, h => by simp [linI] at h
  | .ctl xs, c, h => by simp only [linI] at h; simpa [leavesI] using lin_chars_Is F xs c h
  | .mark _, c, h => by simp [linI] at h
  | .box bs, c, h => by
    simp only [linI] at h
    simp only [leavesI]
    split at h
    · simp only [List.mem_cons, List.mem_append, List.not_mem_nil, or_false] at h
      rcases h with (h | h) | h
      · exact Or.inl h
      · exact lin_chars_Bs F bs c h
      · exact Or.inl h
    · split at h
      · exact lin_chars_Bs F bs c h
      · simp at h
theorem lin_chars_Is (F : Fmt) : ∀ (xs : List Inline) (c : Char), c ∈ linIs F ws xs → FromLeaves (leavesIs xs) c
  | [], c, h => by simp [linIs] at h
  | x :: r, c, h => by
    simp only [linIs, List.mem_append] at h
    simp only [leavesIs]
    rcases h with h | h
    · exact (lin_chars_I F x c h).mono (by intro l hl; simp [hl])
    · exact (lin_chars_Is F r c h).mono (by intro l hl; simp [hl])
theorem lin_chars_B (F : Fmt) : ∀ (b : Block) (c : Char), c ∈ linB F ws b → FromLeaves (leavesB b) c
  | .para _ xs, c, h => by
    simp only [linB, List.mem_cons, List.mem_append, List.not_mem_nil, or_false] at h
    simp only [leavesB]
    rcases h with (h | h) | h
    · exact Or.inl h
    · exact lin_chars_Is F xs c h
    · exact Or.inl h
  | .heading _ xs, c, h => by
    simp only [linB, List.mem_cons, List.mem_append, List.not_mem_nil, or_false] at h
    simp only [leavesB]
    rcases h with (h | h) | h
    · exact Or.inl h
    · exact lin_chars_Is F xs c h
    · exact Or.inl h
  | .list items, c, h => by simp only [linB] at h; simpa [leavesB] using lin_chars_Cells F items c h
  | .table rows, c, h => by simp only [linB] at h; simpa [leavesB] using lin_chars_Rows F rows c h
  | .ctl bs, c, h => by simp only [linB] at h; simpa [leavesB] using lin_chars_Bs F bs c h
theorem lin_chars_Bs (F : Fmt) : ∀ (bs : List Block) (c : Char), c ∈ linBs F ws bs → FromLeaves (leavesBs bs) c
  | [], c, h => by simp [linBs] at h
  | b :: r, c, h => by
    simp only [linBs, List.mem_append] at h
    simp only [leavesBs]
    rcases h with h | h
    · exact (lin_chars_B F b c h).mono (by intro l hl; simp [hl])
    · exact (lin_chars_Bs F r c h).mono (by intro l hl; simp [hl])
theorem lin_chars_Cells (F : Fmt) : ∀ (cs : List (List Block)) (c : Char), c ∈ linCells F ws cs → FromLeaves (leavesCells cs) c
  | [], c, h => by simp [linCells] at h
  | b :: r, c, h => by
    simp only [linCells, List.mem_append] at h
    simp only [leavesCells]
    rcases h with h | h
    · exact (lin_chars_Bs F b c h).mono (by intro l hl; simp [hl])
    · exact (lin_chars_Cells F r c h).mono (by intro l hl; simp [hl])
theorem lin_chars_Rows (F : Fmt) : ∀ (rows : List (List (List Block))) (c : Char), c ∈ linRows F ws rows → FromLeaves (leavesRows rows) c
  | [], c, h => by simp [linRows] at h
  | b :: r, c, h => by
    simp only [linRows, List.mem_append] at h
    simp only [leavesRows]
    rcases h with h | h
    · exact (lin_chars_Cells F b c h).mono (by intro l hl; simp [hl])
    · exact (lin_chars_Rows F r c h).mono (by intro l hl; simp [hl])
end

/-- a word is a contiguous piece of the string it is a word of -/
theorem wordsAux_chars (s cur : Str) : ∀ w ∈ wordsAux ws s cur, ∀ c ∈ w, c ∈ cur ∨ c ∈ s := by
  induction s generalizing cur with
  | nil =>
    intro w hw c hc
    simp only [wordsAux] at hw
    split at hw
    · simp at hw
    · simp at hw; subst hw; exact Or.inl hc
  | cons x s ih =>
    intro w hw c hc
    simp only [wordsAux] at hw
    split at hw
    · split at hw
      · rcases ih [] w hw c hc with h | h
        · simp at h
        · exact Or.inr (by simp [h])
      · rcases List.mem_cons.1 hw with rfl | hw
        · exact Or.inl hc
        · rcases ih [] w hw c hc with h | h
          · simp at h
          · exact Or.inr (by simp [h])
    · rcases ih (cur ++ [x]) w hw c hc with h | h
      · rcases List.mem_append.1 h with h | h
        · exact Or.inl h
        · exact Or.inr (by simp at h; simp [h])
      · exact Or.inr (by simp [h])

theorem words_chars (s : Str) (w : Str) (hw : w ∈ words ws s) (c : Char) (hc : c ∈ w) : c ∈ s := by
  rcases wordsAux_chars (ws := ws) s [] w hw c hc with h | h
  · simp at h
  · exact h

end S2T.C02.Ooxml
