import S2T.Lemmas.PyBytes
import S2T.Py.Loops
import S2T.Model.Loops
/-!
Lemmas for `Props/C12_LoopsSrc.lean`: the primitives of `S2T/Py/Loops.lean` in terms of the byte readers of the hand
models (`S2T.Loops.byte`, `u16le`, `u16be`, `u32le`, `u32be`, `beInt`, `slice`, `findFrom`), each as an `if` on the
bound that decides between the value and the exception — so that a translated loop body unfolds, by `simp`, into a
tree of `if`s that `split` / `omega` can walk — and the generic facts about `run`.  Core Lean only.
-/
set_option linter.unusedSimpArgs false
set_option linter.unusedVariables false
namespace S2T.Py.Loops
open S2T.Py
open S2T.Loops (byte u16le u16be u32le u32be beInt findFrom matchAt absI32 dibSig)

/-! ## monad plumbing: everything becomes an `if` -/

theorem ite_bind {α β} (c : Prop) [Decidable c] (x y : M α) (f : α → M β) :
    ((if c then x else y) >>= f) = if c then x >>= f else y >>= f := by
  split <;> rfl

theorem ite_tryCatch {α} (c : Prop) [Decidable c] (x y : M α) (h : Exc → M α) :
    tryCatch (if c then x else y) h = if c then tryCatch x h else tryCatch y h := by
  split <;> rfl

theorem map_ok' {α β} (f : α → β) (a : α) : Except.map f (Except.ok a : M α) = Except.ok (f a) := rfl
theorem map_error' {α β} (f : α → β) (e : Exc) : Except.map f (Except.error e : M α) = Except.error e := rfl

/-! ## the `do` elaborator's encoding of `return` / `break` inside `try … catch` (an `ExceptT` over `M`) -/

@[simp] theorem runK_ok {ρ α : Type} {β : Type} (a : α) (r : ρ → β) (p : α → β) :
    EarlyReturn.runK (Except.ok a : Except ρ α) r p = p a := rfl
@[simp] theorem runK_error {ρ α : Type} {β : Type} (e : ρ) (r : ρ → β) (p : α → β) :
    EarlyReturn.runK (Except.error e : Except ρ α) r p = r e := rfl
@[simp] theorem earlyReturn_return {ρ α : Type} (r : ρ) :
    (EarlyReturnT.return r : EarlyReturnT ρ M α) = (Except.ok (Except.error r) : M (Except ρ α)) := rfl

@[simp] theorem structError_isa_struct : structError.isa "struct.error" = true := by decide
@[simp] theorem structError_isa_exception : structError.isa "Exception" = true := by decide
@[simp] theorem indexError_isa_struct : indexError.isa "struct.error" = false := by decide
@[simp] theorem unpackError_isa_struct : unpackError.isa "struct.error" = false := by decide
@[simp] theorem badFormat_isa (c : String) : badFormat.isa c = false := by simp [badFormat, Exc.isa]

/-! ## bytes -/

theorem take_drop_succ (l : List Nat) (i k : Nat) (h : i < l.length) :
    (l.drop i).take (k + 1) = l.getD i 0 :: (l.drop (i + 1)).take k := by
  rw [List.drop_eq_getElem_cons h, List.take_succ_cons]
  simp [List.getD, List.getElem?_eq_getElem h]

/-- `l[i]` for a non-negative index: the byte, or `IndexError` -/
theorem getItemN_ite (l : List Nat) (i : Nat) :
    getItemN l i = if i < l.length then Except.ok (byte l i) else Except.error indexError := by
  unfold getItemN byte
  by_cases h : i < l.length
  · simp [h, List.getD, List.getElem?_eq_getElem h]
  · simp [h, List.getElem?_eq_none (Nat.le_of_not_lt h)]

/-- `l[i]` for a non-negative index into any list: some element (`l[i]?.getD default`), or `IndexError` -/
theorem getItemN_ite' {α} [Inhabited α] (l : List α) (i : Nat) :
    getItemN l i = if i < l.length then Except.ok (l[i]?.getD default) else Except.error indexError := by
  unfold getItemN
  by_cases h : i < l.length
  · simp [h, List.getElem?_eq_getElem h]
  · simp [h, List.getElem?_eq_none (Nat.le_of_not_lt h)]

/-- `l[z]` for an int index: inside `-len ≤ z < len` some element, else `IndexError` -/
theorem getItem_ite {α} [Inhabited α] (l : List α) (z : Int) :
    getItem l z = if -(l.length : Int) ≤ z ∧ z < (l.length : Int)
      then Except.ok (l[(if 0 ≤ z then z else z + (l.length : Int)).toNat]?.getD default)
      else Except.error indexError := by
  unfold getItem normIndex
  by_cases h0 : 0 ≤ z
  · by_cases h1 : z.toNat < l.length
    · have : -(l.length : Int) ≤ z ∧ z < (l.length : Int) := by omega
      simp [h0, h1, this, List.getElem?_eq_getElem h1]
    · have : ¬ (-(l.length : Int) ≤ z ∧ z < (l.length : Int)) := by omega
      simp [h0, h1, this]
  · by_cases h1 : 0 ≤ z + (l.length : Int)
    · have h2 : (z + (l.length : Int)).toNat < l.length := by omega
      have : -(l.length : Int) ≤ z ∧ z < (l.length : Int) := by omega
      simp [h0, h1, this, List.getElem?_eq_getElem h2]
    · have : ¬ (-(l.length : Int) ≤ z ∧ z < (l.length : Int)) := by omega
      simp [h0, h1, this]

/-! ### a stack kept in a Python list: the top is the LAST element -/

theorem getItem_last {α} (xs : List α) (a : α) : getItem (xs ++ [a]) (-1) = Except.ok a := by
  unfold getItem normIndex
  have h : ¬ ((0 : Int) ≤ -1) := by omega
  have h2 : (0 : Int) ≤ -1 + ((xs ++ [a]).length : Int) := by simp; omega
  have h3 : (-1 + ((xs ++ [a]).length : Int)).toNat = xs.length := by simp; omega
  simp only [h, h2, if_false, if_true, h3]
  simp

theorem getItem_nil {α} (z : Int) : getItem ([] : List α) z = Except.error indexError := by
  unfold getItem normIndex
  by_cases h : 0 ≤ z <;> simp [h] <;> omega

theorem listPop_last {α} (xs : List α) (a : α) : listPop (xs ++ [a]) = Except.ok (a, xs) := by
  simp [listPop]

theorem listPop_nil {α} : listPop ([] : List α) = Except.error indexError := by
  simp [listPop]

theorem truthy_append_singleton {α} (xs : List α) (a : α) : truthy (xs ++ [a]) = true := by
  simp [truthy_list]

theorem sliceN_model (l : List Nat) (a b : Nat) : sliceN l a b = S2T.Loops.slice l a b := by simp [sliceN, S2T.Loops.slice]

theorem length_sliceN (l : List Nat) (a b : Nat) : (sliceN l a b).length = min (b - a) (l.length - a) := by
  simp [sliceN]

theorem fromBytes_true (b : List Nat) : fromBytes true b = beInt b := by simp [fromBytes, beNat, beInt]
theorem fromBytes_false (b : List Nat) : fromBytes false b = leNat b := by simp [fromBytes]

theorem slice2 (d : List Nat) (o : Nat) (h : o + 2 ≤ d.length) :
    sliceN d o (o + 2) = [byte d o, byte d (o + 1)] := by
  have e : o + 2 - o = 1 + 1 := by omega
  simp only [sliceN, e, byte]
  rw [take_drop_succ _ _ _ (by omega), take_drop_succ _ _ _ (by omega)]
  simp

theorem slice4 (d : List Nat) (o : Nat) (h : o + 4 ≤ d.length) :
    sliceN d o (o + 4) = [byte d o, byte d (o + 1), byte d (o + 2), byte d (o + 3)] := by
  have e : o + 4 - o = 1 + 1 + 1 + 1 := by omega
  simp only [sliceN, e, byte]
  rw [take_drop_succ _ _ _ (by omega), take_drop_succ _ _ _ (by omega), take_drop_succ _ _ _ (by omega),
    take_drop_succ _ _ _ (by omega)]
  simp

/-- the readers of the hand models, for a slice written with any upper bound that IS `o + k` -/
theorem leNat_slice2 (d : List Nat) (o b : Nat) (hb : b = o + 2) (h : b ≤ d.length) : leNat (sliceN d o b) = u16le d o := by
  subst hb; rw [slice2 d o h]; simp [leNat, u16le]
theorem leNat_slice4 (d : List Nat) (o b : Nat) (hb : b = o + 4) (h : b ≤ d.length) : leNat (sliceN d o b) = u32le d o := by
  subst hb; rw [slice4 d o h]; simp [leNat, u32le]; omega
theorem beInt_slice2 (d : List Nat) (o b : Nat) (hb : b = o + 2) (h : b ≤ d.length) : beInt (sliceN d o b) = u16be d o := by
  subst hb; rw [slice2 d o h]; simp [beInt, u16be]; omega
theorem beInt_slice4 (d : List Nat) (o b : Nat) (hb : b = o + 4) (h : b ≤ d.length) : beInt (sliceN d o b) = u32be d o := by
  subst hb; rw [slice4 d o h]; simp [beInt, u32be]; omega

/-! ## struct -/

theorem windowAt_nat (d : List Nat) (o size : Nat) :
    windowAt d (o : Int) size = if o + size ≤ d.length then some (sliceN d o (o + size)) else none := by
  unfold windowAt sliceN
  have h0 : ¬ ((o : Int) < 0) := by omega
  simp only [h0, if_false, Int.toNat_natCast, false_or]
  by_cases h : o + size ≤ d.length
  · have : ¬ ((d.length : Int) - (o : Int) < (size : Int)) := by omega
    rw [if_neg this, if_pos h, show o + size - o = size by omega]
  · have : ((d.length : Int) - (o : Int) < (size : Int)) := by omega
    rw [if_pos this, if_neg h]

/-- `struct.unpack(">H", b)` -/
theorem unpackU_beH (b : List Nat) :
    unpackU ">H" b = if b.length = 2 then Except.ok [beInt b] else Except.error structError := by
  have hp : parseFmt ">H" = some (true, [(2, false)]) := by decide
  simp only [unpackU, allUnsigned, unpackI, hp, calcsize]
  by_cases h : b.length = 2
  · simp [h, decodeFields, map_ok', List.take_of_length_le (Nat.le_of_eq h), fromBytes_true]
  · simp [h, map_error']

/-- `struct.unpack(">I", b)` -/
theorem unpackU_beI (b : List Nat) :
    unpackU ">I" b = if b.length = 4 then Except.ok [beInt b] else Except.error structError := by
  have hp : parseFmt ">I" = some (true, [(4, false)]) := by decide
  simp only [unpackU, allUnsigned, unpackI, hp, calcsize]
  by_cases h : b.length = 4
  · simp [h, decodeFields, map_ok', List.take_of_length_le (Nat.le_of_eq h), fromBytes_true]
  · simp [h, map_error']

/-- `struct.unpack(">H", d[a:b])[0]` with `b = a + 2`: the big-endian 16-bit value at `a`, or `struct.error` when the
    slice is short -/
theorem unpackU_beH_slice (d : List Nat) (a b : Nat) (hb : b = a + 2) :
    unpackU ">H" (sliceN d a b) = if b ≤ d.length then Except.ok [u16be d a] else Except.error structError := by
  subst hb
  rw [unpackU_beH, length_sliceN]
  by_cases h : a + 2 ≤ d.length
  · rw [if_pos (by omega), if_pos h, beInt_slice2 d a _ rfl h]
  · rw [if_neg (by omega), if_neg h]

theorem unpackU_beI_slice (d : List Nat) (a b : Nat) (hb : b = a + 4) :
    unpackU ">I" (sliceN d a b) = if b ≤ d.length then Except.ok [u32be d a] else Except.error structError := by
  subst hb
  rw [unpackU_beI, length_sliceN]
  by_cases h : a + 4 ≤ d.length
  · rw [if_pos (by omega), if_pos h, beInt_slice4 d a _ rfl h]
  · rw [if_neg (by omega), if_neg h]

/-! (the proofs below are deliberately NOT `rfl`: `simp` applies `rfl`-lemmas by `dsimp`, which rewrites the condition of
   an `if` without re-synthesising its `Decidable` instance, and `split` / `ite` lemmas then no longer apply) -/
theorem getItemN_singleton {α} (x : α) : getItemN [x] 0 = Except.ok x := by simp [getItemN]
theorem byte_singleton (x : Nat) : byte [x] 0 = x := by simp [byte]

/-- `struct.Struct("<HHI").unpack_from(d, o)` for `o ≥ 0`: the three header fields, or `struct.error` -/
theorem unpackFromU_HHI {fmt : String} (hf : fmt = "<HHI") (d : List Nat) (o : Nat) :
    unpackFromU fmt d (o : Int) =
      if o + 8 ≤ d.length then Except.ok [u16le d o, u16le d (o + 2), u32le d (o + 4)]
      else Except.error structError := by
  subst hf
  have hp : parseFmt "<HHI" = some (false, [(2, false), (2, false), (4, false)]) := by decide
  simp only [unpackFromU, allUnsigned, unpackFromI, hp, calcsize, windowAt_nat]
  by_cases h : o + 8 ≤ d.length
  · have e : o + 8 - o = 1 + 1 + 1 + 1 + 1 + 1 + 1 + 1 := by omega
    simp only [List.map, List.sum_cons, List.sum_nil, Nat.add_zero, show (2 + (2 + 4) : Nat) = 8 by rfl, h, if_true,
      sliceN, e]
    rw [take_drop_succ _ _ _ (by omega), take_drop_succ _ _ _ (by omega), take_drop_succ _ _ _ (by omega),
      take_drop_succ _ _ _ (by omega), take_drop_succ _ _ _ (by omega), take_drop_succ _ _ _ (by omega),
      take_drop_succ _ _ _ (by omega), take_drop_succ _ _ _ (by omega)]
    simp [decodeFields, map_ok', leNat, u16le, u32le, byte, Nat.add_assoc, fromBytes_false]
    omega
  · simp [h, map_error']

/-- the 24 bytes `struct.Struct("<IiiHHII").unpack_from(d, i)` reads (`[]` when it raises) -/
def dibWindow (d : List Nat) (i : Int) : List Nat := (windowAt d i 24).getD []

/-- `struct.Struct("<IiiHHII").unpack_from(d, i)` for any int offset: the seven fields of the 24-byte window, or
    `struct.error` -/
theorem unpackFromI_dib {fmt : String} (hf : fmt = "<IiiHHII") (d : List Nat) (i : Int) :
    unpackFromI fmt d i =
      if (windowAt d i 24).isSome then
        Except.ok [(leNat ((dibWindow d i).take 4) : Int), toSigned 4 (leNat (((dibWindow d i).drop 4).take 4)),
          toSigned 4 (leNat (((dibWindow d i).drop 8).take 4)), (leNat (((dibWindow d i).drop 12).take 2) : Int),
          (leNat (((dibWindow d i).drop 14).take 2) : Int), (leNat (((dibWindow d i).drop 16).take 4) : Int),
          (leNat (((dibWindow d i).drop 20).take 4) : Int)]
      else Except.error structError := by
  subst hf
  have hp : parseFmt "<IiiHHII" = some (false, [(4, false), (4, true), (4, true), (2, false), (2, false), (4, false), (4, false)]) := by
    decide
  simp only [unpackFromI, hp, calcsize, List.map, List.sum_cons, List.sum_nil, Nat.add_zero,
    show (4 + (4 + (4 + (2 + (2 + (4 + 4))))) : Nat) = 24 by rfl, dibWindow]
  cases windowAt d i 24 with
  | none => rfl
  | some w => simp [decodeFields, fromBytes_false, List.drop_drop]

/-! ## `bytes.find` -/

theorem findGo_ge {pat d : List Nat} {fuel i j : Nat} (h : findGo pat d fuel i = some j) : i ≤ j := by
  induction fuel generalizing i with
  | zero => simp only [findGo] at h; split at h <;> simp_all
  | succ n ih =>
    simp only [findGo] at h
    split at h
    · simp_all
    · have := ih h; omega

/-- `d.find(pat, i)` is `-1` or an index that is neither negative nor before `i` -/
theorem bytesFind_ge (d pat : List Nat) (i : Int) :
    bytesFind d pat i = -1 ∨ (0 ≤ bytesFind d pat i ∧ i ≤ bytesFind d pat i) := by
  unfold bytesFind
  simp only
  generalize hk : (if i < 0 then (i + (d.length : Int)).toNat else i.toNat) = k
  have hik : i ≤ (k : Int) := by
    subst hk; split <;> omega
  split
  · left; rfl
  · split
    · rename_i j hj
      right
      have := findGo_ge hj
      omega
    · left; rfl

theorem ite_eq_iff' {α} {c : Prop} [Decidable c] {a b x : α} :
    (if c then a else b) = x ↔ (c ∧ a = x) ∨ (¬ c ∧ b = x) := by
  split <;> simp_all

/-- the `Option State` reading of a step: `some s'` exactly for `.next s'` -/
theorem map_toOption_some {σ ρ} {x : M (Step σ ρ)} {s' : σ}
    (h : x.map Step.toOption = Except.ok (some s')) : x = Except.ok (Step.next s') := by
  cases x with
  | error e => simp [Except.map] at h
  | ok v => cases v <;> simp_all [Except.map, Step.toOption]

/-! ## for the agreement of the DIB carver with `dibCarve`: `bytes.find` is the model's `findFrom`, the header fields are
    the model's readers, the `int` arithmetic of `size_image` is the model's `Nat` arithmetic -/

theorem occursAt_matchAt (pat d : List Nat) (i : Nat) (h : i + pat.length ≤ d.length) :
    occursAt pat d i = matchAt pat d i := by
  simp [occursAt, matchAt, S2T.Loops.slice, h]

theorem findGo_none (pat d : List Nat) (fuel i : Nat) (h : d.length < i + pat.length) : findGo pat d fuel i = none := by
  induction fuel generalizing i with
  | zero => simp [findGo, occursAt]; omega
  | succ n ih =>
    simp only [findGo]
    have : occursAt pat d i = false := by simp [occursAt]; omega
    simp [this]
    exact ih (i + 1) (by omega)

theorem findGo_findFrom (pat d : List Nat) (i : Nat) (hi : i ≤ d.length) :
    findGo pat d (d.length - i) i = findFrom pat d i := by
  fun_induction findFrom pat d i with
  | case1 i h1 hm =>
    have : occursAt pat d i = true := by rw [occursAt_matchAt _ _ _ h1]; exact hm
    cases hf : d.length - i <;> simp [findGo, this]
  | case2 i h1 hm h2 ih =>
    have : occursAt pat d i = false := by rw [occursAt_matchAt _ _ _ h1]; simpa using hm
    have e : d.length - i = (d.length - (i + 1)) + 1 := by omega
    rw [e]
    simp only [findGo, this]
    simpa using ih (by omega)
  | case3 i h1 hm h2 =>
    have : occursAt pat d i = false := by rw [occursAt_matchAt _ _ _ h1]; simpa using hm
    have e : d.length - i = 0 := by omega
    rw [e]; simp [findGo, this]
  | case4 i h1 => exact findGo_none _ _ _ _ (by omega)

/-- `d.find(pat, i)` for `0 ≤ i ≤ len(d)` is the model's `findFrom` -/
theorem bytesFind_findFrom (d pat : List Nat) (i : Nat) (hi : i ≤ d.length) :
    bytesFind d pat (i : Int) = match findFrom pat d i with | some j => (j : Int) | none => -1 := by
  unfold bytesFind
  have h0 : ¬ ((i : Int) < 0) := by omega
  simp only [h0, if_false, Int.toNat_natCast]
  rw [if_neg (by omega), findGo_findFrom _ _ _ hi]
  cases findFrom pat d i <;> rfl

/-! fields of the DIB header -/
theorem take_drop_sliceN (d : List Nat) (s n a b : Nat) (h : a + b ≤ n) :
    ((sliceN d s (s + n)).drop a).take b = sliceN d (s + a) (s + a + b) := by
  simp only [sliceN, List.drop_take, List.take_take, List.drop_drop]
  congr 1
  · omega

theorem take_sliceN (d : List Nat) (s n b : Nat) (h : b ≤ n) :
    (sliceN d s (s + n)).take b = sliceN d s (s + b) := by
  have := take_drop_sliceN d s n 0 b (by omega)
  simpa using this

theorem dibWindow_nat (d : List Nat) (s : Nat) (h : s + 24 ≤ d.length) :
    (windowAt d (s : Int) 24).isSome = true ∧ dibWindow d (s : Int) = sliceN d s (s + 24) := by
  simp [dibWindow, windowAt_nat, h]

theorem u32le_lt (d : List Nat) (o : Nat) (hb : ∀ b ∈ d, b < 256) : u32le d o < 4294967296 := by
  have hbyte : ∀ i, byte d i < 256 := by
    intro i
    unfold byte
    by_cases h : i < d.length
    · simp [List.getD, List.getElem?_eq_getElem h]; exact hb _ (List.getElem_mem h)
    · simp [List.getD, List.getElem?_eq_none (Nat.le_of_not_lt h)]
  have := hbyte o; have := hbyte (o+1); have := hbyte (o+2); have := hbyte (o+3)
  unfold u32le; omega

theorem natAbs_toSigned4 (v : Nat) (h : v < 4294967296) : (toSigned 4 v).natAbs = absI32 v := by
  unfold toSigned absI32
  have e : (256 : Nat) ^ 4 = 4294967296 := by decide
  rw [e]
  split <;> split <;> omega


theorem dib_size_cast (bpp aw ah : Nat) :
    ((bpp : Int) * (aw : Int) + 31) / 32 * 4 * (ah : Int) = (((bpp * aw + 31) / 32 * 4 * ah : Nat) : Int) := by
  push_cast
  rfl

theorem shl_one_int (n : Nat) : (1 : Int) <<< n = ((2 ^ n : Nat) : Int) := by
  rw [Int.shiftLeft_eq]; push_cast; simp

theorem toSigned4_eq_zero (v : Nat) (h : v < 4294967296) : toSigned 4 v = 0 ↔ absI32 v = 0 := by
  rw [← natAbs_toSigned4 v h]; exact Int.natAbs_eq_zero.symm

theorem findFrom_matchAt {pat d : List Nat} {i j : Nat} (h : findFrom pat d i = some j) : matchAt pat d j = true := by
  fun_induction findFrom pat d i with
  | case1 i h1 hm => cases h; exact hm
  | case2 i h1 hm h2 ih => exact ih h
  | case3 i h1 hm h2 => cases h
  | case4 i h1 => cases h

theorem dibSig_header {d : List Nat} {i start : Nat} (hf : findFrom dibSig d i = some start) (h : start + 4 ≤ d.length) :
    u32le d start = 40 := by
  have hm := findFrom_matchAt hf
  have e : S2T.Loops.slice d start (start + 4) = [40, 0, 0, 0] := by
    simpa [matchAt, dibSig] using hm
  rw [← sliceN_model, slice4 d start h] at e
  simp at e
  simp [u32le, e]


/-! ## `run` -/

section
variable {σ ρ : Type} {step : σ → M (Step σ ρ)} {m : σ → Nat}
  {h : ∀ s s', step s = Except.ok (Step.next s') → m s' < m s} {s : σ}

/-- one more iteration in front of a run whose outcome is known -/
theorem run_next_ok {s' : σ} {o : Outcome σ ρ} (hs : step s = .ok (.next s')) (ih : run step m h s' = .ok o) :
    run step m h s = .ok o.bump := by
  rw [run_next hs, ih]

theorem run_next_error {s' : σ} {e : Exc} (hs : step s = .ok (.next s')) (ih : run step m h s' = .error e) :
    run step m h s = .error e := by
  rw [run_next hs, ih]
end

/-- unfold generated constants (`S2T.Gen.C12Consts.*`) everywhere — goal and hypotheses, `Decidable` instances included,
    which a `simp` rewrite with the definition (an `rfl`-lemma) would leave behind -/
macro "py_unfold_consts" " [" fs:ident,* "]" : tactic => do
  let tacs ← fs.getElems.mapM fun f => `(tactic| try unfold $f:ident at *)
  `(tactic| ($[$tacs]*))

/-- normal form of a translated loop body: monad plumbing unfolded, raising primitives as `if`s -/
macro "py_step_nf" " [" ls:Lean.Parser.Tactic.simpLemma,* "]" " [" fs:ident,* "]" loc:(Lean.Parser.Tactic.location)? : tactic =>
  `(tactic| (
    try simp +instances only [decide_eq_true_eq, decide_eq_false_iff_not, Bool.and_eq_true, Bool.or_eq_true,
      Bool.not_eq_true', Bool.not_eq_false', bne_iff_ne, beq_iff_eq, Bool.decide_eq_true, ne_eq, $ls,*] $[$loc]?
    py_unfold_consts [$fs,*]
    try simp +instances (disch := omega) only [S2T.Py.Loops.unpackU_beH_slice, S2T.Py.Loops.unpackU_beI_slice, $ls,*] $[$loc]?
    simp +instances [S2T.Py.Loops.ite_bind, S2T.Py.Loops.ite_tryCatch, S2T.Py.Loops.getItemN_singleton,
      S2T.Py.Loops.byte_singleton, S2T.Py.Loops.getItemN_ite, S2T.Py.Loops.unpackU_beH, S2T.Py.Loops.unpackU_beI, $ls,*] $[$loc]?
    try simp +instances [StateT.pure, ExceptT.run, ExceptT.pure, ExceptT.mk, pure, Except.pure, tryCatch, tryCatchThe,
      MonadExceptOf.tryCatch, Except.tryCatch, bind, Except.bind, S2T.Py.Loops.ite_bind, EarlyReturn.runK, $ls,*] $[$loc]?))

/-- closes `measure s' < measure s` from `h : <normal form of step … s> = .ok (.next s')`: walk the `if`s of `h`;
    a leaf that is not `.next` is contradictory, a `.next` leaf gives `s'` and `omega` compares the measures -/
macro "py_variant " h:ident : tactic => `(tactic| (
  repeat' split at $h:ident
  all_goals first
    | (simp at $h:ident; done)
    | (simp at $h:ident; subst $h:ident; simp; done)
    | (simp at $h:ident; subst $h:ident; (try simp at *); (repeat' split) <;> omega)
    | (simp at $h:ident; subst $h:ident; (try simp_all); (repeat' split) <;> omega)
    | (simp at $h:ident; omega)))

/-- the same without `split`: `h` is rewritten into a disjunction over the leaves (`ite_eq_iff'`) and `omega` walks it.
    `s'` must have been destructed (`cases s'`); `ls`: `X.State.mk.injEq`. -/
macro "py_variant_omega " h:ident " [" ls:Lean.Parser.Tactic.simpLemma,* "]" : tactic => `(tactic| (
  dsimp only
  simp only [S2T.Py.Loops.ite_eq_iff', Except.ok.injEq, S2T.Py.Loops.Step.next.injEq, reduceCtorEq, and_false, false_and,
    or_false, false_or, $ls,*] at $h:ident
  omega))

/-- proves `X.step env ora s = Except.ok r` from the hypotheses in scope (the case conditions of the hand model):
    generated constants `fs` unfolded everywhere, normal form (`ls`: `X.step` and the rewrite rules for the formats the
    body mentions), every `if` walked, the byte readers of the prelude rewritten into those of the model where the
    bounds allow -/
macro "py_step_eq" " [" ls:Lean.Parser.Tactic.simpLemma,* "]" " [" fs:ident,* "]" : tactic => `(tactic| (
  py_step_nf [$ls,*] [$fs,*]
  repeat' split
  all_goals (try simp (disch := omega) only [S2T.Py.Loops.fromBytes_true, S2T.Py.Loops.fromBytes_false,
    S2T.Py.Loops.beInt_slice2, S2T.Py.Loops.beInt_slice4, S2T.Py.Loops.leNat_slice2, S2T.Py.Loops.leNat_slice4] at *)
  all_goals first
    | with_reducible rfl
    | omega
    | (simp_all +zetaDelta [S2T.Py.Loops.sliceN_model]; done)
    | (simp_all +zetaDelta [S2T.Py.Loops.sliceN_model]; omega)))

/-- proves `∃ s', X.step env ora s = Except.ok (Step.next s') ∧ P s'` (also with `Step.brk`): the next state is whatever
    the leaf reached says (it may depend on oracle bits and on locals the hand model does not follow), `P` is closed by
    `simp` (with the lemmas `ps`) / `omega` -/
macro "py_step_ex" " [" ls:Lean.Parser.Tactic.simpLemma,* "]" " [" fs:ident,* "]" " [" ps:Lean.Parser.Tactic.simpLemma,* "]" : tactic => `(tactic| (
  py_step_nf [$ls,*] [$fs,*]
  repeat' split
  all_goals (try simp (disch := omega) only [S2T.Py.Loops.fromBytes_true, S2T.Py.Loops.fromBytes_false,
    S2T.Py.Loops.beInt_slice2, S2T.Py.Loops.beInt_slice4, S2T.Py.Loops.leNat_slice2, S2T.Py.Loops.leNat_slice4] at *)
  all_goals first
    | exact ⟨_, rfl, by first | with_reducible rfl | omega | (simp; done) | (simp; omega) | (simp_all +zetaDelta [S2T.Py.Loops.sliceN_model, $ps,*]; done)⟩
    | omega
    | (exfalso; simp_all +zetaDelta [S2T.Py.Loops.sliceN_model]; done)
    | (exfalso; simp_all +zetaDelta [S2T.Py.Loops.sliceN_model]; omega)))

end S2T.Py.Loops
