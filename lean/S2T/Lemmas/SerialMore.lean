import S2T.Lemmas.SerialMain
/-! Further lemmas for C05: `ser ∘ canon = ser`, JSON-ability, binary exclusion. Core Lean only. -/
namespace S2T.Serial

variable {S : Schema}

/-! ## re-serialising the canonical form gives the same JSON -/
theorem ser_canon_dict_typed (vt : Ty) (kvs : List (Key × PyVal))
    (ih : ∀ e ∈ kvs, ser true (canon S vt e.2) = ser true e.2) :
    ser true (.dict (normKeys (canonKVs S vt kvs))) = ser true (.dict kvs) := by
  rw [canonKVs_eq]
  rw [ser_dict_norm true (canon S vt) (ser true) (strKeys kvs) (strKeyed_strKeys kvs)]
  · simp only [ser, serKVs_eq]
  · intro e he
    simp [strKeys] at he
    obtain ⟨a, v, hm, rfl⟩ := he
    exact ih (a, v) hm

theorem ser_canon_obj (c : Str) (C : Class) (fs : List (Str × PyVal))
    (ih : ∀ e ∈ fs, ∀ ty, ser true (canon S ty e.2) = ser true e.2) :
    ser true (.obj c (canonFields S C fs)) = ser true (.obj c fs) := by
  rw [ser_obj_eq, ser_obj_eq, canonFields_eq]
  congr 2
  simp only [objEntries, mapVals, fieldKeys, List.map_cons, List.map_map]
  congr 1
  apply List.map_congr_left
  intro e he
  simp [ih e he]

theorem ser_canon_seq (t : Ty) (xs : List PyVal) (ih : ∀ x ∈ xs, ser true (canon S t x) = ser true x) :
    ser true (.list (canonList S t xs)) = .list (serList true xs) := by
  simp only [ser, serList_eq, canonList_eq, List.map_map]
  congr 1
  apply List.map_congr_left
  intro x hx
  exact ih x hx

mutual
theorem ser_canon : ∀ (v : PyVal) (ty : Ty), ser true (canon S ty v) = ser true v
  | .none, _ => by simp [canon]
  | .bool _, _ => by simp [canon]
  | .int _, _ => by simp [canon]
  | .float _, _ => by simp [canon]
  | .str _, _ => by simp [canon]
  | .foreign _, _ => by simp [canon]
  | .bytes _, _ => by simp [canon]
  | .bytearray _, _ => by simp [canon, ser]
  | .bytesio _, _ => by simp [canon]
  | .list xs, ty => by
    simp only [canon]
    cases hu : unwrapOpt ty <;> simp only []
    case list t => rw [ser_canon_seq t xs (fun x hx => ser_canon_list xs x hx t)]; simp [ser]
    all_goals (rw [ser_ser_list true xs (ser_ser_list' true xs)]; simp [ser])
  | .tuple xs, ty => by
    simp only [canon]
    cases hu : unwrapOpt ty <;> simp only []
    case list t => rw [ser_canon_seq t xs (fun x hx => ser_canon_list xs x hx t)]; simp [ser]
    all_goals (rw [ser_ser_list true xs (ser_ser_list' true xs)]; simp [ser])
  | .set xs, ty => by
    simp only [canon]
    cases hu : unwrapOpt ty <;> simp only []
    case list t => rw [ser_canon_seq t xs (fun x hx => ser_canon_list xs x hx t)]; simp [ser]
    all_goals (rw [ser_ser_list true xs (ser_ser_list' true xs)]; simp [ser])
  | .dict kvs, ty => by
    simp only [canon]
    cases hu : unwrapOpt ty <;> simp only []
    case dict kt vt => exact ser_canon_dict_typed vt kvs (fun e he => ser_canon_vals kvs e he vt)
    all_goals exact ser_ser true (.dict kvs)
  | .obj c fs, ty => by
    simp only [canon]
    cases hf : S.find c <;> simp only []
    · exact ser_ser true (.obj c fs)
    · exact ser_canon_obj c _ fs (fun e he ty => ser_canon_fields fs e he ty)
theorem ser_canon_list : ∀ (xs : List PyVal), ∀ x ∈ xs, ∀ ty, ser true (canon S ty x) = ser true x
  | [], _, h, _ => by simp at h
  | y :: ys, x, hx, ty => by
    rcases List.mem_cons.mp hx with e | hx
    · rw [e]; exact ser_canon y ty
    · exact ser_canon_list ys x hx ty
theorem ser_canon_vals : ∀ (l : List (Key × PyVal)), ∀ e ∈ l, ∀ ty, ser true (canon S ty e.2) = ser true e.2
  | [], _, h, _ => by simp at h
  | (k, v) :: r, e, he, ty => by
    rcases List.mem_cons.mp he with e' | he
    · rw [e']; exact ser_canon v ty
    · exact ser_canon_vals r e he ty
theorem ser_canon_fields : ∀ (l : List (Str × PyVal)), ∀ e ∈ l, ∀ ty, ser true (canon S ty e.2) = ser true e.2
  | [], _, h, _ => by simp at h
  | (k, v) :: r, e, he, ty => by
    rcases List.mem_cons.mp he with e' | he
    · rw [e']; exact ser_canon v ty
    · exact ser_canon_fields r e he ty
end

/-! ## JSON-ability -/
theorem isJsonList_iff (xs : List PyVal) : isJsonList xs = true ↔ ∀ x ∈ xs, isJson x = true := by
  induction xs with
  | nil => simp [isJsonList]
  | cons x xs ih => simp [isJsonList, ih]

theorem isJsonKVs_iff (l : List (Key × PyVal)) :
    isJsonKVs l = true ↔ ∀ e ∈ l, (∃ s, e.1 = Key.str s) ∧ isJson e.2 = true := by
  induction l with
  | nil => simp [isJsonKVs]
  | cons e l ih =>
    obtain ⟨k, v⟩ := e
    cases k <;> simp [isJsonKVs, ih]

theorem keysNodup_iff (l : List (Key × PyVal)) : keysNodup l = true ↔ (keys l).Nodup := by
  induction l with
  | nil => simp [keysNodup, keys]
  | cons e l ih =>
    obtain ⟨k, v⟩ := e
    simp only [keysNodup, keys, List.map_cons, List.nodup_cons, Bool.and_eq_true, Bool.not_eq_true',
      List.contains_eq_mem, decide_eq_false_iff_not] at ih ⊢
    rw [ih]

theorem isJson_dict_norm (f : PyVal → PyVal) (L : List (Key × PyVal)) (hk : strKeyed L)
    (h : ∀ e ∈ L, isJson (f e.2) = true) : isJson (.dict (normKeys (mapVals f L))) = true := by
  simp only [isJson, Bool.and_eq_true]
  refine ⟨?_, (keysNodup_iff _).mpr (normKeys_keys_nodup _)⟩
  rw [isJsonKVs_iff]
  intro e he
  have := mem_normKeys _ e he
  simp [mapVals] at this
  obtain ⟨a, v, hm, rfl⟩ := this
  exact ⟨hk (a, v) hm, h (a, v) hm⟩

mutual
/-- whatever is free of foreign values serialises to JSON (with or without binary payloads) -/
theorem isJson_ser (b : Bool) : ∀ v : PyVal, noForeign v = true → isJson (ser b v) = true
  | .none, _ => by simp [ser, isJson]
  | .bool _, _ => by simp [ser, isJson]
  | .int _, _ => by simp [ser, isJson]
  | .float _, _ => by simp [ser, isJson]
  | .str _, _ => by simp [ser, isJson]
  | .foreign _, h => by simp [noForeign] at h
  | .bytes _, _ => by cases b <;> simp [ser, isJson, isJsonKVs, keysNodup]
  | .bytearray _, _ => by cases b <;> simp [ser, isJson, isJsonKVs, keysNodup]
  | .bytesio _, _ => by cases b <;> simp [ser, isJson, isJsonKVs, keysNodup]
  | .list xs, h => by
    simp only [ser, isJson, serList_eq, isJsonList_iff]
    intro x hx
    obtain ⟨y, hy, rfl⟩ := List.mem_map.mp hx
    exact isJson_ser_list b xs (by simpa [noForeign] using h) y hy
  | .tuple xs, h => by
    simp only [ser, isJson, serList_eq, isJsonList_iff]
    intro x hx
    obtain ⟨y, hy, rfl⟩ := List.mem_map.mp hx
    exact isJson_ser_list b xs (by simpa [noForeign] using h) y hy
  | .set xs, h => by
    simp only [ser, isJson, serList_eq, isJsonList_iff]
    intro x hx
    obtain ⟨y, hy, rfl⟩ := List.mem_map.mp hx
    exact isJson_ser_list b xs (by simpa [noForeign] using h) y hy
  | .dict kvs, h => by
    simp only [ser, serKVs_eq]
    apply isJson_dict_norm (ser b) (strKeys kvs) (strKeyed_strKeys kvs)
    intro e he
    simp [strKeys] at he
    obtain ⟨a, v, hm, rfl⟩ := he
    exact isJson_ser_kvs b kvs (by simpa [noForeign] using h) (a, v) hm
  | .obj c fs, h => by
    rw [ser_obj_eq]
    apply isJson_dict_norm (ser b) _ (strKeyed_objEntries c fs)
    intro e he
    simp [objEntries] at he
    rcases he with rfl | he
    · simp [ser, isJson]
    · simp [fieldKeys] at he
      obtain ⟨a, v, hm, rfl⟩ := he
      exact isJson_ser_fields b fs (by simpa [noForeign] using h) (a, v) hm
theorem isJson_ser_list (b : Bool) : ∀ xs : List PyVal, noForeignList xs = true → ∀ x ∈ xs, isJson (ser b x) = true
  | [], _ => by simp
  | y :: ys, h => by
    simp [noForeignList] at h
    intro x hx
    rcases List.mem_cons.mp hx with e | hx
    · rw [e]; exact isJson_ser b y h.1
    · exact isJson_ser_list b ys h.2 x hx
theorem isJson_ser_kvs (b : Bool) : ∀ l : List (Key × PyVal), noForeignKVs l = true → ∀ e ∈ l, isJson (ser b e.2) = true
  | [], _ => by simp
  | (k, v) :: r, h => by
    simp [noForeignKVs] at h
    intro e he
    rcases List.mem_cons.mp he with e' | he
    · rw [e']; exact isJson_ser b v h.1
    · exact isJson_ser_kvs b r h.2 e he
theorem isJson_ser_fields (b : Bool) : ∀ l : List (Str × PyVal), noForeignFields l = true → ∀ e ∈ l, isJson (ser b e.2) = true
  | [], _ => by simp
  | (k, v) :: r, h => by
    simp [noForeignFields] at h
    intro e he
    rcases List.mem_cons.mp he with e' | he
    · rw [e']; exact isJson_ser b v h.1
    · exact isJson_ser_fields b r h.2 e he
end

/-! ## excluding binary payloads -/
mutual
theorem ser_false : ∀ v : PyVal, ser false v = ser true (dropBinary v)
  | .none => by simp [ser, dropBinary]
  | .bool _ => by simp [ser, dropBinary]
  | .int _ => by simp [ser, dropBinary]
  | .float _ => by simp [ser, dropBinary]
  | .str _ => by simp [ser, dropBinary]
  | .foreign _ => by simp [ser, dropBinary]
  | .bytes _ => by simp [ser, dropBinary]
  | .bytearray _ => by simp [ser, dropBinary]
  | .bytesio _ => by simp [ser, dropBinary]
  | .list xs => by simp [ser, dropBinary, ser_false_list xs]
  | .tuple xs => by simp [ser, dropBinary, ser_false_list xs]
  | .set xs => by simp [ser, dropBinary, ser_false_list xs]
  | .dict kvs => by simp [ser, dropBinary, ser_false_kvs kvs]
  | .obj c fs => by simp [ser, dropBinary, ser_false_fields fs]
theorem ser_false_list : ∀ xs : List PyVal, serList false xs = serList true (dropBinaryList xs)
  | [] => by simp [serList, dropBinaryList]
  | y :: ys => by simp [serList, dropBinaryList, ser_false y, ser_false_list ys]
theorem ser_false_kvs : ∀ l : List (Key × PyVal), serKVs false l = serKVs true (dropBinaryKVs l)
  | [] => by simp [serKVs, dropBinaryKVs]
  | (k, v) :: r => by simp [serKVs, dropBinaryKVs, ser_false v, ser_false_kvs r]
theorem ser_false_fields : ∀ l : List (Str × PyVal), serFields false l = serFields true (dropBinaryFields l)
  | [] => by simp [serFields, dropBinaryFields]
  | (k, v) :: r => by simp [serFields, dropBinaryFields, ser_false v, ser_false_fields r]
end

/-! ## the top-level entry points on a serialised dataclass instance -/
theorem serializeExtraction_obj (b : Bool) (c : Str) (fs : List (Str × PyVal)) :
    serializeExtraction b (.obj c fs) = ser b (.obj c fs) := by
  simp [serializeExtraction, ser]

theorem deserializeExtraction_of_deserValue (J : List (Key × PyVal))
    (h1 : dget kBytesio J = none) (h2 : dget kBytes J = none) (h3 : (dget kType J).isSome = true) :
    deserializeExtraction S (.dict J) = deserValue S .any (.dict J) := by
  simp [deserializeExtraction, deserValue, deserDataclass, unwrapOpt, h1, h2, h3]

/-- the serialised form of a well-formed dataclass instance carries `_type` and no binary marker -/
theorem ser_obj_shape (hS : SchemaOk S = true) (c : Str) (fs : List (Str × PyVal)) (C : Class)
    (hfind : S.find c = some C) (hnames : fs.map (·.1) = C.fieldNames) :
    ∃ J, ser true (.obj c fs) = .dict J ∧ dget kBytesio J = none ∧ dget kBytes J = none
      ∧ dget kType J = some (.str c) := by
  obtain ⟨hCmem, hCname⟩ := find_some hfind
  have hok := classOk_of_mem hS hCmem
  simp only [classOk, Bool.and_eq_true, Bool.not_eq_true', List.all_eq_true] at hok
  obtain ⟨⟨hnd, hnomark⟩, hne⟩ := hok
  have hnd' : C.fieldNames.Nodup := nodupStr_nodup _ hnd
  have hnm : ∀ m, isMarker m = true → m ∉ C.fieldNames := by
    intro m hm hin
    have := hnomark m hin
    simp [hm] at this
  refine ⟨mapVals (ser true) (objEntries c fs), ?_, ?_, ?_, ?_⟩
  · rw [ser_obj_eq, normKeys_nodup]
    rw [keys_mapVals]
    simp only [keys, objEntries, fieldKeys, List.map_cons, List.map_map]
    refine List.nodup_cons.mpr ⟨?_, ?_⟩
    · simp only [List.mem_map, Function.comp]
      rintro ⟨e, he, heq⟩
      simp at heq
      have : e.1 ∈ C.fieldNames := by rw [← hnames]; exact List.mem_map_of_mem he
      rw [heq] at this
      exact hnm kType (by decide) this
    · have : (List.map ((fun x : Key × PyVal => x.1) ∘ fun kv : Str × PyVal => (Key.str kv.1, kv.2)) fs)
          = (fs.map (·.1)).map Key.str := by simp [List.map_map, Function.comp_def]
      rw [this, hnames]
      exact List.Pairwise.map Key.str (fun {a b} (h : a ≠ b) e => h (Key.str.inj e)) hnd'
  all_goals
    have hJcons : mapVals (ser true) (objEntries c fs)
        = (Key.str kType, PyVal.str c) :: mapVals (ser true) (fieldKeys fs) := by
      simp [objEntries, mapVals, ser]
    have hfk : ∀ m, isMarker m = true → ∀ e ∈ mapVals (ser true) (fieldKeys fs), e.1 ≠ Key.str m := by
      intro m hm e he
      simp [mapVals, fieldKeys] at he
      obtain ⟨a, v, hmem, rfl⟩ := he
      simp
      intro e'
      have : a ∈ C.fieldNames := by rw [← hnames]; exact List.mem_map_of_mem (f := (·.1)) hmem
      rw [e'] at this
      exact hnm m hm this
    rw [hJcons]
  · apply dget_none
    intro e he
    rcases List.mem_cons.mp he with rfl | he
    · simp; exact fun e => kBytesio_ne_kType e.symm
    · exact hfk kBytesio (by decide) e he
  · apply dget_none
    intro e he
    rcases List.mem_cons.mp he with rfl | he
    · simp; exact fun e => kBytes_ne_kType e.symm
    · exact hfk kBytes (by decide) e he
  · exact dget_head _ _ _

/-! ## a rendering into text, used only to state disequalities of concrete values decidably -/
mutual
def render : PyVal → List Char
  | .none => "null".toList
  | .bool b => if b then "true".toList else "false".toList
  | .int i => intStr i
  | .float t => 'f' :: t
  | .str s => '"' :: s ++ ['"']
  | .bytes b => 'b' :: (toString b).toList
  | .bytearray b => 'a' :: (toString b).toList
  | .bytesio b => 'i' :: (toString b).toList
  | .list xs => '[' :: renderList xs ++ [']']
  | .tuple xs => '(' :: renderList xs ++ [')']
  | .set xs => '<' :: renderList xs ++ ['>']
  | .dict kvs => '{' :: renderKVs kvs ++ ['}']
  | .obj c fs => c ++ '(' :: renderFields fs ++ [')']
  | .foreign n => '?' :: n
def renderList : List PyVal → List Char
  | [] => []
  | x :: xs => render x ++ ',' :: renderList xs
def renderKVs : List (Key × PyVal) → List Char
  | [] => []
  | (k, v) :: r => keyStr k ++ ':' :: render v ++ ',' :: renderKVs r
def renderFields : List (Str × PyVal) → List Char
  | [] => []
  | (k, v) :: r => k ++ '=' :: render v ++ ',' :: renderFields r
end

theorem ne_of_render_ne {a b : PyVal} (h : render a ≠ render b) : a ≠ b := fun e => h (congrArg render e)

end S2T.Serial
