import S2T.Lemmas.Archive
import S2T.Model.ArchiveGuard
/-!
Lemmas for `Props/C09_Filter.lean`: every regular file the model of `extractall(members=…)` leaves in the
private directory was written for a REQUESTED entry (by index), under the path `_safe_join` gives for that
entry's name, and holds no more bytes than the entry declares.
-/
namespace S2T.Archive
open S2T.Router (Str Tables)

/-- the file `p` with bytes `d` was written for a requested entry of the file list -/
def WrittenFor (cwd base : Str) (files : List FileInfo) (w : Wanted) (p : Str) (d : List Nat) : Prop :=
  ∃ i f, files[i]? = some f ∧ isWanted w i = true ∧ safeJoin cwd base f.filename = .ok p ∧ d.length ≤ f.uncompressed

/-- invariant of the overlay: every regular file in it was written for a requested entry -/
def FsInv (cwd base : Str) (files : List FileInfo) (w : Wanted) (fs : Overlay) : Prop :=
  ∀ p d, (p, Node.file d) ∈ fs → WrittenFor cwd base files w p d

theorem olookup_mem (p : Str) (fs : Overlay) (n : Node) (h : olookup p fs = some n) : (p, n) ∈ fs := by
  induction fs with
  | nil => simp [olookup] at h
  | cons kv r ih =>
    obtain ⟨k, v⟩ := kv
    unfold olookup at h
    split at h
    · rename_i hk
      have : p = k := by simpa using hk
      subst this
      cases h
      simp
    · exact List.mem_cons_of_mem _ (ih h)

theorem mkdirsWalk_inv {cwd base : Str} {files : List FileInfo} {w : Wanted} (env : Env) (qs : List Str) (r : Run)
    (hr : FsInv cwd base files w r.fs) : FsInv cwd base files w (mkdirsWalk env base qs r).fs := by
  induction qs generalizing r with
  | nil => simpa [mkdirsWalk] using hr
  | cons q qs ih =>
    unfold mkdirsWalk
    split
    · exact hr
    · split
      · exact ih r hr
      · exact hr
      · apply ih
        intro p d hm
        simp only [List.mem_cons] at hm
        rcases hm with hm | hm
        · cases hm
        · exact hr p d hm

theorem mkdirs_inv {cwd base : Str} {files : List FileInfo} {w : Wanted} (env : Env) (p : Str) (r : Run)
    (hr : FsInv cwd base files w r.fs) : FsInv cwd base files w (mkdirs env base p r).fs :=
  mkdirsWalk_inv env _ r hr

theorem writeFile_inv {cwd base : Str} {files : List FileInfo} {w : Wanted} (env : Env) (p : Str) (d : List Nat) (r : Run)
    (hw : WrittenFor cwd base files w p d)
    (hr : FsInv cwd base files w r.fs) : FsInv cwd base files w (writeFile env base p d r).fs := by
  unfold writeFile
  split
  · exact hr
  · split
    · exact hr
    · split
      · intro q e hm
        simp only [List.mem_cons] at hm
        rcases hm with hm | hm
        · cases hm; exact hw
        · exact hr q e hm
      · exact hr

theorem extractOne_inv {cwd base : Str} {files : List FileInfo} (env : Env) (data : List Nat) (w : Wanted)
    (nf : Nat × FileInfo) (st : Run × Nat) (hnf : files[nf.1]? = some nf.2)
    (hr : FsInv cwd base files w st.1.fs) : FsInv cwd base files w (extractOne env cwd base data w nf st).1.fs := by
  obtain ⟨r, off⟩ := st
  unfold extractOne
  simp only
  split
  · exact hr
  · split
    · exact hr
    · rename_i hwant
      split
      · split
        · exact hr
        · exact mkdirs_inv env _ r hr
      · split
        · exact hr
        · split
          · exact hr
          · rename_i p hp
            apply writeFile_inv
            · refine ⟨nf.1, nf.2, hnf, by simpa using hwant, hp, ?_⟩
              simp only [List.length_take]
              omega
            · split
              · exact hr
              · exact mkdirs_inv env _ r hr

theorem extractFolder_inv {cwd base : Str} {files : List FileInfo} (env : Env) (data : List Nat) (w : Wanted)
    (fs : List (Nat × FileInfo)) (r : Run) (hfs : ∀ nf ∈ fs, files[nf.1]? = some nf.2)
    (hr : FsInv cwd base files w r.fs) : FsInv cwd base files w (extractFolder env cwd base data w fs r).fs := by
  unfold extractFolder
  suffices h : ∀ (st : Run × Nat), FsInv cwd base files w st.1.fs →
      FsInv cwd base files w (fs.foldl (fun st nf => extractOne env cwd base data w nf st) st).1.fs from h (r, 0) hr
  induction fs with
  | nil => intro st h; simpa using h
  | cons f fs ih =>
    intro st h
    simp only [List.foldl_cons]
    exact ih (fun nf hm => hfs nf (List.mem_cons_of_mem _ hm)) _ (extractOne_inv env data w f st (hfs f (by simp)) h)

theorem extractAll_inv {cwd base : Str} (env : Env) (files : List FileInfo) (fmap : List (Nat × Nat))
    (fd : List (Option (List Nat))) (w : Wanted) (k : Nat) (fl : List Nat) (r : Run)
    (hr : FsInv cwd base files w r.fs) : FsInv cwd base files w (extractAll env cwd base files fmap fd w k fl r).fs := by
  induction fl generalizing k r with
  | nil => simpa [extractAll] using hr
  | cons x rest ih =>
    unfold extractAll
    split
    · exact hr
    · simp only
      split
      · exact ih _ _ hr
      · split
        · exact ih _ _ hr
        · split
          · exact hr
          · apply ih
            apply extractFolder_inv env _ w _ r _ hr
            intro nf hm
            obtain ⟨ij, _, hij⟩ := List.mem_filterMap.mp hm
            cases hf : files[ij.1]? with
            | none => simp [hf] at hij
            | some f =>
              simp only [hf, Option.map_some, Option.some.injEq] at hij
              subst hij
              exact hf

theorem indexed_get {α} (l : List α) (n i : Nat) (x : α) (h : (i, x) ∈ indexed l n) : n ≤ i ∧ l[i - n]? = some x := by
  induction l generalizing n with
  | nil => simp [indexed] at h
  | cons y r ih =>
    simp only [indexed, List.mem_cons, Prod.mk.injEq] at h
    rcases h with ⟨h1, h2⟩ | h
    · subst h1 h2; simp
    · obtain ⟨a, b⟩ := ih (n + 1) h
      refine ⟨by omega, ?_⟩
      have : i - n = (i - (n + 1)) + 1 := by omega
      rw [this]
      simpa using b

theorem writeEmpty_inv {cwd base : Str} {files : List FileInfo} {w : Wanted} (env : Env) (i : Nat) (f : FileInfo) (r : Run)
    (hf : files[i]? = some f) (hw : isWanted w i = true)
    (hr : FsInv cwd base files w r.fs) : FsInv cwd base files w (writeEmpty env cwd base f r).fs := by
  unfold writeEmpty
  split
  · exact hr
  · split
    · exact hr
    · rename_i p hp
      apply writeFile_inv
      · exact ⟨i, f, hf, hw, hp, by simp⟩
      · split
        · exact hr
        · exact mkdirs_inv env _ r hr

theorem extractEmpties_inv {cwd base : Str} (env : Env) (files : List FileInfo) (w : Wanted) (r : Run)
    (hr : FsInv cwd base files w r.fs) : FsInv cwd base files w (extractEmpties env cwd base files w r).fs := by
  unfold extractEmpties
  have hall : ∀ nf ∈ (indexed files 0).filter (fun nf => nf.2.emptyFile && isWanted w nf.1),
      files[nf.1]? = some nf.2 ∧ isWanted w nf.1 = true := by
    intro nf hm
    obtain ⟨h1, h2⟩ := List.mem_filter.mp hm
    have := indexed_get files 0 nf.1 nf.2 h1
    simp only [Bool.and_eq_true] at h2
    exact ⟨by simpa using this.2, h2.2⟩
  generalize (indexed files 0).filter (fun nf => nf.2.emptyFile && isWanted w nf.1) = fl at hall
  induction fl generalizing r with
  | nil => simpa using hr
  | cons f fl ih =>
    simp only [List.foldl_cons]
    exact ih _ (writeEmpty_inv env f.1 f.2 r (hall f (by simp)).1 (hall f (by simp)).2 hr)
      (fun nf hm => hall nf (List.mem_cons_of_mem _ hm))

theorem extractAllFull_inv {cwd base : Str} (env : Env) (files : List FileInfo) (fmap : List (Nat × Nat))
    (fd : List (Option (List Nat))) (fl : List Nat) (w : Wanted) (r : Run)
    (hr : FsInv cwd base files w r.fs) : FsInv cwd base files w (extractAllFull env cwd base files fmap fd fl w r).fs := by
  unfold extractAllFull
  exact extractEmpties_inv env files w _ (extractAll_inv env files fmap fd w 0 fl r hr)

/-- an index requested by `_extract_from_7z_optimized` is the index of an entry that passed its three filters -/
theorem wanted_selected (skip : Str → Str → Bool) (lim : Limits) (files : List FileInfo) (i : Nat) (f : FileInfo)
    (hf : files[i]? = some f) (hw : isWanted (some ((select7z skip lim files).map (·.1))) i = true) :
    f.isDirectory = false ∧ skip f.filename (basename f.filename) = false ∧ f.uncompressed ≤ lim.maxMemory := by
  simp only [isWanted, List.contains_eq_mem, List.mem_map, decide_eq_true_eq] at hw
  obtain ⟨nf, hm, hi⟩ := hw
  unfold select7z at hm
  obtain ⟨h1, h2⟩ := List.mem_filter.mp hm
  have hg := (indexed_get files 0 nf.1 nf.2 h1).2
  simp only [Nat.sub_zero] at hg
  rw [hi, hf] at hg
  cases hg
  simp only [Bool.and_eq_true, Bool.not_eq_true', decide_eq_false_iff_not] at h2
  exact ⟨h2.1.1, h2.1.2, by omega⟩

/-- a regular file found by `nodeAt` at a path inside the private directory is in the overlay -/
theorem nodeAt_file_mem (env : Env) (base : Str) (fs : Overlay) (p : Str) (d : List Nat) (hin : Inside base p)
    (h : nodeAt env base fs p = some (.file d)) : (p, Node.file d) ∈ fs := by
  unfold nodeAt at h
  split at h
  · cases h
  · split at h
    · rename_i n hn
      cases h
      exact olookup_mem p fs _ hn
    · rw [inside_prefix hin] at h
      simp at h

end S2T.Archive
