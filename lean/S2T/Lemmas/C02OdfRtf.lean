import S2T.Lemmas.C02OdfStr
import S2T.Lemmas.C02OdfNum
/-! The RTF character machine on rendered documents. -/
namespace S2T.Rtf
open S2T.Tok S2T.OdfDoc S2T.RtfDoc

/-! ### list helpers -/

theorem takeWhile_append_stop {α} (f : α → Bool) (a : List α) (x : α) (r : List α)
    (ha : ∀ c ∈ a, f c = true) (hx : f x = false) :
    (a ++ x :: r).takeWhile f = a ∧ (a ++ x :: r).dropWhile f = x :: r := by
  induction a with
  | nil => simp [List.takeWhile, List.dropWhile, hx]
  | cons c a ih =>
    have hc := ha c (by simp)
    have := ih (fun y hy => ha y (by simp [hy]))
    simp [List.takeWhile, List.dropWhile, hc, this.1, this.2]

theorem isPrefixOf_of_take {α} [DecidableEq α] (l x : List α) (n : Nat)
    (h : l.isPrefixOf (x.take n) = true) : l.isPrefixOf x = true := by
  rw [List.isPrefixOf_iff_prefix] at h ⊢
  exact h.trans (List.take_prefix n x)

/-- an all-alphabetic keyword that is a prefix of `w ++ (non-alphabetic) :: _` is a prefix of `w` -/
theorem prefix_alpha_cut (kw w : Str) (x : Char) (r : Str) (hk : ∀ c ∈ kw, asciiAlpha c = true)
    (hx : asciiAlpha x = false) (h : kw.isPrefixOf (w ++ x :: r) = true) : kw.isPrefixOf w = true := by
  induction kw generalizing w with
  | nil => simp
  | cons k kw ih =>
    cases w with
    | nil =>
      simp only [List.nil_append, List.isPrefixOf, Bool.and_eq_true, beq_iff_eq] at h
      have := hk k (by simp)
      rw [h.1, hx] at this
      exact absurd this (by simp)
    | cons c w =>
      simp only [List.cons_append, List.isPrefixOf, Bool.and_eq_true, beq_iff_eq] at h ⊢
      exact ⟨h.1, ih w (fun y hy => hk y (by simp [hy])) h.2⟩

/-! ### the machine, one construct at a time -/

variable {T : Tables}

theorem go_eat (a r : Str) (st : St) (out : List Ev) : go T (a ++ r) a.length st out = go T r 0 st out := by
  induction a with
  | nil => rfl
  | cons c a ih => simp only [List.cons_append, List.length_cons, go, ih]

theorem go_char (c : Char) (r : Str) (st : St) (out : List Ev) (hs : st.skip = false)
    (h1 : c ≠ '{') (h2 : c ≠ '}') (h3 : c ≠ '\\') (h4 : c ≠ '\r') :
    go T (c :: r) 0 st out = go T r 0 st (.ch c.toNat :: out) := by
  simp [go, h1, h2, h3, h4, hs]

theorem go_skip_char (c : Char) (r : Str) (st : St) (out : List Ev) (hs : st.skip = true)
    (h1 : c ≠ '{') (h2 : c ≠ '}') : go T (c :: r) 0 st out = go T r 0 st out := by
  simp [go, h1, h2, hs]

def noBrace (s : Str) : Bool := s.all (fun c => c != '{' && c != '}')

theorem go_skip_chars (s r : Str) (st : St) (out : List Ev) (hs : st.skip = true) (hb : noBrace s = true) :
    go T (s ++ r) 0 st out = go T r 0 st out := by
  induction s with
  | nil => rfl
  | cons c s ih =>
    simp only [noBrace, List.all_cons, Bool.and_eq_true, bne_iff_ne, ne_eq] at hb
    rw [List.cons_append, go_skip_char c _ st out hs hb.1.1 hb.1.2]
    exact ih (by simpa [noBrace] using hb.2)

theorem go_esc (c : Char) (r : Str) (st : St) (out : List Ev) (hs : st.skip = false)
    (hc : c = '\\' ∨ c = '{' ∨ c = '}') :
    go T ('\\' :: c :: r) 0 st out = go T r 0 st (.ch c.toNat :: out) := by
  have h := go_eat (T := T) [c] r st (.ch c.toNat :: out)
  simp only [List.singleton_append, List.length_singleton] at h
  rw [← h]
  simp [go, hs, hc]

theorem go_close (r : Str) (st : St) (out : List Ev) (hs : st.skip = false) :
    go T ('}' :: r) 0 st out = go T r 0 { st with depth := st.depth - 1 } out := by
  simp [go, hs]

/-- words the renderer may use as formatting / group words -/
structure WordOk (T : Tables) (w : Str) : Prop where
  ne : w ≠ []
  alpha : ∀ c ∈ w, asciiAlpha c = true
  notU : w.head? ≠ some 'u'
  noSkip : ∀ kw ∈ T.skip, kw.isPrefixOf w = false

theorem asciiAlpha_isAlpha {c : Char} (h : asciiAlpha c = true) : isAlpha T c = true := by
  have hlt : c.toNat < 128 := by
    simp only [asciiAlpha, Bool.or_eq_true, Bool.and_eq_true, decide_eq_true_eq] at h
    rcases h with ⟨_, h⟩ | ⟨_, h⟩
    · have : c.toNat ≤ 'z'.toNat := h; simp at this; omega
    · have : c.toNat ≤ 'Z'.toNat := h; simp at this; omega
  simp [isAlpha, hlt, h]

theorem isAlpha_digit (d : Nat) (hd : d < 10) : isAlpha T (digitChar d) = false ∧ isDigit T (digitChar d) = true
    ∧ decVal T (digitChar d) = some d ∧ digitChar d ≠ '-' ∧ digitChar d ≠ ' ' ∧ digitChar d ≠ '?' := by
  have : ∀ d < 10, (digitChar d).toNat < 128 ∧ asciiAlpha (digitChar d) = false ∧ asciiDigit (digitChar d) = true
      ∧ (digitChar d).toNat - 48 = d ∧ digitChar d ≠ '-' ∧ digitChar d ≠ ' ' ∧ digitChar d ≠ '?' := by decide
  obtain ⟨h1, h2, h3, h4, h5, h6, h7⟩ := this d hd
  simp [isAlpha, isDigit, decVal, h1, h2, h3, h4, h5, h6, h7]

def parStr : Option Nat → Str
  | some n => natToDec n
  | none => []

theorem natToDec_digits (n : Nat) : ∃ ds : List Nat, natToDec n = ds.map digitChar ∧ (∀ d ∈ ds, d < 10) ∧ ds ≠ []
    ∧ ds.foldl (fun a d => a * 10 + d) 0 = n := by
  refine ⟨(digitsRev n).reverse, rfl, ?_, ?_, ?_⟩
  · intro d hd; exact digitsRev_lt n d (by simpa using hd)
  · simpa using digitsRev_ne_nil n
  · rw [foldl_reverse_digits, ofDigitsRev_digitsRev]

theorem ctrlWord_ctl (w : Str) (pr : Option Nat) (r : Str) (hw : ∀ c ∈ w, asciiAlpha c = true) :
    ctrlWord T (w ++ parStr pr ++ ' ' :: r) = (w, (w ++ parStr pr ++ [' ']).length) := by
  have hsp : isAlpha T ' ' = false ∧ isDigit T ' ' = false := by
    constructor <;> simp [isAlpha, isDigit, asciiAlpha, asciiDigit]
  cases pr with
  | none =>
    simp only [parStr, List.append_nil]
    obtain ⟨t1, t2⟩ := takeWhile_append_stop (isAlpha T) w ' ' r (fun c hc => asciiAlpha_isAlpha (hw c hc)) hsp.1
    simp [ctrlWord, t1, t2, List.takeWhile, List.dropWhile, hsp.2]
  | some n =>
    obtain ⟨ds, hds, hlt, hne, _⟩ := natToDec_digits n
    simp only [parStr, hds]
    cases ds with
    | nil => exact absurd rfl hne
    | cons d0 dr =>
      have hd0 := isAlpha_digit (T := T) d0 (hlt d0 (by simp))
      have happ : w ++ (d0 :: dr).map digitChar ++ ' ' :: r = w ++ digitChar d0 :: (dr.map digitChar ++ ' ' :: r) := by simp
      obtain ⟨t1, t2⟩ := takeWhile_append_stop (isAlpha T) w (digitChar d0) (dr.map digitChar ++ ' ' :: r)
        (fun c hc => asciiAlpha_isAlpha (hw c hc)) hd0.1
      have hpar : ∀ c ∈ (d0 :: dr).map digitChar, (isDigit T c || c == '-') = true := by
        intro c hc
        obtain ⟨d, hd, rfl⟩ := List.mem_map.mp hc
        simp [(isAlpha_digit (T := T) d (hlt d hd)).2.1]
      have hspp : (isDigit T ' ' || ' ' == '-') = false := by simp [hsp.2]
      obtain ⟨u1, u2⟩ := takeWhile_append_stop (fun c => isDigit T c || c == '-') ((d0 :: dr).map digitChar) ' ' r hpar hspp
      have hmap : digitChar d0 :: (dr.map digitChar ++ ' ' :: r) = (d0 :: dr).map digitChar ++ ' ' :: r := by simp
      rw [happ]
      simp only [ctrlWord, t1, t2]
      rw [hmap, u1, u2]
      simp [Nat.add_assoc]

/-- what a control word emits -/
def wordOut (T : Tables) (w : Str) (out : List Ev) : List Ev :=
  if pageWords.contains w then .page :: out
  else match lookup w T.special with
    | some s => (s.map (fun x => Ev.ch x.toNat)).reverse ++ out
    | none => out

theorem go_ctl (w : Str) (pr : Option Nat) (r : Str) (st : St) (out : List Ev) (hs : st.skip = false)
    (hne : w ≠ []) (hw : ∀ c ∈ w, asciiAlpha c = true) (hu : w.head? ≠ some 'u') :
    go T (ctl w pr ++ r) 0 st out = go T r 0 st (wordOut T w out) := by
  cases w with
  | nil => exact absurd rfl hne
  | cons nc w' =>
    have hnc := hw nc (by simp)
    have h1 : nc ≠ '\\' ∧ nc ≠ '{' ∧ nc ≠ '}' ∧ nc ≠ '\'' := by
      refine ⟨?_, ?_, ?_, ?_⟩ <;> (intro h; subst h; revert hnc; decide)
    have h2 : nc ≠ 'u' := by intro h; subst h; simp at hu
    have hcw := ctrlWord_ctl (T := T) (nc :: w') pr r hw
    have hctl : ctl (nc :: w') pr ++ r = '\\' :: ((nc :: w') ++ parStr pr ++ ' ' :: r) := by
      cases pr <;> simp [ctl, parStr]
    rw [hctl]
    have hgo : go T ('\\' :: ((nc :: w') ++ parStr pr ++ ' ' :: r)) 0 st out
        = go T ((nc :: w') ++ parStr pr ++ ' ' :: r) (ctrlWord T ((nc :: w') ++ parStr pr ++ ' ' :: r)).2 st
            (wordOut T (ctrlWord T ((nc :: w') ++ parStr pr ++ ' ' :: r)).1 out) := by
      simp only [List.cons_append, go, hs]
      simp [h1.1, h1.2.1, h1.2.2.1, h1.2.2.2, h2, asciiAlpha_isAlpha hnc, wordOut]
      rfl
    rw [hgo, hcw]
    have : (nc :: w') ++ parStr pr ++ ' ' :: r = ((nc :: w') ++ parStr pr ++ [' ']) ++ r := by simp
    rw [this]
    exact go_eat _ _ _ _

theorem isSkipDest_word (w : Str) (x : Char) (r : Str) (hw : WordOk T w) (hx : asciiAlpha x = false)
    (hsk : ∀ kw ∈ T.skip, ∀ c ∈ kw, asciiAlpha c = true) :
    isSkipDest T (('\\' :: (w ++ x :: r)).take 29) = false := by
  cases w with
  | nil => exact absurd rfl hw.ne
  | cons nc w' =>
    have hnc := hw.alpha nc (by simp)
    have hstar : nc ≠ '*' := by intro h; subst h; revert hnc; decide
    simp only [isSkipDest, Bool.or_eq_false_iff]
    constructor
    · have hs' : ¬ '*' = nc := fun h => hstar h.symm
      simp [List.take, List.isPrefixOf, hs']
    · rw [List.any_eq_false]
      intro kw hkw hp
      have hp' := isPrefixOf_of_take _ _ _ hp
      simp only [List.isPrefixOf, Bool.and_eq_true, beq_self_eq_true, true_and] at hp'
      have := prefix_alpha_cut kw (nc :: w') x r (hsk kw hkw) hx hp'
      rw [hw.noSkip kw hkw] at this
      exact absurd this (by simp)

/-- `{\word ` in normal mode only deepens the group level -/
theorem go_open (w : Str) (pr : Option Nat) (r : Str) (st : St) (out : List Ev) (hs : st.skip = false)
    (hw : WordOk T w) (hsk : ∀ kw ∈ T.skip, ∀ c ∈ kw, asciiAlpha c = true) :
    go T ('{' :: ctl w pr ++ r) 0 st out = go T r 0 { st with depth := st.depth + 1 } (wordOut T w out) := by
  have hx : ∃ x y, ctl w pr ++ r = '\\' :: (w ++ x :: y) ∧ asciiAlpha x = false := by
    cases pr with
    | none => exact ⟨' ', r, by simp [ctl], by decide⟩
    | some n =>
      obtain ⟨ds, hds, hlt, hne, _⟩ := natToDec_digits n
      cases ds with
      | nil => exact absurd rfl hne
      | cons d0 dr =>
        refine ⟨digitChar d0, dr.map digitChar ++ ' ' :: r, by simp [ctl, hds], ?_⟩
        have : ∀ d < 10, asciiAlpha (digitChar d) = false := by decide
        exact this d0 (hlt d0 (by simp))
  obtain ⟨x, y, hxy, hxa⟩ := hx
  have hhit := isSkipDest_word (T := T) w x y hw hxa hsk
  have hstep : go T ('{' :: ctl w pr ++ r) 0 st out = go T (ctl w pr ++ r) 0 { st with depth := st.depth + 1 } out := by
    rw [List.cons_append, hxy]
    simp only [go, if_true, hhit, Bool.false_eq_true, if_false]
  rw [hstep]
  exact go_ctl w pr r _ out hs hw.ne hw.alpha hw.notU

/-- an ignorable destination `{\*…}` with a brace-free body emits nothing and returns to normal mode -/
theorem go_star (body r : Str) (st : St) (out : List Ev) (hs : st.skip = false) (hb : noBrace body = true) :
    ∃ st', st'.skip = false ∧ go T ("{\\*".toList ++ body ++ '}' :: r) 0 st out = go T r 0 st' out := by
  refine ⟨{ depth := st.depth + 1 - 1, skip := false, skipDepth := st.depth + 1 }, rfl, ?_⟩
  have h1 : go T ("{\\*".toList ++ body ++ '}' :: r) 0 st out
      = go T ("\\*".toList ++ body ++ '}' :: r) 0 { depth := st.depth + 1, skip := true, skipDepth := st.depth + 1 } out := by
    simp [go, isSkipDest, List.take, List.isPrefixOf]
  rw [h1]
  have hb' : noBrace ("\\*".toList ++ body) = true := by
    simp only [noBrace, List.all_append, Bool.and_eq_true] at hb ⊢
    exact ⟨by decide, hb⟩
  have := go_skip_chars (T := T) ("\\*".toList ++ body) ('}' :: r)
    { depth := st.depth + 1, skip := true, skipDepth := st.depth + 1 } out rfl hb'
  rw [List.append_assoc] at this ⊢
  rw [this]
  simp [go]


/-! ### `\uN?` -/

theorem decFold_digits (ds : List Nat) (hlt : ∀ d ∈ ds, d < 10) (acc : Nat) :
    (ds.map digitChar).foldl (fun a c => a * 10 + (decVal T c).getD 0) acc = ds.foldl (fun a d => a * 10 + d) acc := by
  induction ds generalizing acc with
  | nil => rfl
  | cons d r ih =>
    simp only [List.map_cons, List.foldl_cons, (isAlpha_digit (T := T) d (hlt d (by simp))).2.2.1, Option.getD_some]
    exact ih (fun x hx => hlt x (by simp [hx])) _

theorem uniMatch_nat (n : Nat) (r : Str) :
    uniMatch T (natToDec n ++ '?' :: r) = some ((n : Int), (natToDec n).length + 1) := by
  obtain ⟨ds, hds, hlt, hne, hval⟩ := natToDec_digits n
  have hq : (decVal T '?').isSome = false := by simp [decVal, asciiDigit]
  have hall : ∀ c ∈ ds.map digitChar, (decVal T c).isSome = true := by
    intro c hc
    obtain ⟨d, hd, rfl⟩ := List.mem_map.mp hc
    simp [(isAlpha_digit (T := T) d (hlt d hd)).2.2.1]
  obtain ⟨t1, t2⟩ := takeWhile_append_stop (fun c => (decVal T c).isSome) (ds.map digitChar) '?' r hall hq
  cases ds with
  | nil => exact absurd rfl hne
  | cons d0 dr =>
    have hd0 := (isAlpha_digit (T := T) d0 (hlt d0 (by simp))).2.2.2.1
    rw [hds]
    have hneg : (((d0 :: dr).map digitChar ++ '?' :: r).head? == some '-') = false := by
      simp [hd0]
    unfold uniMatch
    simp only [hneg, Bool.false_eq_true, if_false, t1, t2]
    have hne' : (d0 :: dr).map digitChar ≠ [] := by simp
    simp only [hne', if_false, decFold, decFold_digits (T := T) (d0 :: dr) hlt 0, hval]
    simp

theorem uniMatch_neg (n : Nat) (r : Str) :
    uniMatch T ('-' :: natToDec n ++ '?' :: r) = some (-(n : Int), 1 + (natToDec n).length + 1) := by
  obtain ⟨ds, hds, hlt, hne, hval⟩ := natToDec_digits n
  have hq : (decVal T '?').isSome = false := by simp [decVal, asciiDigit]
  have hall : ∀ c ∈ ds.map digitChar, (decVal T c).isSome = true := by
    intro c hc
    obtain ⟨d, hd, rfl⟩ := List.mem_map.mp hc
    simp [(isAlpha_digit (T := T) d (hlt d hd)).2.2.1]
  obtain ⟨t1, t2⟩ := takeWhile_append_stop (fun c => (decVal T c).isSome) (ds.map digitChar) '?' r hall hq
  rw [hds]
  unfold uniMatch
  simp only [List.cons_append, List.head?_cons, beq_self_eq_true, if_true, List.drop_succ_cons, List.drop_zero, t1, t2]
  have hne' : ds.map digitChar ≠ [] := by simpa using hne
  simp only [hne', if_false, decFold, decFold_digits (T := T) ds hlt 0, hval]

theorem go_uni (v : Int) (r : Str) (st : St) (out : List Ev) (hs : st.skip = false) :
    go T ("\\u".toList ++ (intToDec v ++ '?' :: r)) 0 st out = go T r 0 st (emitUni v out) := by
  have key : ∀ (body : Str) (k : Nat), uniMatch T (body ++ '?' :: r) = some (v, k) → k = body.length + 1 →
      go T ('\\' :: 'u' :: (body ++ '?' :: r)) 0 st out = go T r 0 st (emitUni v out) := by
    intro body k hm hk
    have h1 : go T ('\\' :: 'u' :: (body ++ '?' :: r)) 0 st out
        = go T ('u' :: (body ++ '?' :: r)) (1 + k) st (emitUni v out) := by
      simp [go, hs, hm]
    rw [h1, hk]
    have := go_eat (T := T) ('u' :: body ++ ['?']) r st (emitUni v out)
    simp only [List.cons_append, List.append_assoc, List.singleton_append, List.length_cons, List.length_append,
      List.length_singleton, List.length_nil] at this
    have hl : 1 + (body.length + 1) = body.length + 1 + 1 := by omega
    rw [hl]; exact this
  unfold intToDec
  by_cases hv : v < 0
  · simp only [hv, if_true]
    have hm := uniMatch_neg (T := T) v.natAbs r
    have hvv : -(v.natAbs : Int) = v := by omega
    rw [hvv] at hm
    have := key ('-' :: natToDec v.natAbs) _ hm (by simp; omega)
    simpa using this
  · simp only [hv, if_false]
    have hm := uniMatch_nat (T := T) v.natAbs r
    have hvv : (v.natAbs : Int) = v := by omega
    rw [hvv] at hm
    have := key (natToDec v.natAbs) _ hm rfl
    simpa using this

theorem char_valid (c : Char) : c.toNat < 0xD800 ∨ (0xDFFF < c.toNat ∧ c.toNat < 0x110000) := c.valid

theorem go_uEsc (n : Nat) (r : Str) (st : St) (out : List Ev) (hs : st.skip = false) :
    go T (uEsc n ++ r) 0 st out = go T r 0 st (emitUni (if n < 0x8000 then (n : Int) else (n : Int) - 65536) out) := by
  have := go_uni (T := T) (if n < 0x8000 then (n : Int) else (n : Int) - 65536) r st out hs
  simpa [uEsc, List.append_assoc] using this

/-- `go_uEsc` for a 16-bit unit: the unit itself is emitted -/
theorem go_uEsc16 (n : Nat) (hn : n < 0x10000) (r : Str) (st : St) (out : List Ev) (hs : st.skip = false) :
    go T (uEsc n ++ r) 0 st out = go T r 0 st (.ch n :: out) := by
  rw [go_uEsc n r st out hs]
  unfold emitUni
  by_cases h : n < 0x8000
  · simp only [h, if_true]
    have hm : ((n : Int) % 65536).toNat = n := by omega
    rw [hm]
  · simp only [h, if_false]
    have hm : (((n : Int) - 65536) % 65536).toNat = n := by omega
    rw [hm]

/-- the UTF-16 units of a character (`str.encode("utf-16-le")`) -/
def unitsC (c : Char) : List Nat :=
  if c.toNat < 0x10000 then [c.toNat] else [0xD800 + (c.toNat - 0x10000) / 1024, 0xDC00 + (c.toNat - 0x10000) % 1024]

def codes (s : Str) : List Nat := s.map Char.toNat

/-- the 16-bit units the machine emits for a text -/
def units (s : Str) : List Nat := toUnits (codes s)

theorem toUnits_append (a b : List Nat) : toUnits (a ++ b) = toUnits a ++ toUnits b := by
  induction a with
  | nil => rfl
  | cons c a ih => simp [toUnits, ih]

theorem units_nil : units [] = [] := rfl
theorem units_cons (c : Char) (s : Str) : units (c :: s) = unitsC c ++ units s := rfl
theorem units_append (a b : Str) : units (a ++ b) = units a ++ units b := by
  simp [units, codes, toUnits_append]

def evsN (l : List Nat) : List Ev := (l.map Ev.ch).reverse

theorem evsN_append (a b : List Nat) : evsN (a ++ b) = evsN b ++ evsN a := by simp [evsN]

/-- every character of the text comes out as its UTF-16 units (a character beyond the BMP as its two halves) -/
theorem go_escChar (c : Char) (r : Str) (st : St) (out : List Ev) (hs : st.skip = false) :
    go T (escChar c ++ r) 0 st out = go T r 0 st (evsN (unitsC c) ++ out) := by
  unfold escChar unitsC
  by_cases h1 : c = '\\' ∨ c = '{' ∨ c = '}'
  · simp only [h1, if_true]
    have hlt : c.toNat < 0x10000 := by rcases h1 with h | h | h <;> (subst h; decide)
    simp only [hlt, if_true]
    exact go_esc c r st out hs h1
  · simp only [h1, if_false]
    by_cases h2 : 32 ≤ c.toNat ∧ c.toNat < 127
    · have hlt : c.toNat < 0x10000 := by omega
      simp only [h2, and_self, if_true, hlt]
      have hb : c ≠ '\\' ∧ c ≠ '{' ∧ c ≠ '}' := by
        refine ⟨fun h => h1 (Or.inl h), fun h => h1 (Or.inr (Or.inl h)), fun h => h1 (Or.inr (Or.inr h))⟩
      have hr : c ≠ '\r' := by intro h; subst h; simp at h2
      exact go_char c r st out hs hb.2.1 hb.2.2 hb.1 hr
    · simp only [h2, if_false]
      have hval := char_valid c
      by_cases h3 : c.toNat < 0x10000
      · simp only [h3, if_true]
        rw [go_uEsc16 _ h3 r st out hs]
        rfl
      · simp only [h3, if_false]
        have hc : c.toNat < 0x110000 := by omega
        rw [List.append_assoc, go_uEsc16 _ (by omega) _ st out hs, go_uEsc16 _ (by omega) r st _ hs]
        rfl

theorem go_escText (s r : Str) (st : St) (out : List Ev) (hs : st.skip = false) :
    go T (escText s ++ r) 0 st out = go T r 0 st (evsN (units s) ++ out) := by
  induction s generalizing out with
  | nil => rfl
  | cons c s ih =>
    simp only [escText, List.flatMap_cons, List.append_assoc] at ih ⊢
    rw [go_escChar c _ st out hs, ih, units_cons, evsN_append, List.append_assoc]


/-! ### composition -/

def chOf (l : List Ev) : List Nat := l.filterMap (fun e => match e with | .ch c => some c | .page => none)

theorem chOf_append (a b : List Ev) : chOf (a ++ b) = chOf a ++ chOf b := by simp [chOf, List.filterMap_append]

theorem chOf_evsN (l : List Nat) : chOf (evsN l).reverse = l := by
  simp only [evsN, List.reverse_reverse, chOf, List.filterMap_map]
  induction l with
  | nil => rfl
  | cons c s ih => simp [List.filterMap_cons, ih]

/-! ### `_combine_surrogates` on what the machine emits for a text -/

theorem isSurr_char (c : Char) : isSurr c.toNat = false := by
  have := char_valid c
  simp only [isSurr, isHigh, isLow, Bool.or_eq_false_iff, Bool.and_eq_false_iff, decide_eq_false_iff_not]
  omega

theorem decode16_cons_plain (a : Nat) (l : List Nat) (h : isSurr a = false) : decode16 (a :: l) = a :: decode16 l := by
  have hh : isHigh a = false := by
    simp only [isSurr, Bool.or_eq_false_iff] at h; exact h.1
  cases l with
  | nil => simp [decode16, h]
  | cons b r => simp [decode16, h, hh]

theorem decode16_units (s : Str) (l : List Nat) : decode16 (units s ++ l) = codes s ++ decode16 l := by
  induction s with
  | nil => rfl
  | cons c s ih =>
    rw [units_cons]
    unfold unitsC
    have hval := char_valid c
    by_cases h3 : c.toNat < 0x10000
    · simp only [h3, if_true, List.singleton_append, List.cons_append, List.nil_append]
      rw [decode16_cons_plain _ _ (isSurr_char c), ih]
      rfl
    · simp only [h3, if_false, List.cons_append, List.nil_append]
      have hc : c.toNat < 0x110000 := by omega
      have hh : isHigh (0xD800 + (c.toNat - 0x10000) / 1024) = true := by simp [isHigh]; omega
      have hl : isLow (0xDC00 + (c.toNat - 0x10000) % 1024) = true := by simp [isLow]; omega
      have heq : 0x10000 + (0xD800 + (c.toNat - 0x10000) / 1024 - 0xD800) * 1024
          + (0xDC00 + (c.toNat - 0x10000) % 1024 - 0xDC00) = c.toNat := by omega
      simp only [decode16, hh, hl, Bool.and_self, if_true, heq, ih]
      rfl

theorem toUnits_small (l : List Nat) (h : ∀ x ∈ l, x < 0x10000) : toUnits l = l := by
  induction l with
  | nil => rfl
  | cons a r ih =>
    have ha := h a (by simp)
    simp [toUnits, ha, ih (fun x hx => h x (by simp [hx]))]

theorem units_small (s : Str) : ∀ x ∈ units s, x < 0x10000 := by
  induction s with
  | nil => intro x hx; simp [units, codes, toUnits] at hx
  | cons c s ih =>
    intro x hx
    rw [units_cons, List.mem_append] at hx
    rcases hx with hx | hx
    · have hval := char_valid c
      unfold unitsC at hx
      by_cases h3 : c.toNat < 0x10000
      · simp only [h3, if_true, List.mem_singleton] at hx; omega
      · simp only [h3, if_false, List.mem_cons, List.not_mem_nil, or_false] at hx
        rcases hx with hx | hx <;> omega
    · exact ih x hx

theorem units_noSurr (s : Str) (h : (units s).any isSurr = false) : units s = codes s := by
  induction s with
  | nil => rfl
  | cons c s ih =>
    rw [units_cons, List.any_append, Bool.or_eq_false_iff] at h
    have hval := char_valid c
    by_cases h3 : c.toNat < 0x10000
    · rw [units_cons, ih h.2]
      simp [unitsC, h3, codes]
    · exfalso
      have h1 := h.1
      have hc : c.toNat < 0x110000 := by omega
      have hh : isHigh (0xD800 + (c.toNat - 0x10000) / 1024) = true := by simp [isHigh]; omega
      simp [unitsC, h3, isSurr, hh] at h1

/-- the units of a text (no unpaired halves) are combined back into exactly its characters -/
theorem combine_units (s : Str) : combineSurrogates (units s) = codes s := by
  unfold combineSurrogates
  by_cases h : (units s).any isSurr = true
  · rw [if_pos h, toUnits_small _ (units_small s)]
    simpa [decode16] using decode16_units s []
  · rw [if_neg h]
    exact units_noSurr s (by simpa using h)

/-- `seg`, read in normal mode, leaves the machine in normal mode having emitted exactly the characters `cs` -/
def Step (T : Tables) (seg : Str) (cs : List Nat) : Prop :=
  ∀ r st out, st.skip = false →
    ∃ st' pre, st'.skip = false ∧ go T (seg ++ r) 0 st out = go T r 0 st' (pre ++ out) ∧ chOf pre.reverse = cs

theorem Step.nil : Step T [] [] := fun _ st out hs => ⟨st, [], hs, rfl, rfl⟩

theorem Step.append {a b : Str} {c1 c2 : List Nat} (h1 : Step T a c1) (h2 : Step T b c2) : Step T (a ++ b) (c1 ++ c2) := by
  intro r st out hs
  obtain ⟨st1, pre1, hs1, e1, k1⟩ := h1 (b ++ r) st out hs
  obtain ⟨st2, pre2, hs2, e2, k2⟩ := h2 r st1 (pre1 ++ out) hs1
  refine ⟨st2, pre2 ++ pre1, hs2, ?_, ?_⟩
  · rw [List.append_assoc, e1, e2, List.append_assoc]
  · rw [List.reverse_append, chOf_append, k1, k2]

theorem step_text (s : Str) : Step T (escText s) (units s) :=
  fun r st out hs => ⟨st, evsN (units s), hs, go_escText s r st out hs, chOf_evsN _⟩

/-- a word that is neither a page break nor in `SPECIAL_CHARS` -/
def wordSilent (T : Tables) (w : Str) : Bool :=
  !w.isEmpty && w.all asciiAlpha && w.head? != some 'u' && T.skip.all (fun kw => !kw.isPrefixOf w)
    && (lookup w T.special).isNone && !pageWords.contains w

theorem wordSilent_ok {w : Str} (h : wordSilent T w = true) :
    WordOk T w ∧ ∀ out, wordOut T w out = out := by
  simp only [wordSilent, Bool.and_eq_true, Bool.not_eq_true', List.all_eq_true, bne_iff_ne, ne_eq,
    Option.isNone_iff_eq_none] at h
  obtain ⟨⟨⟨⟨⟨h1, h2⟩, h3⟩, h4⟩, h5⟩, h6⟩ := h
  refine ⟨⟨by simpa using h1, h2, h3, fun kw hkw => by simpa using h4 kw hkw⟩, ?_⟩
  intro out
  have h6' : w ∉ pageWords := by simpa using h6
  simp [wordOut, h6', h5]

theorem step_ctl_silent {w : Str} (pr : Option Nat) (h : wordSilent T w = true) : Step T (ctl w pr) [] := by
  obtain ⟨hw, ho⟩ := wordSilent_ok h
  intro r st out hs
  exact ⟨st, [], hs, by rw [go_ctl w pr r st out hs hw.ne hw.alpha hw.notU, ho]; rfl, rfl⟩

theorem step_ctl_special {w s : Str} (pr : Option Nat) (hne : w ≠ []) (ha : ∀ c ∈ w, asciiAlpha c = true)
    (hu : w.head? ≠ some 'u') (hp : w ∉ pageWords) (hl : lookup w T.special = some s) :
    Step T (ctl w pr) (codes s) := by
  intro r st out hs
  refine ⟨st, evsN (codes s), hs, ?_, chOf_evsN _⟩
  rw [go_ctl w pr r st out hs hne ha hu]
  simp [wordOut, hp, hl, evsN, codes, Function.comp_def]

theorem step_ctl_page {w : Str} (pr : Option Nat) (hne : w ≠ []) (ha : ∀ c ∈ w, asciiAlpha c = true)
    (hu : w.head? ≠ some 'u') (hp : w ∈ pageWords) : Step T (ctl w pr) [] := by
  intro r st out hs
  refine ⟨st, [.page], hs, ?_, rfl⟩
  rw [go_ctl w pr r st out hs hne ha hu]
  simp [wordOut, hp]

theorem step_open {w : Str} (pr : Option Nat) (h : wordSilent T w = true)
    (hsk : ∀ kw ∈ T.skip, ∀ c ∈ kw, asciiAlpha c = true) : Step T ('{' :: ctl w pr) [] := by
  obtain ⟨hw, ho⟩ := wordSilent_ok h
  intro r st out hs
  exact ⟨{ st with depth := st.depth + 1 }, [], hs, by
    rw [go_open w pr r st out hs hw hsk, ho]; rfl, rfl⟩

theorem step_close : Step T ['}'] [] :=
  fun r st out hs => ⟨{ st with depth := st.depth - 1 }, [], hs, by simpa using go_close r st out hs, rfl⟩

theorem step_star (body : Str) (hb : noBrace body = true) : Step T ("{\\*".toList ++ body ++ ['}']) [] := by
  intro r st out hs
  obtain ⟨st', hs', e⟩ := go_star (T := T) body r st out hs hb
  exact ⟨st', [], hs', by simpa [List.append_assoc] using e, rfl⟩

/-! ### brace-free strings -/

theorem noBrace_append (a b : Str) : noBrace (a ++ b) = (noBrace a && noBrace b) := by
  simp [noBrace, List.all_append]

theorem noBrace_natToDec (n : Nat) : noBrace (natToDec n) = true := by
  obtain ⟨ds, hds, hlt, _, _⟩ := natToDec_digits n
  rw [hds]
  simp only [noBrace, List.all_map, List.all_eq_true]
  intro d hd
  have : ∀ d < 10, (digitChar d != '{' && digitChar d != '}') = true := by decide
  exact this d (hlt d hd)

theorem noBrace_ctl (w : Str) (pr : Option Nat) (hw : noBrace w = true) : noBrace (ctl w pr) = true := by
  have e : ctl w pr = ['\\'] ++ w ++ parStr pr ++ [' '] := by cases pr <;> simp [ctl, parStr]
  have hp : noBrace (parStr pr) = true := by
    cases pr with
    | none => rfl
    | some n => exact noBrace_natToDec n
  rw [e, noBrace_append, noBrace_append, noBrace_append, hw, hp]
  decide

theorem alpha_noBrace (w : Str) (ha : ∀ c ∈ w, asciiAlpha c = true) : noBrace w = true := by
  simp only [noBrace, List.all_eq_true]
  intro c hc
  have := ha c hc
  have h1 : c ≠ '{' := by intro h; subst h; revert this; decide
  have h2 : c ≠ '}' := by intro h; subst h; revert this; decide
  simp [h1, h2]

theorem noBrace_intToDec (v : Int) : noBrace (intToDec v) = true := by
  unfold intToDec
  split
  · have := noBrace_natToDec v.natAbs
    simp only [noBrace, List.all_cons, Bool.and_eq_true] at this ⊢
    exact ⟨by decide, this⟩
  · exact noBrace_natToDec _

theorem noBrace_uEsc (n : Nat) : noBrace (uEsc n) = true := by
  unfold uEsc
  rw [noBrace_append, noBrace_append, noBrace_intToDec]; decide

theorem noBrace_escChar (c : Char) (h1 : c ≠ '{') (h2 : c ≠ '}') : noBrace (escChar c) = true := by
  unfold escChar
  split
  · rename_i hc
    rcases hc with hc | hc | hc
    · subst hc; decide
    · exact absurd hc h1
    · exact absurd hc h2
  · split
    · simp [noBrace, h1, h2]
    · split
      · exact noBrace_uEsc _
      · rw [noBrace_append, noBrace_uEsc, noBrace_uEsc]; rfl

theorem noBrace_escText (s : Str) (h : noBrace s = true) : noBrace (escText s) = true := by
  induction s with
  | nil => rfl
  | cons c s ih =>
    simp only [noBrace, List.all_cons, Bool.and_eq_true, bne_iff_ne, ne_eq] at h
    have ih' := ih (by simpa [noBrace] using h.2)
    have : escText (c :: s) = escChar c ++ escText s := by simp [escText]
    rw [this, noBrace_append, noBrace_escChar c h.1.1 h.1.2, ih']; rfl

/-! ### skipped destinations with nested plain groups -/

/-- `inner`, read in skip mode at or below the skipped group's level, changes nothing -/
def Inert (T : Tables) (inner : Str) : Prop :=
  ∀ rest st out, st.skip = true → st.skipDepth ≤ st.depth → go T (inner ++ rest) 0 st out = go T rest 0 st out

theorem inert_chars (s : Str) (hb : noBrace s = true) : Inert T s :=
  fun rest st out hs _ => go_skip_chars s rest st out hs hb

theorem Inert.append {a b : Str} (h1 : Inert T a) (h2 : Inert T b) : Inert T (a ++ b) := by
  intro rest st out hs hd
  rw [List.append_assoc, h1 _ st out hs hd, h2 _ st out hs hd]

theorem inert_nil : Inert T [] := fun _ _ _ _ _ => rfl

/-- a nested plain group inside a skipped destination -/
theorem inert_group {w : Str} (pr : Option Nat) (body : Str) (hw : WordOk T w) (hb : noBrace body = true)
    (hsk : ∀ kw ∈ T.skip, ∀ c ∈ kw, asciiAlpha c = true) : Inert T ('{' :: ctl w pr ++ body ++ ['}']) := by
  intro rest st out hs hd
  have hx : ∃ x y, ctl w pr ++ (body ++ '}' :: rest) = '\\' :: (w ++ x :: y) ∧ asciiAlpha x = false := by
    cases pr with
    | none => exact ⟨' ', body ++ '}' :: rest, by simp [ctl], by decide⟩
    | some n =>
      obtain ⟨ds, hds, hlt, hne, _⟩ := natToDec_digits n
      cases ds with
      | nil => exact absurd rfl hne
      | cons d0 dr =>
        refine ⟨digitChar d0, dr.map digitChar ++ ' ' :: (body ++ '}' :: rest), by simp [ctl, hds], ?_⟩
        have : ∀ d < 10, asciiAlpha (digitChar d) = false := by decide
        exact this d0 (hlt d0 (by simp))
  obtain ⟨x, y, hxy, hxa⟩ := hx
  have hhit := isSkipDest_word (T := T) w x y hw hxa hsk
  have e0 : ('{' :: ctl w pr ++ body ++ ['}']) ++ rest = '{' :: (ctl w pr ++ (body ++ '}' :: rest)) := by simp
  have e1 : go T ('{' :: (ctl w pr ++ (body ++ '}' :: rest))) 0 st out
      = go T (ctl w pr ++ (body ++ '}' :: rest)) 0 { st with depth := st.depth + 1 } out := by
    rw [hxy]
    simp only [go, if_true, hhit, Bool.false_eq_true, if_false]
  have hcb : noBrace (ctl w pr ++ body) = true := by
    rw [noBrace_append, noBrace_ctl w pr (alpha_noBrace w hw.alpha), hb]; rfl
  have e2 := go_skip_chars (T := T) (ctl w pr ++ body) ('}' :: rest) { st with depth := st.depth + 1 } out hs hcb
  rw [e0, e1, ← List.append_assoc, e2]
  have hne : (st.depth + 1 == st.skipDepth) = false := by
    simp only [beq_eq_false_iff_ne, ne_eq]; omega
  have hst : ({ depth := st.depth, skip := true, skipDepth := st.skipDepth } : St) = st := by
    cases st with
    | mk d sk sd =>
      simp only at hs
      simp [hs]
  simp [go, hs, hne]
  rw [hst]

theorem isPrefixOf_take_self {α} [DecidableEq α] (a x : List α) (n : Nat) (h : a.length ≤ n) :
    a.isPrefixOf ((a ++ x).take n) = true := by
  induction a generalizing n with
  | nil => simp
  | cons c a ih =>
    cases n with
    | zero => simp at h
    | succ m =>
      simp only [List.cons_append, List.take_succ_cons, List.isPrefixOf, beq_self_eq_true, Bool.true_and]
      exact ih m (by simpa using h)

/-- a skipped destination `{\kw inner}` whose content is inert -/
theorem step_skipgroup {kw inner : Str} (hk : kw ∈ T.skip) (hka : ∀ c ∈ kw, asciiAlpha c = true)
    (hlen : kw.length ≤ 28) (hi : Inert T inner) : Step T ('{' :: ctl kw none ++ inner ++ ['}']) [] := by
  intro r st out hs
  refine ⟨{ depth := st.depth + 1 - 1, skip := false, skipDepth := st.depth + 1 }, [], rfl, ?_, rfl⟩
  have e0 : ('{' :: ctl kw none ++ inner ++ ['}']) ++ r = '{' :: (ctl kw none ++ (inner ++ '}' :: r)) := by simp
  have hctl : ctl kw none ++ (inner ++ '}' :: r) = ('\\' :: kw) ++ (' ' :: (inner ++ '}' :: r)) := by simp [ctl]
  have hhit : isSkipDest T ((('\\' :: kw) ++ (' ' :: (inner ++ '}' :: r))).take 29) = true := by
    simp only [isSkipDest, Bool.or_eq_true, List.any_eq_true]
    exact Or.inr ⟨kw, hk, isPrefixOf_take_self _ _ 29 (by simp; omega)⟩
  have e1 : go T ('{' :: (ctl kw none ++ (inner ++ '}' :: r))) 0 st out
      = go T (ctl kw none ++ (inner ++ '}' :: r)) 0
          { depth := st.depth + 1, skip := true, skipDepth := st.depth + 1 } out := by
    rw [hctl]
    simp only [List.cons_append] at hhit ⊢
    simp only [go, if_true, hhit]
  have e2 := go_skip_chars (T := T) (ctl kw none) (inner ++ '}' :: r)
    { depth := st.depth + 1, skip := true, skipDepth := st.depth + 1 } out rfl
    (noBrace_ctl kw none (alpha_noBrace kw hka))
  have e3 := hi ('}' :: r) { depth := st.depth + 1, skip := true, skipDepth := st.depth + 1 } out rfl (Int.le_refl _)
  rw [e0, e1, e2, e3]
  simp [go]


/-! ### rendered documents -/

theorem Step.cast {a b : Str} {c1 c2 : List Nat} (h : Step T a c1) (ha : a = b) (hc : c1 = c2) : Step T b c2 := by
  subst ha; subst hc; exact h

theorem codes_append (a b : Str) : codes (a ++ b) = codes a ++ codes b := by simp [codes]

theorem Step.flatMap {α} (f : α → Str) (g : α → List Nat) (l : List α) (h : ∀ x ∈ l, Step T (f x) (g x)) :
    Step T (l.flatMap f) (l.flatMap g) := by
  induction l with
  | nil => exact Step.nil
  | cons x r ih =>
    simp only [List.flatMap_cons]
    exact Step.append (h x (by simp)) (ih (fun y hy => h y (by simp [hy])))

theorem Inert.flatMap {α} (f : α → Str) (l : List α) (h : ∀ x ∈ l, Inert T (f x)) : Inert T (l.flatMap f) := by
  induction l with
  | nil => exact inert_nil
  | cons x r ih =>
    simp only [List.flatMap_cons]
    exact Inert.append (h x (by simp)) (ih (fun y hy => h y (by simp [hy])))

def specialIs (T : Tables) (w s : String) : Bool := lookup w.toList T.special == some s.toList

/-- what the RTF theorems need from `SKIP_DESTINATIONS` / `SPECIAL_CHARS` / the whitespace table (decidable) -/
def RtfTablesOk (T : Tables) : Bool :=
  T.skip.all (fun kw => kw.all asciiAlpha && decide (kw.length ≤ 28))
    && ["fonttbl", "info", "header", "footer", "pict"].all (fun w => T.skip.contains w.toList)
    && specialIs T "par" "\n" && specialIs T "line" "\n" && specialIs T "tab" "\t"
    && specialIs T "cell" "\t" && specialIs T "row" "\n"
    && ["rtf", "ansi", "deff", "pard", "plain", "f", "title"].all (fun w => wordSilent T w.toList)
    && [9, 10, 32].all T.ws.contains

structure RtfOk (T : Tables) : Prop where
  skAlpha : ∀ kw ∈ T.skip, ∀ c ∈ kw, asciiAlpha c = true
  skLen : ∀ kw ∈ T.skip, kw.length ≤ 28
  hasSkip : ∀ w ∈ ["fonttbl", "info", "header", "footer", "pict"], w.toList ∈ T.skip
  par : lookup "par".toList T.special = some ['\n']
  line : lookup "line".toList T.special = some ['\n']
  tab : lookup "tab".toList T.special = some ['\t']
  cell : lookup "cell".toList T.special = some ['\t']
  row : lookup "row".toList T.special = some ['\n']
  silent : ∀ w ∈ ["rtf", "ansi", "deff", "pard", "plain", "f", "title"], wordSilent T w.toList = true
  nl : isWsN T 10 = true

theorem rtfOk_of (h : RtfTablesOk T = true) : RtfOk T := by
  simp only [RtfTablesOk, Bool.and_eq_true, specialIs, beq_iff_eq, List.all_eq_true, decide_eq_true_eq] at h
  obtain ⟨⟨⟨⟨⟨⟨⟨⟨h1, h2⟩, h3⟩, h4⟩, h5⟩, h6⟩, h7⟩, h8⟩, h9⟩ := h
  refine ⟨fun kw hk => (h1 kw hk).1, fun kw hk => (h1 kw hk).2, ?_, h3, h4, h5, h6, h7, h8, ?_⟩
  · intro w hw
    have := h2 w hw
    simpa using this
  · have := h9 10 (by simp)
    simpa [isWsN] using this

mutual
def inlOk (T : Tables) : RInl → Bool
  | .text s => noBrace s
  | .fmt w _ => wordSilent T w
  | .group w _ ks => wordSilent T w && inlsOk T ks
  | .dest w body => noBrace w && noBrace body
  | .pict hex => noBrace hex
  | _ => true
def inlsOk (T : Tables) : List RInl → Bool
  | [] => true
  | i :: r => inlOk T i && inlsOk T r
end

/-- the documents the RTF theorems speak about: formatting / group words are ordinary formatting words (not starting
    with `u`: open finding rtf.u-prefixed-control-word-leak), and no text contains a brace (open finding
    rtf.escaped-brace-breaks-destination-removal) -/
def docOk (T : Tables) (d : RDoc) : Bool :=
  d.fonts.all noBrace && noBrace d.title && (d.header.map noBrace).getD true && (d.footer.map noBrace).getD true
    && d.paras.all (fun pp => inlsOk T pp.kids)

section doc
variable (hT : RtfOk T)
include hT

theorem step_special (w s : String) (pr : Option Nat) (hl : lookup w.toList T.special = some s.toList)
    (hw : (!w.toList.isEmpty && w.toList.all asciiAlpha && w.toList.head? != some 'u' && !pageWords.contains w.toList) = true) :
    Step T (ctl w.toList pr) (codes s.toList) := by
  simp only [Bool.and_eq_true, Bool.not_eq_true', List.all_eq_true, bne_iff_ne, ne_eq] at hw
  obtain ⟨⟨⟨h1, h2⟩, h3⟩, h4⟩ := hw
  exact step_ctl_special pr (by simpa using h1) h2 h3 (by simpa using h4) hl

mutual
theorem step_rR (i : RInl) (hi : inlOk T i = true) : Step T (rR i) (units (rVisible i)) := by
  cases i with
  | text s => exact step_text s
  | tab => exact (step_special hT "tab" "\t" none hT.tab (by decide)).cast rfl (by decide)
  | line => exact (step_special hT "line" "\n" none hT.line (by decide)).cast rfl (by decide)
  | cell => exact (step_special hT "cell" "\t" none hT.cell (by decide)).cast rfl (by decide)
  | row => exact (step_special hT "row" "\n" none hT.row (by decide)).cast rfl (by decide)
  | fmt w pr => exact step_ctl_silent pr (by simpa [inlOk] using hi)
  | group w pr ks =>
    simp only [inlOk, Bool.and_eq_true] at hi
    have h1 := step_open (T := T) pr hi.1 hT.skAlpha
    have h2 := step_rRs ks hi.2
    exact (Step.append h1 (Step.append h2 step_close)).cast (by simp [rR]) (by simp [rVisible])
  | dest w body =>
    simp only [inlOk, Bool.and_eq_true] at hi
    have hb : noBrace (ctl w none ++ escText body) = true := by
      rw [noBrace_append, noBrace_ctl w none hi.1, noBrace_escText body hi.2]; rfl
    exact (step_star (T := T) _ hb).cast (by simp [rR, List.append_assoc]) (by simp [rVisible, units_nil])
  | pict hex =>
    have hk := hT.hasSkip "pict" (by simp)
    exact (step_skipgroup (T := T) hk (hT.skAlpha _ hk) (hT.skLen _ hk)
      (inert_chars hex (by simpa [inlOk] using hi))).cast (by simp [rR]) (by simp [rVisible, units_nil])
theorem step_rRs (ks : List RInl) (hk : inlsOk T ks = true) : Step T (rRs ks) (units (rVisibleL ks)) := by
  cases ks with
  | nil => exact Step.nil
  | cons i r =>
    simp only [inlsOk, Bool.and_eq_true] at hk
    exact (Step.append (step_rR i hk.1) (step_rRs r hk.2)).cast (by simp [rRs]) (by simp [rVisibleL, units_append])
end

theorem step_silent (w : String) (pr : Option Nat) (hw : w ∈ ["rtf", "ansi", "deff", "pard", "plain", "f", "title"]) :
    Step T (ctl w.toList pr) [] := step_ctl_silent pr (hT.silent w hw)

theorem step_rPara (pp : RPara) (hp : inlsOk T pp.kids = true) :
    Step T (rPara pp) (units (rVisibleL pp.kids) ++ [10]) := by
  have h1 := step_silent hT "pard" none (by simp)
  have h2 := step_silent hT "plain" none (by simp)
  have h3 := step_rRs hT pp.kids hp
  have h4 := step_special hT "par" "\n" none hT.par (by decide)
  have h5 : Step T (if pp.pageBreakAfter then ctl "page".toList none else []) [] := by
    split
    · exact step_ctl_page none (by decide) (by decide) (by decide) (by decide)
    · exact Step.nil
  exact (Step.append (Step.append (Step.append (Step.append h1 h2) h3) h4) h5).cast (by simp [rPara])
    (by simp [codes])

theorem inert_rFont (ni : Str × Nat) (hn : noBrace ni.1 = true) : Inert T (rFont ni) := by
  have hw := (wordSilent_ok (hT.silent "f" (by simp))).1
  have hb : noBrace (escText ni.1 ++ [';']) = true := by
    rw [noBrace_append, noBrace_escText _ hn]; rfl
  have := inert_group (T := T) (some ni.2) (escText ni.1 ++ [';']) hw hb hT.skAlpha
  have e : rFont ni = '{' :: ctl "f".toList (some ni.2) ++ (escText ni.1 ++ [';']) ++ ['}'] := by
    simp [rFont, List.append_assoc]
  rw [e]; exact this

theorem step_rHdr (w : String) (hw : w ∈ ["fonttbl", "info", "header", "footer", "pict"]) (o : Option Str)
    (ho : (o.map noBrace).getD true = true) : Step T (rHdr w o) [] := by
  cases o with
  | none => exact Step.nil
  | some s =>
    have hk := hT.hasSkip w hw
    have := step_skipgroup (T := T) hk (hT.skAlpha _ hk) (hT.skLen _ hk)
      (inert_chars (escText s) (noBrace_escText s (by simpa using ho)))
    exact this.cast (by simp [rHdr]) rfl

omit hT in
theorem mem_zipIdx_fst {α} (l : List α) (n : Nat) (x : α × Nat) (h : x ∈ l.zipIdx n) : x.1 ∈ l := by
  induction l generalizing n with
  | nil => simp at h
  | cons a r ih =>
    simp only [List.zipIdx_cons, List.mem_cons] at h
    rcases h with h | h
    · simp [h]
    · exact List.mem_cons_of_mem _ (ih _ h)

theorem step_prologue (d : RDoc) (hd : docOk T d = true) : Step T (prologue d) [] := by
  simp only [docOk, Bool.and_eq_true, List.all_eq_true] at hd
  obtain ⟨⟨⟨⟨hf, ht⟩, hh⟩, hfo⟩, _⟩ := hd
  have s1 := step_open (T := T) (some 1) (hT.silent "rtf" (by simp)) hT.skAlpha
  have s2 := step_silent hT "ansi" none (by simp)
  have s3 := step_silent hT "deff" (some 0) (by simp)
  have kf := hT.hasSkip "fonttbl" (by simp)
  have s4 := step_skipgroup (T := T) kf (hT.skAlpha _ kf) (hT.skLen _ kf)
    (Inert.flatMap rFont d.fonts.zipIdx (fun ni hni => inert_rFont hT ni (hf _ (mem_zipIdx_fst _ _ _ hni))))
  have ki := hT.hasSkip "info" (by simp)
  have hwt := (wordSilent_ok (hT.silent "title" (by simp))).1
  have s5 := step_skipgroup (T := T) ki (hT.skAlpha _ ki) (hT.skLen _ ki)
    (inert_group (T := T) none (escText d.title) hwt (noBrace_escText _ ht) hT.skAlpha)
  have s6 := step_rHdr hT "header" (by simp) d.header hh
  have s7 := step_rHdr hT "footer" (by simp) d.footer hfo
  exact (Step.append (Step.append (Step.append (Step.append (Step.append (Step.append s1 s2) s3) s4) s5) s6) s7).cast
    (by simp [prologue, List.append_assoc]) rfl

/-- the machine on a rendered document emits exactly the paragraphs' visible characters, each paragraph followed by
    a newline -/
theorem step_renderRtf (d : RDoc) (hd : docOk T d = true) :
    Step T (renderRtf d) (d.paras.flatMap (fun pp => units (rVisibleL pp.kids) ++ [10])) := by
  have hp : ∀ pp ∈ d.paras, inlsOk T pp.kids = true := by
    simp only [docOk, Bool.and_eq_true, List.all_eq_true] at hd
    exact hd.2
  have s1 := step_prologue hT d hd
  have s2 := Step.flatMap (T := T) rPara (fun pp => units (rVisibleL pp.kids) ++ [10]) d.paras
    (fun pp hpp => step_rPara hT pp (hp pp hpp))
  exact (Step.append (Step.append s1 s2) step_close).cast (by simp [renderRtf]) (by simp)

/-- what the machine emits for a rendered document: the UTF-16 units of the paragraphs' visible characters, each
    paragraph followed by a newline -/
theorem rawResult_renderRtf (d : RDoc) (hd : docOk T d = true) :
    rawResult T (renderRtf d) = units (d.paras.flatMap (fun pp => rVisibleL pp.kids ++ ['\n'])) := by
  obtain ⟨st', pre, _, e, k⟩ := step_renderRtf hT d hd [] {} [] rfl
  simp only [List.append_nil] at e
  unfold rawResult events
  rw [e]
  simp only [go]
  change chOf pre.reverse = _
  rw [k]
  induction d.paras with
  | nil => rfl
  | cons a r ih =>
    simp only [List.flatMap_cons, units_append, ih, List.append_assoc]
    rfl

theorem result_renderRtf (d : RDoc) (hd : docOk T d = true) :
    result T (renderRtf d) = d.paras.flatMap (fun pp => codes (rVisibleL pp.kids) ++ [10]) := by
  unfold result
  rw [rawResult_renderRtf hT d hd, combine_units]
  induction d.paras with
  | nil => rfl
  | cons a r ih =>
    simp only [List.flatMap_cons, codes_append, ih, List.append_assoc]
    rfl

end doc

/-! ### from the machine's result to `full_text` -/

theorem tokens_map {α β} (f : α → β) (p : α → Bool) (q : β → Bool) (h : ∀ a, q (f a) = p a) (s : List α) :
    tokens q (s.map f) = (tokens p s).map (List.map f) := by
  have key : ∀ s : List α, toks q (s.map f) = ((toks p s).1.map f, (toks p s).2.map (List.map f)) := by
    intro s
    induction s with
    | nil => rfl
    | cons c r ih =>
      simp only [List.map_cons, toks, ih, h]
      by_cases hc : p c = true
      · by_cases he : (toks p r).1 = [] <;> simp [hc, he]
      · simp [hc]
  unfold tokens glue
  rw [key]
  by_cases he : (toks p s).1 = [] <;> simp [he]

/-- `full_text` (stripped non-empty lines joined by newlines) has the token sequence of the machine's result -/
theorem tokens_fullTextOf (hn : isWsN T 10 = true) (res : List Nat) :
    tokens (isWsN T) (fullTextOf T res) = tokens (isWsN T) res := by
  unfold fullTextOf
  rw [tokens_join (by simp [hn]) (by simp)]
  have h1 : ∀ l : List (List Nat), ((l.map (strip (isWsN T))).filter (· ≠ [])).flatMap (tokens (isWsN T))
      = l.flatMap (tokens (isWsN T)) := by
    intro l
    induction l with
    | nil => rfl
    | cons a r ih =>
      simp only [List.map_cons, List.flatMap_cons]
      by_cases ha : strip (isWsN T) a = []
      · have : tokens (isWsN T) a = [] := by rw [← tokens_strip, ha]; rfl
        rw [List.filter_cons_of_neg (by simp [ha]), ih, this]; rfl
      · rw [List.filter_cons_of_pos (by simp [ha]), List.flatMap_cons, ih, tokens_strip]
  rw [h1]
  conv => rhs; rw [← join_splitOn 10 res]
  exact (tokens_join (by simp [hn]) (by simp) _).symm

end S2T.Rtf
