import S2T.Lemmas.OmmlGood
/-! C19 balance: every element's transformer is `Good` when the tree has no literal braces. -/
namespace S2T.Omml

theorem noBracesL_iff (ks : List Xml) : noBracesL ks = true ↔ ∀ c ∈ ks, noBraces c = true := by
  induction ks with
  | nil => simp [noBracesL]
  | cons k ks ih => simp [noBracesL, ih]

theorem noBraces_node (m : Bool) (n : Str) (v : Option Str) (t : Str) (ks : List Xml) :
    noBraces (.node m n v t ks) = true ↔
      NoBrS t ∧ (∀ v', v = some v' → NoBrS v') ∧ ∀ c ∈ ks, noBraces c = true := by
  simp only [noBraces, Bool.and_eq_true, noBracesL_iff, braceFree_iff]
  constructor
  · rintro ⟨⟨h1, h2⟩, h3⟩
    refine ⟨h1, ?_, h3⟩
    intro v' hv; subst hv; exact (braceFree_iff _).mp h2
  · rintro ⟨h1, h2, h3⟩
    refine ⟨⟨h1, ?_⟩, h3⟩
    cases v with
    | none => rfl
    | some v' => exact (braceFree_iff _).mpr (h2 v' rfl)

theorem noBraces_val {x : Xml} (h : noBraces x = true) (v : Str) (hv : x.val = some v) : NoBrS v := by
  cases x with
  | node m n v0 t ks => exact ((noBraces_node m n v0 t ks).mp h).2.1 v hv

theorem noBraces_kids {x : Xml} (h : noBraces x = true) : ∀ c ∈ x.kids, noBraces c = true := by
  cases x with
  | node m n v0 t ks => exact ((noBraces_node m n v0 t ks).mp h).2.2

theorem attrOr_nobr {d : Str} (hd : NoBrS d) (a b : Str) {ks : List Xml}
    (hk : ∀ c ∈ ks, noBraces c = true) : NoBrS (attrOr d (pathFind a b ks)) := by
  unfold attrOr
  cases hf : pathFind a b ks with
  | none => exact hd
  | some x =>
    simp only
    have hx : noBraces x = true := by
      unfold pathFind at hf
      have hm := List.mem_of_find?_eq_some hf
      simp only [List.mem_flatMap, List.mem_filter] at hm
      obtain ⟨k, ⟨hk1, _⟩, hxk⟩ := hm
      exact noBraces_kids (hk k hk1) x hxk
    cases hv : x.val with
    | none => exact hd
    | some v => exact noBraces_val hx v hv

theorem good_opndX {T : Tables} (n : Str) {ks : List Xml} (hk : ∀ c ∈ ks, Good T (proc T c)) :
    Good T (opndX T n ks) := by
  unfold opndX
  cases hf : ks.find? (isTag n) with
  | none => exact good_ret_nil T
  | some c => exact hk c (List.mem_of_find?_eq_some hf)

/-- **every element**: with well-formed tables and no literal braces below `x`, `process_element(x)` keeps
    the pending stack safe, reads as balanced relative to the pending radicals, and has `#{ ≤ #} + #\`. -/
theorem proc_good {T : Tables} (h : TOk T) :
    ∀ x, noBraces x = true → Good T (proc T x) ∧ ∀ c ∈ x.kids, Good T (proc T c) := by
  apply Xml.ind
  intro m n v t ks ih hnb
  obtain ⟨ht, _, hks⟩ := (noBraces_node m n v t ks).mp hnb
  have hk : ∀ c ∈ ks, Good T (proc T c) := fun c hc => (ih c hc (hks c hc)).1
  refine ⟨?_, hk⟩
  rw [proc_node]
  unfold procNode
  simp only [opnd_infos, filter_infos, List.map_map]
  split
  · exact good_ret_nil T
  · exact good_text h t ht
  · exact good_frac (good_opndX _ hk) (good_opndX _ hk)
  · exact good_sup (good_opndX _ hk) (good_opndX _ hk)
  · exact good_sub (good_opndX _ hk) (good_opndX _ hk)
  · exact good_subsup (good_opndX _ hk) (good_opndX _ hk) (good_opndX _ hk)
  · exact good_rad h (good_opndX _ hk) (good_opndX _ hk)
  · exact good_nary h (attrOr_nobr nobr_d_nary _ _ hks) (good_opndX _ hk) (good_opndX _ hk) (good_opndX _ hk)
  · apply good_delim (attrOr_nobr nobr_d_beg _ _ hks) (attrOr_nobr nobr_d_end _ _ hks)
    intro f hf
    obtain ⟨c, hc, rfl⟩ := List.mem_map.mp hf
    exact hk c (List.mem_filter.mp hc).1
  · apply good_matrix
    intro row hrow f hf
    obtain ⟨r, hr, rfl⟩ := List.mem_map.mp hrow
    have hr' := (List.mem_filter.mp hr).1
    simp only [Function.comp_apply, info_cells] at hf
    obtain ⟨c, hc, rfl⟩ := List.mem_map.mp hf
    exact (ih r hr' (hks r hr')).2 c (List.mem_filter.mp hc).1
  · exact good_func h (good_opndX _ hk) (good_opndX _ hk)
  · exact good_bar (good_opndX _ hk)
  · exact good_acc h _ (good_opndX _ hk)
  · apply good_default
    intro f hf
    obtain ⟨c, hc, rfl⟩ := List.mem_map.mp hf
    exact hk c hc

theorem bal_replicate (n : Nat) : Bal (lit (List.replicate n '}')) n 0 := by
  induction n with
  | zero => exact Bal_nil 0
  | succ n ih =>
    have : lit (List.replicate (n + 1) '}') = [('}', false)] ++ lit (List.replicate n '}') := by
      simp [lit, List.replicate_succ]
    rw [this]
    exact Bal_append (Bal_close false n) ih

/-- the whole conversion of a tree without literal braces reads as balanced -/
theorem omml_balanced {T : Tables} (h : TOk T) (root : Xml) (hnb : noBracesL root.kids = true) :
    balanced (omml T root) = true := by
  have hk : ∀ f ∈ (infos T root.kids).map (·.run), Good T f := by
    intro f hf
    rw [infos_eq_map] at hf
    simp only [List.map_map, List.mem_map, Function.comp_apply, info_run] at hf
    obtain ⟨c, hc, rfl⟩ := hf
    exact (proc_good h c ((noBracesL_iff _).mp hnb c hc)).1
  obtain ⟨_, r2, r3⟩ := seqAll_good hk [] (by intro c hc; cases hc)
  have hj := joinWith_good (sep := []) (by intro c hc; cases hc) r2 r3
  rw [← flatten_eq_joinWith] at hj
  have := Bal_append hj.1 (bal_replicate _)
  have := this 0
  simp only [balanced, omml, ommlOut, beq_iff_eq]
  simpa using this

end S2T.Omml
