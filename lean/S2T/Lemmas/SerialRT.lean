import S2T.Lemmas.Serial
/-! Round-trip lemmas for C05. Core Lean only. -/
namespace S2T.Serial

theorem kBytesio_ne_kBytes : kBytesio ≠ kBytes := by decide
theorem kBytesio_ne_kType : kBytesio ≠ kType := by decide
theorem kBytes_ne_kType : kBytes ≠ kType := by decide

def strKeyed (L : List (Key × PyVal)) : Prop := ∀ e ∈ L, ∃ s, e.1 = Key.str s

theorem strKeys_of_strKeyed (L : List (Key × PyVal)) (h : strKeyed L) : strKeys L = L := by
  unfold strKeys
  have : ∀ e ∈ L, (fun kv : Key × PyVal => (Key.str (keyStr kv.1), kv.2)) e = id e := by
    intro e he
    obtain ⟨s, hs⟩ := h e he
    obtain ⟨k, v⟩ := e
    simp at hs; subst hs; simp [keyStr]
  rw [List.map_congr_left this]; simp

theorem strKeyed_strKeys (l : List (Key × PyVal)) : strKeyed (strKeys l) := by
  intro e he
  simp [strKeys] at he
  obtain ⟨a, b, _, rfl⟩ := he
  exact ⟨_, rfl⟩

theorem strKeyed_fieldKeys (l : List (Str × PyVal)) : strKeyed (fieldKeys l) := by
  intro e he
  simp [fieldKeys] at he
  obtain ⟨a, b, _, rfl⟩ := he
  exact ⟨_, rfl⟩

theorem strKeyed_mapVals (f : PyVal → PyVal) (L : List (Key × PyVal)) (h : strKeyed L) : strKeyed (mapVals f L) := by
  intro e he
  simp [mapVals] at he
  obtain ⟨a, b, hm, rfl⟩ := he
  exact h (a, b) hm

theorem strKeyed_normKeys (L : List (Key × PyVal)) (h : strKeyed L) : strKeyed (normKeys L) :=
  fun e he => h e (mem_normKeys L e he)

/-- serialising a dict whose entries are images under `f` of a str-keyed list -/
theorem ser_dict_norm (b : Bool) (f g : PyVal → PyVal) (L : List (Key × PyVal)) (hk : strKeyed L)
    (h : ∀ e ∈ L, ser b (f e.2) = g e.2) :
    ser b (.dict (normKeys (mapVals f L))) = .dict (normKeys (mapVals g L)) := by
  simp only [ser, serKVs_eq]
  rw [normKeys_mapVals f L, strKeys_of_strKeyed _ (strKeyed_mapVals f _ (strKeyed_normKeys L hk)),
    mapVals_mapVals, normKeys_mapVals, normKeys_idem, normKeys_mapVals]
  congr 1
  apply mapVals_congr
  intro e he
  exact h e (mem_normKeys L e he)

theorem ser_ser_dict (b : Bool) (kvs : List (Key × PyVal))
    (h : ∀ e ∈ kvs, ser b (ser true e.2) = ser true e.2) :
    ser b (ser true (.dict kvs)) = ser true (.dict kvs) := by
  have e1 : ser true (.dict kvs) = .dict (normKeys (mapVals (ser true) (strKeys kvs))) := by
    simp only [ser, serKVs_eq]
  rw [e1]
  apply ser_dict_norm b (ser true) (ser true) (strKeys kvs) (strKeyed_strKeys kvs)
  intro e he
  simp [strKeys] at he
  obtain ⟨a, v, hm, rfl⟩ := he
  exact h (a, v) hm

def objEntries (c : Str) (fs : List (Str × PyVal)) : List (Key × PyVal) := (Key.str kType, PyVal.str c) :: fieldKeys fs

theorem ser_obj_eq (b : Bool) (c : Str) (fs : List (Str × PyVal)) :
    ser b (.obj c fs) = .dict (normKeys (mapVals (ser b) (objEntries c fs))) := by
  simp [ser, serFields_eq, objEntries, mapVals]

theorem strKeyed_objEntries (c : Str) (fs : List (Str × PyVal)) : strKeyed (objEntries c fs) := by
  intro e he
  simp [objEntries] at he
  rcases he with rfl | he
  · exact ⟨_, rfl⟩
  · exact strKeyed_fieldKeys fs e he

theorem ser_ser_obj (b : Bool) (c : Str) (fs : List (Str × PyVal))
    (h : ∀ e ∈ fs, ser b (ser true e.2) = ser true e.2) :
    ser b (ser true (.obj c fs)) = ser true (.obj c fs) := by
  rw [ser_obj_eq]
  apply ser_dict_norm b (ser true) (ser true) _ (strKeyed_objEntries c fs)
  intro e he
  simp [objEntries] at he
  rcases he with rfl | he
  · simp [ser]
  · simp [fieldKeys] at he
    obtain ⟨a, v, hm, rfl⟩ := he
    exact h (a, v) hm

theorem ser_ser_list (b : Bool) (xs : List PyVal) (h : ∀ x ∈ xs, ser b (ser true x) = ser true x) :
    ser b (.list (serList true xs)) = .list (serList true xs) := by
  simp only [ser, serList_eq, List.map_map]
  congr 1
  apply List.map_congr_left
  intro x hx
  exact h x hx

mutual
/-- the serialiser is idempotent: serialised data is plain data -/
theorem ser_ser (b : Bool) : ∀ v, ser b (ser true v) = ser true v
  | .none => by simp [ser]
  | .bool _ => by simp [ser]
  | .int _ => by simp [ser]
  | .float _ => by simp [ser]
  | .str _ => by simp [ser]
  | .foreign _ => by simp [ser]
  | .bytes bs => by simp [ser, serKVs, normKeys, normGo, ins, keyStr]
  | .bytearray bs => by simp [ser, serKVs, normKeys, normGo, ins, keyStr]
  | .bytesio bs => by simp [ser, serKVs, normKeys, normGo, ins, keyStr]
  | .list xs => by simpa [ser] using ser_ser_list b xs (ser_ser_list' b xs)
  | .tuple xs => by simpa [ser] using ser_ser_list b xs (ser_ser_list' b xs)
  | .set xs => by simpa [ser] using ser_ser_list b xs (ser_ser_list' b xs)
  | .dict kvs => ser_ser_dict b kvs (ser_ser_kvs b kvs)
  | .obj c fs => ser_ser_obj b c fs (ser_ser_fields b fs)
theorem ser_ser_list' (b : Bool) : ∀ xs : List PyVal, ∀ x ∈ xs, ser b (ser true x) = ser true x
  | [] => by simp
  | y :: ys => by
    intro x hx
    rcases List.mem_cons.mp hx with h | hx
    · rw [h]; exact ser_ser b y
    · exact ser_ser_list' b ys x hx
theorem ser_ser_kvs (b : Bool) : ∀ kvs : List (Key × PyVal), ∀ e ∈ kvs, ser b (ser true e.2) = ser true e.2
  | [] => by simp
  | (k, v) :: r => by
    intro e he
    rcases List.mem_cons.mp he with h | he
    · rw [h]; exact ser_ser b v
    · exact ser_ser_kvs b r e he
theorem ser_ser_fields (b : Bool) : ∀ fs : List (Str × PyVal), ∀ e ∈ fs, ser b (ser true e.2) = ser true e.2
  | [] => by simp
  | (k, v) :: r => by
    intro e he
    rcases List.mem_cons.mp he with h | he
    · rw [h]; exact ser_ser b v
    · exact ser_ser_fields b r e he
end



/-! ## deserialiser helper lemmas -/

theorem deserList_map (S : Schema) (t : Ty) (f g : PyVal → PyVal) (xs : List PyVal)
    (h : ∀ x ∈ xs, deserValue S t (f x) = .ok (g x)) :
    deserList S t (xs.map f) = .ok (xs.map g) := by
  induction xs with
  | nil => simp [deserList]
  | cons x xs ih =>
    have h1 := h x (by simp)
    have h2 := ih (fun y hy => h y (List.mem_cons_of_mem _ hy))
    simp [deserList, h1, h2]

theorem deserKVs_mapVals (S : Schema) (t : Ty) (f g : PyVal → PyVal) (L : List (Key × PyVal))
    (h : ∀ e ∈ L, deserValue S t (f e.2) = .ok (g e.2)) :
    deserKVs S t (mapVals f L) = .ok (mapVals g L) := by
  induction L with
  | nil => simp [deserKVs, mapVals]
  | cons e L ih =>
    obtain ⟨k, v⟩ := e
    have h1 := h (k, v) (by simp)
    have h2 := ih (fun y hy => h y (List.mem_cons_of_mem _ hy))
    simp only [mapVals, List.map_cons] at h2 ⊢
    simp [deserKVs, h1, h2]

theorem dget_none (m : Str) (L : List (Key × PyVal)) (h : ∀ e ∈ L, e.1 ≠ Key.str m) : dget m L = none := by
  induction L with
  | nil => simp [dget, List.lookup]
  | cons e L ih =>
    obtain ⟨k, v⟩ := e
    have h1 : Key.str m ≠ k := fun e => h (k, v) (by simp) e.symm
    have hb : (Key.str m == k) = false := by simpa using h1
    have h2 := ih (fun y hy => h y (List.mem_cons_of_mem _ hy))
    simp only [dget] at h2 ⊢
    simp [List.lookup, hb, h2]

theorem dget_head (m : Str) (v : PyVal) (L : List (Key × PyVal)) : dget m ((Key.str m, v) :: L) = some v := by
  simp [dget, List.lookup]

theorem kType_ne_unit_index : (kType == kUnitIndex) = false := by decide
theorem kType_ne_image_index : (kType == kImageIndex) = false := by decide

theorem targetField_type (C : Class) (full : List (Key × PyVal)) (h : C.fieldNames.contains kType = false) :
    targetField C full (Key.str kType) = none := by
  unfold targetField
  simp only [h, Bool.false_eq_true, if_false]
  split
  · simp only [kType_ne_unit_index, kType_ne_image_index, Bool.false_and, Bool.false_eq_true, if_false]
  · rfl

theorem targetField_field (C : Class) (full : List (Key × PyVal)) (n : Str) (h : C.fieldNames.contains n = true) :
    targetField C full (Key.str n) = some n := by
  unfold targetField
  simp only [h, if_true]

theorem deserFields_fieldKeys (S : Schema) (C : Class) (full : List (Key × PyVal)) (f : PyVal → PyVal)
    (g : Str → PyVal → PyVal) (fs : List (Str × PyVal))
    (hn : ∀ e ∈ fs, C.fieldNames.contains e.1 = true)
    (h : ∀ e ∈ fs, deserValue S ((C.fieldTy e.1).getD .any) (f e.2) = .ok (g e.1 e.2)) :
    deserFields S C full (mapVals f (fieldKeys fs)) = .ok (fs.map (fun e => (e.1, g e.1 e.2))) := by
  induction fs with
  | nil => simp [deserFields, mapVals, fieldKeys]
  | cons e fs ih =>
    obtain ⟨n, v⟩ := e
    have h1 := h (n, v) (by simp)
    have hn1 := hn (n, v) (by simp)
    have h2 := ih (fun y hy => hn y (List.mem_cons_of_mem _ hy)) (fun y hy => h y (List.mem_cons_of_mem _ hy))
    simp only [mapVals, fieldKeys, List.map_cons, List.map_map] at h2 ⊢
    simp only [deserFields, targetField_field C full n hn1]
    simp at h1
    simp [h1, h2]

/-- `cls(**kwargs)` with every field present gives exactly the kwargs, in field order -/
theorem fillFields_all (fields : List Field) (got pre : List (Str × PyVal))
    (hnames : got.map (·.1) = fields.map (·.name))
    (hdis : ∀ e ∈ pre, e.1 ∉ got.map (·.1))
    (hnd : (got.map (·.1)).Nodup) :
    fillFields (pre ++ got) fields = .ok got := by
  induction fields generalizing got pre with
  | nil =>
    cases got with
    | nil => simp [fillFields]
    | cons _ _ => simp at hnames
  | cons f fs ih =>
    cases got with
    | nil => simp at hnames
    | cons e gr =>
      obtain ⟨n, w⟩ := e
      simp at hnames
      obtain ⟨hn, hrest⟩ := hnames
      subst hn
      have hl : (pre ++ (f.name, w) :: gr).lookup f.name = some w := by
        induction pre with
        | nil => simp
        | cons p pre ihp =>
          obtain ⟨pn, pv⟩ := p
          have : f.name ≠ pn := by
            intro e
            have := hdis (pn, pv) (by simp)
            simp at this
            exact this.1 e.symm
          simp only [List.cons_append, List.lookup]
          have hb : (f.name == pn) = false := by simpa using this
          rw [hb]
          exact ihp (fun e he => hdis e (List.mem_cons_of_mem _ he))
      have hnd' : (gr.map (·.1)).Nodup := (List.nodup_cons.mp (by simpa using hnd)).2
      have hnotin : f.name ∉ gr.map (·.1) := (List.nodup_cons.mp (by simpa using hnd)).1
      have ih' := ih gr (pre ++ [(f.name, w)]) (by simpa using hrest)
        (by
          intro e he
          simp at he
          rcases he with he | he
          · have := hdis e he
            simp at this
            simpa using this.2
          · rw [he]; exact hnotin)
        hnd'
      simp only [fillFields, hl]
      have e2 : pre ++ (f.name, w) :: gr = (pre ++ [(f.name, w)]) ++ gr := by simp
      rw [e2, ih']

theorem postInit_stable (strip? : List Str) (got : List (Str × PyVal))
    (h : ∀ e ∈ got, stripStable strip? e.1 e.2 = true) : postInit strip? got = .ok got := by
  induction got with
  | nil => simp [postInit]
  | cons e got ih =>
    obtain ⟨n, v⟩ := e
    have h1 := h (n, v) (by simp)
    have h2 := ih (fun y hy => h y (List.mem_cons_of_mem _ hy))
    simp only [postInit]
    by_cases hc : strip?.contains n = true
    · simp only [stripStable, hc, if_true] at h1
      cases v <;> simp at h1
      simp only [hc, if_true, h2, h1]
    · simp only [hc, h2]
      rfl

end S2T.Serial
